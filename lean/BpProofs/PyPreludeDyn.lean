import BpProofs.PyPrelude
import BpModel.Dump
import BpModel.Len
/-
  Semantic prelude of the SOURCE TRANSLATOR for the per-field emission decision of
  `Message.dump` / `Message.__len__` (harness/extract_srcdump.py → BpProofs/Gen/SrcDump.lean).

  The body of the `for field_name, meta in self._betterproto.meta_by_field_name.items():`
  loop of both methods is dynamically typed Python over the attribute value of one field.
  REPRESENTATION: a Python value is a `Val` (BpModel/Value.lean), a `FieldMetadata`
  together with the resolved type hint of the field is a `FieldD` (BpModel/Schema.lean),
  the stream is the `Bytes` written so far.  What is ASSUMED (trusted, not proved) is
  this file: that each dynamic operation of the loop body means, on that representation,
  what is written next to it, and that the translator maps syntax to these functions
  faithfully (one construct ↦ one function).  BpProofs/SrcTieDump.lean proves the
  translated loop bodies equal to the model's `dumpSlot` / `lenSlot`.

  INTRINSICS (calls that are NOT translated here, they stand for model functions):
  `_preprocess_single`, `_serialize_single`, `_len_single` (their varint / key / framing
  halves are translated and tied by extract_src.py / SrcTie.lean) and `bytes(message)`,
  the recursive encoder, which the translated function takes as the parameter `enc`.
-/
namespace Bp.Py

/-! ### `getattr(self, field_name)` -/

/-- what `try: value = getattr(self, field_name) / except AttributeError:` observes -/
inductive Got where
  | attrError          -- `Message.__getattribute__` raised: unselected member of a oneof
  | value (v : Val)    -- the attribute value
  deriving Inhabited

/-- `getattr(self, field_name)` on the raw slot `v` of field `f` (`hid` = the field is a
    oneof member that is not the selected one): AttributeError; a PLACEHOLDER slot is
    first materialised to `self._get_field_default(field_name)` (lazy default), any other
    slot value is returned as it is. -/
def getattrField (S : Schema) (f : FieldD) (hid : Bool) (v : Val) : Got :=
  if hid then .attrError
  else
    match v with
    | .ph => .value (defaultOf S f)
    | v => .value v

/-! ### tests on the value -/

/-- `value is None` -/
def isNone : Val → Bool
  | .none => true
  | _ => false
/-- `isinstance(value, Message)` (datetime / timedelta / wrapped scalars are not Messages) -/
abbrev isMessage (v : Val) : Bool := isMsgVal v
/-- `isinstance(value, list)` -/
def isList : Val → Bool
  | .list _ => true
  | _ => false
/-- `isinstance(value, dict)` -/
def isDict : Val → Bool
  | .dict _ _ => true
  | _ => false
/-- `isinstance(value, str)` -/
def isStr : Val → Bool
  | .str _ => true
  | _ => false
/-- `isinstance(value, bytes)` -/
def isBytes : Val → Bool
  | .byt _ => true
  | _ => false
/-- truth value of a field value (`not value`, `bool(value)`, `if value`): None, 0, 0.0, -0.0, False,
    empty str / bytes / list / dict and `timedelta(0)` are falsy, a datetime is always truthy, a
    Message goes through `Message.__bool__` (some raw slot is neither PLACEHOLDER nor equal to its
    default, i.e. the negation of the model's `slotsEqFresh`) -/
def truthyVal (S : Schema) : Val → Bool
  | .ph => true
  | .none => false
  | .int v => v != 0
  | .bool b => b
  | .f32 b => !f32IsZero b
  | .f64 b => !f64IsZero b
  | .str s => !s.isEmpty
  | .byt s => !s.isEmpty
  | .ts _ => true
  | .dur us => us != 0
  | .list xs => !xs.isEmpty
  | .dict ks _ => !ks.isEmpty
  | .msg c slots _ _ _ => !slotsEqFresh S (fieldsOf S c) slots
/-- `value._serialized_on_wire`: the flag of a Message instance, AttributeError on anything else -/
def serializedOnWire : Val → Res Bool
  | .msg _ _ ow _ _ => .ok ow
  | _ => .raise .attr
/-- `value == self._get_field_default(field_name)` for the field described by `meta`: the
    model's `eqDefault` against the kind of default `_get_field_default` builds (for a message
    default: `Message.__eq__` against a fresh instance) -/
abbrev eqFieldDefault (S : Schema) (meta' : FieldD) (v : Val) : Bool := eqDefault S meta'.defKind v
/-- `value == ""` (False for every value that is not a str, `b""` included) -/
def eqEmptyStr : Val → Bool
  | .str s => s.isEmpty
  | _ => false
/-- the items of a value known to be a list (`for item in value:` under `isinstance(value, list)`;
    the translator refuses the loop anywhere else) -/
def listItems : Val → List Val
  | .list xs => xs
  | _ => []
/-- `value.items()` of a value known to be a dict (translated only under
    `isinstance(value, dict)`): keys and values are stored as two parallel lists -/
def dictItems : Val → List (Val × Val)
  | .dict ks vs => ks.zip vs
  | _ => []
/-- a `bytes` / `bytearray` object passed where a field value is expected -/
def bytesVal (b : Bytes) : Val := .byt b

/-! ### `FieldMetadata` attributes -/

/-- `meta.group`: the oneof group of the field, None outside a oneof -/
abbrev metaGroup (meta' : FieldD) : Option Nat := meta'.group
/-- `bool(meta.group)`: a group name is a non-empty string -/
abbrev truthyGroup (g : Option Nat) : Bool := g.isSome
/-- `meta.optional` (False / None / True; only its truth value is used) -/
abbrev metaOptional (meta' : FieldD) : Bool := meta'.optional
/-- `meta.proto_type` -/
abbrev metaProtoType (meta' : FieldD) : PType := meta'.ty
/-- `meta.number` -/
abbrev metaNumber (meta' : FieldD) : Nat := meta'.num
/-- `meta.wraps`: None, or the (non-empty) name of the wrapped scalar type -/
abbrev metaWraps (meta' : FieldD) : Option PType := meta'.wraps
/-- the str `""` where a `wraps` argument is expected: no wrapper -/
abbrev noWraps : Option PType := Option.none
/-- `a or b` on two `wraps` values (None and "" are both falsy) -/
def wrapsOr (a b : Option PType) : Option PType := if a.isSome then a else b
/-- truth value of `meta.map_types`: `map_field` is the only constructor that sets it, and
    it sets `proto_type = TYPE_MAP` -/
abbrev mapTypesSet (meta' : FieldD) : Bool := meta'.ty == .map
/-- `meta.map_types[0]`, `meta.map_types[1]` -/
abbrev metaMapKey (meta' : FieldD) : PType := meta'.mapK
abbrev metaMapValue (meta' : FieldD) : PType := meta'.mapV

/-! ### `x or y` on bytes / ints -/

/-- `a or b` on bytes -/
def bytesOr (a b : Bytes) : Bytes := if a.isEmpty then b else a
/-- `a or b` on ints -/
def intOr (a b : Int) : Int := if a = 0 then b else a

/-! ### intrinsics: the single-value encoders -/

/-- `_preprocess_single(proto_type, wraps, value)` as a model function.  For a Message
    instance under `TYPE_MESSAGE` without `wraps` it is `bytes(value)`, i.e. the recursive
    encoder `enc`; everything else is the model's `prepScalar` (which also says which
    exception an ill-typed value raises). -/
def preprocessSingleR (S : Schema) (enc : Val → R Bytes) (t : PType) (wraps : Option PType) (v : Val) : R Bytes :=
  if isMsgVal v && t == .message && wraps.isNone then enc v else prepScalar S t wraps v

def preprocessSingle (S : Schema) (enc : Val → R Bytes) (t : PType) (wraps : Option PType) (v : Val) : Res Bytes :=
  ofR (preprocessSingleR S enc t wraps v)

/-- `_serialize_single(field_number, proto_type, value, serialize_empty=…, wraps=…)`:
    `_preprocess_single` then the model's `frame` (tied to the source by
    `SrcTie.serialize_frame_eq`) -/
def serializeSingleR (S : Schema) (enc : Val → R Bytes) (num : Nat) (t : PType) (v : Val) (se : Bool)
    (wraps : Option PType) : R Bytes :=
  (preprocessSingleR S enc t wraps v).bind fun pre => frame num t pre se wraps.isSome

def serializeSingle (S : Schema) (enc : Val → R Bytes) (num : Nat) (t : PType) (v : Val) (se : Bool)
    (wraps : Option PType) : Res Bytes :=
  ofR (serializeSingleR S enc num t v se wraps)

/-- `_len_preprocessed_single`: `len(bytes(value))` for a Message instance, else the model's `sizeScalar` -/
def lenPreprocessedSingleR (S : Schema) (enc : Val → R Bytes) (t : PType) (wraps : Option PType) (v : Val) : R Nat :=
  if isMsgVal v && t == .message && wraps.isNone then (enc v).bind fun b => .ok b.length
  else sizeScalar S t wraps v

/-- `_len_single(field_number, proto_type, value, serialize_empty=…, wraps=…)`:
    `_len_preprocessed_single` then the model's `lenFrame` (tied to the source by
    `SrcTie.len_frame_eq`) -/
def lenSingleR (S : Schema) (enc : Val → R Bytes) (num : Nat) (t : PType) (v : Val) (se : Bool)
    (wraps : Option PType) : R Nat :=
  (lenPreprocessedSingleR S enc t wraps v).bind fun size => lenFrame num t size se wraps.isSome

def lenSingle (S : Schema) (enc : Val → R Bytes) (num : Nat) (t : PType) (v : Val) (se : Bool)
    (wraps : Option PType) : Res Int :=
  ofR ((lenSingleR S enc num t v se wraps).map fun (n : Nat) => (n : Int))

end Bp.Py
