import BpProofs.PyPrelude
import BpModel.EnumM
/-
  Semantic prelude of the SOURCE TRANSLATOR for src/betterproto/enum.py
  (harness/extract_srcenum.py → BpProofs/Gen/SrcEnum.lean): what the operations the
  methods of `EnumType` / `Enum` use mean on the class state of the model (BpModel/EnumM.lean).

  What is ASSUMED (trusted, not proved) is this file (with `Py.Res` of PyPrelude.lean) and that
  the translator maps syntax to these functions faithfully:

    * THE CLASS OBJECT (`ClsObj`).  An enum class is its `_value_map_` and `_member_map_` dicts,
      the number of `cls.__new__` calls made so far (these three are the model's `Cls`) and the
      attributes bound on its per-enum metaclass by `type.__setattr__(new_mcs, name, member)`
      (`vars`).  `cls._value_map_` / `cls._member_map_` read the two dicts (`valueMap`,
      `memberMap`).  In `EnumType.__new__` the locals `value_map` / `member_map` ARE these dicts
      (the translator checks that they are created empty and handed to the metaclass as
      `{"_value_map_": value_map, "_member_map_": member_map}`), so a store through the local is a
      store into the class (`setValueMap`, `setMemberMap`).  A new class has empty dicts and no
      member object (`newClass`).
    * DICTS are insertion-ordered association lists with pairwise distinct keys.
      `d.get(k)` (`dictGet`) and `d[k]` (`dictItem`, KeyError when absent) are the model's `assoc`.
      `d[k] = v` (`dictSet`): a key that is PRESENT keeps its position and gets the new value
      (replace); an ABSENT key is appended at the end.  Whether a replace can happen in the member
      loop is proved, not assumed (SrcTieEnum.lean): never for `value_map` (the store is guarded by
      `get(value) is None`: `new_step_valueMap`), and for `member_map` exactly when a name is
      declared twice, which the `members` dict excludes (`NamesNodup`; under it every store is an
      append: `new_loop_eq`).  `d.setdefault(k, v)` (`dictSetdefault`) and the truth value of a member
      (`memberTruthy`: its int value is not 0) do not occur in the source as it is; they are there
      so that variants of the loop that use them are translated and REFUTED rather than rejected.
      `len(d)` (`dictLen`), `d.values()` (`dictValues`, in insertion
      order), `reversed(…)` (`reversedL`), `k in d` (`keyIn`; `nameIn` for a key that may be None:
      None is hashable and is never a member name).
    * `try: <lookup> except (A, B): <handler>`: the lookup either gives a value or raises ONE
      exception class (`Py.Res`); the handler runs when that class is among the listed ones
      (`catches`; the classes that occur — KeyError, TypeError, ValueError, AttributeError — are
      unrelated in Python's hierarchy).  A dict lookup raises KeyError only.  **TypeError (an
      unhashable argument such as a list) is OUTSIDE the model**: arguments are `Int` / names, which
      are hashable, so the TypeError alternative of the handlers of `__call__` / `try_value` is
      never taken here; that it leads to the same handler is visible in the translated text.
    * `cls.__new__(cls, name=…, value=…)` (`newMember`) is `Enum.__new__`: a NEW object — its
      identity `oid` is the allocation count, which is then incremented — whose `int` value and
      `.value` attribute are `value` (the model's single `number`) and whose `.name` is `name`
      (None for an open value).  `Enum.__new__` itself (`int.__new__` + two `object.__setattr__`)
      is not translated; the translator checks its parameter list only.
    * `raise X(msg)` / `raise X(msg) from None` / `… from e` raise class X; messages (f-strings over
      `cls.__name__`, the argument, …) and the `__cause__` are not modelled.  A function annotated
      `-> Never` is translated to `Py.Res Empty`: it cannot return.
    * `yield from xs` as the only statement of a generator: the generator yields exactly `xs`.
    * AN ARBITRARY OBJECT (`Obj`, the `member: object` argument of `__contains__`) is a member-like
      object of this class or a plain int.  `isinstance(o, cls)` (`isInstance`) holds for the former
      (there is one class in the model; `EnumType` defines no `__instancecheck__`: checked);
      `o.name` (`objName`) raises AttributeError on a plain int.  `self.name` / `self.value` of a
      member are `Member.name` / `Member.number`.
    * `return self` of `__copy__` / `__deepcopy__` returns the argument object itself (same `oid`).
    * `__getnewargs_ex__` returns `((), {"name": …, "value": …})` (`NewArgs`); unpickling
      (`copyreg.__newobj_ex__`: `cls.__new__(cls, *args, **kwargs)`) is `unpickle`.  That pickle
      uses `__getnewargs_ex__` holds because `Enum` defines no `__reduce__` / `__reduce_ex__` /
      `__getstate__` / `__getnewargs__` (checked by the translator).
    * `Any`-annotated parameters (`AnyVal`) are opaque: no operation on them is translated.
  BpProofs/SrcTieEnum.lean proves the translated functions equal to the model's `declare`, `mk`,
  `call`, `getitem`, `fromString`, `tryValue`, `iter`, `len`, `contains`, `step`.
-/
namespace Bp.PyEnum
open Bp Bp.EnumM

/-- the class object: the model's class state + the attributes bound on the per-enum metaclass -/
structure ClsObj (ν : Type) where
  st : Cls ν
  vars : List (ν × Member ν) := []

/-- an argument annotated `Any`: nothing is known about it, nothing is done with it -/
inductive AnyVal where
  | opaque

/-- an argument annotated `object`: an object of the enum class, or a plain int -/
inductive Obj (ν : Type) where
  | member (m : Member ν)
  | int (i : Int)

/-- the two keyword arguments `__getnewargs_ex__` returns (with the empty positional tuple) -/
structure NewArgs (ν : Type) where
  name : Option ν
  value : Int
  deriving DecidableEq, Repr

variable {ν : Type}

/-- the class right after `cls = type.__new__(new_mcs, …)`: `value_map = {}`, `member_map = {}`,
    no object allocated, no member attribute bound -/
def newClass : ClsObj ν := { st := {}, vars := [] }

/-- `cls._value_map_` (in `__new__`: the local handed to the metaclass under that key) -/
def valueMap (c : ClsObj ν) : List (Int × Member ν) := c.st.valueMap
/-- `cls._member_map_` -/
def memberMap (c : ClsObj ν) : List (ν × Member ν) := c.st.memberMap
/-- the class after a store into `_value_map_` / `_member_map_` / the metaclass attributes -/
def setValueMap (c : ClsObj ν) (d : List (Int × Member ν)) : ClsObj ν := { c with st := { c.st with valueMap := d } }
def setMemberMap (c : ClsObj ν) (d : List (ν × Member ν)) : ClsObj ν := { c with st := { c.st with memberMap := d } }

/-- `d.get(k)` -/
def dictGet {κ β : Type} [DecidableEq κ] (d : List (κ × β)) (k : κ) : Option β := assoc k d

/-- `d[k]`: KeyError when the key is absent -/
def dictItem {κ β : Type} [DecidableEq κ] (d : List (κ × β)) (k : κ) : Py.Res β :=
  match assoc k d with
  | some b => .ok b
  | none => .raise .key

/-- `d[k] = b`: replace in place when `k` is present, append otherwise -/
def dictSet {κ β : Type} [DecidableEq κ] : List (κ × β) → κ → β → List (κ × β)
  | [], k, b => [(k, b)]
  | (k', b') :: rest, k, b => if k = k' then (k', b) :: rest else (k', b') :: dictSet rest k b

/-- `d.setdefault(k, b)`: the value under `k` when present (the dict is unchanged), otherwise `b`,
    which is appended under `k`: (returned value, dict afterwards) -/
def dictSetdefault {κ β : Type} [DecidableEq κ] (d : List (κ × β)) (k : κ) (b : β) : β × List (κ × β) :=
  match assoc k d with
  | some x => (x, d)
  | none => (b, d ++ [(k, b)])

/-- truth value of a member object (`m or …`, `if m:`): `int.__bool__` — false exactly for the number 0
    (`Enum` defines neither `__bool__` nor `__len__`: checked by the translator) -/
def memberTruthy (m : Member ν) : Bool := m.number != 0

/-- `type.__setattr__(new_mcs, name, member)`: bind the member as an attribute of the metaclass -/
def setClassVar [DecidableEq ν] (c : ClsObj ν) (n : ν) (m : Member ν) : ClsObj ν :=
  { c with vars := dictSet c.vars n m }

/-- `getattr(cls, name)` for a name bound by the member loop (ordinary attribute lookup finds it on
    the metaclass); AttributeError otherwise -/
def classVar [DecidableEq ν] (c : ClsObj ν) (n : ν) : Py.Res (Member ν) :=
  match assoc n c.vars with
  | some m => .ok m
  | none => .raise .attr

/-- `len(d)` -/
def dictLen {κ β : Type} (d : List (κ × β)) : Int := (d.length : Nat)
/-- `d.values()`, in insertion order -/
def dictValues {κ β : Type} (d : List (κ × β)) : List β := d.map (·.2)
/-- `reversed(xs)` -/
def reversedL {β : Type} (xs : List β) : List β := xs.reverse
/-- `k in d` -/
def keyIn {κ β : Type} [DecidableEq κ] (k : κ) (d : List (κ × β)) : Bool := (assoc k d).isSome
/-- `k in d` for a key that may be None (never a key of `_member_map_`) -/
def nameIn {β : Type} [DecidableEq ν] (k : Option ν) (d : List (ν × β)) : Bool :=
  match k with
  | none => false
  | some n => (assoc n d).isSome

/-- does `except (classes)` handle an exception of class `e` -/
def catches (classes : List PyErr) (e : PyErr) : Bool := classes.contains e

/-- `cls.__new__(cls, name=name, value=value)`: a fresh object; the allocation count goes up -/
def newMember (c : ClsObj ν) (name : Option ν) (value : Int) : Member ν × ClsObj ν :=
  ({ name := name, number := value, oid := c.st.next }, { c with st := { c.st with next := c.st.next + 1 } })

/-- `isinstance(o, cls)` -/
def isInstance (o : Obj ν) (_c : ClsObj ν) : Bool :=
  match o with
  | .member _ => true
  | .int _ => false

/-- `o.name`: AttributeError on a plain int -/
def objName (o : Obj ν) : Py.Res (Option ν) :=
  match o with
  | .member m => .ok m.name
  | .int _ => .raise .attr

/-- `pickle.loads(pickle.dumps(m))` given what `m.__getnewargs_ex__()` returned:
    `cls.__new__(cls, **kwargs)` -/
def unpickle (c : ClsObj ν) (a : NewArgs ν) : Member ν × ClsObj ν := newMember c a.name a.value

end Bp.PyEnum
