import BpProofs.PyPreludeDyn
import BpModel.Json
/-
  Semantic prelude of the SOURCE TRANSLATOR for the JSON / dict reader
  (harness/extract_srcfromdict.py → BpProofs/Gen/SrcFromDict.lean): the body of

      for key, value in mapping.items():

  of `Message._from_dict_init` and the two forms of `Message.from_dict`.

  REPRESENTATION.  A key of the mapping is a `JKey`, a value found in the mapping (a JSON-side
  Python object: None, bool, int, float, str, list, dict, …) is a `JVal`, a value stored in a
  field (what the conversions produce) is a `Val`, a `FieldMetadata` with the resolved type hint
  of the field is a `FieldD` (all BpModel).  A Python field NAME is its `List Char`;
  `init_kwargs` (a `Dict[str, Any]`) is the ordered association list `Kwargs` from field names
  to values, in insertion order, WITHOUT repeated keys (`dictSet`).  A class object found in
  `cls_by_field` is a `Cls`.  `cls` is the pair `S c` (schema, index of the class).

  What is ASSUMED (trusted, not proved) is this file: that each dynamic operation of the loop
  body means, on that representation, what is written next to it, and that the translator maps
  syntax to these functions faithfully (one construct ↦ one function).
  BpProofs/SrcTieFromDict.lean proves the translated step equal to the model's per-pair action
  of `fromDictKV` (BpModel/Json.lean).

  INTRINSICS (calls that are NOT translated, they stand for the model's leaf codecs, whose text
  formats are abstract in the model — DESIGN 3.2 — and validated by the correspondence run):
  `safe_snake_case`, `int`, `b64decode`, `_parse_enum`, `_parse_float`, `isoparse`,
  `_Duration.delta_from_json`; and `sub_cls.from_dict(item)`, the recursive reader of another
  class, which the translated function takes as the parameter `dec`.
-/
set_option linter.unusedVariables false
namespace Bp.Py

/-- `init_kwargs`: field name ↦ value, in insertion order, no repeated key -/
abbrev Kwargs := List (List Char × Val)

/-- a class object found in `cls._betterproto.cls_by_field` -/
inductive Cls where
  | datetime                 -- `datetime.datetime`
  | timedelta                -- `datetime.timedelta`
  | message (c : Nat)        -- a generated message class, by index into the schema
  | enum (e : EnumDef)       -- a generated enum class
  | other                    -- anything else (the Python type of a wrapped scalar, a map `Entry` class, …)
  deriving Inhabited

/-- `List.mapM` for `Res` (a comprehension whose element expression can raise: the first
    exception, in list order, ends it) -/
def mapMRes {α β : Type} (g : α → Res β) : List α → Res (List β)
  | [] => .ok []
  | x :: xs => (g x).bind fun y => (mapMRes g xs).bind fun ys => .ok (y :: ys)

/-! ### the key -/

/-- `safe_snake_case(key)` (betterproto/casing.py; the model's `Casing.safeSnake`, which C19's
    theorems are about): TypeError from `re.sub` on a key that is not a str -/
def safeSnakeCase : JKey → Res (List Char)
  | .str bs => .ok (Casing.safeSnake (bs.map Char.ofNat))
  | _ => .raise .type

/-- `cls._betterproto.meta_by_field_name[field_name]` inside `try … except KeyError`:
    `none` = KeyError.  The dict is keyed by the names of the dataclass fields in declaration
    order (`findName` returns the first field with that name). -/
def metaByFieldName (S : Schema) (c : Nat) (name : List Char) : Option FieldD :=
  (findName (fieldsOf S c) name 0).map (·.2)

/-- the class `_get_cls_by_field` records for a field: for a `message` field the class in the
    type hint (datetime / timedelta / a message class; for a wrapper field the Python type of
    the wrapped scalar: `other`), for an `enum` field the enum class, else not one of these -/
def clsOfField (E : Enums) (f : FieldD) : Cls :=
  if f.ty == .message then
    if f.wraps.isSome then .other
    else match f.kind with
      | .user c => .message c
      | .timestamp => .datetime
      | .duration => .timedelta
  else if f.ty == .enum then .enum (enumOf E f)
  else .other

/-- `cls._betterproto.cls_by_field[field_name]` (KeyError for a name that is not a field) -/
def fdClsByField (S : Schema) (E : Enums) (c : Nat) (name : List Char) : Res Cls :=
  match findName (fieldsOf S c) name 0 with
  | some (_, f) => .ok (clsOfField E f)
  | Option.none => .raise .key

/-- `cls._betterproto.cls_by_field[f"{field_name}.value"]`: the class of the VALUES of a map
    field (only map fields have such an entry: KeyError otherwise) -/
def clsByFieldMapValue (S : Schema) (E : Enums) (c : Nat) (name : List Char) : Res Cls :=
  match findName (fieldsOf S c) name 0 with
  | some (_, f) =>
    if f.ty == .map then
      .ok (if f.mapV == .message then
             (match f.mapVKind with
              | .user c => .message c
              | .timestamp => .datetime
              | .duration => .timedelta)
           else if f.mapV == .enum then .enum (enumOf E f)
           else .other)
    else .raise .key
  | Option.none => .raise .key

/-- `sub_cls == datetime`, `sub_cls == timedelta` (identity of class objects) -/
def fdClsIsDatetime : Cls → Bool
  | .datetime => true
  | _ => false
def fdClsIsTimedelta : Cls → Bool
  | .timedelta => true
  | _ => false

/-! ### tests on the JSON-side value -/

/-- `value is None` -/
def jIsNone : JVal → Bool
  | .null => true
  | _ => false
/-- `isinstance(value, list)` -/
def jIsList : JVal → Bool
  | .arr _ => true
  | _ => false
/-- `isinstance(value, dict)` -/
def jIsDict : JVal → Bool
  | .obj _ _ => true
  | _ => false

/-! ### the leaf conversions (intrinsics: the model's abstract leaf codecs) -/

/-- `int(value)` -/
def intOf (j : JVal) : Res Val := ofR (Bp.intOf j)
/-- `b64decode(value)` -/
def b64decode (j : JVal) : Res Val := ofR (Bp.b64dec j)
/-- `_parse_enum(enum_cls, value)`: `from_string` for a str, `try_value` otherwise (the field
    then holds the member's number) -/
def parseEnum (cls : Cls) (j : JVal) : Res Val :=
  match cls with
  | .enum e => ofR (Bp.parseEnum e j)
  | _ => .raise .attr              -- `from_string` / `try_value` on a class that is not an Enum
/-- `_parse_float(value)` for the field described by `meta`: a Python float is represented by
    the bit pattern of the field's width (`f32` in a `float` field, `f64` in a `double` field) -/
def parseFloat (meta' : FieldD) (j : JVal) : Res Val := ofR (Bp.parseFloat meta'.ty j)
/-- `dateutil.parser.isoparse(value)` -/
def isoparse (j : JVal) : Res Val := ofR (Bp.isoparse j)
/-- `_Duration.delta_from_json(value)` -/
def deltaFromJson (j : JVal) : Res Val := ofR (Bp.durParse j)
/-- `sub_cls.from_dict(item)`: the class form of `from_dict` of a message class is the
    parameter `dec`; datetime / timedelta / an enum / a builtin type have no `from_dict`
    (AttributeError) -/
def clsFromDict (dec : Nat → JVal → R Val) (cls : Cls) (j : JVal) : Res Val :=
  match cls with
  | .message c => ofR (dec c j)
  | _ => .raise .attr

/-! ### comprehensions -/

/-- `[<g item> for item in value]` for a value known to be a list (the translator emits it
    only under `isinstance(value, list)`) -/
def listComp (g : JVal → Res Val) : JVal → Res Val
  | .arr xs => (mapMRes g xs).bind fun vs => .ok (.list vs)
  | _ => .ok (.list [])
/-- `{k: <g v> for k, v in value.items()}`: keys kept (a dict is stored as two parallel
    lists), values mapped in order; AttributeError (`.items`) on anything that is not a dict -/
def dictCompValues (g : JVal → Res Val) : JVal → Res Val
  | .obj ks vs => (mapMRes g vs).bind fun vals => .ok (.dict (ks.map keyV) vals)
  | _ => .raise .attr

/-! ### storing -/

/-- a JSON-side value stored in a field AS IT IS (no conversion branch applied): the same
    Python object seen as a field value (`notImpl` where the model keeps the text of a leaf
    abstract: base64 / RFC 3339 / duration / "Infinity" strings) -/
def asFieldValue (j : JVal) : Res Val := ofR (unRaw j)

/-- `init_kwargs[field_name] = value`: insert at the end, or REPLACE the value of a key that is
    already there (which keeps its first position) — a repeated field name keeps one entry,
    with the last value -/
def dictSet : Kwargs → List Char → Val → Kwargs
  | [], n, v => [(n, v)]
  | (m, w) :: rest, n, v => if m = n then (m, v) :: rest else (m, w) :: dictSet rest n v

/-! ### the two forms of `from_dict` -/

/-- the keyword arguments by field INDEX (`meta_by_field_name` position of the name), as the
    model's constructor / `setattr` take them; a name that is no field is dropped (cannot
    happen: every key of `init_kwargs` passed the `meta_by_field_name` lookup) -/
def resolveKw (fs : List FieldD) : Kwargs → List (Nat × Val)
  | [] => []
  | (n, v) :: rest =>
    match findName fs n 0 with
    | some (i, _) => (i, v) :: resolveKw fs rest
    | Option.none => resolveKw fs rest

/-- `cls(**init_kwargs)`: dataclass `__init__` + `__post_init__` (the model's `construct`) -/
def construct (S : Schema) (c : Nat) (kw : Kwargs) : Val := Bp.construct S c (resolveKw (fieldsOf S c) kw)

/-- `self._serialized_on_wire = True` (plain attribute write; no-op on the representation of
    anything that is not a message instance) -/
def setSerializedOnWire : Val → Val
  | .msg c sl _ unk cur => .msg c sl true unk cur
  | v => v

/-- `setattr(self, field, value)` through `Message.__setattr__` (the model's `setAttr`) -/
def setattrField (S : Schema) (self : Val) (name : List Char) (v : Val) : Val :=
  match stateOf self with
  | some (c, st) =>
    (match findName (fieldsOf S c) name 0 with
     | some (i, _) => (setAttr S (fieldsOf S c) st i v).toVal c
     | Option.none => self)
  | Option.none => self

end Bp.Py
