import BpModel.GrpcCall
/-
  Semantic prelude of the SOURCE TRANSLATOR for the gRPC call protocol (harness/extract_srcgrpc.py →
  BpProofs/Gen/SrcGrpc.lean): the five client helpers + `_send_messages` of grpclib_client.py,
  `ServiceBase._call_rpc_handler_server_stream` of grpclib_server.py, and the stub methods / `__rpc_*` adapters /
  default Base methods / `__mapping__` of the probe service as RENDERED by template.py.j2.

  What each Python construct the translator accepts MEANS (trusted, not proved — exactly this file, the construct ↦
  function map of the translator, and the model of the grpclib stream at the head of BpModel/GrpcCall.lean):

  client side
    * `self` of a `ServiceStub` is the record of its three defaults (`Kw α`: `self.timeout`, `self.deadline`,
      `self.metadata`); a value of a request keyword is an `Option α` (`None` / set), `x is None` is `isNone`.
    * a dict display with constant keys used as `**kwargs` of `channel.request` is the record of the three keywords
      grpclib's `Channel.request` takes by name (`kwDict`; an absent key is the default `None`).
    * `async with self.channel.request(route, Cardinality.X, req_type, resp_type, **kw) as stream: BODY` followed by
      AFTER is `asyncWith (channelRequest …) BODY AFTER`: the operations of BODY, `exitCtx` (`Stream.__aexit__`),
      the operations of AFTER.  An exception inside BODY leaves through `__aexit__`, which re-raises it: the model's
      `failM`.
    * `await stream.send_request()`, `await stream.send_message(m, end=b)`, `await stream.end()`,
      `x = await stream.recv_message()`, `async for v in stream: yield v`, `assert x is not None`, `return x` are the
      operations of `COp` / `SOp` (`x` must be the one local the translator tracks as `response`).
    * the request source (`MessageSource`) is a finite list of messages that are all there (`Source.items`), either
      behind an `AsyncIterable` or an `Iterable` (`Source.isAsync`); `for` / `async for` over it runs the body once
      per item in order (`forEach`).  A source that waits between items, or reacts to responses, is NOT modelled
      (the schedule of the sender task stands for the former).
    * `await self._send_messages(stream, it)` performs that coroutine's operations in line (`awaitInline`);
      `asyncio.ensure_future(self._send_messages(stream, it))` starts them as a second task (`COp.spawn`);
      `try: BODY except: sending_task.cancel(); raise` is BODY (`tryCancel`): the cancellation of the sender task
      after a failure is NOT modelled (the failed call's result is already determined).
    * a generated stub method `return await self._h(…)` / `async for r in self._h(…): yield r` passes the helper's
      result / items through unchanged (`returnAwait`, `asyncForYield`).

  server side
    * `request = await stream.recv_message()` is `VProg.recvA`, `stream.__aiter__()` is the request iterator
      (`ReqArg.iterator`); `handler(request)` builds the coroutine / async-generator OBJECT without running anything
      (`callHandler`); `isinstance(obj, AsyncIterable)` is "the handler is an async generator function";
      `async for v in obj: BODY` starts the handler's body (ONE invocation) and runs BODY per yielded item, a
      GRPCError raised by the handler leaves the adapter (`asyncFor`, `genLoop`); `obj.close()` discards a coroutine
      that never ran (`close`); `x = await self.m(request)` starts the body of a coroutine handler and binds its
      return value, awaiting an async generator object is a TypeError (`awaitHandler`, `coroLoop`);
      `await stream.send_message(x)` is `VProg.send` (`None` cannot be encoded: an exception, `serverSend`);
      falling off the end of `__rpc_*` is the OK status (`adapterReturn`), any non-GRPCError exception is
      `UNKNOWN "Internal Server Error"`.
    * `raise grpclib.GRPCError(grpclib.const.Status.UNIMPLEMENTED)` is `HProg.raise ⟨12, none⟩`; a function whose
      body contains `yield` anywhere (also unreachable) is an async generator function (`Handler.isGen`).
-/
namespace Bp.PyG
open Bp.Grpc Bp.GrpcCall

/-! ### client side -/

def isNone {α : Type} (x : Option α) : Bool := x.isNone

/-- `**{"timeout": a, "deadline": b, "metadata": c}` as the keywords of `channel.request` -/
def kwDict {α : Type} (d : List (String × Option α)) : Kw α :=
  ⟨(d.lookup "timeout").join, (d.lookup "deadline").join, (d.lookup "metadata").join⟩

namespace Cardinality
def UNARY_UNARY : Card := .unaryUnary
def UNARY_STREAM : Card := .unaryStream
def STREAM_UNARY : Card := .streamUnary
def STREAM_STREAM : Card := .streamStream
end Cardinality

/-- the two message classes of an RPC -/
inductive Ty | req | resp
  deriving DecidableEq, Repr

/-- `type(request)` of a request message -/
def typeOf {Req : Type} (_ : Req) : Ty := .req

/-- the arguments of `channel.request` -/
structure Open (α : Type) where
  route : Str
  card : Card
  reqTy : Ty
  respTy : Ty
  kw : Kw α
  deriving DecidableEq, Repr

def channelRequest {α : Type} (route : Str) (card : Card) (reqTy respTy : Ty) (kw : Kw α) : Open α :=
  ⟨route, card, reqTy, respTy, kw⟩

/-- a client helper / a stub method: the stream it opens, the operations inside and after the `async with` -/
structure Helper (Req α : Type) where
  opened : Open α
  body : List (COp Req)
  after : List (COp Req)
  deriving DecidableEq, Repr

def asyncWith {Req α : Type} (o : Open α) (body after : List (COp Req)) : Helper Req α := ⟨o, body, after⟩

/-- the model's program of a helper -/
def Helper.prog {Req α : Type} (h : Helper Req α) : ClientProg Req α :=
  ⟨h.opened.route, h.opened.card, h.opened.kw, h.body ++ [COp.exitCtx] ++ h.after⟩

structure Source (Req : Type) where
  isAsync : Bool
  items : List Req
  deriving DecidableEq, Repr

def isAsyncIterable {Req : Type} (s : Source Req) : Bool := s.isAsync
def forEach {Req β : Type} (s : Source Req) (body : Req → List β) : List β := s.items.flatMap body
def awaitInline {Req : Type} (ops : List (SOp Req)) : List (COp Req) := ops.map COp.send
def tryCancel {Req : Type} (ops : List (COp Req)) : List (COp Req) := ops
def returnAwait {Req α : Type} (h : Helper Req α) : Helper Req α := h
def asyncForYield {Req α : Type} (h : Helper Req α) : Helper Req α := h

/-! ### server side -/

inductive ReqArg (Req : Type)
  | msg (m : Option Req)
  | iterator

def ReqArg.isIter {Req : Type} : ReqArg Req → Bool
  | .msg _ => false
  | .iterator => true
def ReqArg.val {Req : Type} : ReqArg Req → Option Req
  | .msg m => m
  | .iterator => none

def recvMessage {Req Resp : Type} (k : ReqArg Req → VProg Req Resp) : VProg Req Resp := .recvA (fun m => k (.msg m))
def aiter {Req : Type} : ReqArg Req := .iterator

/-- the object `handler(request)` returns: nothing has run yet -/
structure HObj (Req Resp : Type) where
  h : Handler Req Resp
  arg : ReqArg Req

def callHandler {Req Resp : Type} (h : Handler Req Resp) (a : ReqArg Req) : HObj Req Resp := ⟨h, a⟩
def isAsyncIterableObj {Req Resp : Type} (o : HObj Req Resp) : Bool := o.h.isGen

/-- the body of an async generator driven by `async for v in obj: BODY`, then `k` -/
def genLoop {Req Resp : Type} (iter : Bool) (body : Option Resp → VProg Req Resp → VProg Req Resp)
    (k : VProg Req Resp) : HProg Req Resp → VProg Req Resp
  | .recv f => if iter then .recvH (fun x => genLoop iter body k (f x)) else genLoop iter body k (f none)
  | .yield r p => body (some r) (genLoop iter body k p)
  | .ret _ => k
  | .raise e => .fin (some e)

def asyncFor {Req Resp : Type} (o : HObj Req Resp) (body : Option Resp → VProg Req Resp → VProg Req Resp)
    (k : VProg Req Resp) : VProg Req Resp :=
  .call (callArg o.arg.isIter o.arg.val) (genLoop o.arg.isIter body k (o.h.body o.arg.val))

def close {Req Resp : Type} (_ : HObj Req Resp) (k : VProg Req Resp) : VProg Req Resp := k

/-- the body of a coroutine handler awaited, its return value bound by `k` -/
def coroLoop {Req Resp : Type} (iter : Bool) (k : Option Resp → VProg Req Resp) : HProg Req Resp → VProg Req Resp
  | .recv f => if iter then .recvH (fun x => coroLoop iter k (f x)) else coroLoop iter k (f none)
  | .yield _ p => coroLoop iter k p
  | .ret r => k r
  | .raise e => .fin (some e)

def awaitHandler {Req Resp : Type} (h : Handler Req Resp) (a : ReqArg Req) (k : Option Resp → VProg Req Resp) :
    VProg Req Resp :=
  if h.isGen then .fin (some internalErr) else .call (callArg a.isIter a.val) (coroLoop a.isIter k (h.body a.val))

def serverSend {Req Resp : Type} : Option Resp → VProg Req Resp → VProg Req Resp
  | some r, k => .send r k
  | none, _ => .fin (some internalErr)

def adapterReturn {Req Resp : Type} : VProg Req Resp := .fin none

namespace Status
def UNIMPLEMENTED : Nat := 12
end Status

/-- `grpclib.GRPCError(status)` -/
def grpcError (status : Nat) : GErr := ⟨status, none⟩

end Bp.PyG
