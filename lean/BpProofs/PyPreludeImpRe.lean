import BpProofs.PyPreludeCasing
import BpProofs.PyPrelude
import BpModel.Importing
/-
  Semantic prelude of the SOURCE TRANSLATOR for `parse_source_type_name` of src/betterproto/compile/importing.py
  (harness/extract_srcimpre.py → BpProofs/Gen/SrcImportingRe.lean), next to BpProofs/PyRegex.lean.

  What is ASSUMED (trusted, not proved):
    * `re.match(pattern, s)` is ONE match attempt of CPython's backtracking matcher at position 0 (no search at
      later positions, the match need not reach the end of `s`): `PyRe.matchAt pattern false 0 s`;
    * in a pattern, `\.` is the one-character set `[.]` and `.` (no DOTALL flag) is `[^\n]`
      (that is how the translator writes them into the regex AST);
    * `m.group(i)` for a group on every path of the pattern is `Match.str` (PyPreludeCasing.lean);
    * `s.lstrip(c)` for a one-character `c` drops the leading run of `c`;
    * `WRAPPER_TYPES` (a module-level dict of classes, assigned once): `k in WRAPPER_TYPES` and
      `type(WRAPPER_TYPES[k]().value).__name__` are the rows of BpModel/Gen/ImportWrappers.lean, which
      harness/extract_importing.py regenerates on every run by EVALUATING that expression for every key of the live
      dict (`Importing.wrapperTable`); a missing key raises KeyError.
-/
namespace Bp.PyRe
open Bp.Importing (Str)

/-- `re.match(r, s)` -/
def reMatch (r : Re) (s : Str) : Option Match := matchAt r false 0 s

end Bp.PyRe

namespace Bp.Py
open Bp.Importing (Str)

/-- `s.lstrip(c)`, `c` a single character -/
def lstripChar (c : Char) (s : Str) : Str := s.dropWhile (· = c)

/-- `k in WRAPPER_TYPES` -/
def inWrapperTypes (k : Str) : Bool := (Importing.wrapperTable.lookup k).isSome

/-- `type(WRAPPER_TYPES[k]().value).__name__` -/
def wrapperValueTypeName (k : Str) : Res Str :=
  match Importing.wrapperTable.lookup k with
  | some n => .ok n
  | none => .raise .key

end Bp.Py
