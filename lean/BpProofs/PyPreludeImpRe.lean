import BpProofs.PyPreludeCasing
/-
  Semantic prelude of the SOURCE TRANSLATOR for `parse_source_type_name` of src/betterproto/compile/importing.py
  (harness/extract_srcimpre.py → BpProofs/Gen/SrcImportingRe.lean), next to BpProofs/PyRegex.lean.

  What is ASSUMED (trusted, not proved):
    * `re.match(pattern, s)` is ONE match attempt of CPython's backtracking matcher at position 0 (no search at
      later positions, the match need not reach the end of `s`): `PyRe.matchAt pattern false 0 s`;
    * in a pattern, `\.` is the one-character set `[.]` and `.` (no DOTALL flag) is `[^\n]`
      (that is how the translator writes them into the regex AST);
    * `m.group(i)` for a group on every path of the pattern is `Match.str` (PyPreludeCasing.lean);
    * `s.lstrip(c)` for a one-character `c` drops the leading run of `c`.
-/
namespace Bp.PyRe
open Bp.Importing (Str)

/-- `re.match(r, s)` -/
def reMatch (r : Re) (s : Str) : Option Match := matchAt r false 0 s

end Bp.PyRe

namespace Bp.Py
open Bp.Importing (Str)

/-- `s.lstrip(c)`, `c` a single character -/
def lstripChar (c : Char) (s : Str) : Str := s.dropWhile (· = c)

end Bp.Py
