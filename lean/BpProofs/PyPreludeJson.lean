import BpProofs.PyPreludeDyn
import BpModel.Json
/-
  Semantic prelude of the SOURCE TRANSLATOR for one iteration of the field loop of
  `Message.to_dict` and for `_dump_float` (harness/extract_srcjson.py →
  BpProofs/Gen/SrcJson.lean).

  REPRESENTATION (on top of BpProofs/PyPreludeDyn.lean: attribute values are `Val`, a
  `FieldMetadata` with its resolved type hint is a `FieldD`): an object that sits in the dict
  `to_dict` returns is a `JVal` (BpModel/Json.lean); the output dict — and the dict built for a
  map field — is the insertion-ordered list of its items, `JDict`; a Python value that is put
  into the dict AS IT IS is its embedding `rawJ v`; the `casing` argument is a `KeyCase`;
  `self._type_hints()[field_name]` is a `Hint`.

  What is ASSUMED (trusted, not proved) is this file: that each operation of the loop body
  means, on that representation, what is written next to it, and that the translator maps
  syntax to these functions faithfully (one construct ↦ one function).
  BpProofs/SrcTieJson.lean proves the translated loop body equal to the model's `toDictSlot`.

  INTRINSICS (calls that are not translated; they STAND FOR model functions, so applied to a
  value of the wrong Python type they give the model's "not modelled" leaf `raw v` where the
  real code raises — the typing guard of the property theorems keeps them on typed values):
    `str(n)` on a 64-bit int field value        ↦ `strJ`
    `b64encode(b).decode("utf8")`               ↦ `b64J`
    `_Timestamp.timestamp_to_json(dt)`          ↦ `tsJ`        (text format: C15)
    `_Duration.delta_to_json(td)`               ↦ `durJ`       (text format: C15)
    `_dump_enum(enum_class, v)`                 ↦ `dumpEnum enum_class`
    `x.to_dict(casing, include_default_values)` ↦ the parameter `enc` (the recursive `to_dict`)
    `casing(field_name).rstrip("_")`            ↦ `jsonKey cs f.name` (casing functions: C19)
  `_dump_float` is NOT an intrinsic: it is translated (`Src._dump_float`) and tied to `dumpFloat`.
-/
namespace Bp.Py

/-- a dict under construction: its items in insertion order -/
abbrev JDict := List (JKey × JVal)

/-! ### the output dict -/

/-- `d[k] = x` on an insertion-ordered dict: a key that is already there keeps its position
    and gets the new value (DUPLICATE KEY: the earlier entry is overwritten, no second entry
    appears); a new key is appended at the end -/
def setItem (d : JDict) (k : JKey) (x : JVal) : JDict :=
  if d.any (fun kv => kv.1 == k) then d.map (fun kv => if kv.1 == k then (kv.1, x) else kv)
  else d ++ [(k, x)]

/-- `d[k] = x` where the key is a Python value (a key of a map field: str / int / bool) -/
def setItemV (d : JDict) (k : Val) (x : JVal) : JDict := setItem d (keyJ k) x

/-- a Python value (None, int, bool, float, str, list of these, …) placed in the dict AS IT IS -/
abbrev asIs (v : Val) : JVal := rawJ v
/-- a list of dict-ready objects placed in the dict -/
abbrev arrJ (xs : List JVal) : JVal := .arr xs
/-- a dict placed in the dict -/
abbrev objJ (d : JDict) : JVal := mkObj d

/-! ### per-field constants of the loop -/

/-- `casing(field_name).rstrip("_")` -/
abbrev casedName (cs : KeyCase) (meta' : FieldD) : JKey := jsonKey cs meta'.name
/-- `self._betterproto.default_gen[field_name] is list` -/
abbrev defaultIsList (meta' : FieldD) : Bool := meta'.repeated
/-- `self._get_field_default(field_name)` (never raises: every field has a default generator) -/
abbrev getFieldDefault (S : Schema) (meta' : FieldD) : Val := defaultOf S meta'
/-- `self._betterproto.cls_by_field[field_name]` of a message-typed field: the class found in
    the type hint (the item class of a `List[...]` hint) -/
abbrev clsByField (meta' : FieldD) : MsgKind := meta'.kind
/-- `cls == datetime` -/
def clsIsDatetime : MsgKind → Bool
  | .timestamp => true
  | _ => false
/-- `cls == timedelta` -/
def clsIsTimedelta : MsgKind → Bool
  | .duration => true
  | _ => false

/-- `self._type_hints()[field_name]` of an enum field: the enum class itself for a singular
    field, `List[E]` / `Optional[E]` for a repeated / proto3-optional one -/
inductive Hint where
  | cls (e : EnumDef)
  | generic (arg : EnumDef)

def fieldType (E : Enums) (meta' : FieldD) : Hint :=
  if meta'.repeated || meta'.optional then .generic (enumOf E meta') else .cls (enumOf E meta')
/-- `hint.__args__[0]`: AttributeError on a plain class -/
def hintArg0 : Hint → Res EnumDef
  | .generic e => .ok e
  | .cls _ => .raise .attr
/-- a hint used where an enum class is expected (`_dump_enum(hint, v)`): calling `List[E](v)` /
    `Optional[E](v)` is a TypeError -/
def hintClass : Hint → Res EnumDef
  | .cls e => .ok e
  | .generic _ => .raise .type

/-! ### tests on the value -/

/-- `isinstance(value, datetime)` -/
def isDatetime : Val → Bool
  | .ts _ => true
  | _ => false
/-- `isinstance(value, timedelta)` -/
def isTimedelta : Val → Bool
  | .dur _ => true
  | _ => false
/-- `value != DATETIME_ZERO` (the aware epoch; anything that is not a datetime differs from it) -/
def neDatetimeZero : Val → Bool
  | .ts us => us != 0
  | _ => true
/-- `value != timedelta(0)` -/
def neTimedeltaZero : Val → Bool
  | .dur us => us != 0
  | _ => true
/-- `isinstance(value, typing.Iterable)`: list, dict, str, bytes have `__iter__`; None, numbers,
    datetime, timedelta and Message instances do not -/
def isIterable : Val → Bool
  | .list _ | .dict _ _ | .str _ | .byt _ => true
  | _ => false
/-- `hasattr(x, "to_dict")`: Message instances only -/
abbrev hasToDict (v : Val) : Bool := isMsgVal v
/-- `isinstance(value, float)` -/
def isFloat : Val → Bool
  | .f32 _ | .f64 _ => true
  | _ => false
/-- `math.isnan(value)` on a float -/
def isNan : Val → Bool
  | .f32 b => isNaN32 b
  | .f64 b => isNaN64 b
  | _ => false
/-- `value == float("inf")` (`neg = false`) / `value == -float("inf")` (`neg = true`): no int,
    bool or non-number equals an infinity -/
def eqInf (neg : Bool) : Val → Bool
  | .f32 b => b == (if neg then 0xff800000 else 0x7f800000)
  | .f64 b => b == (if neg then 0xfff0000000000000 else 0x7ff0000000000000)
  | _ => false

/-! ### iteration, subscripts -/

/-- `for x in value` / `[… for x in value]`: the items of a list, the keys of a dict, the ints of
    a bytes object; TypeError for a value without `__iter__`.  Iterating a `str` gives its
    characters, which the representation (UTF-8 bytes) does not split: not modelled
    (NotImplementedError stands for that). -/
def iterItems : Val → Res (List Val)
  | .list xs => .ok xs
  | .dict ks _ => .ok ks
  | .byt b => .ok (b.map fun n => Val.int (Int.ofNat n))
  | .str _ => .raise .notImpl
  | .ph => .raise .notImpl
  | _ => .raise .type

/-- a list comprehension whose element expression can raise: left to right, the first
    exception ends it -/
def mapM {α β : Type} (g : α → Res β) : List α → Res (List β)
  | [] => .ok []
  | x :: xs => (g x).bind fun y => (mapM g xs).bind fun ys => .ok (y :: ys)

/-- first value stored under a key equal to `k` (keys compare through `keyJ`: str / int / bool) -/
def lookupKey (k : JKey) : List Val → List Val → Option Val
  | k' :: ks, v :: vs => if keyJ k' == k then some v else lookupKey k ks vs
  | _, _ => Option.none

/-- `value[k]`: only a dict is subscripted by a key here (KeyError when absent); a list / str /
    bytes subscripted by a non-index and every other value: TypeError -/
def getItem : Val → Val → Res Val
  | .dict ks vs, k => (match lookupKey (keyJ k) ks vs with
                       | some v => .ok v
                       | Option.none => .raise .key)
  | _, _ => .raise .type

/-- `{**value}`: a new dict with the items of a mapping, in order, every value as it is;
    TypeError for anything that is not a mapping -/
def dictUnpack : Val → Res JDict
  | .dict ks vs => .ok ((ks.zip vs).map fun kv => (keyJ kv.1, rawJ kv.2))
  | _ => .raise .type

/-! ### the intrinsics -/

/-- `x.to_dict(casing, include_default_values)` -/
abbrev callToDict (enc : Val → JVal) (v : Val) : JVal := enc v
/-- `str(n)` -/
abbrev strOf (v : Val) : JVal := strJ v
/-- `b64encode(b).decode("utf8")` -/
abbrev b64Of (v : Val) : JVal := b64J v
/-- `_Timestamp.timestamp_to_json(dt)` -/
abbrev timestampToJson (v : Val) : JVal := tsJ v
/-- `_Duration.delta_to_json(td)` -/
abbrev deltaToJson (v : Val) : JVal := durJ v
/-- `_dump_enum(enum_class, v)` -/
abbrev dumpEnumOf (e : EnumDef) (v : Val) : JVal := dumpEnum e v

end Bp.Py
