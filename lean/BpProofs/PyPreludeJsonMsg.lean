import BpProofs.PyPreludeJson
import BpProofs.PyPreludeFromDict
/-
  Semantic prelude of the SOURCE TRANSLATOR for the WHOLE METHODS of the JSON / dict entry points
  (harness/extract_srcjsonmsg.py → BpProofs/Gen/SrcJsonMsg.lean): what is AROUND the loop bodies that
  extract_srcjson.py / extract_srcfromdict.py translate (`Src.to_dict_field`, `Src.from_dict_key`,
  `Src.from_dict_cls`, `Src.from_dict_inst`) in `Message.to_dict`, `_from_dict_init`, `from_dict`
  (both forms), `to_json`, `from_json`, and `_include_default_value_for_oneof`.

  Only what PyPreludeJson / PyPreludeFromDict / PyPreludeDyn do not have is added here.  (The
  binary codec's PyPreludeMsg cannot be imported next to PyPreludeJson — both define
  `Py.getFieldDefault` — so its four one-line accessors are restated here, literally.)

  REPRESENTATION: as in PyPreludeJson / PyPreludeFromDict.  A Message instance whose methods are
  translated is the model's `MState` on the writer side (class table `fs`, a field NAME is the index
  of the field) and a `Val` on the reader side (as `Src.from_dict_inst` takes it).  A JSON TEXT (the
  `str` that `json.dumps` returns) is kept ABSTRACT, as in the model (BpModel/Json.lean: `jsonText j`
  is `json.loads(json.dumps(j))`; DESIGN 3.2): `JText` records the object it was produced from, and
  `json.loads` of it is the model's `jsonText` of that object.  `indent` only changes white space of
  the text, which `json.loads` skips: it is carried and ignored.

  All names live in the sub-namespace `Bp.Py.JsonMsg`.
-/
set_option linter.unusedVariables false
namespace Bp.Py.JsonMsg
open Bp Bp.Py

/-! ### `self._betterproto.meta_by_field_name.items()`, attribute access on `self` (as PyPreludeMsg) -/

/-- the (name, metadata) pairs from index `i` on -/
def itemsFrom : Nat → List FieldD → List (Nat × FieldD)
  | _, [] => []
  | i, f :: fs => (i, f) :: itemsFrom (i + 1) fs

/-- `self._betterproto.meta_by_field_name.items()`: filled in declaration order; the key (field
    name) is the index of the field -/
def metaItems (fs : List FieldD) : List (Nat × FieldD) := itemsFrom 0 fs

/-- `try: value = getattr(self, field_name) / except AttributeError:` for the field described by
    `meta`: PyPreludeDyn's `getattrField` on the raw slot, AttributeError exactly for a oneof member
    that is not the selected one -/
def getattrOf (S : Schema) (self : MState) (field_name : Nat) (meta' : FieldD) : Got :=
  getattrField S meta' (hidden meta' field_name self.cur) (self.slots.getD field_name .ph)

/-- `self._group_current.get(group)` for `group = meta.group` (None is not a key: None) -/
def groupCurrentGet (self : MState) : Option Nat → Option Nat
  | Option.none => Option.none
  | some g => self.cur.getD g Option.none

/-! ### `mapping.items()` on the reader side -/

/-- `mapping.items()`: the items of a dict in order (a dict is stored as two parallel lists);
    AttributeError on anything that is not a dict (None, a list, a str, a number) -/
def mappingItems : JVal → Res (List (JKey × JVal))
  | .obj ks vs => .ok (ks.zip vs)
  | _ => .raise .attr

/-! ### json.dumps / json.loads (abstract text) -/

/-- the `indent` argument of `json.dumps` (None / int / str): white space only -/
inductive Indent where
  | none
  | int (n : Int)
  | str (s : Bytes)
  deriving Inhabited

/-- a JSON text: the object `json.dumps` was given (the text itself is abstract) -/
structure JText where
  dumped : JVal

/-- `json.dumps(obj, indent=indent)` with every other option at its default (`sort_keys=False`,
    `allow_nan=True`, …): TypeError when `obj` is not JSON serialisable (the model's
    `jsonText obj = none`: a `datetime`, `bytes`, a Message instance left in the dict) -/
def jsonDumps (obj : JVal) (indent : Indent) : Res JText :=
  match jsonText obj with
  | Option.none => .raise .type
  | some _ => .ok ⟨obj⟩

/-- `json.loads(text)` of a text produced by `json.dumps`: the model's `jsonText` (int / bool keys
    come back as strings, every NaN as the one `float("nan")`) -/
def jsonLoads (t : JText) : Res JVal :=
  match jsonText t.dumped with
  | Option.none => .raise .value
  | some j => .ok j

/-! ### the recursive knot -/

/-- the result of a nested `x.to_dict(casing, include_default_values)` handed to the translated loop
    body, whose parameter `enc` is total (PyPreludeJson: an intrinsic applied outside its domain gives
    the model's "not modelled" leaf `raw x` where the real code raises): a nested call that does not
    return — AttributeError on a value without `to_dict`, nesting budget exhausted — stands as
    `raw x`.  It never happens on Message instances below the budget the theorems quantify over. -/
def toJ (x : Val) : Res JVal → JVal
  | .ok j => j
  | _ => .raw x

/-- a `Res` handed to code that expects the model's `R` (the `dec` parameter of the translated key
    loop body): out of nesting budget is reported as `AssertionError` (never happens below the budget) -/
def toR {α : Type} : Res α → R α
  | .ok a => .ok a
  | .raise e => .error e
  | .diverge => .error .assertion

/-- a writer-side method called on a value: AttributeError unless it is a Message instance, whose
    class table is `fieldsOf S c` -/
def onMessage {α : Type} (S : Schema) (v : Val) (k : List FieldD → MState → Res α) : Res α :=
  match v with
  | .msg c slots ow unk cur => k (fieldsOf S c) { slots := slots, onWire := ow, unknown := unk, cur := cur }
  | _ => .raise .attr

/-- a reader-side method called on a value: AttributeError unless it is a Message instance; its class
    is the index `c` -/
def onInstance {α : Type} (v : Val) (k : Nat → Res α) : Res α :=
  match v with
  | .msg c _ _ _ _ => k c
  | _ => .raise .attr

end Bp.Py.JsonMsg
