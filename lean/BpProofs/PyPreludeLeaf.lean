import BpProofs.PyPreludeTime
import BpProofs.PyPreludeJson
import BpProofs.PyPreludeEnum
import BpModel.EnumM
/-
  Semantic prelude of the SOURCE TRANSLATOR for the JSON LEAF codecs
  (harness/extract_srcleaf.py → BpProofs/Gen/SrcLeaf.lean): `_parse_float`, `_dump_enum`,
  `_parse_enum`, `_Duration.delta_from_json`, `_Timestamp.timestamp_to_json` (whole).

  What is ASSUMED (trusted, not proved) is this file: that the Python operations named below
  mean, on the representations given here, what is written next to them, and that the
  translator maps syntax to them faithfully (one construct ↦ one function).
  BpProofs/SrcTieLeaf.lean proves the translated functions equal to the model functions.

  REPRESENTATIONS
  * a `str` that is parsed character by character (`delta_from_json`) is its `List Char`;
  * a `Decimal` is sign, coefficient and number of fractional digits (`Dec`), exact;
  * a `datetime` (`timestamp_to_json`, whole) is `DT`: its wall-clock reading in microseconds
    (counted from 1970-01-01T00:00:00 of ITS OWN clock) and its `utcoffset()` in
    microseconds (`none`: naive);
  * the `isoformat()` text of a naive datetime on a whole second, "YYYY-MM-DDTHH:MM:SS", is
    `IsoText`, the count of seconds it spells (the calendar rendering is NOT modelled; it is a
    bijection between whole seconds in years 1..9999 and such texts);
  * a JSON leaf value is a `JVal` (BpModel/Json.lean): the three strings "Infinity" /
    "-Infinity" / "NaN" are `.fstr 0/1/2`; a Python float is the bit pattern of the field's
    width (`Val.f32` / `Val.f64`), which is why `_parse_float` carries the ghost parameter `t`
    (the proto type of the field the result is stored in);
  * an enum class is a `PyEnum.ClsObj ν`, a JSON enum value a `EnumM.JEnum ν` (name / number).
-/
namespace Bp.PyLeaf
open Bp Bp.Py Bp.EnumM

abbrev Text := List Char

/-! ### f-strings of ints, rendered to characters -/

/-- `str(i)` / `f"{i}"` for an int: decimal digits, a leading "-" for a negative one -/
def strInt (i : Int) : Text :=
  if i < 0 then '-' :: Nat.toDigits 10 i.natAbs else Nat.toDigits 10 i.natAbs

/-- `f"{n:0Wd}"`: the digits of `n`, zero-padded on the left to at least `W` characters
    (the sign, if any, first and counted) -/
def zeroPad (w n : Int) : Text :=
  let ds := Nat.toDigits 10 n.natAbs
  if n < 0 then '-' :: (List.replicate (w.toNat - 1 - ds.length) '0' ++ ds)
  else List.replicate (w.toNat - ds.length) '0' ++ ds

/-- the characters of the f-string `f"{sign}{seconds}.{digits:0Wd}s"` whose four parameters
    `Py.fmtSecs` (PyPreludeTime.lean) keeps as a tuple -/
def renderSecs (t : Bool × Int × Int × Int) : Text :=
  (if t.1 then ['-'] else []) ++ strInt t.2.1 ++ ['.'] ++ zeroPad t.2.2.1 t.2.2.2 ++ ['s']

/-- `value[:-1]` on a str -/
def dropLast1 (s : Text) : Text := s.dropLast

/-! ### `Decimal` -/

/-- a finite `Decimal`: (-1)^neg · coef · 10^(-scale) -/
structure Dec where
  neg : Bool
  coef : Nat
  scale : Nat
  deriving DecidableEq, Repr

/-- an optional sign in front of a numeric literal -/
def splitSign : Text → Bool × Text
  | [] => (false, [])
  | c :: r => if c = '-' then (true, r) else if c = '+' then (false, r) else (false, c :: r)

def allDigits (s : Text) : Bool := s.all Char.isDigit

/-- the unsigned part of a decimal literal: `digits`, `digits.`, `digits.digits`, `.digits` -/
def decimalBody (neg : Bool) (body : Text) : Res Dec :=
  let ip := body.takeWhile (· != '.')
  let fp := (body.dropWhile (· != '.')).drop 1
  if allDigits ip && allDigits fp && !(ip.isEmpty && fp.isEmpty) then
    .ok ⟨neg, Nat.ofDigitChars 10 (ip ++ fp) 0, fp.length⟩
  else .raise .notImpl

/-- `Decimal(text)` for the literals `[+-]? (digits [. digits?] | . digits)` with ASCII digits:
    exact, the exponent is minus the number of fractional digits.  Every other text — an
    exponent part, "Infinity" / "NaN", surrounding whitespace, underscores, non-ASCII digits
    (all accepted by `Decimal`) and the texts it rejects with `InvalidOperation` — is NOT
    modelled (NotImplementedError stands for that). -/
def decimalOf (s : Text) : Res Dec := decimalBody (splitSign s).1 (splitSign s).2

/-- `d * n` for a `Decimal` and a positive int, in the DEFAULT context (precision 28): the int
    converts exactly, the product has the coefficient `coef · n` and the same exponent, and is
    EXACT while that coefficient has at most 28 digits; beyond that it is rounded
    (ROUND_HALF_EVEN, `Inexact` is not trapped).  As the float intrinsics of PyPreludeTime.lean,
    the operation answers `.diverge` — "outside the domain in which this translation claims
    anything" — there; the tie theorems prove `.ok …`.  ASSUMED: the application has not
    changed `decimal.getcontext().prec` to less than 28. -/
def decMulInt (d : Dec) (n : Int) : Res Dec :=
  if 0 < n ∧ d.coef * n.toNat < 10 ^ 28 then .ok ⟨d.neg, d.coef * n.toNat, d.scale⟩ else .diverge

/-- `int(d)` on a finite `Decimal`: truncation TOWARD ZERO -/
def intOfDec (d : Dec) : Int :=
  let q : Int := ((d.coef / 10 ^ d.scale : Nat) : Int)
  if d.neg then -q else q

/-! ### `datetime`, whole -/

structure DT where
  /-- wall-clock reading, microseconds since 1970-01-01T00:00:00 on the datetime's own clock -/
  wall : Int
  /-- `utcoffset()` in microseconds (a `timezone` may have any offset strictly between -24 h and
      24 h, sub-second ones included since Python 3.7); `none`: naive -/
  off : Option Int
  deriving DecidableEq, Repr

/-- the instant an aware datetime denotes, microseconds since the epoch (the representation of
    PyPreludeTime.lean / BpModel/Time.lean); a naive one read as UTC -/
def DT.instant (d : DT) : Int := d.wall - d.off.getD 0

/-- `dt.microsecond`: of the wall-clock reading, 0 ≤ · < 10^6 -/
def dtMicrosecond (d : DT) : Int := d.wall % 1000000
/-- `dt.tzinfo is not None` -/
def tzinfoIsNotNone (d : DT) : Bool := d.off.isSome
/-- `dt.astimezone(timezone.utc)` on an aware datetime: the same instant on the UTC clock.  On a
    naive one Python assumes the SYSTEM time zone: not modelled. -/
def astimezoneUtc (d : DT) : Res DT :=
  match d.off with
  | some o => .ok ⟨d.wall - o, some 0⟩
  | none => .raise .notImpl
/-- `dt.replace(microsecond=0, tzinfo=None)` -/
def replaceMicro0Naive (d : DT) : DT := ⟨d.wall - d.wall % 1000000, none⟩

/-- "YYYY-MM-DDTHH:MM:SS": the second it spells (see the head of the file) -/
structure IsoText where
  secs : Int
  deriving DecidableEq, Repr

/-- `dt.isoformat()`: for a NAIVE datetime with `microsecond == 0` the text to the second.
    With microseconds `isoformat` appends ".ffffff", with a tzinfo "+HH:MM[:SS[.ffffff]]": not
    modelled (the code under translation calls it after `replace(microsecond=0, tzinfo=None)`). -/
def isoformat (d : DT) : Res IsoText :=
  if d.off.isNone ∧ d.wall % 1000000 = 0 then .ok ⟨d.wall / 1000000⟩ else .raise .notImpl

/-- the texts `timestamp_to_json` returns: `f"{result}Z"` (`frac = none`) and
    `f"{result}.{digits:0Wd}Z"` (`frac = some (W, digits)`), `result` an `IsoText`.  The
    translator only produces it for an f-string of one of these two shapes, so the trailing "Z"
    is part of the meaning of the constructor. -/
structure TsText where
  iso : IsoText
  frac : Option (Int × Int)
  deriving DecidableEq, Repr

def tsText (r : IsoText) (f : Option (Int × Int)) : TsText := ⟨r, f⟩

/-! ### `_parse_float` -/

/-- `value == <str constant>` for a JSON leaf value: the three spec strings are `.fstr k`; a
    general `str` compares by its characters; None, numbers, lists and dicts never equal a str;
    `str(i)` of an int is a digit string and the abstract texts (base64, Timestamp, Duration)
    are not compared (false) -/
def eqStrConst : JVal → String → Bool
  | .fstr 0, c => c == "Infinity"
  | .fstr 1, c => c == "-Infinity"
  | .fstr 2, c => c == "NaN"
  | .str u, c => u == c.toList.map Char.toNat
  | _, _ => false

/-- `float("inf")` / `float("nan")` (the translator accepts these two literals only), as the bit
    pattern of the field's width: +∞ and the canonical quiet NaN -/
def floatLit (t : PType) (s : String) : Val :=
  if t == .float then .f32 (if s == "inf" then 0x7f800000 else 0x7fc00000)
  else .f64 (if s == "inf" then 0x7ff0000000000000 else 0x7ff8000000000000)

/-- `-x` on a float: the sign bit flipped -/
def floatNeg : Val → Val
  | .f32 b => .f32 (if b < 0x80000000 then b + 0x80000000 else b - 0x80000000)
  | .f64 b => .f64 (if b < 0x8000000000000000 then b + 0x8000000000000000 else b - 0x8000000000000000)
  | v => v

/-- the builtin `float(value)` on a JSON leaf value, for a field of type `t`: a float is
    returned as it is; CPython's `float` also accepts the spellings "Infinity", "-Infinity",
    "NaN" (case-insensitively, and "inf" / "nan"); None, a list, a dict: TypeError.
    NOT modelled (NotImplementedError stands for that): `float(int)` (nearest double,
    OverflowError beyond the range), `float(bool)`, `float(str)` for a numeric literal
    (correctly rounded) or any other text (ValueError). -/
def floatOf (t : PType) : JVal → Res Val
  | .fstr k => .ok (if k == 0 then floatLit t "inf" else if k == 1 then floatNeg (floatLit t "inf")
                    else floatLit t "nan")
  | .fnum32 b => .ok (.f32 b)
  | .fnum b => .ok (.f64 b)
  | .null => .raise .type
  | .arr _ => .raise .type
  | .obj _ _ => .raise .type
  | _ => .raise .notImpl

/-! ### `_dump_enum` / `_parse_enum` -/

/-- `member.name` as the JSON value: the name, or JSON null for a member whose name is None -/
def memberNameJ {ν : Type} (m : Member ν) : Option (JEnum ν) := m.name.map JEnum.name
/-- `int(value)` placed in the dict -/
def numJ {ν : Type} (v : Int) : Option (JEnum ν) := some (.num v)

end Bp.PyLeaf
