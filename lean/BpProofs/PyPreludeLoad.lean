import BpProofs.PyPreludeDyn
import BpModel.Load
/-
  Semantic prelude of the SOURCE TRANSLATOR for the per-record step of `Message.load`
  (harness/extract_srcload.py → BpProofs/Gen/SrcLoad.lean).

  The body of the `for parsed in load_fields(stream):` loop is dynamically typed Python that
  mutates `self`.  REPRESENTATION: the instance is the model's `MState` (raw slots in
  declaration order, `_serialized_on_wire`, `_unknown_fields`, `_group_current`), passed in
  and handed back; its class (`self._betterproto`) is a `MsgD`; a FIELD NAME is the index of
  the field in `d.fields` (`Option Nat`, `none` = Python `None`); a `ParsedField` is a `PField`;
  a field value is a `Val`.  A local variable that holds the object stored in the slot of the
  field (`current = getattr(self, field_name)`, or the argument of `setattr(self, field_name, ·)`)
  has no Lean counterpart: the translator tracks that it ALIASES the slot and reads / mutates
  the slot through the state (`slotVal`, `slotSetItem`, `slotExtend`, `slotAppend`).

  What is ASSUMED (trusted, not proved) is this file (on top of PyPrelude / PyPreludeDyn): that
  each dynamic operation of the loop body means, on that representation, what is written next
  to it, and that the translator maps syntax to these functions faithfully.
  BpProofs/SrcTieLoad.lean proves the translated loop body equal to the model's `applyField`.

  INTRINSIC (a call that is NOT translated here): `self._postprocess_single(wire_type, meta,
  field_name, value)`; its int / sint / enum arithmetic is translated and tied by
  extract_src.py / SrcTie.lean (`postprocess_int_eq` …).
-/
namespace Bp.Py

/-! ### the record -/

/-- `parsed.value`: an `int` (wire type 0) or a `bytes` object -/
inductive Raw where
  | int (n : Int)
  | bytes (b : Bytes)

/-- `parsed.number`, `parsed.wire_type`, `parsed.raw` -/
abbrev parsedNumber (p : PField) : Int := (p.num : Nat)
abbrev parsedWireType (p : PField) : Int := (p.wt : Nat)
abbrev parsedRaw (p : PField) : Bytes := p.raw
/-- `parsed.value` as `load_fields` builds it (`ParsedField(value=…)` is translated by
    extract_src.py into `vint` for an int, `payload` for bytes): the decoded varint for wire
    type 0, the payload bytes for every other wire type -/
def parsedValue (p : PField) : Raw := if p.wt == Gen.wireVarint then .int (p.vint : Nat) else .bytes p.payload
/-- `parsed.value` on a path where the translator has seen `parsed.wire_type == WIRE_x` for a
    constant other than WIRE_VARINT: the payload bytes -/
abbrev parsedBytes (p : PField) : Bytes := p.payload

/-- `b[lo:hi]` on bytes (negative indices count from the end, both are clamped) -/
def sliceIdx (len : Nat) (i : Int) : Nat := if i < 0 then (i + (len : Int)).toNat else min i.toNat len
def slice (b : Bytes) (lo hi : Int) : Bytes :=
  (b.drop (sliceIdx b.length lo)).take (sliceIdx b.length hi - sliceIdx b.length lo)

/-! ### `self._betterproto` -/

/-- `proto_meta.field_name_by_number.get(number)`: the dict is filled in declaration order -/
def fieldNameByNumber (d : MsgD) (number : Int) : Option Nat :=
  if number < 0 then Option.none else findField d.fields number.toNat
/-- truth value of a field name or None (`if not field_name`): names are non-empty strings -/
abbrev truthyName (n : Option Nat) : Bool := n.isSome
/-- `proto_meta.meta_by_field_name[field_name]` (KeyError for None / an unknown name) -/
def metaByFieldName (d : MsgD) : Option Nat → Res FieldD
  | Option.none => .raise .key
  | some i =>
    match d.fields[i]? with
    | Option.none => .raise .key
    | some f => .ok f
/-- `WIRE_TYPE_BY_PROTO_TYPE[proto_type]` on the regenerated table (KeyError for a missing type) -/
def wireTypeByProtoType (t : PType) : Res Int :=
  match Gen.wireTypeByProtoType.find? (·.1 == t) with
  | Option.none => .raise .key
  | some (_, w) => .ok (w : Nat)
/-- `proto_meta.default_gen[field_name] is list`: `_get_field_default_gen` returns `list` exactly
    for a `List[…]` type hint, which is what `FieldD.repeated` records -/
def defaultGenIsList (d : MsgD) (n : Option Nat) : Res Bool :=
  (metaByFieldName d n).bind fun f => .ok f.repeated
/-- `self._get_field_default(field_name)`: `default_gen[field_name]()` -/
def getFieldDefault (S : Schema) (d : MsgD) (n : Option Nat) : Res Val :=
  (metaByFieldName d n).bind fun f => .ok (defaultOf S f)

/-! ### attribute access on `self` -/

/-- `self._unknown_fields += b` -/
def unknownAppend (st : MState) (b : Bytes) : MState := { st with unknown := st.unknown ++ b }

/-- `getattr(self, field_name)` through `Message.__getattribute__`: AttributeError for a oneof
    member that is not the selected one; a PLACEHOLDER slot is first materialised to the default
    and stored (`super().__setattr__`: no presence tracking).  The value obtained is the object
    now in the slot (`slotVal`).  (TypeError for a name that is None.) -/
def getattrSelf (S : Schema) (d : MsgD) (st : MState) : Option Nat → Res MState
  | Option.none => .raise .type
  | some i =>
    match d.fields[i]? with
    | Option.none => .raise .attr
    | some f =>
      if hidden f i st.cur then .raise .attr
      else .ok { st with slots := setAt st.slots i (materialize S f (st.slots.getD i .ph)) }

/-- the object stored in the slot of the field -/
def slotVal (st : MState) : Option Nat → Val
  | Option.none => .ph
  | some i => st.slots.getD i .ph

/-- `setattr(self, field_name, value)` through `Message.__setattr__`: the model's `setAttr`
    (marks a field-less message value present, sets `_serialized_on_wire`, selects the member and
    resets its siblings to PLACEHOLDER, stores the value) -/
def setattrSelf (S : Schema) (d : MsgD) (st : MState) : Option Nat → Val → Res MState
  | Option.none, _ => .raise .type
  | some i, v => .ok (setAttr S d.fields st i v)

/-- `try: <x> / except AttributeError: <handler>` followed by `k` -/
def tryExceptAttr {α β : Type} (x : Res α) (handler : Res β) (k : α → Res β) : Res β :=
  match x with
  | .ok a => k a
  | .raise .attr => handler
  | .raise e => .raise e
  | .diverge => .diverge

/-! ### in-place mutation of the object stored in the slot -/

/-- `current[k] = v` where `current` is the object in the slot: a dict (insertion-ordered,
    Python key equality: the model's `dictInsert`); TypeError on anything else (None, PLACEHOLDER,
    numbers, str, bytes, datetime, Message instances do not support item assignment; a LIST would
    accept an in-range int key — not modelled: the slot of a map field never holds a list, see the
    typing invariant `WfState` / C17 `ok_welltyped`) -/
def slotSetItem (st : MState) : Option Nat → Val → Val → Res MState
  | Option.none, _, _ => .raise .type
  | some i, k, v =>
    match st.slots.getD i .ph with
    | .dict ks vs => .ok { st with slots := setAt st.slots i (.dict (dictInsert ks vs k v).1 (dictInsert ks vs k v).2) }
    | _ => .raise .type
/-- `current.extend(items)` where `current` is the list in the slot (AttributeError otherwise) -/
def slotExtend (st : MState) : Option Nat → List Val → Res MState
  | Option.none, _ => .raise .attr
  | some i, ys =>
    match st.slots.getD i .ph with
    | .list xs => .ok { st with slots := setAt st.slots i (.list (xs ++ ys)) }
    | _ => .raise .attr
/-- `current.append(v)` where `current` is the list in the slot -/
def slotAppend (st : MState) (n : Option Nat) (v : Val) : Res MState := slotExtend st n [v]

/-- `entry.key`, `entry.value` of the instance of the synthetic `Entry` class that
    `_postprocess_single` returns for a map field (represented, as in the model's `decodeValue`,
    by the one-pair dict of its two materialised attributes); AttributeError on anything else -/
def entryKey : Val → Res Val
  | .dict [k] [_] => .ok k
  | _ => .raise .attr
def entryValue : Val → Res Val
  | .dict [_] [v] => .ok v
  | _ => .raise .attr

/-! ### intrinsic: `_postprocess_single` -/

/-- the map branch: `cls_by_field[field_name]().parse(value)` for the synthetic Entry class -/
def postEntryR (S : Schema) (rec : Loader) (f : FieldD) (p : Bytes) : R Val :=
  (rec (entryD f) (freshState (entryD f)) p).bind fun est =>
    .ok (Val.dict [materialize S (entryD f).fields[0]! (est.slots.getD 0 .ph)]
                  [materialize S (entryD f).fields[1]! (est.slots.getD 1 .ph)])

/-- `self._postprocess_single(wire_type, meta, field_name, value)` as model functions, by its
    top-level dispatch on the wire type: WIRE_VARINT → `postVarint`, WIRE_FIXED_32 / 64 →
    `postFixed` (struct.unpack), WIRE_LEN_DELIM → map entry / `postLen` (str / nested message
    through `rec` / bytes), anything else → the value unchanged.  An int where bytes are needed
    (or the reverse) is a TypeError. -/
def postprocessSingle (S : Schema) (rec : Loader) (wt : Int) (f : FieldD) (v : Raw) : Res Val :=
  if wt = (Gen.wireVarint : Nat) then
    match v with
    | .int n => .ok (postVarint f.ty n.toNat)
    | .bytes _ => .raise .type
  else if wt = (Gen.wireFixed32 : Nat) ∨ wt = (Gen.wireFixed64 : Nat) then
    match v with
    | .bytes p => ofR (postFixed f.ty p)
    | .int _ => .raise .type
  else if wt = (Gen.wireLenDelim : Nat) then
    match v with
    | .bytes p => if f.ty == .map then ofR (postEntryR S rec f p) else ofR (postLen S rec f p)
    | .int _ => .raise .type
  else
    match v with
    | .int n => .ok (.int n)
    | .bytes p => .ok (.byt p)

end Bp.Py
