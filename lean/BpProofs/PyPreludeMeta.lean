import BpProofs.PyPreludeEnum
import BpModel.Ops
/-
  Semantic prelude of the SOURCE TRANSLATOR for the class metadata, construction and field
  defaults of `betterproto.Message` (harness/extract_srcmeta.py → BpProofs/Gen/SrcMeta.lean):

      ProtoClassMetadata.__init__ / _get_default_gen / _get_cls_by_field,  Message._betterproto,
      Message.__post_init__,  Message.__setattr__ (as the dataclass `__init__` uses it),
      Message._type_hint / _cls_for / _get_field_default_gen / _get_field_default,
      dataclass_field and the `*_field` helpers

  What is ASSUMED (trusted, not proved) is this file and that the translator maps syntax to these
  functions faithfully.  BpProofs/SrcTieMeta*.lean prove the translated functions equal to the lookups /
  functions of the hand-written model (`findField`, `membersFrom`, `construct`, `defaultOf`, `fresh`, …).

  REPRESENTATION
    * A message CLASS (`cls`, `type(self)`) is the list `fs : List FieldD` of its field descriptors
      (BpModel/Schema.lean: what `FieldMetadata` + the resolved type hint of a dataclass field say), in
      declaration order.  `dataclasses.fields(cls)` (`dataclassFields`) is that list with each field's
      NAME.  As in PyPreludeObj.lean a field name is the INDEX of the field in the class: dataclass field
      names are the keys of a dict (`cls.__dataclass_fields__`), hence pairwise distinct, and the index is
      an injective renaming of them.  A oneof GROUP name (`meta.group`, a non-empty str or None) is the
      group's index, `Option Nat`; its truth value (`if meta.group:`) is `isSome`: the plugin never emits
      the empty string as a group name.  A field NUMBER is a `Nat`.
    * DICTS are insertion-ordered association lists with pairwise distinct keys, with the operations of
      PyPreludeEnum.lean: `d.get(k)` = `dictGet`, `d[k]` = `dictItem` (KeyError), `d[k] = v` = `dictSet`
      (a present key keeps its position and gets the new value, an absent key is appended),
      `d.setdefault(k, v)` = `dictSetdefault`.  A SET of `dataclasses.Field`s is the list of its elements
      in first-insertion order (the iteration order of a Python set is arbitrary; nothing below depends
      on it: `SrcTieObj.setattr_loop_perm`); `Field` objects are compared by identity (`dataclasses.Field`
      defines neither `__eq__` nor `__hash__`), which for the fields of one class is equality of names.
    * A TYPE HINT (`cls._type_hint(name)`, i.e. `typing.get_type_hints(cls, …)[name]`) is a `Hint`: a plain
      object `obj o` (a class: `int`, `datetime`, a message class …), a `typing` generic alias
      `generic origin args` (`List[T]` = `generic list [T]`, `Dict[K, V]` = `generic dict [K, V]`,
      `Optional[T]` = `Union[T, None]` = `generic union [T, NoneType]`) — these have `__origin__` and
      `__args__` —, or a PEP 604 union `T | None` (`union310`, a `types.UnionType`: `__args__`, but no
      `__origin__`).  WHICH HINT A FIELD HAS is `typeHint` below: the reading of a `FieldD` as the annotation
      the plugin (`FieldCompiler.annotation`, tied in Props/C03Src.lean) and harness/bpgen.py `build_bp` give
      the field.  It is an assumption; harness/tests/check_srcmeta.py compares the translated functions,
      evaluated on it, with `_betterproto` / `_get_field_default` of real classes.
    * AN INSTANCE during and after construction (`Inst`): the raw attribute values of the fields in
      declaration order (`slots`: what `object.__getattribute__` finds — the instance `__dict__` entry, else
      the dataclass default stored on the class), and the three bookkeeping entries of the instance
      `__dict__`, each `none` while the key is absent.  `_group_current` is the DICT `__post_init__`
      builds (group → selected member or None), not yet the per-group list of `MState`.
    * A field VALUE is a `Val`.  A Python `float` in a slot of a `float` field is `Val.f32` (its float32
      bit pattern), in a `double` field `Val.f64` (BpModel/Value.lean); so the result of calling the class
      `float` depends on the field it is called for (`callFor`).
-/
namespace Bp.PyMeta
open Bp Bp.Py Bp.PyEnum Bp.EnumM

abbrev Dict (κ β : Type) := List (κ × β)

/-! ### `dataclasses.Field`, `FieldMetadata` -/

/-- a `dataclasses.Field` of the class: its name (the index) and what its metadata + type hint say -/
abbrev Field := Nat × FieldD

def enumFrom : Nat → List FieldD → List Field
  | _, [] => []
  | i, f :: fs => (i, f) :: enumFrom (i + 1) fs

/-- `dataclasses.fields(cls)`: the fields in declaration order -/
def dataclassFields (cls : List FieldD) : List Field := enumFrom 0 cls
/-- `field.name` -/
abbrev fieldName (field : Field) : Nat := field.1
/-- `FieldMetadata.get(field)` = `field.metadata["betterproto"]` -/
abbrev fieldMetadataGet (field : Field) : FieldD := field.2
/-- `meta.map_types`: only `map_field` sets it -/
def mapTypes (m : FieldD) : Option (PType × PType) := if m.ty == .map then some (m.mapK, m.mapV) else Option.none
/-- `t[0]`, `t[1]` of a pair -/
def pairItem {α : Type} (p : α × α) (i : Int) : Res α :=
  if i == 0 || i == -2 then .ok p.1 else if i == 1 || i == -1 then .ok p.2 else .raise .key
/-- `lookup` of an Optional that must be there (`x[…]` on None is a TypeError) -/
def unwrapOpt {α : Type} : Option α → Res α
  | some a => .ok a
  | Option.none => .raise .type

/-- the frozen dataclass `FieldMetadata`, field by field (the translator checks the field order of the class) -/
structure FieldMetadata where
  number : Nat
  proto_type : PType
  map_types : Option (PType × PType)
  group : Option Nat
  wraps : Option PType
  optional : Bool
  deriving DecidableEq, Repr
/-- `dataclasses.field(default=d, metadata={"betterproto": m})` -/
structure DField where
  default : Val
  metadata : FieldMetadata
/-- the `FieldMetadata` half of a descriptor -/
def metaOf (f : FieldD) : FieldMetadata :=
  { number := f.num, proto_type := f.ty, map_types := mapTypes f, group := f.group, wraps := f.wraps, optional := f.optional }

/-! ### sets of fields, dict helpers -/

/-- `s.add(x)` -/
def setAdd (s : List Field) (x : Field) : List Field := if s.any (fun y => y.1 == x.1) then s else s ++ [x]
/-- `d.setdefault(k, set()).add(x)`: the set stored under `k` (a new empty one is stored first when the
    key is absent) gets `x` added IN PLACE -/
def dictSetdefaultAdd (d : Dict Nat (List Field)) (k : Nat) (x : Field) : Dict Nat (List Field) :=
  let r := dictSetdefault d k []
  dictSet r.2 k (setAdd r.1 x)
/-- `d.setdefault(k)` as a statement: an absent key is stored with the value None -/
def dictSetdefaultNone {β : Type} (d : Dict Nat (Option β)) (k : Nat) : Dict Nat (Option β) :=
  (dictSetdefault d k Option.none).2
/-- insertion into an ascending list -/
def insertSorted (a : Nat) : List Nat → List Nat
  | [] => [a]
  | b :: l => if a ≤ b then a :: b :: l else b :: insertSorted a l
/-- `sorted(d)` of a dict with int keys: its keys in ascending order (insertion sort; the keys of a dict are
    pairwise distinct, so every sorting algorithm gives this list) -/
def sortedKeys {β : Type} (d : Dict Nat β) : List Nat := (d.map (·.1)).foldr insertSorted []
/-- `d.items()`, in insertion order -/
abbrev dictItems {κ β : Type} (d : Dict κ β) : List (κ × β) := d
/-- `[e(x) for x in xs]` / `tuple(e(x) for x in xs)` where `e` may raise -/
def mapRes {α β : Type} (f : α → Res β) : List α → Res (List β)
  | [] => .ok []
  | x :: xs => (f x).bind fun y => (mapRes f xs).bind fun ys => .ok (y :: ys)
/-- `{k(x): v(x) for x in xs}`: stores in iteration order -/
def dictComp {α κ β : Type} [DecidableEq κ] (k : α → κ) (v : α → Res β) : List α → Dict κ β → Res (Dict κ β)
  | [], d => .ok d
  | x :: xs, d => (v x).bind fun b => dictComp k v xs (dictSet d (k x) b)

/-! ### type hints -/

/-- the non-generic objects that occur in type hints and as default generators -/
inductive TObj
  | int | float | str | bytes | bool     -- the builtin scalar classes
  | noneType                              -- `type(None)`
  | list | dict                           -- the builtin classes `list`, `dict` (also the `__origin__` of `List[…]`, `Dict[…]`)
  | union                                 -- `typing.Union`
  | datetime | timedelta
  | enum (e : Option Nat)                 -- a subclass of `betterproto.Enum`
  | message (c : Nat)                     -- the generated message class with index `c` in the schema
  deriving DecidableEq, Repr, Inhabited

inductive Hint
  | obj (o : TObj)
  | generic (origin : TObj) (args : List Hint)
  | union310 (args : List Hint)
  deriving Repr, Inhabited

/-- the class a scalar proto type is annotated with (bpgen `py_type`, plugin `PROTO_*_TYPES`) -/
def scalarObj (enumRef : Option Nat) : PType → TObj
  | .bool => .bool
  | .float => .float
  | .double => .float
  | .string => .str
  | .bytes => .bytes
  | .enum => .enum enumRef
  | _ => .int
/-- the class a message reference is annotated with -/
def kindObj : MsgKind → TObj
  | .user c => .message c
  | .timestamp => .datetime
  | .duration => .timedelta
/-- `Optional[t]` -/
def optionalOf (t : Hint) : Hint := .generic .union [t, .obj .noneType]

/-- THE ASSUMED ANNOTATION OF A FIELD (see the header): a map field is `Dict[K, V]` (whatever `repeated` says:
    bpgen `build_bp` tests `ty == "map"` first), a repeated field `List[base]`, a wrapper field (`wraps` is only ever set by `message_field`) `Optional[wrapped scalar]`, a proto3-optional field `Optional[base]`,
    anything else `base` = the scalar class / the enum class / the message class / `datetime` / `timedelta` -/
def typeHint (f : FieldD) : Hint :=
  let base : Hint :=
    match f.wraps with
    | some w => optionalOf (.obj (scalarObj Option.none w))
    | Option.none => if f.ty == .message then .obj (kindObj f.kind) else .obj (scalarObj f.enumRef f.ty)
  if f.ty == .map then
    .generic .dict [.obj (scalarObj Option.none f.mapK),
                    if f.mapV == .message then .obj (kindObj f.mapVKind) else .obj (scalarObj f.enumRef f.mapV)]
  else if f.repeated then .generic .list [base]
  else if f.optional && f.wraps.isNone then optionalOf base
  else base

/-- `cls._type_hints()` = `get_type_hints(cls, module.__dict__, {})`: name → resolved annotation -/
def typeHints (cls : List FieldD) : Dict Nat Hint := (dataclassFields cls).map fun p => (p.1, typeHint p.2)

/-- `isinstance(t, types.UnionType)` -/
def isUnionType : Hint → Bool
  | .union310 _ => true
  | _ => false
/-- `hasattr(t, "__origin__")` -/
def hasOrigin : Hint → Bool
  | .generic _ _ => true
  | _ => false
/-- `t.__origin__` -/
def origin : Hint → Res TObj
  | .generic o _ => .ok o
  | _ => .raise .attr
/-- `hasattr(t, "__args__")` -/
def hasArgs : Hint → Bool
  | .obj _ => false
  | _ => true
/-- `t.__args__` (a tuple, never None for the hints above) -/
def args : Hint → Res (Option (List Hint))
  | .obj _ => .raise .attr
  | .generic _ a => .ok (some a)
  | .union310 a => .ok (some a)
/-- `xs[i]` on a tuple -/
def tupleItem {α : Type} (xs : List α) (i : Int) : Res α :=
  let j : Int := if i < 0 then i + (xs.length : Nat) else i
  if j < 0 then .raise .key else
    match xs[j.toNat]? with
    | some a => .ok a
    | Option.none => .raise .key
/-- `a is b` on two of the objects above -/
abbrev tobjIs (a b : TObj) : Bool := a == b
/-- `t is <class>` for a hint `t` -/
def hintIs (t : Hint) (o : TObj) : Bool :=
  match t with
  | .obj o' => o' == o
  | _ => false
/-- `issubclass(t, Enum)`: TypeError when `t` is not a class -/
def issubclassEnum : Hint → Res Bool
  | .obj (.enum _) => .ok true
  | .obj _ => .ok false
  | _ => .raise .type

/-! ### default generators: the callables `_get_field_default_gen` returns -/

inductive DefGen
  | callable (t : Hint)       -- the object `t` itself (a class, or a generic alias)
  | tryValue (t : Hint)       -- the bound classmethod `t.try_value`
  | datetimeDefaultGen        -- the module function `datetime_default_gen`
  deriving Repr, Inhabited

/-- `g()` for a generator `g` stored in `default_gen[name]` of a class whose field `name` has proto type
    `ty`.  `mk c` is `Cls()` for the message class `c` (the dataclass `__init__` without arguments followed
    by `__post_init__`): a parameter, instantiated with the translated construction in SrcTieMeta.lean.
    `int()`, `float()`, `str()`, `bytes()`, `bool()`, `list()`, `dict()`, `type(None)()`, `timedelta()` give
    the zero / empty value; `datetime()` lacks its required arguments (TypeError), as does a call of an
    Enum class; `try_value()` is `try_value(0)`: the member with number 0 or an open member with value 0 — the int 0
    (enum members are ints, BpModel/Value.lean); `datetime_default_gen()` is DATETIME_ZERO.  Calling a
    generic alias or the `Union` special form is outside what `typeHint` produces (TypeError here). -/
def callFor (mk : Nat → Res Val) (ty : PType) : DefGen → Res Val
  | .callable (.obj o) =>
    match o with
    | .int => .ok (.int 0)
    | .float => .ok (if ty == .float then .f32 0 else .f64 0)
    | .str => .ok (.str [])
    | .bytes => .ok (.byt [])
    | .bool => .ok (.bool false)
    | .noneType => .ok .none
    | .list => .ok (.list [])
    | .dict => .ok (.dict [] [])
    | .timedelta => .ok (.dur 0)
    | .message c => mk c
    | .datetime => .raise .type
    | .enum _ => .raise .type
    | .union => .raise .type
  | .callable _ => .raise .type
  | .tryValue (.obj (.enum _)) => .ok (.int 0)
  | .tryValue _ => .raise .attr
  | .datetimeDefaultGen => .ok (.ts 0)

/-- `t.try_value`: the bound classmethod of an Enum subclass; AttributeError on anything else -/
def getTryValue : Hint → Res DefGen
  | .obj (.enum e) => .ok (.tryValue (.obj (.enum e)))
  | _ => .raise .attr

/-- proto type of the field called `name` of the class (fixes how a float is represented, see the header) -/
def protoTypeOf (cls : List FieldD) (name : Nat) : PType := ((cls[name]?).map (·.ty)).getD .int32

/-! ### `cls_by_field` -/

/-- key of `cls_by_field`: `field.name`, or the str `f"{field.name}.value"` -/
inductive ClsKey
  | name (n : Nat)
  | dotValue (n : Nat)
  deriving DecidableEq, Repr

/-- value of `cls_by_field`: what `_cls_for` found, or the synthetic `Entry` dataclass
    `make_dataclass("Entry", [("key", kt, <field 1>), ("value", vt, <field 2>)], bases=(Message,))` -/
inductive ClsVal
  | hint (t : Hint)
  | entry (kt : Hint) (kf : FieldD) (vt : Hint) (vf : FieldD)
  deriving Repr

/-- `dataclass_field(number, proto_type)` as `_get_cls_by_field` calls it (no group, no wraps, not optional):
    the metadata half of a descriptor -/
def entryField (number : Nat) (proto_type : PType) : FieldD := { num := number, ty := proto_type }

/-! ### `ProtoClassMetadata` -/

structure ClassMeta where
  oneof_group_by_field : Dict Nat Nat
  oneof_field_by_group : Dict Nat (List Field)
  field_name_by_number : Dict Nat Nat
  meta_by_field_name : Dict Nat FieldD
  sorted_field_names : List Nat
  default_gen : Dict Nat DefGen
  cls_by_field : Dict ClsKey ClsVal
  deriving Repr

/-- `cls._betterproto_meta` on a class whose cache attribute is `cache`: AttributeError while unset -/
def getCache (cache : Option ClassMeta) : Res ClassMeta :=
  match cache with
  | some m => .ok m
  | Option.none => .raise .attr

/-! ### instances -/

structure Inst where
  slots : List Val
  onWire : Option Bool := Option.none
  unknown : Option Bytes := Option.none
  groupCurrent : Option (Dict Nat (Option Nat)) := Option.none
  deriving Repr

/-- `self.__raw_get(name)` / `super().__getattribute__(name)` of a field name -/
def rawGet (self : Inst) (name : Nat) : Val := self.slots.getD name .ph
/-- `super().__setattr__(name, v)` of a field name -/
def rawSet (self : Inst) (name : Nat) (v : Val) : Inst := { self with slots := self.slots.set name v }
/-- `self.__dict__["_serialized_on_wire"] = b` -/
def setOnWire (self : Inst) (b : Bool) : Inst := { self with onWire := some b }
/-- `self.__dict__["_unknown_fields"] = b` -/
def setUnknown (self : Inst) (b : Bytes) : Inst := { self with unknown := some b }
/-- `self.__dict__["_group_current"] = d` -/
def setGroupCurrent (self : Inst) (d : Dict Nat (Option Nat)) : Inst := { self with groupCurrent := some d }
/-- `self._group_current`: AttributeError before `__post_init__` has stored it -/
def getGroupCurrent (self : Inst) : Res (Dict Nat (Option Nat)) :=
  match self.groupCurrent with
  | some d => .ok d
  | Option.none => .raise .attr
/-- `self._group_current[group] = name`: a store into the instance's dict -/
def groupCurrentSet (self : Inst) (group name : Nat) : Res Inst :=
  match self.groupCurrent with
  | some d => .ok { self with groupCurrent := some (dictSet d group (some name)) }
  | Option.none => .raise .attr
/-- `hasattr(self, "_group_current")` -/
def hasGroupCurrent (self : Inst) : Bool := self.groupCurrent.isSome
/-- `v is PLACEHOLDER` -/
def isPlaceholder : Val → Bool
  | .ph => true
  | _ => false
/-- `v is None` -/
def isNone : Val → Bool
  | .none => true
  | _ => false
/-- `attr != "<s>"` for a FIELD name and one of the bookkeeping attribute names: always true (no field is
    called `_serialized_on_wire`) -/
def nameNeStr (_name : Nat) (_s : String) : Bool := true
/-- `isinstance(value, Message)` -/
abbrev isMessage (v : Val) : Bool := isMsgVal v
/-- `hasattr(value, "_betterproto")` (a class property of `Message`) -/
abbrev hasBetterproto (v : Val) : Bool := isMsgVal v
/-- truth value of `value._betterproto.meta_by_field_name` of a Message instance: its class has a field -/
def valHasFields (S : Schema) : Val → Bool
  | .msg c _ _ _ _ => !(fieldsOf S c).isEmpty
  | _ => false
/-- `value._serialized_on_wire = True` on a Message instance -/
def valSetOnWire : Val → Val
  | .msg c sl _ unk cur => .msg c sl true unk cur
  | v => v

/-- the dataclass default of a field (`dataclass_field`: `None if optional else PLACEHOLDER`, tied in
    `C06.src_dataclass_field`): what the class attribute holds, hence what a raw read finds
    before anything was assigned -/
def fieldDefault (f : FieldD) : Val := if f.optional then Val.none else Val.ph

/-- THE GENERATED DATACLASS `__init__(self, f0=<default0>, f1=<default1>, …)` (CPython's `dataclasses`, not
    betterproto source): `self.f = f` for every field in declaration order, through the class's
    `__setattr__` (`setattr`, the translated `Message.__setattr__`).  The keyword arguments are
    `kw` (name → value; the first entry for a name counts — a Python call cannot repeat a keyword); an
    argument that names no field is a TypeError. -/
def dataclassInit (setattr : Inst → Nat → Val → Res Inst) (cls : List FieldD) (kw : List (Nat × Val)) : Res Inst :=
  if kw.any (fun p => decide (cls.length ≤ p.1)) then .raise .type
  else
    let rec go : List Field → Inst → Res Inst
      | [], self => .ok self
      | (i, f) :: rest, self =>
        (setattr self i ((lookupKw kw i).getD (fieldDefault f))).bind fun self =>
        go rest self
    go (dataclassFields cls) { slots := cls.map fieldDefault }

/-- the instance once `__post_init__` has run, as the `MState` of the model for a class with `n` oneof
    groups: `_group_current` read per group (`d.get(g)`: None for a group that has no member) -/
def Inst.toMState (n : Nat) (self : Inst) : Option MState :=
  match self.onWire, self.unknown, self.groupCurrent with
  | some ow, some unk, some d =>
    some { slots := self.slots, onWire := ow, unknown := unk,
           cur := (List.range n).map fun g => (dictGet d g).getD Option.none }
  | _, _, _ => Option.none

end Bp.PyMeta
