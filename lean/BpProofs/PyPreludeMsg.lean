import BpProofs.PyPreludeLoad
/-
  Semantic prelude of the SOURCE TRANSLATOR for the WHOLE METHODS of the binary codec entry
  points (harness/extract_srcmsg.py → BpProofs/Gen/SrcMsg.lean): the parts of `Message.dump`,
  `__len__`, `__bytes__`, `SerializeToString`, `load`, `parse`, `FromString`, `__getstate__`,
  `__setstate__`, `__reduce__` AROUND the loop bodies that extract_srcdump.py / extract_srcload.py
  translate (`Src.dump_field`, `Src.len_field`, `Src.load_record`), and
  `_include_default_value_for_oneof`.

  REPRESENTATION (as in PyPreludeDyn / PyPreludeLoad): a Message instance is the model's `MState`
  (raw slots in declaration order, `_serialized_on_wire`, `_unknown_fields`, `_group_current`);
  its class is `fs : List FieldD` (the values of `self._betterproto.meta_by_field_name`, in
  declaration order) on the encoder side and `d : MsgD` on the decoder side; a field NAME is the
  index of the field; a stream is the `Bytes` written so far (writer) / still unread (reader).
  The encoder methods do not change the instance (the lazy materialisation of a PLACEHOLDER slot
  by `getattr` stores an object equal to what the next `getattr` would build again: not modelled,
  as in PyPreludeDyn); `load` mutates `self` and returns it: the state is passed in and handed back.

  What is ASSUMED (trusted, not proved) is this file, on top of the earlier preludes, and the
  construct ↦ function map of the translator.  BpProofs/SrcTieMsg.lean proves the translated
  methods equal to the model's `dumpVal` / `lenVal` / `dumpDelimited` / `loadInto` / `parseInto` /
  `loadDelimited`.

  All names live in the sub-namespace `Bp.Py.Msg` (no clash with the other preludes).
-/
namespace Bp.Py.Msg
open Bp Bp.Py

/-! ### `self._betterproto.meta_by_field_name.items()` -/

/-- the (name, metadata) pairs from index `i` on -/
def itemsFrom : Nat → List FieldD → List (Nat × FieldD)
  | _, [] => []
  | i, f :: fs => (i, f) :: itemsFrom (i + 1) fs

/-- `self._betterproto.meta_by_field_name.items()`: a dict filled in declaration order; the key
    (field name) is the index of the field -/
def metaItems (fs : List FieldD) : List (Nat × FieldD) := itemsFrom 0 fs

/-! ### attribute access on `self` -/

/-- `try: value = getattr(self, field_name) / except AttributeError:` for the field described by
    `meta`: PyPreludeDyn's `getattrField` on the raw slot, AttributeError exactly for a oneof
    member that is not the selected one (`Message.__getattribute__`, the model's `hidden`) -/
def getattrOf (S : Schema) (self : MState) (field_name : Nat) (meta' : FieldD) : Got :=
  getattrField S meta' (hidden meta' field_name self.cur) (self.slots.getD field_name .ph)

/-- `self._unknown_fields` -/
abbrev unknownFields (self : MState) : Bytes := self.unknown

/-- `self._serialized_on_wire = b`: `Message.__setattr__` stores this flag and does nothing else -/
def setSerializedOnWire (self : MState) (b : Bool) : MState := { self with onWire := b }

/-- `self._group_current.get(group)` for `group = meta.group` (None is not a key: None) -/
def groupCurrentGet (self : MState) : Option Nat → Option Nat
  | Option.none => Option.none
  | some g => self.cur.getD g Option.none

/-- `cls()`: a freshly constructed instance of the class -/
abbrev newInstance (d : MsgD) : MState := freshState d

/-! ### the recursive knot -/

/-- a `Res` handed to code that expects the model's `R` (the `enc` / `rec` parameter of the
    translated loop bodies): running out of nesting budget (`.diverge`) is reported the way the
    model's own fuel-bounded `loadInto` reports it (`AssertionError`); it never happens below the
    budget the theorems quantify over -/
def toR {α : Type} : Res α → R α
  | .ok a => .ok a
  | .raise e => .error e
  | .diverge => .error .assertion

/-- a method of the ENCODER side called on a value: TypeError unless it is a Message instance,
    whose class table is `fieldsOf S c` -/
def onMessage {α : Type} (S : Schema) (v : Val) (k : List FieldD → MState → Res α) : Res α :=
  match v with
  | .msg c slots ow unk cur => k (fieldsOf S c) { slots := slots, onWire := ow, unknown := unk, cur := cur }
  | _ => .raise .type

/-- a method of the DECODER side called on a value (KeyError for a class that is not in the schema,
    as in the model's `parseInto`); the result is again an instance of that class -/
def onInstance (S : Schema) (v : Val) (k : MsgD → MState → Res MState) : Res Val :=
  match v with
  | .msg c slots ow unk cur =>
    match S[c]? with
    | Option.none => .raise .key
    | some d => (k d { slots := slots, onWire := ow, unknown := unk, cur := cur }).bind fun st => .ok (st.toVal c)
  | _ => .raise .type

/-- the same for a method that also hands back the unread rest of a stream -/
def onInstanceS (S : Schema) (v : Val) (k : MsgD → MState → Res (MState × Bytes)) : Res (Val × Bytes) :=
  match v with
  | .msg c slots ow unk cur =>
    match S[c]? with
    | Option.none => .raise .key
    | some d => (k d { slots := slots, onWire := ow, unknown := unk, cur := cur }).bind fun r => .ok (r.1.toVal c, r.2)
  | _ => .raise .type

end Bp.Py.Msg
