import BpProofs.PyPreludeCasing
import BpModel.Naming
/-
  Semantic prelude of the SOURCE TRANSLATOR for src/betterproto/compile/naming.py
  (harness/extract_srcnaming.py → BpProofs/Gen/SrcNaming.lean), next to BpProofs/PyPreludeCasing.lean
  (whose translated `Src.snake_case`, `Src.pascal_case`, `Src.sanitize_name`, `Src.safe_snake_case` are what
  `casing.X(...)` calls) and BpProofs/PyPreludeStr.lean (`len` = `llen`, `x[a:]` = `sliceFrom`, `Str = List Char`).

  What is ASSUMED (trusted, not proved):
    * `x.upper()` (`strUpper`) is the model's `Naming.upperW`: the 26 ASCII lower-case letters are mapped through the
      explicit table `Casing.lowers ↦ Casing.uppers`, every other character is unchanged.  That is Python's
      behaviour on ASCII strings.  On NON-ASCII characters Python's `str.upper` applies the Unicode upper-case
      mapping (`'é' ↦ 'É'`, and even changes the length: `'ß' ↦ 'SS'`); that is NOT modelled.  naming.py applies
      `.upper()` only to the result of `casing.snake_case`, which consists of `[a-z0-9_]` whatever the input
      (`Bp.Casing.snake_identChars`: every non-ASCII character is a "symbol" of the pattern and is dropped).
    * `x.find(sub)` (`strFind`): the lowest index `i` such that `x[i:i+len(sub)] == sub` (i.e. `sub` is a prefix of
      `x[i:]`), `-1` when there is none; for the empty `sub` that is `0` (also on the empty `x`).
      Indices count characters (code points), as `len` and slices do.
    * `x.strip(chars)` (`strStrip`): `x` without its longest prefix and its longest suffix made of characters that
      occur in `chars` (the argument is a SET of characters, not a substring).
    * `a + b`, `a != b` on `int` are `Int` addition and (dis)equality.
-/
namespace Bp.Py
open Bp.Importing (Str)

/-- `x.upper()` (ASCII; see the head of the file for what non-ASCII does) -/
def strUpper (x : Str) : Str := Naming.upperW x

/-- `x.find(sub)` restricted to `x[i:]` read as the list `rest`, positions counted from `i` -/
def strFindFrom (sub : Str) : Nat → Str → Int
  | i, [] => if sub.isEmpty then (i : Int) else -1
  | i, c :: rest => if sub.isPrefixOf (c :: rest) then (i : Int) else strFindFrom sub (i + 1) rest

/-- `x.find(sub)`: index of the first occurrence, `-1` if there is none -/
def strFind (x sub : Str) : Int := strFindFrom sub 0 x

/-- `x.strip(chars)` -/
def strStrip (x chars : Str) : Str :=
  (((x.dropWhile fun c => chars.contains c).reverse).dropWhile fun c => chars.contains c).reverse

end Bp.Py
