import BpProofs.PyPreludeDyn
import BpModel.Ops
import BpModel.Eq
/-
  Semantic prelude of the SOURCE TRANSLATOR for the small methods of the object state machine
  (harness/extract_srcobj.py → BpProofs/Gen/SrcObj.lean, SrcObjObs.lean, SrcObjCopy.lean):
  `Message.__setattr__`, `__getattribute__`, `_include_default_value_for_oneof`, `is_set`,
  `__bool__`, `__eq__`, `__copy_state_to`, and the module functions `which_one_of`,
  `serialized_on_wire`.

  REPRESENTATION (trusted, not proved — exactly this file and the construct ↦ function map of the
  translator):
    * a Message instance of a class whose `_betterproto.meta_by_field_name` is described by
      `fs : List FieldD` (declaration order) is an `MState` AFTER `__post_init__` has run:
      `slots` = the raw attribute values in declaration order (what `object.__getattribute__`
      finds: the instance `__dict__` entry, else the dataclass default on the class — PLACEHOLDER
      = `Val.ph`, `None` for an optional field), `onWire` = `_serialized_on_wire`, `unknown` =
      `_unknown_fields`, `cur` = `_group_current` as a list indexed by group (`none` = the value
      `None` that `__post_init__` stores with `setdefault`; there is one entry per group of the
      class, `cur.length` = number of groups);
    * an attribute NAME (`attr`, `name`, `field_name`, `field.name`) is the index of the field in
      `meta_by_field_name`; the translated methods are the methods specialised to names of that
      kind.  A oneof GROUP name is the index of the group;
    * a `dataclasses.Field` of the class (`for field in oneof_field_by_group[group]`) is the
      pair (index, descriptor);
    * a field value is a `Val`; the value model has no aliasing: a mutation of an argument
      (`value._serialized_on_wire = True`) is visible where the translated function stores or
      returns that value, not in the caller's other references (that half is the heap model of
      Props/C14Heap.lean).
-/
namespace Bp.Py

/-! ### attribute names -/

/-- `name == "<s>"` for a FIELD name and one of the attribute names the methods test against
    (`_serialized_on_wire`, `__class__`, `_betterproto`; the translator emits it for these three
    only): never equal — the plugin never generates a field with one of these names. -/
def nameIsStr (_name : Nat) (_s : String) : Bool := false
/-- the str `""` where a field name is expected (`which_one_of` of a group with no selection) -/
abbrev noName : Option Nat := Option.none

/-! ### the raw attribute store: `object.__getattribute__` / `object.__setattr__` / `__dict__` -/

/-- `super().__getattribute__(name)`, `self.__raw_get(name)`: the raw slot of a field -/
abbrev rawGet (self : MState) (name : Nat) : Val := self.slots.getD name .ph
/-- `super().__setattr__(name, v)`, `self.__dict__[name] = v`: write the raw slot, nothing else -/
def rawSet (self : MState) (name : Nat) (v : Val) : MState := { self with slots := setAt self.slots name v }
/-- `self._serialized_on_wire` (read through `__getattribute__`, which passes a non-field name on) -/
abbrev getOnWire (self : MState) : Bool := self.onWire
/-- `self.__dict__["_serialized_on_wire"] = b` -/
def setOnWire (self : MState) (b : Bool) : MState := { self with onWire := b }
/-- `self._unknown_fields` -/
abbrev getUnknown (self : MState) : Bytes := self.unknown
/-- `self.__dict__["_unknown_fields"] = b` -/
def setUnknown (self : MState) (b : Bytes) : MState := { self with unknown := b }
/-- `hasattr(self, "_group_current")`: true once `__post_init__` has run; an `MState` is such a
    state (during the dataclass `__init__` the attribute is missing and `__setattr__` skips the
    oneof bookkeeping: the model's `construct` is that phase) -/
def hasGroupCurrent (_self : MState) : Bool := true
/-- `super().__getattribute__("_group_current")` inside `try … except AttributeError`: succeeds
    after `__post_init__` -/
def superGetGroupCurrent (self : MState) : Res (List (Option Nat)) := .ok self.cur
/-- `self._group_current` (a reference to the instance's dict; reads only) -/
abbrev getGroupCurrent (self : MState) : List (Option Nat) := self.cur
/-- `dict(d)`: a new dict with the same entries -/
abbrev dictCopy (d : List (Option Nat)) : List (Option Nat) := d
/-- `self.__dict__["_group_current"] = d` for a dict `d` that nothing else refers to -/
def setGroupCurrent (self : MState) (d : List (Option Nat)) : MState := { self with cur := d }
/-- `self._group_current[group] = name` for a group of the class (an index below `cur.length`) -/
def groupCurrentSet (self : MState) (group name : Nat) : MState := { self with cur := self.cur.set group (some name) }
/-- `d.get(group)` on a `_group_current` dict: None for a missing key and for a stored None -/
abbrev groupCurrentGet (d : List (Option Nat)) (group : Nat) : Option Nat := d.getD group Option.none
/-- `d[group]` on a `_group_current` dict: KeyError for a key that is not there -/
def groupCurrentIndex (d : List (Option Nat)) (group : Nat) : Res (Option Nat) :=
  if group < d.length then .ok (d.getD group Option.none) else .raise .key

/-! ### `ProtoClassMetadata` (`self._betterproto`) of the class described by `fs` -/

/-- `oneof_group_by_field.get(name)`; `name in oneof_group_by_field` is `.isSome` of it -/
def oneofGroupByField (fs : List FieldD) (name : Nat) : Option Nat := (fs[name]?).bind fun f => f.group
/-- `d[key]` given `d.get(key)`: KeyError when absent -/
def lookup {α : Type} : Option α → Res α
  | some a => .ok a
  | Option.none => .raise .key
/-- the members of group `g` among the fields `fs`, the first of which has index `j` -/
def membersFrom (g : Nat) : List FieldD → Nat → List (Nat × FieldD)
  | [], _ => []
  | f :: fs, j => if f.group == some g then (j, f) :: membersFrom g fs (j + 1) else membersFrom g fs (j + 1)
/-- `oneof_field_by_group[group]`: the `dataclasses.Field`s of the members.  It is a SET in the
    source: the iteration order is arbitrary; declaration order is used here, and
    `SrcTieObj.setattr_loop_perm` proves that the loop of `__setattr__` does not depend on it. -/
def oneofFieldByGroup (fs : List FieldD) (g : Nat) : List (Nat × FieldD) := membersFrom g fs 0
/-- `field.name` -/
abbrev fieldName (field : Nat × FieldD) : Nat := field.1
/-- `meta_by_field_name[name]`: KeyError for a name that is not a field -/
def metaByFieldName (fs : List FieldD) (name : Nat) : Res FieldD :=
  match fs[name]? with
  | some f => .ok f
  | Option.none => .raise .key
/-- iterating `meta_by_field_name`: the field names in declaration order -/
def fieldNames (fs : List FieldD) : List Nat := List.range fs.length
/-- `sorted_field_names` (by field number; distinct numbers assumed): every field name once.  Only
    used by a loop whose iterations touch pairwise distinct slots; declaration order is used here. -/
def sortedFieldNames (fs : List FieldD) : List Nat := List.range fs.length
/-- `self._get_field_default(name)`: `default_gen[name]()` — KeyError for a name that is not a field -/
def getFieldDefault (S : Schema) (fs : List FieldD) (name : Nat) : Res Val :=
  match fs[name]? with
  | some f => .ok (defaultOf S f)
  | Option.none => .raise .key
/-- `v == self._get_field_default(name)` (the comparison PyPreludeDyn's `eqFieldDefault` fixes) -/
def eqFieldDefaultOf (S : Schema) (fs : List FieldD) (name : Nat) (v : Val) : Res Bool :=
  match fs[name]? with
  | some f => .ok (eqDefault S f.defKind v)
  | Option.none => .raise .key

/-! ### values -/

/-- `v is PLACEHOLDER` (also the `==` against it inside `v in (PLACEHOLDER, …)`: no field value
    compares equal to the sentinel object but itself) -/
def isPlaceholder : Val → Bool
  | .ph => true
  | _ => false
/-- `v is d` for `d` known to be one of the singletons PLACEHOLDER / None -/
def isSame : Val → Val → Bool
  | .ph, .ph => true
  | .none, .none => true
  | _, _ => false
/-- `hasattr(value, "_betterproto")` (a class property of `Message`) -/
abbrev hasBetterproto (v : Val) : Bool := isMsgVal v
/-- `value._betterproto.meta_by_field_name` of a Message instance (only its truth value is used) -/
def valFields (S : Schema) : Val → List FieldD
  | .msg c _ _ _ _ => fieldsOf S c
  | _ => []
/-- `value._serialized_on_wire = b` on a Message instance `value`: `Message.__setattr__` with
    `attr == "_serialized_on_wire"` stores the flag and does nothing else -/
def valSetOnWire : Val → Bool → Val
  | .msg c sl _ unk cur, b => .msg c sl b unk cur
  | v, _ => v
/-- `_equal_or_both_nan(a, b)` (intrinsic: `a == b`, two NaN floats equal, item-wise in lists and
    dicts, `Message.__eq__` on messages): the model's `valEq` -/
abbrev equalOrBothNan (S : Schema) (a b : Val) : Bool := valEq S a b
/-- what `__eq__` returns -/
inductive EqRes where
  | notImplemented
  | bool (b : Bool)
  deriving DecidableEq, Repr
/-- `sys.version_info < (major, minor)` on the interpreter of the sandbox (3.12) -/
def sysVersionInfoLt (major minor : Nat) : Bool := 3 < major || (major == 3 && 12 < minor)

end Bp.Py
