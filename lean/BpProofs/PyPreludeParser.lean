import BpProofs.PyPreludePlugin
/-
  Semantic prelude of the SOURCE TRANSLATOR for src/betterproto/plugin/parser.py
  (harness/extract_srcparser.py → BpProofs/Gen/SrcParser.lean): what the objects that `traverse`,
  `read_protobuf_type`, `read_protobuf_service` and `generate_code` handle mean on the model's descriptor types
  (`MsgP` / `EnumP` / `FieldP` of BpModel/Plugin.lean, as already seen by PyPreludePlugin.lean).

  What is ASSUMED (trusted, not proved) is this file together with PyPrelude.lean / PyPreludeStr.lean /
  PyPreludePlugin.lean, one line per intrinsic:
    * VALUES FOR OBJECTS.  Every descriptor object is a Lean value.  An attribute store `item.name = v` rebinds the
      variable `item` to the changed value (`setItemName`); the translator checks that the object is reached through
      that one variable in the rest of the block.  Each FileDescriptorProto object of a request is traversed once
      (it is appended to the `input_files` of exactly one OutputTemplate, once), so no second reader sees the renamed
      objects through another path inside the translated code; what the TEMPLATE later reads through the stored
      `proto_obj` references is the object as it was yielded (own name flattened), which is the value recorded here.
    * GENERATORS.  A generator function is the function that returns the list of the values it yields, in order, each
      AS IT WAS AT THE MOMENT OF THE `yield` (the consumer loop `for item, path in traverse(f): …` runs its body
      between two yields: it sees a message with its own name already prefixed and its nested types not yet renamed).
      `yield from g(…)` appends the list of `g(…)`.
    * `DItem`: an element of `proto_file.enum_type / .message_type`, `item.enum_type / .nested_type`: an
      EnumDescriptorProto (`.enum`) or a DescriptorProto (`.msg`).  `isinstance(x, DescriptorProto)` /
      `isinstance(x, EnumDescriptorProto)` is the constructor test; inside the true branch the variable is the
      `MsgP` / `EnumP` itself.  `x.name` (`itemName`), `x.name = v` (`setItemName`).
    * `m.enum_type` (`enumType`), `m.nested_type` (`nestedType`) of a DescriptorProto, `f.enum_type` (`fileEnumType`),
      `f.message_type` (`fileMessageType`) of a FileDescriptorProto: the list of the elements as `DItem`s;
      `m.field` (`dFields`), `m.options.map_entry` (`Py.Plg.optionsMapEntry`); `f.package`, `f.name`, `f.service`;
      `s.method` of a ServiceDescriptorProto.
    * `[*path, a, b]` / `path + [a, b]` on a `List[int]`: `path ++ [a, b]`; `enumerate(xs)` counts from 0.
    * COMPILER OBJECTS.  Constructing `MessageCompiler / EnumDefinitionCompiler / FieldCompiler / OneOfFieldCompiler /
      PydanticOneOfFieldCompiler / MapEntryCompiler / ServiceCompiler / ServiceMethodCompiler (source_file=…, parent=…,
      proto_obj=…, path=…[, typing_compiler=…])` is RECORDED: it appends one `Built` entry (class, `proto_obj`,
      `path`, and for a field / method the parent object as the value `MsgC` / `SvcC` of what the parent was
      constructed with) to the `built` list of the OutputTemplate at the root of the `parent` chain.  This stands for
      the `__post_init__` methods of models.py (`self.output_file.messages / enums / services.append(self)`,
      `self.parent.fields / methods.append(self)`), which are not translated: the `messages`, `enums`, `services` of
      an OutputTemplate and the `fields` of a message are, in order, the `Built` entries of that kind (`builtMessages`
      …).  Exceptions raised INSIDE a constructor (`add_imports_to` evaluating `annotation`,
      `MapEntryCompiler.__post_init__` indexing `nested.field[1]`, the PLACEHOLDER check) are not modelled: the log
      describes the runs in which no constructor raises.  The translator checks on the AST that every constructor
      call passes `source_file=<the source_file parameter>` and, where the class takes one,
      `typing_compiler=<the OutputTemplate in scope>.typing_compiler`, and that the root of `parent` is the one
      OutputTemplate variable in scope (a compiler object received as a parameter: checked at every call site).
    * `PluginRequestCompiler(plugin_request_obj=request)`: its `output_packages` starts as the empty dict (the
      dataclass default); the translated code holds that dict in the variable `request_data_output_packages`.
    * `OutTpl`: an OutputTemplate object: the attributes `generate_code` stores (`package_proto_obj`, `input_files`,
      `output`, `pydantic_dataclasses`, `typing_compiler`) with the defaults of the dataclass, and `built`.
      `DirectImportTypingCompiler()` … are fresh objects of PyPreludePlugin's `TC` (`.direct []`,
      `.typingImport false`, `.noTyping310 []`).
    * `Dict α`: a `dict` with str keys as the list of its items in insertion order (Python ≥ 3.7): `k in d`
      (`dictHas`), `d[k]` (`dictGet`, KeyError as `.raise .key`), `d[k] = v` (`dictSet`: in place for an existing
      key, at the end for a new one), `d.items()` (the list).  `for k, v in d.items():` whose body changes the
      object `v` (never `d`): the changed `v` is stored back under `k` at the end of each iteration (`v` IS the
      object in the dict).
    * `Response`: the CodeGeneratorResponse: `supported_features` (the member name stored), `file`: the
      CodeGeneratorResponseFile objects appended, each its `name` and what its `content` renders (`some t`: the text
      `outputfile_compiler(output_file=t)` — Jinja template + formatter, not translated —, `none`: no content).
    * `PyPath` / `pathlib.Path`: a relative path as the list of its parts.  `Path(*parts)` (`pathNew`): empty parts
      and `"."` parts dropped (EXACT only when no part contains `/` and none is absolute: true of the dot-separated
      pieces of a proto package name); `str(p)` (`pathStr`): parts joined by `/`, `"."` for no part; `p.parents`
      (`pathParents`): the proper prefixes, longest first, down to the empty path; `p.joinpath(s)`; `p.exists()`:
      a PARAMETER `exists_` of `generate_code` (the file system under the plugin's working directory).
    * `set()` / `{… for …}` / `s.add(x)` / `a - b` / `a.union(b)` on sets of paths: the list of the members in
      first-insertion order without repetitions (`setAdd`, `setDiff`, `setUnion`); the ITERATION ORDER of a Python
      set is unspecified, so only order-insensitive statements about a loop over a set mean something.
    * `s.startswith(p)` (`startswith`), `s.split(",")` = `Importing.splitOn ','`, truth value of a str / list: not
      empty; `x in xs` / `x not in xs` on a list of str: membership; `opt[len("typing."):]`: `Py.sliceFrom`.
    * a statement `print(…, file=sys.stderr)` (and a loop that does nothing else) is dropped: stderr is not modelled.
  BpProofs/SrcTieParser.lean proves that the translated functions equal the hand-written model (BpModel/Plugin.lean:
  `traverse`, `readItem`, `compilePackage`) the C03 theorems are about.
-/
namespace Bp.Py.Prs
open Bp.Importing (Str)
open Bp.Plugin

/-- an element of a list of EnumDescriptorProto / DescriptorProto objects -/
inductive DItem where
  | enum (e : EnumP)
  | msg (m : MsgP)
  deriving Repr, Inhabited

/-- `item.name` -/
def itemName : DItem → Str
  | .enum e => e.name
  | .msg m => m.name
/-- the DescriptorProto with another `name` -/
def setMsgName : MsgP → Str → MsgP
  | .mk _ fs ns es os me, v => .mk v fs ns es os me
/-- `item.name = v` -/
def setItemName : DItem → Str → DItem
  | .enum e, v => .enum { e with name := v }
  | .msg m, v => .msg (setMsgName m v)

/-- `m.enum_type` -/
def enumType (m : MsgP) : List DItem := m.enums.map .enum
/-- `m.nested_type` -/
def nestedType (m : MsgP) : List DItem := m.nested.map .msg
/-- `m.field` -/
def dFields (m : MsgP) : List FieldP := m.fields

/-- MethodDescriptorProto (only its identity is used) -/
structure MethodD where
  name : Str
  deriving Repr, Inhabited, DecidableEq
/-- ServiceDescriptorProto: `name`, `method` -/
structure SvcD where
  name : Str
  method : List MethodD
  deriving Repr, Inhabited, DecidableEq
/-- FileDescriptorProto: `name`, `package`, `message_type`, `enum_type`, `service` -/
structure FileD where
  name : Str
  package : Str
  messages : List MsgP
  enums : List EnumP
  services : List SvcD := []
  deriving Repr, Inhabited

/-- `f.enum_type` -/
def fileEnumType (f : FileD) : List DItem := f.enums.map .enum
/-- `f.message_type` -/
def fileMessageType (f : FileD) : List DItem := f.messages.map .msg

/-- the concrete field compiler classes -/
inductive FieldCls where
  | FieldCompiler | OneOfFieldCompiler | PydanticOneOfFieldCompiler | MapEntryCompiler
  deriving Repr, Inhabited, DecidableEq

/-- a MessageCompiler object: what it was constructed with -/
structure MsgC where
  proto_obj : MsgP
  path : List Int
  deriving Repr, Inhabited
/-- a ServiceCompiler object -/
structure SvcC where
  proto_obj : SvcD
  path : List Int
  deriving Repr, Inhabited

/-- one constructed compiler object -/
inductive Built where
  | message (c : MsgC)
  | enum (proto_obj : EnumP) (path : List Int)
  | field (cls : FieldCls) (parent : MsgC) (proto_obj : FieldP) (path : List Int)
  | service (c : SvcC)
  | method (parent : SvcC) (proto_obj : MethodD) (path : List Int)
  deriving Repr, Inhabited

/-- an OutputTemplate object -/
structure OutTpl where
  package_proto_obj : FileD
  input_files : List FileD := []
  output : Bool := true
  pydantic_dataclasses : Bool := false
  typing_compiler : Py.Plg.TC := .direct []
  built : List Built := []
  deriving Repr, Inhabited

/-- `OutputTemplate(parent_request=…, package_proto_obj=f)` -/
def newOutputTemplate (f : FileD) : OutTpl := { package_proto_obj := f }

/-- `MessageCompiler(parent=<the OutputTemplate>, proto_obj=m, path=p, …)` -/
def newMessageCompiler (t : OutTpl) (m : MsgP) (p : List Int) : MsgC × OutTpl :=
  (⟨m, p⟩, { t with built := t.built ++ [.message ⟨m, p⟩] })
/-- `EnumDefinitionCompiler(parent=<the OutputTemplate>, proto_obj=e, path=p, …)` -/
def newEnumDefinitionCompiler (t : OutTpl) (e : EnumP) (p : List Int) : OutTpl :=
  { t with built := t.built ++ [.enum e p] }
/-- `<field compiler class>(parent=<a MessageCompiler>, proto_obj=f, path=p, …)` -/
def newFieldCompiler (cls : FieldCls) (t : OutTpl) (parent : MsgC) (f : FieldP) (p : List Int) : OutTpl :=
  { t with built := t.built ++ [.field cls parent f p] }
/-- `ServiceCompiler(parent=<the OutputTemplate>, proto_obj=s, path=p, …)` -/
def newServiceCompiler (t : OutTpl) (s : SvcD) (p : List Int) : SvcC × OutTpl :=
  (⟨s, p⟩, { t with built := t.built ++ [.service ⟨s, p⟩] })
/-- `ServiceMethodCompiler(parent=<a ServiceCompiler>, proto_obj=m, path=p, …)` -/
def newServiceMethodCompiler (t : OutTpl) (parent : SvcC) (m : MethodD) (p : List Int) : OutTpl :=
  { t with built := t.built ++ [.method parent m p] }

/-- a dict with str keys: its items in insertion order -/
abbrev Dict (α : Type) := List (Str × α)
/-- `k in d` -/
def dictHas {α : Type} (d : Dict α) (k : Str) : Bool := d.any (fun p => p.1 == k)
/-- `d[k]` -/
def dictGet {α : Type} : Dict α → Str → Res α
  | [], _ => .raise .key
  | (a, v) :: r, k => if a = k then .ok v else dictGet r k
/-- `d[k] = v` -/
def dictSet {α : Type} : Dict α → Str → α → Dict α
  | [], k, v => [(k, v)]
  | (a, w) :: r, k, v => if a = k then (a, v) :: r else (a, w) :: dictSet r k v

/-- a CodeGeneratorResponseFile -/
structure RFile where
  name : Str
  content : Option OutTpl
  deriving Repr, Inhabited
/-- the CodeGeneratorResponse -/
structure Response where
  supported_features : Option Str := none
  file : List RFile := []
  deriving Repr, Inhabited

/-- the CodeGeneratorRequest: `parameter`, `proto_file` -/
structure Request where
  parameter : Str
  proto_file : List FileD
  deriving Repr, Inhabited

/-- a relative `pathlib.Path`: its parts -/
abbrev PyPath := List Str
/-- `pathlib.Path(*parts)` -/
def pathNew (parts : List Str) : PyPath := parts.filter (fun s => !s.isEmpty && s != ".".toList)
/-- `str(p)` -/
def pathStr (p : PyPath) : Str := if p.isEmpty then ".".toList else Bp.Importing.joinWith '/' p
/-- `p.parents` -/
def pathParents : PyPath → List PyPath
  | [] => []
  | p => (List.range p.length).reverse.map (fun n => p.take n)
/-- `p.joinpath(s)` -/
def pathJoin (p : PyPath) (s : Str) : PyPath := pathNew (p ++ [s])

/-- `s.add(x)` -/
def setAdd {α : Type} [DecidableEq α] (s : List α) (x : α) : List α := if x ∈ s then s else s ++ [x]
/-- `{x for x in xs}`: the members of a list in first-occurrence order -/
def setOfList {α : Type} [DecidableEq α] (xs : List α) : List α := xs.foldl setAdd []
/-- `a - b` -/
def setDiff {α : Type} [DecidableEq α] (a b : List α) : List α := a.filter (fun x => decide (x ∉ b))
/-- `a.union(b)` -/
def setUnion {α : Type} [DecidableEq α] (a b : List α) : List α := b.foldl setAdd a

/-- `s.startswith(p)` -/
def startswith (s p : Str) : Bool := p.isPrefixOf s

end Bp.Py.Prs
