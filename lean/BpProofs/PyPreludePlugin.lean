import BpProofs.PyPreludeTyping
import BpProofs.PyPreludeCasing
import BpModel.Plugin
import BpModel.Naming
import BpModel.Gen.ImportWrappers
/-
  Semantic prelude of the SOURCE TRANSLATOR for src/betterproto/plugin/models.py
  (harness/extract_srcplugin.py → BpProofs/Gen/SrcPlugin.lean): what the descriptor-object
  operations of the field classification (`get_map_entry`, `is_map`, `is_oneof`, the properties of
  `FieldCompiler` and its three subclasses) mean on the model's `FieldP` / `MsgP` (BpModel/Plugin.lean).

  What is ASSUMED (trusted, not proved) is this file together with PyPrelude.lean / PyPreludeStr.lean /
  PyPreludeTyping.lean (str fragment) and `Py.lower` of PyPreludeCasing.lean, one line per intrinsic:
    * a `FieldDescriptorProto` is a `FieldP`, a `DescriptorProto` a `MsgP` (how the harness builds them from
      the real descriptors is validated by the C03 correspondence run);
    * `f.type` (`fType`): the number of the FieldDescriptorProtoType member; `f.label` (`fLabel`): the member of
      FieldDescriptorProtoLabel as the model's `Label`; `FieldDescriptorProtoLabel.LABEL_OPTIONAL / _REQUIRED /
      _REPEATED` are `Label.optional / .required / .repeated`;
    * `FieldDescriptorProtoType.<NAME>` (`typeMember`): the number listed for NAME in the regenerated table
      `Gen.Plugin.descTypeName` (the generated file carries an `example … := by decide` per name used that the
      name IS listed: a name that is no member — AttributeError in Python — breaks the build);
    * `FieldDescriptorProtoType(n).name` (`typeEnumName`): the name listed for `n`, ValueError for a number that
      is no member;
    * `f.type_name`, `f.name`, `f.number`, `f.proto3_optional` (`fTypeName` …): the components of `FieldP`;
    * `f.oneof_index` (`fOneofIndex`): the index, `0` (the proto3 default) when it is not set;
    * `which_one_of(f, "oneof_index")[0]` (`whichOneofIndex`): `"oneof_index"` when the index is set, `""`
      otherwise (after `monkey_patch_oneof_index()`, which the plugin runs first: the model's `oneofIndex.isSome`);
    * `m.nested_type` (`nestedType`), `m.options.map_entry` (`optionsMapEntry`), `m.name` (`dName`),
      `m.oneof_decl[i].name` (`oneofDeclName`: IndexError — here `.key` — outside the list), `m.field[i]`
      (`dField`);
    * the objects that reach a parameter annotated `DescriptorProto` (`ParentObj`): a DescriptorProto
      (`.descriptor m`: what parser.read_protobuf_type and MapEntryCompiler pass) or a compiler object
      (`.compiler`: what `FieldCompiler.repeated` passes, `self.parent`).  The translator has checked on the AST
      that no class of models.py defines, and no statement stores, an attribute `nested_type`: so
      `getattr(p, "nested_type", [])` (`nestedTypeOr`) is `[]`, `hasattr(p, "nested_type")` (`hasNestedType`)
      is False and `p.nested_type` (`nestedTypeOf`) raises AttributeError on a compiler object;
    * `x in WRAPPER_TYPES` (`inWrapperTypes`): `x` is a key of the regenerated `Gen.importWrappers`
      (harness/extract_importing.py evaluates the dictionary of compile/importing.py);
    * `s.upper()` (`upper`) is the model's `Naming.upperW`, `s.lower()` is `Py.lower` = `Casing.lowerW`: exact on
      ASCII strings (every string that reaches them here is a table entry or an enum member name); Python's
      Unicode case mapping of other characters is not modelled;
    * `s.replace(old, new)` (`replace`) for a non-empty `old`: the leftmost non-overlapping occurrences of `old`
      replaced from left to right; `s.endswith(p)` (`endswith`);
    * `xs.pop()` on a list that is a temporary (`s.split(".").pop()`): its last element (`Py.index xs (-1)`);
    * `f"{i}"` for an int (`strOfInt`): its decimal numeral; `f"{x}"` for an `Optional[str]` (`fmtOptStr`):
      the str, `"None"` for None; truth value of an `Optional[str]` (`truthyOptStr`): not None and not empty;
    * a field compiler object (`Self`): `self.proto_obj`, `self.parent.proto_obj` (the DescriptorProto of the
      MessageCompiler the parser attached the field to), the attributes `proto_k_type`, `proto_v_type`,
      `py_k_type`, `py_v_type` that `MapEntryCompiler.__post_init__` stores (taken as they are: `__post_init__`
      constructs objects and is not translated), `self.use_builtins` (reads `dir(builtins)` and the mutable
      `parent.builtins_types`: taken as a value), and `get_type_reference`: the TEXT returned by
      `get_type_reference(package=self.output_file.package, imports=self.output_file.imports_end,
      source_type=·, typing_compiler=self.typing_compiler, pydantic=self.output_file.pydantic_dataclasses)`
      (its `unwrap` block and `parse_source_type_name` are not translated: C13; the line it adds to the
      imports set is not tracked here);
    * `self.typing_compiler` (`TC`): an object of one of the three concrete subclasses of `TypingCompiler` (the
      translator checks on typing_compiler.py that there are exactly these three) with its state as in
      PyPreludeTyping.lean; a method call on it dispatches on the class (the dispatchers are generated into
      Gen/SrcPlugin.lean from the translated methods of Gen/SrcTyping.lean) and hands the state back;
    * a property / method of `self` is looked up in the method resolution order of the CONCRETE class of the
      object (single inheritance): every translated function is generated once per concrete class, with
      `self.p` and `super().p` resolved for that class.
  BpProofs/SrcTiePlugin.lean proves that the translated functions equal the hand-written model
  (BpModel/Plugin.lean) the C03 theorems are about.
-/
namespace Bp.Py.Plg
open Bp.Importing (Str)
open Bp.Plugin Bp.Gen.Plugin

/-- the objects passed where a `DescriptorProto` is annotated -/
inductive ParentObj where
  | descriptor (m : MsgP)
  | compiler
  deriving Repr, Inhabited

/-- `f.type` -/
def fType (f : FieldP) : Nat := f.type
/-- `f.label` -/
def fLabel (f : FieldP) : Label := f.label
/-- `f.type_name` -/
def fTypeName (f : FieldP) : Str := f.typeName
/-- `f.name` -/
def fName (f : FieldP) : Str := f.name
/-- `f.number` -/
def fNumber (f : FieldP) : Int := (f.number : Nat)
/-- `f.proto3_optional` -/
def fProto3Optional (f : FieldP) : Bool := f.proto3Optional
/-- `f.oneof_index` -/
def fOneofIndex (f : FieldP) : Int := ((f.oneofIndex.getD 0 : Nat) : Int)
/-- `which_one_of(f, "oneof_index")[0]` -/
def whichOneofIndex (f : FieldP) : Str := if f.oneofIndex.isSome then "oneof_index".toList else []

/-- `FieldDescriptorProtoType.<NAME>` -/
def typeMember (nm : Str) : Nat := typeNo nm
/-- NAME is a member of FieldDescriptorProtoType -/
def isTypeMember (nm : Str) : Bool := descTypeName.any (fun p => p.2 = nm)
/-- `FieldDescriptorProtoType(n).name` -/
def typeEnumName (n : Nat) : Res Str :=
  match lookupN? n descTypeName with
  | some s => .ok s
  | none => .raise .value

/-- `m.nested_type` -/
def nestedType (m : MsgP) : List MsgP := m.nested
/-- `getattr(p, "nested_type", [])` -/
def nestedTypeOr : ParentObj → List MsgP
  | .descriptor m => m.nested
  | .compiler => []
/-- `hasattr(p, "nested_type")` -/
def hasNestedType : ParentObj → Bool
  | .descriptor _ => true
  | .compiler => false
/-- `p.nested_type` -/
def nestedTypeOf : ParentObj → Res (List MsgP)
  | .descriptor m => .ok m.nested
  | .compiler => .raise .attr
/-- `m.options.map_entry` -/
def optionsMapEntry (m : MsgP) : Bool := m.mapEntry
/-- `m.name` -/
def dName (m : MsgP) : Str := m.name
/-- `m.oneof_decl[i].name` -/
def oneofDeclName (m : MsgP) (i : Int) : Res Str := Py.index m.oneofs i
/-- `m.field[i]` -/
def dField (m : MsgP) (i : Int) : Res FieldP := Py.index m.fields i

/-- `x in WRAPPER_TYPES` -/
def inWrapperTypes (x : Str) : Bool := Bp.Gen.importWrappers.any (fun p => p.1.toList = x)

/-- `s.upper()` -/
def upper (s : Str) : Str := Bp.Naming.upperW s

/-- `s.replace(old, new)`, `fuel` ≥ the number of characters left -/
def replaceAux (old new : Str) : Nat → Str → Str
  | 0, s => s
  | _ + 1, [] => []
  | n + 1, c :: r =>
    if old.isPrefixOf (c :: r) then new ++ replaceAux old new n ((c :: r).drop old.length)
    else c :: replaceAux old new n r
/-- `s.replace(old, new)` for a non-empty `old` -/
def replace (s old new : Str) : Str := replaceAux old new s.length s

/-- `s.endswith(p)` -/
def endswith (s p : Str) : Bool := p.isSuffixOf s

/-- `f"{i}"` -/
def strOfInt : Int → Str
  | .ofNat n => (Nat.repr n).toList
  | .negSucc n => '-' :: (Nat.repr (n + 1)).toList

/-- `f"{x}"` for an `Optional[str]` -/
def fmtOptStr : Option Str → Str
  | some s => s
  | none => "None".toList
/-- truth value of an `Optional[str]` -/
def truthyOptStr : Option Str → Bool
  | some s => !s.isEmpty
  | none => false

/-- `self.typing_compiler`: class and state of the object -/
inductive TC where
  | direct (imports : List (Str × Str))
  | typingImport (imported : Bool)
  | noTyping310 (imports : List (Str × Str))
  deriving Repr, DecidableEq

/-- a field compiler object (what its translated properties read) -/
structure Self where
  proto_obj : FieldP
  parent_proto_obj : MsgP
  get_type_reference : Str → Res Str
  use_builtins : Bool := false
  proto_k_type : Str := []
  proto_v_type : Str := []
  py_k_type : Str := []
  py_v_type : Str := []

end Bp.Py.Plg
