import BpProofs.PyPreludeJson
import BpProofs.PyPreludeFromDict
import BpModel.PyDict
/-
  Semantic prelude of the SOURCE TRANSLATOR for `Message.to_pydict` (one iteration of the field
  loop), `Message.from_pydict` (one iteration of the key loop) and the bodies of `to_json` /
  `from_json` (harness/extract_srcpydict.py → BpProofs/Gen/SrcPyDict.lean).

  Everything `to_pydict` shares with `to_dict` — the ordered output dict, `{**value}`, iteration,
  subscripts, the tests on the value, the `FieldMetadata` projections — is IMPORTED from
  BpProofs/PyPreludeJson.lean / PyPreludeDyn.lean, and what `from_pydict` shares with
  `_from_dict_init` (`safe_snake_case`, the `meta_by_field_name` lookup, class objects, a dict-side
  object stored as a field value) from BpProofs/PyPreludeFromDict.lean.  A Python object inside a
  pydict is a `PVal` = `JVal` under the `rawJ` embedding (BpModel/PyDict.lean).

  What is ASSUMED (trusted, not proved) is this file and the construct ↦ function map of the
  translator.  INTRINSICS (not translated; they stand for model functions that have their own
  ties): `getattr(self, name)` ↦ the model's `getAttr` (tied to `Message.__getattribute__` by
  `C07.src_getattribute`), `setattr(self, name, v)` ↦ `setAttr` (`C07.src_setattr`), the recursive
  calls `x.to_pydict(casing, include_default_values)` ↦ parameter `enc`, `v.from_pydict(d)` ↦
  parameter `dec`; `json.dumps` / `json.loads` ↦ the model's `jsonText` (their composition;
  validated by the correspondence runs of C04 / C05).
-/
set_option linter.unusedVariables false
namespace Bp.Py

/-! ### to_pydict -/

/-- `hasattr(x, "to_pydict")`: Message instances only -/
abbrev hasToPyDict (v : Val) : Bool := isMsgVal v

/-- `x.to_pydict(casing, include_default_values)`: AttributeError on anything that is not a
    Message instance (a datetime, a timedelta, a scalar, None, a list …), else the recursive call -/
def callToPyDict (enc : Val → R PVal) (v : Val) : Res PVal :=
  if isMsgVal v then ofR (enc v) else .raise .attr

/-! ### from_pydict: the instance -/

/-- `getattr(self, field_name)` through `Message.__getattribute__`: AttributeError for a oneof
    member that is not the selected one; a PLACEHOLDER slot is materialised (the default is stored
    in the slot with `object.__setattr__`: the state changes, no flag does).  The name is a field
    of the class (the translator emits this after the `meta_by_field_name` lookup succeeded). -/
def pyGetattr (S : Schema) (c : Nat) (self : MState) (name : List Char) : Res (Val × MState) :=
  match findName (fieldsOf S c) name 0 with
  | some (i, _) => ofR (getAttr S (fieldsOf S c) self i)
  | Option.none => .raise .attr

/-- `setattr(self, field_name, v)` through `Message.__setattr__` -/
def pySetattr (S : Schema) (c : Nat) (self : MState) (name : List Char) (v : Val) : MState :=
  match findName (fieldsOf S c) name 0 with
  | some (i, _) => setAttr S (fieldsOf S c) self i v
  | Option.none => self

/-- an IN-PLACE mutation of the object a slot holds (`v = getattr(self, name)`, then `v.append(…)`,
    `v[k] = …`, `v.from_pydict(…)`): the slot now holds the mutated object `v`; nothing else of the
    instance changes -/
def slotStore (S : Schema) (c : Nat) (self : MState) (name : List Char) (v : Val) : MState :=
  match findName (fieldsOf S c) name 0 with
  | some (i, _) => { self with slots := setAt self.slots i v }
  | Option.none => self

/-- `self._betterproto.cls_by_field[field_name]` (no enum table is needed: enum members stay numbers) -/
def pyClsByField (S : Schema) (c : Nat) (name : List Char) : Res Cls := fdClsByField S [] c name
/-- `self._betterproto.cls_by_field[f"{field_name}.value"]` -/
def pyClsByFieldMapValue (S : Schema) (c : Nat) (name : List Char) : Res Cls := clsByFieldMapValue S [] c name

/-- `cls()`: a fresh instance of a generated message class; `datetime()` / `timedelta`-with-a-dict /
    `Optional[int]()` (the "class" of a wrapper field) / an enum class without a value: TypeError -/
def newInstance (S : Schema) : Cls → Res (Nat × Val)
  | .message c => .ok (c, fresh S c)
  | _ => .raise .type

/-- `v.from_pydict(d)` on the object `v`: the recursive call on a Message instance (it mutates `v` in
    place and returns it: the result is the mutated instance), AttributeError on anything else
    (None: a proto3-optional member that is not set) -/
def callFromPyDict (dec : Nat → Val → PVal → R Val) (v : Val) (d : PVal) : Res Val :=
  match v with
  | .msg c _ _ _ _ => ofR (dec c v d)
  | _ => .raise .attr

/-- `v.append(x)` on a list -/
def listAppend : Val → Val → Res Val
  | .list xs, x => .ok (.list (xs ++ [x]))
  | _, _ => .raise .attr

/-- `for item in <items>: v.append(cls().from_pydict(item))` over the items of a list -/
def appendLoop (S : Schema) (dec : Nat → Val → PVal → R Val) (cls : Cls) : List PVal → Val → Res Val
  | [], v => .ok v
  | x :: xs, v =>
    (newInstance S cls).bind fun (c', inst) =>
    (ofR (dec c' inst x)).bind fun m =>
    (listAppend v m).bind fun v' => appendLoop S dec cls xs v'

/-- the same with the iteration over `value[key]`: the items of a list; a dict iterates over its
    keys and a str over its characters (not modelled); anything else is not iterable -/
def appendEach (S : Schema) (dec : Nat → Val → PVal → R Val) (cls : Cls) (v : Val) : PVal → Res Val
  | .arr xs => appendLoop S dec cls xs v
  | .obj _ _ => .raise .notImpl
  | .str _ => .raise .notImpl
  | _ => .raise .type

/-- `v[k] = x` on a dict (insertion-ordered; an existing key keeps its position) -/
def dictSetItem : Val → Val → Val → Res Val
  | .dict ks vs, k, x => .ok (.dict (dictInsert ks vs k x).1 (dictInsert ks vs k x).2)
  | _, _, _ => .raise .type

/-- `for k in d: v[k] = cls().from_pydict(d[k])` over the items of a dict (`d[k]` is the value
    stored under `k`: the items are walked in order) -/
def setLoop (S : Schema) (dec : Nat → Val → PVal → R Val) (cls : Cls) : List JKey → List PVal → Val → Res Val
  | k :: ks, x :: xs, v =>
    (newInstance S cls).bind fun (c', inst) =>
    (ofR (dec c' inst x)).bind fun m =>
    (dictSetItem v (keyV k) m).bind fun v' => setLoop S dec cls ks xs v'
  | _, _, v => .ok v

/-- the same with the iteration over `value[key]`: a dict; a list iterates over its items, which are
    then used as subscripts of the list (TypeError unless there is none); anything else is not iterable -/
def setEach (S : Schema) (dec : Nat → Val → PVal → R Val) (cls : Cls) (v : Val) : PVal → Res Val
  | .obj ks xs => setLoop S dec cls ks xs v
  | .arr [] => .ok v
  | .str _ => .raise .notImpl
  | _ => .raise .type

/-! ### to_json / from_json -/

/-- the `indent` argument of `json.dumps`: None, an int or a str — layout only -/
inductive Indent where
  | none
  | some (n : Nat)
  deriving Repr

/-- a JSON document, identified with what `json.loads` makes of it -/
structure JsonText where
  parsed : JVal

/-- `json.dumps(obj, indent=indent)` with every other option at its default (`allow_nan=True`:
    NaN / Infinity are written and read back; `skipkeys=False`; no `default=`): TypeError for an
    object that is not JSON serialisable -/
def jsonDumps (j : JVal) (_indent : Indent) : Res JsonText :=
  match jsonText j with
  | some j' => .ok ⟨j'⟩
  | Option.none => .raise .type

/-- `json.loads(text)` of a text `json.dumps` wrote -/
def jsonLoads (t : JsonText) : Res JVal := .ok t.parsed

end Bp.Py
