import BpProofs.PyPrelude
import BpModel.Importing
/-
  Semantic prelude of the SOURCE TRANSLATOR for src/betterproto/compile/importing.py
  (harness/extract_srcimp.py → BpProofs/Gen/SrcImporting.lean): the `str` / `List[str]`
  fragment of Python that the `reference_*` functions and the dispatch of
  `get_type_reference` use.

  What is ASSUMED (trusted, not proved) is this file together with PyPrelude.lean:
    * a Python `str` is the list of its characters (`Str = List Char`), a `List[str]` a `List Str`;
      `+` on both is `++`, `==` is equality, truth value is "not empty"; a str constant `"abc"` is
      `"abc".toList`; an f-string whose `{…}` parts are str values without conversion / format spec
      is the concatenation of its parts;
    * `s * n` (`strMul`) repeats `s` `n` times, no times for `n ≤ 0`;
    * `len(xs)` (`llen`);
    * slices `xs[a:]`, `xs[:b]`, `xs[a:b]` (`sliceFrom`, `sliceTo`, `slice`) with Python's index rule:
      a negative index counts from the end, then the index is clamped to `0 … len(xs)` (`clamp`);
    * `xs[i]` (`index`): negative `i` counts from the end; outside `0 … len(xs) - 1` Python raises
      IndexError — rendered as `.raise .key` (PyErr has no separate IndexError constructor);
    * `sep.join(xs)` for a one-character `sep` is the model's `Importing.joinWith sep xs`, and
      `s.split(sep)` for a one-character `sep` is the model's `Importing.splitOn sep s` (used as they are);
    * `os.path.commonprefix([a, b])` on two lists (`commonprefix2`) is their longest common prefix.
      (CPython takes `min` / `max` of the two lists in lexicographic order and cuts the smaller one at
      the first position where they differ; that this is the longest common prefix whichever of the two is
      the smaller is not re-derived here: no order on strings is modelled.)
    * `imports.add(s)` on the `Set[str]` that is threaded through the functions: the set is represented
      by the list of the strings added so far, in the order they were added (`xs ++ [s]`); the set Python
      holds is the set of members of that list;
    * `safe_snake_case(x)`, `pythonize_class_name(x)` are calls of the model functions
      `Casing.safeSnake`, `Naming.pythonizeClassName` (properties C19 / C12 tie those to the code).
  BpProofs/SrcTieImp.lean proves that the translated functions equal the hand-written model
  (BpModel/Importing.lean) the C13 theorems are about.
-/
namespace Bp.Py
open Bp.Importing

/-- `len(xs)` of a list / str -/
def llen {α : Type} (xs : List α) : Int := (xs.length : Nat)

/-- `s * n` -/
def strMul (s : Str) (n : Int) : Str := (List.replicate n.toNat s).flatten

/-- Python's rule for a slice bound `i` on a sequence of length `len` -/
def clamp (len : Nat) (i : Int) : Nat := if i < 0 then (i + len).toNat else min i.toNat len

/-- `xs[lo:]` -/
def sliceFrom {α : Type} (xs : List α) (lo : Int) : List α := xs.drop (clamp xs.length lo)
/-- `xs[:hi]` -/
def sliceTo {α : Type} (xs : List α) (hi : Int) : List α := xs.take (clamp xs.length hi)
/-- `xs[lo:hi]` -/
def slice {α : Type} (xs : List α) (lo hi : Int) : List α :=
  (xs.take (clamp xs.length hi)).drop (clamp xs.length lo)

/-- `xs[i]`: IndexError (here `.key`) outside the list -/
def index {α : Type} (xs : List α) (i : Int) : Res α :=
  let j := if i < 0 then i + (xs.length : Nat) else i
  if j < 0 then .raise .key
  else match xs[j.toNat]? with
    | some x => .ok x
    | none => .raise .key

/-- `os.path.commonprefix([a, b])` on two lists: the longest common prefix -/
def commonprefix2 : List Str → List Str → List Str
  | a :: as, b :: bs => if a = b then a :: commonprefix2 as bs else []
  | _, _ => []

end Bp.Py
