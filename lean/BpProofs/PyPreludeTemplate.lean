import BpProofs.PyPreludeNaming
import BpModel.Casing
/-
  Semantic prelude of the SOURCE TRANSLATOR for the two Jinja templates of the plugin
  (harness/extract_srctemplate.py → BpProofs/Gen/SrcTemplate.lean):
      src/betterproto/templates/header.py.j2, src/betterproto/templates/template.py.j2
  rendered by `outputfile_compiler` (plugin/compiler.py) as  header.render(output_file=…) + template.render(…).

  What is ASSUMED here (trusted, not proved) — the meaning of the Jinja constructs the templates use:

    * The translation is made from the node tree `jinja2.Environment(trim_blocks=True, lstrip_blocks=True, …)
      .parse(source)` returns: Jinja's own lexer has already applied `trim_blocks`, `lstrip_blocks`, the `{%- … -%}`
      whitespace control, dropped the comments `{# … #}` and the single trailing newline of the file
      (`keep_trailing_newline=False`).  That lexer is trusted.
    * RENDERING = the concatenation, in document order, of the text of the pieces produced:
        - template data is emitted verbatim                              (`Piece.lit`)
        - `{{ e }}` emits `str(value of e)` — the environment has no `finalize` and no autoescape;
          the value of a `str` attribute is itself, of an `int` attribute its decimal `str()` (`jstrInt`)
                                                                         (`Piece.expr "<source of e>" value`)
          The source text kept in the piece is canonical (loop variables are written `<iterable>[]`:
          `output_file.imports_end[]`, `output_file.services[].methods[].route`); it is a LABEL that says which
          expression of the template produced the piece — it plays no part in `text`.
    * `{% for x in it %} body {% endfor %}` (no `else`, no filter, not recursive): the bodies for the elements of
      `it` in iteration order, concatenated (`List.flatMap`).  `loop.last` inside the body is true exactly in the
      last iteration (`forLast`).  A Python `set` is iterated in ITS iteration order, which the context fixes:
      a `set` attribute is represented by the list of its elements in that order (duplicate-free: `PySet`'s
      invariant is a hypothesis (`Nodup`) of the theorems that need it, it is what `set` means).
    * `{% if t %} A {% elif u %} B {% else %} C {% endif %}`: first branch whose test is truthy.  Truthiness:
      `bool` itself, `str` / `list` / `set` / `dict` non-empty.  `not` / `and` / `or` in a test position act on
      the truth values.
    * `{% set x = e %}` at the top level of a template: `x` is `e` in what follows.
    * `x|sort` (no arguments): Jinja's `do_sort(value, reverse=False, case_sensitive=False)` =
      `sorted(value, key=ignore_case)`: STABLE sort by `str.lower()` of the elements (`jsort`; `str.lower()` is
      modelled on ASCII by `Casing.lowerW`, as everywhere in this framework; non-ASCII import names do not occur:
      they are Python identifiers made by casing.py).  What `|sort` does NOT do: it removes nothing — two
      elements that differ only in case are both kept (that would be `|unique`, which IS case-insensitive:
      `from .. import Money as _Money__` / `from .. import money as _money__` collapse under it).  `jsort_perm`
      below: the result is a permutation of the argument.
    * `sep.join(xs)` (`jjoin`), `x.strip(chars)` (`Py.strStrip` of PyPreludeNaming.lean).
    * attribute access / method calls on the context (`output_file.imports_end`, `field.get_field_string()`,
      `output_file.typing_compiler.optional("float")` …) are the fields of the records below: the context is
      ABSTRACT — any values whatsoever; the theorems quantify over all of them.  The methods of the typing
      compiler are arbitrary functions on strings here (their three implementations are tied in
      Gen/SrcTyping.lean / SrcTieTyping.lean); that their calls mutate the compiler's `_imports` (which is why
      compiler.py renders the body BEFORE the header) is outside this model: `imports()` / `import_lines()` are
      two more abstract fields, read by the header.
    * `undefined=StrictUndefined`: an attribute that does not exist raises; the translator refuses every
      attribute that is not in its schema of the context, so this cannot happen for a context of the schema.
-/
namespace Bp.Tpl
abbrev Str := Bp.Importing.Str

/-- one piece of rendered output: template data, or the string of an expression (with its source text) -/
inductive Piece where
  | lit (s : String)
  | expr (src : String) (v : Str)
  deriving DecidableEq, Repr

def Piece.text : Piece → Str
  | .lit s => s.toList
  | .expr _ v => v

/-- what `Template.render` returns -/
def text (ps : List Piece) : Str := ps.flatMap Piece.text

/-- a Python `set` of `str`: its elements in iteration order -/
abbrev PySet := List Str
/-- a `dict` read only for its truth value: its items -/
abbrev PyDict := List (Str × List Str)

/-! ### the context: exactly the attributes the templates read -/

structure EnumEntry where
  name : Str
  value : Int
  comment : Str

structure EnumDef where
  py_name : Str
  comment : Str
  entries : List EnumEntry

structure Field where
  get_field_string : Str
  comment : Str

structure Message where
  py_name : Str
  comment : Str
  fields : List Field
  deprecated : Bool
  has_deprecated_fields : Bool
  deprecated_fields : List Str
  has_oneof_fields : Bool

structure MethodOptions where
  deprecated : Bool
structure MethodProto where
  options : MethodOptions

structure Method where
  py_name : Str
  comment : Str
  route : Str
  client_streaming : Bool
  server_streaming : Bool
  py_input_message_param : Str
  py_input_message_type : Str
  py_output_message_type : Str
  proto_obj : MethodProto

structure Service where
  py_name : Str
  comment : Str
  methods : List Method

/-- `output_file.typing_compiler`: its methods as functions -/
structure TypingCompiler where
  optional : Str → Str
  dict : Str → Str → Str
  union : Str → Str → Str
  iterable : Str → Str
  async_iterable : Str → Str
  async_iterator : Str → Str
  imports : PyDict
  import_lines : List Str

/-- `output_file`: an `OutputTemplate` -/
structure OutputFile where
  input_filenames : List Str
  enums : List EnumDef
  messages : List Message
  services : List Service
  python_module_imports : PySet
  datetime_imports : PySet
  pydantic_imports : PySet
  imports_type_checking_only : PySet
  imports_end : PySet
  pydantic_dataclasses : Bool
  typing_compiler : TypingCompiler

/-! ### the constructs -/

/-- `str(i)` of an `int` -/
def jstrInt : Int → Str
  | .ofNat n => (Nat.repr n).toList
  | .negSucc n => '-' :: (Nat.repr (n + 1)).toList

/-- `sep.join(xs)` -/
def jjoin (sep : Str) : List Str → Str
  | [] => []
  | [x] => x
  | x :: y :: r => x ++ sep ++ jjoin sep (y :: r)

/-- `{% for x in xs %}` whose body reads `loop.last` -/
def forLast {α β : Type} : List α → (α → Bool → List β) → List β
  | [], _ => []
  | [x], f => f x true
  | x :: y :: r, f => f x false ++ forLast (y :: r) f

/-- lexicographic `<=` on strings by code point (Python's `str` order) -/
def strLe : Str → Str → Bool
  | [], _ => true
  | _ :: _, [] => false
  | a :: as, b :: bs => if a.toNat < b.toNat then true else if b.toNat < a.toNat then false else strLe as bs

/-- Jinja's `ignore_case` sort key -/
def sortKey (s : Str) : Str := Bp.Casing.lowerW s

/-- insertion into a list sorted by key: before the first element whose key is not smaller (stable) -/
def jinsert (x : Str) : List Str → List Str
  | [] => [x]
  | y :: r => if strLe (sortKey x) (sortKey y) then x :: y :: r else y :: jinsert x r

/-- `xs|sort`: stable, by lower-cased value; NOTHING is removed -/
def jsort : List Str → List Str
  | [] => []
  | x :: r => jinsert x (jsort r)

theorem jinsert_perm (x : Str) (l : List Str) : (jinsert x l).Perm (x :: l) := by
  induction l with
  | nil => exact List.Perm.refl _
  | cons y r ih =>
    unfold jinsert
    split
    · exact List.Perm.refl _
    · exact (List.Perm.cons y ih).trans (List.Perm.swap x y r)

theorem jsort_perm (xs : List Str) : (jsort xs).Perm xs := by
  induction xs with
  | nil => exact List.Perm.refl _
  | cons x r ih => exact (jinsert_perm x _).trans (List.Perm.cons x ih)

/-- `|sort` keeps two names that differ only in case (it is `|unique` that would drop one) -/
example : jsort ["from .. import money as _money__".toList, "from .. import Money as _Money__".toList]
    = ["from .. import money as _money__".toList, "from .. import Money as _Money__".toList] := by decide

end Bp.Tpl
