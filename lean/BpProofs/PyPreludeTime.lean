import BpProofs.PyPrelude
import BpModel.Time
/-
  Semantic prelude of the SOURCE TRANSLATOR for the Timestamp / Duration arithmetic
  (harness/extract_srctime.py → BpProofs/Gen/SrcTime.lean).

  REPRESENTATION (as in BpModel/Time.lean and Props/C15.lean): an aware `datetime` is an
  `Int` number of microseconds since 1970-01-01T00:00:00Z, a `timedelta` an `Int` number
  of microseconds.  What is ASSUMED (trusted, not proved) is this file: that the
  `datetime` / `timedelta` operations and the builtins named below mean, on that
  representation, what is written here, and that the translator maps syntax to them
  faithfully.  NOT modelled: the finite ranges of `datetime` (years 1..9999) and
  `timedelta` (±999999999 days) — the Python operations raise OverflowError outside
  them, the definitions below are total; naive datetimes (`dt - DATETIME_ZERO` raises
  TypeError for them).  BpProofs/SrcTieTime.lean proves the translated functions equal
  to the model functions of BpModel/Time.lean.
-/
namespace Bp.Py

/-- `abs(a)` on an int -/
def abs (a : Int) : Int := (a.natAbs : Nat)

/-- `divmod(a, b)` on ints for a POSITIVE `b` (the translator only accepts a positive
    constant): floor quotient and the remainder in `[0, b)`.  Lean's `Int` `/` and `%`
    (`Int.ediv`, `Int.emod`) are exactly that for `b > 0`. -/
def divmod (a b : Int) : Int × Int := (a / b, a % b)

/-- `timedelta(days=d, seconds=s, microseconds=u)` for INTEGER arguments: the constructor
    is exact on ints (no float is involved), the result is the sum. -/
def timedelta (days seconds microseconds : Int) : Int :=
  (days * 86400 + seconds) * 1000000 + microseconds

/-- `a // b` for two timedeltas, `b` a POSITIVE constant: the floor of the quotient of
    their microsecond counts (`delta // timedelta(microseconds=1)` is the total number of
    microseconds of `delta`). -/
def tdFloorDiv (a b : Int) : Int := a / b

/-- `td.days`, `td.seconds`, `td.microseconds`: the normalised components of a timedelta,
    `0 ≤ seconds < 86400`, `0 ≤ microseconds < 10^6`, `days` of either sign, with
    `td = days·86400·10^6 + seconds·10^6 + microseconds` microseconds. -/
def tdDays (us : Int) : Int := us / 86400000000
def tdSeconds (us : Int) : Int := (us % 86400000000) / 1000000
def tdMicroseconds (us : Int) : Int := us % 1000000

/-- `datetime(1970, 1, 1, tzinfo=timezone.utc)`, the origin of the representation.  The
    translator emits it for the module constant `DATETIME_ZERO` only after checking that
    the source still defines `DATETIME_ZERO` as exactly that. -/
def epochUtc : Int := 0

/-- `a - b` for two aware datetimes: the timedelta between the two instants
    (time-zone independent) -/
def dtSub (a b : Int) : Int := a - b
/-- `dt + td` -/
def dtAdd (dt td : Int) : Int := dt + td

/-- `timedelta(seconds=s, microseconds=n / 1e3)` for ints `s`, `n` with `|n| < 2^31`
    (`nanos` is an int32 field).  JUSTIFICATION.  `n / 1e3` is a float division: `n` and
    `1e3` convert exactly, IEEE division is correctly rounded, so the float is the double
    nearest to the rational n/1000.  CPython's `timedelta.__new__` (`accum` in
    _datetimemodule.c) splits a float argument with `modf` into an integral part, added
    exactly, and a fractional part `f`, and finally adds `round-half-to-even(f)` where
    "even" refers to the parity of the integral microsecond total (`seconds·10^6` is
    even, so to the parity of the integral part of n/1000).  For `|n| < 2^31` the
    quotient is below 2^22, neighbouring doubles there are < 2^-30 apart whereas distinct
    values of n/1000 are 10^-3 apart, and q + 1/2 is a double: hence the float's
    fractional part is < 1/2, = 1/2, > 1/2 exactly when that of n/1000 is.  The result is
    therefore `s·10^6 + roundHalfEven1000 n` with the model's `roundHalfEven1000`
    (BpModel/Time.lean); harness/tests/check_srctime.py compares it with the real
    `to_timedelta` on boundary (…499, …500, …501) and random int32 values. -/
def timedeltaSecondsFloatMicros (s n : Int) : Int := s * 1000000 + roundHalfEven1000 n

/-- the f-string `f"{sign}{seconds}.{digits:0Wd}s"` where `sign` is `"-"` (`true`) or `""`
    (`false`) and `W` is 3 or 6: the text `sign ++ str(seconds) ++ "." ++ digits
    zero-padded to at least W characters ++ "s"`, kept as the tuple of its four parameters
    (the rendering to characters is not modelled) -/
def fmtSecs (sign : Bool) (seconds width digits : Int) : Bool × Int × Int × Int :=
  (sign, seconds, width, digits)

/-! ### integer-valued floats (`timestamp_to_json`: `nanos = dt.microsecond * 1e3`, `nanos % 1e9`, `nanos // 1e6`)

  A Python float that holds an integer of magnitude below 2^53 is represented by that
  `Int`.  On such doubles `x * c`, `x % c`, `x // c` for an integer-valued positive float
  constant `c` are EXACT (IEEE-754: the exact result is an integer below 2^53, hence
  representable; `%` / `//` on floats take the sign convention of the divisor, i.e. floor,
  like the int operators) as long as the result again has magnitude below 2^53.  Each
  operation below checks that and answers `.diverge` — here: "outside the domain in which
  this translation claims anything" — otherwise; the tie theorems prove `.ok …`, i.e. also
  that the domain is never left.  `int(x)` of such a float is the integer; `x == k`
  against an int compares exactly. -/

/-- the value is an integer-valued double below 2^53 in magnitude -/
def fexact (v : Int) : Res Int :=
  if -9007199254740992 < v ∧ v < 9007199254740992 then .ok v else .diverge
/-- `a * c` for an int (or integer-valued float) `a` and a positive integer-valued float constant `c` -/
def fmul (a c : Int) : Res Int := fexact (a * c)
/-- float `x % c`, `c > 0` -/
def fmod (x c : Int) : Res Int := fexact (x % c)
/-- float `x // c`, `c > 0` -/
def ffloordiv (x c : Int) : Res Int := fexact (x / c)

/-- the f-strings of `timestamp_to_json`: `f"{result}Z"` (no fractional digits) and
    `f"{result}.{digits:0Wd}Z"` (`W` zero-padded digits), where `result` is the
    `isoformat()` text of the date and time to the second (not modelled): the fraction as
    `none` / `some (W, digits)`, as the model's `tsFrac` -/
def fmtFrac0 : Option (Int × Int) := none
def fmtFrac (width digits : Int) : Option (Int × Int) := some (width, digits)

end Bp.Py
