import BpProofs.PyPreludeStr
/-
  Semantic prelude of the SOURCE TRANSLATOR for src/betterproto/plugin/typing_compiler.py
  (harness/extract_srctyping.py → BpProofs/Gen/SrcTyping.lean): what the methods of the three typing
  compilers use beyond the `str` fragment of PyPreludeStr.lean.

  What is ASSUMED (trusted, not proved) is this file together with PyPrelude.lean / PyPreludeStr.lean:
    * `s.startswith(p)` on two strs (`startswith`): `p` is a prefix of `s`;
    * a slice `s[a:b]` of a str is the slice of its list of characters (`Py.slice` of PyPreludeStr.lean);
    * `sep.join(xs)` for a str constant `sep` of any length and a list of strs (`joinStr`): the members of `xs`
      with `sep` between neighbours; `sep.join(map(f, xs))` applies `f` to the members from left to right, the
      first exception raised by `f` being the outcome (`mapRes`; `f` is a static method: it has no state);
    * `*types: str` in a signature: the positional arguments, as a list of strs;
    * the state of a compiler object.  `DirectImportTypingCompiler` / `NoTyping310TypingCompiler` hold
      `_imports`, a `defaultdict(set)` (the translator checks the dataclass field says so, so that
      `self._imports[m]` never raises KeyError): it is represented by the list of the pairs (module, name) for
      which `self._imports[module].add(name)` has run so far, in the order they ran (`xs ++ [(m, n)]`); the
      dictionary Python holds maps each module that occurs to the set of the names paired with it.
      `TypingImportTypingCompiler` holds the bool `_imported`; `self._imported = e` replaces it.
      Every translated instance method takes the state and hands it back with the returned text;
    * `{}` / `{"k": None}` returned by `TypingImportTypingCompiler.imports` (`Dict[str, Optional[Set[str]]]`):
      the list of its (key, value) pairs, `None` being `none`.
  BpProofs/SrcTieTyping.lean proves that the translated methods equal the hand-written model
  (BpModel/Typing.lean) the C18 theorems are about.
-/
namespace Bp.Py
open Bp.Importing

/-- `s.startswith(p)` -/
def startswith (s p : Str) : Bool := p.isPrefixOf s

/-- `sep.join(xs)` for a str `sep` -/
def joinStr (sep : Str) : List Str → Str
  | [] => []
  | [x] => x
  | x :: y :: r => x ++ sep ++ joinStr sep (y :: r)

/-- `map(f, xs)` consumed from left to right (by `join`), `f` possibly raising -/
def mapRes {α β : Type} (f : α → Res β) : List α → Res (List β)
  | [] => .ok []
  | x :: r => (f x).bind fun y => (mapRes f r).bind fun ys => .ok (y :: ys)

end Bp.Py
