import BpProofs.PyPreludeStr
/-
  TRUSTED semantics of the fragment of CPython's `re` module that src/betterproto/casing.py uses
  (harness/extract_srccasing.py parses the regex strings of the working tree into `Re`; BpProofs/SrcTieCasing.lean
  proves `re.sub` of the two casing patterns equal to the model's tokenizer; validated against the real `re`
  by harness/tests/check_regex.py).

  What is ASSUMED (this file is the statement of it):
    * the syntax below means what `Re` says: `[..]` / `[^..]` are sets of single characters given by inclusive
      ranges; `ab` sequence; `a|b` alternation; `[..]*`, `[..]+` greedy repetition OF A CHARACTER SET (the only
      quantified bodies the parser accepts: a body that can match the empty string would need CPython's rule for
      empty iterations, which is not modelled); `a?` greedy option; `(a)` capture group; `^` (no MULTILINE flag:
      start of the string only); `(?!a)` negative look-ahead;
    * MATCHING is CPython's backtracking search, written in continuation-passing style: `m r pos s caps k` matches
      `r` at position `pos` (the rest of the input is `s`) and hands the position / rest / captures reached to the
      continuation `k` (= "the rest of the pattern"); when `k` fails the next possibility of `r` is tried, in
      CPython's order: the left alternative before the right one, a greedy `*` longest first (giving characters
      back one by one), a greedy `?` first with, then without its body.  Captures set on a path that fails are
      forgotten (they are values, not mutable marks).  The first possibility whose continuation succeeds is THE match.
    * `(?!a)` succeeds, consuming nothing and setting no capture, iff `a` has no match at this position.
    * SEARCH (`search`): the match attempt is made at the start position, then at each later position up to and
      including the end of the input; the first position with a match wins.
    * `re.sub(pattern, repl, s)` (`sub`, CPython >= 3.7, `pattern_subx` of Modules/_sre.c): repeat
          search from the END of the previous match (from 0 the first time);
          copy the text skipped before the match; append `repl(match)`;
      until no match is found; copy the rest.  EMPTY-MATCH RULE: if the previous match was empty, the next search
      runs with `must_advance`: AT ITS START POSITION ONLY a path that ends where it started is treated as a
      failure (the matcher backtracks into further possibilities at that position, and an empty match at any
      later position is fine).  After a NON-empty match there is no restriction: an empty match directly
      adjacent to it is reported (`re.sub('x*', '-', 'abxd') == '-a-b--d-'`).
    * a `str` is the list of its code points; the classes are compared on code points (no IGNORECASE / LOCALE).
-/
namespace Bp.PyRe
open Bp.Importing (Str)

/-- `[a-zA-Z0-9]` / `[^a-zA-Z0-9]`: inclusive code-point ranges, possibly negated -/
structure CSet where
  neg : Bool
  ranges : List (Char × Char)
  deriving Repr, DecidableEq

def CSet.mem (cs : CSet) (c : Char) : Bool :=
  cs.neg != cs.ranges.any fun r => decide (r.1 ≤ c) && decide (c ≤ r.2)

inductive Re where
  | set (cs : CSet)             -- `[..]`     one character of the set
  | seq (a b : Re)              -- `ab`
  | alt (a b : Re)              -- `a|b`      a first
  | star (cs : CSet)            -- `[..]*`    greedy
  | opt (a : Re)                -- `a?`       greedy
  | group (i : Nat) (a : Re)    -- `(a)`      capture group number i
  | bol                         -- `^`
  | notAhead (a : Re)           -- `(?!a)`
  deriving Repr

/-- `[..]+` -/
def Re.plus (cs : CSet) : Re := .seq (.set cs) (.star cs)

/-- the groups that took part in the match and their text (latest binding first) -/
abbrev Caps := List (Nat × Str)

/-- a successful match: where it ends, the input after it, its groups -/
structure Match where
  stop : Nat
  rest : Str
  caps : Caps
  deriving Repr, DecidableEq

/-- `match[i]`: `None` when group i did not take part -/
def Match.group (mt : Match) (i : Nat) : Option Str := mt.caps.lookup i

/-- the continuation: position, rest of the input, captures -/
abbrev K := Nat → Str → Caps → Option Match

/-- greedy `[..]*` followed by `k`: as many characters as possible, then one fewer, … -/
def starSet (cs : CSet) (k : Nat → Str → Option Match) : Nat → Str → Option Match
  | pos, [] => k pos []
  | pos, c :: s =>
    if cs.mem c then (starSet cs k (pos + 1) s).orElse fun _ => k pos (c :: s)
    else k pos (c :: s)

/-- the backtracking matcher -/
def m : Re → Nat → Str → Caps → K → Option Match
  | .set cs, pos, s, caps, k =>
    match s with
    | c :: s' => if cs.mem c then k (pos + 1) s' caps else none
    | [] => none
  | .seq a b, pos, s, caps, k => m a pos s caps fun pos' s' caps' => m b pos' s' caps' k
  | .alt a b, pos, s, caps, k => (m a pos s caps k).orElse fun _ => m b pos s caps k
  | .star cs, pos, s, caps, k => starSet cs (fun pos' s' => k pos' s' caps) pos s
  | .opt a, pos, s, caps, k => (m a pos s caps k).orElse fun _ => k pos s caps
  | .group i a, pos, s, caps, k => m a pos s caps fun pos' s' caps' => k pos' s' ((i, s.take (pos' - pos)) :: caps')
  | .bol, pos, s, caps, k => if pos = 0 then k pos s caps else none
  | .notAhead a, pos, s, caps, k =>
    match m a pos s caps (fun pos' s' caps' => some ⟨pos', s', caps'⟩) with
    | some _ => none
    | none => k pos s caps

/-- one match attempt at `pos`; with `mustAdvance` a path that ends at `pos` counts as a failure -/
def matchAt (r : Re) (mustAdvance : Bool) (pos : Nat) (s : Str) : Option Match :=
  m r pos s [] fun stop rest caps => if mustAdvance && stop == pos then none else some ⟨stop, rest, caps⟩

/-- `pattern.search` from `pos`: (the text skipped before the match, the match).
    `mustAdvance` applies to the first position only. -/
def search (r : Re) : Bool → Nat → Str → Option (Str × Match)
  | adv, pos, s =>
    match matchAt r adv pos s with
    | some mt => some ([], mt)
    | none =>
      match s with
      | [] => none
      | c :: s' => (search r false (pos + 1) s').map fun (skipped, mt) => (c :: skipped, mt)

/-- the loop of `re.sub`; `fuel` bounds the number of matches (`sub` passes enough) -/
def subLoop (r : Re) (repl : Match → Str) : Nat → Bool → Nat → Str → Str
  | 0, _, _, s => s
  | fuel + 1, adv, pos, s =>
    match search r adv pos s with
    | none => s
    | some (skipped, mt) =>
      skipped ++ repl mt ++ subLoop r repl fuel (mt.stop == pos + skipped.length) mt.stop mt.rest

/-- `re.sub(r, repl, s)` for a callable `repl`.  Every iteration of the loop either moves forward in the input
    or is an empty match that follows a move, so there are at most `2 * len(s) + 2` iterations. -/
def sub (r : Re) (repl : Match → Str) (s : Str) : Str := subLoop r repl (2 * s.length + 2) false 0 s

end Bp.PyRe
