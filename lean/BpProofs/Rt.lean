import BpModel.All
import BpProofs.Ops
import BpProofs.Presence
/-
  C01, message level: decode ∘ encode on the flat fragment (scalar fields of every kind:
  singular, proto3-optional, oneof members, repeated packed and unpacked).
  Record-level lemmas come from RtScalar.lean / RtPacked.lean.
-/
namespace Bp
open Gen

/-- the dataclass default of a slot: None for optional fields, else PLACEHOLDER -/
def freshVal (f : FieldD) : Val := if f.optional then Val.none else Val.ph

/-- pairwise distinct field numbers -/
def NumsDistinct (fs : List FieldD) : Prop :=
  ∀ (i j : Nat) (fi fj : FieldD), fs[i]? = some fi → fs[j]? = some fj → fi.num = fj.num → i = j

theorem findField_go_nomatch (fs : List FieldD) (num i0 : Nat) (acc : Option Nat)
    (h : ∀ f ∈ fs, f.num ≠ num) : findField.go num fs i0 acc = acc := by
  induction fs generalizing i0 acc with
  | nil => rfl
  | cons f fs ih =>
    rw [findField.go]
    have : (f.num == num) = false := by simpa using h f (by simp)
    rw [this, ih _ _ (fun x hx => h x (by simp [hx]))]
    rfl

theorem findField_go_unique (fs : List FieldD) (num i0 k : Nat) (acc : Option Nat) (f : FieldD)
    (hk : fs[k]? = some f) (hnum : f.num = num)
    (huniq : ∀ j fj, fs[j]? = some fj → fj.num = num → j = k) :
    findField.go num fs i0 acc = some (i0 + k) := by
  induction fs generalizing i0 acc k with
  | nil => simp at hk
  | cons f0 fs ih =>
    rw [findField.go]
    cases k with
    | zero =>
      simp at hk; subst hk
      have : (f0.num == num) = true := by simpa using hnum
      rw [this]
      rw [findField_go_nomatch]
      · rfl
      · intro x hx hxn
        obtain ⟨j, hj⟩ := List.getElem?_of_mem hx
        have := huniq (j + 1) x (by simpa using hj) hxn
        omega
    | succ k =>
      simp at hk
      have h0 : (f0.num == num) = false := by
        have : ¬ f0.num = num := fun e => by
          have := huniq 0 f0 (by simp) e
          omega
        simpa using this
      rw [h0]
      have := ih (i0 + 1) k acc hk (fun j fj hj hn => by
        have := huniq (j + 1) fj (by simpa using hj) hn
        omega)
      simp only [Bool.false_eq_true, if_false]
      rw [this]; congr 1; omega

/-- with distinct field numbers the decoder finds exactly the field that was encoded -/
theorem findField_distinct (fs : List FieldD) (k : Nat) (f : FieldD) (hd : NumsDistinct fs)
    (hk : fs[k]? = some f) : findField fs f.num = some k := by
  unfold findField
  have := findField_go_unique fs f.num 0 k Option.none f hk rfl
    (fun j fj hj hn => hd j k fj f hj hk hn)
  simpa using this

/-- unfolding `applyField` on a known field whose wire type fits -/
theorem applyField_known_eq (S : Schema) (rec : Loader) (d : MsgD) (st : MState) (pf : PField) (k : Nat) (f : FieldD)
    (hd : NumsDistinct d.fields) (hk : d.fields[k]? = some f) (hnum : pf.num = f.num)
    (hfit : wireFits f pf.wt = true) :
    applyField S rec d st pf =
      (decodeValue S rec f pf).bind fun value => storeValue S d (prepCurrent S d st k f) k f value := by
  unfold applyField
  rw [hnum, findField_distinct d.fields k f hd hk]
  simp only [hk, hfit, Bool.not_true, Bool.false_eq_true, if_false]


/-! ### storing a decoded value -/

theorem resetGroup_id (g idx : Nat) (fs : List FieldD) (ss : List Val) (j0 : Nat)
    (h : ∀ (j : Nat) (fj : FieldD) (s : Val), fs[j]? = some fj → ss[j]? = some s → fj.group = some g → j0 + j ≠ idx → s = Val.ph) :
    resetGroup g idx fs ss j0 = ss := by
  induction fs generalizing ss j0 with
  | nil => cases ss <;> rfl
  | cons f fs ih =>
    cases ss with
    | nil => rfl
    | cons s ss =>
      rw [resetGroup]
      congr 1
      · by_cases hc : (f.group == some g && j0 != idx) = true
        · simp only [hc, if_true]
          simp at hc
          exact (h 0 f s (by simp) (by simp) hc.1 (by simpa using hc.2)).symm
        · simp only [hc]; rfl
      · apply ih
        intro j fj s' hf hs hg hne
        exact h (j + 1) fj s' (by simpa using hf) (by simpa using hs) hg (by omega)

theorem setAt_setAt (xs : List Val) (i : Nat) (a b : Val) : setAt (setAt xs i a) i b = setAt xs i b := by
  unfold setAt; simp [List.set_set]

theorem getD_setAt_self (xs : List Val) (i : Nat) (v : Val) (h : i < xs.length) : (setAt xs i v).getD i .ph = v := by
  unfold setAt; simp [List.getD_eq_getElem?_getD, h]

/-- the state after `setattr(self, name, v)` on a field whose oneof siblings are all unset -/
def afterStore (st : MState) (k : Nat) (f : FieldD) (v : Val) : MState :=
  { st with onWire := true, slots := setAt st.slots k v,
            cur := match f.group with
                   | some g => st.cur.set g (some k)
                   | Option.none => st.cur }

/-- siblings of field `k` in its oneof group are all PLACEHOLDER -/
def MatesUnset (fs : List FieldD) (slots : List Val) (k : Nat) (f : FieldD) : Prop :=
  ∀ g, f.group = some g → ∀ (j : Nat) (fj : FieldD) (s : Val), fs[j]? = some fj → slots[j]? = some s →
    fj.group = some g → j ≠ k → s = Val.ph

theorem setAttr_plain (S : Schema) (fs : List FieldD) (st : MState) (k : Nat) (f : FieldD) (v : Val)
    (hk : fs[k]? = some f) (hv : isMsgVal v = false) (hm : MatesUnset fs st.slots k f) :
    setAttr S fs st k v = afterStore st k f v := by
  unfold setAttr afterStore
  have hv' : markEmpty S v = v := by cases v <;> first | rfl | simp [isMsgVal] at hv
  simp only [hv', hk]
  cases hg : f.group with
  | none => rfl
  | some g =>
    simp only
    rw [resetGroup_id g k fs st.slots 0 (fun j fj s hf hs hgj hne => hm g hg j fj s hf hs hgj (by omega))]

theorem matesUnset_setAt (fs : List FieldD) (slots : List Val) (k : Nat) (f : FieldD) (x : Val)
    (hm : MatesUnset fs slots k f) : MatesUnset fs (setAt slots k x) k f := by
  intro g hg j fj s hf hs hgj hne
  unfold setAt at hs
  rw [List.getElem?_set] at hs
  simp only [show ¬ k = j from fun e => hne e.symm, if_false] at hs
  exact hm g hg j fj s hf hs hgj hne

theorem storeValue_nonlist (S : Schema) (d : MsgD) (st1 : MState) (k : Nat) (f : FieldD) (v : Val)
    (hmap : (f.ty == PType.map) = false) (hcur : ∀ xs, st1.slots.getD k .ph ≠ Val.list xs) :
    storeValue S d st1 k f v = .ok (setAttr S d.fields st1 k v) := by
  unfold storeValue
  dsimp only
  rw [if_neg (by simp [hmap])]
  split
  · rename_i xs hc; exact absurd hc (hcur xs)
  · rfl

/-- **storing a non-list, non-message value into a singular field whose slot is still
    fresh**: whatever path `load` takes (hidden oneof member: default assigned first;
    otherwise default materialised first) the result is the plain assignment -/
theorem store_singular (S : Schema) (d : MsgD) (st : MState) (k : Nat) (f : FieldD) (v : Val)
    (hk : d.fields[k]? = some f) (hlen : k < st.slots.length)
    (hmap : (f.ty == PType.map) = false) (hdef : ∀ xs, defaultOf S f ≠ Val.list xs) (hdm : isMsgVal (defaultOf S f) = false)
    (hv : isMsgVal v = false)
    (hfresh : st.slots.getD k .ph = freshVal f)
    (hcur : ∀ g, f.group = some g → st.cur.getD g Option.none = Option.none)
    (hm : MatesUnset d.fields st.slots k f) :
    storeValue S d (prepCurrent S d st k f) k f v = .ok (afterStore st k f v) := by
  cases hg : f.group with
  | some g =>
    have hh : hidden f k st.cur = true := by
      unfold hidden; rw [hg]; simp only; rw [hcur g hg]; rfl
    unfold prepCurrent
    rw [if_pos hh, setAttr_plain S d.fields st k f _ hk hdm hm]
    have hcurv : (afterStore st k f (defaultOf S f)).slots.getD k .ph = defaultOf S f := by
      simp only [afterStore]; exact getD_setAt_self _ _ _ hlen
    have hm2 : MatesUnset d.fields (afterStore st k f (defaultOf S f)).slots k f := by
      simp only [afterStore]; exact matesUnset_setAt _ _ _ _ _ hm
    rw [storeValue_nonlist S d _ k f v hmap (by rw [hcurv]; exact hdef),
      setAttr_plain S d.fields _ k f v hk hv hm2]
    congr 1
    simp only [afterStore, hg, setAt_setAt]
    congr 1
    simp [List.set_set]
  | none =>
    have hh : hidden f k st.cur = false := by unfold hidden; rw [hg]
    unfold prepCurrent
    rw [if_neg (by simp [hh])]
    have hcurv : (setAt st.slots k (materialize S f (st.slots.getD k .ph))).getD k .ph = materialize S f (freshVal f) := by
      rw [getD_setAt_self _ _ _ hlen, hfresh]
    have hnl : ∀ xs, materialize S f (freshVal f) ≠ Val.list xs := by
      intro xs
      unfold freshVal
      by_cases ho : f.optional = true
      · simp [ho, materialize]
      · simp [ho, materialize]; exact hdef xs
    have hm2 : MatesUnset d.fields (setAt st.slots k (materialize S f (st.slots.getD k .ph))) k f :=
      matesUnset_setAt _ _ _ _ _ hm
    rw [storeValue_nonlist S d _ k f v hmap (by simp only; rw [hcurv]; exact hnl),
      setAttr_plain S d.fields _ k f v hk hv hm2]
    simp only [afterStore, hg, setAt_setAt]


/-! ### the fold over all slots -/

theorem foldFields_append (S : Schema) (rec : Loader) (d : MsgD) (st : MState) (a b : List PField) :
    foldFields S rec d st (a ++ b) = (foldFields S rec d st a).bind fun s => foldFields S rec d s b := by
  induction a generalizing st with
  | nil => rfl
  | cons pf a ih =>
    simp only [List.cons_append, foldFields]
    cases applyField S rec d st pf with
    | error e => rfl
    | ok s => simp only [bind_ok]; exact ih s

theorem joinRaw_append (a b : List PField) : joinRaw (a ++ b) = joinRaw a ++ joinRaw b := by
  induction a with
  | nil => rfl
  | cons pf a ih => simp [joinRaw, ih, List.append_assoc]

/-- what decoding the bytes that ONE slot contributed does to a state in which that slot
    is still fresh (and, if the slot emitted anything, its oneof group is still unselected) -/
def SlotStep (S : Schema) (rec : Loader) (d : MsgD) (R : FieldD → Val → Val → Prop)
    (k : Nat) (f : FieldD) (hid sel : Bool) (v : Val) : Prop :=
  ∀ (st : MState) (b : Bytes), dumpSlot S f hid sel v = .ok b → b.length < 2 ^ 64 → k < st.slots.length → st.onWire = true →
    st.slots.getD k .ph = freshVal f →
    (b ≠ [] → (∀ g, f.group = some g → st.cur.getD g Option.none = Option.none) ∧ MatesUnset d.fields st.slots k f) →
    ∃ pfs v', (∀ pf ∈ pfs, Parsed pf) ∧ joinRaw pfs = b ∧
      (b ≠ [] → R f v v' ∧ dumpSlot S f hid sel v' = .ok b) ∧
      foldFields S rec d st pfs = .ok (if b = [] then st else afterStore st k f v')

/-- the original message, as far as the fold needs it -/
structure MsgShape (S : Schema) (d : MsgD) (sl : List Val) (cur : List (Option Nat)) : Prop where
  len : sl.length = d.fields.length
  curlen : cur.length = d.nGroups
  wfg : WfGroups d.fields d.nGroups
  /-- a selection points to a member of that group -/
  curok : ∀ g i, cur.getD g Option.none = some i → ∃ f, d.fields[i]? = some f ∧ f.group = some g
  /-- oneof members are not `optional` (standard dataclasses) -/
  grpopt : ∀ f ∈ d.fields, f.group.isSome = true → f.optional = false
  /-- the oneof invariant (C07): unselected members are PLACEHOLDER -/
  inv : ∀ i f g, d.fields[i]? = some f → f.group = some g → cur.getD g Option.none ≠ some i → sl.getD i .ph = Val.ph
  /-- a selected member emits at least one byte -/
  selEmits : ∀ i f b, d.fields[i]? = some f → selectedInGroup f i cur = true →
    dumpSlot S f (hidden f i cur) true (sl.getD i .ph) = .ok b → b ≠ []

/-- state of the decoder after the bytes of slots `< k` -/
structure GI (S : Schema) (d : MsgD) (R : FieldD → Val → Val → Prop) (sl : List Val) (cur : List (Option Nat))
    (k : Nat) (st : MState) : Prop where
  len : st.slots.length = d.fields.length
  curlen : st.cur.length = d.nGroups
  ow : st.onWire = true
  fresh : ∀ j f, k ≤ j → d.fields[j]? = some f → st.slots.getD j .ph = freshVal f
  done : ∀ j f, j < k → d.fields[j]? = some f →
    (R f (sl.getD j .ph) (st.slots.getD j .ph)
      ∧ dumpSlot S f (hidden f j cur) (selectedInGroup f j cur) (st.slots.getD j .ph)
          = dumpSlot S f (hidden f j cur) (selectedInGroup f j cur) (sl.getD j .ph)
      ∧ dumpSlot S f (hidden f j cur) (selectedInGroup f j cur) (sl.getD j .ph) ≠ .ok [])
    ∨ (st.slots.getD j .ph = freshVal f
        ∧ dumpSlot S f (hidden f j cur) (selectedInGroup f j cur) (sl.getD j .ph) = .ok [])
  cur : ∀ g, g < d.nGroups → st.cur.getD g Option.none =
    match cur.getD g Option.none with
    | some i => if i < k then some i else Option.none
    | Option.none => Option.none

theorem selected_of_not_hidden (f : FieldD) (k g : Nat) (cur : List (Option Nat)) (hg : f.group = some g)
    (h : hidden f k cur = false) : cur.getD g Option.none = some k := by
  unfold hidden at h; rw [hg] at h; simpa using h

theorem hidden_empty (S : Schema) (f : FieldD) (sel : Bool) (v : Val) : dumpSlot S f true sel v = .ok [] := by
  cases v with
  | str s => cases s <;> rw [dumpSlot] <;> first | rfl | (intros; contradiction) | (intro h; injection h with h; cases h)
  | _ => rw [dumpSlot] <;> first | rfl | (intros; contradiction)

theorem slots_fold (S : Schema) (rec : Loader) (d : MsgD) (R : FieldD → Val → Val → Prop)
    (sl : List Val) (cur : List (Option Nat))
    (hm : MsgShape S d sl cur)
    (hsteps : ∀ k f v, d.fields[k]? = some f → sl[k]? = some v →
      SlotStep S rec d R k f (hidden f k cur) (selectedInGroup f k cur) v) :
    ∀ (vs : List Val) (k : Nat) (st : MState) (out : Bytes), vs = sl.drop k → GI S d R sl cur k st →
      dumpSlots S d.fields cur k vs = .ok out → out.length < 2 ^ 64 →
      ∃ pfs st', (∀ pf ∈ pfs, Parsed pf) ∧ joinRaw pfs = out ∧ foldFields S rec d st pfs = .ok st'
        ∧ GI S d R sl cur (k + vs.length) st' ∧ st'.unknown = st.unknown ∧ (st.onWire = true → st'.onWire = true) := by
  intro vs
  induction vs with
  | nil =>
    intro k st out _ hgi hd _
    rw [dumpSlots] at hd; injection hd with hd; subst hd
    exact ⟨[], st, fun _ h => by simp at h, rfl, rfl, by simpa using hgi, rfl, id⟩
  | cons v vs ih =>
    intro k st out hvs hgi hd hout
    have hkl : k < sl.length := by
      by_contra hc
      have : sl.drop k = [] := List.drop_eq_nil_of_le (by omega)
      rw [this] at hvs; simp at hvs
    have hdrop : sl.drop k = sl[k] :: sl.drop (k + 1) := List.drop_eq_getElem_cons hkl
    rw [hdrop] at hvs
    injection hvs with hv0 hvs'
    have hv : sl[k]? = some v := by rw [List.getElem?_eq_getElem hkl, hv0]
    have hvD : sl.getD k .ph = v := by simp [List.getD_eq_getElem?_getD, hv]
    have hkf : k < d.fields.length := by rw [← hm.len]; exact hkl
    obtain ⟨f, hf⟩ : ∃ f, d.fields[k]? = some f := ⟨d.fields[k], List.getElem?_eq_getElem hkf⟩
    rw [dumpSlots] at hd
    simp only [hf] at hd
    cases hb : dumpSlot S f (hidden f k cur) (selectedInGroup f k cur) v with
    | error e => rw [hb] at hd; simp at hd
    | ok b =>
      rw [hb] at hd; simp only [bind_ok] at hd
      cases hrest : dumpSlots S d.fields cur (k + 1) vs with
      | error e => rw [hrest] at hd; simp at hd
      | ok brest =>
        rw [hrest] at hd; simp only [bind_ok] at hd
        injection hd with hd; subst hd
        have hbl : b.length < 2 ^ 64 := by simp only [List.length_append] at hout; omega
        have hbrl : brest.length < 2 ^ 64 := by simp only [List.length_append] at hout; omega
        -- preconditions of the slot step
        have hpre : b ≠ [] → (∀ g, f.group = some g → st.cur.getD g Option.none = Option.none)
            ∧ MatesUnset d.fields st.slots k f := by
          intro hne
          have hnh : hidden f k cur = false := by
            by_contra hc
            have hc' : hidden f k cur = true := by simpa using hc
            rw [hc', hidden_empty] at hb
            injection hb with hb; exact hne hb.symm
          constructor
          · intro g hg
            have hgn : g < d.nGroups := hm.wfg f (List.mem_of_getElem? hf) g hg
            rw [hgi.cur g hgn, selected_of_not_hidden f k g cur hg hnh]
            simp
          · intro g hg j fj s hfj hsj hgj hne'
            have hsel := selected_of_not_hidden f k g cur hg hnh
            have hsD : st.slots.getD j .ph = s := by simp [List.getD_eq_getElem?_getD, hsj]
            have hfo : fj.optional = false := hm.grpopt fj (List.mem_of_getElem? hfj) (by simp [hgj])
            have _horig : sl.getD j .ph = Val.ph := hm.inv j fj g hfj hgj (by rw [hsel]; intro e; injection e with e; exact hne' e.symm)
            by_cases hjk : k ≤ j
            · rw [← hsD, hgi.fresh j fj hjk hfj]; simp [freshVal, hfo]
            · rcases hgi.done j fj (by omega) hfj with h1 | h1
              · -- an unselected member emits nothing: the first alternative is impossible
                have hhj : hidden fj j cur = true := by
                  unfold hidden; rw [hgj]; simp only; rw [hsel]
                  simp; intro e; exact hne' e.symm
                exact absurd (by rw [hhj]; exact hidden_empty S fj _ _) h1.2.2
              · rw [← hsD, h1.1]; simp [freshVal, hfo]
        obtain ⟨pfs1, v', hp1, hj1, hrel1, hfold1⟩ := hsteps k f v hf hv st b hb hbl (by rw [hgi.len]; exact hkf) hgi.ow
          (hgi.fresh k f (Nat.le_refl k) hf) hpre
        -- the state after this slot satisfies the invariant for k+1
        have hgi' : GI S d R sl cur (k + 1) (if b = [] then st else afterStore st k f v') := by
          by_cases hbe : b = []
          · rw [if_pos hbe]
            refine ⟨hgi.len, hgi.curlen, hgi.ow, fun j fj hj hfj => hgi.fresh j fj (by omega) hfj, ?_, ?_⟩
            · intro j fj hj hfj
              by_cases hjk : j < k
              · exact hgi.done j fj hjk hfj
              · have : j = k := by omega
                subst this
                rw [hf] at hfj; injection hfj with hfj; subst hfj
                right
                exact ⟨hgi.fresh j f (Nat.le_refl j) hf, by rw [hvD, hb, hbe]⟩
            · intro g hgn
              rw [hgi.cur g hgn]
              cases hcg : cur.getD g Option.none with
              | none => rfl
              | some i =>
                simp only
                by_cases hik : i = k
                · -- the selected member emits something: contradiction with b = []
                  subst hik
                  obtain ⟨f', hf', hg'⟩ := hm.curok g i hcg
                  rw [hf] at hf'; injection hf' with hf'; subst hf'
                  have hsel : selectedInGroup f i cur = true := by
                    unfold selectedInGroup; rw [hg']; simp only; rw [hcg]; simp
                  rw [hsel] at hb
                  exact absurd hbe (hm.selEmits i f b hf hsel (by rw [hvD]; exact hb))
                · have : (i < k) = (i < k + 1) := by
                    apply propext; constructor <;> intro h <;> omega
                  simp only [this]
          · rw [if_neg hbe]
            have hnh : hidden f k cur = false := by
              by_contra hc
              have hc' : hidden f k cur = true := by simpa using hc
              rw [hc', hidden_empty] at hb
              injection hb with hb; exact hbe hb.symm
            refine ⟨by simp [afterStore, setAt, hgi.len], ?_, rfl, ?_, ?_, ?_⟩
            · simp only [afterStore]; cases f.group <;> simp [hgi.curlen]
            · intro j fj hj hfj
              simp only [afterStore]
              rw [getD_setAt_ne _ _ _ _ (by omega)]
              exact hgi.fresh j fj (by omega) hfj
            · intro j fj hj hfj
              simp only [afterStore]
              by_cases hjk : j < k
              · rw [getD_setAt_ne _ _ _ _ (by omega)]
                exact hgi.done j fj hjk hfj
              · have : j = k := by omega
                subst this
                rw [hf] at hfj; injection hfj with hfj; subst hfj
                left
                rw [getD_setAt_self _ _ _ (by rw [hgi.len]; exact hkf), hvD]
                obtain ⟨hr, hd'⟩ := hrel1 hbe
                exact ⟨hr, by rw [hd', hb], by rw [hb]; intro e; injection e with e; exact hbe e⟩
            · intro g hgn
              simp only [afterStore]
              cases hfg : f.group with
              | none =>
                simp only
                rw [hgi.cur g hgn]
                cases hcg : cur.getD g Option.none with
                | none => rfl
                | some i =>
                  simp only
                  have hik : i ≠ k := by
                    intro e; subst e
                    obtain ⟨f', hf', hg'⟩ := hm.curok g i hcg
                    rw [hf] at hf'; injection hf' with hf'; subst hf'
                    rw [hfg] at hg'; simp at hg'
                  have : (i < k) = (i < k + 1) := by
                    apply propext; constructor <;> intro h <;> omega
                  simp only [this]
              | some g0 =>
                simp only
                rw [getD_set_cur]
                have hsel := selected_of_not_hidden f k g0 cur hfg hnh
                by_cases hgg : g0 = g
                · subst hgg
                  rw [hsel]
                  simp [hgi.curlen, hgn]
                · have : ¬ (g0 = g ∧ g0 < st.cur.length) := fun h => hgg h.1
                  simp only [this, if_false]
                  rw [hgi.cur g hgn]
                  cases hcg : cur.getD g Option.none with
                  | none => rfl
                  | some i =>
                    simp only
                    have hik : i ≠ k := by
                      intro e; subst e
                      obtain ⟨f', hf', hg'⟩ := hm.curok g i hcg
                      rw [hf] at hf'; injection hf' with hf'; subst hf'
                      rw [hfg] at hg'; injection hg' with hg'; exact hgg hg'
                    have : (i < k) = (i < k + 1) := by
                      apply propext; constructor <;> intro h <;> omega
                    simp only [this]
        obtain ⟨pfs2, st2, hp2, hj2, hfold2, hgi2, hunk2, how2⟩ :=
          ih (k + 1) _ brest hvs' hgi' hrest hbrl
        refine ⟨pfs1 ++ pfs2, st2, ?_, ?_, ?_, ?_, ?_, ?_⟩
        · intro pf hpf; rcases List.mem_append.mp hpf with h | h
          · exact hp1 pf h
          · exact hp2 pf h
        · rw [joinRaw_append, hj1, hj2]
        · rw [foldFields_append, hfold1]; exact hfold2
        · have : k + (v :: vs).length = k + 1 + vs.length := by simp; omega
          rw [this]; exact hgi2
        · rw [hunk2]; by_cases hbe : b = []
          · rw [if_pos hbe]
          · rw [if_neg hbe]; rfl
        · intro how; apply how2
          by_cases hbe : b = []
          · rw [if_pos hbe]; exact how
          · rw [if_neg hbe]; rfl


/-! ### from the fold to `parse (bytes m)` -/

theorem foldFields_unknown (S : Schema) (rec : Loader) (d : MsgD) (upfs : List PField) (st : MState)
    (h : ∀ pf ∈ upfs, isUnknownField d pf = true) :
    foldFields S rec d st upfs = .ok { st with unknown := st.unknown ++ joinRaw upfs } := by
  induction upfs generalizing st with
  | nil => simp [foldFields, joinRaw]
  | cons pf upfs ih =>
    rw [foldFields, applyField_unknown S rec d st pf (h pf (by simp))]
    simp only [bind_ok]
    rw [ih _ (fun x hx => h x (by simp [hx]))]
    simp [joinRaw, List.append_assoc]

theorem dumpSlots_congr (S : Schema) (fs : List FieldD) (cur : List (Option Nat)) (k : Nat) (vs ws : List Val)
    (hl : vs.length = ws.length)
    (h : ∀ (j : Nat) (f : FieldD), fs[k + j]? = some f → j < vs.length →
      dumpSlot S f (hidden f (k + j) cur) (selectedInGroup f (k + j) cur) (vs.getD j .ph)
        = dumpSlot S f (hidden f (k + j) cur) (selectedInGroup f (k + j) cur) (ws.getD j .ph)) :
    dumpSlots S fs cur k vs = dumpSlots S fs cur k ws := by
  induction vs generalizing k ws with
  | nil => cases ws with
    | nil => rfl
    | cons w ws => simp at hl
  | cons v vs ih =>
    cases ws with
    | nil => simp at hl
    | cons w ws =>
      rw [dumpSlots, dumpSlots]
      cases hf : fs[k]? with
      | none => rfl
      | some f =>
        simp only
        have h0 := h 0 f (by simpa using hf) (by simp)
        simp only [Nat.add_zero, List.getD_cons_zero] at h0
        rw [h0, ih (k + 1) ws (by simpa using hl) (fun j fj hfj hj => by
          have := h (j + 1) fj (by rw [← hfj]; congr 1; omega) (by simp; omega)
          simp only [List.getD_cons_succ] at this
          have e : k + (j + 1) = k + 1 + j := by omega
          rw [e] at this; exact this)]

theorem getD_freshSlots (fs : List FieldD) (j : Nat) (f : FieldD) (hf : fs[j]? = some f) :
    (fs.map fun f => if f.optional then Val.none else Val.ph).getD j .ph = freshVal f := by
  simp [List.getD_eq_getElem?_getD, List.getElem?_map, hf, freshVal]

/-- the unknown fields a message carries are raw records its class does not know -/
def UnkOk (d : MsgD) (unk : Bytes) : Prop :=
  ∃ upfs : List PField, (∀ pf ∈ upfs, Parsed pf ∧ isUnknownField d pf = true) ∧ joinRaw upfs = unk

/-- **the fold, assembled, for ANY nested loader `rec`**: if decoding the bytes of each
    single slot restores that slot (`SlotStep`), then splitting `bytes(m)` into records
    and folding the per-field step from the fresh state succeeds, yields the same oneof
    selection and unknown fields, holds in every slot either a related value or — where
    the original value was not emitted at all — the unset default, and re-encodes to the
    same bytes -/
theorem fold_of_steps (S : Schema) (rec0 : Loader) (c : Nat) (d : MsgD) (hd : S[c]? = some d)
    (sl : List Val) (ow : Bool) (unk : Bytes) (cur : List (Option Nat))
    (R : FieldD → Val → Val → Prop)
    (hm : MsgShape S d sl cur) (hunk : UnkOk d unk)
    (bs : Bytes) (hdump : dumpVal S (.msg c sl ow unk cur) = .ok bs) (hblen : bs.length < 2 ^ 64)
    (hsteps : ∀ k f v, d.fields[k]? = some f → sl[k]? = some v →
      SlotStep S rec0 d R k f (hidden f k cur) (selectedInGroup f k cur) v) :
    ∃ sl', ((loadFields bs).bind fun pfs => foldFields S rec0 d { freshState d with onWire := true } pfs)
        = .ok { slots := sl', onWire := true, unknown := unk, cur := cur }
      ∧ sl'.length = sl.length
      ∧ (∀ j f, d.fields[j]? = some f →
          R f (sl.getD j .ph) (sl'.getD j .ph)
          ∨ (sl'.getD j .ph = freshVal f
              ∧ dumpSlot S f (hidden f j cur) (selectedInGroup f j cur) (sl.getD j .ph) = .ok []))
      ∧ dumpVal S (.msg c sl' true unk cur) = .ok bs := by
  have hfo : fieldsOf S c = d.fields := by simp [fieldsOf, hd]
  have hgo : groupsOf S c = d.nGroups := by simp [groupsOf, hd]
  rw [dumpVal_msg, hfo] at hdump
  cases hbody : dumpSlots S d.fields cur 0 sl with
  | error e => rw [hbody] at hdump; simp at hdump
  | ok body =>
    rw [hbody] at hdump; simp only [bind_ok] at hdump
    injection hdump with hbs
    obtain ⟨upfs, hup, hupj⟩ := hunk
    let st0 : MState := { slots := d.fields.map fun f => if f.optional then Val.none else Val.ph,
                          onWire := true, unknown := [], cur := List.replicate d.nGroups Option.none }
    have hgi0 : GI S d R sl cur 0 st0 := by
      refine ⟨by simp [st0], by simp [st0], rfl, ?_, fun j f hj _ => by omega, ?_⟩
      · intro j f _ hf; exact getD_freshSlots d.fields j f hf
      · intro g hg
        have : st0.cur.getD g Option.none = Option.none := by
          simp [st0, List.getD_eq_getElem?_getD, List.getElem?_replicate, hg]
        rw [this]
        cases cur.getD g Option.none <;> simp
    obtain ⟨pfs, st', hp, hj, hfold, hgi, hunk', how'⟩ :=
      slots_fold S rec0 d R sl cur hm hsteps sl 0 st0 body (by simp) hgi0 hbody
        (by rw [← hbs] at hblen; simp only [List.length_append] at hblen; omega)
    -- all records, in order
    have hall : ∀ pf ∈ pfs ++ upfs, Parsed pf := by
      intro pf hpf; rcases List.mem_append.mp hpf with h | h
      · exact hp pf h
      · exact (hup pf h).1
    have hbytes : bs = joinRaw (pfs ++ upfs) := by rw [joinRaw_append, hj, hupj, hbs]
    have hlf : loadFields bs = .ok (pfs ++ upfs) := by rw [hbytes]; exact loadFields_join _ hall
    have hfoldall : foldFields S rec0 d st0 (pfs ++ upfs) = .ok { st' with unknown := st'.unknown ++ unk } := by
      rw [foldFields_append, hfold]; simp only [bind_ok]
      rw [foldFields_unknown S rec0 d upfs st' (fun pf h => (hup pf h).2), hupj]
    -- the selection is the original one
    have hn : sl.length = d.fields.length := hm.len
    have hcur : st'.cur = cur := by
      apply List.ext_getElem?
      intro g
      by_cases hg : g < d.nGroups
      · have h1 := hgi.cur g hg
        simp only [Nat.zero_add] at h1
        have e1 : st'.cur[g]? = some (st'.cur.getD g Option.none) := by
          rw [List.getD_eq_getElem?_getD, List.getElem?_eq_getElem (by rw [hgi.curlen]; exact hg)]; rfl
        have e2 : cur[g]? = some (cur.getD g Option.none) := by
          rw [List.getD_eq_getElem?_getD, List.getElem?_eq_getElem (by rw [hm.curlen]; exact hg)]; rfl
        rw [e1, e2, h1]
        cases hcg : cur.getD g Option.none with
        | none => rfl
        | some i =>
          simp only
          obtain ⟨f, hf, _⟩ := hm.curok g i hcg
          have hi : i < d.fields.length := by
            by_contra hc
            rw [List.getElem?_eq_none (by omega)] at hf; simp at hf
          rw [hn]; simp [hi]
      · rw [List.getElem?_eq_none (by rw [hgi.curlen]; omega), List.getElem?_eq_none (by rw [hm.curlen]; omega)]
    refine ⟨st'.slots, ?_, by rw [hgi.len, hn], ?_, ?_⟩
    · -- the fold
      rw [hlf]
      simp only [bind_ok]
      have : foldFields S rec0 d { freshState d with onWire := true } (pfs ++ upfs)
          = .ok { st' with unknown := st'.unknown ++ unk } := hfoldall
      rw [this, hunk', hcur, how' rfl]
      simp [st0]
    · intro j f hf
      have hjl : j < sl.length := by
        by_contra hc
        rw [hn] at hc
        rw [List.getElem?_eq_none (by omega)] at hf; simp at hf
      rcases hgi.done j f (by simpa using hjl) hf with h1 | h1
      · exact Or.inl h1.1
      · exact Or.inr h1
    · -- re-encoding
      rw [dumpVal_msg, hfo]
      have : dumpSlots S d.fields cur 0 st'.slots = dumpSlots S d.fields cur 0 sl := by
        apply dumpSlots_congr
        · rw [hgi.len, hn]
        · intro j f hf hjl
          simp only [Nat.zero_add] at hf ⊢
          have hjl' : j < sl.length := by rw [hgi.len, ← hn] at hjl; exact hjl
          rcases hgi.done j f (by simpa using hjl') hf with h1 | ⟨h1, h2⟩
          · exact h1.2.1
          · rw [h1, h2]
            -- the unset default of a slot that emitted nothing emits nothing either
            unfold freshVal
            by_cases ho : f.optional = true
            · rw [if_pos ho, dumpSlot]
            · rw [if_neg ho, dumpSlot]
              by_cases hh : hidden f j cur = true
              · rw [if_pos hh]
              · rw [if_neg hh]
                have hh' : hidden f j cur = false := by simpa using hh
                cases hg : f.group with
                | none =>
                  have hs : selectedInGroup f j cur = false := by unfold selectedInGroup; rw [hg]
                  rw [hs]
                  unfold dumpDefault
                  have ho' : f.optional = false := by simpa using ho
                  simp only [hg, ho', Option.isSome_none, Bool.or_self, Bool.false_eq_true]
                  cases f.defKind <;> simp
                | some g =>
                  -- a readable oneof member is the selected one, and a selected member emits: contradiction
                  have hsel : selectedInGroup f j cur = true := by
                    unfold selectedInGroup; rw [hg]; simp only
                    rw [selected_of_not_hidden f j g cur hg hh']; simp
                  rw [hsel] at h2
                  exact absurd rfl (hm.selEmits j f [] hf hsel h2)
      rw [this, hbody]
      simp only [bind_ok, hbs]

/-- **decode ∘ encode, assembled**: `parse(bytes(m))` for `SlotStep`s about the nested
    loader `parse` itself uses (`loadInto S bs.length`) -/
theorem roundtrip_of_steps (S : Schema) (c : Nat) (d : MsgD) (hd : S[c]? = some d)
    (sl : List Val) (ow : Bool) (unk : Bytes) (cur : List (Option Nat))
    (R : FieldD → Val → Val → Prop)
    (hm : MsgShape S d sl cur) (hunk : UnkOk d unk)
    (bs : Bytes) (hdump : dumpVal S (.msg c sl ow unk cur) = .ok bs) (hblen : bs.length < 2 ^ 64)
    (hsteps : ∀ k f v, d.fields[k]? = some f → sl[k]? = some v →
      SlotStep S (loadInto S bs.length) d R k f (hidden f k cur) (selectedInGroup f k cur) v) :
    ∃ sl', parse S c bs = .ok (.msg c sl' true unk cur)
      ∧ sl'.length = sl.length
      ∧ (∀ j f, d.fields[j]? = some f →
          R f (sl.getD j .ph) (sl'.getD j .ph)
          ∨ (sl'.getD j .ph = freshVal f
              ∧ dumpSlot S f (hidden f j cur) (selectedInGroup f j cur) (sl.getD j .ph) = .ok []))
      ∧ dumpVal S (.msg c sl' true unk cur) = .ok bs := by
  obtain ⟨sl', h1, h2, h3, h4⟩ :=
    fold_of_steps S (loadInto S bs.length) c d hd sl ow unk cur R hm hunk bs hdump hblen hsteps
  refine ⟨sl', ?_, h2, h3, h4⟩
  have hfo : fieldsOf S c = d.fields := by simp [fieldsOf, hd]
  have hgo : groupsOf S c = d.nGroups := by simp [groupsOf, hd]
  unfold parse fresh
  rw [parseInto_eq S c d _ false [] _ bs hd, hfo, hgo]
  have e : ({ slots := d.fields.map fun f => if f.optional then Val.none else Val.ph, onWire := true,
              unknown := [], cur := List.replicate d.nGroups Option.none } : MState)
      = { freshState d with onWire := true } := rfl
  rw [e]
  cases hl : loadFields bs with
  | error e => rw [hl] at h1; simp at h1
  | ok pfs =>
    rw [hl] at h1; simp only [bind_ok] at h1 ⊢
    rw [h1]; rfl

end Bp
