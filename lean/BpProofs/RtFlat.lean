import BpModel.All
import BpProofs.Rt
import BpProofs.RtScalar
import BpProofs.RtPacked
/-
  C01: decoding the bytes of one slot restores it — for the flat fragment (scalar fields
  of every kind: singular, proto3-optional, oneof member, repeated packed / unpacked).
-/
namespace Bp
open Gen

/-- a field of the flat fragment -/
structure FlatField (f : FieldD) : Prop where
  sc : isScalarType f.ty = true
  nw : f.wraps = Option.none
  num : numOk f.num = true
  rep : f.repeated = true → f.optional = false ∧ f.group = Option.none

/-- a raw slot value that is well-typed for a flat field -/
def flatSlotOk (f : FieldD) : Val → Bool
  | .ph => !f.optional
  | .none => f.optional
  | .list xs => f.repeated && xs.all (scalarOk f.ty)
  | v => !f.repeated && scalarOk f.ty v

theorem flat_notmap (f : FieldD) (h : FlatField f) : (f.ty == PType.map) = false := by
  have := h.sc; unfold isScalarType at this; simp at this; simp [this.2]

theorem flat_defKind_singular (f : FieldD) (h : FlatField f) (hr : f.repeated = false) :
    f.defKind = (if f.optional then DefKind.none else scalarDef f.ty) := by
  have hs := h.sc; unfold isScalarType at hs; simp at hs
  unfold FieldD.defKind
  simp [hr, hs.1, hs.2, h.nw]

theorem scalarDef_cases (t : PType) : scalarDef t = .bool ∨ scalarDef t = .f32 ∨ scalarDef t = .f64
    ∨ scalarDef t = .str ∨ scalarDef t = .byt ∨ scalarDef t = .int := by
  cases t <;> simp [scalarDef]

theorem flat_default_notlist (S : Schema) (f : FieldD) (h : FlatField f) (hr : f.repeated = false) (xs : List Val) :
    defaultOf S f ≠ Val.list xs := by
  unfold defaultOf
  rw [flat_defKind_singular f h hr]
  by_cases ho : f.optional = true
  · simp [ho, defaultOfKind]
  · simp only [ho, Bool.false_eq_true, if_false]
    rcases scalarDef_cases f.ty with e | e | e | e | e | e <;> rw [e] <;> simp [defaultOfKind]

theorem flat_default_notmsg (S : Schema) (f : FieldD) (h : FlatField f) (hr : f.repeated = false) :
    isMsgVal (defaultOf S f) = false := by
  unfold defaultOf
  rw [flat_defKind_singular f h hr]
  by_cases ho : f.optional = true
  · simp [ho, defaultOfKind, isMsgVal]
  · simp only [ho, Bool.false_eq_true, if_false]
    rcases scalarDef_cases f.ty with e | e | e | e | e | e <;> rw [e] <;> simp [defaultOfKind, isMsgVal]

theorem scalarOk_plain (t : PType) (v : Val) (h : scalarOk t v = true) : isPlainVal v = true ∧ isMsgVal v = false := by
  cases v <;> simp [scalarOk] at h <;> simp [isPlainVal, isMsgVal]

/-- one record: `Parsed`, and the fold over it is `applyField` -/
theorem single_record (S : Schema) (rec : Loader) (d : MsgD) (st st' : MState) (pf : PField) (b : Bytes)
    (hl : loadField (b ++ []) = .ok (pf, [])) (hraw : pf.raw = b) (ha : applyField S rec d st pf = .ok st') :
    ∃ pfs, (∀ q ∈ pfs, Parsed q) ∧ joinRaw pfs = b ∧ foldFields S rec d st pfs = .ok st' := by
  refine ⟨[pf], ?_, ?_, ?_⟩
  · intro q hq; simp at hq; subst hq; exact ⟨_, _, hl⟩
  · simp [joinRaw, hraw]
  · rw [foldFields, ha]; rfl

/-- singular / optional / oneof scalar slot -/
theorem slotStep_scalar (S : Schema) (rec : Loader) (d : MsgD) (k : Nat) (f : FieldD) (hid sel : Bool) (v : Val)
    (hd : NumsDistinct d.fields) (hk : d.fields[k]? = some f) (hff : FlatField f)
    (hr : f.repeated = false) (hv : scalarOk f.ty v = true)
    (R : FieldD → Val → Val → Prop) (hR : ∀ f v, R f v v) :
    SlotStep S rec d R k f hid sel v := by
  intro st b hb0 hbl hkl how hfresh hpre
  have hb := hb0
  obtain ⟨hpl, hnm⟩ := scalarOk_plain f.ty v hv
  rw [dumpSlot_plain S f hid sel v hpl] at hb
  by_cases hbe : b = []
  · exact ⟨[], v, fun _ h => by simp at h, by simp [joinRaw, hbe], fun h => absurd hbe h, by rw [if_pos hbe]; rfl⟩
  · -- a record was emitted
    have hx : ∃ pfs, (∀ q ∈ pfs, Parsed q) ∧ joinRaw pfs = b
        ∧ foldFields S rec d st pfs = .ok (afterStore st k f v) := by
      by_cases hh : hid = true
      · rw [if_pos hh] at hb; injection hb with hb; exact absurd hb.symm hbe
      · rw [if_neg hh] at hb
        split at hb
        · injection hb with hb; exact absurd hb.symm hbe
        · rw [hff.nw] at hb
          obtain ⟨pf, hl, hn, hraw, hfit, hdec⟩ :=
            scalar_record_roundtrip S rec f v _ b [] hff.num hff.sc hv hbl hb hbe
          obtain ⟨hcur, hmates⟩ := hpre hbe
          apply single_record S rec d st _ pf b hl hraw
          rw [applyField_known_eq S rec d st pf k f hd hk hn hfit, hdec]
          simp only [bind_ok]
          exact store_singular S d st k f v hk hkl (flat_notmap f hff) (flat_default_notlist S f hff hr)
            (flat_default_notmsg S f hff hr) hnm hfresh hcur hmates
    obtain ⟨pfs, h1, h2, h3⟩ := hx
    exact ⟨pfs, v, h1, h2, fun _ => ⟨hR f v, hb0⟩, by rw [if_neg hbe]; exact h3⟩

/-- storing into a repeated field: the (materialised) list is extended in place -/
theorem store_repeated (S : Schema) (d : MsgD) (st : MState) (k : Nat) (f : FieldD) (acc : List Val) (v : Val)
    (hkl : k < st.slots.length) (hmap : (f.ty == PType.map) = false) (hg : f.group = Option.none)
    (hcurv : materialize S f (st.slots.getD k .ph) = Val.list acc) :
    storeValue S d (prepCurrent S d st k f) k f v
      = .ok { st with slots := setAt st.slots k (match v with
                                                  | .list ys => Val.list (acc ++ ys)
                                                  | y => Val.list (acc ++ [y])) } := by
  have hh : hidden f k st.cur = false := by unfold hidden; rw [hg]
  unfold prepCurrent
  rw [if_neg (by simp [hh])]
  unfold storeValue
  dsimp only
  rw [if_neg (by simp [hmap]), getD_setAt_self _ _ _ hkl, hcurv]
  cases v <;> simp [setAt_setAt]

/-- unpacked repeated field (string / bytes): one record per item, appended in order -/
theorem items_fold (S : Schema) (rec : Loader) (d : MsgD) (k : Nat) (f : FieldD)
    (hd : NumsDistinct d.fields) (hk : d.fields[k]? = some f) (hff : FlatField f) (hg : f.group = Option.none) :
    ∀ (xs acc : List Val) (st : MState) (b : Bytes), (∀ x ∈ xs, scalarOk f.ty x = true) →
      dumpItems S f xs = .ok b → b.length < 2 ^ 64 → k < st.slots.length →
      materialize S f (st.slots.getD k .ph) = Val.list acc →
      ∃ pfs, (∀ q ∈ pfs, Parsed q) ∧ joinRaw pfs = b ∧
        foldFields S rec d st pfs = .ok (if xs = [] then st else { st with slots := setAt st.slots k (.list (acc ++ xs)) }) := by
  intro xs
  induction xs with
  | nil =>
    intro acc st b _ hb _ _ _
    rw [dumpItems] at hb; injection hb with hb; subst hb
    exact ⟨[], fun _ h => by simp at h, rfl, rfl⟩
  | cons x xs ih =>
    intro acc st b hx hb hbl hkl hcurv
    have hx0 := hx x (by simp)
    obtain ⟨hpl, hnm⟩ := scalarOk_plain f.ty x hx0
    have hdi : dumpItems S f (x :: xs) =
        (serializeScalar S f.num f.ty x true f.wraps).bind fun a =>
          (dumpItems S f xs).bind fun r => .ok ((if a.isEmpty then [10, 0] else a) ++ r) := by
      cases x <;> first | (simp [isMsgVal] at hnm; done) | (rw [dumpItems]; all_goals (intros; contradiction))
    rw [hdi, hff.nw] at hb
    cases ha : serializeScalar S f.num f.ty x true Option.none with
    | error e => rw [ha] at hb; simp at hb
    | ok a =>
      rw [ha] at hb; simp only [bind_ok] at hb
      cases hr : dumpItems S f xs with
      | error e => rw [hr] at hb; simp at hb
      | ok r =>
        rw [hr] at hb; simp only [bind_ok] at hb
        injection hb with hb
        have hane : a ≠ [] := by
          intro hc
          have := (serializeScalar_empty_iff S f.num f.ty x true a hff.sc hx0 ha).mp hc
          simp at this
        have hae : a.isEmpty = false := by cases a <;> simp_all
        rw [hae] at hb
        simp only [Bool.false_eq_true, if_false] at hb
        subst hb
        have hal : a.length < 2 ^ 64 := by simp only [List.length_append] at hbl; omega
        have hrl : r.length < 2 ^ 64 := by simp only [List.length_append] at hbl; omega
        obtain ⟨pf, hl, hn, hraw, hfit, hdec⟩ :=
          scalar_record_roundtrip S rec f x true a [] hff.num hff.sc hx0 hal ha hane
        have happly : applyField S rec d st pf = .ok { st with slots := setAt st.slots k (.list (acc ++ [x])) } := by
          rw [applyField_known_eq S rec d st pf k f hd hk hn hfit, hdec]
          simp only [bind_ok]
          rw [store_repeated S d st k f acc x hkl (flat_notmap f hff) hg hcurv]
          cases x <;> first | rfl | (simp [isPlainVal] at hpl; done)
        obtain ⟨pfs2, hp2, hj2, hf2⟩ := ih (acc ++ [x]) { st with slots := setAt st.slots k (.list (acc ++ [x])) } r
          (fun y hy => hx y (by simp [hy])) hr hrl (by simp [setAt]; exact hkl)
          (by simp only; rw [getD_setAt_self _ _ _ hkl]; rfl)
        refine ⟨pf :: pfs2, ?_, ?_, ?_⟩
        · intro q hq; simp at hq; rcases hq with hq | hq
          · subst hq; exact ⟨_, _, hl⟩
          · exact hp2 q hq
        · simp [joinRaw, hraw, hj2]
        · rw [foldFields, happly]; simp only [bind_ok]
          rw [hf2]
          simp only [List.cons_ne_nil, if_false]
          by_cases hxs : xs = []
          · subst hxs; simp
          · simp only [hxs, if_false, setAt_setAt, List.append_assoc, List.singleton_append]

/-- repeated scalar slot (packed or not) -/
theorem slotStep_repeated (S : Schema) (rec : Loader) (d : MsgD) (k : Nat) (f : FieldD) (sel : Bool) (xs : List Val)
    (hd : NumsDistinct d.fields) (hk : d.fields[k]? = some f) (hff : FlatField f)
    (hr : f.repeated = true) (hx : ∀ x ∈ xs, scalarOk f.ty x = true) (hsel : sel = false)
    (R : FieldD → Val → Val → Prop) (hR : ∀ f v, R f v v) :
    SlotStep S rec d R k f false sel (.list xs) := by
  intro st b hb0 hbl hkl how hfresh hpre
  have hb := hb0
  obtain ⟨ho, hg⟩ := hff.rep hr
  subst hsel
  have hdk : f.defKind = .list := by unfold FieldD.defKind; simp [hr]
  have hfr : st.slots.getD k .ph = Val.ph := by rw [hfresh]; simp [freshVal, ho]
  have hmat : materialize S f (st.slots.getD k .ph) = Val.list [] := by
    rw [hfr]; simp [materialize, defaultOf, hdk, defaultOfKind]
  rw [dumpSlot] at hb
  simp only [Bool.false_eq_true, if_false, hg, ho, Option.isSome_none, Bool.or_self, Bool.not_false,
    Bool.and_true, hdk] at hb
  have hed : eqDefault S .list (.list xs) = xs.isEmpty := by rw [eqDefault]; simp
  rw [hed] at hb
  by_cases hbe : b = []
  · exact ⟨[], .list xs, fun _ h => by simp at h, by simp [joinRaw, hbe], fun h => absurd hbe h, by rw [if_pos hbe]; rfl⟩
  · have hxe : xs ≠ [] := by
      intro hc; subst hc; simp at hb; exact hbe hb
    have hxe' : xs.isEmpty = false := by cases xs <;> simp_all
    rw [hxe'] at hb
    simp only [Bool.false_eq_true, if_false] at hb
    have hx' : ∃ pfs, (∀ q ∈ pfs, Parsed q) ∧ joinRaw pfs = b
        ∧ foldFields S rec d st pfs = .ok (afterStore st k f (.list xs)) := by
      by_cases hp : isPacked f.ty = true
      · rw [if_pos hp] at hb
        obtain ⟨pf, hl, hn, hraw, hfit, hdec⟩ :=
          packed_record_roundtrip S rec f xs b [] hff.num hp hr hx hxe hbl hb
        apply single_record S rec d st _ pf b hl hraw
        rw [applyField_known_eq S rec d st pf k f hd hk hn hfit, hdec]
        simp only [bind_ok]
        rw [store_repeated S d st k f [] (.list xs) hkl (flat_notmap f hff) hg hmat]
        simp [afterStore, hg, how]
      · rw [if_neg hp] at hb
        obtain ⟨pfs, hp1, hj1, hf1⟩ := items_fold S rec d k f hd hk hff hg xs [] st b hx hb hbl hkl hmat
        refine ⟨pfs, hp1, hj1, ?_⟩
        rw [hf1]
        simp only [hxe, if_false, List.nil_append]
        simp [afterStore, hg, how]
    obtain ⟨pfs, h1, h2, h3⟩ := hx'
    exact ⟨pfs, .list xs, h1, h2, fun _ => ⟨hR f _, hb0⟩, by rw [if_neg hbe]; exact h3⟩

end Bp
