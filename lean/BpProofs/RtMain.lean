import BpModel.All
import BpProofs.RtNested
import BpProofs.RtTime
import BpProofs.RtWrap
import BpProofs.RtMap
import BpProofs.RtTimes
import BpProofs.RtWraps
/-
  C01, the main induction: the round trip for every well-typed message value (`MsgOk`) —
  flat fields, nested / recursive messages, repeated messages, Timestamp / Duration (singular
  and repeated), wrappers (singular and repeated), maps (scalar, message, Timestamp / Duration values) — by strong induction on the nesting fuel of the decoder.
-/
namespace Bp
open Gen

/-! ### helpers -/

theorem valEqv_wrapNorm (S : Schema) (w : PType) (v : Val) (hv : scalarOk w v = true) :
    ValEqv S v (wrapNorm S w v) := by
  by_cases hs : wrapStable v = true
  · rw [wrapNorm_stable S w v hv hs]; exact ValEqv.refl v
  · cases v with
    | f32 b =>
      simp [wrapStable] at hs; subst hs
      have hw : w = .float := by simp [scalarOk] at hv; first | exact hv.1 | exact hv
      subst hw
      have : wrapNorm S .float (.f32 2147483648) = .f32 0 := by
        simp [wrapNorm, scalarIsDefault, scalarDef, eqDefault, defaultOfKind, f32IsZero]
      rw [this]; exact ValEqv.negZero32
    | f64 b =>
      simp [wrapStable] at hs; subst hs
      have hw : w = .double := by simp [scalarOk] at hv; first | exact hv.1 | exact hv
      subst hw
      have : wrapNorm S .double (.f64 9223372036854775808) = .f64 0 := by
        simp [wrapNorm, scalarIsDefault, scalarDef, eqDefault, defaultOfKind, f64IsZero]
      rw [this]; exact ValEqv.negZero64
    | _ => simp [wrapStable] at hs

/-- a list of wrapped scalars and the list of their normal forms (what a repeated wrapper field
    decodes to) -/
theorem listEqv_wrapNorm (S : Schema) (w : PType) : ∀ xs : List Val, (∀ x ∈ xs, scalarOk w x = true) →
    ListEqv S xs (xs.map (wrapNorm S w)) := by
  intro xs
  induction xs with
  | nil => intro _; exact ListEqv.nil
  | cons x xs ih =>
    intro hx
    exact ListEqv.cons _ _ _ _ (valEqv_wrapNorm S w x (hx x (by simp))) (ih (fun y hy => hx y (by simp [hy])))

/-- a step for the loader with fuel `n + 1` is a step for `fuel`, given that the bytes of the
    slot fit into `fuel` (an emitted slot then forces `fuel ≥ 1`) -/
theorem slotStep_of_pos (S : Schema) (fuel : Nat) (d : MsgD) (R : FieldD → Val → Val → Prop) (k : Nat) (f : FieldD)
    (hid sel : Bool) (v : Val)
    (h : ∀ n, fuel = n + 1 → SlotStep S (loadInto S (n + 1)) d R k f hid sel v)
    (hle : ∀ b, dumpSlot S f hid sel v = .ok b → b.length ≤ fuel) :
    SlotStep S (loadInto S fuel) d R k f hid sel v := by
  intro st b hb
  by_cases hbe : b = []
  · intro _ _ _ _ _
    exact ⟨[], .ph, fun _ h => by simp at h, by simp [joinRaw, hbe], fun h => absurd hbe h, by rw [if_pos hbe]; rfl⟩
  · have hpos : 0 < b.length := List.length_pos_iff.mpr hbe
    have hl := hle b hb
    obtain ⟨n, hn⟩ : ∃ n, fuel = n + 1 := ⟨fuel - 1, by omega⟩
    have := h n hn
    rw [hn]
    exact this st b hb

/-- the same for a slot whose decoding nests two loaders deep (a map entry holding a
    Timestamp / Duration): such a slot emits at least two bytes whenever it emits anything -/
theorem slotStep_of_pos2 (S : Schema) (fuel : Nat) (d : MsgD) (R : FieldD → Val → Val → Prop) (k : Nat) (f : FieldD)
    (hid sel : Bool) (v : Val)
    (h : ∀ n, fuel = n + 2 → SlotStep S (loadInto S (n + 2)) d R k f hid sel v)
    (hle : ∀ b, dumpSlot S f hid sel v = .ok b → b.length ≤ fuel)
    (htwo : ∀ b, dumpSlot S f hid sel v = .ok b → b ≠ [] → 2 ≤ b.length) :
    SlotStep S (loadInto S fuel) d R k f hid sel v := by
  intro st b hb
  by_cases hbe : b = []
  · intro _ _ _ _ _
    exact ⟨[], .ph, fun _ h => by simp at h, by simp [joinRaw, hbe], fun h => absurd hbe h, by rw [if_pos hbe]; rfl⟩
  · have hl := hle b hb
    have h2 := htwo b hb hbe
    obtain ⟨n, hn⟩ : ∃ n, fuel = n + 2 := ⟨fuel - 2, by omega⟩
    have := h n hn
    rw [hn]
    exact this st b hb

/-- **a map slot with message values**: as `slotStep_mapM`, for every dict of well-typed
    messages — a value that encodes to no byte comes back as the fresh instance of its class
    (`ValEqv.emptyMsg`) -/
theorem slotStep_mapM' (S : Schema) (n : Nat) (d : MsgD) (k : Nat) (f : FieldD) (c : Nat) (dc : MsgD) (sel : Bool)
    (ks vs : List Val)
    (hd : NumsDistinct d.fields) (hk : d.fields[k]? = some f) (hmf : MapFieldM f c) (hdc : S[c]? = some dc)
    (hlen : ks.length = vs.length) (hks : ∀ x ∈ ks, scalarOk f.mapK x = true)
    (hinner : ∀ x ∈ vs, (∃ sl ow unk cur, x = Val.msg c sl ow unk cur) ∧ RoundTrips S (loadInto S n) x)
    (hdist : KeysDistinct ks) (hsel : sel = false) :
    SlotStep S (loadInto S (n + 1)) d (fun _ v v' => ValEqv S v v') k f false sel (.dict ks vs) :=
  slotStep_map_gen S n d k f sel ks vs (ValEqv S) _ hd hk hmf.ty hmf.kty hmf.num hmf.rep hmf.opt hmf.grp
    hlen hks
    (fun x hx => valStep_msg S _ f c dc x _ hmf.vty hmf.vk hdc (hinner x hx).1 (hinner x hx).2
      (fun _ h => h)
      (fun he => by
        obtain ⟨sl, ow, unk, cur, e⟩ := (hinner x hx).1
        subst e
        exact ValEqv.emptyMsg c sl ow unk cur he))
    hdist hsel
    (fun vs' h => ValEqv.dict ks vs vs' (listEqv_of_forall₂ S vs vs' h))

/-- the payload of every message value of a map is shorter, by at least the two bytes of
    the entry's own tag and length, than the bytes of the field -/
theorem mapM_payload_lt (S : Schema) (f : FieldD) (c : Nat) (hty : f.ty = PType.map) (hvty : f.mapV = PType.message) :
    ∀ (ks vs : List Val) (b : Bytes), ks.length = vs.length →
      (∀ x ∈ vs, ∃ sl ow unk cur, x = Val.msg c sl ow unk cur) →
      dumpEntries S f ks vs = .ok b → ∀ x ∈ vs, ∃ p, dumpVal S x = .ok p ∧ p.length + 2 ≤ b.length := by
  intro ks
  induction ks with
  | nil =>
    intro vs b hl _ _ x hx
    cases vs with
    | nil => simp at hx
    | cons _ _ => simp at hl
  | cons k0 ks ih =>
    intro vs b hl hall h x hx
    cases vs with
    | nil => simp at hl
    | cons v0 vs =>
      rw [dumpEntries_cons] at h
      cases hsk : serializeScalar S 1 f.mapK k0 false Option.none with
      | error e => rw [hsk] at h; simp at h
      | ok sk =>
        rw [hsk] at h; simp only [bind_ok] at h
        obtain ⟨sl, ow, unk, cur, hv0⟩ := hall v0 (by simp)
        rw [dumpEntryVal_msg S f v0 hvty ⟨c, sl, ow, unk, cur, hv0⟩] at h
        cases hp : dumpVal S v0 with
        | error e => rw [hp] at h; simp at h
        | ok p =>
          rw [hp] at h; simp only [bind_ok] at h
          have hsvl : ∃ sv, (if (p.length != 0) = true then (Except.ok (encNat (2 * 8 + 2) ++ encNat p.length ++ p) : R Bytes)
              else .ok []) = .ok sv ∧ p.length ≤ sv.length := by
            by_cases hp0 : (p.length != 0) = true
            · rw [if_pos hp0]; exact ⟨_, rfl, by simp only [List.length_append]; omega⟩
            · rw [if_neg hp0]; refine ⟨[], rfl, ?_⟩
              simp at hp0; simp [hp0]
          obtain ⟨sv, hsv, hsvlen⟩ := hsvl
          rw [hsv] at h; simp only [bind_ok] at h
          rw [hty, frame_map] at h; simp only [bind_ok] at h
          cases hr : dumpEntries S f ks vs with
          | error e => rw [hr] at h; simp at h
          | ok r =>
            rw [hr] at h; simp only [bind_ok] at h
            injection h with h; subst h
            have h1 := encNat_ne_nil (f.num * 8 + 2)
            have h2 := encNat_ne_nil (sk.length + sv.length)
            have l1 : 0 < (encNat (f.num * 8 + 2)).length := List.length_pos_iff.mpr h1
            have l2 : 0 < (encNat (sk.length + sv.length)).length := List.length_pos_iff.mpr h2
            rcases List.mem_cons.mp hx with hx | hx
            · subst hx
              refine ⟨p, hp, ?_⟩
              simp only [List.length_append]; omega
            · obtain ⟨q, hq, hlt⟩ := ih vs r (by simpa using hl) (fun y hy => hall y (by simp [hy])) hr x hx
              exact ⟨q, hq, by simp only [List.length_append]; omega⟩

/-! ### the round trip -/

/-- **decode ∘ encode for every well-typed message, nested or recursive**, stated for the
    loader with any nesting fuel above the length of the encoding (which is what `parse`
    supplies). Induction on the fuel; nested payloads are strictly shorter. -/
theorem nested_fuel (S : Schema) : ∀ (fuel : Nat) (c : Nat) (d : MsgD) (sl : List Val) (ow : Bool) (unk : Bytes)
    (cur : List (Option Nat)) (bs : Bytes),
    MsgOk S (.msg c sl ow unk cur) → S[c]? = some d → dumpVal S (.msg c sl ow unk cur) = .ok bs →
    bs.length < 2 ^ 64 → bs.length < fuel →
    ∃ sl', loadInto S fuel d (freshState d) bs = .ok { slots := sl', onWire := true, unknown := unk, cur := cur }
      ∧ ValEqv S (.msg c sl ow unk cur) (.msg c sl' true unk cur)
      ∧ dumpVal S (.msg c sl' true unk cur) = .ok bs := by
  intro fuel
  induction fuel using Nat.strongRecOn with
  | _ fuel0 ih =>
  cases fuel0 with
  | zero => intro c d sl ow unk cur bs _ _ _ _ h; omega
  | succ fuel =>
    intro c d sl ow unk cur bs hmsg hd hdump hbl hfuel
    cases hmsg with
    | mk _ d' _ _ _ _ hd' hdist hwfg hgrpopt hcurlen hcurok hinv hselset hslots hunk =>
    rw [hd] at hd'; injection hd' with hd'; subst hd'
    have hlen : sl.length = d.fields.length := slotsOk_len S _ _ hslots
    have hfo : fieldsOf S c = d.fields := by simp [fieldsOf, hd]
    -- the body of the encoding
    obtain ⟨body, hbody, hbs⟩ : ∃ body, dumpSlots S d.fields cur 0 sl = .ok body ∧ bs = body ++ unk := by
      rw [dumpVal_msg, hfo] at hdump
      cases hb : dumpSlots S d.fields cur 0 sl with
      | error e => rw [hb] at hdump; simp at hdump
      | ok body => rw [hb] at hdump; simp only [bind_ok] at hdump; injection hdump with h; exact ⟨body, rfl, h.symm⟩
    have hsel_grp : ∀ i f, d.fields[i]? = some f → selectedInGroup f i cur = true →
        ∃ g, f.group = some g ∧ cur.getD g Option.none = some i := by
      intro i f _ hs
      unfold selectedInGroup at hs
      cases hg : f.group with
      | none => rw [hg] at hs; simp at hs
      | some g => rw [hg] at hs; exact ⟨g, rfl, by simpa using hs⟩
    have hslot : ∀ i f, d.fields[i]? = some f → SlotOk S f (sl.getD i .ph) := by
      intro i f hf
      have hil : i < sl.length := by
        rw [hlen]; by_contra hc; rw [List.getElem?_eq_none (by omega)] at hf; simp at hf
      have hvi : sl[i]? = some (sl.getD i .ph) := by
        rw [List.getD_eq_getElem?_getD, List.getElem?_eq_getElem hil]; rfl
      exact slotsOk_get S _ _ hslots i f _ hf hvi
    have hshape : MsgShape S d sl cur := by
      refine ⟨hlen, hcurlen, hwfg, hcurok, hgrpopt, hinv, ?_⟩
      intro i f b hf hs hb
      obtain ⟨g, hg, hcg⟩ := hsel_grp i f hf hs
      have hh : hidden f i cur = false := by unfold hidden; rw [hg]; simp only; rw [hcg]; simp
      rw [hh] at hb
      have hne := hselset g i hcg
      have hgo := hgrpopt f (List.mem_of_getElem? hf) (by simp [hg])
      have hso := hslot i f hf
      generalize sl.getD i .ph = v at hso hne hb
      cases hso with
      | flat _ _ hff hok =>
        exact flat_selected_emits S f _ b (by simp [hg]) (flat_member_scalar f _ g hff hok hne hgo hg) hb
      | unsetSub _ c' _ _ => exact absurd rfl hne
      | unsetAny _ _ => exact absurd rfl hne
      | noneAny _ ho => rw [hgo] at ho; simp at ho
      | noneSub _ c' _ ho => rw [hgo] at ho; simp at ho
      | sub _ c' sl' ow' unk' cur' hsf _ _ => exact sub_selected_emits S f c' sl' ow' unk' cur' b hsf (by simp [hg]) hb
      | subs _ c' xs hsf hr _ => have := (hsf.rep hr).2; rw [hg] at this; simp at this
      | unsetTime _ _ _ _ => exact absurd rfl hne
      | noneTime _ _ _ ho => rw [hgo] at ho; simp at ho
      | ts _ us htf _ => exact time_selected_emits S f false _ b htf (by simp [hg]) (Or.inl ⟨us, rfl⟩) hb
      | dur _ us htf _ => exact time_selected_emits S f true _ b htf (by simp [hg]) (Or.inr ⟨us, rfl⟩) hb
      | unsetWrap _ _ _ _ => exact absurd rfl hne
      | noneWrap _ _ _ hgn => rw [hg] at hgn; simp at hgn
      | wrap _ w _ hwf hv => exact wrap_selected_emits S f w _ b hwf (by simp [hg]) hv hb
      | unsetMapS _ _ => exact absurd rfl hne
      | unsetMapM _ _ _ => exact absurd rfl hne
      | mapS _ _ _ hmf _ _ _ _ => have := hmf.grp; rw [hg] at this; simp at this
      | mapM _ _ _ _ hmf _ _ _ _ => have := hmf.grp; rw [hg] at this; simp at this
      | tss _ _ htf _ => have := htf.grp; rw [hg] at this; simp at this
      | durs _ _ htf _ => have := htf.grp; rw [hg] at this; simp at this
      | mapT _ _ _ _ hmf _ _ _ _ => have := hmf.grp; rw [hg] at this; simp at this
      | wraps _ _ _ hwf _ => have := hwf.grp; rw [hg] at this; simp at this
    -- every slot is a step for the nested loader with the smaller fuel
    have hsteps : ∀ k f v, d.fields[k]? = some f → sl[k]? = some v →
        SlotStep S (loadInto S fuel) d (fun _ v v' => ValEqv S v v') k f (hidden f k cur) (selectedInGroup f k cur) v := by
      intro k f v hf hv
      have hvD : sl.getD k .ph = v := by simp [List.getD_eq_getElem?_getD, hv]
      have hso : SlotOk S f v := slotsOk_get S _ _ hslots k f v hf hv
      -- the bytes of this slot are at most the body
      obtain ⟨b0, hb0, hb0len⟩ := dumpSlots_slot_le S d.fields cur sl 0 body hbody k f v (by simpa using hf) hv
      simp only [Nat.zero_add] at hb0
      have hblen : body.length ≤ fuel := by rw [hbs] at hfuel; simp at hfuel; omega
      have hb64 : body.length < 2 ^ 64 := by rw [hbs] at hbl; simp at hbl; omega
      have hphsel : v = Val.ph → ∀ g, f.group = some g → cur.getD g Option.none ≠ some k := by
        intro hvp g _ hc
        exact hselset g k hc (by rw [hvD, hvp])
      cases hso with
      | flat _ _ hff hok =>
        exact slotStep_flat S _ d k f cur v hdist hf hff hok hphsel _ (fun _ v => ValEqv.refl v)
      | unsetSub _ c' _ ho =>
        apply slotStep_empty
        intro b hb
        exact ph_emits_nothing S f k cur b ho (hphsel rfl) hb
      | unsetAny _ ho =>
        apply slotStep_empty
        intro b hb
        exact ph_emits_nothing S f k cur b ho (hphsel rfl) hb
      | noneAny _ _ =>
        apply slotStep_empty
        intro b hb
        rw [dumpSlot] at hb; injection hb with hb; exact hb.symm
      | noneSub _ c' _ _ =>
        apply slotStep_empty
        intro b hb
        rw [dumpSlot] at hb; injection hb with hb; exact hb.symm
      | sub _ c' sl' ow' unk' cur' hsf hr hmo =>
        intro st b hb
        have hbb : b = b0 := by rw [hb0] at hb; injection hb with hb; exact hb.symm
        by_cases hbe : b = []
        · intro _ _ _ _ _
          exact ⟨[], .ph, fun _ h => by simp at h, by simp [joinRaw, hbe], fun h => absurd hbe h, by rw [if_pos hbe]; rfl⟩
        · obtain ⟨p, hp, hplt⟩ := sub_payload_lt S f c' _ _ sl' ow' unk' cur' b hsf hb hbe
          rw [hbb] at hplt
          have hmo' := hmo
          cases hmo' with
          | mk _ dc _ _ _ _ hdc _ _ _ _ _ _ _ _ _ =>
          have hinner : RoundTrips S (loadInto S fuel) (.msg c' sl' ow' unk' cur') := by
            intro c2 d2 sl2 ow2 unk2 cur2 bs2 he hd2 hdump2
            injection he with e1 e2 e3 e4 e5
            subst e1; subst e2; subst e3; subst e4; subst e5
            rw [hp] at hdump2; injection hdump2 with e; subst e
            exact ih fuel (by omega) c' d2 sl' ow' unk' cur' p hmo hd2 hp (by omega) (by omega)
          exact slotStep_sub S _ d k f c' dc sl' ow' unk' cur' _ _ hdist hf hsf hr hdc hinner st b hb
      | subs _ c' xs hsf hr hms =>
        obtain ⟨ho, hg⟩ := hsf.rep hr
        have hh : hidden f k cur = false := by unfold hidden; rw [hg]
        have hs : selectedInGroup f k cur = false := by unfold selectedInGroup; rw [hg]
        intro st b hb
        have hbb : b = b0 := by rw [hb0] at hb; injection hb with hb; exact hb.symm
        by_cases hxe : xs = []
        · -- an empty list emits nothing
          subst hxe
          have hbe : b = [] := by
            rw [hh, hs, dumpSlot_subs S f c' [] hsf hr, dumpItems] at hb
            injection hb with hb; exact hb.symm
          intro _ _ _ _ _
          exact ⟨[], .ph, fun _ h => by simp at h, by simp [joinRaw, hbe], fun h => absurd hbe h, by rw [if_pos hbe]; rfl⟩
        · obtain ⟨x0, hx0⟩ := List.exists_mem_of_ne_nil xs hxe
          obtain ⟨⟨sl0, ow0, unk0, cur0, hx0e⟩, hmo0⟩ := msgsOk_mem S c' xs hms x0 hx0
          subst hx0e
          have hmo0' := hmo0
          cases hmo0' with
          | mk _ dc _ _ _ _ hdc _ _ _ _ _ _ _ _ _ =>
          have hitems : dumpItems S f xs = .ok b := by
            rw [hh, hs, dumpSlot_subs S f c' xs hsf hr] at hb; exact hb
          have hinner : AllRoundTrip S (loadInto S fuel) c' xs := by
            intro x hx
            obtain ⟨hxm, hxo⟩ := msgsOk_mem S c' xs hms x hx
            refine ⟨hxm, ?_⟩
            obtain ⟨p, hp, hplt⟩ := subs_payload_lt S f c' hsf.ty hsf.nw xs b
              (fun y hy => (msgsOk_mem S c' xs hms y hy).1) hitems x hx
            rw [hbb] at hplt
            intro c2 d2 sl2 ow2 unk2 cur2 bs2 he hd2 hdump2
            subst he
            rw [hp] at hdump2; injection hdump2 with e; subst e
            have hc2 : c2 = c' := by
              obtain ⟨_, _, _, _, e⟩ := hxm; injection e
            subst hc2
            exact ih fuel (by omega) c2 d2 sl2 ow2 unk2 cur2 p hxo hd2 hp (by omega) (by omega)
          have := slotStep_subs S _ d k f c' dc (selectedInGroup f k cur) xs hdist hf hsf hr hdc hs hinner
          rw [hh] at hb ⊢
          exact this st b hb
      | unsetTime _ _ _ ho =>
        apply slotStep_empty
        intro b hb
        exact ph_emits_nothing S f k cur b ho (hphsel rfl) hb
      | noneTime _ _ _ _ =>
        apply slotStep_empty
        intro b hb
        rw [dumpSlot] at hb; injection hb with hb; exact hb.symm
      | ts _ us htf hus =>
        apply slotStep_of_pos
        · intro n _
          exact slotStep_ts S n d k f _ _ us hdist hf htf hus _ (fun _ v => ValEqv.refl v)
        · intro b hb; rw [hb0] at hb; injection hb with hb; subst hb; omega
      | dur _ us htf hus =>
        apply slotStep_of_pos
        · intro n _
          exact slotStep_dur S n d k f _ _ us hdist hf htf hus _ (fun _ v => ValEqv.refl v)
        · intro b hb; rw [hb0] at hb; injection hb with hb; subst hb; omega
      | unsetWrap _ _ _ ho =>
        apply slotStep_empty
        intro b hb
        exact ph_emits_nothing S f k cur b ho (hphsel rfl) hb
      | noneWrap _ _ _ _ =>
        apply slotStep_empty
        intro b hb
        rw [dumpSlot] at hb; injection hb with hb; exact hb.symm
      | wrap _ w _ hwf hvw =>
        apply slotStep_of_pos
        · intro n _
          exact slotStep_wrap_norm S n d k f w _ _ v hdist hf hwf hvw _ (valEqv_wrapNorm S w v hvw)
        · intro b hb; rw [hb0] at hb; injection hb with hb; subst hb; omega
      | unsetMapS _ hmf =>
        apply slotStep_empty
        intro b hb
        exact ph_emits_nothing S f k cur b hmf.opt (hphsel rfl) hb
      | unsetMapM _ _ hmf =>
        apply slotStep_empty
        intro b hb
        exact ph_emits_nothing S f k cur b hmf.opt (hphsel rfl) hb
      | mapS _ ks vs hmf hlenkv hks hvs hkd =>
        have hh : hidden f k cur = false := by unfold hidden; rw [hmf.grp]
        have hs : selectedInGroup f k cur = false := by unfold selectedInGroup; rw [hmf.grp]
        rw [hh] at hb0 ⊢
        apply slotStep_of_pos
        · intro n _
          exact slotStep_mapS S n d k f _ ks vs hdist hf hmf hlenkv hks hvs hkd hs _ (fun _ v => ValEqv.refl v)
        · intro b hb; rw [hb0] at hb; injection hb with hb; subst hb; omega
      | mapM _ c' ks vs hmf hlenkv hks hms hkd =>
        have hh : hidden f k cur = false := by unfold hidden; rw [hmf.grp]
        have hs : selectedInGroup f k cur = false := by unfold selectedInGroup; rw [hmf.grp]
        rw [hh, hs] at hb0
        rw [hh]
        by_cases hke : ks = []
        · -- an empty dict emits nothing
          subst hke
          apply slotStep_empty
          intro b hb
          rw [hs, dumpSlot_map S f [] vs hmf.ty hmf.rep hmf.opt hmf.grp] at hb
          simp at hb; exact hb
        · have hvne : vs ≠ [] := by
            intro hc; subst hc; cases ks <;> simp_all
          obtain ⟨x0, hx0⟩ := List.exists_mem_of_ne_nil vs hvne
          obtain ⟨⟨sl0, ow0, unk0, cur0, hx0e⟩, hmo0⟩ := msgsOk_mem S c' vs hms x0 hx0
          subst hx0e
          have hmo0' := hmo0
          cases hmo0' with
          | mk _ dc _ _ _ _ hdc _ _ _ _ _ _ _ _ _ =>
          have hitems : dumpEntries S f ks vs = .ok b0 := by
            rw [dumpSlot_map S f ks vs hmf.ty hmf.rep hmf.opt hmf.grp] at hb0
            have : ks.isEmpty = false := by cases ks <;> simp_all
            rw [if_neg (by rw [this]; decide)] at hb0; exact hb0
          apply slotStep_of_pos
          · intro n hn
            have hinner : ∀ x ∈ vs, (∃ sl ow unk cur, x = Val.msg c' sl ow unk cur) ∧ RoundTrips S (loadInto S n) x := by
              intro x hx
              obtain ⟨hxm, hxo⟩ := msgsOk_mem S c' vs hms x hx
              refine ⟨hxm, ?_⟩
              obtain ⟨p, hp, hplt⟩ := mapM_payload_lt S f c' hmf.ty hmf.vty ks vs b0 hlenkv
                (fun y hy => (msgsOk_mem S c' vs hms y hy).1) hitems x hx
              intro c2 d2 sl2 ow2 unk2 cur2 bs2 he hd2 hdump2
              subst he
              rw [hp] at hdump2; injection hdump2 with e; subst e
              have hc2 : c2 = c' := by
                obtain ⟨_, _, _, _, e⟩ := hxm; injection e
              subst hc2
              exact ih n (by omega) c2 d2 sl2 ow2 unk2 cur2 p hxo hd2 hp (by omega) (by omega)
            rw [hs]
            exact slotStep_mapM' S n d k f c' dc false ks vs hdist hf hmf hdc hlenkv hks hinner hkd rfl
          · intro b hb; rw [hs, hb0] at hb; injection hb with hb; subst hb; omega
      | tss _ xs htf hxs =>
        have hh : hidden f k cur = false := by unfold hidden; rw [htf.grp]
        have hs : selectedInGroup f k cur = false := by unfold selectedInGroup; rw [htf.grp]
        rw [hh] at hb0 ⊢
        apply slotStep_of_pos
        · intro n _
          exact slotStep_times S n d k f false _ xs hdist hf htf hxs hs _ (fun _ v => ValEqv.refl v)
        · intro b hb; rw [hb0] at hb; injection hb with hb; subst hb; omega
      | durs _ xs htf hxs =>
        have hh : hidden f k cur = false := by unfold hidden; rw [htf.grp]
        have hs : selectedInGroup f k cur = false := by unfold selectedInGroup; rw [htf.grp]
        rw [hh] at hb0 ⊢
        apply slotStep_of_pos
        · intro n _
          exact slotStep_times S n d k f true _ xs hdist hf htf hxs hs _ (fun _ v => ValEqv.refl v)
        · intro b hb; rw [hb0] at hb; injection hb with hb; subst hb; omega
      | wraps _ w xs hwf hxs =>
        have hh : hidden f k cur = false := by unfold hidden; rw [hwf.grp]
        have hs : selectedInGroup f k cur = false := by unfold selectedInGroup; rw [hwf.grp]
        rw [hh] at hb0 ⊢
        apply slotStep_of_pos
        · intro n _
          exact slotStep_wraps S n d k f w _ xs hdist hf hwf hxs hs _ (ValEqv.list _ _ (listEqv_wrapNorm S w xs hxs))
        · intro b hb; rw [hb0] at hb; injection hb with hb; subst hb; omega
      | mapT _ isDur ks vs hmf hlenkv hks hvs hkd =>
        have hh : hidden f k cur = false := by unfold hidden; rw [hmf.grp]
        have hs : selectedInGroup f k cur = false := by unfold selectedInGroup; rw [hmf.grp]
        rw [hh] at hb0 ⊢
        apply slotStep_of_pos2
        · intro n _
          exact slotStep_mapT S n d k f isDur _ ks vs hdist hf hmf hlenkv hks hvs hkd hs _ (fun _ v => ValEqv.refl v)
        · intro b hb; rw [hb0] at hb; injection hb with hb; subst hb; omega
        · intro b hb hne
          rw [hs, dumpSlot_map S f ks vs hmf.ty hmf.rep hmf.opt hmf.grp] at hb
          by_cases hke : ks.isEmpty = true
          · rw [if_pos hke] at hb; injection hb with hb; exact absurd hb.symm hne
          · rw [if_neg hke] at hb; exact dumpEntries_two S f ks vs b hmf.ty hb hne
    obtain ⟨sl', h1, h2, h3, h4⟩ :=
      fold_of_steps S (loadInto S fuel) c d hd sl ow unk cur _ hshape hunk bs hdump hbl hsteps
    refine ⟨sl', ?_, ?_, h4⟩
    · rw [loadInto_succ]; exact h1
    · apply ValEqv.msg
      rw [hfo]
      apply slotsEqv_of_index S d.fields cur 0 sl sl' h2
      · intro j f hf _
        simp only [Nat.zero_add] at hf ⊢
        exact h3 j f hf
      · omega

end Bp
