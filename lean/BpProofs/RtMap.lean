import BpModel.All
import BpProofs.NestedDefs
import BpProofs.RtScalar
import BpProofs.RtFlat
import BpProofs.RtSub
/-
  C01, map fields: decoding the bytes of a map-typed slot restores the dict — one
  length-delimited record per entry, whose payload is the two-field entry message
  `entryD f` (key = #1, value = #2), parsed by the nested loader and inserted with
  `dictInsert`.
-/
namespace Bp
open Gen

/-! ### definitions -/

theorem mapKey_scalar (t : PType) (h : isMapKeyType t = true) : isScalarType t = true := by
  cases t <;> first | rfl | (exact absurd h (by decide))

/-! ### `KeysDistinct` is what a Python dict guarantees

  All keys of a map field have the one key type `f.mapK`, so the mixed `int` / `bool`
  cases of `keyEq` (`True == 1`) never arise: on well-typed keys `keyEq` is equality, and
  `KeysDistinct` says that no key occurs twice. -/

theorem keyEq_typed (t : PType) (a b : Val) (ht : isMapKeyType t = true)
    (ha : scalarOk t a = true) (hb : scalarOk t b = true) : keyEq a b = true ↔ a = b := by
  cases a <;> cases b <;> simp [scalarOk] at ha hb <;> simp [keyEq]
  all_goals first
    | (obtain ⟨⟨h, _⟩, _⟩ := ha; subst h; exact absurd ht (by decide))
    | (obtain ⟨h, _⟩ := ha; subst h; exact absurd ht (by decide))
    | (subst hb; simp [intInRange] at ha)
    | (subst ha; simp [intInRange] at hb)

theorem keysDistinct_of_nodup (t : PType) (ht : isMapKeyType t = true) :
    ∀ (ks : List Val), (∀ x ∈ ks, scalarOk t x = true) → ks.Nodup → KeysDistinct ks
  | [], _, _ => trivial
  | k :: ks, hks, hnd => by
    rw [List.nodup_cons] at hnd
    refine ⟨fun k' hk' => ?_, keysDistinct_of_nodup t ht ks (fun x hx => hks x (by simp [hx])) hnd.2⟩
    cases h : keyEq k k' with
    | false => rfl
    | true =>
      have := (keyEq_typed t k k' ht (hks k (by simp)) (hks k' (by simp [hk']))).mp h
      subst this
      exact absurd hk' hnd.1

/-! ### `dictInsert` of a new key appends -/

theorem keysDistinct_append (a b : List Val) (h : KeysDistinct (a ++ b)) :
    ∀ x ∈ a, ∀ y ∈ b, keyEq x y = false := by
  induction a with
  | nil => intro x hx; simp at hx
  | cons a0 a ih =>
    intro x hx y hy
    rw [List.cons_append] at h
    obtain ⟨h1, h2⟩ := h
    rcases List.mem_cons.mp hx with hx | hx
    · subst hx; exact h1 y (List.mem_append_right _ hy)
    · exact ih h2 x hx y hy

theorem dictInsert_append : ∀ (ks vs : List Val) (k v : Val), ks.length = vs.length →
    (∀ k' ∈ ks, keyEq k' k = false) → dictInsert ks vs k v = (ks ++ [k], vs ++ [v])
  | [], [], k, v, _, _ => rfl
  | [], _ :: _, _, _, h, _ => by simp at h
  | _ :: _, [], _, _, h, _ => by simp at h
  | k' :: ks, v' :: vs, k, v, hl, hne => by
    rw [dictInsert, if_neg (by rw [hne k' (by simp)]; decide)]
    rw [dictInsert_append ks vs k v (by simpa using hl) (fun x hx => hne x (by simp [hx]))]
    rfl

/-! ### the encoder on one entry -/

/-- the value half of an entry, as `dumpEntries` writes it -/
def dumpEntryVal (S : Schema) (f : FieldD) : Val → R Bytes
  | .msg c slots _ unknown cur =>
    (dumpSlots S (fieldsOf S c) cur 0 slots).bind fun body =>
      if f.mapV == PType.message then frame 2 f.mapV (body ++ unknown) false false else .error .type
  | v => serializeScalar S 2 f.mapV v false Option.none

theorem dumpEntries_cons (S : Schema) (f : FieldD) (k v : Val) (ks vs : List Val) :
    dumpEntries S f (k :: ks) (v :: vs) =
      (serializeScalar S 1 f.mapK k false Option.none).bind fun sk =>
      (dumpEntryVal S f v).bind fun sv =>
      (frame f.num f.ty (sk ++ sv) true false).bind fun e =>
      (dumpEntries S f ks vs).bind fun rest => .ok (e ++ rest) := by
  cases v <;> rw [dumpEntries] <;> first | rfl | (intros; contradiction)

theorem frame_map (num : Nat) (pre : Bytes) (w : Bool) :
    frame num PType.map pre true w = .ok (encNat (num * 8 + 2) ++ encNat pre.length ++ pre) := by
  unfold frame
  rw [if_neg (by decide), if_neg (by decide), if_neg (by decide), if_pos (by decide),
    if_pos (by simp), dumpVarint_nat, dumpVarint_nat]
  rfl

/-! ### the decoder on one entry -/

theorem decodeValue_map (S : Schema) (rec : Loader) (f : FieldD) (pf : PField) (h : pf.wt = 2)
    (hty : f.ty = PType.map) :
    decodeValue S rec f pf =
      (rec (entryD f) (freshState (entryD f)) pf.payload).bind fun est =>
        .ok (Val.dict [materialize S (entryD f).fields[0]! (est.slots.getD 0 .ph)]
                      [materialize S (entryD f).fields[1]! (est.slots.getD 1 .ph)]) := by
  unfold decodeValue
  rw [h, hty]
  rw [if_neg (by decide), if_neg (by decide), if_neg (by decide), if_pos (by decide)]

theorem entry_numsDistinct (f : FieldD) : NumsDistinct (entryD f).fields := by
  intro i j fi fj hi hj hn
  rcases i with _ | _ | i <;> rcases j with _ | _ | j <;> simp [entryD] at hi hj <;> first
    | rfl
    | (subst hi; subst hj; simp at hn)

/-- what decoding the bytes `out` of ONE field `i` of an entry does to an entry state in
    which that field is still unset: afterwards the field reads as `x'`, the other slots
    are untouched -/
def EntryStep (S : Schema) (rec : Loader) (d : MsgD) (i : Nat) (fi : FieldD) (out : Bytes) (x' : Val) : Prop :=
  ∀ st : MState, i < st.slots.length → st.slots.getD i .ph = Val.ph →
    ∃ pfs st', (∀ q ∈ pfs, Parsed q) ∧ joinRaw pfs = out ∧ foldFields S rec d st pfs = .ok st'
      ∧ materialize S fi (st'.slots.getD i .ph) = x' ∧ st'.slots.length = st.slots.length
      ∧ ∀ j, j ≠ i → st'.slots.getD j .ph = st.slots.getD j .ph

theorem getD_setAt_other (xs : List Val) (i j : Nat) (v : Val) (h : j ≠ i) :
    (setAt xs i v).getD j .ph = xs.getD j .ph := by
  unfold setAt
  simp only [List.getD_eq_getElem?_getD, List.getElem?_set]
  rw [if_neg (fun e => h e.symm)]

theorem materialize_plain (S : Schema) (f : FieldD) (v : Val) (h : isPlainVal v = true) : materialize S f v = v := by
  cases v <;> first | rfl | (simp [isPlainVal] at h)

/-- a scalar field of an entry: written without any default check (`serialize_empty`
    false), so only an empty string / bytes leaves no record — and is read back as the
    default, which is that same empty value -/
theorem entryStep_scalar (S : Schema) (rec : Loader) (d : MsgD) (i : Nat) (fi : FieldD) (x : Val) (out : Bytes)
    (hd : NumsDistinct d.fields) (hi : d.fields[i]? = some fi) (hff : FlatField fi)
    (hr : fi.repeated = false) (ho : fi.optional = false) (hg : fi.group = Option.none)
    (hx : scalarOk fi.ty x = true)
    (hout : serializeScalar S fi.num fi.ty x false Option.none = .ok out) (hlen : out.length < 2 ^ 64) :
    EntryStep S rec d i fi out x := by
  intro st hil hfr
  obtain ⟨hpl, hnm⟩ := scalarOk_plain fi.ty x hx
  by_cases hoe : out = []
  · refine ⟨[], st, fun _ h => by simp at h, by simp [joinRaw, hoe], rfl, ?_, rfl, fun _ _ => rfl⟩
    rw [hfr]
    have hxe := (serializeScalar_empty_iff S fi.num fi.ty x false out hff.sc hx hout).mp hoe
    have hdk : fi.defKind = scalarDef fi.ty := by
      rw [flat_defKind_singular fi hff hr, ho]; rfl
    show defaultOfKind S fi.defKind = x
    rw [hdk]
    rcases hxe.2 with e | e
    · subst e; rw [(scalarOk_str fi.ty [] hx).1]; rfl
    · subst e; rw [scalarOk_byt fi.ty [] hx]; rfl
  · obtain ⟨pf, hl, hn, hraw, hfit, hdec⟩ :=
      scalar_record_roundtrip S rec fi x false out [] hff.num hff.sc hx hlen hout hoe
    have happly : applyField S rec d st pf = .ok (afterStore st i fi x) := by
      rw [applyField_known_eq S rec d st pf i fi hd hi hn hfit, hdec]
      simp only [bind_ok]
      exact store_singular S d st i fi x hi hil (flat_notmap fi hff) (flat_default_notlist S fi hff hr)
        (flat_default_notmsg S fi hff hr) hnm (by rw [hfr]; simp [freshVal, ho])
        (fun g hgg => by rw [hg] at hgg; cases hgg)
        (fun g hgg => by rw [hg] at hgg; cases hgg)
    refine ⟨[pf], afterStore st i fi x, ?_, by simp [joinRaw, hraw], by rw [foldFields, happly]; rfl, ?_, ?_, ?_⟩
    · intro q hq; simp at hq; subst hq; exact ⟨_, _, hl⟩
    · simp only [afterStore]
      rw [getD_setAt_self _ _ _ hil]
      exact materialize_plain S fi x hpl
    · simp [afterStore, setAt]
    · intro j hj
      simp only [afterStore]
      exact getD_setAt_other _ _ _ _ hj

/-- **one entry**: the payload `sk ++ sv` of an entry record, parsed by the nested loader
    from the fresh entry state, yields the key and the value the two halves decode to -/
theorem entry_decode (S : Schema) (n : Nat) (f : FieldD) (sk sv : Bytes) (k' v' : Val)
    (hks : EntryStep S (loadInto S n) (entryD f) 0 (entryD f).fields[0]! sk k')
    (hvs : EntryStep S (loadInto S n) (entryD f) 1 (entryD f).fields[1]! sv v') :
    ∃ est, loadInto S (n + 1) (entryD f) (freshState (entryD f)) (sk ++ sv) = .ok est
      ∧ materialize S (entryD f).fields[0]! (est.slots.getD 0 .ph) = k'
      ∧ materialize S (entryD f).fields[1]! (est.slots.getD 1 .ph) = v' := by
  obtain ⟨pfs1, st1, hp1, hj1, hf1, hm1, hl1, ho1⟩ :=
    hks { freshState (entryD f) with onWire := true } (by simp [freshState, entryD]) rfl
  obtain ⟨pfs2, st2, hp2, hj2, hf2, hm2, hl2, ho2⟩ :=
    hvs st1 (by rw [hl1]; simp [freshState, entryD]) (by rw [ho1 1 (by decide)]; rfl)
  refine ⟨st2, ?_, ?_, hm2⟩
  · rw [loadInto_succ]
    have hall : ∀ pf ∈ pfs1 ++ pfs2, Parsed pf := by
      intro pf hpf; rcases List.mem_append.mp hpf with h | h
      · exact hp1 pf h
      · exact hp2 pf h
    have hb : sk ++ sv = joinRaw (pfs1 ++ pfs2) := by rw [joinRaw_append, hj1, hj2]
    rw [hb, loadFields_join _ hall]
    simp only [bind_ok]
    rw [foldFields_append, hf1]
    simp only [bind_ok]
    exact hf2
  · rw [ho2 0 (by decide)]; exact hm1

/-! ### one entry record -/

theorem wireFits_map (f : FieldD) (hty : f.ty = PType.map) : wireFits f 2 = true :=
  wireFits_of f 2 (by rw [hty]; rfl)

/-- **one record of a map field decodes to the one-entry dict** of the key and the value
    its payload decodes to, consuming exactly its own bytes -/
theorem map_record_roundtrip (S : Schema) (n : Nat) (f : FieldD) (p rest : Bytes) (k' v' : Val)
    (hty : f.ty = PType.map) (hnum : numOk f.num = true) (hpl : p.length < 2 ^ 64)
    (hdec : ∃ est, loadInto S (n + 1) (entryD f) (freshState (entryD f)) p = .ok est
      ∧ materialize S (entryD f).fields[0]! (est.slots.getD 0 .ph) = k'
      ∧ materialize S (entryD f).fields[1]! (est.slots.getD 1 .ph) = v') :
    ∃ pf, loadField ((encNat (f.num * 8 + 2) ++ encNat p.length ++ p) ++ rest) = .ok (pf, rest)
      ∧ pf.num = f.num ∧ pf.raw = encNat (f.num * 8 + 2) ++ encNat p.length ++ p
      ∧ wireFits f pf.wt = true
      ∧ decodeValue S (loadInto S (n + 1)) f pf = .ok (Val.dict [k'] [v']) := by
  obtain ⟨est, h1, h2, h3⟩ := hdec
  refine ⟨_, loadField_len f.num p hnum hpl rest, rfl, rfl, wireFits_map f hty, ?_⟩
  rw [decodeValue_map S _ f _ rfl hty]
  show (loadInto S (n + 1) (entryD f) (freshState (entryD f)) p).bind _ = _
  rw [h1]
  simp only [bind_ok]
  rw [h2, h3]

/-- storing a decoded entry: `dictInsert` into the (materialised) dict of the slot -/
theorem store_map (S : Schema) (d : MsgD) (st : MState) (k : Nat) (f : FieldD) (accK accV : List Val) (key v : Val)
    (hkl : k < st.slots.length) (hty : f.ty = PType.map) (hg : f.group = Option.none)
    (hcurv : materialize S f (st.slots.getD k .ph) = Val.dict accK accV) :
    storeValue S d (prepCurrent S d st k f) k f (Val.dict [key] [v])
      = .ok { st with slots := setAt st.slots k (Val.dict (dictInsert accK accV key v).fst (dictInsert accK accV key v).snd) } := by
  have hh : hidden f k st.cur = false := by unfold hidden; rw [hg]
  unfold prepCurrent
  rw [if_neg (by simp [hh])]
  unfold storeValue
  dsimp only
  rw [if_pos (by rw [hty]; rfl), getD_setAt_self _ _ _ hkl, hcurv]
  simp only [setAt_setAt]

/-! ### all entries -/

/-- what the fold needs to know about ONE map value `x`: the bytes of its half of the
    entry decode (inside the entry, by the loader with one unit of fuel less) to some `x'`
    related to `x` that is written the same way -/
def ValStep (S : Schema) (rec : Loader) (f : FieldD) (Rv : Val → Val → Prop) (x : Val) : Prop :=
  ∀ sv, dumpEntryVal S f x = .ok sv → sv.length < 2 ^ 64 →
    ∃ x', EntryStep S rec (entryD f) 1 (entryD f).fields[1]! sv x' ∧ Rv x x' ∧ dumpEntryVal S f x' = .ok sv

theorem encNat_app_ne_nil (n : Nat) (x : Bytes) : encNat n ++ x ≠ [] := by
  intro hc
  exact encNat_ne_nil n (List.append_eq_nil_iff.mp hc).1

/-- map field: one record per entry, each parsed by the nested loader and inserted — as
    the keys are pairwise different — at the end of the dict -/
theorem entries_fold (S : Schema) (n : Nat) (d : MsgD) (k : Nat) (f : FieldD) (Rv : Val → Val → Prop)
    (hd : NumsDistinct d.fields) (hk : d.fields[k]? = some f)
    (hty : f.ty = PType.map) (hkty : isMapKeyType f.mapK = true) (hnum : numOk f.num = true)
    (hg : f.group = Option.none) :
    ∀ (ks vs accK accV : List Val) (st : MState) (b : Bytes), ks.length = vs.length → accK.length = accV.length →
      (∀ x ∈ ks, scalarOk f.mapK x = true) →
      (∀ x ∈ vs, ValStep S (loadInto S n) f Rv x) →
      KeysDistinct (accK ++ ks) →
      dumpEntries S f ks vs = .ok b → b.length < 2 ^ 64 → k < st.slots.length →
      materialize S f (st.slots.getD k .ph) = Val.dict accK accV →
      ∃ pfs vs', (∀ q ∈ pfs, Parsed q) ∧ joinRaw pfs = b ∧ List.Forall₂ Rv vs vs'
        ∧ dumpEntries S f ks vs' = dumpEntries S f ks vs
        ∧ foldFields S (loadInto S (n + 1)) d st pfs
            = .ok (if ks = [] then st
                   else { st with slots := setAt st.slots k (Val.dict (accK ++ ks) (accV ++ vs')) }) := by
  intro ks
  induction ks with
  | nil =>
    intro vs accK accV st b hl _ _ _ _ hb _ _ _
    cases vs with
    | cons _ _ => simp at hl
    | nil =>
      rw [dumpEntries_nil] at hb; injection hb with hb; subst hb
      exact ⟨[], [], fun _ h => by simp at h, rfl, List.Forall₂.nil, rfl, rfl⟩
  | cons key ks ih =>
    intro vs accK accV st b hl hal hkeys hvals hdist hb hbl hkl hcurv
    cases vs with
    | nil => simp at hl
    | cons v vs =>
      have hl' : ks.length = vs.length := by simpa using hl
      have hkey := hkeys key (by simp)
      rw [dumpEntries_cons] at hb
      cases hsk : serializeScalar S 1 f.mapK key false Option.none with
      | error e => rw [hsk] at hb; simp at hb
      | ok sk =>
        rw [hsk] at hb; simp only [bind_ok] at hb
        cases hsv : dumpEntryVal S f v with
        | error e => rw [hsv] at hb; simp at hb
        | ok sv =>
          rw [hsv] at hb; simp only [bind_ok] at hb
          rw [hty, frame_map] at hb
          simp only [bind_ok] at hb
          cases hr : dumpEntries S f ks vs with
          | error e => rw [hr] at hb; simp at hb
          | ok r =>
            rw [hr] at hb; simp only [bind_ok] at hb
            injection hb with hb
            subst hb
            have hpl : (sk ++ sv).length < 2 ^ 64 := by simp only [List.length_append] at hbl ⊢; omega
            have hskl : sk.length < 2 ^ 64 := by simp only [List.length_append] at hpl; omega
            have hsvl : sv.length < 2 ^ 64 := by simp only [List.length_append] at hpl; omega
            have hrl : r.length < 2 ^ 64 := by simp only [List.length_append] at hbl; omega
            -- the two halves of the entry
            have hkstep : EntryStep S (loadInto S n) (entryD f) 0 (entryD f).fields[0]! sk key :=
              entryStep_scalar S _ (entryD f) 0 _ key sk (entry_numsDistinct f) rfl
                ⟨mapKey_scalar _ hkty, rfl, rfl, fun h => by cases h⟩ rfl rfl rfl hkey hsk hskl
            obtain ⟨v', hvstep, hrel, hsv'⟩ := hvals v (by simp) sv hsv hsvl
            obtain ⟨pf, hlf, hn, hraw, hfit, hdec⟩ :=
              map_record_roundtrip S n f (sk ++ sv) [] key v' hty hnum hpl
                (entry_decode S n f sk sv key v' hkstep hvstep)
            -- the key is new
            have hnew : ∀ k' ∈ accK, keyEq k' key = false :=
              fun k' hk' => keysDistinct_append accK (key :: ks) hdist k' hk' key (by simp)
            have happly : applyField S (loadInto S (n + 1)) d st pf
                = .ok { st with slots := setAt st.slots k (Val.dict (accK ++ [key]) (accV ++ [v'])) } := by
              rw [applyField_known_eq S _ d st pf k f hd hk hn hfit, hdec]
              simp only [bind_ok]
              rw [store_map S d st k f accK accV key v' hkl hty hg hcurv,
                dictInsert_append accK accV key v' hal hnew]
            obtain ⟨pfs2, vs2, hp2, hj2, he2, hd2, hf2⟩ :=
              ih vs (accK ++ [key]) (accV ++ [v'])
                { st with slots := setAt st.slots k (Val.dict (accK ++ [key]) (accV ++ [v'])) } r
                hl' (by simp [hal]) (fun y hy => hkeys y (by simp [hy])) (fun y hy => hvals y (by simp [hy]))
                (by rw [List.append_assoc]; exact hdist) hr hrl (by simp [setAt]; exact hkl)
                (by simp only; rw [getD_setAt_self _ _ _ hkl]; rfl)
            refine ⟨pf :: pfs2, v' :: vs2, ?_, ?_, List.Forall₂.cons hrel he2, ?_, ?_⟩
            · intro q hq; simp at hq; rcases hq with hq | hq
              · subst hq; exact ⟨_, _, hlf⟩
              · exact hp2 q hq
            · simp [joinRaw, hraw, hj2]
            · rw [dumpEntries_cons, dumpEntries_cons, hsv, hsv', hd2]
            · rw [foldFields, happly]; simp only [bind_ok]
              rw [hf2]
              simp only [List.cons_ne_nil, if_false]
              by_cases hxs : ks = []
              · subst hxs
                cases vs with
                | cons _ _ => simp at hl'
                | nil => cases he2; simp
              · simp only [hxs, if_false, setAt_setAt, List.append_assoc, List.singleton_append]

/-! ### the slot -/

theorem map_defKind (f : FieldD) (hty : f.ty = PType.map) (hr : f.repeated = false) : f.defKind = DefKind.dict := by
  unfold FieldD.defKind
  rw [hr, hty]; rfl

/-- a map slot is emitted entry by entry (nothing for the empty dict) -/
theorem dumpSlot_map (S : Schema) (f : FieldD) (ks vs : List Val) (hty : f.ty = PType.map)
    (hr : f.repeated = false) (ho : f.optional = false) (hg : f.group = Option.none) :
    dumpSlot S f false false (.dict ks vs) = if ks.isEmpty = true then .ok [] else dumpEntries S f ks vs := by
  have hed : eqDefault S .dict (.dict ks vs) = ks.isEmpty := by rw [eqDefault]; simp
  rw [dumpSlot]
  simp only [Bool.false_eq_true, if_false, hg, ho, Option.isSome_none, Bool.or_self, Bool.not_false,
    Bool.and_true, map_defKind f hty hr, hed]

theorem forall₂_eq (xs ys : List Val) (h : List.Forall₂ (fun a b => a = b) xs ys) : xs = ys := by
  induction h with
  | nil => rfl
  | cons h1 _ ih => rw [h1, ih]

/-- the slot step of a map field, for any way `ValStep` the values are decoded -/
theorem slotStep_map_gen (S : Schema) (n : Nat) (d : MsgD) (k : Nat) (f : FieldD) (sel : Bool) (ks vs : List Val)
    (Rv : Val → Val → Prop) (R : FieldD → Val → Val → Prop)
    (hd : NumsDistinct d.fields) (hk : d.fields[k]? = some f)
    (hty : f.ty = PType.map) (hkty : isMapKeyType f.mapK = true) (hnum : numOk f.num = true)
    (hr : f.repeated = false) (ho : f.optional = false) (hg : f.group = Option.none)
    (hlen : ks.length = vs.length) (hks : ∀ x ∈ ks, scalarOk f.mapK x = true)
    (hvals : ∀ x ∈ vs, ValStep S (loadInto S n) f Rv x)
    (hdist : KeysDistinct ks) (hsel : sel = false)
    (hR : ∀ vs', List.Forall₂ Rv vs vs' → R f (.dict ks vs) (.dict ks vs')) :
    SlotStep S (loadInto S (n + 1)) d R k f false sel (.dict ks vs) := by
  intro st b hb0 hbl hkl how hfresh hpre
  have hb := hb0
  subst hsel
  have hfr : st.slots.getD k .ph = Val.ph := by rw [hfresh]; simp [freshVal, ho]
  have hmat : materialize S f (st.slots.getD k .ph) = Val.dict [] [] := by
    rw [hfr]; simp [materialize, defaultOf, map_defKind f hty hr, defaultOfKind]
  rw [dumpSlot_map S f ks vs hty hr ho hg] at hb
  by_cases hbe : b = []
  · exact ⟨[], .dict ks vs, fun _ h => by simp at h, by simp [joinRaw, hbe], fun h => absurd hbe h, by rw [if_pos hbe]; rfl⟩
  · have hxe : ks ≠ [] := by
      intro hc; subst hc; rw [if_pos (by rfl)] at hb; injection hb with hb; exact hbe hb.symm
    have hxe' : ks.isEmpty = false := by cases ks <;> simp_all
    rw [if_neg (by rw [hxe']; decide)] at hb
    obtain ⟨pfs, vs', hp1, hj1, he1, hd1, hf1⟩ :=
      entries_fold S n d k f Rv hd hk hty hkty hnum hg ks vs [] [] st b hlen rfl hks hvals
        (by simpa using hdist) hb hbl hkl hmat
    refine ⟨pfs, .dict ks vs', hp1, hj1, fun _ => ⟨hR vs' he1, ?_⟩, ?_⟩
    · rw [dumpSlot_map S f ks vs' hty hr ho hg, if_neg (by rw [hxe']; decide), hd1, hb]
    · rw [if_neg hbe, hf1]
      simp only [hxe, if_false, List.nil_append]
      simp [afterStore, hg, how]

/-- a scalar map value: its half of the entry is a scalar record (or nothing, for an empty
    string / bytes), which decodes to the value itself -/
theorem valStep_scalar (S : Schema) (rec : Loader) (f : FieldD) (x : Val)
    (hvty : isScalarType f.mapV = true) (hx : scalarOk f.mapV x = true) :
    ValStep S rec f (fun a b => a = b) x := by
  intro sv hsv hsvl
  obtain ⟨_, hnm⟩ := scalarOk_plain f.mapV x hx
  have hde : dumpEntryVal S f x = serializeScalar S 2 f.mapV x false Option.none := by
    cases x <;> first | rfl | (simp [isMsgVal] at hnm)
  rw [hde] at hsv
  refine ⟨x, ?_, rfl, by rw [hde]; exact hsv⟩
  exact entryStep_scalar S rec (entryD f) 1 _ x sv (entry_numsDistinct f) rfl
    ⟨hvty, rfl, rfl, fun h => by cases h⟩ rfl rfl rfl hx hsv hsvl

/-- **a map slot with scalar values**: one length-delimited record per entry, each parsed
    by the nested loader and inserted into the dict; the dict comes back exactly -/
theorem slotStep_mapS (S : Schema) (n : Nat) (d : MsgD) (k : Nat) (f : FieldD) (sel : Bool) (ks vs : List Val)
    (hd : NumsDistinct d.fields) (hk : d.fields[k]? = some f) (hmf : MapFieldS f)
    (hlen : ks.length = vs.length) (hks : ∀ x ∈ ks, scalarOk f.mapK x = true) (hvs : ∀ x ∈ vs, scalarOk f.mapV x = true)
    (hdist : KeysDistinct ks) (hsel : sel = false)
    (R : FieldD → Val → Val → Prop) (hR : ∀ f v, R f v v) :
    SlotStep S (loadInto S (n + 1)) d R k f false sel (.dict ks vs) :=
  slotStep_map_gen S n d k f sel ks vs (fun a b => a = b) R hd hk hmf.ty hmf.kty hmf.num hmf.rep hmf.opt hmf.grp
    hlen hks (fun x hx => valStep_scalar S _ f x hmf.vty (hvs x hx)) hdist hsel
    (fun vs' h => by rw [← forall₂_eq vs vs' h]; exact hR f _)

/-! ### message-typed map values -/

/-- field #2 of the entry class (`(entryD f).fields[1]!`, by `rfl`) -/
def entryValF (f : FieldD) : FieldD :=
  { name := "value", num := 2, ty := f.mapV, kind := f.mapVKind, enumRef := f.enumRef }

theorem entry_value_sub (f : FieldD) (c : Nat) (hvty : f.mapV = PType.message) (hvk : f.mapVKind = MsgKind.user c) :
    SubField (entryValF f) c :=
  ⟨hvty, rfl, hvk, rfl, fun h => by cases h⟩

/-- the value half of an entry holding a message: nothing if the message encodes to
    nothing (`serialize_empty` is false), else tag #2, length, payload -/
theorem dumpEntryVal_msg (S : Schema) (f : FieldD) (x : Val) (hvty : f.mapV = PType.message)
    (hx : ∃ c sl ow unk cur, x = Val.msg c sl ow unk cur) :
    dumpEntryVal S f x = (dumpVal S x).bind fun p =>
      if (p.length != 0) = true then .ok (encNat (2 * 8 + 2) ++ encNat p.length ++ p) else .ok [] := by
  obtain ⟨c, sl, ow, unk, cur, rfl⟩ := hx
  rw [dumpEntryVal, dumpVal_msg]
  cases dumpSlots S (fieldsOf S c) cur 0 sl with
  | error e => rfl
  | ok body =>
    simp only [bind_ok]
    rw [hvty, if_pos (by decide), frame_len _ _ _ _ _ lenT_message]
    simp only [Bool.or_false]

/-- a message map value: its half of the entry is a length-delimited record, decoded by
    the nested loader (`RoundTrips`) — or nothing at all, when the message encodes to no
    byte, and then the entry reads back as a FRESH instance of the class (the default
    materialised in the unset value slot, `serialized_on_wire` false) -/
theorem valStep_msg (S : Schema) (rec : Loader) (f : FieldD) (c : Nat) (dc : MsgD) (x : Val) (Rv : Val → Val → Prop)
    (hvty : f.mapV = PType.message) (hvk : f.mapVKind = MsgKind.user c) (hdc : S[c]? = some dc)
    (hx : ∃ sl ow unk cur, x = Val.msg c sl ow unk cur) (hrt : RoundTrips S rec x)
    (hRv1 : ∀ x', ValEqv S x x' → Rv x x') (hRv0 : dumpVal S x = .ok [] → Rv x (fresh S c)) :
    ValStep S rec f Rv x := by
  obtain ⟨sl, ow, unk, cur, rfl⟩ := hx
  have hsf := entry_value_sub f c hvty hvk
  intro sv hsv hsvl
  rw [dumpEntryVal_msg S f _ hvty ⟨_, _, _, _, _, rfl⟩] at hsv
  cases hp : dumpVal S (.msg c sl ow unk cur) with
  | error e => rw [hp] at hsv; simp at hsv
  | ok p =>
    rw [hp] at hsv; simp only [bind_ok] at hsv
    by_cases hpe : p = []
    · -- nothing is written
      subst hpe
      rw [if_neg (by decide)] at hsv
      injection hsv with hsv; subst hsv
      refine ⟨fresh S c, ?_, hRv0 hp, ?_⟩
      · intro st _ hfr
        refine ⟨[], st, fun _ h => by simp at h, rfl, rfl, ?_, rfl, fun _ _ => rfl⟩
        rw [hfr]
        show defaultOfKind S (entryValF f).defKind = fresh S c
        rw [sub_defKind _ c hsf rfl]
        rfl
      · rw [dumpEntryVal_msg S f (fresh S c) hvty ⟨_, _, _, _, _, rfl⟩, dump_fresh]
        rfl
    · -- a record
      have hpl0 : (p.length != 0) = true := by cases p <;> simp_all
      rw [if_pos hpl0] at hsv
      injection hsv with hsv; subst hsv
      have hpl : p.length < 2 ^ 64 := by simp only [List.length_append] at hsvl; omega
      obtain ⟨sl', hrec, heqv, hdump'⟩ := hrt c dc sl ow unk cur p rfl hdc hp
      refine ⟨.msg c sl' true unk cur, ?_, hRv1 _ heqv, ?_⟩
      · intro st hil hfr
        have hl := loadField_len 2 p (by decide) hpl []
        have happly : applyField S rec (entryD f) st
            { num := 2, wt := 2, vint := 0, payload := p, raw := encNat (2 * 8 + 2) ++ encNat p.length ++ p }
            = .ok (afterStore st 1 (entryValF f) (.msg c sl' true unk cur)) := by
          rw [applyField_known_eq S rec (entryD f) st _ 1 (entryValF f) (entry_numsDistinct f) rfl rfl
            (wireFits_of (entryValF f) 2 (by rw [hsf.ty]; rfl)),
            decodeValue_len S rec (entryValF f) _ rfl (by rw [hsf.ty]; rfl) (sub_notmap _ c hsf)]
          simp only
          rw [postLen_sub S rec (entryValF f) c dc _ hsf hdc, hrec]
          simp only [bind_ok]
          exact store_singular_msg S (entryD f) st 1 (entryValF f) c sl' unk cur rfl hil hsf rfl
            (by rw [hfr]; rfl) (fun g hgg => by cases hgg) (fun g hgg => by cases hgg)
        refine ⟨[_], _, ?_, ?_, by rw [foldFields, happly]; rfl, ?_, ?_, ?_⟩
        · intro q hq; simp at hq; subst hq; exact ⟨_, _, hl⟩
        · simp [joinRaw]
        · simp only [afterStore]
          rw [getD_setAt_self _ _ _ hil]
          rfl
        · simp [afterStore, setAt]
        · intro j hj
          simp only [afterStore]
          exact getD_setAt_other _ _ _ _ hj
      · rw [dumpEntryVal_msg S f _ hvty ⟨_, _, _, _, _, rfl⟩, hdump']
        simp only [bind_ok]
        rw [if_pos hpl0]

theorem listEqv_of_forall₂ (S : Schema) (xs ys : List Val) (h : List.Forall₂ (fun a b => ValEqv S a b) xs ys) :
    ListEqv S xs ys := by
  induction h with
  | nil => exact ListEqv.nil
  | cons h1 _ ih => exact ListEqv.cons _ _ _ _ h1 ih

/-- **a map slot with message values**.  SIDE CONDITION `hne`: a value whose encoding is
    empty must be exactly the fresh instance — the entry of such a value carries no value
    record, and the decoder materialises `fresh S c` (`serialized_on_wire` FALSE), which
    `ValEqv` relates to nothing but itself.  See the counterexample below. -/
theorem slotStep_mapM (S : Schema) (n : Nat) (d : MsgD) (k : Nat) (f : FieldD) (c : Nat) (dc : MsgD) (sel : Bool)
    (ks vs : List Val)
    (hd : NumsDistinct d.fields) (hk : d.fields[k]? = some f) (hmf : MapFieldM f c) (hdc : S[c]? = some dc)
    (hlen : ks.length = vs.length) (hks : ∀ x ∈ ks, scalarOk f.mapK x = true)
    (hinner : ∀ x ∈ vs, (∃ sl ow unk cur, x = Val.msg c sl ow unk cur) ∧ RoundTrips S (loadInto S n) x)
    (hne : ∀ x ∈ vs, dumpVal S x = .ok [] → x = fresh S c)
    (hdist : KeysDistinct ks) (hsel : sel = false) :
    SlotStep S (loadInto S (n + 1)) d (fun _ v v' => ValEqv S v v') k f false sel (.dict ks vs) :=
  slotStep_map_gen S n d k f sel ks vs (fun a b => ValEqv S a b) _ hd hk hmf.ty hmf.kty hmf.num hmf.rep hmf.opt hmf.grp
    hlen hks
    (fun x hx => valStep_msg S _ f c dc x _ hmf.vty hmf.vk hdc (hinner x hx).1 (hinner x hx).2
      (fun _ h => h) (fun he => by rw [← hne x hx he]; exact ValEqv.refl x))
    hdist hsel
    (fun vs' h => ValEqv.dict ks vs vs' (listEqv_of_forall₂ S vs vs' h))

/-! ### the same without side condition, for a weaker relation on the values

  `ValEqv` cannot relate a message that encodes to nothing to the fresh default the map
  decoder puts in its place (unless it IS that default).  With the relation extended by
  exactly this case the step holds for every dict. -/

/-- a map value and its decoded copy: equivalent, or — when the original encodes to no
    byte, so that the entry carries no value record — the fresh default of the class -/
def MapValEqv (S : Schema) (c : Nat) (x x' : Val) : Prop :=
  ValEqv S x x' ∨ (dumpVal S x = .ok [] ∧ x' = fresh S c)

/-- same keys, values related by `MapValEqv` -/
def MapDictEqv (S : Schema) (c : Nat) (v v' : Val) : Prop :=
  ∃ ks vs vs', v = Val.dict ks vs ∧ v' = Val.dict ks vs' ∧ List.Forall₂ (MapValEqv S c) vs vs'

theorem slotStep_mapM_weak (S : Schema) (n : Nat) (d : MsgD) (k : Nat) (f : FieldD) (c : Nat) (dc : MsgD) (sel : Bool)
    (ks vs : List Val)
    (hd : NumsDistinct d.fields) (hk : d.fields[k]? = some f) (hmf : MapFieldM f c) (hdc : S[c]? = some dc)
    (hlen : ks.length = vs.length) (hks : ∀ x ∈ ks, scalarOk f.mapK x = true)
    (hinner : ∀ x ∈ vs, (∃ sl ow unk cur, x = Val.msg c sl ow unk cur) ∧ RoundTrips S (loadInto S n) x)
    (hdist : KeysDistinct ks) (hsel : sel = false) :
    SlotStep S (loadInto S (n + 1)) d (fun _ v v' => MapDictEqv S c v v') k f false sel (.dict ks vs) :=
  slotStep_map_gen S n d k f sel ks vs (MapValEqv S c) _ hd hk hmf.ty hmf.kty hmf.num hmf.rep hmf.opt hmf.grp
    hlen hks
    (fun x hx => valStep_msg S _ f c dc x _ hmf.vty hmf.vk hdc (hinner x hx).1 (hinner x hx).2
      (fun _ h => Or.inl h) (fun he => Or.inr ⟨he, rfl⟩))
    hdist hsel
    (fun vs' h => ⟨ks, vs, vs', rfl, rfl, h⟩)

/-! ### the side condition of `slotStep_mapM`, decidably -/

/-- raw slots of a fresh instance -/
def slotsFreshB : List FieldD → List Val → Bool
  | [], [] => true
  | f :: fs, .none :: vs => f.optional && slotsFreshB fs vs
  | f :: fs, .ph :: vs => !f.optional && slotsFreshB fs vs
  | _, _ => false

/-- `x` is exactly `fresh S c` -/
def isFreshB (S : Schema) (c : Nat) : Val → Bool
  | .msg c' sl ow unk cur =>
    c' == c && !ow && unk.isEmpty && cur == List.replicate (groupsOf S c) Option.none && slotsFreshB (fieldsOf S c) sl
  | _ => false

/-- the values `slotStep_mapM` covers: non-empty encoding, or exactly the fresh instance -/
def mapValOkB (S : Schema) (c : Nat) (x : Val) : Bool :=
  (match dumpVal S x with
   | .ok [] => false
   | _ => true) || isFreshB S c x

theorem slotsFreshB_eq : ∀ (fs : List FieldD) (vs : List Val), slotsFreshB fs vs = true →
    vs = fs.map fun f => if f.optional then Val.none else Val.ph
  | [], [], _ => rfl
  | [], _ :: _, h => by simp [slotsFreshB] at h
  | _ :: _, [], h => by simp [slotsFreshB] at h
  | f :: fs, v :: vs, h => by
    cases v <;> simp [slotsFreshB] at h
    · rw [List.map_cons, h.1, slotsFreshB_eq fs vs h.2]; rfl
    · rw [List.map_cons, h.1, slotsFreshB_eq fs vs h.2]; rfl

theorem isFreshB_eq (S : Schema) (c : Nat) (x : Val) (h : isFreshB S c x = true) : x = fresh S c := by
  cases x <;> simp [isFreshB] at h
  obtain ⟨⟨⟨⟨h1, h2⟩, h3⟩, h4⟩, h5⟩ := h
  subst h1; subst h2; subst h3; subst h4
  rw [slotsFreshB_eq _ _ h5]
  rfl

theorem mapValOkB_spec (S : Schema) (c : Nat) (x : Val) (h : mapValOkB S c x = true)
    (he : dumpVal S x = .ok []) : x = fresh S c := by
  unfold mapValOkB at h
  rw [he] at h
  exact isFreshB_eq S c x (by simpa using h)

/-! ### examples: non-vacuity, and the counterexample behind the side condition

  (`Val` has no decidable equality, so equalities between values are closed by `rfl` —
  the same kernel evaluation `decide` performs; Bool / byte-string facts by `decide`.) -/

/-- class 0: one int32; class 1: `map<int32, Class0> m = 1; map<string, float> s = 2` -/
def SMap : Schema :=
  [ { fields := [{ name := "i", num := 1, ty := .int32 }] },
    { fields := [{ name := "m", num := 1, ty := .map, mapK := .int32, mapV := .message, mapVKind := .user 0 },
                 { name := "s", num := 2, ty := .map, mapK := .string, mapV := .float }] } ]

example : MapFieldM (SMap[1]!.fields[0]!) 0 := ⟨rfl, rfl, rfl, rfl, rfl, rfl, rfl, rfl, rfl⟩
example : MapFieldS (SMap[1]!.fields[1]!) := ⟨rfl, rfl, rfl, rfl, rfl, rfl, rfl, rfl⟩

/-- scalar values come back bit for bit: the empty-string key (not written, read back as
    the default), the value `-0.0` (no default check inside an entry: it IS written) -/
def mS : Val := .msg 1 [.ph, .dict [.str [], .str [97]] [.f32 0x80000000, .f32 0]] false [] []
example : dumpVal SMap mS = .ok [18, 5, 21, 0, 0, 0, 128, 18, 8, 10, 1, 97, 21, 0, 0, 0, 0] := by decide
example : parse SMap 1 [18, 5, 21, 0, 0, 0, 128, 18, 8, 10, 1, 97, 21, 0, 0, 0, 0]
    = .ok (.msg 1 [.ph, .dict [.str [], .str [97]] [.f32 0x80000000, .f32 0]] true [] []) := by rfl

/-- a message value with a non-empty encoding comes back with `serialized_on_wire` set -/
def mM1 : Val := .msg 1 [.dict [.int 7] [.msg 0 [.int 5] false [] []], .ph] false [] []
example : dumpVal SMap mM1 = .ok [10, 6, 8, 7, 18, 2, 8, 5] := by decide
example : parse SMap 1 [10, 6, 8, 7, 18, 2, 8, 5]
    = .ok (.msg 1 [.dict [.int 7] [.msg 0 [.int 5] true [] []], .ph] true [] []) := by rfl
example : mapValOkB SMap 0 (.msg 0 [.int 5] false [] []) = true := by decide
example : mapValOkB SMap 0 (fresh SMap 0) = true := by decide

/-- COUNTEREXAMPLE: a map value that encodes to nothing but is not the fresh instance —
    here an instance marked `serialized_on_wire` (e.g. one that was itself parsed from
    empty input); likewise `.msg 0 [.int 0] false [] []` (field set to its default).  The
    entry carries the key only; the decoder materialises a fresh `Class0()` whose
    `serialized_on_wire` is FALSE. `ValEqv` relates the two through its constructor
    `emptyMsg` (added for exactly this case: no observable of the property tells them apart). -/
def xBad : Val := .msg 0 [.ph] true [] []
def mBad : Val := .msg 1 [.dict [.int 7] [xBad], .ph] false [] []
example : mapValOkB SMap 0 xBad = false := by decide
example : mapValOkB SMap 0 (.msg 0 [.int 0] false [] []) = false := by decide
example : dumpVal SMap xBad = .ok [] := by decide
example : dumpVal SMap mBad = .ok [10, 2, 8, 7] := by decide
example : parse SMap 1 [10, 2, 8, 7] = .ok (.msg 1 [.dict [.int 7] [.msg 0 [.ph] false [] []], .ph] true [] []) := by rfl
/-- the decoded map value is not `serialized_on_wire` (by `decide`, on a projection) -/
def firstMapValOnWire : Val → Option Bool
  | .msg _ (.dict _ (x :: _) :: _) _ _ _ => some (onWireOf x)
  | _ => Option.none
example : ((dumpVal SMap mBad).bind (parse SMap 1)).map firstMapValOnWire = .ok (some false) := by decide
example : fresh SMap 0 = .msg 0 [.ph] false [] [] := rfl
/-- … while the weaker relation holds, and the re-encoding is the same -/
example : MapValEqv SMap 0 xBad (.msg 0 [.ph] false [] []) := Or.inr ⟨by decide, rfl⟩
example : dumpVal SMap (.msg 1 [.dict [.int 7] [.msg 0 [.ph] false [] []], .ph] true [] []) = .ok [10, 2, 8, 7] := by decide

end Bp

#print axioms Bp.entries_fold
#print axioms Bp.slotStep_map_gen
#print axioms Bp.slotStep_mapS
#print axioms Bp.slotStep_mapM
#print axioms Bp.slotStep_mapM_weak
#print axioms Bp.mapValOkB_spec
#print axioms Bp.keysDistinct_of_nodup
