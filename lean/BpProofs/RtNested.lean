import BpModel.All
import BpProofs.NestedDefs
import BpProofs.RtSub
import BpProofs.RtSubs
import BpProofs.Props.C06
/-
  C01, nested / recursive messages: the round trip for every well-typed message value
  (`MsgOk`), by induction on the nesting fuel of the decoder — the fuel `parse` uses is
  the length of the input, and the payload of a nested record is strictly shorter than
  the record, so the induction hypothesis covers every nested message.
-/
namespace Bp
open Gen

/-! ### inversion of the well-typedness predicates -/

theorem slotsOk_len (S : Schema) : ∀ (fs : List FieldD) (vs : List Val), SlotsOk S fs vs → vs.length = fs.length
  | [], _, h => by cases h; rfl
  | _ :: fs, _, h => by
    cases h with
    | cons _ v _ vs h1 h2 => simp [slotsOk_len S fs vs h2]

theorem slotsOk_get (S : Schema) : ∀ (fs : List FieldD) (vs : List Val), SlotsOk S fs vs →
    ∀ (i : Nat) (f : FieldD) (v : Val), fs[i]? = some f → vs[i]? = some v → SlotOk S f v
  | [], _, h => by cases h; intro i f v hf; simp at hf
  | _ :: fs, _, h => by
    cases h with
    | cons f0 v0 _ vs h1 h2 =>
      intro i f v hf hv
      cases i with
      | zero => simp at hf hv; subst hf; subst hv; exact h1
      | succ i => simp at hf hv; exact slotsOk_get S fs vs h2 i f v hf hv

theorem msgsOk_mem (S : Schema) (c : Nat) : ∀ (xs : List Val), MsgsOk S c xs →
    ∀ x ∈ xs, (∃ sl ow unk cur, x = Val.msg c sl ow unk cur) ∧ MsgOk S x
  | [], _ => by intro x hx; simp at hx
  | _ :: xs, h => by
    cases h with
    | cons _ sl ow unk cur _ h1 h2 =>
      intro x hx
      rcases List.mem_cons.mp hx with hx | hx
      · subst hx; exact ⟨⟨sl, ow, unk, cur, rfl⟩, h1⟩
      · exact msgsOk_mem S c xs h2 x hx

/-! ### the bytes of one slot are part of the bytes of the message -/

theorem dumpSlots_slot_le (S : Schema) (fs : List FieldD) (cur : List (Option Nat)) :
    ∀ (vs : List Val) (k0 : Nat) (out : Bytes), dumpSlots S fs cur k0 vs = .ok out →
      ∀ (j : Nat) (f : FieldD) (v : Val), fs[k0 + j]? = some f → vs[j]? = some v →
        ∃ b, dumpSlot S f (hidden f (k0 + j) cur) (selectedInGroup f (k0 + j) cur) v = .ok b ∧ b.length ≤ out.length := by
  intro vs
  induction vs with
  | nil => intro k0 out _ j f v _ hv; simp at hv
  | cons v0 vs ih =>
    intro k0 out h j f v hf hv
    rw [dumpSlots] at h
    cases hf0 : fs[k0]? with
    | none =>
      have : fs[k0 + j]? = Option.none := by
        rw [List.getElem?_eq_none_iff] at hf0 ⊢; omega
      rw [this] at hf; simp at hf
    | some f0 =>
      rw [hf0] at h
      simp only at h
      cases ha : dumpSlot S f0 (hidden f0 k0 cur) (selectedInGroup f0 k0 cur) v0 with
      | error e => rw [ha] at h; simp at h
      | ok a =>
        rw [ha] at h; simp only [bind_ok] at h
        cases hb : dumpSlots S fs cur (k0 + 1) vs with
        | error e => rw [hb] at h; simp at h
        | ok r =>
          rw [hb] at h; simp only [bind_ok] at h
          injection h with h; subst h
          cases j with
          | zero =>
            simp at hf hv; subst hv
            rw [hf0] at hf; injection hf with hf; subst hf
            exact ⟨a, ha, by simp⟩
          | succ j =>
            simp only [List.getElem?_cons_succ] at hv
            obtain ⟨b, h1, h2⟩ := ih (k0 + 1) r hb j f v (by rw [← hf]; congr 1; omega) hv
            have e : k0 + 1 + j = k0 + (j + 1) := by omega
            rw [e] at h1
            exact ⟨b, h1, by simp; omega⟩

/-- the payload of an emitted message-typed record is strictly shorter than the record -/
theorem sub_payload_lt (S : Schema) (f : FieldD) (c : Nat) (hid sel : Bool) (sl : List Val) (ow : Bool)
    (unk : Bytes) (cur : List (Option Nat)) (b : Bytes) (hsf : SubField f c)
    (h : dumpSlot S f hid sel (.msg c sl ow unk cur) = .ok b) (hne : b ≠ []) :
    ∃ p, dumpVal S (.msg c sl ow unk cur) = .ok p ∧ p.length < b.length := by
  rw [dumpSlot_sub S f c hid sel sl ow unk cur hsf] at h
  by_cases hh : hid = true
  · rw [if_pos hh] at h; injection h with h; exact absurd h.symm hne
  · rw [if_neg hh] at h
    split at h
    · injection h with h; exact absurd h.symm hne
    · rw [dumpVal_msg]
      cases hb : dumpSlots S (fieldsOf S c) cur 0 sl with
      | error e => rw [hb] at h; simp at h
      | ok body =>
        rw [hb] at h; simp only [bind_ok] at h ⊢
        split at h
        · injection h with h; subst h
          refine ⟨body ++ unk, rfl, ?_⟩
          have := encNat_ne_nil (f.num * 8 + 2)
          cases he : encNat (f.num * 8 + 2) with
          | nil => exact absurd he this
          | cons a as => simp; omega
        · injection h with h; exact absurd h.symm hne

/-- the payload of every item of a repeated message field is strictly shorter than the
    bytes of the field -/
theorem subs_payload_lt (S : Schema) (f : FieldD) (c : Nat) (hty : f.ty = PType.message) (hnw : f.wraps = Option.none) :
    ∀ (xs : List Val) (b : Bytes), (∀ x ∈ xs, ∃ sl ow unk cur, x = Val.msg c sl ow unk cur) →
      dumpItems S f xs = .ok b → ∀ x ∈ xs, ∃ p, dumpVal S x = .ok p ∧ p.length < b.length := by
  intro xs
  induction xs with
  | nil => intro b _ _ x hx; simp at hx
  | cons x0 xs ih =>
    intro b hall h x hx
    obtain ⟨sl, ow, unk, cur, hx0⟩ := hall x0 (by simp)
    subst hx0
    rw [dumpItems_msg S f c sl ow unk cur xs hty hnw] at h
    cases hp : dumpVal S (.msg c sl ow unk cur) with
    | error e => rw [hp] at h; simp at h
    | ok p =>
      rw [hp] at h; simp only [bind_ok] at h
      cases hr : dumpItems S f xs with
      | error e => rw [hr] at h; simp at h
      | ok r =>
        rw [hr] at h; simp only [bind_ok] at h
        injection h with h; subst h
        rcases List.mem_cons.mp hx with hx | hx
        · subst hx
          refine ⟨p, hp, ?_⟩
          have := encNat_ne_nil (f.num * 8 + 2)
          cases he : encNat (f.num * 8 + 2) with
          | nil => exact absurd he this
          | cons a as => simp; omega
        · obtain ⟨q, hq, hlt⟩ := ih r (fun y hy => hall y (by simp [hy])) hr x hx
          exact ⟨q, hq, by simp; omega⟩

/-! ### steps for flat slots and for unset message-typed slots -/

/-- a selected, set, well-typed scalar member always emits at least its tag -/
theorem flat_selected_emits (S : Schema) (f : FieldD) (v : Val) (b : Bytes)
    (hg : f.group.isSome = true) (hv : scalarOk f.ty v = true)
    (h : dumpSlot S f false true v = .ok b) : b ≠ [] := by
  obtain ⟨hpl, _⟩ := scalarOk_plain f.ty v hv
  obtain ⟨wt, rest, _, e⟩ := C06.explicit_emitted S f true v b hpl (Or.inr (Or.inl ⟨hg, rfl⟩)) h
  intro hc; rw [hc] at e
  have := encNat_ne_nil (f.num * 8 + wt)
  cases hh : encNat (f.num * 8 + wt) with
  | nil => exact this hh
  | cons a as => rw [hh] at e; simp at e

/-- the value of a set, non-optional oneof member of scalar type is a well-typed scalar -/
theorem flat_member_scalar (f : FieldD) (v : Val) (g : Nat) (hff : FlatField f) (hok : flatSlotOk f v = true)
    (hne : v ≠ Val.ph) (hgo : f.optional = false) (hg : f.group = some g) : scalarOk f.ty v = true := by
  cases v with
  | ph => exact absurd rfl hne
  | none => simp [flatSlotOk, hgo] at hok
  | list xs =>
    simp [flatSlotOk] at hok
    have := (hff.rep hok.1).2; rw [hg] at this; simp at this
  | _ => simp [flatSlotOk] at hok; exact hok.2

/-- an unset (PLACEHOLDER) slot of a field without explicit presence emits nothing -/
theorem ph_emits_nothing (S : Schema) (f : FieldD) (k : Nat) (cur : List (Option Nat)) (b : Bytes)
    (ho : f.optional = false)
    (hsel : ∀ g, f.group = some g → cur.getD g Option.none ≠ some k)
    (hb : dumpSlot S f (hidden f k cur) (selectedInGroup f k cur) Val.ph = .ok b) : b = [] := by
  rw [dumpSlot] at hb
  by_cases hh : hidden f k cur = true
  · rw [if_pos hh] at hb; injection hb with hb; exact hb.symm
  · rw [if_neg hh] at hb
    have hh' : hidden f k cur = false := by simpa using hh
    cases hg : f.group with
    | some g => exact absurd (selected_of_not_hidden f k g cur hg hh') (hsel g hg)
    | none =>
      have hs : selectedInGroup f k cur = false := by unfold selectedInGroup; rw [hg]
      rw [hs] at hb
      unfold dumpDefault at hb
      simp only [hg, ho, Option.isSome_none, Bool.or_self, Bool.false_eq_true] at hb
      cases hk : f.defKind <;> rw [hk] at hb <;> simp at hb <;> first | exact hb.symm | exact hb

/-- a slot that emits nothing is a (trivial) step -/
theorem slotStep_empty (S : Schema) (rec : Loader) (d : MsgD) (R : FieldD → Val → Val → Prop) (k : Nat) (f : FieldD)
    (hid sel : Bool) (v : Val) (h : ∀ b, dumpSlot S f hid sel v = .ok b → b = []) :
    SlotStep S rec d R k f hid sel v := by
  intro st b hb _ _ _ _ _
  have hbe := h b hb
  exact ⟨[], v, fun _ h => by simp at h, by simp [joinRaw, hbe], fun h => absurd hbe h, by rw [if_pos hbe]; rfl⟩

/-- every well-typed value of a flat field is a step (with any reflexive relation) -/
theorem slotStep_flat (S : Schema) (rec : Loader) (d : MsgD) (k : Nat) (f : FieldD) (cur : List (Option Nat)) (v : Val)
    (hdist : NumsDistinct d.fields) (hf : d.fields[k]? = some f) (hff : FlatField f) (hok : flatSlotOk f v = true)
    (hsel : v = Val.ph → ∀ g, f.group = some g → cur.getD g Option.none ≠ some k)
    (R : FieldD → Val → Val → Prop) (hR : ∀ f v, R f v v) :
    SlotStep S rec d R k f (hidden f k cur) (selectedInGroup f k cur) v := by
  cases v with
  | ph =>
    apply slotStep_empty
    intro b hb
    exact ph_emits_nothing S f k cur b (by simpa [flatSlotOk] using hok) (hsel rfl) hb
  | none =>
    apply slotStep_empty
    intro b hb
    rw [dumpSlot] at hb; injection hb with hb; exact hb.symm
  | list xs =>
    simp [flatSlotOk] at hok
    obtain ⟨_, hg⟩ := hff.rep hok.1
    have hh : hidden f k cur = false := by unfold hidden; rw [hg]
    have hs : selectedInGroup f k cur = false := by unfold selectedInGroup; rw [hg]
    rw [hh]
    exact slotStep_repeated S _ d k f _ xs hdist hf hff hok.1 (fun x hx => hok.2 x hx) hs _ hR
  | int i => simp [flatSlotOk] at hok; exact slotStep_scalar S _ d k f _ _ _ hdist hf hff hok.1 hok.2 _ hR
  | bool b => simp [flatSlotOk] at hok; exact slotStep_scalar S _ d k f _ _ _ hdist hf hff hok.1 hok.2 _ hR
  | f32 b => simp [flatSlotOk] at hok; exact slotStep_scalar S _ d k f _ _ _ hdist hf hff hok.1 hok.2 _ hR
  | f64 b => simp [flatSlotOk] at hok; exact slotStep_scalar S _ d k f _ _ _ hdist hf hff hok.1 hok.2 _ hR
  | str s => simp [flatSlotOk] at hok; exact slotStep_scalar S _ d k f _ _ _ hdist hf hff hok.1 hok.2 _ hR
  | byt s => simp [flatSlotOk] at hok; exact slotStep_scalar S _ d k f _ _ _ hdist hf hff hok.1 hok.2 _ hR
  | ts us => simp [flatSlotOk, scalarOk] at hok
  | dur us => simp [flatSlotOk, scalarOk] at hok
  | dict ks vs => simp [flatSlotOk, scalarOk] at hok
  | msg c' sl' ow' unk' cur' => simp [flatSlotOk, scalarOk] at hok

end Bp
