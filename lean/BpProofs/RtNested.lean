import BpModel.All
import BpProofs.NestedDefs
import BpProofs.RtSub
import BpProofs.RtSubs
import BpProofs.Props.C06
/-
  C01, nested / recursive messages: the round trip for every well-typed message value
  (`MsgOk`), by induction on the nesting fuel of the decoder — the fuel `parse` uses is
  the length of the input, and the payload of a nested record is strictly shorter than
  the record, so the induction hypothesis covers every nested message.
-/
namespace Bp
open Gen

/-! ### inversion of the well-typedness predicates -/

theorem slotsOk_len (S : Schema) : ∀ (fs : List FieldD) (vs : List Val), SlotsOk S fs vs → vs.length = fs.length
  | [], _, h => by cases h; rfl
  | _ :: fs, _, h => by
    cases h with
    | cons _ v _ vs h1 h2 => simp [slotsOk_len S fs vs h2]

theorem slotsOk_get (S : Schema) : ∀ (fs : List FieldD) (vs : List Val), SlotsOk S fs vs →
    ∀ (i : Nat) (f : FieldD) (v : Val), fs[i]? = some f → vs[i]? = some v → SlotOk S f v
  | [], _, h => by cases h; intro i f v hf; simp at hf
  | _ :: fs, _, h => by
    cases h with
    | cons f0 v0 _ vs h1 h2 =>
      intro i f v hf hv
      cases i with
      | zero => simp at hf hv; subst hf; subst hv; exact h1
      | succ i => simp at hf hv; exact slotsOk_get S fs vs h2 i f v hf hv

theorem msgsOk_mem (S : Schema) (c : Nat) : ∀ (xs : List Val), MsgsOk S c xs →
    ∀ x ∈ xs, (∃ sl ow unk cur, x = Val.msg c sl ow unk cur) ∧ MsgOk S x
  | [], _ => by intro x hx; simp at hx
  | _ :: xs, h => by
    cases h with
    | cons _ sl ow unk cur _ h1 h2 =>
      intro x hx
      rcases List.mem_cons.mp hx with hx | hx
      · subst hx; exact ⟨⟨sl, ow, unk, cur, rfl⟩, h1⟩
      · exact msgsOk_mem S c xs h2 x hx

/-! ### the bytes of one slot are part of the bytes of the message -/

theorem dumpSlots_slot_le (S : Schema) (fs : List FieldD) (cur : List (Option Nat)) :
    ∀ (vs : List Val) (k0 : Nat) (out : Bytes), dumpSlots S fs cur k0 vs = .ok out →
      ∀ (j : Nat) (f : FieldD) (v : Val), fs[k0 + j]? = some f → vs[j]? = some v →
        ∃ b, dumpSlot S f (hidden f (k0 + j) cur) (selectedInGroup f (k0 + j) cur) v = .ok b ∧ b.length ≤ out.length := by
  intro vs
  induction vs with
  | nil => intro k0 out _ j f v _ hv; simp at hv
  | cons v0 vs ih =>
    intro k0 out h j f v hf hv
    rw [dumpSlots] at h
    cases hf0 : fs[k0]? with
    | none =>
      have : fs[k0 + j]? = Option.none := by
        rw [List.getElem?_eq_none_iff] at hf0 ⊢; omega
      rw [this] at hf; simp at hf
    | some f0 =>
      rw [hf0] at h
      simp only at h
      cases ha : dumpSlot S f0 (hidden f0 k0 cur) (selectedInGroup f0 k0 cur) v0 with
      | error e => rw [ha] at h; simp at h
      | ok a =>
        rw [ha] at h; simp only [bind_ok] at h
        cases hb : dumpSlots S fs cur (k0 + 1) vs with
        | error e => rw [hb] at h; simp at h
        | ok r =>
          rw [hb] at h; simp only [bind_ok] at h
          injection h with h; subst h
          cases j with
          | zero =>
            simp at hf hv; subst hv
            rw [hf0] at hf; injection hf with hf; subst hf
            exact ⟨a, ha, by simp⟩
          | succ j =>
            simp only [List.getElem?_cons_succ] at hv
            obtain ⟨b, h1, h2⟩ := ih (k0 + 1) r hb j f v (by rw [← hf]; congr 1; omega) hv
            have e : k0 + 1 + j = k0 + (j + 1) := by omega
            rw [e] at h1
            exact ⟨b, h1, by simp; omega⟩

/-- the payload of an emitted message-typed record is strictly shorter than the record -/
theorem sub_payload_lt (S : Schema) (f : FieldD) (c : Nat) (hid sel : Bool) (sl : List Val) (ow : Bool)
    (unk : Bytes) (cur : List (Option Nat)) (b : Bytes) (hsf : SubField f c)
    (h : dumpSlot S f hid sel (.msg c sl ow unk cur) = .ok b) (hne : b ≠ []) :
    ∃ p, dumpVal S (.msg c sl ow unk cur) = .ok p ∧ p.length < b.length := by
  rw [dumpSlot_sub S f c hid sel sl ow unk cur hsf] at h
  by_cases hh : hid = true
  · rw [if_pos hh] at h; injection h with h; exact absurd h.symm hne
  · rw [if_neg hh] at h
    split at h
    · injection h with h; exact absurd h.symm hne
    · rw [dumpVal_msg]
      cases hb : dumpSlots S (fieldsOf S c) cur 0 sl with
      | error e => rw [hb] at h; simp at h
      | ok body =>
        rw [hb] at h; simp only [bind_ok] at h ⊢
        split at h
        · injection h with h; subst h
          refine ⟨body ++ unk, rfl, ?_⟩
          have := encNat_ne_nil (f.num * 8 + 2)
          cases he : encNat (f.num * 8 + 2) with
          | nil => exact absurd he this
          | cons a as => simp; omega
        · injection h with h; exact absurd h.symm hne

/-- the payload of every item of a repeated message field is strictly shorter than the
    bytes of the field -/
theorem subs_payload_lt (S : Schema) (f : FieldD) (c : Nat) (hty : f.ty = PType.message) (hnw : f.wraps = Option.none) :
    ∀ (xs : List Val) (b : Bytes), (∀ x ∈ xs, ∃ sl ow unk cur, x = Val.msg c sl ow unk cur) →
      dumpItems S f xs = .ok b → ∀ x ∈ xs, ∃ p, dumpVal S x = .ok p ∧ p.length < b.length := by
  intro xs
  induction xs with
  | nil => intro b _ _ x hx; simp at hx
  | cons x0 xs ih =>
    intro b hall h x hx
    obtain ⟨sl, ow, unk, cur, hx0⟩ := hall x0 (by simp)
    subst hx0
    rw [dumpItems_msg S f c sl ow unk cur xs hty hnw] at h
    cases hp : dumpVal S (.msg c sl ow unk cur) with
    | error e => rw [hp] at h; simp at h
    | ok p =>
      rw [hp] at h; simp only [bind_ok] at h
      cases hr : dumpItems S f xs with
      | error e => rw [hr] at h; simp at h
      | ok r =>
        rw [hr] at h; simp only [bind_ok] at h
        injection h with h; subst h
        rcases List.mem_cons.mp hx with hx | hx
        · subst hx
          refine ⟨p, hp, ?_⟩
          have := encNat_ne_nil (f.num * 8 + 2)
          cases he : encNat (f.num * 8 + 2) with
          | nil => exact absurd he this
          | cons a as => simp; omega
        · obtain ⟨q, hq, hlt⟩ := ih r (fun y hy => hall y (by simp [hy])) hr x hx
          exact ⟨q, hq, by simp; omega⟩

/-! ### steps for flat slots and for unset message-typed slots -/

/-- a selected, set, well-typed scalar member always emits at least its tag -/
theorem flat_selected_emits (S : Schema) (f : FieldD) (v : Val) (b : Bytes)
    (hg : f.group.isSome = true) (hv : scalarOk f.ty v = true)
    (h : dumpSlot S f false true v = .ok b) : b ≠ [] := by
  obtain ⟨hpl, _⟩ := scalarOk_plain f.ty v hv
  obtain ⟨wt, rest, _, e⟩ := C06.explicit_emitted S f true v b hpl (Or.inr (Or.inl ⟨hg, rfl⟩)) h
  intro hc; rw [hc] at e
  have := encNat_ne_nil (f.num * 8 + wt)
  cases hh : encNat (f.num * 8 + wt) with
  | nil => exact this hh
  | cons a as => rw [hh] at e; simp at e

/-- the value of a set, non-optional oneof member of scalar type is a well-typed scalar -/
theorem flat_member_scalar (f : FieldD) (v : Val) (g : Nat) (hff : FlatField f) (hok : flatSlotOk f v = true)
    (hne : v ≠ Val.ph) (hgo : f.optional = false) (hg : f.group = some g) : scalarOk f.ty v = true := by
  cases v with
  | ph => exact absurd rfl hne
  | none => simp [flatSlotOk, hgo] at hok
  | list xs =>
    simp [flatSlotOk] at hok
    have := (hff.rep hok.1).2; rw [hg] at this; simp at this
  | _ => simp [flatSlotOk] at hok; exact hok.2

/-- an unset (PLACEHOLDER) slot of a field without explicit presence emits nothing -/
theorem ph_emits_nothing (S : Schema) (f : FieldD) (k : Nat) (cur : List (Option Nat)) (b : Bytes)
    (ho : f.optional = false)
    (hsel : ∀ g, f.group = some g → cur.getD g Option.none ≠ some k)
    (hb : dumpSlot S f (hidden f k cur) (selectedInGroup f k cur) Val.ph = .ok b) : b = [] := by
  rw [dumpSlot] at hb
  by_cases hh : hidden f k cur = true
  · rw [if_pos hh] at hb; injection hb with hb; exact hb.symm
  · rw [if_neg hh] at hb
    have hh' : hidden f k cur = false := by simpa using hh
    cases hg : f.group with
    | some g => exact absurd (selected_of_not_hidden f k g cur hg hh') (hsel g hg)
    | none =>
      have hs : selectedInGroup f k cur = false := by unfold selectedInGroup; rw [hg]
      rw [hs] at hb
      unfold dumpDefault at hb
      simp only [hg, ho, Option.isSome_none, Bool.or_self, Bool.false_eq_true] at hb
      cases hk : f.defKind <;> rw [hk] at hb <;> simp at hb <;> first | exact hb.symm | exact hb

/-- a slot that emits nothing is a (trivial) step -/
theorem slotStep_empty (S : Schema) (rec : Loader) (d : MsgD) (R : FieldD → Val → Val → Prop) (k : Nat) (f : FieldD)
    (hid sel : Bool) (v : Val) (h : ∀ b, dumpSlot S f hid sel v = .ok b → b = []) :
    SlotStep S rec d R k f hid sel v := by
  intro st b hb _ _ _ _ _
  have hbe := h b hb
  exact ⟨[], v, fun _ h => by simp at h, by simp [joinRaw, hbe], fun h => absurd hbe h, by rw [if_pos hbe]; rfl⟩

/-- every well-typed value of a flat field is a step (with any reflexive relation) -/
theorem slotStep_flat (S : Schema) (rec : Loader) (d : MsgD) (k : Nat) (f : FieldD) (cur : List (Option Nat)) (v : Val)
    (hdist : NumsDistinct d.fields) (hf : d.fields[k]? = some f) (hff : FlatField f) (hok : flatSlotOk f v = true)
    (hsel : v = Val.ph → ∀ g, f.group = some g → cur.getD g Option.none ≠ some k)
    (R : FieldD → Val → Val → Prop) (hR : ∀ f v, R f v v) :
    SlotStep S rec d R k f (hidden f k cur) (selectedInGroup f k cur) v := by
  cases v with
  | ph =>
    apply slotStep_empty
    intro b hb
    exact ph_emits_nothing S f k cur b (by simpa [flatSlotOk] using hok) (hsel rfl) hb
  | none =>
    apply slotStep_empty
    intro b hb
    rw [dumpSlot] at hb; injection hb with hb; exact hb.symm
  | list xs =>
    simp [flatSlotOk] at hok
    obtain ⟨_, hg⟩ := hff.rep hok.1
    have hh : hidden f k cur = false := by unfold hidden; rw [hg]
    have hs : selectedInGroup f k cur = false := by unfold selectedInGroup; rw [hg]
    rw [hh]
    exact slotStep_repeated S _ d k f _ xs hdist hf hff hok.1 (fun x hx => hok.2 x hx) hs _ hR
  | int i => simp [flatSlotOk] at hok; exact slotStep_scalar S _ d k f _ _ _ hdist hf hff hok.1 hok.2 _ hR
  | bool b => simp [flatSlotOk] at hok; exact slotStep_scalar S _ d k f _ _ _ hdist hf hff hok.1 hok.2 _ hR
  | f32 b => simp [flatSlotOk] at hok; exact slotStep_scalar S _ d k f _ _ _ hdist hf hff hok.1 hok.2 _ hR
  | f64 b => simp [flatSlotOk] at hok; exact slotStep_scalar S _ d k f _ _ _ hdist hf hff hok.1 hok.2 _ hR
  | str s => simp [flatSlotOk] at hok; exact slotStep_scalar S _ d k f _ _ _ hdist hf hff hok.1 hok.2 _ hR
  | byt s => simp [flatSlotOk] at hok; exact slotStep_scalar S _ d k f _ _ _ hdist hf hff hok.1 hok.2 _ hR
  | ts us => simp [flatSlotOk, scalarOk] at hok
  | dur us => simp [flatSlotOk, scalarOk] at hok
  | dict ks vs => simp [flatSlotOk, scalarOk] at hok
  | msg c' sl' ow' unk' cur' => simp [flatSlotOk, scalarOk] at hok

/-! ### the round trip for nested messages -/

/-- **decode ∘ encode for every well-typed message, nested or recursive**, stated for the
    loader with any nesting fuel above the length of the encoding (which is what `parse`
    supplies). Induction on the fuel; nested payloads are strictly shorter. -/
theorem nested_fuel (S : Schema) : ∀ (fuel : Nat) (c : Nat) (d : MsgD) (sl : List Val) (ow : Bool) (unk : Bytes)
    (cur : List (Option Nat)) (bs : Bytes),
    MsgOk S (.msg c sl ow unk cur) → S[c]? = some d → dumpVal S (.msg c sl ow unk cur) = .ok bs →
    bs.length < 2 ^ 64 → bs.length < fuel →
    ∃ sl', loadInto S fuel d (freshState d) bs = .ok { slots := sl', onWire := true, unknown := unk, cur := cur }
      ∧ ValEqv S (.msg c sl ow unk cur) (.msg c sl' true unk cur)
      ∧ dumpVal S (.msg c sl' true unk cur) = .ok bs := by
  intro fuel
  induction fuel using Nat.strongRecOn with
  | _ fuel0 ih =>
  cases fuel0 with
  | zero => intro c d sl ow unk cur bs _ _ _ _ h; omega
  | succ fuel =>
    intro c d sl ow unk cur bs hmsg hd hdump hbl hfuel
    cases hmsg with
    | mk _ d' _ _ _ _ hd' hdist hwfg hgrpopt hcurlen hcurok hinv hselset hslots hunk =>
    rw [hd] at hd'; injection hd' with hd'; subst hd'
    have hlen : sl.length = d.fields.length := slotsOk_len S _ _ hslots
    have hfo : fieldsOf S c = d.fields := by simp [fieldsOf, hd]
    -- the body of the encoding
    obtain ⟨body, hbody, hbs⟩ : ∃ body, dumpSlots S d.fields cur 0 sl = .ok body ∧ bs = body ++ unk := by
      rw [dumpVal_msg, hfo] at hdump
      cases hb : dumpSlots S d.fields cur 0 sl with
      | error e => rw [hb] at hdump; simp at hdump
      | ok body => rw [hb] at hdump; simp only [bind_ok] at hdump; injection hdump with h; exact ⟨body, rfl, h.symm⟩
    have hsel_grp : ∀ i f, d.fields[i]? = some f → selectedInGroup f i cur = true →
        ∃ g, f.group = some g ∧ cur.getD g Option.none = some i := by
      intro i f _ hs
      unfold selectedInGroup at hs
      cases hg : f.group with
      | none => rw [hg] at hs; simp at hs
      | some g => rw [hg] at hs; exact ⟨g, rfl, by simpa using hs⟩
    have hslot : ∀ i f, d.fields[i]? = some f → SlotOk S f (sl.getD i .ph) := by
      intro i f hf
      have hil : i < sl.length := by
        rw [hlen]; by_contra hc; rw [List.getElem?_eq_none (by omega)] at hf; simp at hf
      have hvi : sl[i]? = some (sl.getD i .ph) := by
        rw [List.getD_eq_getElem?_getD, List.getElem?_eq_getElem hil]; rfl
      exact slotsOk_get S _ _ hslots i f _ hf hvi
    have hshape : MsgShape S d sl cur := by
      refine ⟨hlen, hcurlen, hwfg, hcurok, hgrpopt, hinv, ?_⟩
      intro i f b hf hs hb
      obtain ⟨g, hg, hcg⟩ := hsel_grp i f hf hs
      have hh : hidden f i cur = false := by unfold hidden; rw [hg]; simp only; rw [hcg]; simp
      rw [hh] at hb
      have hne := hselset g i hcg
      have hgo := hgrpopt f (List.mem_of_getElem? hf) (by simp [hg])
      have hso := hslot i f hf
      generalize sl.getD i .ph = v at hso hne hb
      cases hso with
      | flat _ _ hff hok =>
        exact flat_selected_emits S f _ b (by simp [hg]) (flat_member_scalar f _ g hff hok hne hgo hg) hb
      | unsetSub _ c' _ _ => exact absurd rfl hne
      | noneSub _ c' _ ho => rw [hgo] at ho; simp at ho
      | sub _ c' sl' ow' unk' cur' hsf _ _ => exact sub_selected_emits S f c' sl' ow' unk' cur' b hsf (by simp [hg]) hb
      | subs _ c' xs hsf hr _ => have := (hsf.rep hr).2; rw [hg] at this; simp at this
    -- every slot is a step for the nested loader with the smaller fuel
    have hsteps : ∀ k f v, d.fields[k]? = some f → sl[k]? = some v →
        SlotStep S (loadInto S fuel) d (fun _ v v' => ValEqv S v v') k f (hidden f k cur) (selectedInGroup f k cur) v := by
      intro k f v hf hv
      have hvD : sl.getD k .ph = v := by simp [List.getD_eq_getElem?_getD, hv]
      have hso : SlotOk S f v := slotsOk_get S _ _ hslots k f v hf hv
      -- the bytes of this slot are at most the body
      obtain ⟨b0, hb0, hb0len⟩ := dumpSlots_slot_le S d.fields cur sl 0 body hbody k f v (by simpa using hf) hv
      simp only [Nat.zero_add] at hb0
      have hblen : body.length ≤ fuel := by rw [hbs] at hfuel; simp at hfuel; omega
      have hb64 : body.length < 2 ^ 64 := by rw [hbs] at hbl; simp at hbl; omega
      have hphsel : v = Val.ph → ∀ g, f.group = some g → cur.getD g Option.none ≠ some k := by
        intro hvp g _ hc
        exact hselset g k hc (by rw [hvD, hvp])
      cases hso with
      | flat _ _ hff hok =>
        exact slotStep_flat S _ d k f cur v hdist hf hff hok hphsel _ (fun _ v => ValEqv.refl v)
      | unsetSub _ c' _ ho =>
        apply slotStep_empty
        intro b hb
        exact ph_emits_nothing S f k cur b ho (hphsel rfl) hb
      | noneSub _ c' _ _ =>
        apply slotStep_empty
        intro b hb
        rw [dumpSlot] at hb; injection hb with hb; exact hb.symm
      | sub _ c' sl' ow' unk' cur' hsf hr hmo =>
        intro st b hb
        have hbb : b = b0 := by rw [hb0] at hb; injection hb with hb; exact hb.symm
        by_cases hbe : b = []
        · intro _ _ _ _ _
          exact ⟨[], .ph, fun _ h => by simp at h, by simp [joinRaw, hbe], fun h => absurd hbe h, by rw [if_pos hbe]; rfl⟩
        · obtain ⟨p, hp, hplt⟩ := sub_payload_lt S f c' _ _ sl' ow' unk' cur' b hsf hb hbe
          rw [hbb] at hplt
          have hmo' := hmo
          cases hmo' with
          | mk _ dc _ _ _ _ hdc _ _ _ _ _ _ _ _ _ =>
          have hinner : RoundTrips S (loadInto S fuel) (.msg c' sl' ow' unk' cur') := by
            intro c2 d2 sl2 ow2 unk2 cur2 bs2 he hd2 hdump2
            injection he with e1 e2 e3 e4 e5
            subst e1; subst e2; subst e3; subst e4; subst e5
            rw [hp] at hdump2; injection hdump2 with e; subst e
            exact ih fuel (by omega) c' d2 sl' ow' unk' cur' p hmo hd2 hp (by omega) (by omega)
          exact slotStep_sub S _ d k f c' dc sl' ow' unk' cur' _ _ hdist hf hsf hr hdc hinner st b hb
      | subs _ c' xs hsf hr hms =>
        obtain ⟨ho, hg⟩ := hsf.rep hr
        have hh : hidden f k cur = false := by unfold hidden; rw [hg]
        have hs : selectedInGroup f k cur = false := by unfold selectedInGroup; rw [hg]
        intro st b hb
        have hbb : b = b0 := by rw [hb0] at hb; injection hb with hb; exact hb.symm
        by_cases hxe : xs = []
        · -- an empty list emits nothing
          subst hxe
          have hbe : b = [] := by
            rw [hh, hs, dumpSlot_subs S f c' [] hsf hr, dumpItems] at hb
            injection hb with hb; exact hb.symm
          intro _ _ _ _ _
          exact ⟨[], .ph, fun _ h => by simp at h, by simp [joinRaw, hbe], fun h => absurd hbe h, by rw [if_pos hbe]; rfl⟩
        · obtain ⟨x0, hx0⟩ := List.exists_mem_of_ne_nil xs hxe
          obtain ⟨⟨sl0, ow0, unk0, cur0, hx0e⟩, hmo0⟩ := msgsOk_mem S c' xs hms x0 hx0
          subst hx0e
          have hmo0' := hmo0
          cases hmo0' with
          | mk _ dc _ _ _ _ hdc _ _ _ _ _ _ _ _ _ =>
          have hitems : dumpItems S f xs = .ok b := by
            rw [hh, hs, dumpSlot_subs S f c' xs hsf hr] at hb; exact hb
          have hinner : AllRoundTrip S (loadInto S fuel) c' xs := by
            intro x hx
            obtain ⟨hxm, hxo⟩ := msgsOk_mem S c' xs hms x hx
            refine ⟨hxm, ?_⟩
            obtain ⟨p, hp, hplt⟩ := subs_payload_lt S f c' hsf.ty hsf.nw xs b
              (fun y hy => (msgsOk_mem S c' xs hms y hy).1) hitems x hx
            rw [hbb] at hplt
            intro c2 d2 sl2 ow2 unk2 cur2 bs2 he hd2 hdump2
            subst he
            rw [hp] at hdump2; injection hdump2 with e; subst e
            have hc2 : c2 = c' := by
              obtain ⟨_, _, _, _, e⟩ := hxm; injection e
            subst hc2
            exact ih fuel (by omega) c2 d2 sl2 ow2 unk2 cur2 p hxo hd2 hp (by omega) (by omega)
          have := slotStep_subs S _ d k f c' dc (selectedInGroup f k cur) xs hdist hf hsf hr hdc hs hinner
          rw [hh] at hb ⊢
          exact this st b hb
    obtain ⟨sl', h1, h2, h3, h4⟩ :=
      fold_of_steps S (loadInto S fuel) c d hd sl ow unk cur _ hshape hunk bs hdump hbl hsteps
    refine ⟨sl', ?_, ?_, h4⟩
    · rw [loadInto_succ]; exact h1
    · apply ValEqv.msg
      rw [hfo]
      apply slotsEqv_of_index S d.fields cur 0 sl sl' h2
      · intro j f hf _
        simp only [Nat.zero_add] at hf ⊢
        exact h3 j f hf
      · omega

end Bp
