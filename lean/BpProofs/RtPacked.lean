import BpModel.All
import BpProofs.Varint
import BpProofs.Props.C16
import BpProofs.Fields
import BpProofs.Len
/-
  Round trip of packed repeated scalar fields: `prepPacked` (the concatenation of
  `_preprocess_single` of the items) against `decodePacked` (the loop of
  `_postprocess_single` over a packed payload), and the whole record
  tag ++ length ++ payload against `loadField` / `decodeValue`.
-/
namespace Bp
open Gen

/-! ### unfolding lemmas -/

theorem decodePackedFuel_ne (t : PType) (fuel : Nat) (p : Bytes) (hp : p ≠ []) :
    decodePackedFuel t (fuel + 1) p =
      if t == .float || t == .fixed32 || t == .sfixed32 then
        (postFixed t (p.take 4)).bind fun v => (decodePackedFuel t fuel (p.drop 4)).bind fun vs => .ok (v :: vs)
      else if t == .double || t == .fixed64 || t == .sfixed64 then
        (postFixed t (p.take 8)).bind fun v => (decodePackedFuel t fuel (p.drop 8)).bind fun vs => .ok (v :: vs)
      else
        match loadVarint p with
        | .error e => .error e
        | .ok (n, k) => (decodePackedFuel t fuel (p.drop k)).bind fun vs => .ok (postVarint t n :: vs) := by
  cases p with
  | nil => exact absurd rfl hp
  | cons c p => rfl

theorem decodePackedFuel_nil (t : PType) (fuel : Nat) : decodePackedFuel t (fuel + 1) [] = .ok [] := rfl

/-- "`b` is an encoding of the element `x`": it is not empty, and one iteration of the
    packed decoder on `b ++ rest` yields `x` and continues on `rest` -/
def ElemRT (t : PType) (x : Val) (b : Bytes) : Prop :=
  b ≠ [] ∧ ∀ fuel rest, decodePackedFuel t (fuel + 1) (b ++ rest)
      = (decodePackedFuel t fuel rest).bind fun vs => .ok (x :: vs)

/-! ### one decoder iteration, per wire class -/

theorem step_varint (t : PType) (hv : wireVarintTypes.contains t = true) (b : Bytes) (n : Nat)
    (hb : b ≠ []) (hl : ∀ rest, loadVarint (b ++ rest) = .ok (n, b.length)) :
    ElemRT t (postVarint t n) b := by
  refine ⟨hb, ?_⟩
  intro fuel rest
  have h1 : (t == .float || t == .fixed32 || t == .sfixed32) = false := by
    revert hv; cases t <;> decide
  have h2 : (t == .double || t == .fixed64 || t == .sfixed64) = false := by
    revert hv; cases t <;> decide
  have hne : b ++ rest ≠ [] := by
    intro hc; exact hb (List.append_eq_nil_iff.mp hc).1
  rw [decodePackedFuel_ne _ _ _ hne, h1, h2]
  simp only [Bool.false_eq_true, if_false]
  rw [hl rest]
  simp only [List.drop_left]

theorem step_fixed32 (t : PType) (h1 : (t == .float || t == .fixed32 || t == .sfixed32) = true)
    (b : Bytes) (x : Val) (hlen : b.length = 4) (hp : postFixed t b = .ok x) : ElemRT t x b := by
  have hb : b ≠ [] := by intro hc; rw [hc] at hlen; simp at hlen
  refine ⟨hb, ?_⟩
  intro fuel rest
  have hne : b ++ rest ≠ [] := by
    intro hc; exact hb (List.append_eq_nil_iff.mp hc).1
  rw [decodePackedFuel_ne _ _ _ hne, if_pos h1, List.take_left' hlen, List.drop_left' hlen, hp]
  rfl

theorem step_fixed64 (t : PType) (h2 : (t == .double || t == .fixed64 || t == .sfixed64) = true)
    (b : Bytes) (x : Val) (hlen : b.length = 8) (hp : postFixed t b = .ok x) : ElemRT t x b := by
  have hb : b ≠ [] := by intro hc; rw [hc] at hlen; simp at hlen
  have h1 : (t == .float || t == .fixed32 || t == .sfixed32) = false := by
    revert h2; cases t <;> decide
  refine ⟨hb, ?_⟩
  intro fuel rest
  have hne : b ++ rest ≠ [] := by
    intro hc; exact hb (List.append_eq_nil_iff.mp hc).1
  rw [decodePackedFuel_ne _ _ _ hne, h1]
  simp only [Bool.false_eq_true, if_false]
  rw [if_pos h2, List.take_left' hlen, List.drop_left' hlen, hp]
  rfl

/-! ### the encoder side, per wire class -/

theorem prepPlain_varint (t : PType)
    (h : (t == .enum || t == .bool || t == .int32 || t == .int64 || t == .uint32 || t == .uint64) = true)
    (v : Val) : prepPlain t v = (asInt v).bind dumpVarint := by
  unfold prepPlain; rw [if_pos h]

theorem prepPlain_zig (t : PType) (h : (t == .sint32 || t == .sint64) = true) (v : Val) :
    prepPlain t v = (asInt v).bind fun i => dumpVarint (zig i) := by
  have h0 : (t == .enum || t == .bool || t == .int32 || t == .int64 || t == .uint32 || t == .uint64) = false := by
    revert h; cases t <;> decide
  unfold prepPlain; rw [h0]
  simp only [Bool.false_eq_true, if_false]
  rw [if_pos h]

theorem prepPlain_fixed (t : PType) (h : isFixed t = true) (v : Val) : prepPlain t v = packFixed t v := by
  have h0 : (t == .enum || t == .bool || t == .int32 || t == .int64 || t == .uint32 || t == .uint64) = false := by
    revert h; cases t <;> decide
  have h1 : (t == .sint32 || t == .sint64) = false := by
    revert h; cases t <;> decide
  unfold prepPlain; rw [h0, h1]
  simp only [Bool.false_eq_true, if_false]
  rw [if_pos h]

/-- `encode_varint` / `load_varint` with the encoding named, so that it does not depend on
    what follows -/
theorem load_dump_enc (v : Int) (hlo : -two63 ≤ v) (hhi : v < two64) :
    dumpVarint v = .ok (encNat (asU64 v))
    ∧ ∀ rest, loadVarint (encNat (asU64 v) ++ rest) = .ok (C16.wire64 v, (encNat (asU64 v)).length) := by
  refine ⟨C16.dumpVarint_eq v hlo, ?_⟩
  intro rest
  rw [loadVarint_encNat _ _ (by unfold asU64 two64 two63 at *; split <;> omega),
    C16.asU64_eq_wire64 v hlo hhi]

/-- a varint-encoded element: `dumpVarint w` written, `post (wire64 w)` read -/
theorem elem_varint (t : PType) (hv : wireVarintTypes.contains t = true) (w : Int) (x : Val)
    (hlo : -two63 ≤ w) (hhi : w < two64) (hpost : postVarint t (C16.wire64 w) = x) :
    ∃ b, dumpVarint w = .ok b ∧ ElemRT t x b := by
  obtain ⟨h1, h2⟩ := load_dump_enc w hlo hhi
  refine ⟨_, h1, ?_⟩
  rw [← hpost]
  exact step_varint t hv _ _ (encNat_ne_nil _) h2

/-! ### classification of well-typed elements of a packable type -/

theorem scalarOk_packed_cases (t : PType) (x : Val) (ht : isPacked t = true) (hx : scalarOk t x = true) :
    (∃ i, x = .int i ∧ intInRange t i = true)
    ∨ (∃ b, x = .bool b ∧ t = .bool)
    ∨ (∃ b, x = .f32 b ∧ t = .float ∧ b < 2 ^ 32 ∧ quiet32 b = b)
    ∨ (∃ b, x = .f64 b ∧ t = .double ∧ b < 2 ^ 64) := by
  cases x with
  | int i => exact Or.inl ⟨i, rfl, hx⟩
  | bool b =>
    refine Or.inr (Or.inl ⟨b, rfl, ?_⟩)
    simpa [scalarOk] using hx
  | f32 b =>
    refine Or.inr (Or.inr (Or.inl ⟨b, rfl, ?_⟩))
    simp [scalarOk] at hx
    exact ⟨hx.1.1, by omega, hx.2⟩
  | f64 b =>
    refine Or.inr (Or.inr (Or.inr ⟨b, rfl, ?_⟩))
    simpa [scalarOk] using hx
  | str s =>
    simp only [scalarOk, Bool.and_eq_true, beq_iff_eq] at hx
    rw [hx.1.1] at ht; exact absurd ht (by decide)
  | byt s =>
    simp only [scalarOk, Bool.and_eq_true, beq_iff_eq] at hx
    rw [hx.1] at ht; exact absurd ht (by decide)
  | _ => simp [scalarOk] at hx

theorem postVarint_rows (n : Nat) :
    postVarint .enum n = .int (signRecover 32 n) ∧ postVarint .int32 n = .int (signRecover 32 n)
    ∧ postVarint .int64 n = .int (signRecover 64 n) ∧ postVarint .uint32 n = .int n
    ∧ postVarint .uint64 n = .int n ∧ postVarint .sint32 n = .int (unzig n)
    ∧ postVarint .sint64 n = .int (unzig n) ∧ postVarint .bool n = .bool (n > 0) :=
  ⟨rfl, rfl, rfl, rfl, rfl, rfl, rfl, rfl⟩

theorem wire64_nonneg (v : Int) (h0 : 0 ≤ v) (h1 : v < two64) : ((C16.wire64 v : Nat) : Int) = v := by
  unfold C16.wire64 two64 at *
  omega

theorem wire64_zig (v : Int) (hlo : -two63 ≤ v) (hhi : v < two63) : unzig (C16.wire64 (zig v)) = v := by
  have hz := C16.zig_range64 v hlo hhi
  have : C16.wire64 (zig v) = (zig v).toNat := by
    unfold C16.wire64; rw [Int.emod_eq_of_lt hz.1 hz.2]
  rw [this, unzig_zig]

/-- **element lemma**: every well-typed element of a packable type is encoded to a
    non-empty byte string from which one decoder iteration recovers it -/
theorem elem_rt (t : PType) (x : Val) (ht : isPacked t = true) (hx : scalarOk t x = true) :
    ∃ b, prepPlain t x = .ok b ∧ ElemRT t x b := by
  rcases scalarOk_packed_cases t x ht hx with ⟨i, rfl, hi⟩ | ⟨b, rfl, rfl⟩ | ⟨b, rfl, rfl, hb, hq⟩ | ⟨b, rfl, rfl, hb⟩
  · -- integers
    cases t with
    | enum =>
      simp [intInRange] at hi
      rw [prepPlain_varint _ (by decide)]
      refine elem_varint _ (by decide) i _ (by unfold two63; omega) (by unfold two64; omega) ?_
      rw [(postVarint_rows _).1, C16.load_dump_int32 i hi.1 hi.2]
    | int32 =>
      simp [intInRange] at hi
      rw [prepPlain_varint _ (by decide)]
      refine elem_varint _ (by decide) i _ (by unfold two63; omega) (by unfold two64; omega) ?_
      rw [(postVarint_rows _).2.1, C16.load_dump_int32 i hi.1 hi.2]
    | int64 =>
      simp [intInRange] at hi
      rw [prepPlain_varint _ (by decide)]
      refine elem_varint _ (by decide) i _ (by unfold two63; omega) (by unfold two64; omega) ?_
      rw [(postVarint_rows _).2.2.1,
        C16.load_dump_int64 i (by unfold two63; omega) (by unfold two63; omega)]
    | uint32 =>
      simp [intInRange] at hi
      rw [prepPlain_varint _ (by decide)]
      refine elem_varint _ (by decide) i _ (by unfold two63; omega) (by unfold two64; omega) ?_
      rw [(postVarint_rows _).2.2.2.1, wire64_nonneg i hi.1 (by unfold two64; omega)]
    | uint64 =>
      simp [intInRange] at hi
      rw [prepPlain_varint _ (by decide)]
      refine elem_varint _ (by decide) i _ (by unfold two63; omega) (by unfold two64; omega) ?_
      rw [(postVarint_rows _).2.2.2.2.1, wire64_nonneg i hi.1 (by unfold two64; omega)]
    | sint32 =>
      simp [intInRange] at hi
      rw [prepPlain_zig _ (by decide)]
      have hz := C16.zig_range64 i (by unfold two63; omega) (by unfold two63; omega)
      refine elem_varint _ (by decide) (zig i) _ (by unfold two63; omega) hz.2 ?_
      rw [(postVarint_rows _).2.2.2.2.2.1, wire64_zig i (by unfold two63; omega) (by unfold two63; omega)]
    | sint64 =>
      simp [intInRange] at hi
      rw [prepPlain_zig _ (by decide)]
      have hz := C16.zig_range64 i (by unfold two63; omega) (by unfold two63; omega)
      refine elem_varint _ (by decide) (zig i) _ (by unfold two63; omega) hz.2 ?_
      rw [(postVarint_rows _).2.2.2.2.2.2.1, wire64_zig i (by unfold two63; omega) (by unfold two63; omega)]
    | fixed32 =>
      simp [intInRange] at hi
      rw [prepPlain_fixed _ (by decide)]
      obtain ⟨bs, h1, h2, h3⟩ := C16.packFixed_postFixed_int .fixed32 4 false (by decide) (by omega) i
        (by simp only [Bool.false_eq_true, if_false]; omega)
      exact ⟨bs, h1, step_fixed32 _ (by decide) bs _ h2 h3⟩
    | sfixed32 =>
      simp [intInRange] at hi
      rw [prepPlain_fixed _ (by decide)]
      obtain ⟨bs, h1, h2, h3⟩ := C16.packFixed_postFixed_int .sfixed32 4 true (by decide) (by omega) i
        (by simp only [if_true]; omega)
      exact ⟨bs, h1, step_fixed32 _ (by decide) bs _ h2 h3⟩
    | fixed64 =>
      simp [intInRange] at hi
      rw [prepPlain_fixed _ (by decide)]
      obtain ⟨bs, h1, h2, h3⟩ := C16.packFixed_postFixed_int .fixed64 8 false (by decide) (by omega) i
        (by simp only [Bool.false_eq_true, if_false]; omega)
      exact ⟨bs, h1, step_fixed64 _ (by decide) bs _ h2 h3⟩
    | sfixed64 =>
      simp [intInRange] at hi
      rw [prepPlain_fixed _ (by decide)]
      obtain ⟨bs, h1, h2, h3⟩ := C16.packFixed_postFixed_int .sfixed64 8 true (by decide) (by omega) i
        (by simp only [if_true]; omega)
      exact ⟨bs, h1, step_fixed64 _ (by decide) bs _ h2 h3⟩
    | _ => simp [intInRange] at hi
  · -- bool
    rw [prepPlain_varint _ (by decide)]
    cases b with
    | true =>
      refine elem_varint _ (by decide) 1 _ (by decide) (by decide) ?_
      rw [(postVarint_rows _).2.2.2.2.2.2.2]; exact congrArg Val.bool (by decide)
    | false =>
      refine elem_varint _ (by decide) 0 _ (by decide) (by decide) ?_
      rw [(postVarint_rows _).2.2.2.2.2.2.2]; exact congrArg Val.bool (by decide)
  · -- float
    rw [prepPlain_fixed _ (by decide)]
    obtain ⟨bs, h1, h2, h3⟩ := C16.float_roundtrip b hb hq
    exact ⟨bs, h1, step_fixed32 _ (by decide) bs _ h2 h3⟩
  · -- double
    rw [prepPlain_fixed _ (by decide)]
    obtain ⟨bs, h1, h2, h3⟩ := C16.double_roundtrip b hb
    exact ⟨bs, h1, step_fixed64 _ (by decide) bs _ h2 h3⟩

/-! ### the list level -/

theorem isPacked_ne_message (t : PType) (ht : isPacked t = true) : (t == PType.message) = false := by
  revert ht; cases t <;> decide

theorem prepScalar_packed (S : Schema) (t : PType) (ht : isPacked t = true) (x : Val) :
    prepScalar S t Option.none x = prepPlain t x := by
  unfold prepScalar
  rw [isPacked_ne_message t ht]
  simp only [Bool.false_eq_true, if_false]

theorem prepPacked_cons (S : Schema) (t : PType) (x : Val) (xs : List Val) :
    prepPacked S t (x :: xs)
      = (prepScalar S t Option.none x).bind fun a => (prepPacked S t xs).bind fun b => .ok (a ++ b) := rfl

/-- every element of a packable type has a non-empty encoding of known shape -/
theorem prepPlain_packable (t : PType) (x : Val) (ht : isPacked t = true) (hx : scalarOk t x = true) :
    ∃ b, prepPlain t x = .ok b ∧ b ≠ [] := by
  obtain ⟨b, h1, h2⟩ := elem_rt t x ht hx
  exact ⟨b, h1, h2.1⟩

/-- a list of well-typed elements can be packed; the buffer is empty iff the list is -/
theorem prepPacked_ok (S : Schema) (t : PType) (xs : List Val) (ht : isPacked t = true)
    (hx : ∀ x ∈ xs, scalarOk t x = true) :
    ∃ buf, prepPacked S t xs = .ok buf ∧ (buf = [] ↔ xs = []) := by
  induction xs with
  | nil => exact ⟨[], rfl, by simp⟩
  | cons x xs ih =>
    obtain ⟨b, h1, h2⟩ := prepPlain_packable t x ht (hx x (by simp))
    obtain ⟨buf, h3, _⟩ := ih (fun y hy => hx y (by simp [hy]))
    refine ⟨b ++ buf, ?_, ?_⟩
    · rw [prepPacked_cons, prepScalar_packed S t ht, h1, h3]; rfl
    · constructor
      · intro hc; exact absurd (List.append_eq_nil_iff.mp hc).1 h2
      · intro hc; exact absurd hc (by simp)

/-- the decoder run with any fuel exceeding the number of elements -/
theorem packed_fuel (S : Schema) (t : PType) (xs : List Val) (ht : isPacked t = true)
    (hx : ∀ x ∈ xs, scalarOk t x = true) :
    ∀ buf, prepPacked S t xs = .ok buf → ∀ fuel, xs.length < fuel → decodePackedFuel t fuel buf = .ok xs := by
  induction xs with
  | nil =>
    intro buf h fuel hf
    have : buf = [] := by
      have h' : (Except.ok [] : R Bytes) = .ok buf := h
      injection h' with h'; exact h'.symm
    subst this
    cases fuel with
    | zero => simp at hf
    | succ f => rfl
  | cons x xs ih =>
    intro buf h fuel hf
    obtain ⟨b, h1, h2⟩ := elem_rt t x ht (hx x (by simp))
    obtain ⟨buf', h3, _⟩ := prepPacked_ok S t xs ht (fun y hy => hx y (by simp [hy]))
    rw [prepPacked_cons, prepScalar_packed S t ht, h1, h3] at h
    have hb : buf = b ++ buf' := by
      have h' : (Except.ok (b ++ buf') : R Bytes) = .ok buf := h
      injection h' with h'; exact h'.symm
    subst hb
    cases fuel with
    | zero => simp at hf
    | succ f =>
      simp only [List.length_cons] at hf
      rw [h2.2 f buf', ih (fun y hy => hx y (by simp [hy])) buf' h3 f (by omega)]
      rfl

/-- every element takes at least one byte -/
theorem prepPacked_length (S : Schema) (t : PType) (xs : List Val) (ht : isPacked t = true)
    (hx : ∀ x ∈ xs, scalarOk t x = true) :
    ∀ buf, prepPacked S t xs = .ok buf → xs.length ≤ buf.length := by
  induction xs with
  | nil => intro buf _; simp
  | cons x xs ih =>
    intro buf h
    obtain ⟨b, h1, h2⟩ := prepPlain_packable t x ht (hx x (by simp))
    obtain ⟨buf', h3, _⟩ := prepPacked_ok S t xs ht (fun y hy => hx y (by simp [hy]))
    rw [prepPacked_cons, prepScalar_packed S t ht, h1, h3] at h
    have hb : buf = b ++ buf' := by
      have h' : (Except.ok (b ++ buf') : R Bytes) = .ok buf := h
      injection h' with h'; exact h'.symm
    subst hb
    have := ih (fun y hy => hx y (by simp [hy])) buf' h3
    have hbl : 0 < b.length := List.length_pos_iff.mpr h2
    simp only [List.length_cons, List.length_append]
    omega

/-- **a packed payload decodes to exactly the list it was made from** -/
theorem packed_roundtrip (S : Schema) (t : PType) (xs : List Val) (buf : Bytes)
    (ht : isPacked t = true) (hx : ∀ x ∈ xs, scalarOk t x = true)
    (h : prepPacked S t xs = .ok buf) :
    decodePacked t buf = .ok xs := by
  unfold decodePacked
  have := prepPacked_length S t xs ht hx buf h
  exact packed_fuel S t xs ht hx buf h _ (by omega)

/-- … and two chunks decode to the concatenation (a packed field split into several chunks) -/
theorem packed_append (S : Schema) (t : PType) (xs ys : List Val) (b1 b2 : Bytes)
    (ht : isPacked t = true) (hx : ∀ x ∈ xs ++ ys, scalarOk t x = true)
    (h1 : prepPacked S t xs = .ok b1) (h2 : prepPacked S t ys = .ok b2) :
    prepPacked S t (xs ++ ys) = .ok (b1 ++ b2) := by
  induction xs generalizing b1 with
  | nil =>
    have : b1 = [] := by
      have h' : (Except.ok [] : R Bytes) = .ok b1 := h1
      injection h' with h'; exact h'.symm
    subst this
    exact h2
  | cons x xs ih =>
    obtain ⟨b, h3, _⟩ := prepPlain_packable t x ht (hx x (by simp))
    obtain ⟨buf', h4, _⟩ := prepPacked_ok S t xs ht (fun y hy => hx y (by simp [hy]))
    rw [prepPacked_cons, prepScalar_packed S t ht, h3, h4] at h1
    have hb : b1 = b ++ buf' := by
      have h' : (Except.ok (b ++ buf') : R Bytes) = .ok b1 := h1
      injection h' with h'; exact h'.symm
    subst hb
    rw [List.cons_append, prepPacked_cons, prepScalar_packed S t ht, h3,
      ih buf' (fun y hy => hx y (by simp at hy ⊢; rcases hy with hy | hy <;> simp [hy])) h4,
      List.append_assoc]
    rfl

/-! ### the record: tag, length, payload -/

theorem frame_bytes (num : Nat) (buf : Bytes) (h : buf ≠ []) :
    frame num .bytes buf false false = .ok (encNat (num * 8 + 2) ++ encNat buf.length ++ buf) := by
  have hl : (buf.length != 0 || false || false) = true := by
    have : buf.length ≠ 0 := fun hc => h (List.length_eq_zero_iff.mp hc)
    simp [this]
  unfold frame
  rw [if_neg (by decide), if_neg (by decide), if_neg (by decide), if_pos (by decide), if_pos hl,
    dumpVarint_nat, dumpVarint_nat]
  rfl

/-- `load_fields` on a length-delimited record written by `frame` -/
theorem loadField_lenrec (num : Nat) (buf rest : Bytes) (h0 : 0 < num) (h1 : num < 536870912)
    (hlen : buf.length < 2 ^ 64) :
    loadField (encNat (num * 8 + 2) ++ encNat buf.length ++ buf ++ rest)
      = .ok ({ num := num, wt := 2, vint := 0, payload := buf,
               raw := encNat (num * 8 + 2) ++ encNat buf.length ++ buf }, rest) := by
  have htag : num * 8 + 2 < 2 ^ 64 := by omega
  have e1 : encNat (num * 8 + 2) ++ encNat buf.length ++ buf ++ rest
      = encNat (num * 8 + 2) ++ (encNat buf.length ++ (buf ++ rest)) := by
    simp only [List.append_assoc]
  have hd : (num * 8 + 2) / 8 = num := by omega
  have hm : (num * 8 + 2) % 8 = 2 := by omega
  have hz : (num == 0) = false := by simpa using (by omega : num ≠ 0)
  -- the payload
  have hp : loadPayload 2 (encNat buf.length ++ (buf ++ rest))
      = .ok (0, buf, (encNat buf.length).length + buf.length) := by
    unfold loadPayload
    rw [if_neg (by decide), if_neg (by decide), if_pos (by decide), loadVarint_encNat _ _ hlen]
    simp only [List.drop_left]
    rw [if_neg (by simp), List.take_left]
  unfold loadField
  rw [e1, loadVarint_encNat _ _ htag]
  simp only [hd, hm, hz, Bool.false_eq_true, if_false, List.drop_left, hp]
  have e2 : (encNat (num * 8 + 2)).length + ((encNat buf.length).length + buf.length)
      = (encNat (num * 8 + 2) ++ encNat buf.length ++ buf).length := by
    simp only [List.length_append]; omega
  rw [← e1, e2, List.take_left, List.drop_left]

theorem wireFits_packed (f : FieldD) (ht : isPacked f.ty = true) (hrep : f.repeated = true) :
    wireFits f 2 = true := by
  have hf : ∃ p, wireTypeByProtoType.find? (·.1 == f.ty) = some p := by
    cases f.ty <;> exact ⟨_, rfl⟩
  obtain ⟨⟨a, w⟩, hp⟩ := hf
  unfold wireFits
  rw [hp]
  simp [ht, hrep, wireLenDelim]

/-- **the packed record of a repeated scalar field decodes to the list**, consuming exactly
    its own bytes, whatever follows -/
theorem packed_record_roundtrip (S : Schema) (rec : Loader) (f : FieldD) (xs : List Val) (out rest : Bytes)
    (hnum : numOk f.num = true) (ht : isPacked f.ty = true) (hrep : f.repeated = true)
    (hx : ∀ x ∈ xs, scalarOk f.ty x = true) (hne : xs ≠ []) (hlen : out.length < 2 ^ 64)
    (h : ((prepPacked S f.ty xs).bind fun buf => frame f.num .bytes buf false false) = .ok out) :
    ∃ pf, loadField (out ++ rest) = .ok (pf, rest) ∧ pf.num = f.num ∧ pf.raw = out
      ∧ wireFits f pf.wt = true ∧ decodeValue S rec f pf = .ok (.list xs) := by
  obtain ⟨buf, hb, hbe⟩ := prepPacked_ok S f.ty xs ht hx
  have hbne : buf ≠ [] := fun hc => hne (hbe.mp hc)
  rw [hb, bind_ok, frame_bytes f.num buf hbne] at h
  have ho : out = encNat (f.num * 8 + 2) ++ encNat buf.length ++ buf := by
    injection h with h'; exact h'.symm
  have hn : 0 < f.num ∧ f.num < 536870912 := by
    simpa [numOk] using hnum
  have hbl : buf.length < 2 ^ 64 := by
    have : buf.length ≤ out.length := by
      rw [ho]; simp only [List.length_append]; omega
    omega
  refine ⟨{ num := f.num, wt := 2, vint := 0, payload := buf, raw := out }, ?_, rfl, rfl,
    wireFits_packed f ht hrep, ?_⟩
  · rw [ho]; exact loadField_lenrec f.num buf rest hn.1 hn.2 hbl
  · unfold decodeValue
    have hc : ((2 : Nat) == wireLenDelim && isPacked f.ty) = true := by rw [ht]; rfl
    simp only [hc, if_true]
    rw [packed_roundtrip S f.ty xs buf ht hx hb]
    rfl

/-! ### non-vacuity and axioms -/

example : prepPacked [] .sint32 [.int (-1), .int 150] = .ok [1, 172, 2] := by decide
example : decodePacked .sint32 [1, 172, 2] = .ok [.int (-1), .int 150] := rfl
-- the hypotheses of `packed_record_roundtrip` are jointly satisfiable (protobuf's own example, field 4)
example : ((prepPacked [] .int32 [.int 3, .int 270, .int 86942]).bind fun buf => frame 4 .bytes buf false false)
    = .ok [0x22, 6, 3, 0x8E, 2, 0x9E, 0xA7, 5] := by decide
example : numOk 4 = true ∧ isPacked .int32 = true
    ∧ ∀ x ∈ [Val.int 3, .int 270, .int 86942], scalarOk .int32 x = true := by
  refine ⟨by decide, by decide, ?_⟩
  intro x hx
  simp only [List.mem_cons, List.not_mem_nil, or_false] at hx
  rcases hx with rfl | rfl | rfl <;> decide

#print axioms prepPlain_packable
#print axioms prepPacked_ok
#print axioms packed_roundtrip
#print axioms packed_append
#print axioms packed_record_roundtrip

end Bp
