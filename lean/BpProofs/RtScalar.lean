import BpModel.All
import BpProofs.Varint
import BpProofs.Props.C16
import BpProofs.Fields
import BpProofs.Len
/-
  Round trip of ONE record of a scalar field (everything but message / map):
  `serializeScalar` followed by `loadField` + `decodeValue` gives the value back and
  consumes exactly the record's own bytes.  Building block of the message-level
  round-trip theorem C01.

  Layout: list helpers, the tag, payload framing (`loadPayload`), `loadField` per wire
  class, `frame` per wire class, `prepPlain` per value kind (`payload_spec`), the decoder
  side (`wireFits`, `decodeValue`), then the assembled theorems.
-/
namespace Bp
open Gen

/-! ### list helpers -/

theorem take_app_len (a b : Bytes) : (a ++ b).take a.length = a := by
  induction a with
  | nil => simp
  | cons x xs ih => simp [ih]

theorem drop_app_len (a b : Bytes) : (a ++ b).drop a.length = b := by
  induction a with
  | nil => simp
  | cons x xs ih => simp

theorem take_app_len_add (a b : Bytes) (n : Nat) : (a ++ b).take (a.length + n) = a ++ b.take n := by
  induction a with
  | nil => simp
  | cons x xs ih =>
    have e : (x :: xs).length + n = (xs.length + n) + 1 := by simp only [List.length_cons]; omega
    rw [e, List.cons_append, List.take_succ_cons, ih, List.cons_append]

theorem drop_app_len_add (a b : Bytes) (n : Nat) : (a ++ b).drop (a.length + n) = b.drop n := by
  induction a with
  | nil => simp
  | cons x xs ih =>
    have e : (x :: xs).length + n = (xs.length + n) + 1 := by simp only [List.length_cons]; omega
    rw [e, List.cons_append, List.drop_succ_cons, ih]

theorem two64_eq : (2 : Nat) ^ 64 = 18446744073709551616 := by decide

/-! ### the tag -/

theorem numOk_iff (n : Nat) : numOk n = true ↔ 0 < n ∧ n < 536870912 := by
  simp [numOk]

/-- the tag of a record round-trips: number and wire type are recovered -/
theorem tag_roundtrip (num wt : Nat) (hn : numOk num = true) (hw : wt < 8) (rest : Bytes) :
    loadVarint (encNat (num * 8 + wt) ++ rest) = .ok (num * 8 + wt, (encNat (num * 8 + wt)).length)
    ∧ (num * 8 + wt) / 8 = num ∧ (num * 8 + wt) % 8 = wt ∧ ((num * 8 + wt) / 8 == 0) = false := by
  have hn' := (numOk_iff num).mp hn
  have e64 := two64_eq
  have hd : (num * 8 + wt) / 8 = num := by omega
  refine ⟨loadVarint_encNat _ _ (by omega), hd, by omega, ?_⟩
  rw [hd]
  exact beq_eq_false_iff_ne.mpr (by omega)

/-- `loadField` on a tag followed by a payload `loadPayload` accepts -/
theorem loadField_tag (num wt : Nat) (hn : numOk num = true) (hw : wt < 8) (body : Bytes)
    (v : Nat) (p : Bytes) (c : Nat) (hp : loadPayload wt body = .ok (v, p, c)) :
    loadField (encNat (num * 8 + wt) ++ body)
      = .ok ({ num := num, wt := wt, vint := v, payload := p,
               raw := encNat (num * 8 + wt) ++ body.take c }, body.drop c) := by
  obtain ⟨h1, h2, h3, h4⟩ := tag_roundtrip num wt hn hw body
  unfold loadField
  rw [h1]
  rw [h2] at h4
  simp only [h2, h3, h4, Bool.false_eq_true, if_false]
  rw [drop_app_len, hp]
  simp only [take_app_len_add, drop_app_len_add]

/-! ### payload framing -/

theorem loadPayload_varint (n : Nat) (h : n < 2 ^ 64) (rest : Bytes) :
    loadPayload 0 (encNat n ++ rest) = .ok (n, [], (encNat n).length) := by
  unfold loadPayload
  rw [if_pos (by decide), loadVarint_encNat n rest h]

theorem loadPayload_fixed32 (p rest : Bytes) (hp : p.length = 4) :
    loadPayload 5 (p ++ rest) = .ok (0, p, 4) := by
  unfold loadPayload
  rw [if_neg (by decide), if_neg (by decide), if_neg (by decide), if_pos (by decide),
    if_neg (by rw [List.length_append]; omega)]
  rw [← hp, take_app_len]

theorem loadPayload_fixed64 (p rest : Bytes) (hp : p.length = 8) :
    loadPayload 1 (p ++ rest) = .ok (0, p, 8) := by
  unfold loadPayload
  rw [if_neg (by decide), if_pos (by decide), if_neg (by rw [List.length_append]; omega)]
  rw [← hp, take_app_len]

theorem loadPayload_len (p rest : Bytes) (hp : p.length < 2 ^ 64) :
    loadPayload 2 (encNat p.length ++ (p ++ rest))
      = .ok (0, p, (encNat p.length).length + p.length) := by
  unfold loadPayload
  rw [if_neg (by decide), if_neg (by decide), if_pos (by decide), loadVarint_encNat _ _ hp]
  simp only []
  rw [drop_app_len, if_neg (by rw [List.length_append]; omega), take_app_len]

/-! ### `loadField` on one record of each wire class -/

theorem loadField_varint (num n : Nat) (hn : numOk num = true) (hlt : n < 2 ^ 64) (rest : Bytes) :
    loadField ((encNat (num * 8) ++ encNat n) ++ rest)
      = .ok ({ num := num, wt := 0, vint := n, payload := [], raw := encNat (num * 8) ++ encNat n }, rest) := by
  have := loadField_tag num 0 hn (by omega) (encNat n ++ rest) n [] _ (loadPayload_varint n hlt rest)
  rw [take_app_len, drop_app_len, Nat.add_zero] at this
  rw [List.append_assoc, this]

theorem loadField_fixed32 (num : Nat) (p : Bytes) (hn : numOk num = true) (hp : p.length = 4) (rest : Bytes) :
    loadField ((encNat (num * 8 + 5) ++ p) ++ rest)
      = .ok ({ num := num, wt := 5, vint := 0, payload := p, raw := encNat (num * 8 + 5) ++ p }, rest) := by
  have := loadField_tag num 5 hn (by omega) (p ++ rest) 0 p 4 (loadPayload_fixed32 p rest hp)
  have e1 : (p ++ rest).take 4 = p := by rw [← hp, take_app_len]
  have e2 : (p ++ rest).drop 4 = rest := by rw [← hp, drop_app_len]
  rw [e1, e2] at this
  rw [List.append_assoc, this]

theorem loadField_fixed64 (num : Nat) (p : Bytes) (hn : numOk num = true) (hp : p.length = 8) (rest : Bytes) :
    loadField ((encNat (num * 8 + 1) ++ p) ++ rest)
      = .ok ({ num := num, wt := 1, vint := 0, payload := p, raw := encNat (num * 8 + 1) ++ p }, rest) := by
  have := loadField_tag num 1 hn (by omega) (p ++ rest) 0 p 8 (loadPayload_fixed64 p rest hp)
  have e1 : (p ++ rest).take 8 = p := by rw [← hp, take_app_len]
  have e2 : (p ++ rest).drop 8 = rest := by rw [← hp, drop_app_len]
  rw [e1, e2] at this
  rw [List.append_assoc, this]

theorem loadField_len (num : Nat) (p : Bytes) (hn : numOk num = true) (hp : p.length < 2 ^ 64) (rest : Bytes) :
    loadField ((encNat (num * 8 + 2) ++ encNat p.length ++ p) ++ rest)
      = .ok ({ num := num, wt := 2, vint := 0, payload := p,
               raw := encNat (num * 8 + 2) ++ encNat p.length ++ p }, rest) := by
  have := loadField_tag num 2 hn (by omega) (encNat p.length ++ (p ++ rest)) 0 p _ (loadPayload_len p rest hp)
  rw [take_app_len_add, drop_app_len_add, take_app_len, drop_app_len] at this
  rw [List.append_assoc, List.append_assoc, List.append_assoc, this]

/-! ### wire classes of the regenerated tables -/

abbrev VarintT (t : PType) : Prop :=
  wireVarintTypes.contains t = true ∧ wireTypeByProtoType.find? (·.1 == t) = some (t, 0)

abbrev Fixed32T (t : PType) : Prop :=
  wireVarintTypes.contains t = false ∧ wireFixed32Types.contains t = true
  ∧ wireTypeByProtoType.find? (·.1 == t) = some (t, 5)

abbrev Fixed64T (t : PType) : Prop :=
  wireVarintTypes.contains t = false ∧ wireFixed32Types.contains t = false
  ∧ wireFixed64Types.contains t = true ∧ wireTypeByProtoType.find? (·.1 == t) = some (t, 1)

abbrev LenT (t : PType) : Prop :=
  wireVarintTypes.contains t = false ∧ wireFixed32Types.contains t = false
  ∧ wireFixed64Types.contains t = false ∧ wireLenDelimTypes.contains t = true
  ∧ wireTypeByProtoType.find? (·.1 == t) = some (t, 2) ∧ isPacked t = false ∧ (t == .map) = false

theorem bool_tf {b : Bool} (h1 : b = true) (h2 : b = false) : False := by
  rw [h1] at h2; exact absurd h2 (by decide)

/-! ### `frame` per wire class -/

theorem frame_varint (num : Nat) (t : PType) (pre : Bytes) (se w : Bool) (h : VarintT t) :
    frame num t pre se w = .ok (encNat (num * 8) ++ pre) := by
  unfold frame
  rw [if_pos h.1, dumpVarint_nat]; rfl

theorem frame_fixed32 (num : Nat) (t : PType) (pre : Bytes) (se w : Bool) (h : Fixed32T t) :
    frame num t pre se w = .ok (encNat (num * 8 + 5) ++ pre) := by
  unfold frame
  rw [if_neg (by rw [h.1]; decide), if_pos h.2.1, dumpVarint_nat]; rfl

theorem frame_fixed64 (num : Nat) (t : PType) (pre : Bytes) (se w : Bool) (h : Fixed64T t) :
    frame num t pre se w = .ok (encNat (num * 8 + 1) ++ pre) := by
  unfold frame
  rw [if_neg (by rw [h.1]; decide), if_neg (by rw [h.2.1]; decide), if_pos h.2.2.1, dumpVarint_nat]; rfl

theorem frame_len (num : Nat) (t : PType) (pre : Bytes) (se w : Bool) (h : LenT t) :
    frame num t pre se w
      = if (pre.length != 0 || se || w) = true
        then .ok (encNat (num * 8 + 2) ++ encNat pre.length ++ pre) else .ok [] := by
  unfold frame
  rw [if_neg (by rw [h.1]; decide), if_neg (by rw [h.2.1]; decide), if_neg (by rw [h.2.2.1]; decide),
    if_pos h.2.2.2.1, dumpVarint_nat, dumpVarint_nat]; rfl

/-! ### `_preprocess_single` per value kind -/

/-- what the preprocessed payload of a well-typed scalar looks like, by wire class, and
    what the matching `_postprocess_single` makes of it -/
def PayloadSpec (t : PType) (v : Val) (pre : Bytes) : Prop :=
  (VarintT t ∧ ∃ n, pre = encNat n ∧ n < 2 ^ 64 ∧ postVarint t n = v)
  ∨ (Fixed32T t ∧ pre.length = 4 ∧ postFixed t pre = .ok v)
  ∨ (Fixed64T t ∧ pre.length = 8 ∧ postFixed t pre = .ok v)
  ∨ (LenT t ∧ ((t = .string ∧ v = .str pre ∧ utf8Valid pre = true) ∨ (t = .bytes ∧ v = .byt pre)))

theorem asU64_lt (i : Int) (hlo : -two63 ≤ i) (hhi : i < two64) : asU64 i < 2 ^ 64 := by
  rw [two64_eq]
  unfold asU64 two64 two63 at *
  split <;> omega

theorem asU64_nonneg (i : Int) (h : 0 ≤ i) : asU64 i = i.toNat := by
  unfold asU64
  rw [if_neg (by omega)]

/-- plain varint kinds (enum, int32, int64, uint32, uint64) holding an int -/
theorem spec_varint_int (t : PType) (i : Int)
    (ht : (t == .enum || t == .bool || t == .int32 || t == .int64 || t == .uint32 || t == .uint64) = true)
    (hV : VarintT t) (hlo : -two63 ≤ i) (hhi : i < two64) (hpost : postVarint t (asU64 i) = .int i) :
    ∃ pre, prepPlain t (.int i) = .ok pre ∧ PayloadSpec t (.int i) pre := by
  refine ⟨encNat (asU64 i), ?_, Or.inl ⟨hV, _, rfl, asU64_lt i hlo hhi, hpost⟩⟩
  unfold prepPlain
  rw [if_pos ht]
  exact C16.dumpVarint_eq i hlo

/-- zig-zag kinds -/
theorem spec_sint (t : PType) (i : Int)
    (ht0 : (t == .enum || t == .bool || t == .int32 || t == .int64 || t == .uint32 || t == .uint64) = false)
    (ht : (t == .sint32 || t == .sint64) = true)
    (hV : VarintT t) (hlo : -two63 ≤ i) (hhi : i < two63) (hpost : ∀ n, postVarint t n = .int (unzig n)) :
    ∃ pre, prepPlain t (.int i) = .ok pre ∧ PayloadSpec t (.int i) pre := by
  have hz := C16.zig_range64 i hlo hhi
  have hz0 : -two63 ≤ zig i := by unfold two63; omega
  refine ⟨encNat (asU64 (zig i)), ?_, Or.inl ⟨hV, _, rfl, asU64_lt _ hz0 hz.2, ?_⟩⟩
  · unfold prepPlain
    rw [if_neg (by rw [ht0]; decide), if_pos ht]
    exact C16.dumpVarint_eq (zig i) hz0
  · rw [hpost, asU64_nonneg _ hz.1, unzig_zig]

/-- integer fixed-width kinds -/
theorem spec_fixed_int (t : PType) (w : Nat) (signed : Bool) (i : Int)
    (ht0 : (t == .enum || t == .bool || t == .int32 || t == .int64 || t == .uint32 || t == .uint64) = false)
    (ht1 : (t == .sint32 || t == .sint64) = false) (ht : isFixed t = true)
    (hf : fmtOf t = some (w, signed, false)) (hw : 1 ≤ w)
    (hr : if signed then -(2 ^ (8 * w - 1) : Nat) ≤ i ∧ i < (2 ^ (8 * w - 1) : Nat)
          else 0 ≤ i ∧ i < (2 ^ (8 * w) : Nat)) :
    ∃ pre, prepPlain t (.int i) = .ok pre ∧ pre.length = w ∧ postFixed t pre = .ok (.int i) := by
  obtain ⟨bs, h1, h2, h3⟩ := C16.packFixed_postFixed_int t w signed hf hw i hr
  refine ⟨bs, ?_, h2, h3⟩
  unfold prepPlain
  rw [if_neg (by rw [ht0]; decide), if_neg (by rw [ht1]; decide), if_pos ht]
  exact h1

theorem scalarOk_str (t : PType) (s : Bytes) (h : scalarOk t (.str s) = true) :
    t = .string ∧ utf8Valid s = true := by
  simp [scalarOk] at h
  exact ⟨h.1.1, h.1.2⟩

theorem scalarOk_byt (t : PType) (s : Bytes) (h : scalarOk t (.byt s) = true) : t = .bytes := by
  simp [scalarOk] at h
  exact h.1

/-- **the payload of every well-typed scalar**: `_preprocess_single` succeeds, and the
    payload is what the decoder of the type's wire class turns back into the value -/
theorem payload_spec (t : PType) (v : Val) (hty : isScalarType t = true) (hv : scalarOk t v = true) :
    ∃ pre, prepPlain t v = .ok pre ∧ PayloadSpec t v pre := by
  cases v with
  | int i =>
    cases t <;> simp [scalarOk, intInRange] at hv
    case enum =>
      exact spec_varint_int .enum i (by decide) (by decide) (by unfold two63; omega) (by unfold two64; omega)
        (by show Val.int (signRecover 32 (asU64 i)) = _; rw [signRecover32 i hv.1 hv.2])
    case int32 =>
      exact spec_varint_int .int32 i (by decide) (by decide) (by unfold two63; omega) (by unfold two64; omega)
        (by show Val.int (signRecover 32 (asU64 i)) = _; rw [signRecover32 i hv.1 hv.2])
    case int64 =>
      exact spec_varint_int .int64 i (by decide) (by decide) (by unfold two63; omega) (by unfold two64; omega)
        (by show Val.int (signRecover 64 (asU64 i)) = _; rw [signRecover64 i hv.1 hv.2])
    case uint32 =>
      exact spec_varint_int .uint32 i (by decide) (by decide) (by unfold two63; omega) (by unfold two64; omega)
        (by show Val.int ((asU64 i : Nat) : Int) = _; rw [asU64_nonneg i hv.1, Int.toNat_of_nonneg hv.1])
    case uint64 =>
      exact spec_varint_int .uint64 i (by decide) (by decide) (by unfold two63; omega) (by unfold two64; omega)
        (by show Val.int ((asU64 i : Nat) : Int) = _; rw [asU64_nonneg i hv.1, Int.toNat_of_nonneg hv.1])
    case sint32 =>
      exact spec_sint .sint32 i (by decide) (by decide) (by decide) (by unfold two63; omega)
        (by unfold two63; omega) (fun _ => rfl)
    case sint64 =>
      exact spec_sint .sint64 i (by decide) (by decide) (by decide) (by unfold two63; omega)
        (by unfold two63; omega) (fun _ => rfl)
    case fixed32 =>
      obtain ⟨pre, h1, h2, h3⟩ := spec_fixed_int .fixed32 4 false i (by decide) (by decide) (by decide)
        (by decide) (by omega) (by simp only [Bool.false_eq_true, if_false]; omega)
      exact ⟨pre, h1, Or.inr (Or.inl ⟨by decide, h2, h3⟩)⟩
    case sfixed32 =>
      obtain ⟨pre, h1, h2, h3⟩ := spec_fixed_int .sfixed32 4 true i (by decide) (by decide) (by decide)
        (by decide) (by omega) (by simp only [if_true]; omega)
      exact ⟨pre, h1, Or.inr (Or.inl ⟨by decide, h2, h3⟩)⟩
    case fixed64 =>
      obtain ⟨pre, h1, h2, h3⟩ := spec_fixed_int .fixed64 8 false i (by decide) (by decide) (by decide)
        (by decide) (by omega) (by simp only [Bool.false_eq_true, if_false]; omega)
      exact ⟨pre, h1, Or.inr (Or.inr (Or.inl ⟨by decide, h2, h3⟩))⟩
    case sfixed64 =>
      obtain ⟨pre, h1, h2, h3⟩ := spec_fixed_int .sfixed64 8 true i (by decide) (by decide) (by decide)
        (by decide) (by omega) (by simp only [if_true]; omega)
      exact ⟨pre, h1, Or.inr (Or.inr (Or.inl ⟨by decide, h2, h3⟩))⟩
  | bool b =>
    have ht : t = .bool := by simpa [scalarOk] using hv
    subst ht
    cases b
    · exact ⟨[0], rfl, Or.inl ⟨by decide, 0, rfl, by omega, rfl⟩⟩
    · exact ⟨[1], rfl, Or.inl ⟨by decide, 1, rfl, by omega, rfl⟩⟩
  | f32 b =>
    simp [scalarOk] at hv
    obtain ⟨⟨ht, hb⟩, hq⟩ := hv
    subst ht
    obtain ⟨bs, h1, h2, h3⟩ := C16.float_roundtrip b (by rw [show (2:Nat) ^ 32 = 4294967296 from rfl]; exact hb) hq
    exact ⟨bs, h1, Or.inr (Or.inl ⟨by decide, h2, h3⟩)⟩
  | f64 b =>
    simp [scalarOk] at hv
    obtain ⟨ht, hb⟩ := hv
    subst ht
    obtain ⟨bs, h1, h2, h3⟩ := C16.double_roundtrip b (by rw [two64_eq]; exact hb)
    exact ⟨bs, h1, Or.inr (Or.inr (Or.inl ⟨by decide, h2, h3⟩))⟩
  | str s =>
    obtain ⟨ht, hu⟩ := scalarOk_str t s hv
    subst ht
    exact ⟨s, rfl, Or.inr (Or.inr (Or.inr ⟨by decide, Or.inl ⟨rfl, rfl, hu⟩⟩))⟩
  | byt s =>
    have ht := scalarOk_byt t s hv
    subst ht
    exact ⟨s, rfl, Or.inr (Or.inr (Or.inr ⟨by decide, Or.inr ⟨rfl, rfl⟩⟩))⟩
  | _ => simp [scalarOk] at hv

/-! ### the decoder side -/

theorem wireFits_of (f : FieldD) (w : Nat)
    (h : wireTypeByProtoType.find? (·.1 == f.ty) = some (f.ty, w)) : wireFits f w = true := by
  unfold wireFits
  rw [h]
  simp

theorem decodeValue_varint (S : Schema) (rec : Loader) (f : FieldD) (pf : PField) (h : pf.wt = 0) :
    decodeValue S rec f pf = .ok (postVarint f.ty pf.vint) := by
  unfold decodeValue
  rw [h]
  have e : ((0 : Nat) == wireLenDelim) = false := by decide
  rw [e, Bool.false_and, if_neg (by decide), if_pos (by decide)]

theorem decodeValue_fixed (S : Schema) (rec : Loader) (f : FieldD) (pf : PField)
    (h : pf.wt = 5 ∨ pf.wt = 1) : decodeValue S rec f pf = postFixed f.ty pf.payload := by
  unfold decodeValue
  rcases h with h | h
  · rw [h]
    have e : ((5 : Nat) == wireLenDelim) = false := by decide
    rw [e, Bool.false_and, if_neg (by decide), if_neg (by decide), if_pos (by decide)]
  · rw [h]
    have e : ((1 : Nat) == wireLenDelim) = false := by decide
    rw [e, Bool.false_and, if_neg (by decide), if_neg (by decide), if_pos (by decide)]

theorem decodeValue_len (S : Schema) (rec : Loader) (f : FieldD) (pf : PField) (h : pf.wt = 2)
    (hp : isPacked f.ty = false) (hm : (f.ty == .map) = false) :
    decodeValue S rec f pf = postLen S rec f pf.payload := by
  unfold decodeValue
  rw [h, hp, Bool.and_false, if_neg (by decide), if_neg (by decide), if_neg (by decide), hm,
    if_neg (by decide)]

theorem postLen_string (S : Schema) (rec : Loader) (f : FieldD) (p : Bytes) (h : f.ty = .string)
    (hu : utf8Valid p = true) : postLen S rec f p = .ok (.str p) := by
  unfold postLen
  rw [h, if_pos (by decide), if_pos hu]

theorem postLen_bytes (S : Schema) (rec : Loader) (f : FieldD) (p : Bytes) (h : f.ty = .bytes) :
    postLen S rec f p = .ok (.byt p) := by
  unfold postLen
  rw [h, if_neg (by decide), if_neg (by decide)]

/-! ### serialisation of a scalar record, by wire class -/

theorem isScalar_ne (t : PType) (h : isScalarType t = true) : (t == .message) = false := by
  cases t <;> first | rfl | (exact absurd h (by decide))

theorem serializeScalar_plain (S : Schema) (num : Nat) (t : PType) (v : Val) (se : Bool)
    (hty : isScalarType t = true) :
    serializeScalar S num t v se Option.none = (prepPlain t v).bind fun pre => frame num t pre se false := by
  unfold serializeScalar prepScalar
  rw [if_neg (by rw [isScalar_ne t hty]; decide)]
  rfl

/-- the shape of a scalar record: tag ++ payload, tag ++ length ++ payload, or (length-delimited
    type, empty payload, no serialize_empty) nothing at all -/
theorem serializeScalar_shape (S : Schema) (num : Nat) (t : PType) (v : Val) (se : Bool)
    (hty : isScalarType t = true) (hv : scalarOk t v = true) :
    ∃ pre, PayloadSpec t v pre ∧
      serializeScalar S num t v se Option.none =
        if VarintT t then .ok (encNat (num * 8) ++ pre)
        else if Fixed32T t then .ok (encNat (num * 8 + 5) ++ pre)
        else if Fixed64T t then .ok (encNat (num * 8 + 1) ++ pre)
        else if (pre.length != 0 || se) = true then .ok (encNat (num * 8 + 2) ++ encNat pre.length ++ pre)
        else .ok [] := by
  obtain ⟨pre, hpre, spec⟩ := payload_spec t v hty hv
  refine ⟨pre, spec, ?_⟩
  rw [serializeScalar_plain S num t v se hty, hpre, bind_ok]
  rcases spec with ⟨hT, _⟩ | ⟨hT, _⟩ | ⟨hT, _⟩ | ⟨hT, _⟩
  · rw [if_pos hT, frame_varint _ _ _ _ _ hT]
  · rw [if_neg (fun hc => bool_tf hc.1 hT.1), if_pos hT,
      frame_fixed32 _ _ _ _ _ hT]
  · rw [if_neg (fun hc => bool_tf hc.1 hT.1),
      if_neg (fun hc => bool_tf hc.2.1 hT.2.1), if_pos hT,
      frame_fixed64 _ _ _ _ _ hT]
  · rw [if_neg (fun hc => bool_tf hc.1 hT.1),
      if_neg (fun hc => bool_tf hc.2.1 hT.2.1),
      if_neg (fun hc => bool_tf hc.2.2.1 hT.2.2.1),
      frame_len _ _ _ _ _ hT, Bool.or_false]

/-- every well-typed scalar value can be serialised -/
theorem serializeScalar_ok (S : Schema) (num : Nat) (t : PType) (v : Val) (se : Bool)
    (hty : isScalarType t = true) (hv : scalarOk t v = true) :
    ∃ out, serializeScalar S num t v se Option.none = .ok out := by
  obtain ⟨pre, _, h⟩ := serializeScalar_shape S num t v se hty hv
  rw [h]
  split
  · exact ⟨_, rfl⟩
  · split
    · exact ⟨_, rfl⟩
    · split
      · exact ⟨_, rfl⟩
      · split <;> exact ⟨_, rfl⟩

/-- when does a scalar record come out empty: only a length-delimited type with an empty
    payload and no serialize_empty -/
theorem serializeScalar_empty_iff (S : Schema) (num : Nat) (t : PType) (v : Val) (se : Bool) (out : Bytes)
    (hty : isScalarType t = true) (hv : scalarOk t v = true)
    (h : serializeScalar S num t v se Option.none = .ok out) :
    out = [] ↔ (se = false ∧ (v = .str [] ∨ v = .byt [])) := by
  obtain ⟨pre, spec, hs⟩ := serializeScalar_shape S num t v se hty hv
  rw [hs] at h
  -- a value that is a str / bytes forces the length-delimited class
  have hstr : ∀ s, v = .str s → t = .string := fun s e => (scalarOk_str t s (e ▸ hv)).1
  have hbyt : ∀ s, v = .byt s → t = .bytes := fun s e => scalarOk_byt t s (e ▸ hv)
  have notLen : (VarintT t ∨ Fixed32T t ∨ Fixed64T t) → ¬ (v = .str [] ∨ v = .byt []) := by
    intro hc hv'
    have ht : t = .string ∨ t = .bytes := by
      rcases hv' with e | e
      · exact Or.inl (hstr _ e)
      · exact Or.inr (hbyt _ e)
    rcases ht with e | e <;> subst e <;> revert hc <;> decide
  have ne_app : ∀ (n : Nat) (x : Bytes), encNat n ++ x ≠ [] := by
    intro n x hc
    exact encNat_ne_nil n (List.append_eq_nil_iff.mp hc).1
  by_cases hV : VarintT t
  · rw [if_pos hV] at h
    injection h with h; subst h
    exact ⟨fun hc => absurd hc (ne_app _ _), fun hc => absurd hc.2 (notLen (Or.inl hV))⟩
  rw [if_neg hV] at h
  by_cases hF : Fixed32T t
  · rw [if_pos hF] at h
    injection h with h; subst h
    exact ⟨fun hc => absurd hc (ne_app _ _), fun hc => absurd hc.2 (notLen (Or.inr (Or.inl hF)))⟩
  rw [if_neg hF] at h
  by_cases hG : Fixed64T t
  · rw [if_pos hG] at h
    injection h with h; subst h
    exact ⟨fun hc => absurd hc (ne_app _ _), fun hc => absurd hc.2 (notLen (Or.inr (Or.inr hG)))⟩
  rw [if_neg hG] at h
  -- length-delimited: v = .str pre or v = .byt pre
  have hvp : v = .str pre ∨ v = .byt pre := by
    rcases spec with ⟨hT, _⟩ | ⟨hT, _⟩ | ⟨hT, _⟩ | ⟨_, ⟨_, e, _⟩ | ⟨_, e⟩⟩
    · exact absurd hT hV
    · exact absurd hT hF
    · exact absurd hT hG
    · exact Or.inl e
    · exact Or.inr e
  have hpre : (v = .str [] ∨ v = .byt []) ↔ pre = [] := by
    constructor
    · intro hc
      rcases hvp with e | e <;> rcases hc with e' | e' <;> rw [e] at e' <;> first
        | (injection e' with e'') | (exact absurd e' (by intro hx; cases hx))
    · intro hc
      subst hc
      exact hvp
  rw [hpre]
  by_cases hc : (pre.length != 0 || se) = true
  · rw [if_pos hc] at h
    injection h with h; subst h
    constructor
    · intro hx; exact absurd hx (by rw [List.append_assoc]; exact ne_app _ _)
    · intro ⟨h1, h2⟩
      subst h1; subst h2
      exact absurd hc (by decide)
  · rw [if_neg hc] at h
    injection h with h; subst h
    constructor
    · intro _
      cases se
      · cases pre with
        | nil => exact ⟨rfl, rfl⟩
        | cons a as => exact absurd (by simp) hc
      · exact absurd (by simp) hc
    · intro _; rfl

/-- **one record of a scalar field decodes to the value it was made from**, consuming
    exactly its own bytes, whatever follows -/
theorem scalar_record_roundtrip (S : Schema) (rec : Loader) (f : FieldD) (v : Val) (se : Bool)
    (out rest : Bytes) (hnum : numOk f.num = true) (hty : isScalarType f.ty = true)
    (hv : scalarOk f.ty v = true) (hlen : out.length < 2 ^ 64)
    (h : serializeScalar S f.num f.ty v se Option.none = .ok out) (hne : out ≠ []) :
    ∃ pf, loadField (out ++ rest) = .ok (pf, rest) ∧ pf.num = f.num ∧ pf.raw = out
      ∧ wireFits f pf.wt = true ∧ decodeValue S rec f pf = .ok v := by
  obtain ⟨pre, spec, hs⟩ := serializeScalar_shape S f.num f.ty v se hty hv
  rw [hs] at h
  rcases spec with ⟨hT, n, hpre, hn, hpost⟩ | ⟨hT, hl, hpost⟩ | ⟨hT, hl, hpost⟩ | ⟨hT, hsb⟩
  · -- varint
    rw [if_pos hT] at h
    injection h with h; subst h; subst hpre
    refine ⟨_, loadField_varint f.num n hnum hn rest, rfl, rfl, wireFits_of f 0 hT.2, ?_⟩
    rw [decodeValue_varint S rec f _ rfl, ← hpost]
  · -- fixed32
    rw [if_neg (fun hc => bool_tf hc.1 hT.1), if_pos hT] at h
    injection h with h; subst h
    refine ⟨_, loadField_fixed32 f.num pre hnum hl rest, rfl, rfl, wireFits_of f 5 hT.2.2, ?_⟩
    rw [decodeValue_fixed S rec f _ (Or.inl rfl)]
    exact hpost
  · -- fixed64
    rw [if_neg (fun hc => bool_tf hc.1 hT.1), if_neg (fun hc => bool_tf hc.2.1 hT.2.1), if_pos hT] at h
    injection h with h; subst h
    refine ⟨_, loadField_fixed64 f.num pre hnum hl rest, rfl, rfl, wireFits_of f 1 hT.2.2.2, ?_⟩
    rw [decodeValue_fixed S rec f _ (Or.inr rfl)]
    exact hpost
  · -- length-delimited
    rw [if_neg (fun hc => bool_tf hc.1 hT.1), if_neg (fun hc => bool_tf hc.2.1 hT.2.1),
      if_neg (fun hc => bool_tf hc.2.2.1 hT.2.2.1)] at h
    by_cases hc : (pre.length != 0 || se) = true
    · rw [if_pos hc] at h
      injection h with h; subst h
      have hpl : pre.length < 2 ^ 64 := by
        simp only [List.length_append] at hlen
        omega
      refine ⟨_, loadField_len f.num pre hnum hpl rest, rfl, rfl, wireFits_of f 2 hT.2.2.2.2.1, ?_⟩
      rw [decodeValue_len S rec f _ rfl hT.2.2.2.2.2.1 hT.2.2.2.2.2.2]
      rcases hsb with ⟨ht, e, hu⟩ | ⟨ht, e⟩
      · rw [e]; exact postLen_string S rec f pre ht hu
      · rw [e]; exact postLen_bytes S rec f pre ht
    · rw [if_neg hc] at h
      injection h with h
      exact absurd h.symm hne

/-! ### the synthetic descriptors of map entries and wrappers -/

theorem entryD_key (f : FieldD) : (entryD f).fields[0]! = { name := "key", num := 1, ty := f.mapK } := rfl
theorem entryD_value (f : FieldD) :
    (entryD f).fields[1]! = { name := "value", num := 2, ty := f.mapV, kind := f.mapVKind, enumRef := f.enumRef } := rfl
theorem wrapperD_value (w : PType) : (wrapperD w).fields[0]! = { name := "value", num := 1, ty := w } := rfl

/-- map key (field #1 of the synthetic `Entry` class) -/
theorem entry_key_record_roundtrip (S : Schema) (rec : Loader) (f : FieldD) (v : Val) (se : Bool)
    (out rest : Bytes) (hty : isScalarType f.mapK = true) (hv : scalarOk f.mapK v = true)
    (hlen : out.length < 2 ^ 64)
    (h : serializeScalar S 1 f.mapK v se Option.none = .ok out) (hne : out ≠ []) :
    ∃ pf, loadField (out ++ rest) = .ok (pf, rest) ∧ pf.num = 1 ∧ pf.raw = out
      ∧ wireFits (entryD f).fields[0]! pf.wt = true
      ∧ decodeValue S rec (entryD f).fields[0]! pf = .ok v :=
  scalar_record_roundtrip S rec (entryD f).fields[0]! v se out rest rfl hty hv hlen h hne

/-- scalar map value (field #2 of the synthetic `Entry` class) -/
theorem entry_value_record_roundtrip (S : Schema) (rec : Loader) (f : FieldD) (v : Val) (se : Bool)
    (out rest : Bytes) (hty : isScalarType f.mapV = true) (hv : scalarOk f.mapV v = true)
    (hlen : out.length < 2 ^ 64)
    (h : serializeScalar S 2 f.mapV v se Option.none = .ok out) (hne : out ≠ []) :
    ∃ pf, loadField (out ++ rest) = .ok (pf, rest) ∧ pf.num = 2 ∧ pf.raw = out
      ∧ wireFits (entryD f).fields[1]! pf.wt = true
      ∧ decodeValue S rec (entryD f).fields[1]! pf = .ok v :=
  scalar_record_roundtrip S rec (entryD f).fields[1]! v se out rest rfl hty hv hlen h hne

/-- the one `value` field #1 of a wrapper class -/
theorem wrapper_record_roundtrip (S : Schema) (rec : Loader) (w : PType) (v : Val) (se : Bool)
    (out rest : Bytes) (hty : isScalarType w = true) (hv : scalarOk w v = true)
    (hlen : out.length < 2 ^ 64)
    (h : serializeScalar S 1 w v se Option.none = .ok out) (hne : out ≠ []) :
    ∃ pf, loadField (out ++ rest) = .ok (pf, rest) ∧ pf.num = 1 ∧ pf.raw = out
      ∧ wireFits (wrapperD w).fields[0]! pf.wt = true
      ∧ decodeValue S rec (wrapperD w).fields[0]! pf = .ok v :=
  scalar_record_roundtrip S rec (wrapperD w).fields[0]! v se out rest rfl hty hv hlen h hne

/-! non-vacuity: concrete instances meeting the hypotheses -/
example : scalarOk .int32 (.int 150) = true ∧ isScalarType .int32 = true ∧ numOk 1 = true := by decide
example : serializeScalar [] 1 .int32 (.int 150) false Option.none = .ok [8, 150, 1] := by decide
example : serializeScalar [] 1 .sint64 (.int (-1)) false Option.none = .ok [8, 1] := by decide
example : serializeScalar [] 3 .fixed32 (.int 1) false Option.none = .ok [29, 1, 0, 0, 0] := by decide
example : serializeScalar [] 2 .string (.str [104, 105]) false Option.none = .ok [18, 2, 104, 105] := by decide
example : serializeScalar [] 2 .string (.str []) false Option.none = .ok [] := by decide
example : serializeScalar [] 2 .bytes (.byt []) true Option.none = .ok [18, 0] := by decide
example : loadField [8, 150, 1, 7] = .ok ({ num := 1, wt := 0, vint := 150, payload := [], raw := [8, 150, 1] }, [7]) := by
  decide

end Bp

#print axioms Bp.tag_roundtrip
#print axioms Bp.serializeScalar_ok
#print axioms Bp.scalar_record_roundtrip
#print axioms Bp.serializeScalar_empty_iff
#print axioms Bp.entry_key_record_roundtrip
#print axioms Bp.entry_value_record_roundtrip
#print axioms Bp.wrapper_record_roundtrip
