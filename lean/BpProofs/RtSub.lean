import BpModel.All
import BpProofs.NestedDefs
import BpProofs.RtScalar
import BpProofs.RtFlat
/-
  C01, nested messages: decoding the bytes of ONE singular message-typed slot restores an
  equivalent message, given that the nested loader round-trips the message it holds.
-/
namespace Bp
open Gen

/-! ### `setattr` of an arbitrary value (messages included) -/

/-- `markEmpty` only ever sets the on-wire flag: a message that already has it is unchanged -/
theorem markEmpty_onWire (S : Schema) (c : Nat) (sl : List Val) (unk : Bytes) (cur : List (Option Nat)) :
    markEmpty S (.msg c sl true unk cur) = .msg c sl true unk cur := by
  rw [markEmpty]
  by_cases h : (fieldsOf S c).isEmpty = true
  · rw [if_pos h]
  · rw [if_neg h]

theorem markEmpty_notlist (S : Schema) (v : Val) (h : ∀ xs, v ≠ Val.list xs) (xs : List Val) :
    markEmpty S v ≠ Val.list xs := by
  cases v with
  | msg c sl ow unk cur =>
    rw [markEmpty]
    by_cases h : (fieldsOf S c).isEmpty = true
    · rw [if_pos h]; intro e; cases e
    · rw [if_neg h]; intro e; cases e
  | list ys => exact absurd rfl (h ys)
  | _ => rw [markEmpty] <;> first | exact h xs | (intros; contradiction)

/-- `setAttr_plain` without the restriction to non-message values -/
theorem setAttr_gen (S : Schema) (fs : List FieldD) (st : MState) (k : Nat) (f : FieldD) (v : Val)
    (hk : fs[k]? = some f) (hm : MatesUnset fs st.slots k f) :
    setAttr S fs st k v = afterStore st k f (markEmpty S v) := by
  unfold setAttr afterStore
  simp only [hk]
  cases hg : f.group with
  | none => rfl
  | some g =>
    simp only
    rw [resetGroup_id g k fs st.slots 0 (fun j fj s hf hs hgj hne => hm g hg j fj s hf hs hgj (by omega))]

/-! ### the default of a singular message field -/

theorem sub_notmap (f : FieldD) (c : Nat) (h : SubField f c) : (f.ty == PType.map) = false := by
  rw [h.ty]; rfl

theorem sub_defKind (f : FieldD) (c : Nat) (h : SubField f c) (hr : f.repeated = false) :
    f.defKind = (if f.optional then DefKind.none else DefKind.msg c) := by
  unfold FieldD.defKind
  rw [hr, if_neg (by decide), if_neg (by rw [sub_notmap f c h]; decide), h.nw, h.ty, h.kind]
  by_cases ho : f.optional = true
  · rw [ho]; rfl
  · have ho' : f.optional = false := by simpa using ho
    rw [ho']; rfl

theorem sub_default_notlist (S : Schema) (f : FieldD) (c : Nat) (h : SubField f c) (hr : f.repeated = false)
    (xs : List Val) : defaultOf S f ≠ Val.list xs := by
  unfold defaultOf
  rw [sub_defKind f c h hr]
  by_cases ho : f.optional = true
  · rw [if_pos ho]; intro e; cases e
  · rw [if_neg ho]; intro e; cases e

/-- **storing a decoded message into a singular message field whose slot is still fresh** -/
theorem store_singular_msg (S : Schema) (d : MsgD) (st : MState) (k : Nat) (f : FieldD) (c : Nat)
    (sl' : List Val) (unk : Bytes) (cur : List (Option Nat))
    (hk : d.fields[k]? = some f) (hlen : k < st.slots.length)
    (hsf : SubField f c) (hr : f.repeated = false)
    (hfresh : st.slots.getD k .ph = freshVal f)
    (hcur : ∀ g, f.group = some g → st.cur.getD g Option.none = Option.none)
    (hm : MatesUnset d.fields st.slots k f) :
    storeValue S d (prepCurrent S d st k f) k f (.msg c sl' true unk cur)
      = .ok (afterStore st k f (.msg c sl' true unk cur)) := by
  have hmap := sub_notmap f c hsf
  have hdef := sub_default_notlist S f c hsf hr
  cases hg : f.group with
  | some g =>
    have hh : hidden f k st.cur = true := by
      unfold hidden; rw [hg]; simp only; rw [hcur g hg]; rfl
    unfold prepCurrent
    rw [if_pos hh, setAttr_gen S d.fields st k f _ hk hm]
    have hcurv : (afterStore st k f (markEmpty S (defaultOf S f))).slots.getD k .ph = markEmpty S (defaultOf S f) := by
      simp only [afterStore]; exact getD_setAt_self _ _ _ hlen
    have hm2 : MatesUnset d.fields (afterStore st k f (markEmpty S (defaultOf S f))).slots k f := by
      simp only [afterStore]; exact matesUnset_setAt _ _ _ _ _ hm
    rw [storeValue_nonlist S d _ k f _ hmap (by rw [hcurv]; exact markEmpty_notlist S _ hdef),
      setAttr_gen S d.fields _ k f _ hk hm2, markEmpty_onWire]
    congr 1
    simp only [afterStore, hg, setAt_setAt]
    congr 1
    simp [List.set_set]
  | none =>
    have hh : hidden f k st.cur = false := by unfold hidden; rw [hg]
    unfold prepCurrent
    rw [if_neg (by simp [hh])]
    have hcurv : (setAt st.slots k (materialize S f (st.slots.getD k .ph))).getD k .ph = materialize S f (freshVal f) := by
      rw [getD_setAt_self _ _ _ hlen, hfresh]
    have hnl : ∀ xs, materialize S f (freshVal f) ≠ Val.list xs := by
      intro xs
      unfold freshVal
      by_cases ho : f.optional = true
      · simp [ho, materialize]
      · simp [ho, materialize]; exact hdef xs
    have hm2 : MatesUnset d.fields (setAt st.slots k (materialize S f (st.slots.getD k .ph))) k f :=
      matesUnset_setAt _ _ _ _ _ hm
    rw [storeValue_nonlist S d _ k f _ hmap (by simp only; rw [hcurv]; exact hnl),
      setAttr_gen S d.fields _ k f _ hk hm2, markEmpty_onWire]
    simp only [afterStore, hg, setAt_setAt]

/-! ### the record of a singular message field -/

theorem lenT_message : LenT PType.message := by decide

/-- unconditional unfolding of `dumpSlot` on a message value in a message-typed field -/
theorem dumpSlot_sub (S : Schema) (f : FieldD) (c : Nat) (hid sel : Bool) (sl : List Val) (ow : Bool)
    (unk : Bytes) (cur : List (Option Nat)) (hsf : SubField f c) :
    dumpSlot S f hid sel (.msg c sl ow unk cur) =
      if hid then .ok []
      else if (eqDefault S f.defKind (.msg c sl ow unk cur) && !((f.group.isSome || f.optional) || ow || sel)) = true then .ok []
      else (dumpSlots S (fieldsOf S c) cur 0 sl).bind fun body =>
        if ((body ++ unk).length != 0 || (ow || (f.group.isSome || f.optional)) || false) = true
        then .ok (encNat (f.num * 8 + 2) ++ encNat (body ++ unk).length ++ (body ++ unk)) else .ok [] := by
  rw [dumpSlot]
  have hcond : (f.ty == PType.message && f.wraps.isNone) = true := by rw [hsf.ty, hsf.nw]; rfl
  by_cases hh : hid = true
  · rw [if_pos hh, if_pos hh]
  · rw [if_neg hh, if_neg hh]
    dsimp only
    by_cases hs : (eqDefault S f.defKind (.msg c sl ow unk cur) && !((f.group.isSome || f.optional) || ow || sel)) = true
    · rw [if_pos hs, if_pos hs]
    · rw [if_neg hs, if_neg hs]
      cases dumpSlots S (fieldsOf S c) cur 0 sl with
      | error e => rfl
      | ok body =>
        simp only [bind_ok]
        rw [if_pos hcond, hsf.ty, frame_len _ _ _ _ _ lenT_message]

/-- `postLen` on the payload of a user-message field -/
theorem postLen_sub (S : Schema) (rec : Loader) (f : FieldD) (c : Nat) (dc : MsgD) (p : Bytes)
    (hsf : SubField f c) (hdc : S[c]? = some dc) :
    postLen S rec f p = (rec dc (freshState dc) p).bind fun st => .ok (.msg c st.slots true st.unknown st.cur) := by
  unfold postLen
  rw [hsf.ty, if_neg (by decide), if_pos (by decide), hsf.kind, hsf.nw]
  simp only [hdc]

/-- a singular message-typed slot holding a message: decoding its record restores an
    equivalent message, given that the nested loader round-trips that message -/
theorem slotStep_sub (S : Schema) (rec : Loader) (d : MsgD) (k : Nat) (f : FieldD) (c : Nat) (dc : MsgD)
    (sl : List Val) (ow : Bool) (unk : Bytes) (cur : List (Option Nat)) (hid sel : Bool)
    (hd : NumsDistinct d.fields) (hk : d.fields[k]? = some f) (hsf : SubField f c) (hr : f.repeated = false)
    (hdc : S[c]? = some dc)
    (hinner : RoundTrips S rec (.msg c sl ow unk cur)) :
    SlotStep S rec d (fun _ v v' => ValEqv S v v') k f hid sel (.msg c sl ow unk cur) := by
  intro st b hb0 hbl hkl how hfresh hpre
  by_cases hbe : b = []
  · exact ⟨[], .msg c sl ow unk cur, fun _ h => by simp at h, by simp [joinRaw, hbe], fun h => absurd hbe h,
      by rw [if_pos hbe]; rfl⟩
  · have hb := hb0
    rw [dumpSlot_sub S f c hid sel sl ow unk cur hsf] at hb
    by_cases hh : hid = true
    · rw [if_pos hh] at hb; injection hb with hb; exact absurd hb.symm hbe
    rw [if_neg hh] at hb
    by_cases hs : (eqDefault S f.defKind (.msg c sl ow unk cur) && !((f.group.isSome || f.optional) || ow || sel)) = true
    · rw [if_pos hs] at hb; injection hb with hb; exact absurd hb.symm hbe
    rw [if_neg hs] at hb
    cases hbody : dumpSlots S (fieldsOf S c) cur 0 sl with
    | error e => rw [hbody] at hb; simp at hb
    | ok body =>
      rw [hbody] at hb; simp only [bind_ok] at hb
      by_cases hc : ((body ++ unk).length != 0 || (ow || (f.group.isSome || f.optional)) || false) = true
      · rw [if_pos hc] at hb
        injection hb with hb
        -- the nested round trip
        have hdv : dumpVal S (.msg c sl ow unk cur) = .ok (body ++ unk) := by
          rw [dumpVal_msg, hbody]; rfl
        obtain ⟨sl', hrec, heqv, hdv'⟩ := hinner c dc sl ow unk cur (body ++ unk) rfl hdc hdv
        have hpl : (body ++ unk).length < 2 ^ 64 := by
          rw [← hb] at hbl
          simp only [List.length_append] at hbl ⊢
          omega
        -- the record
        have hl := loadField_len f.num (body ++ unk) hsf.num hpl []
        rw [hb] at hl
        obtain ⟨hcur, hmates⟩ := hpre hbe
        have hfit : wireFits f 2 = true := wireFits_of f 2 (by rw [hsf.ty]; rfl)
        have hx : ∃ pfs, (∀ q ∈ pfs, Parsed q) ∧ joinRaw pfs = b
            ∧ foldFields S rec d st pfs = .ok (afterStore st k f (.msg c sl' true unk cur)) := by
          apply single_record S rec d st _ _ b hl rfl
          rw [applyField_known_eq S rec d st _ k f hd hk rfl hfit,
            decodeValue_len S rec f _ rfl (by rw [hsf.ty]; rfl) (sub_notmap f c hsf)]
          simp only
          rw [postLen_sub S rec f c dc _ hsf hdc, hrec]
          simp only [bind_ok]
          exact store_singular_msg S d st k f c sl' unk cur hk hkl hsf hr hfresh hcur hmates
        obtain ⟨pfs, h1, h2, h3⟩ := hx
        -- re-encoding the decoded message
        have hre : dumpSlot S f hid sel (.msg c sl' true unk cur) = .ok b := by
          rw [dumpSlot_sub S f c hid sel sl' true unk cur hsf, if_neg hh]
          rw [if_neg (by simp)]
          rw [dumpVal_msg] at hdv'
          cases hbody' : dumpSlots S (fieldsOf S c) cur 0 sl' with
          | error e => rw [hbody'] at hdv'; simp at hdv'
          | ok body' =>
            rw [hbody'] at hdv'; simp only [bind_ok] at hdv' ⊢
            injection hdv' with hdv'
            rw [hdv']
            have hc' : ((body ++ unk).length != 0 || (true || (f.group.isSome || f.optional)) || false) = true := by
              simp
            rw [if_pos hc', hb]
        exact ⟨pfs, .msg c sl' true unk cur, h1, h2, fun _ => ⟨heqv, hre⟩, by rw [if_neg hbe]; exact h3⟩
      · rw [if_neg hc] at hb; injection hb with hb; exact absurd hb.symm hbe

/-- a selected / explicitly present message-typed member always emits at least its tag -/
theorem sub_selected_emits (S : Schema) (f : FieldD) (c : Nat) (sl : List Val) (ow : Bool) (unk : Bytes)
    (cur : List (Option Nat)) (b : Bytes) (hsf : SubField f c) (hg : f.group.isSome = true)
    (h : dumpSlot S f false true (.msg c sl ow unk cur) = .ok b) : b ≠ [] := by
  rw [dumpSlot_sub S f c false true sl ow unk cur hsf, if_neg (by decide), if_neg (by simp)] at h
  cases hbody : dumpSlots S (fieldsOf S c) cur 0 sl with
  | error e => rw [hbody] at h; simp at h
  | ok body =>
    rw [hbody] at h; simp only [bind_ok] at h
    rw [if_pos (by rw [hg]; simp)] at h
    injection h with h
    rw [← h, List.append_assoc]
    intro hc
    exact encNat_ne_nil _ (List.append_eq_nil_iff.mp hc).1

end Bp

#print axioms Bp.store_singular_msg
#print axioms Bp.slotStep_sub
#print axioms Bp.sub_selected_emits
