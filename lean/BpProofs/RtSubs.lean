import BpModel.All
import BpProofs.NestedDefs
import BpProofs.RtScalar
import BpProofs.RtFlat
import BpProofs.RtSub
/-
  C01, nested messages: decoding the bytes of a REPEATED message-typed slot restores it,
  element by element, up to `ValEqv` (each element is decoded by the nested loader, for
  which the round trip is assumed — `RoundTrips` — as the induction hypothesis on the
  length of the encoding provides it).
-/
namespace Bp
open Gen

/-- every element is a message of class `c` whose encoding the nested loader round-trips -/
def AllRoundTrip (S : Schema) (rec : Loader) (c : Nat) (xs : List Val) : Prop :=
  ∀ x ∈ xs, (∃ sl ow unk cur, x = Val.msg c sl ow unk cur) ∧ RoundTrips S rec x

/-- one item of a repeated message field: tag, length, payload (`serialize_empty=True`, so
    the record is never empty and the `or b"\n\x00"` fallback never applies) -/
theorem dumpItems_msg (S : Schema) (f : FieldD) (c : Nat) (sl : List Val) (ow : Bool) (unk : Bytes)
    (cur : List (Option Nat)) (xs : List Val) (hty : f.ty = PType.message) (hnw : f.wraps = Option.none) :
    dumpItems S f (.msg c sl ow unk cur :: xs) =
      (dumpVal S (.msg c sl ow unk cur)).bind fun p =>
        (dumpItems S f xs).bind fun r => .ok ((encNat (f.num * 8 + 2) ++ encNat p.length ++ p) ++ r) := by
  rw [dumpItems, dumpVal_msg]
  cases dumpSlots S (fieldsOf S c) cur 0 sl with
  | error e => rfl
  | ok body =>
    simp only [bind_ok]
    rw [hnw, hty]
    rw [if_pos (by decide), frame_len _ _ _ _ _ lenT_message, if_pos (by simp)]
    simp only [bind_ok]
    have hne : (encNat (f.num * 8 + 2) ++ encNat (body ++ unk).length ++ (body ++ unk)).isEmpty = false := by
      cases h : encNat (f.num * 8 + 2) with
      | nil => exact absurd h (encNat_ne_nil _)
      | cons a as => rfl
    rw [hne]
    rfl

/-- the on-wire flag of an item is irrelevant to its record -/
theorem dumpItems_cons_congr (S : Schema) (f : FieldD) (c : Nat) (x y : Val) (xs ys : List Val) (p : Bytes)
    (hty : f.ty = PType.message) (hnw : f.wraps = Option.none)
    (hx : ∃ sl ow unk cur, x = Val.msg c sl ow unk cur) (hy : ∃ sl ow unk cur, y = Val.msg c sl ow unk cur)
    (hpx : dumpVal S x = .ok p) (hpy : dumpVal S y = .ok p) (hrest : dumpItems S f ys = dumpItems S f xs) :
    dumpItems S f (y :: ys) = dumpItems S f (x :: xs) := by
  obtain ⟨sl, ow, unk, cur, rfl⟩ := hx
  obtain ⟨sl', ow', unk', cur', rfl⟩ := hy
  rw [dumpItems_msg S f c _ _ _ _ _ hty hnw, dumpItems_msg S f c _ _ _ _ _ hty hnw, hpx, hpy, hrest]

/-- **one record of a message-typed field decodes, through the nested loader, to a copy
    equivalent to the element it was made from**, consuming exactly its own bytes -/
theorem sub_record_roundtrip (S : Schema) (rec : Loader) (f : FieldD) (c : Nat) (dc : MsgD)
    (sl : List Val) (ow : Bool) (unk : Bytes) (cur : List (Option Nat)) (p rest : Bytes)
    (hsf : SubField f c) (hdc : S[c]? = some dc)
    (hrt : RoundTrips S rec (.msg c sl ow unk cur))
    (hp : dumpVal S (.msg c sl ow unk cur) = .ok p) (hpl : p.length < 2 ^ 64) :
    ∃ pf sl', loadField ((encNat (f.num * 8 + 2) ++ encNat p.length ++ p) ++ rest) = .ok (pf, rest)
      ∧ pf.num = f.num ∧ pf.raw = encNat (f.num * 8 + 2) ++ encNat p.length ++ p
      ∧ wireFits f pf.wt = true
      ∧ decodeValue S rec f pf = .ok (.msg c sl' true unk cur)
      ∧ ValEqv S (.msg c sl ow unk cur) (.msg c sl' true unk cur)
      ∧ dumpVal S (.msg c sl' true unk cur) = .ok p := by
  obtain ⟨sl', hload, heqv, hdump⟩ := hrt c dc sl ow unk cur p rfl hdc hp
  refine ⟨_, sl', loadField_len f.num p hsf.num hpl rest, rfl, rfl,
    wireFits_of f 2 (by rw [hsf.ty]; rfl), ?_, heqv, hdump⟩
  rw [decodeValue_len S rec f _ rfl (by rw [hsf.ty]; rfl) (by rw [hsf.ty]; rfl)]
  rw [postLen_sub S rec f c dc _ hsf hdc]
  show (rec dc (freshState dc) p).bind _ = _
  rw [hload]
  rfl

/-- unpacked repeated message field: one record per item, decoded by the nested loader and
    appended in order; the decoded items are element-wise equivalent and re-encode to the
    same bytes -/
theorem subs_fold (S : Schema) (rec : Loader) (d : MsgD) (k : Nat) (f : FieldD) (c : Nat) (dc : MsgD)
    (hd : NumsDistinct d.fields) (hk : d.fields[k]? = some f) (hsf : SubField f c) (hg : f.group = Option.none)
    (hdc : S[c]? = some dc) :
    ∀ (xs acc : List Val) (st : MState) (b : Bytes), AllRoundTrip S rec c xs →
      dumpItems S f xs = .ok b → b.length < 2 ^ 64 → k < st.slots.length →
      materialize S f (st.slots.getD k .ph) = Val.list acc →
      ∃ pfs ys, (∀ q ∈ pfs, Parsed q) ∧ joinRaw pfs = b ∧ ListEqv S xs ys
        ∧ dumpItems S f ys = dumpItems S f xs
        ∧ foldFields S rec d st pfs
            = .ok (if xs = [] then st else { st with slots := setAt st.slots k (.list (acc ++ ys)) }) := by
  intro xs
  induction xs with
  | nil =>
    intro acc st b _ hb _ _ _
    rw [dumpItems] at hb; injection hb with hb; subst hb
    exact ⟨[], [], fun _ h => by simp at h, rfl, ListEqv.nil, rfl, rfl⟩
  | cons x xs ih =>
    intro acc st b hx hb hbl hkl hcurv
    obtain ⟨⟨sl, ow, unk, cur, hxe⟩, hrt⟩ := hx x (by simp)
    subst hxe
    rw [dumpItems_msg S f c sl ow unk cur xs hsf.ty hsf.nw] at hb
    cases hp : dumpVal S (.msg c sl ow unk cur) with
    | error e => rw [hp] at hb; simp at hb
    | ok p =>
      rw [hp] at hb; simp only [bind_ok] at hb
      cases hr : dumpItems S f xs with
      | error e => rw [hr] at hb; simp at hb
      | ok r =>
        rw [hr] at hb; simp only [bind_ok] at hb
        injection hb with hb
        subst hb
        have hpl : p.length < 2 ^ 64 := by simp only [List.length_append] at hbl; omega
        have hrl : r.length < 2 ^ 64 := by simp only [List.length_append] at hbl; omega
        obtain ⟨pf, sl', hl, hn, hraw, hfit, hdec, heqv, hdump'⟩ :=
          sub_record_roundtrip S rec f c dc sl ow unk cur p [] hsf hdc hrt hp hpl
        have happly : applyField S rec d st pf
            = .ok { st with slots := setAt st.slots k (.list (acc ++ [Val.msg c sl' true unk cur])) } := by
          rw [applyField_known_eq S rec d st pf k f hd hk hn hfit, hdec]
          simp only [bind_ok]
          rw [store_repeated S d st k f acc _ hkl (sub_notmap f c hsf) hg hcurv]
        obtain ⟨pfs2, ys2, hp2, hj2, he2, hd2, hf2⟩ :=
          ih (acc ++ [Val.msg c sl' true unk cur])
            { st with slots := setAt st.slots k (.list (acc ++ [Val.msg c sl' true unk cur])) } r
            (fun y hy => hx y (by simp [hy])) hr hrl (by simp [setAt]; exact hkl)
            (by simp only; rw [getD_setAt_self _ _ _ hkl]; rfl)
        refine ⟨pf :: pfs2, Val.msg c sl' true unk cur :: ys2, ?_, ?_, ?_, ?_, ?_⟩
        · intro q hq; simp at hq; rcases hq with hq | hq
          · subst hq; exact ⟨_, _, hl⟩
          · exact hp2 q hq
        · simp [joinRaw, hraw, hj2]
        · exact ListEqv.cons _ _ _ _ heqv he2
        · exact dumpItems_cons_congr S f c _ _ xs ys2 p hsf.ty hsf.nw ⟨_, _, _, _, rfl⟩ ⟨_, _, _, _, rfl⟩
            hp hdump' hd2
        · rw [foldFields, happly]; simp only [bind_ok]
          rw [hf2]
          simp only [List.cons_ne_nil, if_false]
          by_cases hxs : xs = []
          · subst hxs
            cases he2
            simp
          · simp only [hxs, if_false, setAt_setAt, List.append_assoc, List.singleton_append]

/-- a repeated message-typed slot is emitted item by item (nothing for the empty list) -/
theorem dumpSlot_subs (S : Schema) (f : FieldD) (c : Nat) (xs : List Val) (hsf : SubField f c)
    (hr : f.repeated = true) :
    dumpSlot S f false false (.list xs) = dumpItems S f xs := by
  obtain ⟨ho, hg⟩ := hsf.rep hr
  have hdk : f.defKind = .list := by unfold FieldD.defKind; simp [hr]
  have hed : eqDefault S .list (.list xs) = xs.isEmpty := by rw [eqDefault]; simp
  have hnp : isPacked f.ty = false := by rw [hsf.ty]; rfl
  rw [dumpSlot]
  simp only [Bool.false_eq_true, if_false, hg, ho, Option.isSome_none, Bool.or_self, Bool.not_false,
    Bool.and_true, hdk, hed, hnp]
  cases xs with
  | nil => rw [dumpItems]; rfl
  | cons x xs => rfl

/-- a repeated message-typed slot: one length-delimited record per element, each decoded by
    the nested loader and appended in order; the result is element-wise equivalent -/
theorem slotStep_subs (S : Schema) (rec : Loader) (d : MsgD) (k : Nat) (f : FieldD) (c : Nat) (dc : MsgD)
    (sel : Bool) (xs : List Val)
    (hd : NumsDistinct d.fields) (hk : d.fields[k]? = some f) (hsf : SubField f c) (hr : f.repeated = true)
    (hdc : S[c]? = some dc) (hsel : sel = false)
    (hinner : AllRoundTrip S rec c xs) :
    SlotStep S rec d (fun _ v v' => ValEqv S v v') k f false sel (.list xs) := by
  intro st b hb0 hbl hkl how hfresh hpre
  have hb := hb0
  obtain ⟨ho, hg⟩ := hsf.rep hr
  subst hsel
  have hdk : f.defKind = .list := by unfold FieldD.defKind; simp [hr]
  have hfr : st.slots.getD k .ph = Val.ph := by rw [hfresh]; simp [freshVal, ho]
  have hmat : materialize S f (st.slots.getD k .ph) = Val.list [] := by
    rw [hfr]; simp [materialize, defaultOf, hdk, defaultOfKind]
  rw [dumpSlot_subs S f c xs hsf hr] at hb
  by_cases hbe : b = []
  · exact ⟨[], .list xs, fun _ h => by simp at h, by simp [joinRaw, hbe], fun h => absurd hbe h, by rw [if_pos hbe]; rfl⟩
  · have hxe : xs ≠ [] := by
      intro hc; subst hc; rw [dumpItems] at hb; injection hb with hb; exact hbe hb.symm
    obtain ⟨pfs, ys, hp1, hj1, he1, hd1, hf1⟩ :=
      subs_fold S rec d k f c dc hd hk hsf hg hdc xs [] st b hinner hb hbl hkl hmat
    refine ⟨pfs, .list ys, hp1, hj1, fun _ => ⟨ValEqv.list xs ys he1, ?_⟩, ?_⟩
    · rw [dumpSlot_subs S f c ys hsf hr, hd1, hb]
    · rw [if_neg hbe, hf1]
      simp only [hxe, if_false, List.nil_append]
      simp [afterStore, hg, how]

end Bp

#print axioms Bp.dumpItems_msg
#print axioms Bp.sub_record_roundtrip
#print axioms Bp.subs_fold
#print axioms Bp.dumpSlot_subs
#print axioms Bp.slotStep_subs
