import BpModel.All
import BpProofs.Rt
import BpProofs.RtScalar
import BpProofs.RtFlat
import BpProofs.RtSub
import BpProofs.Props.C15
/-
  C01, `google.protobuf.Timestamp` / `Duration` fields: betterproto keeps them as
  datetime / timedelta (`Val.ts us` / `Val.dur us`) and writes them as the two-field
  message `secNanosD` (seconds int64 #1, nanos int32 #2, implicit presence).  Decoding
  the bytes of ONE such slot restores the value.
-/
namespace Bp
open Gen

/-! ### the two-field message `secNanosD` -/

/-- `seconds`, int64 #1 -/
def snSec : FieldD := { name := "seconds", num := 1, ty := .int64 }
/-- `nanos`, int32 #2 -/
def snNan : FieldD := { name := "nanos", num := 2, ty := .int32 }

theorem secNanosD_fields : secNanosD.fields = [snSec, snNan] := rfl
theorem secNanosD_f0 : secNanosD.fields[0]! = snSec := rfl
theorem secNanosD_f1 : secNanosD.fields[1]! = snNan := rfl

theorem flat_snSec : FlatField snSec :=
  ⟨by decide, rfl, by decide, fun h => by cases h⟩
theorem flat_snNan : FlatField snNan :=
  ⟨by decide, rfl, by decide, fun h => by cases h⟩

theorem numsDistinct_secNanos : NumsDistinct secNanosD.fields := by
  intro i j fi fj hi hj hn
  rw [secNanosD_fields] at hi hj
  rcases i with _ | _ | i <;> rcases j with _ | _ | j <;> simp at hi hj <;> first
    | rfl
    | (subst hi; subst hj; exact absurd hn (by decide))

/-- an implicit-presence int field of `secNanosD`: 0 is not written -/
theorem dumpSlot_snSec (S : Schema) (s : Int) :
    dumpSlot S snSec false false (.int s)
      = if s == 0 then .ok [] else (dumpVarint s).bind fun b => frame 1 .int64 b false false := by
  rw [dumpSlot_plain S snSec false false (.int s) rfl, if_neg (by decide)]
  have e : snSec.defKind = DefKind.int := rfl
  rw [e, eqDefault]
  by_cases h0 : (s == 0) = true
  · rw [if_pos h0, if_pos (by rw [h0]; rfl)]
  · rw [if_neg h0, if_neg (by simp only [Bool.not_eq_true] at h0; rw [h0]; decide)]
    rfl

theorem dumpSlot_snNan (S : Schema) (s : Int) :
    dumpSlot S snNan false false (.int s)
      = if s == 0 then .ok [] else (dumpVarint s).bind fun b => frame 2 .int32 b false false := by
  rw [dumpSlot_plain S snNan false false (.int s) rfl, if_neg (by decide)]
  have e : snNan.defKind = DefKind.int := rfl
  rw [e, eqDefault]
  by_cases h0 : (s == 0) = true
  · rw [if_pos h0, if_pos (by rw [h0]; rfl)]
  · rw [if_neg h0, if_neg (by simp only [Bool.not_eq_true] at h0; rw [h0]; decide)]
    rfl

theorem secNanosBytes_eq (S : Schema) (s ns : Int) :
    secNanosBytes s ns = (dumpSlot S snSec false false (.int s)).bind fun a =>
      (dumpSlot S snNan false false (.int ns)).bind fun b => .ok (a ++ b) := by
  rw [dumpSlot_snSec, dumpSlot_snNan]; rfl

/-- a non-zero component is written -/
theorem snSlot_nonzero (S : Schema) (f : FieldD) (s : Int) (a : Bytes) (hf : FlatField f) (hv : scalarOk f.ty (.int s) = true)
    (hs : s ≠ 0) (ha : dumpSlot S f false false (.int s) = .ok a)
    (hdk : f.defKind = DefKind.int) : a ≠ [] := by
  rw [dumpSlot_plain S f false false (.int s) rfl, if_neg (by decide), hdk, eqDefault] at ha
  have h0 : (s == 0) = false := by simpa using hs
  rw [h0, if_neg (by simp), hf.nw] at ha
  intro hc
  have := (serializeScalar_empty_iff S f.num f.ty (.int s) _ a hf.sc hv ha).mp hc
  rcases this.2 with e | e <;> cases e

/-- the nested loader, with at least one unit of fuel, restores the two-field message of a
    datetime: (seconds, nanos) come back as written (implicit presence: 0 ↔ unset) -/
theorem secNanos_roundtrip (S : Schema) (n : Nat) (s ns : Int) (p : Bytes)
    (hs : -9223372036854775808 ≤ s ∧ s < 9223372036854775808) (hn : -2147483648 ≤ ns ∧ ns < 2147483648)
    (h : secNanosBytes s ns = .ok p) (hp : p.length < 2 ^ 64) :
    ∃ st, loadInto S (n + 1) secNanosD (freshState secNanosD) p = .ok st
      ∧ materialize S secNanosD.fields[0]! (st.slots.getD 0 .ph) = .int s
      ∧ materialize S secNanosD.fields[1]! (st.slots.getD 1 .ph) = .int ns := by
  rw [secNanosBytes_eq S] at h
  cases ha : dumpSlot S snSec false false (.int s) with
  | error e => rw [ha] at h; simp at h
  | ok a =>
    rw [ha] at h; simp only [bind_ok] at h
    cases hb : dumpSlot S snNan false false (.int ns) with
    | error e => rw [hb] at h; simp at h
    | ok b =>
      rw [hb] at h; simp only [bind_ok] at h
      injection h with h
      subst h
      have hvs : scalarOk snSec.ty (.int s) = true := by
        show scalarOk .int64 (.int s) = true
        simp [scalarOk, intInRange, hs.1, hs.2]
      have hvn : scalarOk snNan.ty (.int ns) = true := by
        show scalarOk .int32 (.int ns) = true
        simp [scalarOk, intInRange, hn.1, hn.2]
      have hal : a.length < 2 ^ 64 := by simp only [List.length_append] at hp; omega
      have hbl : b.length < 2 ^ 64 := by simp only [List.length_append] at hp; omega
      -- an empty record means a zero component
      have hs0 : a = [] → s = 0 := fun hc => by
        by_contra hne
        exact snSlot_nonzero S snSec s a flat_snSec hvs hne ha rfl hc
      have hn0 : b = [] → ns = 0 := fun hc => by
        by_contra hne
        exact snSlot_nonzero S snNan ns b flat_snNan hvn hne hb rfl hc
      let R : FieldD → Val → Val → Prop := fun _ v v' => v = v'
      let st0 : MState := { slots := [.ph, .ph], onWire := true, unknown := [], cur := [] }
      -- seconds
      obtain ⟨pfs1, v1, hp1, hj1, hr1, hf1⟩ :=
        slotStep_scalar S (loadInto S n) secNanosD 0 snSec false false (.int s) numsDistinct_secNanos rfl
          flat_snSec rfl hvs R (fun _ _ => rfl) st0 a ha hal (by decide) rfl rfl
          (fun _ => ⟨fun g hg => by simp [snSec] at hg, fun g hg => by simp [snSec] at hg⟩)
      have hlen1 : (if a = [] then st0 else afterStore st0 0 snSec v1).slots.length = 2 := by
        by_cases hae : a = []
        · rw [if_pos hae]; rfl
        · rw [if_neg hae]; rfl
      have how1 : (if a = [] then st0 else afterStore st0 0 snSec v1).onWire = true := by
        by_cases hae : a = []
        · rw [if_pos hae]
        · rw [if_neg hae]; rfl
      have hfr1 : (if a = [] then st0 else afterStore st0 0 snSec v1).slots.getD 1 .ph = Val.ph := by
        by_cases hae : a = []
        · rw [if_pos hae]; rfl
        · rw [if_neg hae]; rfl
      have hm1 : materialize S snSec ((if a = [] then st0 else afterStore st0 0 snSec v1).slots.getD 0 .ph) = .int s := by
        by_cases hae : a = []
        · rw [if_pos hae, hs0 hae]; rfl
        · rw [if_neg hae, ← (hr1 hae).1]; rfl
      generalize (if a = [] then st0 else afterStore st0 0 snSec v1) = st1 at hf1 hlen1 how1 hfr1 hm1
      -- nanos
      obtain ⟨pfs2, v2, hp2, hj2, hr2, hf2⟩ :=
        slotStep_scalar S (loadInto S n) secNanosD 1 snNan false false (.int ns) numsDistinct_secNanos rfl
          flat_snNan rfl hvn R (fun _ _ => rfl) st1 b hb hbl
          (by rw [hlen1]; decide) how1 hfr1
          (fun _ => ⟨fun g hg => by simp [snNan] at hg, fun g hg => by simp [snNan] at hg⟩)
      refine ⟨(if b = [] then st1 else afterStore st1 1 snNan v2), ?_, ?_, ?_⟩
      · rw [loadInto_succ]
        have hbytes : a ++ b = joinRaw (pfs1 ++ pfs2) := by rw [joinRaw_append, hj1, hj2]
        have hall : ∀ pf ∈ pfs1 ++ pfs2, Parsed pf := by
          intro pf hpf; rcases List.mem_append.mp hpf with h | h
          · exact hp1 pf h
          · exact hp2 pf h
        rw [hbytes, loadFields_join _ hall]
        simp only [bind_ok]
        have e : ({ freshState secNanosD with onWire := true } : MState) = st0 := rfl
        rw [e, foldFields_append, hf1]
        simp only [bind_ok]
        exact hf2
      · rw [secNanosD_f0]
        by_cases hbe : b = []
        · rw [if_pos hbe]; exact hm1
        · rw [if_neg hbe]
          simp only [afterStore]
          rw [getD_setAt_ne _ _ _ _ (by decide)]
          exact hm1
      · rw [secNanosD_f1]
        by_cases hbe : b = []
        · rw [if_pos hbe, hfr1, hn0 hbe]; rfl
        · rw [if_neg hbe]
          simp only [afterStore]
          rw [getD_setAt_self _ _ _ (by rw [hlen1]; decide), ← (hr2 hbe).1]; rfl

/-! ### the default of a Timestamp / Duration field -/

theorem time_notmap (f : FieldD) (isDur : Bool) (h : TimeField f isDur) : (f.ty == PType.map) = false := by
  rw [h.ty]; rfl

theorem time_defKind (f : FieldD) (isDur : Bool) (h : TimeField f isDur) :
    f.defKind = (if f.optional then DefKind.none else (if isDur then DefKind.dur else DefKind.ts)) := by
  unfold FieldD.defKind
  rw [h.rep, if_neg (by decide), if_neg (by rw [time_notmap f isDur h]; decide), h.nw, h.ty, h.kind]
  by_cases ho : f.optional = true
  · rw [ho]; rfl
  · have ho' : f.optional = false := by simpa using ho
    rw [ho']
    cases isDur <;> rfl

theorem time_default_notlist (S : Schema) (f : FieldD) (isDur : Bool) (h : TimeField f isDur) (xs : List Val) :
    defaultOf S f ≠ Val.list xs := by
  unfold defaultOf
  rw [time_defKind f isDur h]
  by_cases ho : f.optional = true
  · rw [if_pos ho]; intro e; cases e
  · rw [if_neg ho]; cases isDur <;> (intro e; cases e)

theorem time_default_notmsg (S : Schema) (f : FieldD) (isDur : Bool) (h : TimeField f isDur) :
    isMsgVal (defaultOf S f) = false := by
  unfold defaultOf
  rw [time_defKind f isDur h]
  by_cases ho : f.optional = true
  · rw [if_pos ho]; rfl
  · rw [if_neg ho]; cases isDur <;> rfl

/-! ### the record of a Timestamp / Duration field -/

/-- a datetime / timedelta value -/
def isTimeVal : Val → Bool
  | .ts _ | .dur _ => true
  | _ => false

/-- unconditional unfolding of `dumpSlot` on a datetime / timedelta in a Timestamp / Duration field -/
theorem dumpSlot_time (S : Schema) (f : FieldD) (isDur : Bool) (hid sel : Bool) (v : Val)
    (htf : TimeField f isDur) (hv : isTimeVal v = true) :
    dumpSlot S f hid sel v =
      if hid then .ok []
      else if (eqDefault S f.defKind v && !((f.group.isSome || f.optional) || sel)) = true then .ok []
      else (prepScalar S PType.message Option.none v).bind fun pre =>
        if (pre.length != 0 || (f.group.isSome || f.optional) || false) = true
        then .ok (encNat (f.num * 8 + 2) ++ encNat pre.length ++ pre) else .ok [] := by
  cases v <;> first | (simp [isTimeVal] at hv; done) | skip
  -- the two remaining goals (`.ts us`, `.dur us`) are proved alike
  all_goals (
    rw [dumpSlot_plain S f hid sel _ rfl]
    by_cases hh : hid = true
    · rw [if_pos hh, if_pos hh]
    · rw [if_neg hh, if_neg hh]
      split
      · rfl
      · unfold serializeScalar
        rw [htf.ty, htf.nw]
        cases prepScalar S PType.message Option.none _ with
        | error e => rfl
        | ok pre =>
          simp only [bind_ok]
          rw [frame_len _ _ _ _ _ lenT_message]
          rfl)

/-- `postLen` on the payload of a Timestamp field, given what the nested loader returns -/
theorem postLen_ts (S : Schema) (rec : Loader) (f : FieldD) (p : Bytes) (st : MState) (us : Int)
    (hty : f.ty = PType.message) (hkind : f.kind = MsgKind.timestamp)
    (hrec : rec secNanosD (freshState secNanosD) p = .ok st)
    (h0 : materialize S secNanosD.fields[0]! (st.slots.getD 0 .ph) = .int (tsSplit us).1)
    (h1 : materialize S secNanosD.fields[1]! (st.slots.getD 1 .ph) = .int (tsSplit us).2)
    (hus : tsOk us = true) : postLen S rec f p = .ok (.ts us) := by
  unfold postLen
  rw [hty, if_neg (by decide), if_pos (by decide), hkind]
  simp only [hrec, bind_ok, h0, h1, C15.ts_roundtrip]
  unfold tsOk at hus
  simp only [Bool.and_eq_true, decide_eq_true_eq] at hus
  rw [if_pos hus]

/-- `postLen` on the payload of a Duration field, given what the nested loader returns -/
theorem postLen_dur (S : Schema) (rec : Loader) (f : FieldD) (p : Bytes) (st : MState) (us : Int)
    (hty : f.ty = PType.message) (hkind : f.kind = MsgKind.duration)
    (hrec : rec secNanosD (freshState secNanosD) p = .ok st)
    (h0 : materialize S secNanosD.fields[0]! (st.slots.getD 0 .ph) = .int (durSplit us).1)
    (h1 : materialize S secNanosD.fields[1]! (st.slots.getD 1 .ph) = .int (durSplit us).2)
    (hus : durOk us = true) : postLen S rec f p = .ok (.dur us) := by
  unfold postLen
  rw [hty, if_neg (by decide), if_pos (by decide), hkind]
  simp only [hrec, bind_ok, h0, h1, C15.dur_roundtrip]
  unfold durOk at hus
  simp only [Bool.and_eq_true, decide_eq_true_eq] at hus
  rw [if_pos (by unfold durMinUs durMaxUs; omega)]

/-- the common skeleton of the Timestamp and the Duration step: the value is written as
    `secNanosBytes s ns` with both components in range, and `postLen` maps that pair back -/
theorem slotStep_time (S : Schema) (n : Nat) (d : MsgD) (k : Nat) (f : FieldD) (isDur : Bool) (hid sel : Bool)
    (v : Val) (s ns : Int)
    (hd : NumsDistinct d.fields) (hk : d.fields[k]? = some f) (htf : TimeField f isDur)
    (hv : isTimeVal v = true)
    (hprep : prepScalar S PType.message Option.none v = secNanosBytes s ns)
    (hs : -9223372036854775808 ≤ s ∧ s < 9223372036854775808) (hn : -2147483648 ≤ ns ∧ ns < 2147483648)
    (hpost : ∀ (p : Bytes) (st : MState), loadInto S (n + 1) secNanosD (freshState secNanosD) p = .ok st →
      materialize S secNanosD.fields[0]! (st.slots.getD 0 .ph) = .int s →
      materialize S secNanosD.fields[1]! (st.slots.getD 1 .ph) = .int ns →
      postLen S (loadInto S (n + 1)) f p = .ok v)
    (R : FieldD → Val → Val → Prop) (hR : ∀ f v, R f v v) :
    SlotStep S (loadInto S (n + 1)) d R k f hid sel v := by
  intro st b hb0 hbl hkl how hfresh hpre
  by_cases hbe : b = []
  · exact ⟨[], v, fun _ h => by simp at h, by simp [joinRaw, hbe], fun h => absurd hbe h, by rw [if_pos hbe]; rfl⟩
  · have hb := hb0
    rw [dumpSlot_time S f isDur hid sel v htf hv] at hb
    by_cases hh : hid = true
    · rw [if_pos hh] at hb; injection hb with hb; exact absurd hb.symm hbe
    rw [if_neg hh] at hb
    by_cases hsk : (eqDefault S f.defKind v && !((f.group.isSome || f.optional) || sel)) = true
    · rw [if_pos hsk] at hb; injection hb with hb; exact absurd hb.symm hbe
    rw [if_neg hsk, hprep] at hb
    cases hp : secNanosBytes s ns with
    | error e => rw [hp] at hb; simp at hb
    | ok p =>
      rw [hp] at hb; simp only [bind_ok] at hb
      by_cases hc : (p.length != 0 || (f.group.isSome || f.optional) || false) = true
      · rw [if_pos hc] at hb
        injection hb with hb
        have hpl : p.length < 2 ^ 64 := by
          rw [← hb] at hbl
          simp only [List.length_append] at hbl
          omega
        -- the nested round trip
        obtain ⟨st', hrec, hm0, hm1⟩ := secNanos_roundtrip S n s ns p hs hn hp hpl
        -- the record
        have hl := loadField_len f.num p htf.num hpl []
        rw [hb] at hl
        obtain ⟨hcur, hmates⟩ := hpre hbe
        have hfit : wireFits f 2 = true := wireFits_of f 2 (by rw [htf.ty]; rfl)
        have hvm : isMsgVal v = false := by cases v <;> first | rfl | (simp [isTimeVal] at hv)
        have hx : ∃ pfs, (∀ q ∈ pfs, Parsed q) ∧ joinRaw pfs = b
            ∧ foldFields S (loadInto S (n + 1)) d st pfs = .ok (afterStore st k f v) := by
          apply single_record S _ d st _ _ b hl rfl
          rw [applyField_known_eq S _ d st _ k f hd hk rfl hfit,
            decodeValue_len S _ f _ rfl (by rw [htf.ty]; rfl) (time_notmap f isDur htf)]
          simp only
          rw [hpost p st' hrec hm0 hm1]
          simp only [bind_ok]
          exact store_singular S d st k f v hk hkl (time_notmap f isDur htf) (time_default_notlist S f isDur htf)
            (time_default_notmsg S f isDur htf) hvm hfresh hcur hmates
        obtain ⟨pfs, h1, h2, h3⟩ := hx
        exact ⟨pfs, v, h1, h2, fun _ => ⟨hR f v, hb0⟩, by rw [if_neg hbe]; exact h3⟩
      · rw [if_neg hc] at hb; injection hb with hb; exact absurd hb.symm hbe

/-! ### the components of an in-range datetime / timedelta fit their fields -/

theorem tsSplit_range (us : Int) (h : tsOk us = true) :
    (-9223372036854775808 ≤ (tsSplit us).1 ∧ (tsSplit us).1 < 9223372036854775808)
    ∧ (-2147483648 ≤ (tsSplit us).2 ∧ (tsSplit us).2 < 2147483648) := by
  unfold tsOk tsMinUs tsMaxUs at h
  simp only [Bool.and_eq_true, decide_eq_true_eq] at h
  unfold tsSplit; simp only
  omega

theorem durSplit_range (us : Int) (h : durOk us = true) :
    (-9223372036854775808 ≤ (durSplit us).1 ∧ (durSplit us).1 < 9223372036854775808)
    ∧ (-2147483648 ≤ (durSplit us).2 ∧ (durSplit us).2 < 2147483648) := by
  unfold durOk at h
  simp only [Bool.and_eq_true, decide_eq_true_eq] at h
  unfold durSplit; simp only
  split <;> simp only <;> omega

/-- a singular Timestamp slot holding an in-range datetime -/
theorem slotStep_ts (S : Schema) (n : Nat) (d : MsgD) (k : Nat) (f : FieldD) (hid sel : Bool) (us : Int)
    (hd : NumsDistinct d.fields) (hk : d.fields[k]? = some f) (htf : TimeField f false) (hus : tsOk us = true)
    (R : FieldD → Val → Val → Prop) (hR : ∀ f v, R f v v) :
    SlotStep S (loadInto S (n + 1)) d R k f hid sel (.ts us) := by
  obtain ⟨hs, hn⟩ := tsSplit_range us hus
  exact slotStep_time S n d k f false hid sel (.ts us) (tsSplit us).1 (tsSplit us).2 hd hk htf rfl rfl hs hn
    (fun p st hrec h0 h1 => postLen_ts S _ f p st us htf.ty htf.kind hrec h0 h1 hus) R hR

/-- a singular Duration slot holding an in-range timedelta -/
theorem slotStep_dur (S : Schema) (n : Nat) (d : MsgD) (k : Nat) (f : FieldD) (hid sel : Bool) (us : Int)
    (hd : NumsDistinct d.fields) (hk : d.fields[k]? = some f) (htf : TimeField f true) (hus : durOk us = true)
    (R : FieldD → Val → Val → Prop) (hR : ∀ f v, R f v v) :
    SlotStep S (loadInto S (n + 1)) d R k f hid sel (.dur us) := by
  obtain ⟨hs, hn⟩ := durSplit_range us hus
  exact slotStep_time S n d k f true hid sel (.dur us) (durSplit us).1 (durSplit us).2 hd hk htf rfl rfl hs hn
    (fun p st hrec h0 h1 => postLen_dur S _ f p st us htf.ty htf.kind hrec h0 h1 hus) R hR

/-- a selected / explicitly present Timestamp or Duration member always emits at least its tag -/
theorem time_selected_emits (S : Schema) (f : FieldD) (isDur : Bool) (v : Val) (b : Bytes) (htf : TimeField f isDur)
    (hg : f.group.isSome = true) (hv : (∃ us, v = Val.ts us) ∨ (∃ us, v = Val.dur us))
    (h : dumpSlot S f false true v = .ok b) : b ≠ [] := by
  have hv' : isTimeVal v = true := by
    rcases hv with ⟨us, e⟩ | ⟨us, e⟩ <;> rw [e] <;> rfl
  rw [dumpSlot_time S f isDur false true v htf hv', if_neg (by decide), if_neg (by simp)] at h
  cases hp : prepScalar S PType.message Option.none v with
  | error e => rw [hp] at h; simp at h
  | ok p =>
    rw [hp] at h; simp only [bind_ok] at h
    rw [if_pos (by rw [hg]; simp)] at h
    injection h with h
    rw [← h, List.append_assoc]
    intro hc
    exact encNat_ne_nil _ (List.append_eq_nil_iff.mp hc).1

/-! non-vacuity: concrete instances meeting the hypotheses -/
example : TimeField { num := 3, ty := .message, kind := .timestamp } false := ⟨rfl, rfl, rfl, by decide, rfl⟩
example : TimeField { num := 4, ty := .message, kind := .duration, group := some 0 } true := ⟨rfl, rfl, rfl, by decide, rfl⟩
example : tsOk 1500000 = true ∧ durOk (-1500000) = true := by decide
example : secNanosBytes 1 500000000 = .ok [8, 1, 16, 128, 202, 181, 238, 1] := by decide
example : dumpSlot [] { num := 3, ty := .message, kind := .timestamp } false false (.ts 1500000)
    = .ok [26, 8, 8, 1, 16, 128, 202, 181, 238, 1] := by decide
example : dumpSlot [] { num := 3, ty := .message, kind := .timestamp } false false (.ts 0) = .ok [] := by decide
example : dumpSlot [] { num := 4, ty := .message, kind := .duration, group := some 0 } false true (.dur 0)
    = .ok [34, 0] := by decide

end Bp

#print axioms Bp.secNanos_roundtrip
#print axioms Bp.slotStep_ts
#print axioms Bp.slotStep_dur
#print axioms Bp.time_selected_emits
