import BpModel.All
import BpProofs.NestedDefs
import BpProofs.RtScalar
import BpProofs.RtFlat
import BpProofs.RtSub
import BpProofs.RtTime
import BpProofs.RtMap
/-
  C01, the remaining Timestamp / Duration shapes:
    * REPEATED Timestamp / Duration fields (`List[datetime]` / `List[timedelta]`): one
      length-delimited record per item (`serialize_empty = True`, so the epoch / a zero
      duration is written as tag + length 0 and the `or b"\n\x00"` fallback of `dumpItems`
      never applies), each decoded through the two-field message `secNanosD` and appended;
    * MAPS whose values are Timestamps / Durations: the value half of an entry is written
      with `serialize_empty = False`, so the epoch / a zero duration writes NOTHING and the
      decoder materialises the default of the entry's value field — which is
      `datetime(1970, 1, 1, tzinfo=utc)` / `timedelta(0)`, i.e. the original value.
-/
namespace Bp
open Gen

/-! ### what the record-level proofs need to know about one datetime / timedelta -/

/-- `x` is written as `secNanosBytes s ns` with both components in range, `postLen` (for a
    field `f` of the right kind) maps that pair back to `x`, and `(0, 0)` is the default -/
def TimeCodec (S : Schema) (n : Nat) (f : FieldD) (isDur : Bool) (x : Val) : Prop :=
  isTimeVal x = true ∧ ∃ s ns : Int, prepScalar S PType.message Option.none x = secNanosBytes s ns
    ∧ (-9223372036854775808 ≤ s ∧ s < 9223372036854775808) ∧ (-2147483648 ≤ ns ∧ ns < 2147483648)
    ∧ (∀ (p : Bytes) (st : MState), loadInto S (n + 1) secNanosD (freshState secNanosD) p = .ok st →
        materialize S secNanosD.fields[0]! (st.slots.getD 0 .ph) = .int s →
        materialize S secNanosD.fields[1]! (st.slots.getD 1 .ph) = .int ns →
        postLen S (loadInto S (n + 1)) f p = .ok x)
    ∧ (s = 0 → ns = 0 → x = defaultOfKind S (if isDur then DefKind.dur else DefKind.ts))

theorem timeCodec_of_ok (S : Schema) (n : Nat) (f : FieldD) (isDur : Bool) (x : Val)
    (hty : f.ty = PType.message) (hkind : f.kind = (if isDur then MsgKind.duration else MsgKind.timestamp))
    (hx : timeValOk isDur x = true) : TimeCodec S n f isDur x := by
  cases isDur with
  | false =>
    obtain ⟨us, rfl, hus⟩ := timeValOk_ts x hx
    obtain ⟨hs, hn⟩ := tsSplit_range us hus
    refine ⟨rfl, (tsSplit us).1, (tsSplit us).2, rfl, hs, hn,
      fun p st hrec h0 h1 => postLen_ts S _ f p st us hty hkind hrec h0 h1 hus, fun h0 h1 => ?_⟩
    have := C15.ts_roundtrip us
    rw [h0, h1] at this
    rw [← this]; rfl
  | true =>
    obtain ⟨us, rfl, hus⟩ := timeValOk_dur x hx
    obtain ⟨hs, hn⟩ := durSplit_range us hus
    refine ⟨rfl, (durSplit us).1, (durSplit us).2, rfl, hs, hn,
      fun p st hrec h0 h1 => postLen_dur S _ f p st us hty hkind hrec h0 h1 hus, fun h0 h1 => ?_⟩
    have := C15.dur_roundtrip us
    rw [h0, h1] at this
    rw [← this]; rfl

/-- the two-field message is empty only for `(0, 0)` -/
theorem secNanosBytes_nil (s ns : Int)
    (hs : -9223372036854775808 ≤ s ∧ s < 9223372036854775808) (hn : -2147483648 ≤ ns ∧ ns < 2147483648)
    (h : secNanosBytes s ns = .ok []) : s = 0 ∧ ns = 0 := by
  rw [secNanosBytes_eq []] at h
  cases ha : dumpSlot [] snSec false false (.int s) with
  | error e => rw [ha] at h; simp at h
  | ok a =>
    rw [ha] at h; simp only [bind_ok] at h
    cases hb : dumpSlot [] snNan false false (.int ns) with
    | error e => rw [hb] at h; simp at h
    | ok b =>
      rw [hb] at h; simp only [bind_ok] at h
      injection h with h
      obtain ⟨hae, hbe⟩ := List.append_eq_nil_iff.mp h
      have hvs : scalarOk snSec.ty (.int s) = true := by
        show scalarOk .int64 (.int s) = true
        simp [scalarOk, intInRange, hs.1, hs.2]
      have hvn : scalarOk snNan.ty (.int ns) = true := by
        show scalarOk .int32 (.int ns) = true
        simp [scalarOk, intInRange, hn.1, hn.2]
      constructor
      · by_contra hne
        exact snSlot_nonzero [] snSec s a flat_snSec hvs hne ha rfl hae
      · by_contra hne
        exact snSlot_nonzero [] snNan ns b flat_snNan hvn hne hb rfl hbe

/-- **one record of a Timestamp / Duration field decodes to the datetime / timedelta it was
    made from**, consuming exactly its own bytes -/
theorem time_record_roundtrip (S : Schema) (n : Nat) (f : FieldD) (v : Val) (s ns : Int) (p rest : Bytes)
    (hty : f.ty = PType.message) (hnum : numOk f.num = true)
    (hs : -9223372036854775808 ≤ s ∧ s < 9223372036854775808) (hn : -2147483648 ≤ ns ∧ ns < 2147483648)
    (hp : secNanosBytes s ns = .ok p) (hpl : p.length < 2 ^ 64)
    (hpost : ∀ (p : Bytes) (st : MState), loadInto S (n + 1) secNanosD (freshState secNanosD) p = .ok st →
      materialize S secNanosD.fields[0]! (st.slots.getD 0 .ph) = .int s →
      materialize S secNanosD.fields[1]! (st.slots.getD 1 .ph) = .int ns →
      postLen S (loadInto S (n + 1)) f p = .ok v) :
    ∃ pf, loadField ((encNat (f.num * 8 + 2) ++ encNat p.length ++ p) ++ rest) = .ok (pf, rest)
      ∧ pf.num = f.num ∧ pf.raw = encNat (f.num * 8 + 2) ++ encNat p.length ++ p
      ∧ wireFits f pf.wt = true
      ∧ decodeValue S (loadInto S (n + 1)) f pf = .ok v := by
  obtain ⟨st', hrec, hm0, hm1⟩ := secNanos_roundtrip S n s ns p hs hn hp hpl
  refine ⟨_, loadField_len f.num p hnum hpl rest, rfl, rfl, wireFits_of f 2 (by rw [hty]; rfl), ?_⟩
  rw [decodeValue_len S _ f _ rfl (by rw [hty]; rfl) (by rw [hty]; rfl)]
  exact hpost p st' hrec hm0 hm1

/-! ### repeated Timestamp / Duration fields -/

theorem times_notmap (f : FieldD) (isDur : Bool) (h : TimesField f isDur) : (f.ty == PType.map) = false := by
  rw [h.ty]; rfl

/-- one item of a repeated Timestamp / Duration field: tag, length, the two-field message
    (`serialize_empty = True`: the record is never empty, the `or b"\n\x00"` fallback never
    applies) -/
theorem dumpItems_time (S : Schema) (f : FieldD) (x : Val) (xs : List Val)
    (hty : f.ty = PType.message) (hnw : f.wraps = Option.none) (hx : isTimeVal x = true) :
    dumpItems S f (x :: xs) =
      (prepScalar S PType.message Option.none x).bind fun p =>
        (dumpItems S f xs).bind fun r => .ok ((encNat (f.num * 8 + 2) ++ encNat p.length ++ p) ++ r) := by
  have hdi : dumpItems S f (x :: xs) =
      (serializeScalar S f.num f.ty x true f.wraps).bind fun a =>
        (dumpItems S f xs).bind fun r => .ok ((if a.isEmpty then [10, 0] else a) ++ r) := by
    cases x <;> first | (simp [isTimeVal] at hx; done) | (rw [dumpItems]; all_goals (intros; contradiction))
  rw [hdi]
  unfold serializeScalar
  rw [hty, hnw]
  cases prepScalar S PType.message Option.none x with
  | error e => rfl
  | ok p =>
    simp only [bind_ok]
    rw [frame_len _ _ _ _ _ lenT_message, if_pos (by simp)]
    simp only [bind_ok]
    have hne : (encNat (f.num * 8 + 2) ++ encNat p.length ++ p).isEmpty = false := by
      cases h : encNat (f.num * 8 + 2) with
      | nil => exact absurd h (encNat_ne_nil _)
      | cons a as => rfl
    rw [hne]
    rfl

/-- repeated Timestamp / Duration field: one record per item, decoded through `secNanosD`
    and appended in order -/
theorem times_fold (S : Schema) (n : Nat) (d : MsgD) (k : Nat) (f : FieldD) (isDur : Bool)
    (hd : NumsDistinct d.fields) (hk : d.fields[k]? = some f) (htf : TimesField f isDur) :
    ∀ (xs acc : List Val) (st : MState) (b : Bytes), (∀ x ∈ xs, timeValOk isDur x = true) →
      dumpItems S f xs = .ok b → b.length < 2 ^ 64 → k < st.slots.length →
      materialize S f (st.slots.getD k .ph) = Val.list acc →
      ∃ pfs, (∀ q ∈ pfs, Parsed q) ∧ joinRaw pfs = b ∧
        foldFields S (loadInto S (n + 1)) d st pfs
          = .ok (if xs = [] then st else { st with slots := setAt st.slots k (.list (acc ++ xs)) }) := by
  intro xs
  induction xs with
  | nil =>
    intro acc st b _ hb _ _ _
    rw [dumpItems] at hb; injection hb with hb; subst hb
    exact ⟨[], fun _ h => by simp at h, rfl, rfl⟩
  | cons x xs ih =>
    intro acc st b hx hb hbl hkl hcurv
    obtain ⟨hxt, s, ns, hprep, hs, hn, hpost, _⟩ :=
      timeCodec_of_ok S n f isDur x htf.ty htf.kind (hx x (by simp))
    rw [dumpItems_time S f x xs htf.ty htf.nw hxt, hprep] at hb
    cases hp : secNanosBytes s ns with
    | error e => rw [hp] at hb; simp at hb
    | ok p =>
      rw [hp] at hb; simp only [bind_ok] at hb
      cases hr : dumpItems S f xs with
      | error e => rw [hr] at hb; simp at hb
      | ok r =>
        rw [hr] at hb; simp only [bind_ok] at hb
        injection hb with hb
        subst hb
        have hpl : p.length < 2 ^ 64 := by simp only [List.length_append] at hbl; omega
        have hrl : r.length < 2 ^ 64 := by simp only [List.length_append] at hbl; omega
        obtain ⟨pf, hl, hnum, hraw, hfit, hdec⟩ :=
          time_record_roundtrip S n f x s ns p [] htf.ty htf.num hs hn hp hpl hpost
        have happly : applyField S (loadInto S (n + 1)) d st pf
            = .ok { st with slots := setAt st.slots k (.list (acc ++ [x])) } := by
          rw [applyField_known_eq S _ d st pf k f hd hk hnum hfit, hdec]
          simp only [bind_ok]
          rw [store_repeated S d st k f acc x hkl (times_notmap f isDur htf) htf.grp hcurv]
          cases x <;> first | rfl | (simp [isTimeVal] at hxt)
        obtain ⟨pfs2, hp2, hj2, hf2⟩ := ih (acc ++ [x]) { st with slots := setAt st.slots k (.list (acc ++ [x])) } r
          (fun y hy => hx y (by simp [hy])) hr hrl (by simp [setAt]; exact hkl)
          (by simp only; rw [getD_setAt_self _ _ _ hkl]; rfl)
        refine ⟨pf :: pfs2, ?_, ?_, ?_⟩
        · intro q hq; simp at hq; rcases hq with hq | hq
          · subst hq; exact ⟨_, _, hl⟩
          · exact hp2 q hq
        · simp [joinRaw, hraw, hj2]
        · rw [foldFields, happly]; simp only [bind_ok]
          rw [hf2]
          simp only [List.cons_ne_nil, if_false]
          by_cases hxs : xs = []
          · subst hxs; simp
          · simp only [hxs, if_false, setAt_setAt, List.append_assoc, List.singleton_append]

/-- a repeated Timestamp / Duration slot is emitted item by item (nothing for the empty list) -/
theorem dumpSlot_times (S : Schema) (f : FieldD) (isDur : Bool) (xs : List Val) (htf : TimesField f isDur) :
    dumpSlot S f false false (.list xs) = dumpItems S f xs := by
  have hdk : f.defKind = .list := by unfold FieldD.defKind; simp [htf.rep]
  have hed : eqDefault S .list (.list xs) = xs.isEmpty := by rw [eqDefault]; simp
  have hnp : isPacked f.ty = false := by rw [htf.ty]; rfl
  rw [dumpSlot]
  simp only [Bool.false_eq_true, if_false, htf.grp, htf.opt, Option.isSome_none, Bool.or_self, Bool.not_false,
    Bool.and_true, hdk, hed, hnp]
  cases xs with
  | nil => rw [dumpItems]; rfl
  | cons x xs => rfl

/-- **a repeated Timestamp (`isDur = false`) / Duration (`isDur = true`) slot** holding
    in-range datetimes / timedeltas: the list comes back exactly -/
theorem slotStep_times (S : Schema) (n : Nat) (d : MsgD) (k : Nat) (f : FieldD) (isDur : Bool) (sel : Bool)
    (xs : List Val)
    (hd : NumsDistinct d.fields) (hk : d.fields[k]? = some f) (htf : TimesField f isDur)
    (hx : ∀ x ∈ xs, timeValOk isDur x = true) (hsel : sel = false)
    (R : FieldD → Val → Val → Prop) (hR : ∀ f v, R f v v) :
    SlotStep S (loadInto S (n + 1)) d R k f false sel (.list xs) := by
  intro st b hb0 hbl hkl how hfresh hpre
  have hb := hb0
  subst hsel
  have hdk : f.defKind = .list := by unfold FieldD.defKind; simp [htf.rep]
  have hfr : st.slots.getD k .ph = Val.ph := by rw [hfresh]; simp [freshVal, htf.opt]
  have hmat : materialize S f (st.slots.getD k .ph) = Val.list [] := by
    rw [hfr]; simp [materialize, defaultOf, hdk, defaultOfKind]
  rw [dumpSlot_times S f isDur xs htf] at hb
  by_cases hbe : b = []
  · exact ⟨[], .list xs, fun _ h => by simp at h, by simp [joinRaw, hbe], fun h => absurd hbe h, by rw [if_pos hbe]; rfl⟩
  · have hxe : xs ≠ [] := by
      intro hc; subst hc; rw [dumpItems] at hb; injection hb with hb; exact hbe hb.symm
    obtain ⟨pfs, hp1, hj1, hf1⟩ := times_fold S n d k f isDur hd hk htf xs [] st b hx hb hbl hkl hmat
    refine ⟨pfs, .list xs, hp1, hj1, fun _ => ⟨hR f _, hb0⟩, ?_⟩
    rw [if_neg hbe, hf1]
    simp only [hxe, if_false, List.nil_append]
    simp [afterStore, htf.grp, how]

/-- the statement with the element conditions spelled out, Timestamp -/
theorem slotStep_tss (S : Schema) (n : Nat) (d : MsgD) (k : Nat) (f : FieldD) (sel : Bool) (xs : List Val)
    (hd : NumsDistinct d.fields) (hk : d.fields[k]? = some f) (htf : TimesField f false)
    (hx : ∀ x ∈ xs, ∃ us, x = Val.ts us ∧ tsOk us = true) (hsel : sel = false)
    (R : FieldD → Val → Val → Prop) (hR : ∀ f v, R f v v) :
    SlotStep S (loadInto S (n + 1)) d R k f false sel (.list xs) :=
  slotStep_times S n d k f false sel xs hd hk htf
    (fun x hxm => by obtain ⟨us, rfl, hus⟩ := hx x hxm; simpa [timeValOk] using hus) hsel R hR

/-- the statement with the element conditions spelled out, Duration -/
theorem slotStep_durs (S : Schema) (n : Nat) (d : MsgD) (k : Nat) (f : FieldD) (sel : Bool) (xs : List Val)
    (hd : NumsDistinct d.fields) (hk : d.fields[k]? = some f) (htf : TimesField f true)
    (hx : ∀ x ∈ xs, ∃ us, x = Val.dur us ∧ durOk us = true) (hsel : sel = false)
    (R : FieldD → Val → Val → Prop) (hR : ∀ f v, R f v v) :
    SlotStep S (loadInto S (n + 1)) d R k f false sel (.list xs) :=
  slotStep_times S n d k f true sel xs hd hk htf
    (fun x hxm => by obtain ⟨us, rfl, hus⟩ := hx x hxm; simpa [timeValOk] using hus) hsel R hR

/-! ### maps with Timestamp / Duration values -/

/-- the value field of the entry class of such a map is a singular Timestamp / Duration field -/
theorem entry_value_time (f : FieldD) (isDur : Bool) (hvty : f.mapV = PType.message)
    (hvk : f.mapVKind = (if isDur then MsgKind.duration else MsgKind.timestamp)) :
    TimeField (entryValF f) isDur :=
  ⟨hvty, rfl, hvk, rfl, rfl⟩

/-- the default the decoder materialises for an entry without a value record: the epoch /
    the zero duration -/
theorem entry_value_default (S : Schema) (f : FieldD) (isDur : Bool) (hvty : f.mapV = PType.message)
    (hvk : f.mapVKind = (if isDur then MsgKind.duration else MsgKind.timestamp)) :
    defaultOf S (entryValF f) = defaultOfKind S (if isDur then DefKind.dur else DefKind.ts) := by
  unfold defaultOf
  rw [time_defKind (entryValF f) isDur (entry_value_time f isDur hvty hvk)]
  rfl

/-- the value half of an entry holding a datetime / timedelta: nothing if the two-field
    message is empty (`serialize_empty` is false), else tag #2, length, payload -/
theorem dumpEntryVal_time (S : Schema) (f : FieldD) (x : Val) (hvty : f.mapV = PType.message)
    (hx : isTimeVal x = true) :
    dumpEntryVal S f x = (prepScalar S PType.message Option.none x).bind fun p =>
      if (p.length != 0) = true then .ok (encNat (2 * 8 + 2) ++ encNat p.length ++ p) else .ok [] := by
  have hde : dumpEntryVal S f x = serializeScalar S 2 f.mapV x false Option.none := by
    cases x <;> first | rfl | (simp [isTimeVal] at hx)
  rw [hde]
  unfold serializeScalar
  rw [hvty]
  cases prepScalar S PType.message Option.none x with
  | error e => rfl
  | ok p =>
    simp only [bind_ok]
    rw [frame_len _ _ _ _ _ lenT_message]
    simp only [Option.isSome_none, Bool.or_false]

/-- **a Timestamp / Duration map value**: its half of the entry is a length-delimited record
    decoded through `secNanosD` — or nothing at all for the epoch / the zero duration, and
    then the entry reads back as the default of its value field, which is that same value -/
theorem valStep_time (S : Schema) (n : Nat) (f : FieldD) (isDur : Bool) (x : Val)
    (hvty : f.mapV = PType.message)
    (hvk : f.mapVKind = (if isDur then MsgKind.duration else MsgKind.timestamp))
    (hx : timeValOk isDur x = true) :
    ValStep S (loadInto S (n + 1)) f (fun a b => a = b) x := by
  have htf := entry_value_time f isDur hvty hvk
  obtain ⟨hxt, s, ns, hprep, hs, hn, hpost, hzero⟩ :=
    timeCodec_of_ok S n (entryValF f) isDur x htf.ty htf.kind hx
  intro sv hsv hsvl
  have hsv0 := hsv
  rw [dumpEntryVal_time S f x hvty hxt, hprep] at hsv
  cases hp : secNanosBytes s ns with
  | error e => rw [hp] at hsv; simp at hsv
  | ok p =>
    rw [hp] at hsv; simp only [bind_ok] at hsv
    refine ⟨x, ?_, rfl, hsv0⟩
    by_cases hpe : p = []
    · -- nothing is written: the epoch / the zero duration
      subst hpe
      rw [if_neg (by decide)] at hsv
      injection hsv with hsv; subst hsv
      obtain ⟨hs0, hn0⟩ := secNanosBytes_nil s ns hs hn hp
      intro st _ hfr
      refine ⟨[], st, fun _ h => by simp at h, rfl, rfl, ?_, rfl, fun _ _ => rfl⟩
      rw [hfr]
      show defaultOf S (entryValF f) = x
      rw [entry_value_default S f isDur hvty hvk, ← hzero hs0 hn0]
    · -- a record
      have hpl0 : (p.length != 0) = true := by cases p <;> simp_all
      rw [if_pos hpl0] at hsv
      injection hsv with hsv; subst hsv
      have hpl : p.length < 2 ^ 64 := by simp only [List.length_append] at hsvl; omega
      have hvm : isMsgVal x = false := by cases x <;> first | rfl | (simp [isTimeVal] at hxt)
      intro st hil hfr
      obtain ⟨pf, hl, hnum, hraw, hfit, hdec⟩ :=
        time_record_roundtrip S n (entryValF f) x s ns p [] htf.ty htf.num hs hn hp hpl hpost
      have happly : applyField S (loadInto S (n + 1)) (entryD f) st pf
          = .ok (afterStore st 1 (entryValF f) x) := by
        rw [applyField_known_eq S _ (entryD f) st pf 1 (entryValF f) (entry_numsDistinct f) rfl hnum hfit, hdec]
        simp only [bind_ok]
        exact store_singular S (entryD f) st 1 (entryValF f) x rfl hil (time_notmap _ isDur htf)
          (time_default_notlist S _ isDur htf) (time_default_notmsg S _ isDur htf) hvm
          (by rw [hfr]; rfl) (fun g hgg => by cases hgg) (fun g hgg => by cases hgg)
      refine ⟨[pf], _, ?_, ?_, by rw [foldFields, happly]; rfl, ?_, ?_, ?_⟩
      · intro q hq; simp at hq; subst hq; exact ⟨_, _, hl⟩
      · simp [joinRaw, hraw]; rfl
      · simp only [afterStore]
        rw [getD_setAt_self _ _ _ hil]
        cases x <;> first | rfl | (simp [isTimeVal] at hxt)
      · simp [afterStore, setAt]
      · intro j hj
        simp only [afterStore]
        exact getD_setAt_other _ _ _ _ hj

/-- **a map slot with Timestamp / Duration values**: one length-delimited record per entry,
    each parsed by the nested loader (two levels: the entry, and inside it the two-field
    message of the value) and inserted into the dict; the dict comes back exactly -/
theorem slotStep_mapT (S : Schema) (n : Nat) (d : MsgD) (k : Nat) (f : FieldD) (isDur : Bool) (sel : Bool)
    (ks vs : List Val)
    (hd : NumsDistinct d.fields) (hk : d.fields[k]? = some f) (hmf : MapFieldT f isDur)
    (hlen : ks.length = vs.length) (hks : ∀ x ∈ ks, scalarOk f.mapK x = true)
    (hvs : ∀ x ∈ vs, timeValOk isDur x = true)
    (hdist : KeysDistinct ks) (hsel : sel = false)
    (R : FieldD → Val → Val → Prop) (hR : ∀ f v, R f v v) :
    SlotStep S (loadInto S (n + 2)) d R k f false sel (.dict ks vs) :=
  slotStep_map_gen S (n + 1) d k f sel ks vs (fun a b => a = b) R hd hk hmf.ty hmf.kty hmf.num hmf.rep hmf.opt hmf.grp
    hlen hks (fun x hx => valStep_time S n f isDur x hmf.vty hmf.vk (hvs x hx)) hdist hsel
    (fun vs' h => by rw [← forall₂_eq vs vs' h]; exact hR f _)

/-- a map field that emits anything emits at least two bytes (the tag and the length of its
    first entry): the loader needs two levels of nesting only then -/
theorem dumpEntries_two (S : Schema) (f : FieldD) (ks vs : List Val) (b : Bytes) (hty : f.ty = PType.map)
    (h : dumpEntries S f ks vs = .ok b) (hne : b ≠ []) : 2 ≤ b.length := by
  cases ks with
  | nil => rw [dumpEntries] at h; · injection h with h; exact absurd h.symm hne
           all_goals (intros; contradiction)
  | cons k0 ks =>
    cases vs with
    | nil => rw [dumpEntries] at h; · injection h with h; exact absurd h.symm hne
             all_goals (intros; contradiction)
    | cons v0 vs =>
      rw [dumpEntries_cons] at h
      cases hsk : serializeScalar S 1 f.mapK k0 false Option.none with
      | error e => rw [hsk] at h; simp at h
      | ok sk =>
        rw [hsk] at h; simp only [bind_ok] at h
        cases hsv : dumpEntryVal S f v0 with
        | error e => rw [hsv] at h; simp at h
        | ok sv =>
          rw [hsv] at h; simp only [bind_ok] at h
          rw [hty, frame_map] at h; simp only [bind_ok] at h
          cases hr : dumpEntries S f ks vs with
          | error e => rw [hr] at h; simp at h
          | ok r =>
            rw [hr] at h; simp only [bind_ok] at h
            injection h with h; subst h
            have l1 : 0 < (encNat (f.num * 8 + 2)).length := List.length_pos_iff.mpr (encNat_ne_nil _)
            have l2 : 0 < (encNat (sk ++ sv).length).length := List.length_pos_iff.mpr (encNat_ne_nil _)
            simp only [List.length_append] at l2 ⊢
            omega

/-! ### non-vacuity, the epoch / zero-duration cases, the `or b"\n\x00"` fallback

  (`Val` has no decidable equality: equalities between values are closed by `rfl`.) -/

/-- class 0: `repeated Timestamp ts = 3; repeated Duration ds = 4;
    map<string, Duration> md = 5; map<int32, Timestamp> mt = 6` -/
def STimes : Schema :=
  [ { fields := [{ name := "ts", num := 3, ty := .message, kind := .timestamp, repeated := true },
                 { name := "ds", num := 4, ty := .message, kind := .duration, repeated := true },
                 { name := "md", num := 5, ty := .map, mapK := .string, mapV := .message, mapVKind := .duration },
                 { name := "mt", num := 6, ty := .map, mapK := .int32, mapV := .message, mapVKind := .timestamp }] } ]

example : TimesField (STimes[0]!.fields[0]!) false := ⟨rfl, rfl, rfl, by decide, rfl, rfl, rfl⟩
example : TimesField (STimes[0]!.fields[1]!) true := ⟨rfl, rfl, rfl, by decide, rfl, rfl, rfl⟩
example : MapFieldT (STimes[0]!.fields[2]!) true := ⟨rfl, rfl, rfl, rfl, by decide, rfl, rfl, rfl, rfl⟩
example : MapFieldT (STimes[0]!.fields[3]!) false := ⟨rfl, rfl, rfl, rfl, by decide, rfl, rfl, rfl, rfl⟩

/-- `serialize_empty = True`: the epoch / the zero duration as an ITEM is tag + length 0, never
    the empty string — so the replacement bytes `0a 00` (right for field number 1 only) of
    `dumpItems` are never used for these fields -/
example : serializeScalar STimes 3 .message (.ts 0) true Option.none = .ok [26, 0] := by decide
example : serializeScalar STimes 4 .message (.dur 0) true Option.none = .ok [34, 0] := by decide

/-- epoch, a pre-epoch datetime (floor division: seconds -2, nanos 500000000) and a zero, a
    negative (common sign: seconds -1, nanos -500000000) duration -/
def mT : Val :=
  .msg 0 [.list [.ts 0, .ts (-1500000)], .list [.dur 0, .dur (-1500000)],
          .dict [.str [97], .str []] [.dur 0, .dur (-1500000)],
          .dict [.int 1, .int 0] [.ts 0, .ts 1500000]] false [] []

/-- `bytes(mT)`, computed with `#eval dumpVal STimes mT`: the items `ts 0` / `dur 0` are the
    records `1a 00` / `22 00`; the entry `"a" ↦ timedelta(0)` carries the key only (`2a 03 0a 01 61`) -/
def bsT : Bytes :=
  [26, 0, 26, 17, 8, 254, 255, 255, 255, 255, 255, 255, 255, 255, 1, 16, 128, 202, 181, 238, 1, 34, 0, 34, 22,
   8, 255, 255, 255, 255, 255, 255, 255, 255, 255, 1, 16, 128, 182, 202, 145, 254, 255, 255, 255, 255, 1, 42, 3, 10, 1,
   97, 42, 24, 18, 22, 8, 255, 255, 255, 255, 255, 255, 255, 255, 255, 1, 16, 128, 182, 202, 145, 254, 255, 255, 255, 255,
   1, 50, 2, 8, 1, 50, 12, 8, 0, 18, 8, 8, 1, 16, 128, 202, 181, 238, 1]

example : dumpVal STimes mT = .ok bsT := by decide
/-- every element / value comes back exactly (also the epoch / zero-duration map values, which
    the decoder materialises as the default of the entry's value field) -/
example : parse STimes 0 bsT =
    .ok (.msg 0 [.list [.ts 0, .ts (-1500000)], .list [.dur 0, .dur (-1500000)],
                 .dict [.str [97], .str []] [.dur 0, .dur (-1500000)],
                 .dict [.int 1, .int 0] [.ts 0, .ts 1500000]] true [] []) := by rfl
/-- the default of the entry's value field IS the epoch / the zero duration -/
example : defaultOf STimes (entryValF (STimes[0]!.fields[2]!)) = .dur 0 := rfl
example : defaultOf STimes (entryValF (STimes[0]!.fields[3]!)) = .ts 0 := rfl
example : dumpEntryVal STimes (STimes[0]!.fields[2]!) (.dur 0) = .ok [] := by decide
example : dumpEntryVal STimes (STimes[0]!.fields[3]!) (.ts 0) = .ok [] := by decide

end Bp

#print axioms Bp.timeCodec_of_ok
#print axioms Bp.secNanosBytes_nil
#print axioms Bp.time_record_roundtrip
#print axioms Bp.times_fold
#print axioms Bp.slotStep_times
#print axioms Bp.slotStep_tss
#print axioms Bp.slotStep_durs
#print axioms Bp.valStep_time
#print axioms Bp.slotStep_mapT
#print axioms Bp.dumpEntries_two
