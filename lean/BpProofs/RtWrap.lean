import BpModel.All
import BpProofs.Rt
import BpProofs.RtFlat
import BpProofs.RtScalar
import BpProofs.RtSub
import BpProofs.Load
import BpProofs.Props.C06
/-
  C01, well-known wrapper fields (`google.protobuf.Int32Value`, `StringValue`, `BoolValue`, …):
  betterproto stores such a field as `Optional[scalar]` (`f.ty = .message`,
  `f.wraps = some w`, default `None`) and encodes a non-None value `v` as a length-delimited
  record whose payload is `bytes(Wrapper(value=v))`.

  FINDING (see the `example`s at the end, also replayed on the real code): the wrapper class
  has ONE implicit-presence field, so a value that compares equal to the default of `w` is
  not written into the payload, and the decoder hands back the default.  For floats
  `-0.0 == 0.0`, hence `FloatValue(-0.0)` / `DoubleValue(-0.0)` decode to `+0.0`: the sign of a
  negative zero is lost.  Everything else round-trips exactly.  The theorems are therefore
  stated twice: in general with the normal form `wrapNorm` of the value, and with equality
  under the decidable side condition `wrapStable` (excludes exactly the two bit patterns).
-/
namespace Bp
open Gen

/-- the values a wrapper restores exactly: everything but the two negative zeros -/
def wrapStable : Val → Bool
  | .f32 b => b != 0x80000000
  | .f64 b => b != 0x8000000000000000
  | _ => true

/-- what a wrapped value comes back as: a value equal to the default of `w` is not written
    and comes back as THE default -/
def wrapNorm (S : Schema) (w : PType) (v : Val) : Val :=
  if scalarIsDefault S w v then defaultOfKind S (scalarDef w) else v

/-- the one field `value` #1 of the wrapper class -/
abbrev wrapValueD (w : PType) : FieldD := { name := "value", num := 1, ty := w }

theorem wrapNorm_stable (S : Schema) (w : PType) (v : Val) (hv : scalarOk w v = true)
    (hs : wrapStable v = true) : wrapNorm S w v = v := by
  unfold wrapNorm
  by_cases hdef : scalarIsDefault S w v = true
  · rw [if_pos hdef]
    unfold scalarIsDefault at hdef
    cases v with
    | int i =>
      rw [eqDefault] at hdef
      simp at hdef
      rw [hdef.1, hdef.2]; rfl
    | bool b =>
      rw [eqDefault] at hdef
      simp at hdef
      rw [hdef.1, hdef.2]; rfl
    | f32 b =>
      rw [eqDefault] at hdef
      simp [f32IsZero] at hdef
      simp [wrapStable] at hs
      rcases hdef.2 with e | e
      · rw [hdef.1, e]; rfl
      · exact absurd e hs
    | f64 b =>
      rw [eqDefault] at hdef
      simp [f64IsZero] at hdef
      simp [wrapStable] at hs
      rcases hdef.2 with e | e
      · rw [hdef.1, e]; rfl
      · exact absurd e hs
    | str s =>
      rw [eqDefault] at hdef
      simp at hdef
      rw [hdef.1, hdef.2]; rfl
    | byt s =>
      rw [eqDefault] at hdef
      simp at hdef
      rw [hdef.1, hdef.2]; rfl
    | _ => simp [scalarOk] at hv
  · rw [if_neg hdef]

theorem scalarOk_default (S : Schema) (w : PType) (hw : isScalarType w = true) :
    scalarOk w (defaultOfKind S (scalarDef w)) = true := by
  cases w <;> first | (exact absurd hw (by decide)) | rfl

theorem scalarIsDefault_default (S : Schema) (w : PType) :
    scalarIsDefault S w (defaultOfKind S (scalarDef w)) = true := by
  cases w <;> rfl

theorem scalarOk_norm (S : Schema) (w : PType) (v : Val) (hw : isScalarType w = true)
    (hv : scalarOk w v = true) : scalarOk w (wrapNorm S w v) = true := by
  unfold wrapNorm
  by_cases hdef : scalarIsDefault S w v = true
  · rw [if_pos hdef]; exact scalarOk_default S w hw
  · rw [if_neg hdef]; exact hv

/-- the normal form encodes to the same payload -/
theorem wrapperBytes_norm (S : Schema) (w : PType) (v : Val) :
    wrapperBytes S w (wrapNorm S w v) = wrapperBytes S w v := by
  unfold wrapNorm
  by_cases hdef : scalarIsDefault S w v = true
  · rw [if_pos hdef]
    unfold wrapperBytes
    rw [if_pos hdef, if_pos (scalarIsDefault_default S w)]
  · rw [if_neg hdef]

/-! ### the wrapper message itself -/

theorem wrapValue_flat (w : PType) (hw : isScalarType w = true) : FlatField (wrapValueD w) :=
  ⟨hw, rfl, rfl, fun h => by cases h⟩

theorem wrapValue_default (S : Schema) (w : PType) (hw : isScalarType w = true) :
    defaultOf S (wrapValueD w) = defaultOfKind S (scalarDef w) := by
  unfold defaultOf
  rw [flat_defKind_singular _ (wrapValue_flat w hw) rfl]
  rfl

theorem numsDistinct_single (f : FieldD) : NumsDistinct [f] := by
  intro i j fi fj hi hj _
  cases i with
  | zero =>
    cases j with
    | zero => rfl
    | succ j => simp at hj
  | succ i => simp at hi

/-- a payload that is one record -/
theorem loadFields_single (p : Bytes) (pf : PField) (hne : p ≠ [])
    (h : loadField (p ++ []) = .ok (pf, [])) : loadFields p = .ok [pf] := by
  rw [List.append_nil] at h
  rw [loadFields_cons p pf [] hne h, loadFields_nil]
  rfl

/-- a non-default value: the payload is the record of field #1 -/
theorem wrapperBytes_nondefault (S : Schema) (w : PType) (v : Val) (hw : isScalarType w = true)
    (hnd : ¬ scalarIsDefault S w v = true) :
    wrapperBytes S w v = serializeScalar S 1 w v false Option.none := by
  unfold wrapperBytes
  rw [if_neg hnd, serializeScalar_plain S 1 w v false hw]

/-- **the nested loader, with at least one unit of fuel, restores the one-field wrapper
    message**: the wrapped value comes back in normal form (the default of `w` when nothing
    was written) -/
theorem wrapper_roundtrip_norm (S : Schema) (n : Nat) (w : PType) (v : Val) (p : Bytes)
    (hw : isScalarType w = true) (hv : scalarOk w v = true)
    (h : wrapperBytes S w v = .ok p) (hp : p.length < 2 ^ 64) :
    ∃ st, loadInto S (n + 1) (wrapperD w) (freshState (wrapperD w)) p = .ok st
      ∧ materialize S (wrapperD w).fields[0]! (st.slots.getD 0 .ph) = wrapNorm S w v := by
  rw [wrapperD_value]
  have hff := wrapValue_flat w hw
  by_cases hdef : scalarIsDefault S w v = true
  · -- nothing was written: the slot stays PLACEHOLDER and materialises the default
    have h' := h
    unfold wrapperBytes at h'
    rw [if_pos hdef] at h'
    injection h' with h'
    subst h'
    refine ⟨{ freshState (wrapperD w) with onWire := true }, rfl, ?_⟩
    unfold wrapNorm
    rw [if_pos hdef, ← wrapValue_default S w hw]
    rfl
  · -- one record of field #1
    rw [wrapperBytes_nondefault S w v hw hdef] at h
    have hne : p ≠ [] := by
      intro hc
      have := (serializeScalar_empty_iff S 1 w v false p hw hv h).mp hc
      apply hdef
      unfold scalarIsDefault
      rcases this.2 with e | e
      · subst e
        have ht := (scalarOk_str w [] hv).1
        subst ht; rfl
      · subst e
        have ht := scalarOk_byt w [] hv
        subst ht; rfl
    obtain ⟨pf, hl, hnum, hraw, hfit, hdec⟩ :=
      wrapper_record_roundtrip S (loadInto S n) w v false p [] hw hv hp h hne
    rw [wrapperD_value] at hfit hdec
    obtain ⟨_, hnm⟩ := scalarOk_plain w v hv
    have hk : (wrapperD w).fields[0]? = some (wrapValueD w) := rfl
    have happly : applyField S (loadInto S n) (wrapperD w) { freshState (wrapperD w) with onWire := true } pf
        = .ok (afterStore { freshState (wrapperD w) with onWire := true } 0 (wrapValueD w) v) := by
      rw [applyField_known_eq S (loadInto S n) (wrapperD w) _ pf 0 (wrapValueD w)
        (numsDistinct_single _) hk hnum hfit, hdec]
      simp only [bind_ok]
      exact store_singular S (wrapperD w) _ 0 (wrapValueD w) v hk (Nat.zero_lt_one)
        (flat_notmap _ hff) (flat_default_notlist S _ hff rfl) (flat_default_notmsg S _ hff rfl) hnm rfl
        (fun g hg => by cases hg) (fun g hg => by cases hg)
    refine ⟨afterStore { freshState (wrapperD w) with onWire := true } 0 (wrapValueD w) v, ?_, ?_⟩
    · rw [loadInto_succ, loadFields_single p pf hne hl]
      simp only [bind_ok]
      rw [foldFields, happly]
      rfl
    · unfold wrapNorm
      rw [if_neg hdef]
      have : (afterStore { freshState (wrapperD w) with onWire := true } 0 (wrapValueD w) v).slots.getD 0 .ph = v :=
        getD_setAt_self _ _ _ Nat.zero_lt_one
      rw [this]
      cases v <;> first | rfl | (simp [scalarOk] at hv)

/-- the same with equality, for every value but the two negative zeros -/
theorem wrapper_roundtrip (S : Schema) (n : Nat) (w : PType) (v : Val) (p : Bytes)
    (hw : isScalarType w = true) (hv : scalarOk w v = true) (hs : wrapStable v = true)
    (h : wrapperBytes S w v = .ok p) (hp : p.length < 2 ^ 64) :
    ∃ st, loadInto S (n + 1) (wrapperD w) (freshState (wrapperD w)) p = .ok st
      ∧ materialize S (wrapperD w).fields[0]! (st.slots.getD 0 .ph) = v := by
  obtain ⟨st, h1, h2⟩ := wrapper_roundtrip_norm S n w v p hw hv h hp
  exact ⟨st, h1, by rw [h2, wrapNorm_stable S w v hv hs]⟩

/-! ### the slot of a wrapper field -/

theorem wrap_defKind (f : FieldD) (w : PType) (hwf : WrapField f w) : f.defKind = DefKind.none := by
  unfold FieldD.defKind
  simp [hwf.rep, hwf.ty, hwf.wr]

theorem wrap_notmap (f : FieldD) (w : PType) (hwf : WrapField f w) : (f.ty == PType.map) = false := by
  rw [hwf.ty]; rfl

theorem wrap_default (S : Schema) (f : FieldD) (w : PType) (hwf : WrapField f w) : defaultOf S f = Val.none := by
  unfold defaultOf
  rw [wrap_defKind f w hwf]
  rfl

/-- `_preprocess_single` of a scalar held by a wrapper field: `bytes(Wrapper(value=v))` -/
theorem prepScalar_wrap (S : Schema) (w : PType) (v : Val) (hv : scalarOk w v = true) :
    prepScalar S PType.message (some w) v = wrapperBytes S w v := by
  cases v <;> first | rfl | (simp [scalarOk] at hv)

/-- unconditional unfolding of `dumpSlot` on a scalar value held by a wrapper field: the
    record is always written (the default of the field is `None`, and `wraps` forces
    `serialize_empty`), its payload is `bytes(Wrapper(value=v))` -/
theorem dumpSlot_wrap (S : Schema) (f : FieldD) (w : PType) (hid sel : Bool) (v : Val)
    (hwf : WrapField f w) (hv : scalarOk w v = true) :
    dumpSlot S f hid sel v =
      if hid then .ok []
      else (wrapperBytes S w v).bind fun pre =>
        .ok (encNat (f.num * 8 + 2) ++ encNat pre.length ++ pre) := by
  obtain ⟨hpl, _⟩ := scalarOk_plain w v hv
  rw [dumpSlot_plain S f hid sel v hpl]
  by_cases hh : hid = true
  · rw [if_pos hh, if_pos hh]
  · rw [if_neg hh, if_neg hh, wrap_defKind f w hwf]
    have hed : eqDefault S DefKind.none v = false := by
      cases v <;> first | rfl | (simp [isPlainVal] at hpl)
    rw [hed, Bool.false_and, if_neg (by decide)]
    unfold serializeScalar
    rw [hwf.ty, hwf.wr, prepScalar_wrap S w v hv]
    cases wrapperBytes S w v with
    | error e => rfl
    | ok pre =>
      simp only [bind_ok]
      rw [frame_len _ _ _ _ _ lenT_message, if_pos (by simp)]

/-- `postLen` on the payload of a wrapper field -/
theorem postLen_wrap (S : Schema) (rec : Loader) (f : FieldD) (w : PType) (p : Bytes) (hwf : WrapField f w) :
    postLen S rec f p = (rec (wrapperD w) (freshState (wrapperD w)) p).bind fun st =>
      .ok (materialize S (wrapperD w).fields[0]! (st.slots.getD 0 .ph)) := by
  obtain ⟨c, hc⟩ := hwf.kind
  unfold postLen
  rw [hwf.ty, if_neg (by decide), if_pos (by decide), hc, hwf.wr]

theorem wrapNorm_notmsg (S : Schema) (w : PType) (v : Val) (hv : scalarOk w v = true) :
    isMsgVal (wrapNorm S w v) = false := by
  unfold wrapNorm
  by_cases hdef : scalarIsDefault S w v = true
  · rw [if_pos hdef]
    rcases scalarDef_cases w with e | e | e | e | e | e <;> rw [e] <;> rfl
  · rw [if_neg hdef]; exact (scalarOk_plain w v hv).2

/-- **a singular wrapper slot holding a scalar**: decoding its record restores the normal
    form of the value (for ANY relation that relates a value to its normal form) -/
theorem slotStep_wrap_norm (S : Schema) (n : Nat) (d : MsgD) (k : Nat) (f : FieldD) (w : PType) (hid sel : Bool) (v : Val)
    (hd : NumsDistinct d.fields) (hk : d.fields[k]? = some f) (hwf : WrapField f w) (hv : scalarOk w v = true)
    (R : FieldD → Val → Val → Prop) (hR : R f v (wrapNorm S w v)) :
    SlotStep S (loadInto S (n + 1)) d R k f hid sel v := by
  intro st b hb0 hbl hkl how hfresh hpre
  by_cases hbe : b = []
  · exact ⟨[], v, fun _ h => by simp at h, by simp [joinRaw, hbe], fun h => absurd hbe h, by rw [if_pos hbe]; rfl⟩
  · have hb := hb0
    rw [dumpSlot_wrap S f w hid sel v hwf hv] at hb
    by_cases hh : hid = true
    · rw [if_pos hh] at hb; injection hb with hb; exact absurd hb.symm hbe
    rw [if_neg hh] at hb
    cases hwb : wrapperBytes S w v with
    | error e => rw [hwb] at hb; simp at hb
    | ok pre =>
      rw [hwb] at hb; simp only [bind_ok] at hb
      injection hb with hb
      have hpl : pre.length < 2 ^ 64 := by
        rw [← hb] at hbl
        simp only [List.length_append] at hbl
        omega
      obtain ⟨sti, hload, hmat⟩ := wrapper_roundtrip_norm S n w v pre hwf.wty hv hwb hpl
      have hl := loadField_len f.num pre hwf.num hpl []
      rw [hb] at hl
      obtain ⟨hcur, hmates⟩ := hpre hbe
      have hfit : wireFits f 2 = true := wireFits_of f 2 (by rw [hwf.ty]; rfl)
      have hx : ∃ pfs, (∀ q ∈ pfs, Parsed q) ∧ joinRaw pfs = b
          ∧ foldFields S (loadInto S (n + 1)) d st pfs = .ok (afterStore st k f (wrapNorm S w v)) := by
        apply single_record S (loadInto S (n + 1)) d st _ _ b hl rfl
        rw [applyField_known_eq S (loadInto S (n + 1)) d st _ k f hd hk rfl hfit,
          decodeValue_len S (loadInto S (n + 1)) f _ rfl (by rw [hwf.ty]; rfl) (wrap_notmap f w hwf)]
        simp only
        rw [postLen_wrap S (loadInto S (n + 1)) f w _ hwf, hload]
        simp only [bind_ok]
        rw [hmat]
        exact store_singular S d st k f (wrapNorm S w v) hk hkl (wrap_notmap f w hwf)
          (fun xs => by rw [wrap_default S f w hwf]; intro e; cases e)
          (by rw [wrap_default S f w hwf]; rfl)
          (wrapNorm_notmsg S w v hv) hfresh hcur hmates
      obtain ⟨pfs, h1, h2, h3⟩ := hx
      -- re-encoding the decoded value
      have hre : dumpSlot S f hid sel (wrapNorm S w v) = .ok b := by
        rw [dumpSlot_wrap S f w hid sel _ hwf (scalarOk_norm S w v hwf.wty hv), if_neg hh,
          wrapperBytes_norm, hwb]
        simp only [bind_ok]
        rw [hb]
      exact ⟨pfs, wrapNorm S w v, h1, h2, fun _ => ⟨hR, hre⟩, by rw [if_neg hbe]; exact h3⟩

/-- with a reflexive relation, for every value but the two negative zeros -/
theorem slotStep_wrap (S : Schema) (n : Nat) (d : MsgD) (k : Nat) (f : FieldD) (w : PType) (hid sel : Bool) (v : Val)
    (hd : NumsDistinct d.fields) (hk : d.fields[k]? = some f) (hwf : WrapField f w) (hv : scalarOk w v = true)
    (hs : wrapStable v = true)
    (R : FieldD → Val → Val → Prop) (hR : ∀ f v, R f v v) :
    SlotStep S (loadInto S (n + 1)) d R k f hid sel v :=
  slotStep_wrap_norm S n d k f w hid sel v hd hk hwf hv R (by rw [wrapNorm_stable S w v hv hs]; exact hR f v)

/-- a selected wrapper member holding a value always emits at least its tag -/
theorem wrap_selected_emits (S : Schema) (f : FieldD) (w : PType) (v : Val) (b : Bytes) (hwf : WrapField f w)
    (hg : f.group.isSome = true) (hv : scalarOk w v = true)
    (h : dumpSlot S f false true v = .ok b) : b ≠ [] := by
  have _ := hg
  obtain ⟨hpl, _⟩ := scalarOk_plain w v hv
  obtain ⟨wt, rest, _, e⟩ := C06.explicit_emitted S f true v b hpl (Or.inr (Or.inr (by rw [hwf.wr]; rfl))) h
  intro hc; rw [hc] at e
  have := encNat_ne_nil (f.num * 8 + wt)
  cases hh : encNat (f.num * 8 + wt) with
  | nil => exact this hh
  | cons a as => rw [hh] at e; simp at e

/-! ### non-vacuity, and the counterexample that forces `wrapStable` -/

def SW : Schema := [{ fields := [{ name := "w", num := 1, ty := .message, wraps := some .float },
                                  { name := "i", num := 2, ty := .message, wraps := some .int32 }] }]

example : WrapField (SW[0]!).fields[0]! .float := ⟨rfl, rfl, rfl, by decide, rfl, ⟨0, rfl⟩⟩

-- an ordinary value round-trips (1.5f = 0x3fc00000, Int32Value(0) is the empty wrapper)
example : dumpVal SW (.msg 0 [.f32 0x3fc00000, .int 0] false [] []) = .ok [10, 5, 13, 0, 0, 192, 63, 18, 0] := by decide
example : (match parse SW 0 [10, 5, 13, 0, 0, 192, 63, 18, 0] with
           | .ok (.msg 0 [.f32 0x3fc00000, .int 0] true [] []) => true
           | _ => false) = true := by decide

-- COUNTEREXAMPLE: -0.0 is a well-typed float, its wrapper payload is empty …
example : scalarOk .float (.f32 0x80000000) = true ∧ scalarOk .double (.f64 0x8000000000000000) = true := by decide
example : wrapperBytes [] .float (.f32 0x80000000) = .ok [] ∧ wrapperBytes [] .double (.f64 0x8000000000000000) = .ok [] := by
  decide
-- … so the wrapper message decodes to +0.0 …
example : (match loadInto [] 1 (wrapperD .float) (freshState (wrapperD .float)) [] with
           | .ok st => (match materialize [] (wrapperD .float).fields[0]! (st.slots.getD 0 .ph) with
                        | .f32 0 => true
                        | _ => false)
           | _ => false) = true := by decide
-- … and at the message level `FloatValue(-0.0)` comes back as `+0.0`
example : dumpVal SW (.msg 0 [.f32 0x80000000, .none] false [] []) = .ok [10, 0] := by decide
example : (match parse SW 0 [10, 0] with
           | .ok (.msg 0 [.f32 0, .ph] true [] []) => true
           | _ => false) = true := by decide

end Bp

#print axioms Bp.wrapper_roundtrip_norm
#print axioms Bp.wrapper_roundtrip
#print axioms Bp.slotStep_wrap_norm
#print axioms Bp.slotStep_wrap
#print axioms Bp.wrap_selected_emits
