import BpModel.All
import BpProofs.NestedDefs
import BpProofs.RtScalar
import BpProofs.RtFlat
import BpProofs.RtSub
import BpProofs.RtWrap
/-
  C01, REPEATED wrapper fields (`repeated google.protobuf.Int32Value xs = n;`, which betterproto
  declares as `List[Optional[int]] = message_field(n, wraps=TYPE_INT32)`):

    * `dump` writes one length-delimited record per item, `_serialize_single(number, TYPE_MESSAGE,
      item, wraps=w, serialize_empty=True)`: the payload is `bytes(Wrapper(value=item))`, so an item
      equal to the default of `w` is the record `tag 00` (never the empty string: the `or b"\n\x00"`
      fallback of `dumpItems` is not reached); the empty list writes nothing;
    * `load` appends `_get_wrapper(w)().parse(payload).value` for every record.

  Hence a list of well-typed scalars comes back item by item in the normal form `wrapNorm` of
  BpProofs/RtWrap.lean — itself, except that `-0.0` comes back as `+0.0` (equal under `==`).
  A `None` ITEM is written exactly like the default of `w` and comes back as that default: it is
  outside the domain (see the witness in Props/C01.lean).
-/
namespace Bp
open Gen

theorem wraps_notmap (f : FieldD) (w : PType) (h : WrapsField f w) : (f.ty == PType.map) = false := by
  rw [h.ty]; rfl

/-- one item of a repeated wrapper field: tag, length, `bytes(Wrapper(value=x))` -/
theorem dumpItems_wrap (S : Schema) (f : FieldD) (w : PType) (x : Val) (xs : List Val)
    (hty : f.ty = PType.message) (hwr : f.wraps = some w) (hx : scalarOk w x = true) :
    dumpItems S f (x :: xs) =
      (wrapperBytes S w x).bind fun p =>
        (dumpItems S f xs).bind fun r => .ok ((encNat (f.num * 8 + 2) ++ encNat p.length ++ p) ++ r) := by
  have hdi : dumpItems S f (x :: xs) =
      (serializeScalar S f.num f.ty x true f.wraps).bind fun a =>
        (dumpItems S f xs).bind fun r => .ok ((if a.isEmpty then [10, 0] else a) ++ r) := by
    cases x <;> first | (simp [scalarOk] at hx; done) | (rw [dumpItems]; all_goals (intros; contradiction))
  rw [hdi]
  unfold serializeScalar
  rw [hty, hwr, prepScalar_wrap S w x hx]
  cases wrapperBytes S w x with
  | error e => rfl
  | ok p =>
    simp only [bind_ok]
    rw [frame_len _ _ _ _ _ lenT_message, if_pos (by simp)]
    simp only [bind_ok]
    have hne : (encNat (f.num * 8 + 2) ++ encNat p.length ++ p).isEmpty = false := by
      cases h : encNat (f.num * 8 + 2) with
      | nil => exact absurd h (encNat_ne_nil _)
      | cons a as => rfl
    rw [hne]
    rfl

/-- `postLen` on the payload of one item -/
theorem postLen_wraps (S : Schema) (rec : Loader) (f : FieldD) (w : PType) (p : Bytes) (hwf : WrapsField f w) :
    postLen S rec f p = (rec (wrapperD w) (freshState (wrapperD w)) p).bind fun st =>
      .ok (materialize S (wrapperD w).fields[0]! (st.slots.getD 0 .ph)) := by
  obtain ⟨c, hc⟩ := hwf.kind
  unfold postLen
  rw [hwf.ty, if_neg (by decide), if_pos (by decide), hc, hwf.wr]

/-- **one record of a repeated wrapper field decodes to the normal form of the item it was made
    from**, consuming exactly its own bytes -/
theorem wraps_record_roundtrip (S : Schema) (n : Nat) (f : FieldD) (w : PType) (x : Val) (p rest : Bytes)
    (hwf : WrapsField f w) (hx : scalarOk w x = true) (hp : wrapperBytes S w x = .ok p) (hpl : p.length < 2 ^ 64) :
    ∃ pf, loadField ((encNat (f.num * 8 + 2) ++ encNat p.length ++ p) ++ rest) = .ok (pf, rest)
      ∧ pf.num = f.num ∧ pf.raw = encNat (f.num * 8 + 2) ++ encNat p.length ++ p
      ∧ wireFits f pf.wt = true
      ∧ decodeValue S (loadInto S (n + 1)) f pf = .ok (wrapNorm S w x) := by
  obtain ⟨sti, hload, hmat⟩ := wrapper_roundtrip_norm S n w x p hwf.wty hx hp hpl
  refine ⟨_, loadField_len f.num p hwf.num hpl rest, rfl, rfl, wireFits_of f 2 (by rw [hwf.ty]; rfl), ?_⟩
  rw [decodeValue_len S _ f _ rfl (by rw [hwf.ty]; rfl) (wraps_notmap f w hwf)]
  simp only
  rw [postLen_wraps S _ f w _ hwf, hload]
  simp only [bind_ok]
  rw [hmat]

/-- appending a scalar to the list the decoder is building -/
theorem store_repeated_scalar (S : Schema) (d : MsgD) (st : MState) (k : Nat) (f : FieldD) (acc : List Val) (t : PType)
    (y : Val) (hy : scalarOk t y = true)
    (hkl : k < st.slots.length) (hmap : (f.ty == PType.map) = false) (hg : f.group = Option.none)
    (hcurv : materialize S f (st.slots.getD k .ph) = Val.list acc) :
    storeValue S d (prepCurrent S d st k f) k f y
      = .ok { st with slots := setAt st.slots k (.list (acc ++ [y])) } := by
  rw [store_repeated S d st k f acc y hkl hmap hg hcurv]
  cases y <;> first | rfl | (simp [scalarOk] at hy)

/-- repeated wrapper field: one record per item, decoded through the one-field wrapper class and
    appended in order -/
theorem wraps_fold (S : Schema) (n : Nat) (d : MsgD) (k : Nat) (f : FieldD) (w : PType)
    (hd : NumsDistinct d.fields) (hk : d.fields[k]? = some f) (hwf : WrapsField f w) :
    ∀ (xs acc : List Val) (st : MState) (b : Bytes), (∀ x ∈ xs, scalarOk w x = true) →
      dumpItems S f xs = .ok b → b.length < 2 ^ 64 → k < st.slots.length →
      materialize S f (st.slots.getD k .ph) = Val.list acc →
      ∃ pfs, (∀ q ∈ pfs, Parsed q) ∧ joinRaw pfs = b ∧
        foldFields S (loadInto S (n + 1)) d st pfs
          = .ok (if xs = [] then st
                 else { st with slots := setAt st.slots k (.list (acc ++ xs.map (wrapNorm S w))) }) := by
  intro xs
  induction xs with
  | nil =>
    intro acc st b _ hb _ _ _
    rw [dumpItems] at hb; injection hb with hb; subst hb
    exact ⟨[], fun _ h => by simp at h, rfl, rfl⟩
  | cons x xs ih =>
    intro acc st b hx hb hbl hkl hcurv
    have hx0 : scalarOk w x = true := hx x (by simp)
    rw [dumpItems_wrap S f w x xs hwf.ty hwf.wr hx0] at hb
    cases hp : wrapperBytes S w x with
    | error e => rw [hp] at hb; simp at hb
    | ok p =>
      rw [hp] at hb; simp only [bind_ok] at hb
      cases hr : dumpItems S f xs with
      | error e => rw [hr] at hb; simp at hb
      | ok r =>
        rw [hr] at hb; simp only [bind_ok] at hb
        injection hb with hb
        subst hb
        have hpl : p.length < 2 ^ 64 := by simp only [List.length_append] at hbl; omega
        have hrl : r.length < 2 ^ 64 := by simp only [List.length_append] at hbl; omega
        obtain ⟨pf, hl, hnum, hraw, hfit, hdec⟩ := wraps_record_roundtrip S n f w x p [] hwf hx0 hp hpl
        have happly : applyField S (loadInto S (n + 1)) d st pf
            = .ok { st with slots := setAt st.slots k (.list (acc ++ [wrapNorm S w x])) } := by
          rw [applyField_known_eq S _ d st pf k f hd hk hnum hfit, hdec]
          simp only [bind_ok]
          exact store_repeated_scalar S d st k f acc w _ (scalarOk_norm S w x hwf.wty hx0) hkl
            (wraps_notmap f w hwf) hwf.grp hcurv
        obtain ⟨pfs2, hp2, hj2, hf2⟩ := ih (acc ++ [wrapNorm S w x])
          { st with slots := setAt st.slots k (.list (acc ++ [wrapNorm S w x])) } r
          (fun y hy => hx y (by simp [hy])) hr hrl (by simp [setAt]; exact hkl)
          (by simp only; rw [getD_setAt_self _ _ _ hkl]; rfl)
        refine ⟨pf :: pfs2, ?_, ?_, ?_⟩
        · intro q hq; simp at hq; rcases hq with hq | hq
          · subst hq; exact ⟨_, _, hl⟩
          · exact hp2 q hq
        · simp [joinRaw, hraw, hj2]
        · rw [foldFields, happly]; simp only [bind_ok]
          rw [hf2]
          simp only [List.cons_ne_nil, if_false]
          by_cases hxs : xs = []
          · subst hxs; simp
          · simp only [hxs, if_false, setAt_setAt, List.append_assoc, List.singleton_append, List.map_cons]

/-- a repeated wrapper slot is emitted item by item (nothing for the empty list) -/
theorem dumpSlot_wraps (S : Schema) (f : FieldD) (w : PType) (xs : List Val) (hwf : WrapsField f w) :
    dumpSlot S f false false (.list xs) = dumpItems S f xs := by
  have hdk : f.defKind = .list := by unfold FieldD.defKind; simp [hwf.rep]
  have hed : eqDefault S .list (.list xs) = xs.isEmpty := by rw [eqDefault]; simp
  have hnp : isPacked f.ty = false := by rw [hwf.ty]; rfl
  rw [dumpSlot]
  simp only [Bool.false_eq_true, if_false, hwf.grp, hwf.opt, Option.isSome_none, Bool.or_self, Bool.not_false,
    Bool.and_true, hdk, hed, hnp]
  cases xs with
  | nil => rw [dumpItems]; rfl
  | cons x xs => rfl

/-- the list of normal forms encodes to the same bytes -/
theorem dumpItems_norm (S : Schema) (f : FieldD) (w : PType) (hwf : WrapsField f w) :
    ∀ xs : List Val, (∀ x ∈ xs, scalarOk w x = true) →
      dumpItems S f (xs.map (wrapNorm S w)) = dumpItems S f xs := by
  intro xs
  induction xs with
  | nil => intro _; rfl
  | cons x xs ih =>
    intro hx
    have hx0 : scalarOk w x = true := hx x (by simp)
    rw [List.map_cons, dumpItems_wrap S f w _ _ hwf.ty hwf.wr (scalarOk_norm S w x hwf.wty hx0),
      dumpItems_wrap S f w x xs hwf.ty hwf.wr hx0, wrapperBytes_norm, ih (fun y hy => hx y (by simp [hy]))]

/-- **a repeated wrapper slot** holding well-typed scalars of the wrapped type: the list comes
    back item by item in normal form (for ANY relation that relates the list to that) -/
theorem slotStep_wraps (S : Schema) (n : Nat) (d : MsgD) (k : Nat) (f : FieldD) (w : PType) (sel : Bool)
    (xs : List Val)
    (hd : NumsDistinct d.fields) (hk : d.fields[k]? = some f) (hwf : WrapsField f w)
    (hx : ∀ x ∈ xs, scalarOk w x = true) (hsel : sel = false)
    (R : FieldD → Val → Val → Prop) (hR : R f (.list xs) (.list (xs.map (wrapNorm S w)))) :
    SlotStep S (loadInto S (n + 1)) d R k f false sel (.list xs) := by
  intro st b hb0 hbl hkl how hfresh hpre
  have hb := hb0
  subst hsel
  have hdk : f.defKind = .list := by unfold FieldD.defKind; simp [hwf.rep]
  have hfr : st.slots.getD k .ph = Val.ph := by rw [hfresh]; simp [freshVal, hwf.opt]
  have hmat : materialize S f (st.slots.getD k .ph) = Val.list [] := by
    rw [hfr]; simp [materialize, defaultOf, hdk, defaultOfKind]
  rw [dumpSlot_wraps S f w xs hwf] at hb
  by_cases hbe : b = []
  · exact ⟨[], .list xs, fun _ h => by simp at h, by simp [joinRaw, hbe], fun h => absurd hbe h, by rw [if_pos hbe]; rfl⟩
  · have hxe : xs ≠ [] := by
      intro hc; subst hc; rw [dumpItems] at hb; injection hb with hb; exact hbe hb.symm
    obtain ⟨pfs, hp1, hj1, hf1⟩ := wraps_fold S n d k f w hd hk hwf xs [] st b hx hb hbl hkl hmat
    have hre : dumpSlot S f false false (.list (xs.map (wrapNorm S w))) = .ok b := by
      rw [dumpSlot_wraps S f w _ hwf, dumpItems_norm S f w hwf xs hx, hb]
    refine ⟨pfs, .list (xs.map (wrapNorm S w)), hp1, hj1, fun _ => ⟨hR, hre⟩, ?_⟩
    rw [if_neg hbe, hf1]
    simp only [hxe, if_false, List.nil_append]
    simp [afterStore, hwf.grp, how]

/-! ### non-vacuity; `None` items -/

/-- class 0: `repeated Int32Value a = 1; repeated StringValue s = 2; repeated FloatValue f = 3` -/
def SWraps : Schema :=
  [ { fields := [{ name := "a", num := 1, ty := .message, wraps := some .int32, repeated := true },
                 { name := "s", num := 2, ty := .message, wraps := some .string, repeated := true },
                 { name := "f", num := 3, ty := .message, wraps := some .float, repeated := true }] } ]

example : WrapsField (SWraps[0]!.fields[0]!) .int32 := ⟨rfl, rfl, rfl, by decide, rfl, rfl, rfl, ⟨0, rfl⟩⟩
example : WrapsField (SWraps[0]!.fields[2]!) .float := ⟨rfl, rfl, rfl, by decide, rfl, rfl, rfl, ⟨0, rfl⟩⟩

/-- an item equal to the wrapped default is the record `tag 00`, never the empty string -/
example : serializeScalar SWraps 1 .message (.int 0) true (some .int32) = .ok [10, 0] := by decide
/-- … and so is a `None` item -/
example : serializeScalar SWraps 1 .message .none true (some .int32) = .ok [10, 0] := by decide

end Bp

#print axioms Bp.dumpItems_wrap
#print axioms Bp.wraps_record_roundtrip
#print axioms Bp.wraps_fold
#print axioms Bp.dumpItems_norm
#print axioms Bp.slotStep_wraps
