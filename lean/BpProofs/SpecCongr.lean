import BpModel.All
import BpProofs.SpecPacked
/-
  C02 helper lemmas, part 8: records that mean the same (same number, same wire type, same
  decoded value for the field they target) are interchangeable; concrete packed / unpacked
  records of a repeated scalar field and the elements they carry.
-/
namespace Bp
open Gen Spec

/-- the decoded value depends on a record only through wire type, varint value and payload
    (never through the raw bytes, i.e. never through how its varints were written) -/
theorem decodeValue_congr (S : Schema) (rec : Loader) (f : FieldD) (pf pf' : PField)
    (h1 : pf.wt = pf'.wt) (h2 : pf.vint = pf'.vint) (h3 : pf.payload = pf'.payload) :
    decodeValue S rec f pf = decodeValue S rec f pf' := by
  unfold decodeValue; rw [h1, h2, h3]

/-- `pf` and `pf'` mean the same to class `d` under the nested loader `rec` -/
def SameMeaning (S : Schema) (rec : Loader) (d : MsgD) (pf pf' : PField) : Prop :=
  pf.num = pf'.num ∧ pf.wt = pf'.wt ∧
    ∀ idx f, Targets d pf idx f → decodeValue S rec f pf = decodeValue S rec f pf'

theorem sameMeaning_of_eq (S : Schema) (rec : Loader) (d : MsgD) (pf pf' : PField)
    (h0 : pf.num = pf'.num) (h1 : pf.wt = pf'.wt) (h2 : pf.vint = pf'.vint) (h3 : pf.payload = pf'.payload) :
    SameMeaning S rec d pf pf' :=
  ⟨h0, h1, fun _ f _ => decodeValue_congr S rec f pf pf' h1 h2 h3⟩

theorem isUnknown_congr (d : MsgD) (pf pf' : PField) (h0 : pf.num = pf'.num) (h1 : pf.wt = pf'.wt) :
    isUnknownField d pf = isUnknownField d pf' := by
  unfold isUnknownField; rw [h0, h1]

theorem targets_congr (d : MsgD) (pf pf' : PField) (idx : Nat) (f : FieldD) (h0 : pf.num = pf'.num) (h1 : pf.wt = pf'.wt)
    (h : Targets d pf idx f) : Targets d pf' idx f := by
  unfold Targets at h ⊢; rw [← h0, ← h1]; exact h

theorem core_eq_with (a b : MState) (h : core a = core b) : a = { b with unknown := a.unknown } := by
  cases a; cases b
  simp only [core, MState.mk.injEq] at h ⊢
  exact ⟨h.1, h.2.1, h.2.2⟩

/-- the decode step does not look at the retained unknown bytes -/
theorem applyField_core_irrel (S : Schema) (rec : Loader) (d : MsgD) (a b : MState) (pf : PField)
    (h : core a = core b) : (applyField S rec d a pf).map core = (applyField S rec d b pf).map core := by
  rw [core_eq_with a b h]
  rcases record_cases d pf with hu | ⟨idx, f, ht⟩ | ⟨idx, h1, h2⟩
  · rw [applyField_unknown S rec d _ pf hu, applyField_unknown S rec d b pf hu]; rfl
  · rw [applyField_with_unknown S rec d b pf (targets_known d pf idx f ht)]
    cases applyField S rec d b pf <;> rfl
  · rw [applyField_badtable S rec d _ pf idx h1 h2, applyField_badtable S rec d b pf idx h1 h2]

theorem applyField_congr (S : Schema) (rec : Loader) (d : MsgD) (a b : MState) (pf pf' : PField)
    (hs : SameMeaning S rec d pf pf') (h : core a = core b) :
    (applyField S rec d a pf).map core = (applyField S rec d b pf').map core := by
  rw [applyField_core_irrel S rec d a b pf h]
  obtain ⟨h0, h1, h2⟩ := hs
  rcases record_cases d pf with hu | ⟨idx, f, ht⟩ | ⟨idx, e1, e2⟩
  · have hu' : isUnknownField d pf' = true := by rw [← isUnknown_congr d pf pf' h0 h1]; exact hu
    rw [applyField_unknown S rec d b pf hu, applyField_unknown S rec d b pf' hu']; rfl
  · rw [applyField_targets S rec d b pf idx f ht,
      applyField_targets S rec d b pf' idx f (targets_congr d pf pf' idx f h0 h1 ht), h2 idx f ht]
  · rw [applyField_badtable S rec d b pf idx e1 e2, applyField_badtable S rec d b pf' idx (by rw [← h0]; exact e1) e2]

/-- **record lists that mean the same, record by record, decode to the same message** -/
theorem foldFields_congr (S : Schema) (rec : Loader) (d : MsgD) (pfs pfs' : List PField)
    (hs : List.Forall₂ (SameMeaning S rec d) pfs pfs') (a b : MState) (h : core a = core b) :
    (foldFields S rec d a pfs).map core = (foldFields S rec d b pfs').map core := by
  induction hs generalizing a b with
  | nil => simp only [foldFields, map_ok]; rw [h]
  | @cons pf pf' ps ps' hm _ ih =>
    simp only [foldFields]
    have := applyField_congr S rec d a b pf pf' hm h
    cases ha : applyField S rec d a pf with
    | error e =>
      rw [ha] at this
      cases hb : applyField S rec d b pf' with
      | error e' => rw [hb] at this; simp only [map_error] at this; injection this with this; subst this; rfl
      | ok s => rw [hb] at this; simp at this
    | ok s1 =>
      rw [ha] at this
      cases hb : applyField S rec d b pf' with
      | error e' => rw [hb] at this; simp at this
      | ok s2 =>
        rw [hb] at this; simp only [map_ok] at this
        injection this with this
        simp only [bind_ok]
        exact ih s1 s2 this

/-! ### concrete records of a repeated scalar field -/

/-- one packed chunk -/
def packedRec (num : Nat) (payload raw : Bytes) : PField :=
  { num := num, wt := wireLenDelim, vint := 0, payload := payload, raw := raw }

/-- one unpacked element (written `e`) -/
def unpackedRec (num : Nat) (t : PType) (e raw : Bytes) : PField :=
  match elemWidth t with
  | some w => { num := num, wt := if w = 4 then wireFixed32 else wireFixed64, vint := 0, payload := e, raw := raw }
  | Option.none => { num := num, wt := wireVarint, vint := varintValue e % 2 ^ 64, payload := [], raw := raw }

theorem decodeValue_packedRec (S : Schema) (rec : Loader) (f : FieldD) (num : Nat) (p raw : Bytes)
    (hp : isPacked f.ty = true) :
    decodeValue S rec f (packedRec num p raw) = (decodePacked f.ty p).bind fun vs => .ok (Val.list vs) := by
  unfold decodeValue packedRec
  simp [hp]

theorem decodeValue_unpackedRec (S : Schema) (rec : Loader) (f : FieldD) (num : Nat) (e raw : Bytes) :
    decodeValue S rec f (unpackedRec num f.ty e raw) = decodeElem f.ty e := by
  unfold decodeValue unpackedRec decodeElem
  cases hw : elemWidth f.ty with
  | none =>
    have c1 : (wireVarint == wireLenDelim) = false := rfl
    simp only [c1, Bool.false_and, Bool.false_eq_true, if_false, beq_self_eq_true, if_true]
  | some w =>
    by_cases h4 : w = 4
    · have c1 : (wireFixed32 == wireLenDelim) = false := rfl
      have c2 : (wireFixed32 == wireVarint) = false := rfl
      simp only [h4, if_true, c1, c2, Bool.false_and, Bool.false_eq_true, if_false, beq_self_eq_true, Bool.true_or]
    · have c1 : (wireFixed64 == wireLenDelim) = false := rfl
      have c2 : (wireFixed64 == wireVarint) = false := rfl
      simp only [h4, if_false, c1, c2, Bool.false_and, Bool.false_eq_true, beq_self_eq_true, Bool.or_true, if_true]

/-- the elements carried by a run of unpacked records -/
theorem elemsOfRecs_unpacked (S : Schema) (rec : Loader) (f : FieldD) (num : Nat) (es : List Bytes)
    (raws : Bytes → Bytes) (vs : List Val) (h : decodeElems f.ty es = .ok vs)
    (hnl : ∀ v ∈ vs, isListVal v = false) :
    elemsOfRecs S rec f (es.map fun e => unpackedRec num f.ty e (raws e)) = .ok vs := by
  induction es generalizing vs with
  | nil => simp only [decodeElems] at h; injection h with h; subst h; rfl
  | cons e es ih =>
    simp only [decodeElems] at h
    cases hv : decodeElem f.ty e with
    | error x => rw [hv] at h; simp at h
    | ok v =>
      rw [hv] at h; simp only [bind_ok] at h
      cases hr : decodeElems f.ty es with
      | error x => rw [hr] at h; simp at h
      | ok vs' =>
        rw [hr] at h; simp only [bind_ok] at h
        injection h with h; subst h
        simp only [List.map_cons, elemsOfRecs, decodeValue_unpackedRec, hv, bind_ok]
        rw [ih vs' hr (fun x hx => hnl x (by simp [hx]))]
        simp only [bind_ok]
        have : isListVal v = false := hnl v (by simp)
        have e1 : elemsOf v = [v] := by cases v <;> first | rfl | simp [isListVal] at this
        rw [e1]; rfl

/-- the elements carried by a run of packed chunks -/
theorem elemsOfRecs_chunks (S : Schema) (rec : Loader) (f : FieldD) (hp : isPacked f.ty = true) (num : Nat)
    (chunks : List (List Bytes)) (raws : List Bytes → Bytes) (hv : ∀ c ∈ chunks, ∀ e ∈ c, ValidElem f.ty e)
    (vs : List Val) (h : decodeElems f.ty chunks.flatten = .ok vs) :
    elemsOfRecs S rec f (chunks.map fun c => packedRec num c.flatten (raws c)) = .ok vs := by
  induction chunks generalizing vs with
  | nil => simp only [List.flatten_nil, decodeElems] at h; injection h with h; subst h; rfl
  | cons c cs ih =>
    simp only [List.flatten_cons, decodeElems_append] at h
    cases hc : decodeElems f.ty c with
    | error x => rw [hc] at h; simp at h
    | ok xs =>
      rw [hc] at h; simp only [bind_ok] at h
      cases hr : decodeElems f.ty cs.flatten with
      | error x => rw [hr] at h; simp at h
      | ok ys =>
        rw [hr] at h; simp only [bind_ok] at h
        injection h with h; subst h
        simp only [List.map_cons, elemsOfRecs, decodeValue_packedRec S rec f num _ _ hp]
        rw [decodePacked_elems f.ty c (hv c (by simp)), hc]
        simp only [bind_ok]
        rw [ih (fun c' hc' => hv c' (by simp [hc'])) ys hr]
        rfl

end Bp
