import BpModel.All
import BpModel.Spec
import BpProofs.Load
/-
  C02 helper lemmas, part 1: the decoded message without its retained unknown bytes
  (`core`), and what records the receiving class does not know do to it (nothing).
-/
namespace Bp
open Gen

/-- the decoded field values, oneof selection and presence: the state without the raw
    bytes kept for unknown fields -/
def core (st : MState) : MState := { st with unknown := [] }

theorem core_with_unknown (st : MState) (u : Bytes) : core { st with unknown := u } = core st := rfl

theorem core_eq_iff (a b : MState) :
    core a = core b ↔ a.slots = b.slots ∧ a.onWire = b.onWire ∧ a.cur = b.cur := by
  cases a; cases b; simp [core]

/-- `storeValue` never looks at the unknown bytes (failure included) -/
theorem storeValue_with_unknown (S : Schema) (d : MsgD) (st1 : MState) (idx : Nat) (f : FieldD) (v : Val) (u : Bytes) :
    storeValue S d { st1 with unknown := u } idx f v
      = (storeValue S d st1 idx f v).map fun s => { s with unknown := u } := by
  unfold storeValue
  dsimp only
  split
  · split <;> rfl
  · split
    · split <;> rfl
    · rw [setAttr_with_unknown]; rfl

/-- a known record does the same whatever unknown bytes have been collected so far -/
theorem applyField_with_unknown (S : Schema) (rec : Loader) (d : MsgD) (st : MState) (pf : PField)
    (hk : isUnknownField d pf = false) (u : Bytes) :
    applyField S rec d { st with unknown := u } pf
      = (applyField S rec d st pf).map fun s => { s with unknown := u } := by
  unfold isUnknownField at hk
  unfold applyField
  split
  · rename_i hidx; rw [hidx] at hk; simp at hk
  · rename_i idx hidx
    rw [hidx] at hk
    simp only at hk
    split
    · rfl
    · rename_i f hf
      rw [hf] at hk
      simp only at hk
      have hfit : wireFits f pf.wt = true := by simpa using hk
      simp only [hfit, Bool.not_true, Bool.false_eq_true, if_false]
      cases hv : decodeValue S rec f pf with
      | error e => rfl
      | ok value =>
        simp only [bind_ok]
        rw [prepCurrent_with_unknown, storeValue_with_unknown]

theorem applyField_core_known (S : Schema) (rec : Loader) (d : MsgD) (st : MState) (pf : PField)
    (hk : isUnknownField d pf = false) :
    applyField S rec d (core st) pf = (applyField S rec d st pf).map core := by
  have := applyField_with_unknown S rec d st pf hk []
  exact this

/-- **the decoded message depends only on the known records**: the whole record list and
    the list without its unknown records (wherever they stood) give the same field values,
    selection and presence — and fail together, with the same error -/
theorem foldFields_core_filter (S : Schema) (rec : Loader) (d : MsgD) (pfs : List PField) (st : MState) :
    (foldFields S rec d st pfs).map core
      = (foldFields S rec d (core st) (pfs.filter fun pf => !isUnknownField d pf)).map core := by
  induction pfs generalizing st with
  | nil => simp [foldFields, core]
  | cons pf pfs ih =>
    by_cases hu : isUnknownField d pf = true
    · rw [foldFields, applyField_unknown S rec d st pf hu]
      simp only [bind_ok, List.filter_cons, hu, Bool.not_true, Bool.false_eq_true, if_false]
      rw [ih, core_with_unknown]
    · have hu' : isUnknownField d pf = false := by simpa using hu
      simp only [List.filter_cons, hu', Bool.not_false, if_true]
      rw [foldFields, foldFields, applyField_core_known S rec d st pf hu']
      cases applyField S rec d st pf with
      | error e => rfl
      | ok s1 =>
        simp only [bind_ok, map_ok]
        exact ih s1

end Bp
