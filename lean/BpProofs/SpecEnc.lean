import BpModel.All
import BpProofs.SpecCongr
/-
  C02 helper lemmas, part 9: byte strings assembled from records whose varints (tag, length,
  value) are written in ANY well-shaped way are framed into exactly those records.
-/
namespace Bp
open Gen Spec

/-- a record written out with freely chosen varint encodings -/
inductive EncRec
  /-- tag varint, value varint -/
  | varint (tg vl : Bytes)
  /-- tag varint, length varint, payload -/
  | len (tg ln p : Bytes)
  /-- tag varint, 8 or 4 payload bytes -/
  | fixed (tg p : Bytes)

def tagOf (tg : Bytes) : Nat := varintValue tg % 2 ^ 64

def EncRec.bytes : EncRec → Bytes
  | .varint tg vl => tg ++ vl
  | .len tg ln p => tg ++ ln ++ p
  | .fixed tg p => tg ++ p

def GoodVarint (e : Bytes) : Prop := varintShape e = true ∧ e.length ≤ 10

/-- well-formed: every varint well-shaped and ≤ 10 bytes (minimal or padded), field number
    ≠ 0, wire type matching the layout, announced length = payload length -/
def EncRec.Valid : EncRec → Prop
  | .varint tg vl => GoodVarint tg ∧ GoodVarint vl ∧ tagOf tg % 8 = 0 ∧ tagOf tg / 8 ≠ 0
  | .len tg ln p => GoodVarint tg ∧ GoodVarint ln ∧ tagOf tg % 8 = 2 ∧ tagOf tg / 8 ≠ 0 ∧ varintValue ln % 2 ^ 64 = p.length
  | .fixed tg p => GoodVarint tg ∧ tagOf tg / 8 ≠ 0 ∧ ((tagOf tg % 8 = 1 ∧ p.length = 8) ∨ (tagOf tg % 8 = 5 ∧ p.length = 4))

/-- the record the framing must produce -/
def EncRec.toPField : EncRec → PField
  | .varint tg vl => { num := tagOf tg / 8, wt := 0, vint := varintValue vl % 2 ^ 64, payload := [], raw := tg ++ vl }
  | .len tg ln p => { num := tagOf tg / 8, wt := 2, vint := 0, payload := p, raw := tg ++ ln ++ p }
  | .fixed tg p => { num := tagOf tg / 8, wt := tagOf tg % 8, vint := 0, payload := p, raw := tg ++ p }

/-- the same record up to how its varints are written: same tag value, same value / payload -/
def EncRec.SamePad : EncRec → EncRec → Prop
  | .varint tg vl, .varint tg' vl' => tagOf tg = tagOf tg' ∧ varintValue vl % 2 ^ 64 = varintValue vl' % 2 ^ 64
  | .len tg _ p, .len tg' _ p' => tagOf tg = tagOf tg' ∧ p = p'
  | .fixed tg p, .fixed tg' p' => tagOf tg = tagOf tg' ∧ p = p'
  | _, _ => False

theorem goodVarint_ne_nil (e : Bytes) (h : GoodVarint e) : e ≠ [] := by
  intro he; subst he; simp [GoodVarint, varintShape] at h

theorem loadField_encRec (r : EncRec) (hv : r.Valid) (rest : Bytes) :
    loadField (r.bytes ++ rest) = .ok (r.toPField, rest) ∧ r.bytes ++ rest ≠ [] := by
  cases r with
  | varint tg vl =>
    obtain ⟨h1, h2, h3, h4⟩ := hv
    refine ⟨loadField_varint_rec tg vl rest h1.1 h1.2 h2.1 h2.2 h3 h4, ?_⟩
    have := goodVarint_ne_nil tg h1
    simp [EncRec.bytes, this]
  | len tg ln p =>
    obtain ⟨h1, h2, h3, h4, h5⟩ := hv
    refine ⟨loadField_len_rec tg ln p rest h1.1 h1.2 h2.1 h2.2 h3 h4 h5, ?_⟩
    have := goodVarint_ne_nil tg h1
    simp [EncRec.bytes, this]
  | fixed tg p =>
    obtain ⟨h1, h2, h3⟩ := hv
    have := goodVarint_ne_nil tg h1
    refine ⟨?_, by simp [EncRec.bytes, this]⟩
    rcases h3 with ⟨a, b⟩ | ⟨a, b⟩
    · exact loadField_fixed_rec tg p rest 8 h1.1 h1.2 (Or.inl ⟨a, rfl⟩) h2 b
    · exact loadField_fixed_rec tg p rest 4 h1.1 h1.2 (Or.inr ⟨a, rfl⟩) h2 b

/-- **framing of freely padded records**: the concatenation of valid encoded records is
    split into exactly those records, whatever padding each varint carries -/
theorem loadFields_encRecs (rs : List EncRec) (hv : ∀ r ∈ rs, r.Valid) :
    loadFields (rs.map EncRec.bytes).flatten = .ok (rs.map EncRec.toPField) := by
  induction rs with
  | nil => rfl
  | cons r rs ih =>
    simp only [List.map_cons, List.flatten_cons]
    obtain ⟨h1, h2⟩ := loadField_encRec r (hv r (by simp)) (rs.map EncRec.bytes).flatten
    rw [loadFields_cons _ _ _ h2 h1, ih (fun x hx => hv x (by simp [hx]))]
    rfl

theorem samePad_sameMeaning (S : Schema) (rec : Loader) (d : MsgD) (r r' : EncRec) (h : r.SamePad r') :
    SameMeaning S rec d r.toPField r'.toPField := by
  cases r <;> cases r' <;> simp only [EncRec.SamePad] at h
  · exact sameMeaning_of_eq S rec d _ _ (by simp [EncRec.toPField, h.1]) rfl (by simp only [EncRec.toPField]; exact h.2) rfl
  · exact sameMeaning_of_eq S rec d _ _ (by simp [EncRec.toPField, h.1]) rfl rfl (by simp [EncRec.toPField, h.2])
  · exact sameMeaning_of_eq S rec d _ _ (by simp [EncRec.toPField, h.1]) (by simp [EncRec.toPField, h.1]) rfl
      (by simp [EncRec.toPField, h.2])

theorem forall₂_map {α β : Type} (R : α → α → Prop) (Q : β → β → Prop) (f : α → β) (l l' : List α)
    (himp : ∀ a b, R a b → Q (f a) (f b)) (h : List.Forall₂ R l l') : List.Forall₂ Q (l.map f) (l'.map f) := by
  induction h with
  | nil => exact List.Forall₂.nil
  | cons hab _ ih => exact List.Forall₂.cons (himp _ _ hab) ih

/-- a LEN record of a message / map field: only what the nested loader makes of the payload counts -/
theorem decodeValue_nested_congr (S : Schema) (rec : Loader) (f : FieldD) (num : Nat) (p p' raw raw' : Bytes)
    (hty : f.ty = .message ∨ f.ty = .map) (h : ∀ d' st', rec d' st' p = rec d' st' p') :
    decodeValue S rec f (packedRec num p raw) = decodeValue S rec f (packedRec num p' raw') := by
  have hp : isPacked f.ty = false := by rcases hty with e | e <;> rw [e] <;> rfl
  unfold decodeValue packedRec
  have c1 : (wireLenDelim == wireVarint) = false := rfl
  have c2 : (wireLenDelim == wireFixed32 || wireLenDelim == wireFixed64) = false := rfl
  simp only [hp, Bool.and_false, Bool.false_eq_true, if_false, c1, c2]
  rcases hty with e | e
  · have : (f.ty == PType.map) = false := by rw [e]; rfl
    simp only [this, Bool.false_eq_true, if_false]
    unfold postLen
    have e1 : (f.ty == PType.string) = false := by rw [e]; rfl
    have e2 : (f.ty == PType.message) = true := by rw [e]; rfl
    simp only [e1, e2, Bool.false_eq_true, if_false, if_true, h]
  · have : (f.ty == PType.map) = true := by rw [e]; rfl
    simp only [this, if_true, h]

end Bp
