import BpModel.All
import BpModel.Spec
import BpProofs.SpecLinkStep
/-
  C02, link between the model of betterproto and the spec-level decoder, part 6: nesting
  (induction on the fuel), the spec decoder's own fuel, and the byte-level statement.
-/
namespace Bp.Link
open Bp Gen

/-! ### the spec-level splitter: every payload is shorter than the input -/

theorem takeVarint_len (n : Nat) (bs v r : Bytes) (h : Spec.takeVarint n bs = some (v, r)) :
    v ++ r = bs ∧ 0 < v.length := by
  induction n generalizing bs v r with
  | zero => simp [Spec.takeVarint] at h
  | succ n ih =>
    cases bs with
    | nil => simp [Spec.takeVarint] at h
    | cons b bs =>
      rw [Spec.takeVarint] at h
      split at h
      · simp at h; obtain ⟨rfl, rfl⟩ := h; simp
      · cases ht : Spec.takeVarint n bs with
        | none => rw [ht] at h; simp at h
        | some vr =>
          obtain ⟨v1, r1⟩ := vr
          rw [ht] at h; simp at h
          obtain ⟨rfl, rfl⟩ := h
          have := ih bs v1 r1 ht
          simp [this.1]

theorem readVarint_len (bs : Bytes) (x : Nat) (r : Bytes) (h : Spec.readVarint bs = some (x, r)) :
    r.length < bs.length := by
  unfold Spec.readVarint at h
  cases ht : Spec.takeVarint 10 bs with
  | none => rw [ht] at h; simp at h
  | some vr =>
    obtain ⟨v, r1⟩ := vr
    rw [ht] at h; simp at h
    obtain ⟨_, rfl⟩ := h
    have := takeVarint_len 10 bs v r1 ht
    rw [← this.1, List.length_append]
    omega

theorem readRec_len (bs : Bytes) (r : Spec.WireRec) (rest : Bytes) (h : Spec.readRec bs = some (r, rest)) :
    r.payload.length + rest.length < bs.length := by
  unfold Spec.readRec at h
  cases hv : Spec.readVarint bs with
  | none => rw [hv] at h; simp at h
  | some tr =>
    obtain ⟨tag, r1⟩ := tr
    have hl := readVarint_len bs tag r1 hv
    rw [hv] at h
    simp only at h
    split at h
    · simp at h
    · split at h
      · cases hv2 : Spec.readVarint r1 with
        | none => rw [hv2] at h; simp at h
        | some vr =>
          obtain ⟨x, r2⟩ := vr
          have := readVarint_len r1 x r2 hv2
          rw [hv2] at h; simp at h
          obtain ⟨rfl, rfl⟩ := h
          simp; omega
      · split at h
        · split at h
          · simp at h
          · simp at h; obtain ⟨rfl, rfl⟩ := h
            simp; omega
        · split at h
          · cases hv2 : Spec.readVarint r1 with
            | none => rw [hv2] at h; simp at h
            | some vr =>
              obtain ⟨n, r2⟩ := vr
              have := readVarint_len r1 n r2 hv2
              rw [hv2] at h
              simp only at h
              split at h
              · simp at h
              · simp at h; obtain ⟨rfl, rfl⟩ := h
                simp; omega
          · split at h
            · split at h
              · simp at h
              · simp at h; obtain ⟨rfl, rfl⟩ := h
                simp; omega
            · simp at h

theorem parseFuel_payload (fuel : Nat) (bs : Bytes) (rs : List Spec.WireRec) (h : Spec.parseFuel fuel bs = some rs) :
    ∀ r ∈ rs, r.payload.length < bs.length := by
  induction fuel generalizing bs rs with
  | zero => simp [Spec.parseFuel] at h
  | succ fuel ih =>
    cases bs with
    | nil => simp [Spec.parseFuel] at h; subst h; intro r hr; simp at hr
    | cons b bs =>
      simp only [Spec.parseFuel] at h
      cases hr : Spec.readRec (b :: bs) with
      | none => rw [hr] at h; simp at h
      | some rr =>
        obtain ⟨r0, rest⟩ := rr
        have hl := readRec_len _ r0 rest hr
        rw [hr] at h
        simp only at h
        cases hp : Spec.parseFuel fuel rest with
        | none => rw [hp] at h; simp at h
        | some rs' =>
          rw [hp] at h; simp at h; subst h
          intro r hr
          simp at hr
          rcases hr with rfl | hr
          · omega
          · have := ih rest rs' hp r hr
            omega

theorem parse_payload (bs : Bytes) (rs : List Spec.WireRec) (h : Spec.parse bs = some rs) :
    ∀ r ∈ rs, r.payload.length < bs.length := parseFuel_payload _ bs rs h

theorem recsSize_payload (rs : List Spec.WireRec) : ∀ r ∈ rs, r.payload.length < Spec.recsSize rs := by
  induction rs with
  | nil => intro r hr; simp at hr
  | cons r0 rs ih =>
    intro r hr
    simp at hr
    rcases hr with rfl | hr
    · simp [Spec.recsSize]; omega
    · have := ih r hr
      simp [Spec.recsSize]; omega

/-! ### the spec decoder depends on its nested decoder only through the payloads it meets -/

theorem lenVal_congr (S : Schema) (sub sub' : Spec.SubDecoder) (f : FieldD) (p : Bytes)
    (h : ∀ c d', sub c d' p = sub' c d' p) : Spec.lenVal S sub f p = Spec.lenVal S sub' f p := by
  unfold Spec.lenVal
  simp only [h]

theorem stepRec_congr (S : Schema) (sub sub' : Spec.SubDecoder) (d : MsgD) (m : Spec.AbsMsg) (r : Spec.WireRec)
    (h : ∀ c d', sub c d' r.payload = sub' c d' r.payload) :
    Spec.stepRec S sub d m r = Spec.stepRec S sub' d m r := by
  unfold Spec.stepRec Spec.valueOf
  simp only [h, lenVal_congr S sub sub' _ r.payload h]

theorem decodeRecs_congr (S : Schema) (sub sub' : Spec.SubDecoder) (c : Nat) (d : MsgD) (rs : List Spec.WireRec)
    (h : ∀ r ∈ rs, ∀ c d', sub c d' r.payload = sub' c d' r.payload) :
    Spec.decodeRecs S sub c d rs = Spec.decodeRecs S sub' c d rs := by
  unfold Spec.decodeRecs
  generalize Spec.emptyMsg c d = m0
  induction rs generalizing m0 with
  | nil => rfl
  | cons r rs ih =>
    simp only [List.foldl_cons]
    rw [stepRec_congr S sub sub' d m0 r (h r (by simp))]
    exact ih (fun x hx => h x (by simp [hx])) _

/-- the spec decoder's nesting fuel: any fuel above the payload length gives the same result -/
theorem subDecoder_fuel (S : Schema) (n : Nat) : ∀ (n' c : Nat) (d : MsgD) (p : Bytes), p.length < n → p.length < n' →
    Spec.subDecoder S n c d p = Spec.subDecoder S n' c d p := by
  induction n with
  | zero => intro n' c d p h; omega
  | succ n ih =>
    intro n' c d p h1 h2
    cases n' with
    | zero => omega
    | succ n' =>
      simp only [Spec.subDecoder]
      cases hp : Spec.parse p with
      | none => rfl
      | some rs =>
        simp only
        congr 1
        apply decodeRecs_congr
        intro r hr c' d'
        have := parse_payload p rs hp r hr
        exact ih n' c' d' r.payload (by omega) (by omega)

/-- `Spec.decodeBytes` in terms of the fuel-indexed nested decoder -/
theorem decodeBytes_eq_sub (S : Schema) (c : Nat) (d : MsgD) (hd : S[c]? = some d) (bs : Bytes) :
    Spec.decodeBytes S c bs = Spec.subDecoder S (bs.length + 1) c d bs := by
  unfold Spec.decodeBytes
  simp only [Spec.subDecoder]
  cases hp : Spec.parse bs with
  | none => rfl
  | some rs =>
    simp only [Option.map_some, Spec.decode, hd]
    congr 1
    apply decodeRecs_congr
    intro r hr c' d'
    exact subDecoder_fuel S _ _ c' d' r.payload (recsSize_payload rs r hr) (parse_payload bs rs hp r hr)

/-! ### class of the result -/

theorem put_cls (m : Spec.AbsMsg) (fs : List FieldD) (idx : Nat) (f : FieldD) (v : Val) :
    (Spec.put m fs idx f v).cls = m.cls := by
  unfold Spec.put; split <;> rfl

theorem appendAll_cls (m : Spec.AbsMsg) (idx : Nat) (vs : List Val) : (Spec.appendAll m idx vs).cls = m.cls := by
  unfold Spec.appendAll; split <;> rfl

theorem insertEntry_cls (m : Spec.AbsMsg) (idx : Nat) (k v : Val) : (Spec.insertEntry m idx k v).cls = m.cls := by
  unfold Spec.insertEntry; split <;> rfl

theorem stepRec_cls (S : Schema) (sub : Spec.SubDecoder) (d : MsgD) (m : Spec.AbsMsg) (r : Spec.WireRec) :
    (Spec.stepRec S sub d m r).cls = m.cls := by
  unfold Spec.stepRec
  repeat' split
  all_goals first | rfl | exact put_cls _ _ _ _ _ | exact appendAll_cls _ _ _ | exact insertEntry_cls _ _ _ _

theorem foldl_cls (S : Schema) (sub : Spec.SubDecoder) (d : MsgD) (rs : List Spec.WireRec) (m : Spec.AbsMsg) :
    (rs.foldl (Spec.stepRec S sub d) m).cls = m.cls := by
  induction rs generalizing m with
  | nil => rfl
  | cons r rs ih => simp only [List.foldl_cons]; rw [ih, stepRec_cls]

/-! ### framed records carry 64-bit varints -/

theorem loadField_vint (bs : Bytes) (pf : PField) (rest : Bytes) (h : loadField bs = .ok (pf, rest)) :
    pf.vint < 2 ^ 64 := by
  unfold loadField at h
  split at h
  · simp at h
  · split at h
    · simp at h
    · split at h
      · simp at h
      · rename_i v p c hp
        simp at h
        obtain ⟨rfl, _⟩ := h
        simp only
        unfold loadPayload at hp
        split at hp
        · split at hp
          · simp at hp
          · rename_i v' k2 hk2
            simp at hp; obtain ⟨rfl, _, _⟩ := hp
            exact loadVarint_lt64 _ _ _ hk2
        · split at hp
          · split at hp
            · simp at hp
            · simp at hp; obtain ⟨rfl, _, _⟩ := hp; decide
          · split at hp
            · split at hp
              · simp at hp
              · split at hp
                · simp at hp
                · simp at hp; obtain ⟨rfl, _, _⟩ := hp; decide
            · split at hp
              · split at hp
                · simp at hp
                · simp at hp; obtain ⟨rfl, _, _⟩ := hp; decide
              · simp at hp

/-! ### nesting: induction on the fuel -/

theorem sim_fresh (S : Schema) (c : Nat) (d : MsgD) :
    Sim S d { freshState d with onWire := true } (Spec.emptyMsg c d) := by
  refine ⟨⟨(freshState_typed false S d).1, (freshState_typed false S d).2⟩, ?_, ?_, ?_⟩
  · simp only [freshState, Spec.emptyMsg, nvs_eq_map, List.map_map]
    apply List.map_congr_left
    intro f _
    simp only [Function.comp]
    split <;> rfl
  · rfl
  · intro k
    simp only [Spec.emptyMsg, List.getD_eq_getElem?_getD, List.getElem?_map]
    cases d.fields[k]? <;> simp

/-- **nested messages, map entries, wrappers, Timestamp / Duration, to any depth**: with the
    same nesting fuel the model loader and the spec decoder agree on every payload -/
theorem loadInto_sim (S : Schema) (hS : GoodSchema S) :
    ∀ (n : Nat) (p : Bytes), SubSim S (loadInto S n) (Spec.subDecoder S n) (narrow32 S n) p := by
  intro n
  induction n with
  | zero => intro p c d st' _ _ hr; simp [loadInto] at hr
  | succ n ih =>
    intro p c d st' hd hnb hr
    rw [loadInto_succ] at hr
    cases hp : loadFields p with
    | error e => rw [hp] at hr; simp at hr
    | ok pfs =>
      rw [hp] at hr
      simp only [bind_ok] at hr
      have hnb' : ∀ pf ∈ pfs, narrowField S (narrow32 S n) d pf = true := by
        simp only [narrow32, hp, List.all_eq_true] at hnb
        exact hnb
      have hparsed := loadFields_parsed p pfs hp
      have hsim := fold_sim S (loadInto S n) (Spec.subDecoder S n) (narrow32 S n)
        (loadInto_typed false S (goodSchema_wf S hS) n) hS d hd pfs
        (fun pf hpf => ⟨ih pf.payload, by
          obtain ⟨bs, rest, hb⟩ := hparsed pf hpf
          exact loadField_vint bs pf rest hb, hnb' pf hpf⟩)
        _ st' (Spec.emptyMsg c d) (sim_fresh S c d) hr
      refine ⟨_, ?_, ?_, hsim⟩
      · simp only [Spec.subDecoder, framing_ok p pfs hp]
        rfl
      · rw [foldl_cls]; rfl

/-! ### the byte-level statement -/

/-- `load_complete` (stated in `BpProofs/Props/C02.lean`) -/
theorem load_complete_bytes (S : Schema) (hS : GoodSchema S) (c : Nat) (d : MsgD) (hd : S[c]? = some d)
    (bs : Bytes) (v : Val) (hn : narrow32 S (bs.length + 1) d bs = true) (h : parse S c bs = .ok v) :
    ∃ a, Spec.decodeBytes S c bs = some a ∧ a.nrm = absOf v := by
  unfold parse at h
  rw [fresh_eq S c d hd] at h
  simp only [parseInto, hd] at h
  have e : ({ slots := (freshState d).slots, onWire := false, unknown := [], cur := (freshState d).cur } : MState)
      = freshState d := rfl
  rw [e] at h
  cases hl : loadInto S (bs.length + 1) d (freshState d) bs with
  | error e => rw [hl] at h; simp at h
  | ok st =>
    rw [hl] at h
    simp only [bind_ok] at h
    injection h with h
    subst h
    obtain ⟨m, hm1, hm2, hsim⟩ := loadInto_sim S hS (bs.length + 1) bs c d st (goodSchema_class S hS c d hd) hn hl
    refine ⟨m, by rw [decodeBytes_eq_sub S c d hd bs, hm1], ?_⟩
    simp only [Spec.AbsMsg.nrm, MState.toVal, absOf, hm2, hsim.slots, hsim.sel]

/-! ### schemas without `uint32` / `sint32`: the input guard holds for every byte string -/

def noNarrowFieldB (f : FieldD) : Bool :=
  !isNarrowTy f.ty && !isNarrowTy f.mapK && !isNarrowTy f.mapV &&
    (match f.wraps with
     | some w => !isNarrowTy w
     | Option.none => true)

/-- no field, map key / value or wrapper of type `uint32` / `sint32` anywhere in the schema -/
def noNarrowB (S : Schema) : Bool := S.all fun d => d.fields.all noNarrowFieldB

theorem narrow32_of_noNarrow (S : Schema) (hS : noNarrowB S = true) :
    ∀ (n : Nat) (d : MsgD) (bs : Bytes), (∀ f ∈ d.fields, noNarrowFieldB f = true) → narrow32 S n d bs = true := by
  intro n
  induction n with
  | zero => intro d bs _; rfl
  | succ n ih =>
    intro d bs hd
    simp only [narrow32]
    cases hp : loadFields bs with
    | error e => rfl
    | ok pfs =>
      simp only [List.all_eq_true]
      intro pf _
      unfold narrowField
      cases hf : findField d.fields pf.num with
      | none => rfl
      | some idx =>
        simp only
        cases hfi : d.fields[idx]? with
        | none => rfl
        | some f =>
          simp only
          have hfn := hd f (List.mem_of_getElem? hfi)
          unfold noNarrowFieldB at hfn
          simp only [Bool.and_eq_true, Bool.not_eq_true'] at hfn
          obtain ⟨⟨⟨h1, h2⟩, h3⟩, h4⟩ := hfn
          simp only [h1, Bool.not_false, Bool.true_or, Bool.true_and]
          have hsub : ∀ d', subDesc S f = some d' → narrow32 S n d' pf.payload = true := by
            intro d' hd'
            apply ih
            unfold subDesc at hd'
            split at hd'
            · injection hd' with hd'; subst hd'
              intro g hg
              rw [entryD_fields] at hg
              simp at hg
              rcases hg with rfl | rfl
              · simp [noNarrowFieldB, keyFieldOf, h2, show isNarrowTy PType.int32 = false from rfl]
              · simp [noNarrowFieldB, valFieldOf, h3, show isNarrowTy PType.int32 = false from rfl]
            · split at hd'
              · cases hw : f.wraps with
                | some w =>
                  rw [hw] at hd' h4
                  simp only at hd' h4
                  injection hd' with hd'; subst hd'
                  intro g hg
                  simp [wrapperD] at hg
                  subst hg
                  simp only [Bool.not_eq_true'] at h4
                  simp [noNarrowFieldB, h4, show isNarrowTy PType.int32 = false from rfl]
                | none =>
                  rw [hw] at hd'
                  simp only at hd'
                  cases hk : f.kind with
                  | user c =>
                    rw [hk] at hd'
                    simp only at hd'
                    unfold noNarrowB at hS
                    simp only [List.all_eq_true] at hS
                    exact hS d' (List.mem_of_getElem? hd')
                  | timestamp =>
                    rw [hk] at hd'; injection hd' with hd'; subst hd'
                    intro g hg; simp [secNanosD] at hg
                    rcases hg with rfl | rfl <;> rfl
                  | duration =>
                    rw [hk] at hd'; injection hd' with hd'; subst hd'
                    intro g hg; simp [secNanosD] at hg
                    rcases hg with rfl | rfl <;> rfl
              · simp at hd'
          split
          · rfl
          · split
            · cases hsd : subDesc S f with
              | none => rfl
              | some d' => exact hsub d' hsd
            · rfl

theorem narrow32_of_noNarrow_class (S : Schema) (hS : noNarrowB S = true) (c : Nat) (d : MsgD) (hd : S[c]? = some d)
    (n : Nat) (bs : Bytes) : narrow32 S n d bs = true := by
  apply narrow32_of_noNarrow S hS
  unfold noNarrowB at hS
  simp only [List.all_eq_true] at hS
  exact hS d (List.mem_of_getElem? hd)

end Bp.Link
