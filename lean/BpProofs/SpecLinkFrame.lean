import BpModel.All
import BpModel.Spec
import BpProofs.Fields
/-
  C02, link between the MODEL of betterproto and the independent SPEC-level wire decoder
  (`BpModel/Spec.lean`), part 1: FRAMING.

  `Spec.parse` (written from the encoding document) and `loadFields` (the model of
  `load_fields`) accept exactly the same byte strings and cut them into the same records:
  same field number, wire type, varint value and payload, for ALL lists of naturals (no
  `WfBytes` hypothesis is needed: both read a "byte" ≥ 256 as a continuation byte and use
  it modulo 128).  There is no exception: groups (wire types 3 / 4), wire types 6 / 7,
  field number 0, truncated input and varints longer than 10 bytes are rejected by both.
-/
namespace Bp
open Gen

/-- the record a framed field of the model denotes (everything but the retained raw bytes) -/
def toRec (pf : PField) : Spec.WireRec :=
  { num := pf.num, wt := pf.wt, vint := pf.vint, payload := pf.payload }

/-- `Except` results seen as options -/
def okOpt {α : Type} : R α → Option α
  | .ok a => some a
  | .error _ => none

theorem okOpt_ok {α : Type} (a : α) : okOpt (Except.ok a : R α) = some a := rfl
theorem okOpt_error {α : Type} (e : PyErr) : okOpt (Except.error e : R α) = none := rfl

/-- the varint reader of the model, started after `j` bytes, and the spec-level reader
    allowed `n = 10 - j` more bytes -/
theorem loadAux_take (n : Nat) : ∀ (j : Nat) (_ : j + n = 10) (bs : Bytes) (res k : Nat),
    match Spec.takeVarint n bs with
    | some (v, r) =>
        loadVarintAux (7 * j) res k bs = .ok (res + Spec.varintValue v * 2 ^ (7 * j), k + v.length)
          ∧ v ++ r = bs
    | none => ∃ e, loadVarintAux (7 * j) res k bs = .error e := by
  induction n with
  | zero =>
    intro j hj bs res k
    have h64 : 7 * j ≥ 64 := by omega
    cases bs with
    | nil => simp [Spec.takeVarint, loadVarintAux, h64]
    | cons b bs => simp [Spec.takeVarint, loadVarintAux, h64]
  | succ n ih =>
    intro j hj bs res k
    have h64 : ¬ 7 * j ≥ 64 := by omega
    cases bs with
    | nil => simp [Spec.takeVarint, loadVarintAux, h64]
    | cons b bs =>
      by_cases hb : b < 128
      · simp [Spec.takeVarint, loadVarintAux, h64, hb, Spec.varintValue]
      · have ih' := ih (j + 1) (by omega) bs (res + b % 128 * 2 ^ (7 * j)) (k + 1)
        have e7 : 7 * j + 7 = 7 * (j + 1) := by omega
        rw [Spec.takeVarint]
        simp only [hb, if_false]
        rw [loadVarintAux]
        simp only [h64, hb, if_false]
        rw [e7]
        cases ht : Spec.takeVarint n bs with
        | none =>
          rw [ht] at ih'
          exact ih'
        | some vr =>
          obtain ⟨v, r⟩ := vr
          rw [ht] at ih'
          simp only at ih' ⊢
          obtain ⟨h1, h2⟩ := ih'
          refine ⟨?_, by simp [h2]⟩
          rw [h1]
          simp only [Spec.varintValue, List.length_cons]
          congr 1
          simp only [Prod.mk.injEq]
          constructor
          · have : (2:Nat) ^ (7 * (j + 1)) = 128 * 2 ^ (7 * j) := by
              rw [show 7 * (j + 1) = 7 + 7 * j by omega, Nat.pow_add]
            rw [this]; ring
          · omega

/-- **varints**: `load_varint` and the spec-level varint reader agree on every input:
    same acceptance, same value (low 64 bits), same rest -/
theorem readVarint_eq (bs : Bytes) :
    Spec.readVarint bs = okOpt ((loadVarint bs).map fun vk => (vk.1, bs.drop vk.2)) := by
  have h := loadAux_take 10 0 (by omega) bs 0 0
  unfold Spec.readVarint loadVarint
  cases ht : Spec.takeVarint 10 bs with
  | none =>
    rw [ht] at h
    obtain ⟨e, he⟩ := h
    simp only [Nat.mul_zero] at he
    rw [he]
    rfl
  | some vr =>
    obtain ⟨v, r⟩ := vr
    rw [ht] at h
    simp only [Nat.mul_zero, Nat.pow_zero, Nat.mul_one, Nat.zero_add] at h
    obtain ⟨h1, h2⟩ := h
    rw [h1]
    simp only [Except.map, okOpt]
    subst h2
    simp

theorem readVarint_ok (bs : Bytes) (v k : Nat) (h : loadVarint bs = .ok (v, k)) :
    Spec.readVarint bs = some (v, bs.drop k) := by
  rw [readVarint_eq, h]; rfl

theorem readVarint_err (bs : Bytes) (e : PyErr) (h : loadVarint bs = .error e) :
    Spec.readVarint bs = none := by
  rw [readVarint_eq, h]; rfl

/-- **one record**: `load_fields`' body and the spec-level record reader agree on every input -/
theorem readRec_eq (bs : Bytes) :
    Spec.readRec bs = okOpt ((loadField bs).map fun pr => (toRec pr.1, pr.2)) := by
  unfold Spec.readRec loadField
  cases hv : loadVarint bs with
  | error e => rw [readVarint_err bs e hv]; rfl
  | ok vk =>
    obtain ⟨tag, k⟩ := vk
    rw [readVarint_ok bs tag k hv]
    simp only
    by_cases h0 : tag / 8 = 0
    · simp [h0, okOpt, Except.map]
    · have h0' : (tag / 8 == 0) = false := by simpa using h0
      simp only [h0, h0', if_false, Bool.false_eq_true]
      have hw : tag % 8 < 8 := Nat.mod_lt _ (by omega)
      generalize tag % 8 = w at hw
      unfold loadPayload
      have h8 : ∀ w, w < 8 → w = 0 ∨ w = 1 ∨ w = 2 ∨ w = 3 ∨ w = 4 ∨ w = 5 ∨ w = 6 ∨ w = 7 := by omega
      rcases h8 w hw with rfl | rfl | rfl | rfl | rfl | rfl | rfl | rfl
      · -- VARINT
        simp only [wireVarint, beq_self_eq_true, if_true]
        cases hv2 : loadVarint (bs.drop k) with
        | error e => rw [readVarint_err _ e hv2]; rfl
        | ok vk2 =>
          obtain ⟨v, k2⟩ := vk2
          rw [readVarint_ok _ v k2 hv2]
          simp [okOpt, Except.map, toRec, List.drop_drop]
      · -- I64
        simp only [wireVarint, wireFixed64]
        by_cases hl : bs.length - k < 8
        · simp [hl, okOpt, Except.map]
        · simp [hl, okOpt, Except.map, toRec, List.drop_drop]
      · -- LEN
        simp only [wireVarint, wireFixed64, wireLenDelim]
        cases hv2 : loadVarint (bs.drop k) with
        | error e => rw [readVarint_err _ e hv2]; rfl
        | ok vk2 =>
          obtain ⟨n, k2⟩ := vk2
          rw [readVarint_ok _ n k2 hv2]
          by_cases hl : bs.length - (k + k2) < n
          · simp [hl, okOpt, Except.map]
          · simp [hl, okOpt, Except.map, toRec, List.drop_drop, Nat.add_comm, Nat.add_left_comm]
      · simp [wireVarint, wireFixed64, wireLenDelim, wireFixed32, okOpt, Except.map]
      · simp [wireVarint, wireFixed64, wireLenDelim, wireFixed32, okOpt, Except.map]
      · -- I32
        simp only [wireVarint, wireFixed64, wireLenDelim, wireFixed32]
        by_cases hl : bs.length - k < 4
        · simp [hl, okOpt, Except.map]
        · simp [hl, okOpt, Except.map, toRec, List.drop_drop]
      · simp [wireVarint, wireFixed64, wireLenDelim, wireFixed32, okOpt, Except.map]
      · simp [wireVarint, wireFixed64, wireLenDelim, wireFixed32, okOpt, Except.map]

theorem parseFuel_eq (fuel : Nat) (bs : Bytes) :
    Spec.parseFuel fuel bs = okOpt ((loadFieldsFuel fuel bs).map fun pfs => pfs.map toRec) := by
  induction fuel generalizing bs with
  | zero => rfl
  | succ fuel ih =>
    cases bs with
    | nil => rfl
    | cons b bs =>
      rw [loadFieldsFuel_cons]
      simp only [Spec.parseFuel]
      rw [readRec_eq]
      cases hlf : loadField (b :: bs) with
      | error e => rfl
      | ok pr =>
        obtain ⟨pf, rest⟩ := pr
        simp only [Except.map, okOpt]
        rw [ih rest]
        cases loadFieldsFuel fuel rest with
        | error e => rfl
        | ok pfs => rfl

/-- **FRAMING AGREEMENT** — for every list of naturals `bs`, the spec-level splitter accepts
    `bs` iff the model of `load_fields` does, and the records correspond one to one (field
    number, wire type, varint value, payload).  No hypothesis, no exception. -/
theorem framing_agree (bs : Bytes) :
    Spec.parse bs = okOpt ((loadFields bs).map fun pfs => pfs.map toRec) :=
  parseFuel_eq (bs.length + 1) bs

theorem framing_ok (bs : Bytes) (pfs : List PField) (h : loadFields bs = .ok pfs) :
    Spec.parse bs = some (pfs.map toRec) := by rw [framing_agree, h]; rfl

theorem framing_err (bs : Bytes) (e : PyErr) (h : loadFields bs = .error e) : Spec.parse bs = none := by
  rw [framing_agree, h]; rfl

/-- accepted by the one iff accepted by the other -/
theorem framing_accepts (bs : Bytes) : (Spec.parse bs).isSome = (loadFields bs).isOk := by
  rw [framing_agree]; cases loadFields bs <;> rfl

/-- conversely, every record list the spec-level splitter yields is the image of what the model yields -/
theorem framing_some (bs : Bytes) (rs : List Spec.WireRec) (h : Spec.parse bs = some rs) :
    ∃ pfs, loadFields bs = .ok pfs ∧ rs = pfs.map toRec := by
  rw [framing_agree] at h
  cases hl : loadFields bs with
  | error e => rw [hl] at h; simp [okOpt, Except.map] at h
  | ok pfs => rw [hl] at h; simp [okOpt, Except.map] at h; exact ⟨pfs, rfl, h.symm⟩

end Bp
