import BpModel.All
import BpModel.Spec
import BpProofs.SpecLink
/-
  C02, link between the model of betterproto and the spec-level decoder, part 7: the input
  guard of `load_complete` WEAKENED to the records the class knows.

  `narrow32` (SpecLinkSim) inspects every record whose NUMBER the class declares, whatever its
  wire type.  A record with a declared number and an unfitting wire type is an UNKNOWN field for
  both decoders (`isUnknownField`; the model keeps its raw bytes, the spec ignores it), yet
  `narrow32` still looks into it: number 1 declared `uint32` (singular), record `0a 05 80 80 80 80 10`
  (wire type 2, payload = the varint 2^32) fails `narrow32` although both decoders skip it.
  Such bytes are exactly what `bytes(m)` appends for the unknown fields `m` carries (`UnkOk`), so
  `narrow32` is NOT a property of the encoder's output (counterexample `CX` in
  `BpProofs/Props/C02Dump.lean`).

  `narrow32U` is `narrow32` with the unknown records skipped, at every nesting level.  It is
  weaker (`narrow32U_of_narrow32`), `load_complete` still holds under it
  (`load_complete_bytesU`), and it IS a property of the encoder's output
  (`BpProofs/DumpNarrow.lean`).
-/
namespace Bp.Link
open Bp Gen

/-- `narrowField`, not asked of a record that is an unknown field of the class -/
def narrowFieldU (S : Schema) (nb : MsgD → Bytes → Bool) (d : MsgD) (pf : PField) : Bool :=
  isUnknownField d pf || narrowField S nb d pf

/-- **the weakened input guard**: no KNOWN `uint32` / `sint32` position of the byte string
    (a record the class declares with a fitting wire type; at any nesting depth ≤ `fuel`)
    holds a varint ≥ 2^32 -/
def narrow32U (S : Schema) : Nat → MsgD → Bytes → Bool
  | 0, _, _ => true
  | fuel + 1, d, bs =>
    match loadFields bs with
    | .ok pfs => pfs.all (narrowFieldU S (narrow32U S fuel) d)
    | .error _ => true

theorem narrowField_mono (S : Schema) (nb nb' : MsgD → Bytes → Bool) (d : MsgD) (pf : PField)
    (h : ∀ d', nb d' pf.payload = true → nb' d' pf.payload = true)
    (hn : narrowField S nb d pf = true) : narrowField S nb' d pf = true := by
  unfold narrowField at hn ⊢
  cases hf : findField d.fields pf.num with
  | none => rfl
  | some idx =>
    rw [hf] at hn
    simp only at hn ⊢
    cases hfi : d.fields[idx]? with
    | none => rfl
    | some f =>
      rw [hfi] at hn
      simp only at hn ⊢
      split
      · rename_i h0; rw [if_pos h0] at hn; exact hn
      · rename_i h0
        rw [if_neg h0] at hn
        split
        · rename_i h2
          rw [if_pos h2] at hn
          simp only [Bool.and_eq_true] at hn ⊢
          refine ⟨hn.1, ?_⟩
          cases hs : subDesc S f with
          | none => rfl
          | some d' =>
            have := hn.2
            rw [hs] at this
            exact h d' this
        · rfl

/-- the old guard implies the new one -/
theorem narrow32U_of_narrow32 (S : Schema) : ∀ (n : Nat) (d : MsgD) (bs : Bytes),
    narrow32 S n d bs = true → narrow32U S n d bs = true := by
  intro n
  induction n with
  | zero => intro d bs _; rfl
  | succ n ih =>
    intro d bs h
    simp only [narrow32] at h
    simp only [narrow32U]
    cases hp : loadFields bs with
    | error e => rfl
    | ok pfs =>
      rw [hp] at h
      simp only [List.all_eq_true] at h ⊢
      intro pf hpf
      unfold narrowFieldU
      rw [Bool.or_eq_true]
      exact Or.inr (narrowField_mono S _ _ d pf (fun d' => ih d' pf.payload) (h pf hpf))

/-- **one unknown record**: `Message.load` appends its raw bytes to `_unknown_fields`, the
    spec step ignores it -/
theorem step_sim_unknown (S : Schema) (rec : Loader) (sub : Spec.SubDecoder)
    (hrecT : LoaderOk false S rec) (hS : GoodSchema S) (d : MsgD) (hd : GoodD S d)
    (st st' : MState) (m : Spec.AbsMsg) (pf : PField)
    (hu : isUnknownField d pf = true)
    (hsim : Sim S d st m) (h : applyField S rec d st pf = .ok st') :
    Sim S d st' (Spec.stepRec S sub d m (toRec pf)) := by
  have hST := goodSchema_wf S hS
  have htyped := applyField_typed false S rec hrecT hST d hd.1 st st' pf (by simp) hsim.typed h
  suffices hc : SimCore st' (Spec.stepRec S sub d m (toRec pf)) from ⟨htyped, hc.1, hc.2.1, hc.2.2⟩
  have hlook := lookupNum_eq d.fields hd.2.1 pf.num
  have hnum : (toRec pf).num = pf.num := rfl
  unfold applyField at h
  unfold isUnknownField at hu
  cases hfind : findField d.fields pf.num with
  | none =>
    rw [hfind] at h hlook
    simp only at h hlook
    injection h with h; subst h
    rw [stepRec_unknown S sub d m _ (by rw [hnum]; exact hlook)]
    exact ⟨hsim.slots, hsim.sel, hsim.nonone⟩
  | some idx =>
    rw [hfind] at h hlook hu
    simp only at h hlook hu
    cases hfi : d.fields[idx]? with
    | none => rw [hfi] at h; simp at h
    | some f =>
      rw [hfi] at h hlook hu
      simp only [Option.map_some] at h hlook hu
      rw [stepRec_known S sub d m _ idx f (by rw [hnum]; exact hlook)]
      have hrwt : (toRec pf).wt = pf.wt := rfl
      have hrpl : (toRec pf).payload = pf.payload := rfl
      rw [hrwt, hrpl]
      have hfit : ¬ wireFits f pf.wt = true := by
        intro hc; rw [hc] at hu; simp at hu
      simp only [hfit, Bool.not_false, if_true] at h
      injection h with h; subst h
      have hnf := fun hc => hfit ((wireFits_iff f pf.wt).2 hc)
      have h1 : ¬ pf.wt = Spec.wireTypeOf f.ty := fun hc => hnf (Or.inl hc)
      have hbody : ∀ (a b c e : Spec.AbsMsg),
          (if f.ty == .map then (if pf.wt = 2 then a else m)
           else if f.repeated then
             (if pf.wt = Spec.wireTypeOf f.ty then b
              else if pf.wt = 2 && Spec.packable f.ty then c else m)
           else if pf.wt = Spec.wireTypeOf f.ty then e else m) = m := by
        intro a b c e
        by_cases hm : f.ty = .map
        · have : ¬ pf.wt = 2 := by
            intro hc; apply h1; rw [hc, hm]; rfl
          simp [hm, this]
        · have hm' : (f.ty == PType.map) = false := by simpa using hm
          simp only [hm', Bool.false_eq_true, if_false, h1]
          cases hrep : f.repeated with
          | true =>
            have : (decide (pf.wt = 2) && Spec.packable f.ty) = false := by
              cases hp : Spec.packable f.ty with
              | false => simp
              | true =>
                have : ¬ pf.wt = 2 := fun hc => hnf (Or.inr ⟨hc, hp, hrep⟩)
                simp [this]
            simp [this]
          | false => simp
      refine ⟨?_, ?_, ?_⟩ <;> (rw [hbody]; first | exact hsim.slots | exact hsim.sel | exact hsim.nonone)

/-- `fold_sim` under the weakened per-record guard -/
theorem fold_simU (S : Schema) (rec : Loader) (sub : Spec.SubDecoder) (nb : MsgD → Bytes → Bool)
    (hrecT : LoaderOk false S rec) (hS : GoodSchema S) (d : MsgD) (hd : GoodD S d)
    (pfs : List PField)
    (hall : ∀ pf ∈ pfs, SubSim S rec sub nb pf.payload ∧ pf.vint < 2 ^ 64 ∧ narrowFieldU S nb d pf = true)
    (st st' : MState) (m : Spec.AbsMsg)
    (hsim : Sim S d st m) (h : foldFields S rec d st pfs = .ok st') :
    Sim S d st' ((pfs.map toRec).foldl (Spec.stepRec S sub d) m) := by
  induction pfs generalizing st m with
  | nil =>
    rw [foldFields] at h; injection h with h; subst h
    exact hsim
  | cons pf pfs ih =>
    rw [foldFields] at h
    cases ha : applyField S rec d st pf with
    | error e => rw [ha] at h; simp at h
    | ok s1 =>
      rw [ha] at h; simp only [bind_ok] at h
      obtain ⟨h1, h2, h3⟩ := hall pf (by simp)
      have hs1 : Sim S d s1 (Spec.stepRec S sub d m (toRec pf)) := by
        unfold narrowFieldU at h3
        rw [Bool.or_eq_true] at h3
        rcases h3 with h3 | h3
        · exact step_sim_unknown S rec sub hrecT hS d hd st s1 m pf h3 hsim ha
        · exact step_sim S rec sub nb hrecT hS d hd st s1 m pf h1 h2 h3 hsim ha
      simp only [List.map_cons, List.foldl_cons]
      exact ih (fun x hx => hall x (by simp [hx])) s1 _ hs1 h

/-- `loadInto_sim` under `narrow32U` -/
theorem loadInto_simU (S : Schema) (hS : GoodSchema S) :
    ∀ (n : Nat) (p : Bytes), SubSim S (loadInto S n) (Spec.subDecoder S n) (narrow32U S n) p := by
  intro n
  induction n with
  | zero => intro p c d st' _ _ hr; simp [loadInto] at hr
  | succ n ih =>
    intro p c d st' hd hnb hr
    rw [loadInto_succ] at hr
    cases hp : loadFields p with
    | error e => rw [hp] at hr; simp at hr
    | ok pfs =>
      rw [hp] at hr
      simp only [bind_ok] at hr
      have hnb' : ∀ pf ∈ pfs, narrowFieldU S (narrow32U S n) d pf = true := by
        simp only [narrow32U, hp, List.all_eq_true] at hnb
        exact hnb
      have hparsed := loadFields_parsed p pfs hp
      have hsim := fold_simU S (loadInto S n) (Spec.subDecoder S n) (narrow32U S n)
        (loadInto_typed false S (goodSchema_wf S hS) n) hS d hd pfs
        (fun pf hpf => ⟨ih pf.payload, by
          obtain ⟨bs, rest, hb⟩ := hparsed pf hpf
          exact loadField_vint bs pf rest hb, hnb' pf hpf⟩)
        _ st' (Spec.emptyMsg c d) (sim_fresh S c d) hr
      refine ⟨_, ?_, ?_, hsim⟩
      · simp only [Spec.subDecoder, framing_ok p pfs hp]
        rfl
      · rw [foldl_cls]; rfl

/-- **`load_complete` under the weakened guard `narrow32U`** -/
theorem load_complete_bytesU (S : Schema) (hS : GoodSchema S) (c : Nat) (d : MsgD) (hd : S[c]? = some d)
    (bs : Bytes) (v : Val) (hn : narrow32U S (bs.length + 1) d bs = true) (h : parse S c bs = .ok v) :
    ∃ a, Spec.decodeBytes S c bs = some a ∧ a.nrm = absOf v := by
  unfold parse at h
  rw [fresh_eq S c d hd] at h
  simp only [parseInto, hd] at h
  have e : ({ slots := (freshState d).slots, onWire := false, unknown := [], cur := (freshState d).cur } : MState)
      = freshState d := rfl
  rw [e] at h
  cases hl : loadInto S (bs.length + 1) d (freshState d) bs with
  | error e => rw [hl] at h; simp at h
  | ok st =>
    rw [hl] at h
    simp only [bind_ok] at h
    injection h with h
    subst h
    obtain ⟨m, hm1, hm2, hsim⟩ := loadInto_simU S hS (bs.length + 1) bs c d st (goodSchema_class S hS c d hd) hn hl
    refine ⟨m, by rw [decodeBytes_eq_sub S c d hd bs, hm1], ?_⟩
    simp only [Spec.AbsMsg.nrm, MState.toVal, absOf, hm2, hsim.slots, hsim.sel]

end Bp.Link

#print axioms Bp.Link.narrow32U_of_narrow32
#print axioms Bp.Link.load_complete_bytesU
