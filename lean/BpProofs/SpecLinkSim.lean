import BpModel.All
import BpModel.Spec
import BpProofs.SpecLinkVal
/-
  C02, link between the model of betterproto and the spec-level decoder, part 3: the
  guards, the simulation relation and list-level helper lemmas.
-/
namespace Bp.Link
open Bp Gen

/-! ### guards (all decidable) -/

/-- per-field schema guard, beyond `wfFieldB` (C17):
    * a repeated or map field is in no oneof (protobuf forbids it; betterproto's
      `__setattr__` would select it, the spec leaves the selection alone);
    * a wrapper annotation sits on a plain message field, not on a Timestamp / Duration
      field (betterproto looks at the class first, the spec at the annotation first). -/
def goodFieldB (f : FieldD) : Bool :=
  (!(f.repeated || f.ty == .map) || f.group.isNone)
  && (!(f.ty == .message && f.wraps.isSome) ||
      (match f.kind with
       | .user _ => true
       | _ => false))

/-- distinct field numbers, as a Bool -/
def distinctB : List FieldD → Bool
  | [] => true
  | f :: fs => fs.all (fun g => g.num != f.num) && distinctB fs

theorem distinctB_sound (fs : List FieldD) (h : distinctB fs = true) : DistinctNums fs := by
  induction fs with
  | nil => intro i j fi fj hi; simp at hi
  | cons f fs ih =>
    rw [distinctB] at h
    simp only [Bool.and_eq_true, List.all_eq_true, bne_iff_ne, ne_eq] at h
    intro i j fi fj hi hj hn
    cases i with
    | zero =>
      cases j with
      | zero => rfl
      | succ j =>
        simp at hi hj; subst hi
        exact absurd hn.symm (h.1 fj (List.mem_of_getElem? hj))
    | succ i =>
      cases j with
      | zero =>
        simp at hi hj; subst hj
        exact absurd hn (h.1 fi (List.mem_of_getElem? hi))
      | succ j =>
        simp at hi hj
        have := ih h.2 i j fi fj hi hj hn
        omega

/-- a class descriptor both decoders read the same way -/
def GoodD (S : Schema) (d : MsgD) : Prop :=
  WfD S d ∧ DistinctNums d.fields ∧ ∀ f ∈ d.fields, goodFieldB f = true

def goodMsgDB (d : MsgD) : Bool := distinctB d.fields && d.fields.all goodFieldB

/-- **the schema guard of `load_complete`**: `wfSchemaTB` (C17: repeated fields are not
    `optional`, message fields name existing classes, wrappers wrap scalars, map keys are
    scalars, map values are not maps) + distinct field numbers per class + `goodFieldB` -/
def goodSchemaB (S : Schema) : Bool := wfSchemaTB S && S.all goodMsgDB

def GoodSchema (S : Schema) : Prop := goodSchemaB S = true

instance (S : Schema) : Decidable (GoodSchema S) := by unfold GoodSchema; infer_instance

theorem goodSchema_wf (S : Schema) (h : GoodSchema S) : WfSchemaT S := by
  unfold GoodSchema goodSchemaB at h
  simp only [Bool.and_eq_true] at h
  exact h.1

theorem goodSchema_class (S : Schema) (h : GoodSchema S) (c : Nat) (d : MsgD) (hd : S[c]? = some d) :
    GoodD S d := by
  have hw := goodSchema_wf S h
  unfold GoodSchema goodSchemaB at h
  simp only [Bool.and_eq_true, List.all_eq_true] at h
  have hm := h.2 d (List.mem_of_getElem? hd)
  unfold goodMsgDB at hm
  simp only [Bool.and_eq_true, List.all_eq_true] at hm
  exact ⟨wfSchema_class S hw c d hd, distinctB_sound _ hm.1, hm.2⟩

theorem goodD_secNanos (S : Schema) : GoodD S secNanosD := by
  refine ⟨wfD_secNanos S, distinctB_sound _ (by decide), ?_⟩
  intro f hf
  simp [secNanosD] at hf
  rcases hf with rfl | rfl <;> rfl

theorem goodD_wrapper (S : Schema) (w : PType) (hw : isScalarTy w = true) : GoodD S (wrapperD w) := by
  refine ⟨wfD_wrapper S w hw, distinctB_sound _ (by simp [wrapperD, distinctB]), ?_⟩
  intro f hf
  simp [wrapperD] at hf
  subst hf
  simp [goodFieldB]

theorem goodD_entry (S : Schema) (f : FieldD) (hw : wfFieldB S.length f = true) (ht : f.ty = .map) :
    GoodD S (entryD f) := by
  refine ⟨wfD_entry S f hw ht, distinctB_sound _ (by simp [entryD, distinctB]), ?_⟩
  intro g hg
  rw [entryD_fields] at hg
  simp at hg
  rcases hg with rfl | rfl
  · simp [goodFieldB, keyFieldOf]
  · simp [goodFieldB, valFieldOf]

/-- the class a LEN payload of field `f` is decoded with, if it is a nested message -/
def subDesc (S : Schema) (f : FieldD) : Option MsgD :=
  if f.ty == .map then some (entryD f)
  else if f.ty == .message then
    match f.wraps with
    | some w => some (wrapperD w)
    | Option.none =>
      match f.kind with
      | .user c => S[c]?
      | _ => some secNanosD
  else Option.none

/-- one record carries no over-wide `uint32` / `sint32` varint, `nb` checking nested payloads -/
def narrowField (S : Schema) (nb : MsgD → Bytes → Bool) (d : MsgD) (pf : PField) : Bool :=
  match findField d.fields pf.num with
  | Option.none => true
  | some idx =>
    match d.fields[idx]? with
    | Option.none => true
    | some f =>
      if pf.wt == 0 then !isNarrowTy f.ty || decide (pf.vint < 2 ^ 32)
      else if pf.wt == 2 then
        (!isNarrowTy f.ty || narrowElems (pf.payload.length + 1) pf.payload)
        && (match subDesc S f with
            | some d' => nb d' pf.payload
            | Option.none => true)
      else true

/-- **the input guard of `load_complete`**: no `uint32` / `sint32` position of the byte
    string (singular, repeated element, packed element, map key / value, wrapper payload; at
    any nesting depth ≤ `fuel`) holds a varint ≥ 2^32.  Every encoder satisfies it: such a
    varint is not an encoding of a 32-bit value. -/
def narrow32 (S : Schema) : Nat → MsgD → Bytes → Bool
  | 0, _, _ => true
  | fuel + 1, d, bs =>
    match loadFields bs with
    | .ok pfs => pfs.all (narrowField S (narrow32 S fuel) d)
    | .error _ => true

/-! ### the simulation relation -/

/-- a decoder state of the model and an abstract message of the spec denote the same thing -/
structure Sim (S : Schema) (d : MsgD) (st : MState) (m : Spec.AbsMsg) : Prop where
  typed : StTyped false S d st
  slots : nvs st.slots = nvs m.fields
  sel : st.cur = m.sel
  nonone : ∀ k, m.fields.getD k .ph ≠ Val.none

/-- the nested decoders agree on the payload `p` -/
def SubSim (S : Schema) (rec : Loader) (sub : Spec.SubDecoder) (nb : MsgD → Bytes → Bool) (p : Bytes) : Prop :=
  ∀ (c : Nat) (d : MsgD) (st' : MState), GoodD S d → nb d p = true → rec d (freshState d) p = .ok st' →
    ∃ m, sub c d p = some m ∧ m.cls = c ∧ Sim S d st' m

theorem Sim.len {S : Schema} {d : MsgD} {st : MState} {m : Spec.AbsMsg} (h : Sim S d st m) :
    st.slots.length = d.fields.length ∧ m.fields.length = d.fields.length := by
  have h1 := slotsTyped_length false S _ _ h.typed.2
  have h2 := congrArg List.length h.slots
  rw [nvs_length, nvs_length] at h2
  exact ⟨h1, by omega⟩

theorem Sim.getD {S : Schema} {d : MsgD} {st : MState} {m : Spec.AbsMsg} (h : Sim S d st m) (k : Nat) :
    nv (st.slots.getD k .ph) = nv (m.fields.getD k .ph) := by
  rw [← nvs_getD, ← nvs_getD, h.slots]

/-! ### lists -/

theorem list_ext_getD (xs ys : List Val) (hl : xs.length = ys.length)
    (h : ∀ k, xs.getD k .ph = ys.getD k .ph) : xs = ys := by
  apply List.ext_getElem hl
  intro i h1 h2
  have := h i
  simp only [List.getD_eq_getElem?_getD, List.getElem?_eq_getElem h1, List.getElem?_eq_getElem h2,
    Option.getD_some] at this
  exact this

theorem nvs_ext (xs ys : List Val) (hl : xs.length = ys.length)
    (h : ∀ k, nv (xs.getD k .ph) = nv (ys.getD k .ph)) : nvs xs = nvs ys := by
  apply list_ext_getD _ _ (by rw [nvs_length, nvs_length, hl])
  intro k
  rw [nvs_getD, nvs_getD, h k]

theorem set_getD (xs : List Val) (i k : Nat) (v : Val) :
    (xs.set i v).getD k .ph = if k = i ∧ i < xs.length then v else xs.getD k .ph :=
  setAt_getD xs i k v

theorem clearGroup_length (g : Nat) (fs : List FieldD) (vs : List Val) :
    (Spec.clearGroup g fs vs).length = vs.length := by
  induction fs generalizing vs with
  | nil => cases vs <;> simp [Spec.clearGroup]
  | cons f fs ih =>
    cases vs with
    | nil => simp [Spec.clearGroup]
    | cons v vs => simp [Spec.clearGroup, ih]

theorem clearGroup_getD (g : Nat) (fs : List FieldD) (vs : List Val) (k : Nat) :
    (Spec.clearGroup g fs vs).getD k .ph = if grp fs k = some g then Val.ph else vs.getD k .ph := by
  induction fs generalizing vs k with
  | nil =>
    have : grp [] k = Option.none := by simp [grp]
    cases vs <;> simp [Spec.clearGroup, this]
  | cons f fs ih =>
    cases vs with
    | nil => simp [Spec.clearGroup]
    | cons v vs =>
      cases k with
      | zero =>
        have : grp (f :: fs) 0 = f.group := by simp [grp]
        simp only [Spec.clearGroup, List.getD_cons_zero, this]
      | succ k =>
        have : grp (f :: fs) (k + 1) = grp fs k := by simp [grp]
        simp only [Spec.clearGroup, List.getD_cons_succ, this]
        exact ih vs k

/-! ### defaults -/

/-- reading a slot (`getattr`) against the spec's "absent ⇒ default" -/
theorem materialize_orDefault (S : Schema) (fld : FieldD) (k : DefKind) (a b : Val)
    (hk : defaultOf S fld = defaultOfKind S k) (hab : nv a = nv b) (ha : a ≠ .none) (hb : b ≠ .none) :
    nv (materialize S fld a) = nv (Spec.orDefault S k b) := by
  by_cases hph : a = .ph
  · subst hph
    have : b = .ph := by
      rcases (nv_eq_ph b).1 hab.symm with h | h
      · exact h
      · exact absurd h hb
    subst this
    simp [materialize, Spec.orDefault, hk]
  · have hbph : b ≠ .ph := by
      intro hc; subst hc
      rcases (nv_eq_ph a).1 hab with h | h
      · exact hph h
      · exact ha h
    have e1 : materialize S fld a = a := by cases a <;> simp [materialize] at hph ⊢
    have e2 : Spec.orDefault S k b = b := by cases b <;> simp [Spec.orDefault] at hbph ⊢
    rw [e1, e2, hab]

theorem orDefault_ne_none (S : Schema) (k : DefKind) (b : Val) (hk : k ≠ .none) (hb : b ≠ .none) :
    Spec.orDefault S k b ≠ .none := by
  cases b <;> simp [Spec.orDefault] at hb ⊢
  cases k <;> simp [defaultOfKind, fresh] at hk ⊢

theorem scalarDef_ne_none (t : PType) : scalarDef t ≠ .none := by cases t <;> simp [scalarDef]
theorem msgKindDef_ne_none (k : MsgKind) : msgKindDef k ≠ .none := by cases k <;> simp [msgKindDef]

/-- a typed slot of a field whose dataclass default is not `None` is not `None` -/
theorem slot_ne_none (S : Schema) (d : MsgD) (st : MState) (i : Nat) (fld : FieldD) (ht : StTyped false S d st)
    (hf : d.fields[i]? = some fld) (hn : noneOkB fld = false) : st.slots.getD i .ph ≠ .none := by
  intro hc
  have := slotsTyped_getD false S _ _ i fld ht.2 hf
  rw [hc, slotTypedB, hn] at this
  simp at this

end Bp.Link
