import BpModel.All
import BpModel.Spec
import BpProofs.SpecLinkValue
/-
  C02, link between the model of betterproto and the spec-level decoder, part 5: one
  iteration of the loop of `Message.load` (`applyField`) against one `Spec.stepRec`, and
  the whole loop (`foldFields`) against `Spec.decodeRecs`.
-/
namespace Bp.Link
open Bp Gen

/-- the part of `Sim` that is about values (the typing part is kept by `applyField_typed`) -/
def SimCore (st : MState) (m : Spec.AbsMsg) : Prop :=
  nvs st.slots = nvs m.fields ∧ st.cur = m.sel ∧ ∀ k, m.fields.getD k .ph ≠ Val.none

/-! ### dict insertion -/

/-- Python's `==` on dict keys (`1 == True`) and the spec's key equality agree on keys of one type -/
theorem keyEq_sameKey (t : PType) (y k y' k' : Val) (h1 : scalarTypedB false t y = true)
    (h2 : scalarTypedB false t k = true) (e1 : nv y = nv y') (e2 : nv k = nv k') :
    keyEq y k = Spec.sameKey y' k' := by
  cases y <;> simp [scalarTypedB] at h1 <;> cases y' <;> simp [nv] at e1 <;>
    cases k <;> simp [scalarTypedB] at h2 <;> cases k' <;> simp [nv] at e2
  all_goals (try subst e1)
  all_goals (try subst e2)
  all_goals simp [keyEq, Spec.sameKey]
  · subst h2; simp [isIntTy] at h1
  · subst h1; simp [isIntTy] at h2

theorem dictInsert_cons (y : Val) (ks : List Val) (z : Val) (vs : List Val) (k x : Val) :
    dictInsert (y :: ks) (z :: vs) k x =
      if keyEq y k then (y :: ks, x :: vs)
      else (y :: (dictInsert ks vs k x).1, z :: (dictInsert ks vs k x).2) := by
  rw [dictInsert]

theorem insert_sim (t : PType) (ks vs ks' vs' : List Val) (k x k' x' : Val)
    (hks : ∀ y ∈ ks, scalarTypedB false t y = true) (hk : scalarTypedB false t k = true)
    (e1 : nvs ks = nvs ks') (e2 : nvs vs = nvs vs') (e3 : nv k = nv k') (e4 : nv x = nv x') :
    nvs (dictInsert ks vs k x).1 = nvs (Spec.mapInsert ks' vs' k' x').1
    ∧ nvs (dictInsert ks vs k x).2 = nvs (Spec.mapInsert ks' vs' k' x').2 := by
  induction ks generalizing vs ks' vs' with
  | nil =>
    cases ks' with
    | nil => simp [dictInsert, Spec.mapInsert, nvs, e3, e4]
    | cons _ _ => simp [nvs] at e1
  | cons y ks ih =>
    cases ks' with
    | nil => simp [nvs] at e1
    | cons y' ks' =>
      simp only [nvs, List.cons.injEq] at e1
      cases vs with
      | nil =>
        cases vs' with
        | nil => simp [dictInsert, Spec.mapInsert, nvs, e3, e4]
        | cons _ _ => simp [nvs] at e2
      | cons z vs =>
        cases vs' with
        | nil => simp [nvs] at e2
        | cons z' vs' =>
          simp only [nvs, List.cons.injEq] at e2
          have hkey := keyEq_sameKey t y k y' k' (hks y (by simp)) hk e1.1 e3
          rw [dictInsert_cons, Spec.mapInsert, hkey]
          by_cases hs : Spec.sameKey y' k' = true
          · simp [hs, nvs, e1.1, e1.2, e2.2, e4]
          · have := ih vs ks' vs' (fun q hq => hks q (by simp [hq])) e1.2 e2.2
            simp [hs, nvs, e1.1, e2.1, this.1, this.2]

theorem items_all (S : Schema) (g : FieldD) (hg : g.ty ≠ .message) (ks : List Val)
    (h : itemsTypedB false S g ks = true) : ∀ y ∈ ks, scalarTypedB false g.ty y = true := by
  induction ks with
  | nil => intro y hy; simp at hy
  | cons x xs ih =>
    rw [items_cons, Bool.and_eq_true] at h
    intro y hy
    simp at hy
    rcases hy with rfl | hy
    · exact item_scalar false S g _ hg h.1
    · exact ih h.2 y hy

/-! ### the spec step, unfolded -/

theorem stepRec_unknown (S : Schema) (sub : Spec.SubDecoder) (d : MsgD) (m : Spec.AbsMsg) (r : Spec.WireRec)
    (h : Spec.lookupNum d.fields 0 r.num = none) : Spec.stepRec S sub d m r = m := by
  unfold Spec.stepRec; rw [h]

theorem stepRec_known (S : Schema) (sub : Spec.SubDecoder) (d : MsgD) (m : Spec.AbsMsg) (r : Spec.WireRec)
    (idx : Nat) (f : FieldD) (h : Spec.lookupNum d.fields 0 r.num = some (idx, f)) :
    Spec.stepRec S sub d m r =
      if f.ty == .map then
        if r.wt = 2 then
          match sub 0 (entryD f) r.payload with
          | some e =>
            Spec.insertEntry m idx (Spec.orDefault S (scalarDef f.mapK) (e.fields.getD 0 .ph))
              (Spec.orDefault S (Spec.entryKind f) (e.fields.getD 1 .ph))
          | none => m
        else m
      else if f.repeated then
        if r.wt = Spec.wireTypeOf f.ty then
          match Spec.valueOf S sub f r with
          | some v => Spec.appendAll m idx [v]
          | none => m
        else if r.wt = 2 && Spec.packable f.ty then
          match Spec.unpackElems f.ty (r.payload.length + 1) r.payload with
          | some vs => Spec.appendAll m idx vs
          | none => m
        else m
      else if r.wt = Spec.wireTypeOf f.ty then
        match Spec.valueOf S sub f r with
        | some v => Spec.put m d.fields idx f v
        | none => m
      else m := by
  unfold Spec.stepRec; rw [h]
  rfl

/-! ### the model step, by field kind -/

theorem prepCurrent_nogroup (S : Schema) (d : MsgD) (st : MState) (idx : Nat) (f : FieldD)
    (hgn : f.group = Option.none) :
    prepCurrent S d st idx f
      = { st with slots := setAt st.slots idx (materialize S f (st.slots.getD idx .ph)) } := by
  simp [prepCurrent, hidden, hgn]

theorem idx_lt {S : Schema} {d : MsgD} {st : MState} {m : Spec.AbsMsg} (hsim : Sim S d st m) (idx : Nat)
    (f : FieldD) (hf : d.fields[idx]? = some f) : idx < st.slots.length ∧ idx < m.fields.length := by
  have := (List.getElem?_eq_some_iff.mp hf).1
  have hl := hsim.len
  omega

/-- a map entry -/
theorem store_map (S : Schema) (d : MsgD) (st st' : MState) (m : Spec.AbsMsg) (idx : Nat) (f : FieldD)
    (k x k' x' : Val) (hsim : Sim S d st m) (hf : d.fields[idx]? = some f)
    (hty : f.ty = .map) (hgn : f.group = Option.none)
    (hks : isScalarTy f.mapK = true) (hkt : itemsTypedB false S (keyFieldOf f) [k] = true)
    (ek : nv k = nv k') (ex : nv x = nv x')
    (h : storeValue S d (prepCurrent S d st idx f) idx f (.dict [k] [x]) = .ok st') :
    SimCore st' (Spec.insertEntry m idx k' x') := by
  obtain ⟨hi1, hi2⟩ := idx_lt hsim idx f hf
  have hab := hsim.getD idx
  have hb := hsim.nonone idx
  have hkm : (keyFieldOf f).ty ≠ .message := by
    unfold isScalarTy at hks
    simp only [Bool.and_eq_true, bne_iff_ne, ne_eq] at hks
    exact hks.1
  rw [prepCurrent_nogroup S d st idx f hgn] at h
  unfold storeValue at h
  simp only [hty, beq_self_eq_true, if_true, ty_getD_setAt_self _ _ _ hi1] at h
  split at h
  · rename_i ks vs k0 x0 hcur hval
    injection hval with hk0 hx0
    injection hk0 with hk0 _
    injection hx0 with hx0 _
    subst hk0; subst hx0
    injection h with h
    subst h
    simp only [setAt_setAt_s]
    -- the slot before the step
    have hslot := slotsTyped_getD false S _ _ idx f hsim.typed.2 hf
    by_cases hph : st.slots.getD idx .ph = .ph
    · -- first entry
      rw [hph] at hcur hab
      have hbph : m.fields.getD idx .ph = .ph := by
        rcases (nv_eq_ph _).1 hab.symm with h | h
        · exact h
        · exact absurd h hb
      have hdef : defaultOf S f = .dict [] [] ∨ ∃ l, defaultOf S f = .list l := by
        simp only [defaultOf, FieldD.defKind, hty, beq_self_eq_true, if_true]
        split
        · right; exact ⟨[], rfl⟩
        · left; rfl
      simp only [materialize] at hcur
      have hnil : ks = [] ∧ vs = [] := by
        rcases hdef with h | ⟨l, h⟩
        · rw [h] at hcur; injection hcur with a b; exact ⟨a.symm, b.symm⟩
        · rw [h] at hcur; simp at hcur
      obtain ⟨rfl, rfl⟩ := hnil
      unfold Spec.insertEntry
      rw [hbph]
      refine ⟨?_, hsim.sel, ?_⟩
      · show nvs (setAt st.slots idx _) = _
        simp only [setAt, nvs_set, hsim.slots, dictInsert, nv, nvs, ek, ex]
      · intro j
        simp only [set_getD]
        split
        · simp
        · exact hsim.nonone j
    · -- a later entry
      have hmat : materialize S f (st.slots.getD idx .ph) = st.slots.getD idx .ph := by
        cases hh : st.slots.getD idx .ph <;> (simp [materialize]; try exact absurd hh hph)
      rw [hmat] at hcur
      rw [hcur] at hab hslot
      obtain ⟨ks', vs', hb', eks, evs⟩ := nv_dict_inv _ _ _ hab.symm
      rw [slotTypedB] at hslot
      simp only [Bool.and_eq_true] at hslot
      have hkeys := items_all S (keyFieldOf f) hkm ks hslot.1.2
      have hknew := item_scalar false S (keyFieldOf f) k hkm hkt
      have hins := insert_sim f.mapK ks vs ks' vs' k x k' x' hkeys hknew eks.symm evs.symm ek ex
      unfold Spec.insertEntry
      rw [hb']
      refine ⟨?_, hsim.sel, ?_⟩
      · show nvs (setAt st.slots idx _) = _
        simp only [setAt, nvs_set, hsim.slots, nv, hins.1, hins.2]
      · intro j
        simp only [set_getD]
        split
        · simp
        · exact hsim.nonone j
  · simp at h

/-- elements appended to a repeated field -/
theorem store_rep (S : Schema) (d : MsgD) (st st' : MState) (m : Spec.AbsMsg) (idx : Nat) (f : FieldD)
    (v : Val) (es es' : List Val) (hsim : Sim S d st m) (hf : d.fields[idx]? = some f)
    (hw : wfFieldB S.length f = true)
    (hmap : f.ty ≠ .map) (hrep : f.repeated = true) (hgn : f.group = Option.none)
    (hv : (v = .list es) ∨ ((∀ ys, v ≠ .list ys) ∧ es = [v]))
    (ee : nvs es = nvs es')
    (h : storeValue S d (prepCurrent S d st idx f) idx f v = .ok st') :
    SimCore st' (Spec.appendAll m idx es') := by
  obtain ⟨hi1, hi2⟩ := idx_lt hsim idx f hf
  have hab := hsim.getD idx
  have hb := hsim.nonone idx
  obtain ⟨xs, hxs⟩ := prepCurrent_list false S d st idx f hf hw hsim.typed hrep
  have hmap' : (f.ty == PType.map) = false := by simpa using hmap
  have hst' : st' = { (prepCurrent S d st idx f) with
      slots := setAt (prepCurrent S d st idx f).slots idx (.list (xs ++ es)) } := by
    unfold storeValue at h
    simp only [hmap', Bool.false_eq_true, if_false, hxs] at h
    rcases hv with rfl | ⟨hnl, rfl⟩
    · injection h with h; exact h.symm
    · cases v <;> first | (injection h with h; exact h.symm) | exact absurd rfl (hnl _)
  rw [prepCurrent_nogroup S d st idx f hgn] at hst' hxs
  simp only [setAt_setAt_s] at hst'
  rw [ty_getD_setAt_self _ _ _ hi1] at hxs
  subst hst'
  have hslot := slotsTyped_getD false S _ _ idx f hsim.typed.2 hf
  by_cases hph : st.slots.getD idx .ph = .ph
  · rw [hph] at hxs hab
    have hbph : m.fields.getD idx .ph = .ph := by
      rcases (nv_eq_ph _).1 hab.symm with h | h
      · exact h
      · exact absurd h hb
    have : xs = [] := by
      simp [materialize, defaultOf, FieldD.defKind, hrep, defaultOfKind] at hxs
      exact hxs
    subst this
    unfold Spec.appendAll
    rw [hbph]
    refine ⟨?_, hsim.sel, ?_⟩
    · show nvs (setAt st.slots idx _) = _
      simp only [setAt, nvs_set, hsim.slots, nv, List.nil_append, ee]
    · intro j
      simp only [set_getD]
      split
      · simp
      · exact hsim.nonone j
  · have hmat : materialize S f (st.slots.getD idx .ph) = st.slots.getD idx .ph := by
      cases hh : st.slots.getD idx .ph <;> (simp [materialize]; try exact absurd hh hph)
    rw [hmat] at hxs
    rw [hxs] at hab
    obtain ⟨xs', hb', exs⟩ := nv_list_inv _ _ hab.symm
    unfold Spec.appendAll
    rw [hb']
    refine ⟨?_, hsim.sel, ?_⟩
    · show nvs (setAt st.slots idx _) = _
      simp only [setAt, nvs_set, hsim.slots, nv, nvs_append, exs, ee]
    · intro j
      simp only [set_getD]
      split
      · simp
      · exact hsim.nonone j

/-- a singular field: `setattr` (with the sibling reset of a oneof member) -/
theorem store_sing (S : Schema) (d : MsgD) (st st' : MState) (m : Spec.AbsMsg) (idx : Nat) (f : FieldD)
    (v v' : Val) (hsim : Sim S d st m) (hf : d.fields[idx]? = some f)
    (hw : wfFieldB S.length f = true)
    (hmap : f.ty ≠ .map) (hrep : f.repeated = false)
    (hg : GoodVal S v v')
    (h : storeValue S d (prepCurrent S d st idx f) idx f v = .ok st') :
    SimCore st' (Spec.put m d.fields idx f v') := by
  obtain ⟨hi1, hi2⟩ := idx_lt hsim idx f hf
  obtain ⟨env, hvn, _, hsv⟩ := hg
  have hmap' : (f.ty == PType.map) = false := by simpa using hmap
  -- the current value is not a list
  have hpt := prepCurrent_typed false S d st idx f hf hw hsim.typed
  have hcur := slotsTyped_getD false S _ _ idx f hpt.2 hf
  have hst' : st' = setAttr S d.fields (prepCurrent S d st idx f) idx v := by
    unfold storeValue at h
    simp only [hmap', Bool.false_eq_true, if_false] at h
    split at h
    · rename_i xs hx
      rw [hx, slotTypedB, hrep] at hcur
      simp at hcur
    · injection h with h; exact h.symm
  have hplen : (prepCurrent S d st idx f).slots.length = st.slots.length := by
    rw [slotsTyped_length false S _ _ hpt.2, slotsTyped_length false S _ _ hsim.typed.2]
  cases hgr : f.group with
  | none =>
    rw [prepCurrent_nogroup S d st idx f hgr] at hst'
    rw [setAttr_eq, hf] at hst'
    simp only [hgr, setAt_setAt_s, hsv] at hst'
    subst hst'
    unfold Spec.put
    rw [hgr]
    refine ⟨?_, hsim.sel, ?_⟩
    · show nvs (setAt st.slots idx v) = _
      simp only [setAt, nvs_set, hsim.slots, env]
    · intro j
      simp only [set_getD]
      split
      · exact hvn
      · exact hsim.nonone j
  | some g =>
    -- slots and selection of the intermediate state
    have hp : ((prepCurrent S d st idx f).cur = st.cur ∨ (prepCurrent S d st idx f).cur = st.cur.set g (some idx))
        ∧ ∀ k, k ≠ idx → grp d.fields k ≠ some g →
            (prepCurrent S d st idx f).slots.getD k .ph = st.slots.getD k .ph := by
      by_cases hh : hidden f idx st.cur = true
      · have e : prepCurrent S d st idx f = setAttr S d.fields st idx (defaultOf S f) := by
          simp [prepCurrent, hh]
        rw [e, setAttr_eq, hf]
        simp only [hgr]
        refine ⟨Or.inr trivial, ?_⟩
        intro k hk hgk
        show (setAt (resetGroup g idx d.fields st.slots 0) idx _).getD k .ph = _
        rw [setAt_getD, resetGroup_getD]
        rw [if_neg (fun hc => hk hc.1), if_neg (fun hc => hgk hc.1)]
      · have e : prepCurrent S d st idx f
            = { st with slots := setAt st.slots idx (materialize S f (st.slots.getD idx .ph)) } := by
          simp [prepCurrent, hh]
        rw [e]
        refine ⟨Or.inl rfl, ?_⟩
        intro k hk _
        show (setAt st.slots idx _).getD k .ph = _
        rw [setAt_getD, if_neg (fun hc => hk hc.1)]
    have hslots : ∀ k, st'.slots.getD k .ph
        = if k = idx then v else if grp d.fields k = some g then Val.ph else st.slots.getD k .ph := by
      intro k
      rw [hst', setAttr_slots_getD S d.fields _ idx v f hf k, hsv, hplen]
      by_cases hk : k = idx
      · subst hk; simp [hi1]
      · rw [if_neg (fun hc => hk hc.1), if_neg hk]
        by_cases hgk : grp d.fields k = some g
        · rw [if_pos ⟨by simp [hgr], by rw [hgr]; exact hgk, hk⟩, if_pos hgk]
        · rw [if_neg (fun hc => hgk (by rw [← hgr]; exact hc.2.1)), if_neg hgk]
          exact hp.2 k hk hgk
    have hcur' : st'.cur = st.cur.set g (some idx) := by
      rw [hst', setAttr_eq, hf]
      simp only [hgr]
      rcases hp.1 with e | e <;> rw [e]
      simp
    have hlen' : st'.slots.length = st.slots.length := by
      rw [hst', setAttr_slots_length, hplen]
    unfold Spec.put
    rw [hgr]
    refine ⟨?_, ?_, ?_⟩
    · apply nvs_ext
      · simp only [List.length_set, clearGroup_length]
        have := hsim.len
        omega
      · intro k
        rw [hslots k, set_getD, clearGroup_length, clearGroup_getD]
        by_cases hk : k = idx
        · simp [hk, hi2, env]
        · by_cases hgk : grp d.fields k = some g
          · simp [hk, hgk]
          · simp only [hk, hgk, false_and, if_false]
            exact hsim.getD k
    · show st'.cur = m.sel.set g (some idx)
      rw [hcur', hsim.sel]
    · intro j
      show ((Spec.clearGroup g d.fields m.fields).set idx v').getD j .ph ≠ _
      rw [set_getD, clearGroup_getD]
      split
      · exact hvn
      · split
        · simp
        · exact hsim.nonone j

/-! ### the guards, read off one record -/

theorem subDesc_good (S : Schema) (hS : GoodSchema S) (f : FieldD) (hw : wfFieldB S.length f = true)
    (hg : goodFieldB f = true) (d' : MsgD) (h : subDesc S f = some d') : GoodD S d' := by
  unfold subDesc at h
  by_cases hm : f.ty = .map
  · simp only [hm, beq_self_eq_true, if_true] at h
    injection h with h; subst h
    exact goodD_entry S f hw hm
  · have hm' : (f.ty == PType.map) = false := by simpa using hm
    simp only [hm', Bool.false_eq_true, if_false] at h
    by_cases hmsg : f.ty = .message
    · simp only [hmsg, beq_self_eq_true, if_true] at h
      cases hwr : f.wraps with
      | some w =>
        rw [hwr] at h; simp only at h
        injection h with h; subst h
        cases hk : f.kind with
        | user c => exact goodD_wrapper S w (wfField_wrap hw c w hmsg hk hwr)
        | timestamp => simp [goodFieldB, hmsg, hwr, hk] at hg
        | duration => simp [goodFieldB, hmsg, hwr, hk] at hg
      | none =>
        rw [hwr] at h; simp only at h
        cases hk : f.kind with
        | user c => rw [hk] at h; exact goodSchema_class S hS c d' h
        | timestamp => rw [hk] at h; injection h with h; subst h; exact goodD_secNanos S
        | duration => rw [hk] at h; injection h with h; subst h; exact goodD_secNanos S
    · have hmsg' : (f.ty == PType.message) = false := by simpa using hmsg
      simp [hmsg'] at h

theorem narrowField_vint (S : Schema) (nb : MsgD → Bytes → Bool) (d : MsgD) (pf : PField) (idx : Nat) (f : FieldD)
    (h : narrowField S nb d pf = true) (h1 : findField d.fields pf.num = some idx) (h2 : d.fields[idx]? = some f)
    (hwt : pf.wt = 0) (hn : isNarrowTy f.ty = true) : pf.vint < 2 ^ 32 := by
  unfold narrowField at h
  simp only [h1, h2, hwt, beq_self_eq_true, if_true, hn, Bool.not_true, Bool.false_or, decide_eq_true_eq] at h
  exact h

theorem narrowField_len (S : Schema) (nb : MsgD → Bytes → Bool) (d : MsgD) (pf : PField) (idx : Nat) (f : FieldD)
    (h : narrowField S nb d pf = true) (h1 : findField d.fields pf.num = some idx) (h2 : d.fields[idx]? = some f)
    (hwt : pf.wt = 2) :
    (isNarrowTy f.ty = true → narrowElems (pf.payload.length + 1) pf.payload = true)
    ∧ ∀ d', subDesc S f = some d' → nb d' pf.payload = true := by
  unfold narrowField at h
  simp only [h1, h2, hwt, show ((2:Nat) == 0) = false by rfl, beq_self_eq_true, if_true, Bool.false_eq_true,
    if_false, Bool.and_eq_true, Bool.or_eq_true, Bool.not_eq_true'] at h
  refine ⟨?_, ?_⟩
  · intro hn
    rcases h.1 with h | h
    · rw [hn] at h; simp at h
    · exact h
  · intro d' hd'
    have := h.2
    rw [hd'] at this
    exact this

/-! ### one iteration of the loop -/

/-- **one record**: if `Message.load` accepts the record, the spec step gives the same message -/
theorem step_sim (S : Schema) (rec : Loader) (sub : Spec.SubDecoder) (nb : MsgD → Bytes → Bool)
    (hrecT : LoaderOk false S rec) (hS : GoodSchema S) (d : MsgD) (hd : GoodD S d)
    (st st' : MState) (m : Spec.AbsMsg) (pf : PField)
    (hsub : SubSim S rec sub nb pf.payload) (h64 : pf.vint < 2 ^ 64)
    (hnar : narrowField S nb d pf = true)
    (hsim : Sim S d st m) (h : applyField S rec d st pf = .ok st') :
    Sim S d st' (Spec.stepRec S sub d m (toRec pf)) := by
  have hST := goodSchema_wf S hS
  have htyped := applyField_typed false S rec hrecT hST d hd.1 st st' pf (by simp) hsim.typed h
  suffices hc : SimCore st' (Spec.stepRec S sub d m (toRec pf)) from ⟨htyped, hc.1, hc.2.1, hc.2.2⟩
  have hlook := lookupNum_eq d.fields hd.2.1 pf.num
  have hnum : (toRec pf).num = pf.num := rfl
  unfold applyField at h
  cases hfind : findField d.fields pf.num with
  | none =>
    rw [hfind] at h hlook
    simp only at h hlook
    injection h with h; subst h
    rw [stepRec_unknown S sub d m _ (by rw [hnum]; exact hlook)]
    exact ⟨hsim.slots, hsim.sel, hsim.nonone⟩
  | some idx =>
    rw [hfind] at h hlook
    simp only at h hlook
    cases hfi : d.fields[idx]? with
    | none => rw [hfi] at h; simp at h
    | some f =>
      rw [hfi] at h hlook
      simp only [Option.map_some] at h hlook
      have hw := hd.1 f (List.mem_of_getElem? hfi)
      have hg := hd.2.2 f (List.mem_of_getElem? hfi)
      rw [stepRec_known S sub d m _ idx f (by rw [hnum]; exact hlook)]
      have hrwt : (toRec pf).wt = pf.wt := rfl
      have hrpl : (toRec pf).payload = pf.payload := rfl
      rw [hrwt, hrpl]
      by_cases hfit : wireFits f pf.wt = true
      · simp only [hfit, Bool.not_true, Bool.false_eq_true, if_false] at h
        cases hv : decodeValue S rec f pf with
        | error e => rw [hv] at h; simp at h
        | ok v =>
          rw [hv] at h
          simp only [bind_ok] at h
          have hvt := decodeValue_typed false S rec hrecT hST f pf v hw hfit (by simp) hv
          have hfit' := (wireFits_iff f pf.wt).1 hfit
          -- the nested decoders agree on this payload
          have hsubok : pf.wt = 2 → SubOk S rec sub f pf.payload := by
            intro hwt
            have hnl := narrowField_len S nb d pf idx f hnar hfind hfi hwt
            exact ⟨fun c d' st'' hd' hr =>
              hsub c d' st'' (subDesc_good S hS f hw hg d' hd') (hnl.2 d' hd') hr⟩
          by_cases hm : f.ty = .map
          · -- map entry
            have hwt : pf.wt = 2 := by
              rcases hfit' with h1 | h1
              · rw [h1, hm]; rfl
              · exact h1.1
            have hgn : f.group = Option.none := by
              unfold goodFieldB at hg
              simp only [hm, beq_self_eq_true, Bool.or_true, Bool.not_true, Bool.false_or, Bool.and_eq_true] at hg
              simpa using hg.1
            obtain ⟨k, x, e, hvd, hse, ek, ex, _, _⟩ := entry_sim S rec sub f pf v hw (hsubok hwt) hwt hm hv
            subst hvd
            simp only [hm, beq_self_eq_true, if_true, hwt, hse]
            have hkt : itemsTypedB false S (keyFieldOf f) [k] = true := by
              simp only [decodedOkB, Bool.and_eq_true] at hvt
              exact hvt.1.2
            exact store_map S d st st' m idx f k x _ _ hsim hfi hm hgn (wfField_map hw hm).1 hkt ek ex h
          · have hm' : (f.ty == PType.map) = false := by simpa using hm
            simp only [hm', Bool.false_eq_true, if_false]
            cases hrep : f.repeated with
            | true =>
              simp only [if_true]
              have hgn : f.group = Option.none := by
                unfold goodFieldB at hg
                simp only [hrep, Bool.true_or, Bool.not_true, Bool.false_or, Bool.and_eq_true] at hg
                simpa using hg.1
              by_cases hown : pf.wt = Spec.wireTypeOf f.ty
              · -- one element
                obtain ⟨v', hv1, hv2⟩ := value_sim S rec sub f pf v hw hg hsubok h64
                  (fun hwt hn => narrowField_vint S nb d pf idx f hnar hfind hfi hwt hn) hown hm hv
                simp only [hown, if_true, hv1]
                exact store_rep S d st st' m idx f v [v] [v'] hsim hfi hw hm hrep hgn
                  (Or.inr ⟨hv2.2.2.1, rfl⟩) (by simp [nvs, hv2.1]) h
              · -- one packed chunk
                rcases hfit' with h1 | ⟨h1, h2, _⟩
                · exact absurd h1 hown
                · have hp : isPacked f.ty = true := by rw [isPacked_packable]; exact h2
                  have hnl := narrowField_len S nb d pf idx f hnar hfind hfi h1
                  obtain ⟨vs, vs', hvl, hu, evs⟩ := chunk_sim S rec f pf v hp h1 hnl.1 hv
                  have hown' : ¬ 2 = Spec.wireTypeOf f.ty := by rw [← h1]; exact hown
                  simp only [h1, hown', if_false, h2, decide_true, Bool.and_self, if_true, hu]
                  exact store_rep S d st st' m idx f v vs vs' hsim hfi hw hm hrep hgn (Or.inl hvl) evs h
            | false =>
              simp only [Bool.false_eq_true, if_false]
              have hown : pf.wt = Spec.wireTypeOf f.ty := by
                rcases hfit' with h1 | ⟨_, _, h3⟩
                · exact h1
                · rw [hrep] at h3; simp at h3
              obtain ⟨v', hv1, hv2⟩ := value_sim S rec sub f pf v hw hg hsubok h64
                (fun hwt hn => narrowField_vint S nb d pf idx f hnar hfind hfi hwt hn) hown hm hv
              simp only [hown, if_true, hv1]
              exact store_sing S d st st' m idx f v v' hsim hfi hw hm hrep hv2 h
      · -- the wire type does not fit the declared type: kept as unknown / ignored
        simp only [hfit, Bool.not_false, if_true] at h
        injection h with h; subst h
        have hnf := fun hc => hfit ((wireFits_iff f pf.wt).2 hc)
        have h1 : ¬ pf.wt = Spec.wireTypeOf f.ty := fun hc => hnf (Or.inl hc)
        have hbody : ∀ (a b c e : Spec.AbsMsg),
            (if f.ty == .map then (if pf.wt = 2 then a else m)
             else if f.repeated then
               (if pf.wt = Spec.wireTypeOf f.ty then b
                else if pf.wt = 2 && Spec.packable f.ty then c else m)
             else if pf.wt = Spec.wireTypeOf f.ty then e else m) = m := by
          intro a b c e
          by_cases hm : f.ty = .map
          · have : ¬ pf.wt = 2 := by
              intro hc; apply h1; rw [hc, hm]; rfl
            simp [hm, this]
          · have hm' : (f.ty == PType.map) = false := by simpa using hm
            simp only [hm', Bool.false_eq_true, if_false, h1]
            cases hrep : f.repeated with
            | true =>
              have : (decide (pf.wt = 2) && Spec.packable f.ty) = false := by
                cases hp : Spec.packable f.ty with
                | false => simp
                | true =>
                  have : ¬ pf.wt = 2 := fun hc => hnf (Or.inr ⟨hc, hp, hrep⟩)
                  simp [this]
              simp [this]
            | false => simp
        have := hbody
        refine ⟨?_, ?_, ?_⟩ <;> (rw [hbody]; first | exact hsim.slots | exact hsim.sel | exact hsim.nonone)

/-! ### the loop -/

theorem fold_sim (S : Schema) (rec : Loader) (sub : Spec.SubDecoder) (nb : MsgD → Bytes → Bool)
    (hrecT : LoaderOk false S rec) (hS : GoodSchema S) (d : MsgD) (hd : GoodD S d)
    (pfs : List PField)
    (hall : ∀ pf ∈ pfs, SubSim S rec sub nb pf.payload ∧ pf.vint < 2 ^ 64 ∧ narrowField S nb d pf = true)
    (st st' : MState) (m : Spec.AbsMsg)
    (hsim : Sim S d st m) (h : foldFields S rec d st pfs = .ok st') :
    Sim S d st' ((pfs.map toRec).foldl (Spec.stepRec S sub d) m) := by
  induction pfs generalizing st m with
  | nil =>
    rw [foldFields] at h; injection h with h; subst h
    exact hsim
  | cons pf pfs ih =>
    rw [foldFields] at h
    cases ha : applyField S rec d st pf with
    | error e => rw [ha] at h; simp at h
    | ok s1 =>
      rw [ha] at h; simp only [bind_ok] at h
      obtain ⟨h1, h2, h3⟩ := hall pf (by simp)
      have hs1 := step_sim S rec sub nb hrecT hS d hd st s1 m pf h1 h2 h3 hsim ha
      simp only [List.map_cons, List.foldl_cons]
      exact ih (fun x hx => hall x (by simp [hx])) s1 _ hs1 h

end Bp.Link
