import BpModel.All
import BpModel.Spec
import BpProofs.SpecLinkFrame
import BpProofs.Typed
import BpProofs.SpecState
/-
  C02, link between the model of betterproto and the spec-level decoder, part 2: VALUES.

  * the abstraction `nv` under which the two decoders are compared;
  * scalar interpretation: `_postprocess_single` (model) against the document's table of
    types (spec): varints, fixed-width values, packed payloads;
  * the tables: `WIRE_TYPE_BY_PROTO_TYPE` / `PACKED_TYPES` against `wireTypeOf` / `packable`;
  * field lookup: `field_name_by_number` (last declaration wins) against the first declared
    field with the number — the same under distinct field numbers.
-/
namespace Bp.Link
open Bp Gen

/-! ### the abstraction -/

mutual
/-- what a Python-side value *means* on the wire level, applied to BOTH decoders' values:
    * `None` (the dataclass default of a proto3-optional field) and PLACEHOLDER both mean
      "nothing on the wire": the spec decoder has one such value, `ph`;
    * a float32 pattern is taken up to NaN quieting (`struct.unpack('<f')` returns a Python
      float: a signalling NaN comes back quiet; the spec keeps the 32 bits of the wire);
    * the raw bytes retained for unknown fields are not part of the meaning;
    * recursively through lists, dicts and nested messages. -/
def nv : Val → Val
  | .ph => .ph
  | .none => .ph
  | .int v => .int v
  | .bool b => .bool b
  | .f32 b => .f32 (quiet32 b)
  | .f64 b => .f64 b
  | .str s => .str s
  | .byt s => .byt s
  | .ts u => .ts u
  | .dur u => .dur u
  | .list xs => .list (nvs xs)
  | .dict ks vs => .dict (nvs ks) (nvs vs)
  | .msg c sl ow _ cur => .msg c (nvs sl) ow [] cur
def nvs : List Val → List Val
  | [] => []
  | x :: xs => nv x :: nvs xs
end

theorem nvs_eq_map (xs : List Val) : nvs xs = xs.map nv := by
  induction xs with
  | nil => rfl
  | cons x xs ih => rw [nvs, ih]; rfl

theorem nvs_append (xs ys : List Val) : nvs (xs ++ ys) = nvs xs ++ nvs ys := by
  simp [nvs_eq_map]

theorem nvs_length (xs : List Val) : (nvs xs).length = xs.length := by simp [nvs_eq_map]

theorem nvs_getD (xs : List Val) (i : Nat) : (nvs xs).getD i .ph = nv (xs.getD i .ph) := by
  rw [nvs_eq_map]
  simp only [List.getD_eq_getElem?_getD, List.getElem?_map]
  cases xs[i]? <;> simp [nv]

theorem nvs_set (xs : List Val) (i : Nat) (v : Val) : nvs (xs.set i v) = (nvs xs).set i (nv v) := by
  simp [nvs_eq_map, List.map_set]

theorem nv_eq_ph (v : Val) : nv v = .ph ↔ (v = .ph ∨ v = .none) := by
  cases v <;> simp [nv]

theorem nv_list_inv (v : Val) (ys : List Val) (h : nv v = .list ys) : ∃ xs, v = .list xs ∧ nvs xs = ys := by
  cases v <;> simp [nv] at h
  exact ⟨_, rfl, h⟩

theorem nv_dict_inv (v : Val) (ks vs : List Val) (h : nv v = .dict ks vs) :
    ∃ ks' vs', v = .dict ks' vs' ∧ nvs ks' = ks ∧ nvs vs' = vs := by
  cases v <;> simp [nv] at h
  exact ⟨_, _, rfl, h.1, h.2⟩

/-- the abstract message of a model-side message value -/
def absOf : Val → Spec.AbsMsg
  | .msg c sl _ _ cur => { cls := c, fields := nvs sl, sel := cur }
  | _ => { cls := 0, fields := [], sel := [] }

/-- the abstract message of a decoder state of class `c` -/
def absState (c : Nat) (st : MState) : Spec.AbsMsg := { cls := c, fields := nvs st.slots, sel := st.cur }

/-- the same abstraction on the spec side (identity on everything the spec decoder builds
    from wire bytes except float32 signalling NaNs; it matters for the `Cls()` default of a
    message-typed map value, whose optional slots are `None`) -/
def _root_.Bp.Spec.AbsMsg.nrm (m : Spec.AbsMsg) : Spec.AbsMsg := { m with fields := nvs m.fields }

/-! ### float32 quieting -/

theorem quiet32_idem (b : Nat) : quiet32 (quiet32 b) = quiet32 b := by
  unfold quiet32
  by_cases h : (isNaN32 b && (b / 0x400000) % 2 == 0) = true
  · rw [if_pos h]
    have h2 : (b / 0x400000) % 2 = 0 := by
      simp only [Bool.and_eq_true, beq_iff_eq] at h; exact h.2
    have : ((b + 0x400000) / 0x400000) % 2 = 1 := by omega
    have hf : (isNaN32 (b + 0x400000) && (b + 0x400000) / 0x400000 % 2 == 0) = false := by
      rw [this]; simp
    rw [hf]; rfl
  · rw [if_neg h, if_neg h]

theorem nv_idem_f32 (b : Nat) : nv (.f32 (quiet32 b)) = nv (.f32 b) := by
  simp [nv, quiet32_idem]

/-! ### varints -/

/-- the two 32-bit varint types whose over-wide encodings (value ≥ 2^32, never produced by
    an encoder) the two decoders read differently: the spec — like the reference — keeps the
    low 32 bits, betterproto keeps all 64 -/
def isNarrowTy (t : PType) : Bool := t == .uint32 || t == .sint32

/-- **varint values**: `_postprocess_single` is the document's interpretation, for every
    proto type, every 64-bit varint, except over-wide `uint32` / `sint32` -/
theorem postVarint_eq (t : PType) (n : Nat) (h64 : n < 2 ^ 64) (hn : isNarrowTy t = true → n < 2 ^ 32) :
    postVarint t n = Spec.varintVal t n := by
  have e64 : n % 2 ^ 64 = n := Nat.mod_eq_of_lt h64
  cases t
  all_goals try rfl
  case bool =>
    show Val.bool (decide (n > 0)) = Val.bool (n != 0)
    cases n <;> simp
  case uint32 =>
    show Val.int (n : Int) = Val.int ((n % 2 ^ 32 : Nat) : Int)
    rw [Nat.mod_eq_of_lt (hn rfl)]
  case uint64 =>
    show Val.int (n : Int) = Val.int ((n % 2 ^ 64 : Nat) : Int)
    rw [e64]
  case sint32 =>
    show Val.int (unzig n) = Val.int (Spec.zigzagDecode (n % 2 ^ 32))
    rw [Nat.mod_eq_of_lt (hn rfl)]
    unfold unzig Spec.zigzagDecode
    split <;> (simp; try omega)
  case sint64 =>
    show Val.int (unzig n) = Val.int (Spec.zigzagDecode (n % 2 ^ 64))
    rw [e64]
    unfold unzig Spec.zigzagDecode
    split <;> (simp; try omega)

/-! ### fixed-width values -/

/-- **fixed-width values**: `struct.unpack` is the document's interpretation, up to float32
    NaN quieting -/
theorem postFixed_eq (t : PType) (p : Bytes) (v : Val) (h : postFixed t p = .ok v) :
    ∃ v', Spec.fixedVal t p = some v' ∧ nv v = nv v' := by
  obtain ⟨w, sg, fl, hfmt, hl, hv⟩ := postFixed_ok t p v h
  cases t <;> simp [fmtOf, packFmt] at hfmt
  all_goals
    obtain ⟨rfl, rfl, rfl⟩ := hfmt
    subst hv
    simp [Spec.fixedVal, hl, nv, quiet32_idem]

theorem postFixed_len (t : PType) (p : Bytes) (v : Val) (h : postFixed t p = .ok v) :
    (Spec.wireTypeOf t = 5 → p.length = 4) ∧ (Spec.wireTypeOf t = 1 → p.length = 8) := by
  obtain ⟨w, sg, fl, hfmt, hl, _⟩ := postFixed_ok t p v h
  cases t <;> simp [fmtOf, packFmt] at hfmt
  all_goals
    obtain ⟨rfl, rfl, rfl⟩ := hfmt
    simp [Spec.wireTypeOf, hl]

/-! ### the tables -/

theorem isPacked_packable (t : PType) : isPacked t = Spec.packable t := by cases t <;> decide

/-- `WIRE_TYPE_BY_PROTO_TYPE` + the packed alternative, in the spec's words -/
theorem wireFits_iff (f : FieldD) (wt : Nat) :
    wireFits f wt = true ↔
      (wt = Spec.wireTypeOf f.ty ∨ (wt = 2 ∧ Spec.packable f.ty = true ∧ f.repeated = true)) := by
  unfold wireFits
  rw [← isPacked_packable]
  cases f.ty <;> simp [wireTypeByProtoType, Spec.wireTypeOf, wireLenDelim, isPacked, packedTypes]

theorem packable_wt (t : PType) (h : Spec.packable t = true) : Spec.wireTypeOf t ≠ 2 := by
  cases t <;> simp [Spec.packable, Spec.wireTypeOf] at h ⊢

/-! ### packed payloads -/

/-- every varint element of a packed payload is < 2^32 -/
def narrowElems : Nat → Bytes → Bool
  | 0, _ => true
  | fuel + 1, p =>
    match p with
    | [] => true
    | _ =>
      match loadVarint p with
      | .ok (v, k) => decide (v < 2 ^ 32) && narrowElems fuel (p.drop k)
      | .error _ => true

theorem loadVarint_lt64 (bs : Bytes) (v k : Nat) (h : loadVarint bs = .ok (v, k)) : v < 2 ^ 64 := by
  unfold loadVarint at h
  split at h
  · simp at h; rw [← h.1]; exact Nat.mod_lt _ (by decide)
  · simp at h

theorem decodePackedFuel_cons (t : PType) (fuel b : Nat) (bs : Bytes) :
    decodePackedFuel t (fuel + 1) (b :: bs) =
      if t == .float || t == .fixed32 || t == .sfixed32 then
        (postFixed t ((b :: bs).take 4)).bind fun v =>
          (decodePackedFuel t fuel ((b :: bs).drop 4)).bind fun vs => .ok (v :: vs)
      else if t == .double || t == .fixed64 || t == .sfixed64 then
        (postFixed t ((b :: bs).take 8)).bind fun v =>
          (decodePackedFuel t fuel ((b :: bs).drop 8)).bind fun vs => .ok (v :: vs)
      else
        match loadVarint (b :: bs) with
        | .error e => .error e
        | .ok (n, k) => (decodePackedFuel t fuel ((b :: bs).drop k)).bind fun vs => .ok (postVarint t n :: vs) := rfl

theorem unpackElems_cons (t : PType) (fuel b : Nat) (bs : Bytes) :
    Spec.unpackElems t (fuel + 1) (b :: bs) =
      if Spec.wireTypeOf t = 0 then
        match Spec.readVarint (b :: bs) with
        | none => none
        | some (n, r) =>
          match Spec.unpackElems t fuel r with
          | some vs => some (Spec.varintVal t n :: vs)
          | none => none
      else
        if (b :: bs).length < (if Spec.wireTypeOf t = 1 then 8 else 4) then none
        else match Spec.fixedVal t ((b :: bs).take (if Spec.wireTypeOf t = 1 then 8 else 4)),
                   Spec.unpackElems t fuel ((b :: bs).drop (if Spec.wireTypeOf t = 1 then 8 else 4)) with
          | some v, some vs => some (v :: vs)
          | _, _ => none := rfl

theorem narrowElems_cons (fuel b : Nat) (bs : Bytes) :
    narrowElems (fuel + 1) (b :: bs) =
      match loadVarint (b :: bs) with
      | .ok (v, k) => decide (v < 2 ^ 32) && narrowElems fuel ((b :: bs).drop k)
      | .error _ => true := rfl

/-- **packed payloads**: same elements, with the same fuel -/
theorem decodePacked_eq (t : PType) (hp : isPacked t = true) (fuel : Nat) (p : Bytes) (vs : List Val)
    (hn : isNarrowTy t = true → narrowElems fuel p = true)
    (h : decodePackedFuel t fuel p = .ok vs) :
    ∃ vs', Spec.unpackElems t fuel p = some vs' ∧ nvs vs = nvs vs' := by
  induction fuel generalizing p vs with
  | zero => simp [decodePackedFuel] at h
  | succ fuel ih =>
    cases p with
    | nil =>
      simp [decodePackedFuel] at h; subst h
      exact ⟨[], rfl, rfl⟩
    | cons b bs =>
      rw [decodePackedFuel_cons] at h
      rw [unpackElems_cons]
      by_cases h4 : (t == .float || t == .fixed32 || t == .sfixed32) = true
      · rw [if_pos h4] at h
        have hw : Spec.wireTypeOf t = 5 := by
          cases t <;> simp at h4 <;> rfl
        cases h1 : postFixed t ((b :: bs).take 4) with
        | error e => rw [h1] at h; simp [Except.bind] at h
        | ok v =>
          rw [h1] at h
          cases h2 : decodePackedFuel t fuel ((b :: bs).drop 4) with
          | error e => rw [h2] at h; simp [Except.bind] at h
          | ok ws =>
            rw [h2] at h; simp [Except.bind] at h; subst h
            obtain ⟨v', hv1, hv2⟩ := postFixed_eq t _ v h1
            have hnar : isNarrowTy t = true → narrowElems fuel ((b :: bs).drop 4) = true := by
              intro hc; cases t <;> simp [isNarrowTy] at hc <;> simp at h4
            obtain ⟨ws', hw1, hw2⟩ := ih _ ws hnar h2
            have hlen : ¬ (b :: bs).length < 4 := by
              intro hc
              have := (postFixed_len t _ v h1).1 hw
              rw [List.length_take] at this; omega
            simp only [hw, show ((5:Nat) = 0) = False by simp, if_false, show ((5:Nat) = 1) = False by simp]
            rw [if_neg hlen, hv1, hw1]
            exact ⟨v' :: ws', rfl, by simp [nvs, hv2, hw2]⟩
      · rw [if_neg h4] at h
        by_cases h8 : (t == .double || t == .fixed64 || t == .sfixed64) = true
        · rw [if_pos h8] at h
          have hw : Spec.wireTypeOf t = 1 := by
            cases t <;> simp at h8 <;> rfl
          cases h1 : postFixed t ((b :: bs).take 8) with
          | error e => rw [h1] at h; simp [Except.bind] at h
          | ok v =>
            rw [h1] at h
            cases h2 : decodePackedFuel t fuel ((b :: bs).drop 8) with
            | error e => rw [h2] at h; simp [Except.bind] at h
            | ok ws =>
              rw [h2] at h; simp [Except.bind] at h; subst h
              obtain ⟨v', hv1, hv2⟩ := postFixed_eq t _ v h1
              have hnar : isNarrowTy t = true → narrowElems fuel ((b :: bs).drop 8) = true := by
                intro hc; cases t <;> simp [isNarrowTy] at hc <;> simp at h8
              obtain ⟨ws', hw1, hw2⟩ := ih _ ws hnar h2
              have hlen : ¬ (b :: bs).length < 8 := by
                intro hc
                have := (postFixed_len t _ v h1).2 hw
                rw [List.length_take] at this; omega
              simp only [hw, show ((1:Nat) = 0) = False by simp, if_false, if_true]
              rw [if_neg hlen, hv1, hw1]
              exact ⟨v' :: ws', rfl, by simp [nvs, hv2, hw2]⟩
        · rw [if_neg h8] at h
          have hw : Spec.wireTypeOf t = 0 := by
            cases t <;> simp at h4 h8 <;> simp [isPacked, packedTypes] at hp <;> rfl
          simp only [hw, if_true]
          cases h1 : loadVarint (b :: bs) with
          | error e => rw [h1] at h; simp at h
          | ok nk =>
            obtain ⟨n, k⟩ := nk
            rw [h1] at h
            simp only at h
            cases h2 : decodePackedFuel t fuel ((b :: bs).drop k) with
            | error e => rw [h2] at h; simp [Except.bind] at h
            | ok ws =>
              rw [h2] at h; simp [Except.bind] at h; subst h
              rw [readVarint_ok _ n k h1]
              simp only
              have hnar : isNarrowTy t = true → n < 2 ^ 32 ∧ narrowElems fuel ((b :: bs).drop k) = true := by
                intro hc
                have := hn hc
                rw [narrowElems_cons] at this
                simp only [h1, Bool.and_eq_true, decide_eq_true_eq] at this
                exact this
              obtain ⟨ws', hw1, hw2⟩ := ih _ ws (fun hc => (hnar hc).2) h2
              rw [hw1]
              refine ⟨Spec.varintVal t n :: ws', rfl, ?_⟩
              rw [postVarint_eq t n (loadVarint_lt64 _ n k h1) (fun hc => (hnar hc).1)]
              simp [nvs, hw2]

/-! ### field lookup -/

/-- pairwise distinct field numbers (the same predicate as `NumsDistinct` of the C01 files,
    restated here because those files cannot be imported together with the C02 helper files) -/
def DistinctNums (fs : List FieldD) : Prop :=
  ∀ (i j : Nat) (fi fj : FieldD), fs[i]? = some fi → fs[j]? = some fj → fi.num = fj.num → i = j

theorem findField_go_sound (num : Nat) (fs : List FieldD) (i : Nat) (acc : Option Nat) (k : Nat)
    (h : findField.go num fs i acc = some k) :
    acc = some k ∨ (i ≤ k ∧ ∃ f, fs[k - i]? = some f ∧ f.num = num) := by
  induction fs generalizing i acc with
  | nil => simp only [findField.go] at h; exact Or.inl h
  | cons f fs ih =>
    simp only [findField.go] at h
    rcases ih (i + 1) _ h with h1 | ⟨h1, f', h2, h3⟩
    · by_cases hn : (f.num == num) = true
      · simp only [hn, if_true] at h1
        injection h1 with h1; subst h1
        right
        exact ⟨Nat.le_refl _, f, by simp, by simpa using hn⟩
      · simp only [hn, Bool.false_eq_true, if_false] at h1
        exact Or.inl h1
    · right
      refine ⟨by omega, f', ?_, h3⟩
      have : k - i = (k - (i + 1)) + 1 := by omega
      rw [this, List.getElem?_cons_succ]; exact h2

theorem findField_sound (fs : List FieldD) (num idx : Nat) (h : findField fs num = some idx) :
    ∃ f, fs[idx]? = some f ∧ f.num = num := by
  unfold findField at h
  rcases findField_go_sound num fs 0 Option.none idx h with h1 | ⟨_, f, h2, h3⟩
  · simp at h1
  · exact ⟨f, by simpa using h2, h3⟩

theorem findField_go_none (num : Nat) (fs : List FieldD) (i : Nat) (acc : Option Nat)
    (h : findField.go num fs i acc = Option.none) : acc = Option.none ∧ ∀ f ∈ fs, f.num ≠ num := by
  induction fs generalizing i acc with
  | nil => simp only [findField.go] at h; exact ⟨h, fun _ hf => by simp at hf⟩
  | cons f fs ih =>
    simp only [findField.go] at h
    obtain ⟨h1, h2⟩ := ih _ _ h
    by_cases hn : (f.num == num) = true
    · simp [hn] at h1
    · simp only [hn, Bool.false_eq_true, if_false] at h1
      refine ⟨h1, ?_⟩
      intro x hx
      simp at hx
      rcases hx with hx | hx
      · subst hx; simpa using hn
      · exact h2 x hx

theorem lookupNum_none (fs : List FieldD) (i num : Nat) (h : ∀ f ∈ fs, f.num ≠ num) :
    Spec.lookupNum fs i num = none := by
  induction fs generalizing i with
  | nil => rfl
  | cons f fs ih =>
    rw [Spec.lookupNum, if_neg (h f (by simp))]
    exact ih _ (fun x hx => h x (by simp [hx]))

theorem lookupNum_first (fs : List FieldD) (i num k : Nat) (f : FieldD) (hk : fs[k]? = some f) (hnum : f.num = num)
    (hfirst : ∀ j fj, j < k → fs[j]? = some fj → fj.num ≠ num) :
    Spec.lookupNum fs i num = some (i + k, f) := by
  induction fs generalizing i k with
  | nil => simp at hk
  | cons f0 fs ih =>
    rw [Spec.lookupNum]
    cases k with
    | zero =>
      simp at hk; subst hk
      rw [if_pos hnum]; rfl
    | succ k =>
      simp at hk
      have h0 : f0.num ≠ num := hfirst 0 f0 (by omega) (by simp)
      rw [if_neg h0]
      rw [ih (i + 1) k hk (fun j fj hj hfj => hfirst (j + 1) fj (by omega) (by simpa using hfj))]
      congr 2; omega

/-- **field lookup**: with distinct field numbers `field_name_by_number.get(num)` is the
    declared field with that number -/
theorem lookupNum_eq (fs : List FieldD) (hd : DistinctNums fs) (num : Nat) :
    Spec.lookupNum fs 0 num =
      match findField fs num with
      | Option.none => none
      | some idx => (fs[idx]?).map fun f => (idx, f) := by
  cases hf : findField fs num with
  | none =>
    unfold findField at hf
    exact lookupNum_none fs 0 num (findField_go_none num fs 0 _ hf).2
  | some idx =>
    obtain ⟨f, h1, h2⟩ := findField_sound fs num idx hf
    simp only [h1, Option.map_some]
    have := lookupNum_first fs 0 num idx f h1 h2 (fun j fj hj hfj hc => by
      have := hd j idx fj f hfj h1 (hc.trans h2.symm)
      omega)
    simpa using this

end Bp.Link
