import BpModel.All
import BpModel.Spec
import BpProofs.SpecLinkSim
/-
  C02, link between the model of betterproto and the spec-level decoder, part 4: the value
  one record denotes — `decodeValue` (model) against `valueOf` / `unpackElems` / the map
  entry decoding of `stepRec` (spec), given that the nested decoders agree on the payload.
-/
namespace Bp.Link
open Bp Gen

/-- scalars, datetimes, timedeltas -/
def isLeafB : Val → Bool
  | .int _ | .bool _ | .f32 _ | .f64 _ | .str _ | .byt _ | .ts _ | .dur _ => true
  | _ => false

/-- what the store step needs to know about a decoded element and its spec counterpart -/
def GoodVal (S : Schema) (v v' : Val) : Prop :=
  nv v = nv v' ∧ v' ≠ .none ∧ (∀ ys, v ≠ .list ys) ∧ storedVal S v = v

theorem goodVal_leaf (S : Schema) (v v' : Val) (hl : isLeafB v = true) (h : nv v = nv v') : GoodVal S v v' := by
  refine ⟨h, ?_, ?_, ?_⟩
  · intro hc; subst hc; cases v <;> simp [isLeafB, nv] at hl h
  · intro ys hc; subst hc; simp [isLeafB] at hl
  · cases v <;> simp [isLeafB, storedVal] at hl ⊢

theorem varintVal_leaf (t : PType) (n : Nat) : isLeafB (Spec.varintVal t n) = true := by
  cases t <;> simp [Spec.varintVal, isLeafB]

theorem postFixed_leaf (t : PType) (p : Bytes) (v : Val) (h : postFixed t p = .ok v) : isLeafB v = true := by
  have := postFixed_typed false t p v (by simp) h
  cases v <;> simp [scalarTypedB] at this <;> rfl

theorem nv_int_inv (y : Val) (s : Int) (h : nv y = .int s) : y = .int s := by
  cases y <;> simp [nv] at h
  rw [h]

theorem defaultOfKind_scalar_leaf (S : Schema) (t : PType) : isLeafB (defaultOfKind S (scalarDef t)) = true := by
  cases t <;> rfl

/-- the attribute read of a singular scalar field whose default is not `None` is a scalar -/
theorem materialize_leaf (S : Schema) (fld : FieldD) (a : Val) (ht : slotTypedB false S fld a = true)
    (hr : fld.repeated = false) (hs : isScalarTy fld.ty = true) (hn : noneOkB fld = false)
    (hk : defaultOf S fld = defaultOfKind S (scalarDef fld.ty)) : isLeafB (materialize S fld a) = true := by
  unfold isScalarTy at hs
  simp only [Bool.and_eq_true, bne_iff_ne, ne_eq] at hs
  cases a <;> simp only [materialize, isLeafB]
  · rw [hk]; exact defaultOfKind_scalar_leaf S _
  · rw [slotTypedB, hn] at ht; simp at ht
  · rw [slotTypedB, hr] at ht; simp at ht
  · rw [slotTypedB] at ht; simp [hs.2] at ht
  · rw [slotTypedB] at ht; simp [msgFieldB, hs.1] at ht

theorem defaultOf_scalarField (S : Schema) (fld : FieldD) (hr : fld.repeated = false) (ho : fld.optional = false)
    (hw : fld.wraps = Option.none) (hs : isScalarTy fld.ty = true) :
    defaultOf S fld = defaultOfKind S (scalarDef fld.ty) := by
  unfold isScalarTy at hs
  simp only [Bool.and_eq_true, bne_iff_ne, ne_eq] at hs
  simp [defaultOf, FieldD.defKind, hr, ho, hw, hs.1, hs.2]

theorem noneOk_scalarField (fld : FieldD) (hr : fld.repeated = false) (ho : fld.optional = false)
    (hw : fld.wraps = Option.none) (hs : isScalarTy fld.ty = true) : noneOkB fld = false := by
  unfold isScalarTy at hs
  simp only [Bool.and_eq_true, bne_iff_ne, ne_eq] at hs
  have := scalarDef_ne_none fld.ty
  simp [noneOkB, FieldD.defKind, hr, ho, hw, hs.1, hs.2, this]

/-! ### wire types -/

theorem wt_cases (t : PType) :
    (Spec.wireTypeOf t = 0 ∧ isPacked t = true) ∨ (Spec.wireTypeOf t = 5 ∧ isPacked t = true)
    ∨ (Spec.wireTypeOf t = 1 ∧ isPacked t = true)
    ∨ (Spec.wireTypeOf t = 2 ∧ isPacked t = false ∧ (t = .string ∨ t = .bytes ∨ t = .message ∨ t = .map)) := by
  cases t <;> simp [Spec.wireTypeOf, isPacked, packedTypes]

/-! ### one element -/

/-- the nested decoders agree on the payload, seen from the field -/
structure SubOk (S : Schema) (rec : Loader) (sub : Spec.SubDecoder) (f : FieldD) (p : Bytes) : Prop where
  ok : ∀ (c : Nat) (d' : MsgD) (st' : MState), subDesc S f = some d' → rec d' (freshState d') p = .ok st' →
    ∃ m, sub c d' p = some m ∧ m.cls = c ∧ Sim S d' st' m

theorem secNanos_field (S : Schema) (st : MState) (m : Spec.AbsMsg)
    (hsim : Sim S secNanosD st m) (i : Nat) (hi : i < 2) :
    nv (materialize S secNanosD.fields[i]! (st.slots.getD i .ph))
      = nv (Spec.orDefault S .int (m.fields.getD i .ph)) := by
  have h2 : i = 0 ∨ i = 1 := by omega
  rcases h2 with rfl | rfl
  · exact materialize_orDefault S _ .int _ _ rfl (hsim.getD 0)
      (slot_ne_none S secNanosD st 0 _ hsim.typed rfl rfl) (hsim.nonone 0)
  · exact materialize_orDefault S _ .int _ _ rfl (hsim.getD 1)
      (slot_ne_none S secNanosD st 1 _ hsim.typed rfl rfl) (hsim.nonone 1)

/-- **one element**: a record whose wire type is the declared type's own (not a map entry)
    denotes the same value for both decoders -/
theorem value_sim (S : Schema) (rec : Loader) (sub : Spec.SubDecoder)
    (f : FieldD) (pf : PField) (v : Val)
    (hw : wfFieldB S.length f = true) (hg : goodFieldB f = true)
    (hsub : pf.wt = 2 → SubOk S rec sub f pf.payload)
    (h64 : pf.vint < 2 ^ 64)
    (hn0 : pf.wt = 0 → isNarrowTy f.ty = true → pf.vint < 2 ^ 32)
    (hwt : pf.wt = Spec.wireTypeOf f.ty) (hmap : f.ty ≠ .map)
    (h : decodeValue S rec f pf = .ok v) :
    ∃ v', Spec.valueOf S sub f (toRec pf) = some v' ∧ GoodVal S v v' := by
  rcases wt_cases f.ty with ⟨h0, _⟩ | ⟨h5, _⟩ | ⟨h1, _⟩ | ⟨h2, hnp, hty⟩
  · -- VARINT
    rw [h0] at hwt
    have hv : v = postVarint f.ty pf.vint := by
      unfold decodeValue at h
      simp [hwt, wireLenDelim, wireVarint] at h
      exact h.symm
    subst hv
    have e := postVarint_eq f.ty pf.vint h64 (hn0 hwt)
    refine ⟨Spec.varintVal f.ty pf.vint, by simp [Spec.valueOf, toRec, hwt], ?_⟩
    rw [e]
    exact goodVal_leaf S _ _ (varintVal_leaf _ _) rfl
  · -- I32
    rw [h5] at hwt
    have hv : postFixed f.ty pf.payload = .ok v := by
      unfold decodeValue at h
      simpa [hwt, wireLenDelim, wireVarint, wireFixed32] using h
    obtain ⟨v', e1, e2⟩ := postFixed_eq f.ty pf.payload v hv
    exact ⟨v', by simp [Spec.valueOf, toRec, hwt, e1], goodVal_leaf S _ _ (postFixed_leaf _ _ _ hv) e2⟩
  · -- I64
    rw [h1] at hwt
    have hv : postFixed f.ty pf.payload = .ok v := by
      unfold decodeValue at h
      simpa [hwt, wireLenDelim, wireVarint, wireFixed32, wireFixed64] using h
    obtain ⟨v', e1, e2⟩ := postFixed_eq f.ty pf.payload v hv
    exact ⟨v', by simp [Spec.valueOf, toRec, hwt, e1], goodVal_leaf S _ _ (postFixed_leaf _ _ _ hv) e2⟩
  · -- LEN
    rw [h2] at hwt
    have hsub := hsub hwt
    have hmap' : (f.ty == PType.map) = false := by simpa using hmap
    have hv : postLen S rec f pf.payload = .ok v := by
      unfold decodeValue at h
      simpa [hwt, wireLenDelim, wireVarint, wireFixed32, wireFixed64, hnp, hmap'] using h
    have hval : Spec.valueOf S sub f (toRec pf) = Spec.lenVal S sub f pf.payload := by
      simp [Spec.valueOf, toRec, hwt]
    rw [hval]
    rcases hty with hty | hty | hty | hty
    · -- string
      unfold postLen at hv
      simp only [hty, beq_self_eq_true, if_true] at hv
      split at hv
      · rename_i hu
        injection hv with hv; subst hv
        exact ⟨.str pf.payload, by simp [Spec.lenVal, hty, hu], goodVal_leaf S _ _ rfl rfl⟩
      · simp at hv
    · -- bytes
      unfold postLen at hv
      simp [hty] at hv
      subst hv
      exact ⟨.byt pf.payload, by simp [Spec.lenVal, hty], goodVal_leaf S _ _ rfl rfl⟩
    · -- message
      unfold postLen at hv
      simp only [hty, beq_self_eq_true, if_true] at hv
      have hstr : (PType.message == PType.string) = false := by decide
      simp only [hstr, Bool.false_eq_true, if_false] at hv
      cases hk : f.kind with
      | timestamp =>
        have hwr : f.wraps = Option.none := by
          unfold goodFieldB at hg
          cases hh : f.wraps with
          | none => rfl
          | some w => simp [hty, hk, hh] at hg
        rw [hk] at hv
        simp only at hv
        cases hr : rec secNanosD (freshState secNanosD) pf.payload with
        | error e => rw [hr] at hv; simp at hv
        | ok st =>
          rw [hr] at hv; simp only [bind_ok] at hv
          obtain ⟨m, hm1, _, hsim⟩ := hsub.ok 0 secNanosD st (by simp [subDesc, hty, hwr, hk]) hr
          have e0 := secNanos_field S st m hsim 0 (by omega)
          have e1 := secNanos_field S st m hsim 1 (by omega)
          split at hv
          · rename_i s n hs hn
            rw [hs] at e0; rw [hn] at e1
            have f0 := nv_int_inv _ s e0.symm
            have f1 := nv_int_inv _ n e1.symm
            simp only [List.getD_eq_getElem?_getD] at f0 f1
            split at hv
            · injection hv with hv; subst hv
              refine ⟨.ts (tsJoin s n), ?_, goodVal_leaf S _ _ rfl rfl⟩
              simp [Spec.lenVal, hty, hwr, hk, hm1, f0, f1]
            · simp at hv
          · simp at hv
      | duration =>
        have hwr : f.wraps = Option.none := by
          unfold goodFieldB at hg
          cases hh : f.wraps with
          | none => rfl
          | some w => simp [hty, hk, hh] at hg
        rw [hk] at hv
        simp only at hv
        cases hr : rec secNanosD (freshState secNanosD) pf.payload with
        | error e => rw [hr] at hv; simp at hv
        | ok st =>
          rw [hr] at hv; simp only [bind_ok] at hv
          obtain ⟨m, hm1, _, hsim⟩ := hsub.ok 0 secNanosD st (by simp [subDesc, hty, hwr, hk]) hr
          have e0 := secNanos_field S st m hsim 0 (by omega)
          have e1 := secNanos_field S st m hsim 1 (by omega)
          split at hv
          · rename_i s n hs hn
            rw [hs] at e0; rw [hn] at e1
            have f0 := nv_int_inv _ s e0.symm
            have f1 := nv_int_inv _ n e1.symm
            simp only [List.getD_eq_getElem?_getD] at f0 f1
            split at hv
            · injection hv with hv; subst hv
              refine ⟨.dur (durJoin s n), ?_, goodVal_leaf S _ _ rfl rfl⟩
              simp [Spec.lenVal, hty, hwr, hk, hm1, f0, f1]
            · simp at hv
          · simp at hv
      | user c =>
        rw [hk] at hv
        cases hwr : f.wraps with
        | some w =>
          rw [hwr] at hv
          simp only at hv
          have hws := wfField_wrap hw c w hty hk hwr
          cases hr : rec (wrapperD w) (freshState (wrapperD w)) pf.payload with
          | error e => rw [hr] at hv; simp at hv
          | ok st =>
            rw [hr] at hv; simp only [bind_ok] at hv
            injection hv with hv; subst hv
            obtain ⟨m, hm1, _, hsim⟩ := hsub.ok 0 (wrapperD w) st (by simp [subDesc, hty, hwr]) hr
            have hfld : (wrapperD w).fields[0]? = some (wrapperD w).fields[0]! := rfl
            have hdk := defaultOf_scalarField S (wrapperD w).fields[0]! rfl rfl rfl hws
            have hno := noneOk_scalarField (wrapperD w).fields[0]! rfl rfl rfl hws
            have hne := slot_ne_none S (wrapperD w) st 0 _ hsim.typed hfld hno
            have e0 := materialize_orDefault S (wrapperD w).fields[0]! (scalarDef w) _ _ hdk (hsim.getD 0) hne
              (hsim.nonone 0)
            have hleaf := materialize_leaf S (wrapperD w).fields[0]! (st.slots.getD 0 .ph)
              (slotsTyped_getD false S _ _ 0 _ hsim.typed.2 hfld) rfl hws hno hdk
            refine ⟨Spec.orDefault S (scalarDef w) (m.fields.getD 0 .ph), ?_, goodVal_leaf S _ _ hleaf e0⟩
            simp [Spec.lenVal, hty, hwr, hm1]
        | none =>
          rw [hwr] at hv
          simp only at hv
          cases hd' : S[c]? with
          | none => rw [hd'] at hv; simp at hv
          | some d' =>
            rw [hd'] at hv
            simp only at hv
            cases hr : rec d' (freshState d') pf.payload with
            | error e => rw [hr] at hv; simp at hv
            | ok st =>
              rw [hr] at hv; simp only [bind_ok] at hv
              injection hv with hv; subst hv
              obtain ⟨m, hm1, hm2, hsim⟩ := hsub.ok c d' st (by simp [subDesc, hty, hwr, hk, hd']) hr
              refine ⟨m.toVal, by simp [Spec.lenVal, hty, hwr, hk, hd', hm1], ?_, ?_, ?_, ?_⟩
              · simp [Spec.AbsMsg.toVal, nv, hsim.slots, hsim.sel, hm2]
              · simp [Spec.AbsMsg.toVal]
              · intro ys hc; simp at hc
              · simp [storedVal]
    · exact absurd hty hmap

/-! ### one packed chunk -/

theorem chunk_sim (S : Schema) (rec : Loader) (f : FieldD) (pf : PField) (v : Val)
    (hp : isPacked f.ty = true) (hwt : pf.wt = 2)
    (hn : isNarrowTy f.ty = true → narrowElems (pf.payload.length + 1) pf.payload = true)
    (h : decodeValue S rec f pf = .ok v) :
    ∃ vs vs', v = .list vs ∧ Spec.unpackElems f.ty (pf.payload.length + 1) pf.payload = some vs'
      ∧ nvs vs = nvs vs' := by
  unfold decodeValue at h
  simp only [hwt, wireLenDelim, beq_self_eq_true, hp, Bool.and_self, if_true] at h
  cases hd : decodePacked f.ty pf.payload with
  | error e => rw [hd] at h; simp at h
  | ok vs =>
    rw [hd] at h; simp only [bind_ok] at h
    injection h with h
    obtain ⟨vs', h1, h2⟩ := decodePacked_eq f.ty hp _ pf.payload vs hn hd
    exact ⟨vs, vs', h.symm, h1, h2⟩

/-! ### one map entry -/

theorem entry_sim (S : Schema) (rec : Loader) (sub : Spec.SubDecoder)
    (f : FieldD) (pf : PField) (v : Val)
    (hw : wfFieldB S.length f = true)
    (hsub : SubOk S rec sub f pf.payload)
    (hwt : pf.wt = 2) (hty : f.ty = .map)
    (h : decodeValue S rec f pf = .ok v) :
    ∃ k x e, v = .dict [k] [x] ∧ sub 0 (entryD f) pf.payload = some e
      ∧ nv k = nv (Spec.orDefault S (scalarDef f.mapK) (e.fields.getD 0 .ph))
      ∧ nv x = nv (Spec.orDefault S (Spec.entryKind f) (e.fields.getD 1 .ph))
      ∧ Spec.orDefault S (scalarDef f.mapK) (e.fields.getD 0 .ph) ≠ .none
      ∧ Spec.orDefault S (Spec.entryKind f) (e.fields.getD 1 .ph) ≠ .none := by
  obtain ⟨hks, hvm, _⟩ := wfField_map hw hty
  unfold decodeValue at h
  have hnp : isPacked PType.map = false := rfl
  simp only [hwt, wireLenDelim, wireVarint, wireFixed32, wireFixed64, hty, hnp, beq_self_eq_true,
    Bool.and_false, Bool.false_eq_true, if_false, if_true, Bool.or_self,
    show ((2:Nat) == 0) = false by rfl, show ((2:Nat) == 5) = false by rfl, show ((2:Nat) == 1) = false by rfl] at h
  cases hr : rec (entryD f) (freshState (entryD f)) pf.payload with
  | error e => rw [hr] at h; simp at h
  | ok st =>
    rw [hr] at h; simp only [bind_ok] at h
    injection h with h
    obtain ⟨e, he1, _, hsim⟩ := hsub.ok 0 (entryD f) st (by simp [subDesc, hty]) hr
    have hf0 : (entryD f).fields[0]? = some (keyFieldOf f) := rfl
    have hf1 : (entryD f).fields[1]? = some (valFieldOf f) := rfl
    have e0' : (entryD f).fields[0]! = keyFieldOf f := rfl
    have e1' : (entryD f).fields[1]! = valFieldOf f := rfl
    -- the key
    have hdk := defaultOf_scalarField S (keyFieldOf f) rfl rfl rfl hks
    have hno := noneOk_scalarField (keyFieldOf f) rfl rfl rfl hks
    have hne := slot_ne_none S (entryD f) st 0 _ hsim.typed hf0 hno
    have k0 := materialize_orDefault S (keyFieldOf f) (scalarDef f.mapK) _ _ hdk (hsim.getD 0) hne (hsim.nonone 0)
    -- the value
    have hvm' : (f.mapV == PType.map) = false := by simpa using hvm
    have hvk : (valFieldOf f).defKind = Spec.entryKind f := by
      by_cases hm : (f.mapV == PType.message) = true <;>
        simp [FieldD.defKind, valFieldOf, Spec.entryKind, hvm', hm]
    have hdv : defaultOf S (valFieldOf f) = defaultOfKind S (Spec.entryKind f) := by
      rw [defaultOf, hvk]
    have hkn : Spec.entryKind f ≠ .none := by
      unfold Spec.entryKind
      split
      · exact msgKindDef_ne_none _
      · exact scalarDef_ne_none _
    have hnov : noneOkB (valFieldOf f) = false := by
      have h1 : (valFieldOf f).optional = false := rfl
      have h2 : ((valFieldOf f).defKind == DefKind.none) = false := by rw [hvk]; simpa using hkn
      simp [noneOkB, h1, h2]
    have hnev := slot_ne_none S (entryD f) st 1 _ hsim.typed hf1 hnov
    have k1 := materialize_orDefault S (valFieldOf f) (Spec.entryKind f) _ _ hdv (hsim.getD 1) hnev (hsim.nonone 1)
    refine ⟨_, _, e, h.symm, he1, ?_, ?_, ?_, ?_⟩
    · rw [e0']; exact k0
    · rw [e1']; exact k1
    · exact orDefault_ne_none S _ _ (scalarDef_ne_none _) (hsim.nonone 0)
    · exact orDefault_ne_none S _ _ hkn (hsim.nonone 1)

end Bp.Link
