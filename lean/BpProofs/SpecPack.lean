import BpModel.All
import BpProofs.SpecRep
/-
  C02 helper lemmas, part 5: records of a repeated packable scalar field only ever APPEND
  their elements (packed chunk: all of them; unpacked record: the one), so the final list
  depends only on the concatenation; a record of a singular scalar field leaves its value;
  a record of a oneof member leaves that member selected.
-/
namespace Bp
open Gen

/-- a repeated field of a packable scalar type, outside any oneof -/
def IsRepScalar (f : FieldD) : Prop := f.repeated = true ∧ isPacked f.ty = true ∧ f.group = Option.none

instance (f : FieldD) : Decidable (IsRepScalar f) := by unfold IsRepScalar; infer_instance

theorem packed_not_map_msg (t : PType) (h : isPacked t = true) : t ≠ .map ∧ t ≠ .message := by
  cases t <;> first | (exfalso; revert h; decide) | exact ⟨fun e => PType.noConfusion e, fun e => PType.noConfusion e⟩

/-- the list a repeated slot currently denotes -/
def curList (st : MState) (idx : Nat) : List Val :=
  match st.slots.getD idx .ph with
  | .list xs => xs
  | _ => []

/-- the state with `es` appended to the repeated field `idx` -/
def appendAt (st : MState) (idx : Nat) (es : List Val) : MState :=
  { st with slots := setAt st.slots idx (.list (curList st idx ++ es)) }

theorem curList_appendAt (st : MState) (idx : Nat) (es : List Val) (hl : idx < st.slots.length) :
    curList (appendAt st idx es) idx = curList st idx ++ es := by
  simp only [curList, appendAt]
  rw [setAt_getD]; simp [hl]

theorem appendAt_appendAt (st : MState) (idx : Nat) (a b : List Val) (hl : idx < st.slots.length) :
    appendAt (appendAt st idx a) idx b = appendAt st idx (a ++ b) := by
  have := curList_appendAt st idx a hl
  simp only [appendAt] at this ⊢
  simp only [curList] at this ⊢
  rw [this, setAt_setAt_s, List.append_assoc]

theorem wf_appendAt (d : MsgD) (st : MState) (idx : Nat) (f : FieldD) (es : List Val)
    (hf : d.fields[idx]? = some f) (hr : f.repeated = true) (hw : WfState d st) : WfState d (appendAt st idx es) :=
  wf_setAt d st idx f _ hf hw (repOk_list f _ hr)

/-- **a record of a repeated scalar field appends its elements and does nothing else** -/
theorem applyField_repeated (S : Schema) (rec : Loader) (d : MsgD) (st : MState) (pf : PField) (idx : Nat) (f : FieldD)
    (v : Val) (ht : Targets d pf idx f) (hr : IsRepScalar f) (hw : WfState d st)
    (hv : decodeValue S rec f pf = .ok v) :
    applyField S rec d st pf = .ok (appendAt st idx (elemsOf v)) := by
  obtain ⟨hrep, hpk, hgrp⟩ := hr
  obtain ⟨hm, hmsg⟩ := packed_not_map_msg f.ty hpk
  have hf := ht.2.1
  rw [applyField_targets S rec d st pf idx f ht, hv]
  simp only [bind_ok]
  have hh : hidden f idx st.cur = false := by unfold hidden; rw [hgrp]
  obtain ⟨xs, hx, hx2⟩ := prepCurrent_repeated_list S d st idx f hf hw hrep hm hmsg
  have hcl : curList st idx = xs := by
    unfold curList
    rcases hx2 hh with ⟨e1, e2⟩ | e1 <;> rw [e1]
    · exact e2.symm
  have hst1 : prepCurrent S d st idx f
      = { st with slots := setAt st.slots idx (materialize S f (st.slots.getD idx .ph)) } := by
    rcases prepCurrent_cases S d st idx f with ⟨h1, _⟩ | ⟨_, e⟩
    · rw [hh] at h1; simp at h1
    · exact e
  have hm' : (f.ty == PType.map) = false := by simpa using hm
  unfold storeValue
  dsimp only
  simp only [hm', Bool.false_eq_true, if_false]
  rw [hx]
  dsimp only
  have key : ∀ ys : List Val,
      ({ prepCurrent S d st idx f with slots := setAt (prepCurrent S d st idx f).slots idx (.list (xs ++ ys)) } : MState)
        = appendAt st idx ys := by
    intro ys
    rw [hst1]
    simp only [appendAt, hcl, setAt_setAt_s]
  cases v <;> simp only [elemsOf] <;> rw [← key]

/-- the elements a sequence of records of one repeated field carries -/
def elemsOfRecs (S : Schema) (rec : Loader) (f : FieldD) : List PField → R (List Val)
  | [] => .ok []
  | pf :: pfs =>
    (decodeValue S rec f pf).bind fun v => (elemsOfRecs S rec f pfs).bind fun vs => .ok (elemsOf v ++ vs)

theorem foldFields_repeated_from (S : Schema) (rec : Loader) (d : MsgD) (idx : Nat) (f : FieldD)
    (hr : IsRepScalar f) (pfs : List PField) (hall : ∀ pf ∈ pfs, Targets d pf idx f)
    (st : MState) (hw : WfState d st) (a es : List Val) (he : elemsOfRecs S rec f pfs = .ok es) :
    foldFields S rec d (appendAt st idx a) pfs = .ok (appendAt st idx (a ++ es)) := by
  induction pfs generalizing a es with
  | nil => simp only [elemsOfRecs] at he; injection he with he; subst he; simp [foldFields]
  | cons pf pfs ih =>
    have ht := hall pf (by simp)
    have hf := ht.2.1
    have hl := idx_lt_of_wf d st idx f hf hw
    simp only [elemsOfRecs] at he
    cases hv : decodeValue S rec f pf with
    | error e => rw [hv] at he; simp at he
    | ok v =>
      rw [hv] at he; simp only [bind_ok] at he
      cases hrest : elemsOfRecs S rec f pfs with
      | error e => rw [hrest] at he; simp at he
      | ok vs =>
        rw [hrest] at he; simp only [bind_ok] at he
        injection he with he; subst he
        rw [foldFields, applyField_repeated S rec d _ pf idx f v ht hr (wf_appendAt d st idx f a hf hr.1 hw) hv]
        simp only [bind_ok]
        rw [appendAt_appendAt st idx a _ hl, ih (fun x hx => hall x (by simp [hx])) (a ++ elemsOf v) vs hrest,
          List.append_assoc]

/-- **a non-empty run of records of one repeated scalar field appends exactly the
    concatenation of their elements** -/
theorem foldFields_repeated (S : Schema) (rec : Loader) (d : MsgD) (idx : Nat) (f : FieldD)
    (hr : IsRepScalar f) (pfs : List PField) (hne : pfs ≠ []) (hall : ∀ pf ∈ pfs, Targets d pf idx f)
    (st : MState) (hw : WfState d st) (es : List Val) (he : elemsOfRecs S rec f pfs = .ok es) :
    foldFields S rec d st pfs = .ok (appendAt st idx es) := by
  cases pfs with
  | nil => exact absurd rfl hne
  | cons pf pfs =>
    have ht := hall pf (by simp)
    simp only [elemsOfRecs] at he
    cases hv : decodeValue S rec f pf with
    | error e => rw [hv] at he; simp at he
    | ok v =>
      rw [hv] at he; simp only [bind_ok] at he
      cases hrest : elemsOfRecs S rec f pfs with
      | error e => rw [hrest] at he; simp at he
      | ok vs =>
        rw [hrest] at he; simp only [bind_ok] at he
        injection he with he; subst he
        rw [foldFields, applyField_repeated S rec d st pf idx f v ht hr hw hv]
        simp only [bind_ok]
        exact foldFields_repeated_from S rec d idx f hr pfs (fun x hx => hall x (by simp [hx])) st hw _ vs hrest

/-! ### singular scalars and oneof members -/

/-- **a record of a singular scalar field leaves exactly its value in the field** -/
theorem applyField_singular (S : Schema) (rec : Loader) (d : MsgD) (st st' : MState) (pf : PField) (idx : Nat)
    (f : FieldD) (v : Val) (ht : Targets d pf idx f) (hrep : f.repeated = false) (hm : f.ty ≠ .map)
    (hmsg : f.ty ≠ .message) (hw : WfState d st) (hv : decodeValue S rec f pf = .ok v)
    (h : applyField S rec d st pf = .ok st') : st'.slots.getD idx .ph = v := by
  have hf := ht.2.1
  have hsc := decodeValue_scalar S rec f pf v hrep ht.2.2 hm hmsg hv
  rw [applyField_targets S rec d st pf idx f ht, hv] at h
  simp only [bind_ok] at h
  have hw1 := wf_prepCurrent S d st idx f hf hw
  have hl1 := idx_lt_of_wf d _ idx f hf hw1
  rcases storeValue_cases S d _ st' idx f v h with ⟨hm2, _⟩ | ⟨_, xs, hc, _⟩ | ⟨_, _, e⟩
  · exact absurd hm2 hm
  · have hok := hw1.2 idx f hf
    rw [hc] at hok
    have hm' : (f.ty == PType.map) = false := by simpa using hm
    have hmsg' : (f.ty == PType.message) = false := by simpa using hmsg
    simp [repOk, hm', hmsg', hrep, isListVal] at hok
  · rw [e, setAttr_slots_getD S d.fields _ idx v f hf idx]
    simp [hl1, scalarVal_stored S v hsc]

/-- **a record of a oneof member leaves that member selected**, whatever was selected before -/
theorem applyField_selects (S : Schema) (rec : Loader) (d : MsgD) (st st' : MState) (pf : PField) (idx : Nat)
    (f : FieldD) (g : Nat) (ht : Targets d pf idx f) (hg : f.group = some g) (hgl : g < st.cur.length)
    (h : applyField S rec d st pf = .ok st') : st'.cur.getD g Option.none = some idx := by
  have hf := ht.2.1
  rw [applyField_targets S rec d st pf idx f ht] at h
  cases hv : decodeValue S rec f pf with
  | error e => rw [hv] at h; simp at h
  | ok v =>
    rw [hv] at h; simp only [bind_ok] at h
    have h1 : (prepCurrent S d st idx f).cur.getD g Option.none = some idx := by
      rcases prepCurrent_cases S d st idx f with ⟨_, e⟩ | ⟨hh, e⟩ <;> rw [e]
      · rw [setAttr_cur_getD S d.fields st idx _ f hf g]; simp [hg, hgl]
      · unfold hidden at hh; rw [hg] at hh; simpa using hh
    have hl1 : g < (prepCurrent S d st idx f).cur.length := by rw [(prepCurrent_lengths S d st idx f).2]; exact hgl
    rcases storeValue_cases S d _ st' idx f v h with ⟨_, x, e⟩ | ⟨_, xs, _, e⟩ | ⟨_, _, e⟩ <;> rw [e]
    · exact h1
    · exact h1
    · rw [setAttr_cur_getD S d.fields _ idx v f hf g]; simp [hg, hl1]

end Bp
