import BpModel.All
import BpProofs.SpecPad
import BpProofs.SpecPack
/-
  C02 helper lemmas, part 7: the packed payload decoder element by element (elements
  written with any well-shaped varints / fixed-width chunks), and records that mean the same.
-/
namespace Bp
open Gen Spec

/-! ### packed payloads -/

theorem decodePackedFuel_fuel (t : PType) (f g : Nat) (p : Bytes) (hf : p.length < f) (hg : p.length < g) :
    decodePackedFuel t f p = decodePackedFuel t g p := by
  induction f generalizing g p with
  | zero => omega
  | succ f ih =>
    cases g with
    | zero => omega
    | succ g =>
      cases p with
      | nil => rfl
      | cons b bs =>
        simp only [List.length_cons] at hf hg
        simp only [decodePackedFuel]
        have d4 : ((b :: bs).drop 4).length ≤ bs.length := by simp [List.length_drop]
        have d8 : ((b :: bs).drop 8).length ≤ bs.length := by simp [List.length_drop]
        split
        · rw [ih g _ (by omega) (by omega)]
        · split
          · rw [ih g _ (by omega) (by omega)]
          · cases hlv : loadVarint (b :: bs) with
            | error e => rfl
            | ok r =>
              obtain ⟨n, k⟩ := r
              have hk := loadVarint_consumed _ _ _ hlv
              have dk : ((b :: bs).drop k).length ≤ bs.length := by
                simp only [List.length_drop, List.length_cons]; omega
              simp only []
              rw [ih g _ (by omega) (by omega)]

/-- byte width of a fixed-width packable type (none: a varint type) -/
def elemWidth (t : PType) : Option Nat :=
  if t == .float || t == .fixed32 || t == .sfixed32 then some 4
  else if t == .double || t == .fixed64 || t == .sfixed64 then some 8
  else Option.none

/-- one element of a packed payload: 4 / 8 bytes, or any well-shaped varint of ≤ 10 bytes -/
def ValidElem (t : PType) (e : Bytes) : Prop :=
  match elemWidth t with
  | some w => e.length = w
  | Option.none => varintShape e = true ∧ e.length ≤ 10

def decodeElem (t : PType) (e : Bytes) : R Val :=
  match elemWidth t with
  | some _ => postFixed t e
  | Option.none => .ok (postVarint t (varintValue e % 2 ^ 64))

def decodeElems (t : PType) : List Bytes → R (List Val)
  | [] => .ok []
  | e :: es => (decodeElem t e).bind fun v => (decodeElems t es).bind fun vs => .ok (v :: vs)

theorem validElem_ne_nil (t : PType) (e : Bytes) (h : ValidElem t e) : e ≠ [] := by
  intro he; subst he
  unfold ValidElem elemWidth at h
  split at h
  · rename_i w hw
    split at hw
    · injection hw with hw; subst hw; simp at h
    · split at hw
      · injection hw with hw; subst hw; simp at h
      · simp at hw
  · simp [varintShape] at h

theorem decodePacked_nil (t : PType) : decodePacked t [] = .ok [] := rfl

/-- one step of the packed decoder on a non-empty payload -/
theorem decodePacked_cons (t : PType) (b : Nat) (bs : Bytes) :
    decodePacked t (b :: bs) =
      if t == .float || t == .fixed32 || t == .sfixed32 then
        (postFixed t ((b :: bs).take 4)).bind fun v => (decodePacked t ((b :: bs).drop 4)).bind fun vs => .ok (v :: vs)
      else if t == .double || t == .fixed64 || t == .sfixed64 then
        (postFixed t ((b :: bs).take 8)).bind fun v => (decodePacked t ((b :: bs).drop 8)).bind fun vs => .ok (v :: vs)
      else
        match loadVarint (b :: bs) with
        | .error e => .error e
        | .ok (n, k) => (decodePacked t ((b :: bs).drop k)).bind fun vs => .ok (postVarint t n :: vs) := by
  have hfuel : ∀ k, 0 < k →
      decodePackedFuel t (b :: bs).length ((b :: bs).drop k) = decodePacked t ((b :: bs).drop k) := by
    intro k hk
    unfold decodePacked
    apply decodePackedFuel_fuel
    · simp only [List.length_drop, List.length_cons]; omega
    · omega
  show decodePackedFuel t ((b :: bs).length + 1) (b :: bs) = _
  simp only [decodePackedFuel]
  split
  · rw [hfuel 4 (by omega)]
  · split
    · rw [hfuel 8 (by omega)]
    · cases hlv : loadVarint (b :: bs) with
      | error e => rfl
      | ok r =>
        obtain ⟨n, k⟩ := r
        have hk := loadVarint_consumed _ _ _ hlv
        simp only []
        rw [hfuel k hk.1]

/-- the packed decoder takes one element off the front, however its varint is padded -/
theorem decodePacked_cons_elem (t : PType) (e rest : Bytes) (h : ValidElem t e) :
    decodePacked t (e ++ rest)
      = (decodeElem t e).bind fun v => (decodePacked t rest).bind fun vs => .ok (v :: vs) := by
  have hne := validElem_ne_nil t e h
  cases e with
  | nil => exact absurd rfl hne
  | cons b e' =>
    rw [List.cons_append, decodePacked_cons]
    have back : b :: (e' ++ rest) = (b :: e') ++ rest := rfl
    unfold ValidElem at h
    unfold decodeElem
    unfold elemWidth at h ⊢
    split
    · rename_i h4
      simp only [h4, if_true] at h ⊢
      rw [back, ← h, take_len_append, drop_len_append]
    · rename_i h4
      split
      · rename_i h8
        simp only [h4, h8, if_true, Bool.false_eq_true, if_false] at h ⊢
        rw [back, ← h, take_len_append, drop_len_append]
      · rename_i h8
        simp only [h4, h8, Bool.false_eq_true, if_false] at h ⊢
        rw [back, loadVarint_shape (b :: e') rest h.1 h.2]
        simp only [drop_len_append, bind_ok]

/-- **a packed payload decodes to the list of its elements** (each written minimally or padded) -/
theorem decodePacked_elems (t : PType) (es : List Bytes) (hv : ∀ e ∈ es, ValidElem t e) :
    decodePacked t es.flatten = decodeElems t es := by
  induction es with
  | nil => rfl
  | cons e es ih =>
    simp only [List.flatten_cons, decodeElems]
    rw [decodePacked_cons_elem t e _ (hv e (by simp)), ih (fun x hx => hv x (by simp [hx]))]

theorem decodeElems_append (t : PType) (as bs : List Bytes) :
    decodeElems t (as ++ bs) = (decodeElems t as).bind fun xs => (decodeElems t bs).bind fun ys => .ok (xs ++ ys) := by
  induction as with
  | nil => simp only [List.nil_append, decodeElems, bind_ok]; cases decodeElems t bs <;> rfl
  | cons a as ih =>
    simp only [List.cons_append, decodeElems, ih]
    cases decodeElem t a with
    | error e => rfl
    | ok v =>
      simp only [bind_ok]
      cases decodeElems t as with
      | error e => rfl
      | ok xs =>
        simp only [bind_ok]
        cases decodeElems t bs <;> rfl

end Bp
