import BpModel.All
import BpProofs.SpecCore
import BpProofs.SpecWf
/-
  C02 helper lemmas, part 6: records written with ANY well-shaped varints (minimal or
  padded, up to 10 bytes) for tag, length and value are framed to the same record; records
  that mean the same decode to the same message.
-/
namespace Bp
open Gen Spec

theorem drop_len_append (a b : Bytes) : (a ++ b).drop a.length = b := by simp
theorem take_len_append (a b : Bytes) : (a ++ b).take a.length = a := by simp

/-- a VARINT record whose tag and value are written with any well-shaped varints -/
theorem loadField_varint_rec (tg vl rest : Bytes) (hs : varintShape tg = true) (hl : tg.length ≤ 10)
    (hs' : varintShape vl = true) (hl' : vl.length ≤ 10)
    (hwt : varintValue tg % 2 ^ 64 % 8 = 0) (hnum : varintValue tg % 2 ^ 64 / 8 ≠ 0) :
    loadField (tg ++ vl ++ rest)
      = .ok ({ num := varintValue tg % 2 ^ 64 / 8, wt := 0, vint := varintValue vl % 2 ^ 64, payload := [],
               raw := tg ++ vl }, rest) := by
  unfold loadField
  rw [List.append_assoc, loadVarint_shape tg (vl ++ rest) hs hl]
  have e0 : ((varintValue tg % 2 ^ 64 / 8 == 0) = false) := by simpa using hnum
  simp only [e0, Bool.false_eq_true, if_false]
  rw [drop_len_append]
  unfold loadPayload
  rw [hwt]
  simp only [wireVarint, beq_self_eq_true, if_true]
  rw [loadVarint_shape vl rest hs' hl']
  simp only []
  have e1 : (tg ++ (vl ++ rest)).take (tg.length + vl.length) = tg ++ vl := by
    rw [← List.append_assoc, ← List.length_append, take_len_append]
  have e2 : (tg ++ (vl ++ rest)).drop (tg.length + vl.length) = rest := by
    rw [← List.append_assoc, ← List.length_append, drop_len_append]
  rw [e1, e2]

/-- a LEN record whose tag and length are written with any well-shaped varints -/
theorem loadField_len_rec (tg ln p rest : Bytes) (hs : varintShape tg = true) (hl : tg.length ≤ 10)
    (hs' : varintShape ln = true) (hl' : ln.length ≤ 10)
    (hwt : varintValue tg % 2 ^ 64 % 8 = 2) (hnum : varintValue tg % 2 ^ 64 / 8 ≠ 0)
    (hlen : varintValue ln % 2 ^ 64 = p.length) :
    loadField (tg ++ ln ++ p ++ rest)
      = .ok ({ num := varintValue tg % 2 ^ 64 / 8, wt := 2, vint := 0, payload := p, raw := tg ++ ln ++ p }, rest) := by
  unfold loadField
  have ea : tg ++ ln ++ p ++ rest = tg ++ (ln ++ (p ++ rest)) := by simp [List.append_assoc]
  rw [ea, loadVarint_shape tg _ hs hl]
  have e0 : ((varintValue tg % 2 ^ 64 / 8 == 0) = false) := by simpa using hnum
  simp only [e0, Bool.false_eq_true, if_false]
  rw [drop_len_append]
  unfold loadPayload
  rw [hwt]
  simp only [wireVarint, wireFixed64, wireLenDelim, beq_self_eq_true, if_true]
  rw [loadVarint_shape ln (p ++ rest) hs' hl', hlen]
  simp only []
  rw [drop_len_append, take_len_append]
  have e3 : ¬ (p ++ rest).length < p.length := by simp
  have e1 : (tg ++ (ln ++ (p ++ rest))).take (tg.length + (ln.length + p.length)) = tg ++ ln ++ p := by
    have : tg ++ (ln ++ (p ++ rest)) = (tg ++ ln ++ p) ++ rest := by simp [List.append_assoc]
    rw [this, ← List.length_append, ← List.length_append, ← List.append_assoc, take_len_append]
  have e2 : (tg ++ (ln ++ (p ++ rest))).drop (tg.length + (ln.length + p.length)) = rest := by
    have : tg ++ (ln ++ (p ++ rest)) = (tg ++ ln ++ p) ++ rest := by simp [List.append_assoc]
    rw [this, ← List.length_append, ← List.length_append, ← List.append_assoc, drop_len_append]
  have c1 : ((2 : Nat) == 0) = false := rfl
  have c2 : ((2 : Nat) == 1) = false := rfl
  simp only [c1, c2, Bool.false_eq_true, e3, if_false, e1, e2]

/-- an I64 / I32 record whose tag is written with any well-shaped varint -/
theorem loadField_fixed_rec (tg p rest : Bytes) (w : Nat) (hs : varintShape tg = true) (hl : tg.length ≤ 10)
    (hwt : (varintValue tg % 2 ^ 64 % 8 = 1 ∧ w = 8) ∨ (varintValue tg % 2 ^ 64 % 8 = 5 ∧ w = 4))
    (hnum : varintValue tg % 2 ^ 64 / 8 ≠ 0) (hlen : p.length = w) :
    loadField (tg ++ p ++ rest)
      = .ok ({ num := varintValue tg % 2 ^ 64 / 8, wt := varintValue tg % 2 ^ 64 % 8, vint := 0, payload := p,
               raw := tg ++ p }, rest) := by
  unfold loadField
  rw [List.append_assoc, loadVarint_shape tg _ hs hl]
  have e0 : ((varintValue tg % 2 ^ 64 / 8 == 0) = false) := by simpa using hnum
  simp only [e0, Bool.false_eq_true, if_false]
  rw [drop_len_append]
  have e3 : ¬ (p ++ rest).length < p.length := by simp
  have e1 : (tg ++ (p ++ rest)).take (tg.length + p.length) = tg ++ p := by
    rw [← List.append_assoc, ← List.length_append, take_len_append]
  have e2 : (tg ++ (p ++ rest)).drop (tg.length + p.length) = rest := by
    rw [← List.append_assoc, ← List.length_append, drop_len_append]
  unfold loadPayload
  rcases hwt with ⟨h1, hw⟩ | ⟨h1, hw⟩
  · subst hw
    rw [h1]
    have t8 : (p ++ rest).take 8 = p := by rw [← hlen, take_len_append]
    have l8 : ¬ (p ++ rest).length < 8 := by rw [← hlen]; exact e3
    have e1' : (tg ++ (p ++ rest)).take (tg.length + 8) = tg ++ p := by rw [← hlen]; exact e1
    have e2' : (tg ++ (p ++ rest)).drop (tg.length + 8) = rest := by rw [← hlen]; exact e2
    have c1 : ((1 : Nat) == wireVarint) = false := rfl
    have c2 : ((1 : Nat) == wireFixed64) = true := rfl
    simp only [c1, c2, Bool.false_eq_true, if_false, if_true, l8, t8, e1', e2']
  · subst hw
    rw [h1]
    have t4 : (p ++ rest).take 4 = p := by rw [← hlen, take_len_append]
    have l4 : ¬ (p ++ rest).length < 4 := by rw [← hlen]; exact e3
    have e1' : (tg ++ (p ++ rest)).take (tg.length + 4) = tg ++ p := by rw [← hlen]; exact e1
    have e2' : (tg ++ (p ++ rest)).drop (tg.length + 4) = rest := by rw [← hlen]; exact e2
    have c1 : ((5 : Nat) == wireVarint) = false := rfl
    have c2 : ((5 : Nat) == wireFixed64) = false := rfl
    have c3 : ((5 : Nat) == wireLenDelim) = false := rfl
    have c4 : ((5 : Nat) == wireFixed32) = true := rfl
    simp only [c1, c2, c3, c4, Bool.false_eq_true, if_false, if_true, l4, t4, e1', e2']

end Bp
