import BpModel.All
import BpProofs.SpecWf
/-
  C02 helper lemmas, part 4: the slot typing invariant `WfState` (repeated scalar slots hold
  PLACEHOLDER or a list, singular scalar slots never hold a list), its preservation by every
  decode step, and what a record does to a repeated / a singular scalar field.
-/
namespace Bp
open Gen

def repOk (f : FieldD) (v : Val) : Bool :=
  if f.ty == .map || f.ty == .message then true
  else if f.repeated then isPhVal v || isListVal v
  else !isListVal v

/-- as many slots as declared fields, each holding a value of the right shape -/
def WfState (d : MsgD) (st : MState) : Prop :=
  st.slots.length = d.fields.length ∧ ∀ i f, d.fields[i]? = some f → repOk f (st.slots.getD i .ph) = true

theorem repOk_ph (f : FieldD) : repOk f .ph = true := by
  unfold repOk; repeat' split
  all_goals rfl

theorem repOk_list (f : FieldD) (xs : List Val) (h : f.repeated = true) : repOk f (.list xs) = true := by
  unfold repOk; split
  · rfl
  · simp [h, isListVal]

theorem scalarDef_ne_list (t : PType) : scalarDef t ≠ .list := by cases t <;> simp [scalarDef]
theorem msgKindDef_ne_list (k : MsgKind) : msgKindDef k ≠ .list := by cases k <;> simp [msgKindDef]

theorem defaultOfKind_notList (S : Schema) (k : DefKind) (h : k ≠ .list) : isListVal (defaultOfKind S k) = false := by
  cases k <;> first | rfl | exact absurd rfl h

theorem repOk_default (S : Schema) (f : FieldD) : repOk f (defaultOf S f) = true := by
  unfold repOk
  split
  · rfl
  · rename_i h1
    simp only [Bool.or_eq_true, beq_iff_eq, not_or] at h1
    unfold defaultOf FieldD.defKind
    split
    · rename_i hr; simp [hr, defaultOfKind, isListVal]
    · rename_i hr
      have hm : (f.ty == PType.map) = false := by simpa using h1.1
      have hmsg : (f.ty == PType.message) = false := by simpa using h1.2
      simp only [hr, hm, hmsg, Bool.false_eq_true, if_false]
      split
      · simp [defaultOfKind, isListVal]
      · rw [defaultOfKind_notList S _ (scalarDef_ne_list _)]; rfl

theorem repOk_storedVal (S : Schema) (f : FieldD) (v : Val) : repOk f (storedVal S v) = repOk f v := by
  cases v <;> try rfl
  simp only [storedVal]; split <;> rfl

theorem repOk_materialize (S : Schema) (f : FieldD) (v : Val) (h : repOk f v = true) :
    repOk f (materialize S f v) = true := by
  cases v <;> first | exact h | exact repOk_default S f

theorem wf_setAt (d : MsgD) (st : MState) (idx : Nat) (f : FieldD) (x : Val) (hf : d.fields[idx]? = some f)
    (hw : WfState d st) (hx : repOk f x = true) : WfState d { st with slots := setAt st.slots idx x } := by
  refine ⟨by simp [setAt_length, hw.1], ?_⟩
  intro i fi hfi
  show repOk fi ((setAt st.slots idx x).getD i .ph) = true
  rw [setAt_getD]
  split
  · rename_i hh
    obtain ⟨e, _⟩ := hh; subst e
    rw [hf] at hfi; injection hfi with e; subst e; exact hx
  · exact hw.2 i fi hfi

theorem wf_setAttr (S : Schema) (d : MsgD) (st : MState) (idx : Nat) (f : FieldD) (x : Val)
    (hf : d.fields[idx]? = some f) (hw : WfState d st) (hx : repOk f x = true) :
    WfState d (setAttr S d.fields st idx x) := by
  refine ⟨by rw [setAttr_slots_length]; exact hw.1, ?_⟩
  intro i fi hfi
  rw [setAttr_slots_getD S d.fields st idx x f hf i]
  split
  · rename_i hh
    obtain ⟨e, _⟩ := hh; subst e
    rw [hf] at hfi; injection hfi with e; subst e
    rw [repOk_storedVal]; exact hx
  · split
    · exact repOk_ph fi
    · exact hw.2 i fi hfi

theorem wf_prepCurrent (S : Schema) (d : MsgD) (st : MState) (idx : Nat) (f : FieldD)
    (hf : d.fields[idx]? = some f) (hw : WfState d st) : WfState d (prepCurrent S d st idx f) := by
  rcases prepCurrent_cases S d st idx f with ⟨_, e⟩ | ⟨_, e⟩ <;> rw [e]
  · exact wf_setAttr S d st idx f _ hf hw (repOk_default S f)
  · exact wf_setAt d st idx f _ hf hw (repOk_materialize S f _ (hw.2 idx f hf))

/-- slot `idx` right after the `current = getattr(...)` step -/
theorem prepCurrent_slot (S : Schema) (d : MsgD) (st : MState) (idx : Nat) (f : FieldD)
    (hf : d.fields[idx]? = some f) (hl : idx < st.slots.length) :
    (prepCurrent S d st idx f).slots.getD idx .ph
      = if hidden f idx st.cur then storedVal S (defaultOf S f) else materialize S f (st.slots.getD idx .ph) := by
  rcases prepCurrent_cases S d st idx f with ⟨hh, e⟩ | ⟨hh, e⟩ <;> rw [e, hh]
  · rw [setAttr_slots_getD S d.fields st idx _ f hf idx]; simp [hl]
  · show (setAt st.slots idx _).getD idx .ph = _
    rw [setAt_getD]; simp [hl]

theorem idx_lt_of_wf (d : MsgD) (st : MState) (idx : Nat) (f : FieldD) (hf : d.fields[idx]? = some f)
    (hw : WfState d st) : idx < st.slots.length := by
  rw [hw.1]
  have := List.getElem?_eq_some_iff.mp hf
  exact this.1

/-- for a repeated scalar field the current value is a list once it has been read -/
theorem prepCurrent_repeated_list (S : Schema) (d : MsgD) (st : MState) (idx : Nat) (f : FieldD)
    (hf : d.fields[idx]? = some f) (hw : WfState d st) (hr : f.repeated = true)
    (hm : f.ty ≠ .map) (hmsg : f.ty ≠ .message) :
    ∃ xs, (prepCurrent S d st idx f).slots.getD idx .ph = .list xs
      ∧ (hidden f idx st.cur = false → (st.slots.getD idx .ph = .ph ∧ xs = []) ∨ st.slots.getD idx .ph = .list xs) := by
  have hl := idx_lt_of_wf d st idx f hf hw
  rw [prepCurrent_slot S d st idx f hf hl]
  have hdef : defaultOf S f = .list [] := by
    unfold defaultOf FieldD.defKind; simp [hr, defaultOfKind]
  cases hh : hidden f idx st.cur with
  | true => exact ⟨[], by simp [hdef, storedVal], fun h => by simp at h⟩
  | false =>
    have hok := hw.2 idx f hf
    unfold repOk at hok
    have hm' : (f.ty == PType.map) = false := by simpa using hm
    have hmsg' : (f.ty == PType.message) = false := by simpa using hmsg
    simp only [hm', hmsg', Bool.or_self, Bool.false_eq_true, if_false, hr, if_true] at hok
    cases hv : st.slots.getD idx .ph with
    | ph => exact ⟨[], by simp [materialize, hdef], fun _ => Or.inl ⟨rfl, rfl⟩⟩
    | list xs => exact ⟨xs, by simp [materialize], fun _ => Or.inr rfl⟩
    | _ => rw [hv] at hok; simp [isPhVal, isListVal] at hok

/-- **every decode step keeps the slot typing invariant** -/
theorem applyField_wf (S : Schema) (rec : Loader) (d : MsgD) (st st' : MState) (pf : PField)
    (hw : WfState d st) (h : applyField S rec d st pf = .ok st') : WfState d st' := by
  rcases record_cases d pf with hu | ⟨idx, f, ht⟩ | ⟨idx, h1, h2⟩
  · rw [applyField_unknown S rec d st pf hu] at h
    injection h with h; subst h; exact hw
  · rw [applyField_targets S rec d st pf idx f ht] at h
    obtain ⟨_, hf, hfit⟩ := ht
    cases hv : decodeValue S rec f pf with
    | error e => rw [hv] at h; simp at h
    | ok v =>
      rw [hv] at h; simp only [bind_ok] at h
      have hw1 := wf_prepCurrent S d st idx f hf hw
      rcases storeValue_cases S d _ st' idx f v h with ⟨hm, x, e⟩ | ⟨hm, xs, hc, e⟩ | ⟨hm, hc, e⟩ <;> rw [e]
      · exact wf_setAt d _ idx f x hf hw1 (by unfold repOk; simp [hm])
      · apply wf_setAt d _ idx f _ hf hw1
        have hok := hw1.2 idx f hf
        rw [hc] at hok
        unfold repOk at hok ⊢
        split
        · rfl
        · rename_i h1
          simp only [h1, Bool.false_eq_true, if_false] at hok
          split
          · simp [isListVal]
          · rename_i hr; simp only [hr, if_false, Bool.false_eq_true] at hok; simp [isListVal] at hok
      · apply wf_setAttr S d _ idx f v hf hw1
        by_cases hmsg : f.ty = .message
        · unfold repOk; simp [hmsg]
        · cases hr : f.repeated with
          | true =>
            obtain ⟨xs, hx, _⟩ := prepCurrent_repeated_list S d st idx f hf hw hr hm hmsg
            rw [hx] at hc; simp [isListVal] at hc
          | false =>
            have := decodeValue_notList S rec f pf v hr hfit hm hmsg hv
            unfold repOk
            have hm' : (f.ty == PType.map) = false := by simpa using hm
            have hmsg' : (f.ty == PType.message) = false := by simpa using hmsg
            simp [hm', hmsg', hr, this]
  · rw [applyField_badtable S rec d st pf idx h1 h2] at h; simp at h

theorem foldFields_wf (S : Schema) (rec : Loader) (d : MsgD) (pfs : List PField) (st st' : MState)
    (hw : WfState d st) (h : foldFields S rec d st pfs = .ok st') : WfState d st' := by
  induction pfs generalizing st with
  | nil => rw [foldFields] at h; injection h with h; subst h; exact hw
  | cons pf pfs ih =>
    rw [foldFields] at h
    cases ha : applyField S rec d st pf with
    | error e => rw [ha] at h; simp at h
    | ok s1 =>
      rw [ha] at h; simp only [bind_ok] at h
      exact ih s1 (applyField_wf S rec d st s1 pf hw ha) h

/-- schema condition: a repeated field is not also marked proto3-optional (no valid .proto is) -/
def NoRepeatedOptional (d : MsgD) : Prop := ∀ f ∈ d.fields, f.repeated = true → f.optional = false

instance (d : MsgD) : Decidable (NoRepeatedOptional d) := by unfold NoRepeatedOptional; infer_instance

theorem freshState_wf (d : MsgD) (hd : NoRepeatedOptional d) : WfState d (freshState d) := by
  refine ⟨by simp [freshState], ?_⟩
  intro i f hf
  simp only [freshState, List.getD_eq_getElem?_getD, List.getElem?_map, hf, Option.map_some, Option.getD_some]
  split
  · -- None in an optional slot
    rename_i ho
    have hmem : f ∈ d.fields := List.mem_of_getElem? hf
    unfold repOk
    split
    · rfl
    · split
      · rename_i hr; have := hd f hmem hr; rw [ho] at this; simp at this
      · rfl
  · exact repOk_ph f

end Bp
