import BpModel.All
import BpProofs.Ops
/-
  C02 helper lemmas, part 2: pointwise descriptions of what `__setattr__`, the default
  materialisation and the store step of `Message.load` do to the slots and to the oneof
  selection (used by the last-wins, packing and reordering theorems).
-/
namespace Bp
open Gen

/-- oneof group of the k-th declared field (none: no such field, or not in a oneof) -/
def grp (fs : List FieldD) (k : Nat) : Option Nat := (fs[k]?).bind (·.group)

theorem grp_of (fs : List FieldD) (k : Nat) (f : FieldD) (h : fs[k]? = some f) : grp fs k = f.group := by
  simp [grp, h]

theorem setAt_length (xs : List Val) (i : Nat) (v : Val) : (setAt xs i v).length = xs.length := by
  simp [setAt]

theorem setAt_getD (xs : List Val) (i k : Nat) (v : Val) :
    (setAt xs i v).getD k .ph = if k = i ∧ i < xs.length then v else xs.getD k .ph := by
  unfold setAt
  simp only [List.getD_eq_getElem?_getD, List.getElem?_set]
  by_cases h : i = k
  · subst h
    by_cases hl : i < xs.length
    · simp [hl]
    · simp [hl]
  · have : ¬ (k = i ∧ i < xs.length) := fun hh => h hh.1.symm
    simp [h, this]

theorem setAt_setAt_s (xs : List Val) (i : Nat) (a b : Val) : setAt (setAt xs i a) i b = setAt xs i b := by
  simp [setAt]

theorem resetGroup_length (g idx : Nat) (fs : List FieldD) (ss : List Val) (j : Nat) :
    (resetGroup g idx fs ss j).length = ss.length := by
  induction fs generalizing ss j with
  | nil => cases ss <;> simp [resetGroup]
  | cons f fs ih =>
    cases ss with
    | nil => simp [resetGroup]
    | cons s ss => simp [resetGroup, ih]

theorem resetGroup_getD (g idx : Nat) (fs : List FieldD) (ss : List Val) (j k : Nat) :
    (resetGroup g idx fs ss j).getD k .ph
      = if grp fs k = some g ∧ j + k ≠ idx then Val.ph else ss.getD k .ph := by
  induction fs generalizing ss j k with
  | nil =>
    have : grp [] k = Option.none := by simp [grp]
    cases ss <;> simp [resetGroup, this]
  | cons f fs ih =>
    cases ss with
    | nil => simp [resetGroup]
    | cons s ss =>
      cases k with
      | zero =>
        have : grp (f :: fs) 0 = f.group := by simp [grp]
        simp only [resetGroup, List.getD_cons_zero, this, Nat.add_zero]
        by_cases h1 : f.group = some g
        · by_cases h2 : j = idx
          · simp [h1, h2]
          · simp [h1, h2]
        · simp [h1]
      | succ k =>
        have : grp (f :: fs) (k + 1) = grp fs k := by simp [grp]
        simp only [resetGroup, List.getD_cons_succ, this]
        rw [ih ss (j + 1) k]
        have e : j + 1 + k = j + (k + 1) := by omega
        rw [e]

/-- the value `__setattr__` actually stores (an empty-class message is marked on the wire) -/
def storedVal (S : Schema) : Val → Val
  | .msg c sl ow unk cur => if (fieldsOf S c).isEmpty then Val.msg c sl true unk cur else .msg c sl ow unk cur
  | v => v

theorem setAttr_eq (S : Schema) (fs : List FieldD) (st : MState) (idx : Nat) (v : Val) :
    setAttr S fs st idx v =
      match fs[idx]? with
      | Option.none => st
      | some f =>
        match f.group with
        | Option.none => { st with onWire := true, slots := setAt st.slots idx (storedVal S v) }
        | some g => { st with onWire := true, cur := st.cur.set g (some idx),
                              slots := setAt (resetGroup g idx fs st.slots 0) idx (storedVal S v) } := by
  unfold setAttr storedVal
  cases v <;> rfl

theorem setAttr_slots_length (S : Schema) (fs : List FieldD) (st : MState) (idx : Nat) (v : Val) :
    (setAttr S fs st idx v).slots.length = st.slots.length := by
  rw [setAttr_eq]
  cases fs[idx]? with
  | none => rfl
  | some f =>
    dsimp only
    cases f.group with
    | none => simp [setAt_length]
    | some g => simp [setAt_length, resetGroup_length]

theorem setAttr_cur_length (S : Schema) (fs : List FieldD) (st : MState) (idx : Nat) (v : Val) :
    (setAttr S fs st idx v).cur.length = st.cur.length := by
  rw [setAttr_eq]
  cases fs[idx]? with
  | none => rfl
  | some f =>
    dsimp only
    cases f.group with
    | none => rfl
    | some g => simp

/-- slot `k` after `setattr(self, <field idx>, v)` -/
theorem setAttr_slots_getD (S : Schema) (fs : List FieldD) (st : MState) (idx : Nat) (v : Val) (f : FieldD)
    (hf : fs[idx]? = some f) (k : Nat) :
    (setAttr S fs st idx v).slots.getD k .ph
      = if k = idx ∧ idx < st.slots.length then storedVal S v
        else if f.group.isSome ∧ grp fs k = f.group ∧ k ≠ idx then Val.ph
        else st.slots.getD k .ph := by
  rw [setAttr_eq, hf]
  dsimp only
  cases hg : f.group with
  | none =>
    show (setAt st.slots idx (storedVal S v)).getD k .ph = _
    rw [setAt_getD]
    simp
  | some g =>
    show (setAt (resetGroup g idx fs st.slots 0) idx (storedVal S v)).getD k .ph = _
    rw [setAt_getD, resetGroup_length, resetGroup_getD]
    simp only [Nat.zero_add, Option.isSome_some, true_and]

/-- selection of group `g'` after `setattr(self, <field idx>, v)` -/
theorem setAttr_cur_getD (S : Schema) (fs : List FieldD) (st : MState) (idx : Nat) (v : Val) (f : FieldD)
    (hf : fs[idx]? = some f) (g' : Nat) :
    (setAttr S fs st idx v).cur.getD g' Option.none
      = if f.group = some g' ∧ g' < st.cur.length then some idx else st.cur.getD g' Option.none := by
  rw [setAttr_eq, hf]
  dsimp only
  cases hg : f.group with
  | none => simp
  | some g =>
    simp only [getD_set_cur]
    by_cases e : g = g'
    · subst e; simp
    · have : ¬ (some g = some g') := fun h => e (Option.some.inj h)
      simp [e, this]

theorem setAttr_onWire (S : Schema) (fs : List FieldD) (st : MState) (idx : Nat) (v : Val) (f : FieldD)
    (hf : fs[idx]? = some f) : (setAttr S fs st idx v).onWire = true := by
  rw [setAttr_eq, hf]
  dsimp only
  cases f.group <;> rfl

end Bp
