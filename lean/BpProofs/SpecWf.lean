import BpModel.All
import BpProofs.SpecState
/-
  C02 helper lemmas, part 3: the decode step on a record that targets a declared field,
  and the slot typing invariant the decoder's `isinstance(current, list)` dispatch relies on.
-/
namespace Bp
open Gen

/-- `pf` is a record the class `d` knows: field number of the declared field `idx` = `f`,
    with a wire type that fits its declared type -/
def Targets (d : MsgD) (pf : PField) (idx : Nat) (f : FieldD) : Prop :=
  findField d.fields pf.num = some idx ∧ d.fields[idx]? = some f ∧ wireFits f pf.wt = true

theorem applyField_targets (S : Schema) (rec : Loader) (d : MsgD) (st : MState) (pf : PField) (idx : Nat) (f : FieldD)
    (h : Targets d pf idx f) :
    applyField S rec d st pf
      = (decodeValue S rec f pf).bind fun v => storeValue S d (prepCurrent S d st idx f) idx f v := by
  obtain ⟨h1, h2, h3⟩ := h
  unfold applyField
  simp only [h1, h2, h3, Bool.not_true, Bool.false_eq_true, if_false]

theorem targets_known (d : MsgD) (pf : PField) (idx : Nat) (f : FieldD) (h : Targets d pf idx f) :
    isUnknownField d pf = false := by
  obtain ⟨h1, h2, h3⟩ := h
  simp [isUnknownField, h1, h2, h3]

/-- every record is unknown to the class, or targets a declared field, or hits the
    (unreachable) inconsistent-table error -/
theorem record_cases (d : MsgD) (pf : PField) :
    isUnknownField d pf = true ∨ (∃ idx f, Targets d pf idx f)
    ∨ (∃ idx, findField d.fields pf.num = some idx ∧ d.fields[idx]? = Option.none) := by
  unfold isUnknownField Targets
  cases h1 : findField d.fields pf.num with
  | none => left; rfl
  | some idx =>
    cases h2 : d.fields[idx]? with
    | none => right; right; exact ⟨idx, rfl, h2⟩
    | some f =>
      cases h3 : wireFits f pf.wt with
      | false => left; simp [h2, h3]
      | true => right; left; exact ⟨idx, f, rfl, h2, h3⟩

theorem applyField_badtable (S : Schema) (rec : Loader) (d : MsgD) (st : MState) (pf : PField) (idx : Nat)
    (h1 : findField d.fields pf.num = some idx) (h2 : d.fields[idx]? = Option.none) :
    applyField S rec d st pf = .error .key := by
  unfold applyField
  simp only [h1, h2]

def isListVal : Val → Bool
  | .list _ => true
  | _ => false

def isPhVal : Val → Bool
  | .ph => true
  | _ => false

theorem isListVal_storedVal (S : Schema) (v : Val) : isListVal (storedVal S v) = isListVal v := by
  cases v <;> try rfl
  simp only [storedVal]; split <;> rfl

theorem prepCurrent_cases (S : Schema) (d : MsgD) (st : MState) (idx : Nat) (f : FieldD) :
    (hidden f idx st.cur = true ∧ prepCurrent S d st idx f = setAttr S d.fields st idx (defaultOf S f))
    ∨ (hidden f idx st.cur = false ∧
        prepCurrent S d st idx f = { st with slots := setAt st.slots idx (materialize S f (st.slots.getD idx .ph)) }) := by
  unfold prepCurrent
  cases hidden f idx st.cur with
  | true => left; exact ⟨rfl, rfl⟩
  | false => right; exact ⟨rfl, rfl⟩

/-- the elements a decoded value contributes to a repeated field: a packed chunk all of
    its elements, anything else itself -/
def elemsOf : Val → List Val
  | .list ys => ys
  | y => [y]

/-- the three ways `Message.load` stores a decoded value -/
theorem storeValue_cases (S : Schema) (d : MsgD) (st1 st' : MState) (idx : Nat) (f : FieldD) (v : Val)
    (h : storeValue S d st1 idx f v = .ok st') :
    (f.ty = .map ∧ ∃ x, st' = { st1 with slots := setAt st1.slots idx x })
    ∨ (f.ty ≠ .map ∧ ∃ xs, st1.slots.getD idx .ph = .list xs ∧
         st' = { st1 with slots := setAt st1.slots idx (.list (xs ++ elemsOf v)) })
    ∨ (f.ty ≠ .map ∧ isListVal (st1.slots.getD idx .ph) = false ∧ st' = setAttr S d.fields st1 idx v) := by
  unfold storeValue at h
  dsimp only at h
  split at h
  · rename_i hm
    left
    refine ⟨by simpa using hm, ?_⟩
    split at h
    · injection h with h; exact ⟨_, h.symm⟩
    · simp at h
  · rename_i hm
    have hm' : f.ty ≠ .map := by simpa using hm
    right
    split at h
    · rename_i xs hc
      left
      refine ⟨hm', xs, hc, ?_⟩
      cases v <;> (injection h with h; exact h.symm)
    · rename_i hc
      right
      refine ⟨hm', ?_, ?_⟩
      · cases hv : st1.slots.getD idx .ph <;> try rfl
        exact absurd hv (hc _)
      · injection h with h; exact h.symm

/-! ### lengths and the on-wire flag -/

theorem prepCurrent_lengths (S : Schema) (d : MsgD) (st : MState) (idx : Nat) (f : FieldD) :
    (prepCurrent S d st idx f).slots.length = st.slots.length
    ∧ (prepCurrent S d st idx f).cur.length = st.cur.length := by
  rcases prepCurrent_cases S d st idx f with ⟨_, e⟩ | ⟨_, e⟩ <;> rw [e]
  · exact ⟨setAttr_slots_length _ _ _ _ _, setAttr_cur_length _ _ _ _ _⟩
  · exact ⟨setAt_length _ _ _, rfl⟩

theorem storeValue_lengths (S : Schema) (d : MsgD) (st1 st' : MState) (idx : Nat) (f : FieldD) (v : Val)
    (h : storeValue S d st1 idx f v = .ok st') :
    st'.slots.length = st1.slots.length ∧ st'.cur.length = st1.cur.length := by
  rcases storeValue_cases S d st1 st' idx f v h with ⟨_, x, e⟩ | ⟨_, xs, _, e⟩ | ⟨_, _, e⟩ <;> rw [e]
  · exact ⟨setAt_length _ _ _, rfl⟩
  · exact ⟨setAt_length _ _ _, rfl⟩
  · exact ⟨setAttr_slots_length _ _ _ _ _, setAttr_cur_length _ _ _ _ _⟩

/-- a decode step never changes the number of slots or of oneof groups -/
theorem applyField_lengths (S : Schema) (rec : Loader) (d : MsgD) (st st' : MState) (pf : PField)
    (h : applyField S rec d st pf = .ok st') :
    st'.slots.length = st.slots.length ∧ st'.cur.length = st.cur.length := by
  rcases record_cases d pf with hu | ⟨idx, f, ht⟩ | ⟨idx, h1, h2⟩
  · rw [applyField_unknown S rec d st pf hu] at h
    injection h with h; subst h; exact ⟨rfl, rfl⟩
  · rw [applyField_targets S rec d st pf idx f ht] at h
    cases hv : decodeValue S rec f pf with
    | error e => rw [hv] at h; simp at h
    | ok v =>
      rw [hv] at h; simp only [bind_ok] at h
      have a := storeValue_lengths S d _ st' idx f v h
      have b := prepCurrent_lengths S d st idx f
      exact ⟨a.1.trans b.1, a.2.trans b.2⟩
  · rw [applyField_badtable S rec d st pf idx h1 h2] at h; simp at h

theorem foldFields_lengths (S : Schema) (rec : Loader) (d : MsgD) (pfs : List PField) (st st' : MState)
    (h : foldFields S rec d st pfs = .ok st') :
    st'.slots.length = st.slots.length ∧ st'.cur.length = st.cur.length := by
  induction pfs generalizing st with
  | nil => rw [foldFields] at h; injection h with h; subst h; exact ⟨rfl, rfl⟩
  | cons pf pfs ih =>
    rw [foldFields] at h
    cases ha : applyField S rec d st pf with
    | error e => rw [ha] at h; simp at h
    | ok s1 =>
      rw [ha] at h; simp only [bind_ok] at h
      have a := applyField_lengths S rec d st s1 pf ha
      have b := ih s1 h
      exact ⟨b.1.trans a.1, b.2.trans a.2⟩

theorem foldFields_append_s (S : Schema) (rec : Loader) (d : MsgD) (as bs : List PField) (st : MState) :
    foldFields S rec d st (as ++ bs) = (foldFields S rec d st as).bind fun s => foldFields S rec d s bs := by
  induction as generalizing st with
  | nil => rfl
  | cons a as ih =>
    simp only [List.cons_append, foldFields]
    cases applyField S rec d st a with
    | error e => rfl
    | ok s1 => simp only [bind_ok]; exact ih s1

end Bp

namespace Bp
open Gen

/-! ### what a singular scalar record decodes to is never a list -/

theorem packed_own_wire_not_len (t : PType) (h : isPacked t = true) :
    (wireTypeByProtoType.find? (fun x => x.1 == t)).map (·.2) ≠ some wireLenDelim := by
  cases t <;> first | decide | (exfalso; revert h; decide)

/-- a LEN record never fits a non-repeated packable field -/
theorem fits_singular_packed (f : FieldD) (wt : Nat) (hrep : f.repeated = false) (hfit : wireFits f wt = true)
    (hp : isPacked f.ty = true) : (wt == wireLenDelim) = false := by
  have ht := packed_own_wire_not_len f.ty hp
  unfold wireFits at hfit
  cases hfind : wireTypeByProtoType.find? (fun x => x.1 == f.ty) with
  | none => rw [hfind] at hfit; simp at hfit
  | some p =>
    obtain ⟨t', w⟩ := p
    rw [hfind] at hfit ht
    simp only [hrep, Bool.and_false, Bool.or_false, beq_iff_eq] at hfit
    simp only [Option.map_some, ne_eq, Option.some.injEq] at ht
    subst hfit
    simpa using ht

/-- a scalar Python value: int / bool / float (bit pattern) / str / bytes -/
def isScalarVal : Val → Bool
  | .int _ | .bool _ | .f32 _ | .f64 _ | .str _ | .byt _ => true
  | _ => false

theorem scalarVal_notList (v : Val) (h : isScalarVal v = true) : isListVal v = false := by
  cases v <;> first | rfl | simp [isScalarVal] at h

theorem scalarVal_stored (S : Schema) (v : Val) (h : isScalarVal v = true) : storedVal S v = v := by
  cases v <;> first | rfl | simp [isScalarVal] at h

theorem postVarint_scalar (t : PType) (n : Nat) : isScalarVal (postVarint t n) = true := by
  unfold postVarint
  repeat' split
  all_goals rfl

theorem postFixed_scalar (t : PType) (p : Bytes) (v : Val) (h : postFixed t p = .ok v) : isScalarVal v = true := by
  unfold postFixed at h
  split at h
  · simp at h
  · split at h
    · simp at h
    · repeat' split at h
      all_goals (injection h with h; subst h; rfl)

theorem decodeValue_scalar (S : Schema) (rec : Loader) (f : FieldD) (pf : PField) (v : Val)
    (hrep : f.repeated = false) (hfit : wireFits f pf.wt = true) (hm : f.ty ≠ .map) (hmsg : f.ty ≠ .message)
    (h : decodeValue S rec f pf = .ok v) : isScalarVal v = true := by
  unfold decodeValue at h
  by_cases hp : isPacked f.ty = true
  · have := fits_singular_packed f pf.wt hrep hfit hp
    simp only [this, Bool.false_and, Bool.false_eq_true, if_false] at h
    split at h
    · injection h with h; subst h; exact postVarint_scalar _ _
    · split at h
      · exact postFixed_scalar _ _ _ h
      · have hm' : (f.ty == PType.map) = false := by simpa using hm
        simp only [hm', Bool.false_eq_true, if_false] at h
        unfold postLen at h
        have hmsg' : (f.ty == PType.message) = false := by simpa using hmsg
        simp only [hmsg', Bool.false_eq_true, if_false] at h
        split at h
        · split at h
          · injection h with h; subst h; rfl
          · simp at h
        · injection h with h; subst h; rfl
  · have hp' : isPacked f.ty = false := by simpa using hp
    simp only [hp', Bool.and_false, Bool.false_eq_true, if_false] at h
    split at h
    · injection h with h; subst h; exact postVarint_scalar _ _
    · split at h
      · exact postFixed_scalar _ _ _ h
      · have hm' : (f.ty == PType.map) = false := by simpa using hm
        simp only [hm', Bool.false_eq_true, if_false] at h
        unfold postLen at h
        have hmsg' : (f.ty == PType.message) = false := by simpa using hmsg
        simp only [hmsg', Bool.false_eq_true, if_false] at h
        split at h
        · split at h
          · injection h with h; subst h; rfl
          · simp at h
        · injection h with h; subst h; rfl


theorem decodeValue_notList (S : Schema) (rec : Loader) (f : FieldD) (pf : PField) (v : Val)
    (hrep : f.repeated = false) (hfit : wireFits f pf.wt = true) (hm : f.ty ≠ .map) (hmsg : f.ty ≠ .message)
    (h : decodeValue S rec f pf = .ok v) : isListVal v = false :=
  scalarVal_notList v (decodeValue_scalar S rec f pf v hrep hfit hm hmsg h)

end Bp
