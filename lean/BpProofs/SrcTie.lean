import BpProofs.Gen.SrcCodec
import BpProofs.Varint
import BpProofs.Fields
import BpModel.Dump
import BpModel.Len
/-
  THE TIE BETWEEN THE TRANSLATED SOURCE AND THE HAND-WRITTEN MODEL.

  `Bp.Src.*` (BpProofs/Gen/SrcCodec.lean) is regenerated from the Python AST of
  src/betterproto/__init__.py on every run.  The theorems below say that each translated
  function computes exactly what the model function of BpModel/Varint.lean computes, for
  every argument and every sufficient amount of loop fuel.  They are re-checked against
  whatever the source says now; the property theorems (Props/*) are about the model
  functions, so together: the property theorems hold of the code as written today, up to
  the semantics of the Python primitives fixed in BpProofs/PyPrelude.lean.
-/
set_option linter.unusedSimpArgs false
namespace Bp.SrcTie
open Bp Bp.Py

/-! ### Python int operators on the operands that occur -/

theorem and_nat (a b : Nat) : Py.and (a : Int) (b : Int) = ((a &&& b : Nat) : Int) := rfl
theorem or_nat (a b : Nat) : Py.or (a : Int) (b : Int) = ((a ||| b : Nat) : Int) := rfl
theorem xor_nat (a b : Nat) : Py.xor (a : Int) (b : Int) = ((a ^^^ b : Nat) : Int) := rfl

theorem and_mask (n k : Nat) : Py.and (n : Int) ((2 ^ k - 1 : Nat) : Int) = ((n % 2 ^ k : Nat) : Int) := by
  rw [and_nat, Nat.and_two_pow_sub_one_eq_mod]

theorem and_127 (n : Nat) : Py.and (n : Int) 127 = ((n % 128 : Nat) : Int) := and_mask n 7
theorem and_128 (n : Nat) : Py.and (n : Int) 128 = ((n &&& 128 : Nat) : Int) := and_nat n 128
theorem and_7 (n : Nat) : Py.and (n : Int) 7 = ((n % 8 : Nat) : Int) := and_mask n 3
theorem and_1 (n : Nat) : Py.and (n : Int) 1 = ((n % 2 : Nat) : Int) := and_mask n 1
theorem and_u64 (n : Nat) : Py.and (n : Int) 18446744073709551615 = ((n % 18446744073709551616 : Nat) : Int) :=
  and_mask n 64
theorem and_u32 (n : Nat) : Py.and (n : Int) 4294967295 = ((n % 4294967296 : Nat) : Int) := and_mask n 32

theorem shr_nat (n k : Nat) : Py.shr (n : Int) (k : Int) = ((n / 2 ^ k : Nat) : Int) := by
  unfold Py.shr
  simp [Int.toNat_natCast]

theorem shl_nat (n k : Nat) : Py.shl (n : Int) (k : Int) = ((n * 2 ^ k : Nat) : Int) := by
  unfold Py.shl
  simp [Int.toNat_natCast]

theorem shl_int (v : Int) (k : Nat) : Py.shl v (k : Int) = v * 2 ^ k := by
  unfold Py.shl
  simp [Int.toNat_natCast]

theorem or_128 (b : Nat) (h : b < 128) : Py.or 128 (b : Int) = ((128 + b : Nat) : Int) := by
  have := Nat.two_pow_add_eq_or_of_lt (i := 7) (b := b) (by simpa using h) 1
  show Py.or ((128 : Nat) : Int) (b : Int) = _
  rw [or_nat]
  simp at this
  rw [← this]


/-! ### `dump_varint` / `encode_varint` -/

/-- the `while value:` loop of `dump_varint`: with `value = q`, `bits = b < 128` pending it
    ends with `value = 0` and the stream and last group that make up the varint of `q * 128 + b` -/
theorem dump_loop (fuel q b : Nat) (s : Bytes) (hb : b < 128) (hf : q < fuel) :
    ∃ (st : Bytes) (lb : Nat), Src.dump_varint.loop1 fuel (q : Int) s (b : Int) = .ok (.next ((0 : Int), st, (lb : Int)))
      ∧ lb < 128 ∧ st ++ [lb] = s ++ encNat (q * 128 + b) := by
  induction fuel generalizing q b s with
  | zero => omega
  | succ fuel ih =>
    unfold Src.dump_varint.loop1
    by_cases hq : q = 0
    · subst hq
      refine ⟨s, b, ?_, hb, ?_⟩
      · simp
      · rw [Nat.zero_mul, Nat.zero_add, encNat_lt b hb]
    · have hq' : ((q : Int) ≠ 0) := by exact_mod_cast hq
      have h128 : ¬ (q * 128 + b < 128) := by omega
      have hor : Py.toBytes1 (Py.or 128 (b : Int)) = .ok [128 + b] := by
        rw [or_128 b hb]; unfold Py.toBytes1
        have : (0 : Int) ≤ ((128 + b : Nat) : Int) ∧ ((128 + b : Nat) : Int) < 256 := by omega
        simp only [this, and_self, if_true, Int.toNat_natCast]
      obtain ⟨st, lb, hl, hlb, hst⟩ := ih (q / 128) (q % 128) (s ++ [128 + b]) (Nat.mod_lt _ (by decide))
        (by have : q / 128 < q := Nat.div_lt_self (by omega) (by decide); omega)
      have hsh : Py.shr (q : Int) 7 = ((q / 128 : Nat) : Int) := by
        have := shr_nat q 7; simpa using this
      refine ⟨st, lb, ?_, hlb, ?_⟩
      · simp only [hq', ne_eq, not_false_eq_true, decide_true, if_true, hor, Res.bind, and_127, hsh]
        exact hl
      · rw [hst, encNat_ge _ h128]
        have e1 : (q * 128 + b) % 128 = b := by omega
        have e2 : (q * 128 + b) / 128 = q := by omega
        have e3 : q / 128 * 128 + q % 128 = q := by omega
        rw [e1, e2, e3]
        simp

/-- **`dump_varint` is `dumpVarint`**: for every integer and every stream content, with
    enough fuel for the loop, the translated source appends exactly the model's bytes and
    raises exactly when the model raises -/
theorem dump_varint_eq (v : Int) (s : Bytes) (fuel : Nat) (hf : v.natAbs + 2 ^ 64 < fuel) :
    Src.dump_varint fuel v s = (Py.ofR (dumpVarint v)).bind fun bs => .ok (s ++ bs) := by
  unfold Src.dump_varint dumpVarint
  have h63 : Py.shl 1 63 = 9223372036854775808 := by decide
  have h64 : Py.shl 1 64 = 18446744073709551616 := by decide
  simp only [h63, h64, two63, two64]
  by_cases h1 : v < -9223372036854775808
  · simp [h1, Py.ofR, Res.bind]
  · simp only [h1, decide_false, if_false, Bool.false_eq_true]
    -- the non-negative number that is written
    obtain ⟨n, hn⟩ : ∃ n : Nat, (if decide (v < 0) = true then v + 18446744073709551616 else v) = (n : Int) := by
      by_cases h2 : v < 0
      · exact ⟨(v + 18446744073709551616).toNat, by simp only [h2, decide_true, if_true]; omega⟩
      · exact ⟨v.toNat, by simp only [h2, decide_false, Bool.false_eq_true, if_false]; omega⟩
    have hn' : n ≤ v.natAbs + 2 ^ 64 := by
      by_cases h2 : v < 0 <;> simp [h2] at hn <;> omega
    have hmodel : (if v < 0 then (Except.ok (encNat (v + 18446744073709551616).toNat) : R Bytes)
        else .ok (encNat v.toNat)) = .ok (encNat n) := by
      by_cases h2 : v < 0 <;> simp [h2] at hn ⊢ <;> congr 1 <;> omega
    rw [hmodel]
    simp only [Py.ofR, Res.bind]
    obtain ⟨st, lb, hl, hlb, hst⟩ := dump_loop fuel (n / 128) (n % 128) s (Nat.mod_lt _ (by decide))
      (by have := Nat.div_le_self n 128; omega)
    have e3 : n / 128 * 128 + n % 128 = n := by omega
    rw [e3] at hst
    have hsh : Py.shr (n : Int) 7 = ((n / 128 : Nat) : Int) := by
      have := shr_nat n 7; simpa using this
    have hlast : Py.toBytes1 (lb : Int) = .ok [lb] := by
      unfold Py.toBytes1
      have : (0 : Int) ≤ (lb : Int) ∧ (lb : Int) < 256 := by omega
      simp only [this, and_self, if_true, Int.toNat_natCast]
    show (let value := (if decide (v < 0) = true then
            let value := v + 18446744073709551616
            value else v)
          let bits := Py.and value 127
          let value := Py.shr value 7
          (Src.dump_varint.loop1 fuel value s bits).bind _) = _
    simp only [hn, and_127, hsh, hl, Res.bind, hlast, hst]

theorem encode_varint_eq (v : Int) (fuel : Nat) (hf : v.natAbs + 2 ^ 64 < fuel) :
    Src.encode_varint fuel v = Py.ofR (dumpVarint v) := by
  unfold Src.encode_varint
  simp only [dump_varint_eq v [] fuel hf]
  cases dumpVarint v <;> simp [Py.ofR, Res.bind]


/-! ### `size_varint` -/

theorem ceilDiv_bitLength (n : Nat) : Py.ceilDiv (Py.bitLength (n : Int)) 7 = (((bitLen n + 6) / 7 : Nat) : Int) := by
  unfold Py.ceilDiv Py.bitLength
  simp only [Int.natAbs_natCast]
  omega

/-- **`size_varint` is `sizeVarint`** (the model returns a `Nat`) -/
theorem size_varint_eq (v : Int) (fuel : Nat) :
    Src.size_varint fuel v = Py.ofR ((sizeVarint v).map fun (n : Nat) => (n : Int)) := by
  unfold Src.size_varint sizeVarint
  have h63 : Py.shl 1 63 = 9223372036854775808 := by decide
  simp only [h63, two63]
  by_cases h1 : v < -9223372036854775808
  · simp [h1, Py.ofR, Except.map]
  · by_cases h2 : v < 0
    · simp [h1, h2, Py.ofR, Except.map]
    · by_cases h3 : v = 0
      · simp [h3, Py.ofR, Except.map]
      · obtain ⟨n, rfl⟩ : ∃ n : Nat, v = (n : Int) := ⟨v.toNat, by omega⟩
        simp only [h1, h2, h3, decide_false, Bool.false_eq_true, if_false, ceilDiv_bitLength, Py.ofR, Except.map,
          Int.toNat_natCast]

/-! ### `load_varint` / `decode_varint` -/

theorem or_shl_add (res c s : Nat) (h : res < 2 ^ s) :
    Py.or (res : Int) (Py.shl (c : Int) (s : Int)) = ((res + c * 2 ^ s : Nat) : Int) := by
  rw [shl_nat, or_nat]
  have := Nat.shiftLeft_add_eq_or_of_lt h c
  rw [Nat.shiftLeft_eq] at this
  rw [Nat.or_comm, ← this, Nat.add_comm]

theorem fromBytesLE_one (b : Nat) : Py.fromBytesLE [b] = (b : Int) := by
  simp [Py.fromBytesLE, unpackLE]

theorem and_128_ne (b : Nat) (hb : b < 256) : (Py.and (b : Int) 128 ≠ 0) ↔ ¬ b < 128 := by
  rw [and_128]
  have : (b &&& 128 = 0) ↔ b < 128 := by
    have h := Nat.testBit_two_pow_self (n := 7)
    constructor
    · intro h0
      by_contra hge
      have hb7 : b.testBit 7 = true := by
        have : b = 128 + (b - 128) := by omega
        rw [this]
        have h2 : b - 128 < 2 ^ 7 := by omega
        rw [show (128 : Nat) = 2 ^ 7 by rfl, Nat.testBit_two_pow_add_eq]
        simp [Nat.testBit_lt_two_pow h2]
      have : (b &&& 128).testBit 7 = true := by
        rw [Nat.testBit_and, hb7, show (128 : Nat) = 2 ^ 7 by rfl, h]; rfl
      rw [h0] at this
      simp at this
    · intro hlt
      apply Nat.eq_of_testBit_eq
      intro i
      rw [Nat.testBit_and, Nat.zero_testBit, show (128 : Nat) = 2 ^ 7 by rfl, Nat.testBit_two_pow]
      by_cases hi : 7 = i
      · subst hi
        have : b.testBit 7 = false := Nat.testBit_lt_two_pow (by omega)
        simp [this]
      · simp [hi]
  constructor
  · intro h hlt; exact h (by exact_mod_cast this.mpr hlt)
  · intro h h0; exact h (this.mp (by exact_mod_cast h0))

theorem loadAux_count_ge (bs : Bytes) (shift res k v k' : Nat)
    (h : loadVarintAux shift res k bs = .ok (v, k')) : k + 1 ≤ k' := by
  induction bs generalizing shift res k with
  | nil => unfold loadVarintAux at h; split at h <;> cases h
  | cons b rest ih =>
    unfold loadVarintAux at h
    split at h
    · cases h
    · split at h
      · cases h; omega
      · have := ih _ _ _ h; omega

/-- the loop of `load_varint` (no `first` byte pending) against `loadVarintAux`: same
    verdict, the value masked to 64 bits, the raw bytes and the rest of the stream -/
theorem load_loop (bs : Bytes) (hw : WfBytes bs) (fuel j res : Nat) (raw : Bytes)
    (hres : res < 2 ^ (7 * j)) (hj : j ≤ 10) (hf : 10 < fuel + j) :
    Src.load_varint.loop1 fuel bs [] (res : Int) raw ((7 * j : Nat) : Int) =
      match loadVarintAux (7 * j) res raw.length bs with
      | .ok (v, k') => .ok ((((v % 18446744073709551616 : Nat) : Int), raw ++ bs.take (k' - raw.length)), bs.drop (k' - raw.length))
      | .error e => .raise e := by
  induction bs generalizing fuel j res raw with
  | nil =>
    cases fuel with
    | zero => omega
    | succ fuel =>
      unfold Src.load_varint.loop1 loadVarintAux
      by_cases hs : 7 * j ≥ 64
      · have h' : ((7 * j : Nat) : Int) ≥ 64 := by omega
        simp only [h', decide_true, if_true, hs]
      · have h' : ¬ ((7 * j : Nat) : Int) ≥ 64 := by omega
        simp only [h', decide_false, Bool.false_eq_true, if_false, hs, List.isEmpty_nil, Bool.not_true]
        simp [Py.take]
  | cons b rest ih =>
    cases fuel with
    | zero => omega
    | succ fuel =>
      have hb : b < 256 := hw b (by simp)
      have hw' : WfBytes rest := fun x hx => hw x (by simp [hx])
      unfold Src.load_varint.loop1 loadVarintAux
      by_cases hs : 7 * j ≥ 64
      · have h' : ((7 * j : Nat) : Int) ≥ 64 := by omega
        simp only [h', decide_true, if_true, hs]
      · have hs' : ¬ ((7 * j : Nat) : Int) ≥ 64 := by omega
        have htake : Py.take (b :: rest) 1 = [b] := by simp [Py.take]
        have hdrop : Py.drop (b :: rest) 1 = rest := by simp [Py.drop]
        have hor := or_shl_add res (b % 128) (7 * j) hres
        have hres' : res + b % 128 * 2 ^ (7 * j) < 2 ^ (7 * (j + 1)) := by
          have h127 : b % 128 ≤ 127 := by have := Nat.mod_lt b (show 0 < 128 by decide); omega
          have e : 2 ^ (7 * (j + 1)) = 128 * 2 ^ (7 * j) := by
            rw [show 7 * (j + 1) = 7 + 7 * j by omega, Nat.pow_add]
          rw [e]
          have h1 := Nat.mul_le_mul_right (2 ^ (7 * j)) h127
          generalize b % 128 * 2 ^ (7 * j) = X at h1 ⊢
          generalize 2 ^ (7 * j) = P at *
          omega
        simp only [hs, hs', decide_false, Bool.false_eq_true, if_false, List.isEmpty_nil, Bool.not_true, htake, hdrop,
          List.isEmpty_cons, Bool.not_false, fromBytesLE_one, and_127, hor]
        by_cases hlt : b < 128
        · have hne : ¬ (Py.and (b : Int) 128 ≠ 0) := fun h => ((and_128_ne b hb).mp h) hlt
          simp only [hne, decide_false, Bool.not_false, if_true, hlt, and_u64]
          have : raw.length + 1 - raw.length = 1 := by omega
          rw [this]
          simp
        · have hne : (Py.and (b : Int) 128 ≠ 0) := (and_128_ne b hb).mpr hlt
          simp only [hne, ne_eq, not_false_eq_true, decide_true, Bool.not_true, Bool.false_eq_true, if_false, hlt]
          have hsh : ((7 * j : Nat) : Int) + 7 = ((7 * (j + 1) : Nat) : Int) := by omega
          rw [hsh]
          by_cases hj10 : j = 10
          · omega
          · have := ih hw' fuel (j + 1) (res + b % 128 * 2 ^ (7 * j)) (raw ++ [b]) hres' (by omega) (by omega)
            rw [this]
            have hl : (raw ++ [b]).length = raw.length + 1 := by simp
            rw [hl, show 7 * j + 7 = 7 * (j + 1) by omega]
            cases hres2 : loadVarintAux (7 * (j + 1)) (res + b % 128 * 2 ^ (7 * j)) (raw.length + 1) rest with
            | error e => rfl
            | ok p =>
              obtain ⟨v, k'⟩ := p
              have hk : raw.length + 1 + 1 ≤ k' := loadAux_count_ge _ _ _ _ _ _ hres2
              simp only
              have e1 : k' - raw.length = (k' - (raw.length + 1)) + 1 := by omega
              rw [e1]
              simp [List.take_succ_cons, List.append_assoc]

theorem loadAux_count_le (bs : Bytes) (shift res k v k' : Nat)
    (h : loadVarintAux shift res k bs = .ok (v, k')) : k' ≤ k + bs.length := by
  induction bs generalizing shift res k with
  | nil => unfold loadVarintAux at h; split at h <;> cases h
  | cons b rest ih =>
    unfold loadVarintAux at h
    split at h
    · cases h
    · split at h
      · cases h; simp
      · have := ih _ _ _ h; simp; omega

/-- a pending `first` byte is read exactly like the head of the stream -/
theorem load_loop_first (fuel : Nat) (b0 : Nat) (bs : Bytes) (res : Int) (raw : Bytes) (shift : Int) :
    Src.load_varint.loop1 fuel bs [b0] res raw shift = Src.load_varint.loop1 fuel (b0 :: bs) [] res raw shift := by
  cases fuel with
  | zero => rfl
  | succ fuel =>
    unfold Src.load_varint.loop1
    simp [Py.take, Py.drop]

/-- **`load_varint` is `loadVarint`**: value (64 meaningful bits), the raw bytes read,
    and what is left of the stream — or the same exception -/
theorem load_varint_eq (bs : Bytes) (hw : WfBytes bs) (fuel : Nat) (hf : 10 < fuel) :
    Src.load_varint fuel bs [] =
      match loadVarint bs with
      | .ok (v, k) => .ok (((v : Int), bs.take k), bs.drop k)
      | .error e => .raise e := by
  unfold Src.load_varint loadVarint
  have := load_loop bs hw fuel 0 0 [] (by simp) (by omega) (by omega)
  simp only [Nat.mul_zero, Nat.cast_zero, List.length_nil, Nat.sub_zero, List.nil_append] at this
  rw [this]
  cases loadVarintAux 0 0 0 bs with
  | error e => rfl
  | ok p => obtain ⟨v, k⟩ := p; rfl

/-- the same with the first byte already taken from the stream by the caller
    (`load_fields` does that to detect a clean end of input) -/
theorem load_varint_first_eq (b0 : Nat) (bs : Bytes) (hw : WfBytes (b0 :: bs)) (fuel : Nat) (hf : 10 < fuel) :
    Src.load_varint fuel bs [b0] =
      match loadVarint (b0 :: bs) with
      | .ok (v, k) => .ok (((v : Int), (b0 :: bs).take k), (b0 :: bs).drop k)
      | .error e => .raise e := by
  have h := load_varint_eq (b0 :: bs) hw fuel hf
  unfold Src.load_varint at h ⊢
  rw [load_loop_first]
  exact h

/-- **`decode_varint` is `decodeVarint`** -/
theorem decode_varint_eq (buf : Bytes) (hw : WfBytes buf) (pos fuel : Nat) (hf : 10 < fuel) :
    Src.decode_varint fuel buf (pos : Int) =
      match decodeVarint buf pos with
      | .ok (v, p) => .ok ((v : Int), (p : Int))
      | .error e => .raise e := by
  unfold Src.decode_varint decodeVarint
  have hw' : WfBytes (buf.drop pos) := fun x hx => hw x (List.mem_of_mem_drop hx)
  have hd : Py.drop buf (pos : Int) = buf.drop pos := by simp [Py.drop]
  simp only [hd, load_varint_eq (buf.drop pos) hw' fuel hf]
  unfold loadVarint
  cases h : loadVarintAux 0 0 0 (buf.drop pos) with
  | error e => rfl
  | ok p =>
    obtain ⟨v, k⟩ := p
    have hk := loadAux_count_le _ _ _ _ _ _ h
    simp only [Res.bind, Py.len]
    have : ((buf.drop pos).take k).length = k := by
      rw [List.length_take]; omega
    rw [this]
    simp

/-! ### the arithmetic of `_preprocess_single` / `_len_preprocessed_single` / `_postprocess_single` -/

theorem xor_neg_one (x : Int) : Py.xor x (-1) = -x - 1 := by
  unfold Py.xor
  cases x with
  | ofNat m =>
    show Int.xor (Int.ofNat m) (Int.negSucc 0) = _
    simp only [Int.xor, Nat.xor_zero, Int.ofNat_eq_natCast, Int.negSucc_eq]
    omega
  | negSucc m =>
    show Int.xor (Int.negSucc m) (Int.negSucc 0) = _
    simp only [Int.xor, Nat.xor_zero, Int.negSucc_eq]
    omega

/-- the zig-zag expression `value << 1 if value >= 0 else (value << 1) ^ (~0)` is `zig` -/
theorem zig_expr (v : Int) :
    (if decide (v ≥ 0) then Py.shl v 1 else Py.xor (Py.shl v 1) (Py.inv 0)) = zig v := by
  have h1 : Py.shl v 1 = v * 2 := by have := shl_int v 1; simpa using this
  have h2 : Py.inv 0 = -1 := by decide
  unfold zig
  by_cases h : v ≥ 0
  · simp only [h, decide_true, if_true, h1]; omega
  · simp only [h, decide_false, Bool.false_eq_true, if_false, h1, h2, xor_neg_one]; omega

theorem preprocess_sint_eq (v : Int) (fuel : Nat) (hf : (zig v).natAbs + 2 ^ 64 < fuel) :
    Src.preprocess_sint fuel v = Py.ofR (dumpVarint (zig v)) := by
  unfold Src.preprocess_sint
  rw [zig_expr, encode_varint_eq _ _ hf]
  cases dumpVarint (zig v) <;> rfl

theorem preprocess_varint_eq (v : Int) (fuel : Nat) (hf : v.natAbs + 2 ^ 64 < fuel) :
    Src.preprocess_varint fuel v = Py.ofR (dumpVarint v) := by
  unfold Src.preprocess_varint
  rw [encode_varint_eq _ _ hf]
  cases dumpVarint v <;> rfl

theorem len_preprocessed_sint_eq (v : Int) (fuel : Nat) :
    Src.len_preprocessed_sint fuel v = Py.ofR ((sizeVarint (zig v)).map fun (n : Nat) => (n : Int)) := by
  unfold Src.len_preprocessed_sint
  rw [zig_expr, size_varint_eq]
  cases sizeVarint (zig v) <;> rfl

theorem len_preprocessed_varint_eq (v : Int) (fuel : Nat) :
    Src.len_preprocessed_varint fuel v = Py.ofR ((sizeVarint v).map fun (n : Nat) => (n : Int)) := by
  unfold Src.len_preprocessed_varint
  rw [size_varint_eq]
  cases sizeVarint v <;> rfl

/-- xor with a single bit `2^k` of a number below `2^(k+1)` -/
theorem xor_two_pow (m k : Nat) (h : m < 2 ^ (k + 1)) :
    m ^^^ 2 ^ k = if m < 2 ^ k then m + 2 ^ k else m - 2 ^ k := by
  have low : ∀ x, x < 2 ^ k → x ^^^ 2 ^ k = x + 2 ^ k := by
    intro x hx
    have hor := Nat.two_pow_add_eq_or_of_lt (i := k) (b := x) hx 1
    simp only [Nat.mul_one] at hor
    rw [Nat.add_comm, hor]
    apply Nat.eq_of_testBit_eq
    intro i
    rw [Nat.testBit_xor, Nat.testBit_or, Nat.testBit_two_pow]
    by_cases hi : k = i
    · subst hi
      simp [Nat.testBit_lt_two_pow hx]
    · simp [hi]
  by_cases hlt : m < 2 ^ k
  · simp only [hlt, if_true]; exact low m hlt
  · simp only [hlt, if_false]
    have hm : m - 2 ^ k < 2 ^ k := by rw [Nat.pow_succ] at h; omega
    have := low (m - 2 ^ k) hm
    have e : m - 2 ^ k + 2 ^ k = m := by omega
    calc m ^^^ 2 ^ k = ((m - 2 ^ k) + 2 ^ k) ^^^ 2 ^ k := by rw [e]
      _ = ((m - 2 ^ k) ^^^ 2 ^ k) ^^^ 2 ^ k := by rw [this]
      _ = m - 2 ^ k := by rw [Nat.xor_assoc, Nat.xor_self, Nat.xor_zero]

/-- sign recovery `value &= (1 << bits) - 1; (value ^ signbit) - signbit` is `signRecover` -/
theorem postprocess_int_eq (n bits : Nat) (hb : 1 ≤ bits) (fuel : Nat) :
    Src.postprocess_int fuel (n : Int) (bits : Int) = .ok (signRecover bits n) := by
  unfold Src.postprocess_int signRecover
  obtain ⟨k, rfl⟩ : ∃ k, bits = k + 1 := ⟨bits - 1, by omega⟩
  have h1 : Py.shl 1 ((k + 1 : Nat) : Int) - 1 = ((2 ^ (k + 1) - 1 : Nat) : Int) := by
    have := shl_nat 1 (k + 1)
    simp only [Nat.cast_one, Nat.one_mul] at this
    rw [this]
    have : 1 ≤ 2 ^ (k + 1) := Nat.one_le_two_pow
    omega
  have h2 : Py.shl 1 (((k + 1 : Nat) : Int) - 1) = ((2 ^ k : Nat) : Int) := by
    have : ((k + 1 : Nat) : Int) - 1 = (k : Int) := by omega
    rw [this]
    have := shl_nat 1 k
    simpa using this
  simp only [h1, and_mask, h2, xor_nat]
  have hm : n % 2 ^ (k + 1) < 2 ^ (k + 1) := Nat.mod_lt _ (Nat.two_pow_pos _)
  rw [xor_two_pow _ _ hm]
  simp only [Nat.add_sub_cancel]
  congr 1
  by_cases hlt : n % 2 ^ (k + 1) < 2 ^ k
  · simp only [hlt, if_true]; omega
  · simp only [hlt, if_false]
    have : 2 ^ (k + 1) = 2 ^ k + 2 ^ k := by rw [Nat.pow_succ]; omega
    omega

theorem postprocess_enum_eq (n : Nat) (fuel : Nat) :
    Src.postprocess_enum fuel (n : Int) = .ok (signRecover 32 n) := by
  have h := postprocess_int_eq n 32 (by decide) fuel
  unfold Src.postprocess_int at h
  unfold Src.postprocess_enum
  have e1 : Py.shl 1 ((32 : Nat) : Int) - 1 = 4294967295 := by decide
  have e2 : Py.shl 1 (((32 : Nat) : Int) - 1) = 2147483648 := by decide
  simp only [e1, e2] at h
  exact h

/-- `(value >> 1) ^ (-(value & 1))` is `unzig` -/
theorem postprocess_sint_eq (n : Nat) (fuel : Nat) :
    Src.postprocess_sint fuel (n : Int) = .ok (unzig n) := by
  unfold Src.postprocess_sint unzig
  have hsh : Py.shr (n : Int) 1 = ((n / 2 : Nat) : Int) := by have := shr_nat n 1; simpa using this
  simp only [hsh, and_1]
  congr 1
  by_cases h : n % 2 = 0
  · simp only [h, if_true, Nat.cast_zero, neg_zero]
    have := xor_nat (n / 2) 0
    simpa using this
  · have h1 : n % 2 = 1 := by omega
    simp only [h1, Nat.cast_one, xor_neg_one, one_ne_zero, if_false]

/-! ### tags: `_serialize_single`, `_len_single`, `load_fields` -/

theorem key_or (num w : Nat) (hw : w < 8) : Py.or (Py.shl (num : Int) 3) (w : Int) = ((num * 8 + w : Nat) : Int) := by
  have hs : Py.shl (num : Int) 3 = ((num * 8 : Nat) : Int) := by have := shl_nat num 3; simpa using this
  rw [hs, or_nat]
  have := Nat.shiftLeft_add_eq_or_of_lt (show w < 2 ^ 3 by simpa using hw) num
  rw [Nat.shiftLeft_eq] at this
  simp only [Nat.reducePow] at this
  rw [← this]

theorem key_shl (num : Nat) : Py.shl (num : Int) 3 = ((num * 8 : Nat) : Int) := by
  have := shl_nat num 3; simpa using this

theorem key_or' (num w : Nat) (hw : w < 8) : Py.or ((num * 8 : Nat) : Int) (w : Int) = ((num * 8 + w : Nat) : Int) := by
  rw [← key_shl, key_or num w hw]

theorem serialize_key_varint_eq (num fuel : Nat) (hf : num * 8 + 2 ^ 64 < fuel) :
    Src.serialize_key_varint fuel (num : Int) = Py.ofR (dumpVarint ((num * 8 : Nat) : Int)) := by
  unfold Src.serialize_key_varint
  rw [key_shl, encode_varint_eq _ _ (by rw [Int.natAbs_natCast]; exact hf)]
  cases dumpVarint ((num * 8 : Nat) : Int) <;> rfl

theorem serialize_key_fixed32_eq (num fuel : Nat) (hf : num * 8 + 5 + 2 ^ 64 < fuel) :
    Src.serialize_key_fixed32 fuel (num : Int) = Py.ofR (dumpVarint ((num * 8 + 5 : Nat) : Int)) := by
  unfold Src.serialize_key_fixed32
  rw [show ((5 : Int)) = ((5 : Nat) : Int) by rfl, key_or num 5 (by decide), encode_varint_eq _ _ (by rw [Int.natAbs_natCast]; exact hf)]
  cases dumpVarint ((num * 8 + 5 : Nat) : Int) <;> rfl

theorem serialize_key_fixed64_eq (num fuel : Nat) (hf : num * 8 + 1 + 2 ^ 64 < fuel) :
    Src.serialize_key_fixed64 fuel (num : Int) = Py.ofR (dumpVarint ((num * 8 + 1 : Nat) : Int)) := by
  unfold Src.serialize_key_fixed64
  rw [show ((1 : Int)) = ((1 : Nat) : Int) by rfl, key_or num 1 (by decide), encode_varint_eq _ _ (by rw [Int.natAbs_natCast]; exact hf)]
  cases dumpVarint ((num * 8 + 1 : Nat) : Int) <;> rfl

/-- the emitting branch of a length-delimited field: `key + varint(len(value)) + value` -/
theorem serialize_lendelim_eq (num fuel : Nat) (value output : Bytes)
    (hf : num * 8 + 2 + value.length + 2 ^ 64 < fuel) :
    Src.serialize_lendelim fuel (num : Int) value output =
      Py.ofR ((dumpVarint ((num * 8 + 2 : Nat) : Int)).bind fun k =>
        (dumpVarint (value.length : Int)).bind fun l => .ok (output ++ (k ++ l ++ value))) := by
  unfold Src.serialize_lendelim
  rw [show ((2 : Int)) = ((2 : Nat) : Int) by rfl, key_or num 2 (by decide),
    encode_varint_eq _ _ (by rw [Int.natAbs_natCast]; omega)]
  have hl : Py.len value = ((value.length : Nat) : Int) := rfl
  rw [hl, encode_varint_eq _ _ (by rw [Int.natAbs_natCast]; omega)]
  cases dumpVarint ((num * 8 + 2 : Nat) : Int) with
  | error e => rfl
  | ok k =>
    cases dumpVarint ((value.length : Nat) : Int) with
    | error e => rfl
    | ok l => simp [Py.ofR, Res.bind, Except.bind]

/-- `number = num_wire >> 3; wire_type = num_wire & 0x7` -/
theorem fields_tag_split_eq (nw fuel : Nat) :
    Src.fields_tag_split fuel (nw : Int) = .ok (((nw / 8 : Nat) : Int), ((nw % 8 : Nat) : Int)) := by
  unfold Src.fields_tag_split
  have hsh : Py.shr (nw : Int) 3 = ((nw / 8 : Nat) : Int) := by have := shr_nat nw 3; simpa using this
  simp only [hsh, and_7]

theorem len_key_varint_eq (num fuel : Nat) (size : Int) :
    Src.len_key_varint fuel (num : Int) size =
      Py.ofR ((sizeVarint ((num * 8 : Nat) : Int)).map fun (n : Nat) => size + (n : Int)) := by
  unfold Src.len_key_varint
  rw [key_shl, size_varint_eq]
  cases sizeVarint ((num * 8 : Nat) : Int) <;> rfl

theorem len_key_fixed32_eq (num fuel : Nat) (size : Int) :
    Src.len_key_fixed32 fuel (num : Int) size =
      Py.ofR ((sizeVarint ((num * 8 + 5 : Nat) : Int)).map fun (n : Nat) => size + (n : Int)) := by
  unfold Src.len_key_fixed32
  rw [show ((5 : Int)) = ((5 : Nat) : Int) by rfl, key_or num 5 (by decide), size_varint_eq]
  cases sizeVarint ((num * 8 + 5 : Nat) : Int) <;> rfl

theorem len_key_fixed64_eq (num fuel : Nat) (size : Int) :
    Src.len_key_fixed64 fuel (num : Int) size =
      Py.ofR ((sizeVarint ((num * 8 + 1 : Nat) : Int)).map fun (n : Nat) => size + (n : Int)) := by
  unfold Src.len_key_fixed64
  rw [show ((1 : Int)) = ((1 : Nat) : Int) by rfl, key_or num 1 (by decide), size_varint_eq]
  cases sizeVarint ((num * 8 + 1 : Nat) : Int) <;> rfl

/-- the emitting branch of `_len_single` for a length-delimited field of preprocessed size `size` -/
theorem len_lendelim_eq (num fuel : Nat) (size : Int) :
    Src.len_lendelim fuel (num : Int) size =
      Py.ofR ((sizeVarint ((num * 8 + 2 : Nat) : Int)).bind fun (k : Nat) =>
        (sizeVarint size).bind fun (l : Nat) => .ok (size + ((k : Int) + (l : Int)))) := by
  unfold Src.len_lendelim
  rw [show ((2 : Int)) = ((2 : Nat) : Int) by rfl, key_or num 2 (by decide), size_varint_eq, size_varint_eq]
  cases sizeVarint ((num * 8 + 2 : Nat) : Int) with
  | error e => rfl
  | ok k =>
    cases sizeVarint size with
    | error e => rfl
    | ok l => rfl

/-- **the whole framing decision of `_serialize_single`** (everything after the call of
    `_preprocess_single`) is the model's `frame`: which key, whether a length prefix, and the
    emission test `len(value) or serialize_empty or wraps` of length-delimited fields -/
theorem serialize_frame_eq (num fuel : Nat) (t : PType) (value : Bytes) (se wraps : Bool)
    (hf : num * 8 + 5 + value.length + 2 ^ 64 < fuel) :
    Src.serialize_frame fuel (num : Int) t value se wraps = Py.ofR (frame num t value se wraps) := by
  unfold Src.serialize_frame frame
  have e5 : ((5 : Int)) = ((5 : Nat) : Int) := rfl
  have e1 : ((1 : Int)) = ((1 : Nat) : Int) := rfl
  have e2 : ((2 : Int)) = ((2 : Nat) : Int) := rfl
  have hl : Py.len value = ((value.length : Nat) : Int) := rfl
  have hne : (decide (((value.length : Nat) : Int) ≠ 0)) = (value.length != 0) := by
    by_cases h : value.length = 0 <;> simp [h]
  simp only [key_shl, e5, e1, e2, key_or' num 5 (by decide), key_or' num 1 (by decide), key_or' num 2 (by decide), hne, hl,
    List.nil_append]
  by_cases h1 : Gen.wireVarintTypes.contains t = true
  · simp only [h1, if_true]
    rw [encode_varint_eq _ _ (by rw [Int.natAbs_natCast]; omega)]
    cases dumpVarint ((num * 8 : Nat) : Int) <;> rfl
  · simp only [h1, Bool.false_eq_true, if_false]
    by_cases h2 : Gen.wireFixed32Types.contains t = true
    · simp only [h2, if_true]
      rw [encode_varint_eq _ _ (by rw [Int.natAbs_natCast]; omega)]
      cases dumpVarint ((num * 8 + 5 : Nat) : Int) <;> rfl
    · simp only [h2, Bool.false_eq_true, if_false]
      by_cases h3 : Gen.wireFixed64Types.contains t = true
      · simp only [h3, if_true]
        rw [encode_varint_eq _ _ (by rw [Int.natAbs_natCast]; omega)]
        cases dumpVarint ((num * 8 + 1 : Nat) : Int) <;> rfl
      · simp only [h3, Bool.false_eq_true, if_false]
        by_cases h4 : Gen.wireLenDelimTypes.contains t = true
        · simp only [h4, if_true]
          by_cases h5 : (value.length != 0 || se || wraps) = true
          · simp only [h5, if_true]
            rw [encode_varint_eq _ _ (by rw [Int.natAbs_natCast]; omega),
              encode_varint_eq _ _ (by rw [Int.natAbs_natCast]; omega)]
            cases dumpVarint ((num * 8 + 2 : Nat) : Int) with
            | error e => rfl
            | ok k =>
              cases dumpVarint ((value.length : Nat) : Int) with
              | error e => rfl
              | ok l => simp [Py.ofR, Res.bind, Except.bind]
          · simp only [h5, Bool.false_eq_true, if_false]; rfl
        · simp only [h4, Bool.false_eq_true, if_false]; rfl

/-- **the whole framing decision of `_len_single`** is the model's `lenFrame` -/
theorem len_frame_eq (num fuel : Nat) (t : PType) (size : Nat) (se wraps : Bool) :
    Src.len_frame fuel (num : Int) t (size : Int) se wraps =
      Py.ofR ((lenFrame num t size se wraps).map fun (n : Nat) => (n : Int)) := by
  unfold Src.len_frame lenFrame
  have e5 : ((5 : Int)) = ((5 : Nat) : Int) := rfl
  have e1 : ((1 : Int)) = ((1 : Nat) : Int) := rfl
  have e2 : ((2 : Int)) = ((2 : Nat) : Int) := rfl
  have hne : (decide ((size : Int) ≠ 0)) = (size != 0) := by
    by_cases h : size = 0 <;> simp [h]
  simp only [key_shl, e5, e1, e2, key_or' num 5 (by decide), key_or' num 1 (by decide), key_or' num 2 (by decide), hne,
    size_varint_eq]
  by_cases h1 : Gen.wireVarintTypes.contains t = true
  · simp only [h1, if_true]
    cases sizeVarint ((num * 8 : Nat) : Int) <;> simp [Py.ofR, Res.bind, Except.bind, Except.map]
  · simp only [h1, Bool.false_eq_true, if_false]
    by_cases h2 : Gen.wireFixed32Types.contains t = true
    · simp only [h2, if_true]
      cases sizeVarint ((num * 8 + 5 : Nat) : Int) <;> simp [Py.ofR, Res.bind, Except.bind, Except.map]
    · simp only [h2, Bool.false_eq_true, if_false]
      by_cases h3 : Gen.wireFixed64Types.contains t = true
      · simp only [h3, if_true]
        cases sizeVarint ((num * 8 + 1 : Nat) : Int) <;> simp [Py.ofR, Res.bind, Except.bind, Except.map]
      · simp only [h3, Bool.false_eq_true, if_false]
        by_cases h4 : Gen.wireLenDelimTypes.contains t = true
        · simp only [h4, if_true]
          by_cases h5 : (size != 0 || se || wraps) = true
          · simp only [h5, if_true]
            cases sizeVarint ((num * 8 + 2 : Nat) : Int) with
            | error e => simp [Py.ofR, Res.bind, Except.bind, Except.map]
            | ok k =>
              cases sizeVarint ((size : Nat) : Int) with
              | error e => simp [Py.ofR, Res.bind, Except.bind, Except.map]
              | ok l => simp [Py.ofR, Res.bind, Except.bind, Except.map]
          · simp only [h5, Bool.false_eq_true, if_false]; simp [Py.ofR, Except.map]
        · simp only [h4, Bool.false_eq_true, if_false]; simp [Py.ofR, Except.map]

/-! ### `_read_exact` and `load_fields` (the framing loop) -/
open Gen

theorem read_exact_eq (s : Bytes) (n fuel : Nat) :
    Src._read_exact fuel s (n : Int) = if s.length < n then .raise .eof else .ok (s.take n, s.drop n) := by
  unfold Src._read_exact
  simp only [Py.take, Py.drop, Py.len, Int.toNat_natCast]
  by_cases h : s.length < n
  · have : ((s.take n).length : Int) ≠ (n : Int) := by
      rw [List.length_take]; omega
    simp [h, this]
  · have : ((s.take n).length : Int) = (n : Int) := by
      rw [List.length_take]; omega
    simp [h, this]

theorem wf_drop (bs : Bytes) (hw : WfBytes bs) (k : Nat) : WfBytes (bs.drop k) :=
  fun x hx => hw x (List.mem_of_mem_drop hx)

/-- one iteration of the `while True:` loop of `load_fields` on a non-empty stream: it raises what
    the model's `loadField` raises, or goes on with the parsed field appended and the model's
    remaining input -/
theorem fields_step (b0 : Nat) (rest : Bytes) (acc : List PField) (fuel : Nat)
    (hw : WfBytes (b0 :: rest)) (hf : 10 < fuel) :
    Src.load_fields.loop1 (fuel + 1) (b0 :: rest) acc =
      match loadField (b0 :: rest) with
      | .error e => .raise e
      | .ok (pf, rest') => Src.load_fields.loop1 fuel rest' (acc ++ [pf]) := by
  conv => lhs; unfold Src.load_fields.loop1
  unfold loadField
  have htake : Py.take (b0 :: rest) 1 = [b0] := by simp [Py.take]
  have hdrop : Py.drop (b0 :: rest) 1 = rest := by simp [Py.drop]
  simp only [htake, hdrop, List.isEmpty_cons, Bool.not_false, Bool.not_true, Bool.false_eq_true, if_false,
    load_varint_first_eq b0 rest hw fuel hf]
  cases hv : loadVarint (b0 :: rest) with
  | error e => simp [Res.bind]
  | ok p =>
    obtain ⟨nw, k⟩ := p
    have hsh : Py.shr (nw : Int) 3 = ((nw / 8 : Nat) : Int) := by have := shr_nat nw 3; simpa using this
    simp only [Res.bind, hsh, and_7]
    by_cases hz : nw / 8 = 0
    · simp [hz]
    · have hz' : ¬ ((nw / 8 : Nat) : Int) = 0 := by omega
      have hzb : (nw / 8 == 0) = false := by simpa using hz
      simp only [hz', decide_false, Bool.false_eq_true, if_false, hzb]
      have hws : WfBytes ((b0 :: rest).drop k) := wf_drop _ hw k
      generalize hbs : (b0 :: rest) = bs at *
      have h8 : nw % 8 < 8 := Nat.mod_lt _ (by decide)
      have hcases : nw % 8 = 0 ∨ nw % 8 = 1 ∨ nw % 8 = 2 ∨ nw % 8 = 5 ∨ (nw % 8 = 3 ∨ nw % 8 = 4 ∨ nw % 8 = 6 ∨ nw % 8 = 7) := by omega
      rcases hcases with h | h | h | h | h
      · -- varint payload
        simp only [h, loadPayload, wireVarint, Nat.cast_zero, decide_true, if_true, beq_self_eq_true,
          load_varint_eq _ hws fuel hf]
        cases hv2 : loadVarint (bs.drop k) with
        | error e => simp [Res.bind]
        | ok q =>
          obtain ⟨v2, k2⟩ := q
          simp only [Res.bind, Int.toNat_natCast, List.drop_drop, ← List.take_add]
          simp
      · -- fixed64
        have e8 : ((8 : Nat) : Int) = (8 : Int) := rfl
        simp only [h, loadPayload, wireVarint, wireFixed64, Nat.cast_one, ← e8, read_exact_eq, Int.toNat_natCast]
        by_cases hl : (bs.drop k).length < 8
        · have hl' : bs.length - k < 8 := by simpa using hl
          simp [hl']
        · have hl' : ¬ bs.length - k < 8 := by simpa using hl
          simp [hl', List.drop_drop, ← List.take_add]
      · -- length-delimited
        simp only [h, loadPayload, wireVarint, wireFixed64, wireLenDelim, load_varint_eq _ hws fuel hf, Int.toNat_natCast]
        cases hv2 : loadVarint (bs.drop k) with
        | error e => simp [Res.bind]
        | ok q =>
          obtain ⟨len, k2⟩ := q
          simp only [Res.bind, read_exact_eq]
          by_cases hl : ((bs.drop k).drop k2).length < len
          · have hl' : bs.length - (k + k2) < len := by simpa [List.length_drop, Nat.sub_sub] using hl
            simp [hl', Nat.sub_sub]
          · have hl' : ¬ bs.length - (k + k2) < len := by simpa [List.length_drop, Nat.sub_sub] using hl
            simp [hl', Nat.sub_sub, List.drop_drop, ← List.take_add, List.append_assoc, Nat.add_assoc]
      · -- fixed32
        have e4 : ((4 : Nat) : Int) = (4 : Int) := rfl
        simp only [h, loadPayload, wireVarint, wireFixed64, wireLenDelim, wireFixed32, ← e4, read_exact_eq, Int.toNat_natCast]
        by_cases hl : (bs.drop k).length < 4
        · have hl' : bs.length - k < 4 := by simpa using hl
          simp [hl']
        · have hl' : ¬ bs.length - k < 4 := by simpa using hl
          simp [hl', List.drop_drop, ← List.take_add]
      · rcases h with h | h | h | h <;>
          simp [h, loadPayload, wireVarint, wireFixed64, wireLenDelim, wireFixed32]

/-- **`load_fields` is `loadFields`**: on every byte string the generator, run to the end, has
    yielded exactly the model's fields (appended to whatever was yielded before) and consumed the
    whole stream — or raises what the model raises -/
theorem load_fields_loop (n : Nat) : ∀ (bs : Bytes) (acc : List PField) (fuel : Nat), bs.length ≤ n → WfBytes bs →
    bs.length + 11 < fuel →
    Src.load_fields.loop1 fuel bs acc =
      match loadFields bs with
      | .ok pfs => .ok (acc ++ pfs, [])
      | .error e => .raise e := by
  induction n with
  | zero =>
    intro bs acc fuel hn hw hf
    have : bs = [] := List.eq_nil_of_length_eq_zero (by omega)
    subst this
    obtain ⟨f, rfl⟩ : ∃ f, fuel = f + 1 := ⟨fuel - 1, by omega⟩
    unfold Src.load_fields.loop1
    simp [Py.take, Py.drop, loadFields_nil]
  | succ n ih =>
    intro bs acc fuel hn hw hf
    cases bs with
    | nil =>
      obtain ⟨f, rfl⟩ : ∃ f, fuel = f + 1 := ⟨fuel - 1, by omega⟩
      unfold Src.load_fields.loop1
      simp [Py.take, Py.drop, loadFields_nil]
    | cons b0 rest =>
      obtain ⟨f, rfl⟩ : ∃ f, fuel = f + 1 := ⟨fuel - 1, by omega⟩
      simp only [List.length_cons] at hn hf
      rw [fields_step b0 rest acc f hw (by omega)]
      cases hlf : loadField (b0 :: rest) with
      | error e => rw [loadFields_cons_err _ e (by simp) hlf]
      | ok r =>
        obtain ⟨pf, rest'⟩ := r
        have ok := loadField_ok _ _ _ hlf
        have hlen : rest'.length < (b0 :: rest).length := by
          have := congrArg List.length ok.raw_rest
          simp only [List.length_append] at this
          have := ok.raw_pos
          omega
        simp only [List.length_cons] at hlen
        have hw' : WfBytes rest' := by
          intro x hx
          apply hw x
          rw [← ok.raw_rest]
          exact List.mem_append_right _ hx
        rw [loadFields_cons _ pf rest' (by simp) hlf]
        simp only
        rw [ih rest' (acc ++ [pf]) f (by omega) hw' (by omega)]
        cases loadFields rest' with
        | error e => rfl
        | ok pfs => simp [Except.bind, bind]

theorem load_fields_eq (bs : Bytes) (hw : WfBytes bs) (fuel : Nat) (hf : bs.length + 11 < fuel) :
    Src.load_fields fuel bs =
      match loadFields bs with
      | .ok pfs => .ok (pfs, [])
      | .error e => .raise e := by
  unfold Src.load_fields
  have := load_fields_loop bs.length bs [] fuel (Nat.le_refl _) hw hf
  simpa using this

end Bp.SrcTie
