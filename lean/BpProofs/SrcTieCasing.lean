import BpProofs.Gen.SrcCasing
import BpProofs.Casing
import BpProofs.CasingClass
/-
  The translated source of src/betterproto/casing.py (BpProofs/Gen/SrcCasing.lean: the two regular expressions parsed
  from the source, the `substitute_word` closures, `camel_case`, `lowercase_first`, `sanitize_name`,
  `safe_snake_case`) EQUALS the model (BpModel/Casing.lean), for every string.

  Core: under the semantics of BpProofs/PyRegex.lean, ONE match of
      ([^a-zA-Z0-9]*)([A-Z]+(?![a-z])[0-9]*|[A-Z]*[a-z]*[0-9]*)
  on a non-empty input `s` consumes `sy ++ w` with `s = sy ++ w ++ rest`, and the tokenizer satisfies
  `tokens s = emit w (tokens rest)` (`body_sim`).  The character sets are disjoint, so the greedy first path of
  every `*` is the one that succeeds — except for `[A-Z]+(?![a-z])`, where the look-ahead makes the `+` give one
  capital back (`up_sim`, the `up pre last` state of `go`) or makes WORD_UPPER fail altogether (one capital
  followed by a lower-case letter: the alternative WORD matches).  Every match before the end of the input is
  non-empty, so the matches tile the input; at the end there is one more, empty, match (allowed after a
  non-empty one; its word is empty and is replaced by ""), after which `must_advance` ends the loop.
-/
namespace Bp.SrcTieCasing
open Bp Bp.Casing Bp.PyRe
open Bp.Importing (Str)

/-! ### the character sets of the patterns are the model's classes -/

def setSym : CSet := ⟨true, [('a', 'z'), ('A', 'Z'), ('0', '9')]⟩
def setUp : CSet := ⟨false, [('A', 'Z')]⟩
def setLo : CSet := ⟨false, [('a', 'z')]⟩
def setDg : CSet := ⟨false, [('0', '9')]⟩

theorem char_le_iff (a b : Char) : a ≤ b ↔ a.toNat ≤ b.toNat := by
  rw [Char.le_def, UInt32.le_iff_toNat_le]; rfl

theorem range_up : ∀ n, n < 91 → 65 ≤ n → Char.ofNat n ∈ uppers := by decide
theorem range_lo : ∀ n, n < 123 → 97 ≤ n → Char.ofNat n ∈ lowers := by decide
theorem range_dg : ∀ n, n < 58 → 48 ≤ n → Char.ofNat n ∈ digits := by decide
theorem up_range : ∀ c ∈ uppers, 'A' ≤ c ∧ c ≤ 'Z' := by decide
theorem lo_range : ∀ c ∈ lowers, 'a' ≤ c ∧ c ≤ 'z' := by decide
theorem dg_range : ∀ c ∈ digits, '0' ≤ c ∧ c ≤ '9' := by decide

theorem in_up (c : Char) : ('A' ≤ c ∧ c ≤ 'Z') ↔ cls c = .up := by
  rw [cls_up_iff]
  refine ⟨fun ⟨h1, h2⟩ => ?_, up_range c⟩
  rw [char_le_iff] at h1 h2
  have := range_up c.toNat (Nat.lt_succ_of_le h2) h1
  rwa [Char.ofNat_toNat] at this

theorem in_lo (c : Char) : ('a' ≤ c ∧ c ≤ 'z') ↔ cls c = .lo := by
  rw [cls_lo_iff]
  refine ⟨fun ⟨h1, h2⟩ => ?_, lo_range c⟩
  rw [char_le_iff] at h1 h2
  have := range_lo c.toNat (Nat.lt_succ_of_le h2) h1
  rwa [Char.ofNat_toNat] at this

theorem in_dg (c : Char) : ('0' ≤ c ∧ c ≤ '9') ↔ cls c = .dg := by
  rw [cls_dg_iff]
  refine ⟨fun ⟨h1, h2⟩ => ?_, dg_range c⟩
  rw [char_le_iff] at h1 h2
  have := range_dg c.toNat (Nat.lt_succ_of_le h2) h1
  rwa [Char.ofNat_toNat] at this

theorem rng_up (c : Char) : (decide ('A' ≤ c) && decide (c ≤ 'Z')) = decide (cls c = .up) := by
  rw [← Bool.decide_and]; exact decide_eq_decide.2 (in_up c)
theorem rng_lo (c : Char) : (decide ('a' ≤ c) && decide (c ≤ 'z')) = decide (cls c = .lo) := by
  rw [← Bool.decide_and]; exact decide_eq_decide.2 (in_lo c)
theorem rng_dg (c : Char) : (decide ('0' ≤ c) && decide (c ≤ '9')) = decide (cls c = .dg) := by
  rw [← Bool.decide_and]; exact decide_eq_decide.2 (in_dg c)

theorem mem_up (c : Char) : setUp.mem c = decide (cls c = .up) := by
  simp only [setUp, CSet.mem, List.any_cons, List.any_nil, Bool.or_false, rng_up, Bool.false_bne]

theorem mem_lo (c : Char) : setLo.mem c = decide (cls c = .lo) := by
  simp only [setLo, CSet.mem, List.any_cons, List.any_nil, Bool.or_false, rng_lo, Bool.false_bne]

theorem mem_dg (c : Char) : setDg.mem c = decide (cls c = .dg) := by
  simp only [setDg, CSet.mem, List.any_cons, List.any_nil, Bool.or_false, rng_dg, Bool.false_bne]

theorem mem_sym (c : Char) : setSym.mem c = decide (cls c = .sym) := by
  simp only [setSym, CSet.mem, List.any_cons, List.any_nil, Bool.or_false, rng_up, rng_lo, rng_dg]
  cases h : cls c <;> simp

theorem up_mem {c : Char} (h : cls c = .up) : setUp.mem c = true := by rw [mem_up]; exact decide_eq_true h
theorem lo_mem {c : Char} (h : cls c = .lo) : setLo.mem c = true := by rw [mem_lo]; exact decide_eq_true h
theorem dg_mem {c : Char} (h : cls c = .dg) : setDg.mem c = true := by rw [mem_dg]; exact decide_eq_true h
theorem sym_mem {c : Char} (h : cls c = .sym) : setSym.mem c = true := by rw [mem_sym]; exact decide_eq_true h
theorem up_not {c : Char} (h : cls c ≠ .up) : setUp.mem c = false := by rw [mem_up]; exact decide_eq_false h
theorem lo_not {c : Char} (h : cls c ≠ .lo) : setLo.mem c = false := by rw [mem_lo]; exact decide_eq_false h
theorem dg_not {c : Char} (h : cls c ≠ .dg) : setDg.mem c = false := by rw [mem_dg]; exact decide_eq_false h
theorem sym_not {c : Char} (h : cls c ≠ .sym) : setSym.mem c = false := by rw [mem_sym]; exact decide_eq_false h

/-! ### the greedy `*` on the runs the tokenizer follows -/

theorem orElse_some {α} (r : α) (f : Unit → Option α) : (some r).orElse f = some r := rfl
theorem orElse_none {α} (f : Unit → Option α) : (none : Option α).orElse f = f () := rfl

theorem star_nil (cs : CSet) (k : Nat → Str → Option Match) (pos : Nat) : starSet cs k pos [] = k pos [] := rfl
theorem star_in {cs : CSet} {c : Char} (h : cs.mem c = true) (k : Nat → Str → Option Match) (pos : Nat) (s : Str) :
    starSet cs k pos (c :: s) = (starSet cs k (pos + 1) s).orElse fun _ => k pos (c :: s) := by
  rw [starSet, if_pos h]
theorem star_out {cs : CSet} {c : Char} (h : cs.mem c = false) (k : Nat → Str → Option Match) (pos : Nat) (s : Str) :
    starSet cs k pos (c :: s) = k pos (c :: s) := by
  rw [starSet, if_neg (by simp [h])]

theorem emit_snoc (pre : List Char) (l : Char) (r : List (List Char)) : emit (pre ++ [l]) r = (pre ++ [l]) :: r := by
  cases pre <;> rfl
theorem emit_nil (r : List (List Char)) : emit [] r = r := rfl

theorem len_cons (pos : Nat) (c : Char) (x : Str) : pos + 1 + x.length = pos + (c :: x).length := by
  simp only [List.length_cons]; omega

/-- the input is empty or begins with a character that is not of class `k` -/
def NotHead (k : Cls) : Str → Prop
  | [] => True
  | c :: _ => cls c ≠ k

/-- inside `[0-9]*` (state `dg cur` of the tokenizer): the digits `x` that follow are consumed, the word closes -/
theorem dg_sim : ∀ (s cur : Str), ∃ x rest, s = x ++ rest ∧ go (.dg cur) s = (cur ++ x) :: go .sym rest ∧
    ∀ (k : Nat → Str → Option Match) (pos : Nat) (r : Match), k (pos + x.length) rest = some r →
      starSet setDg k pos s = some r := by
  intro s
  induction s with
  | nil => intro cur; exact ⟨[], [], rfl, by simp [go], fun k pos r h => h⟩
  | cons c s ih =>
    intro cur
    by_cases h : cls c = .dg
    · obtain ⟨x, rest, hs, hgo, hm⟩ := ih (cur ++ [c])
      refine ⟨c :: x, rest, by rw [hs]; rfl, by simp [go, h, hgo], fun k pos r hk => ?_⟩
      rw [star_in (dg_mem h), hm k (pos + 1) r (by rw [len_cons]; exact hk)]
      rfl
    · refine ⟨[], c :: s, rfl, ?_, fun k pos r hk => ?_⟩
      · cases hc : cls c <;> simp_all [go]
      · rw [star_out (dg_not h)]; exact hk

/-- inside `[a-z]*` (state `lo cur`): lower-case letters then digits are consumed, the word closes -/
theorem lo_sim : ∀ (s cur : Str), ∃ x rest, s = x ++ rest ∧ go (.lo cur) s = (cur ++ x) :: go .sym rest ∧
    ∀ (k : Nat → Str → Option Match) (pos : Nat) (r : Match), k (pos + x.length) rest = some r →
      starSet setLo (fun p s' => starSet setDg k p s') pos s = some r := by
  intro s
  induction s with
  | nil => intro cur; exact ⟨[], [], rfl, by simp [go], fun k pos r h => h⟩
  | cons c s ih =>
    intro cur
    by_cases h : cls c = .lo
    · obtain ⟨x, rest, hs, hgo, hm⟩ := ih (cur ++ [c])
      refine ⟨c :: x, rest, by rw [hs]; rfl, by simp [go, h, hgo], fun k pos r hk => ?_⟩
      rw [star_in (lo_mem h), hm k (pos + 1) r (by rw [len_cons]; exact hk)]
      rfl
    · by_cases hd : cls c = .dg
      · obtain ⟨x, rest, hs, hgo, hm⟩ := dg_sim s (cur ++ [c])
        refine ⟨c :: x, rest, by rw [hs]; rfl, by simp [go, hd, hgo], fun k pos r hk => ?_⟩
        rw [star_out (lo_not h), star_in (dg_mem hd), hm k (pos + 1) r (by rw [len_cons]; exact hk)]
        rfl
      · refine ⟨[], c :: s, rfl, ?_, fun k pos r hk => ?_⟩
        · cases hc : cls c <;> simp_all [go]
        · rw [star_out (lo_not h), star_out (dg_not hd)]; exact hk

/-- what follows `[A-Z]+` in WORD_UPPER: `(?![a-z])[0-9]*` -/
def ahead (k : Nat → Str → Option Match) : Nat → Str → Option Match := fun p s =>
  match s with
  | c :: _ => if setLo.mem c then none else starSet setDg k p s
  | [] => starSet setDg k p s

theorem ahead_lo {c : Char} (h : cls c = .lo) (k : Nat → Str → Option Match) (p : Nat) (s : Str) :
    ahead k p (c :: s) = none := by
  simp only [ahead, lo_mem h, if_true]
theorem ahead_other {c : Char} (h : cls c ≠ .lo) (k : Nat → Str → Option Match) (p : Nat) (s : Str) :
    ahead k p (c :: s) = starSet setDg k p (c :: s) := by
  simp only [ahead, lo_not h, Bool.false_eq_true, if_false]

/-- inside `[A-Z]+` of WORD_UPPER (state `up pre l`).  EITHER the word closes after `x` more characters —
    capitals then digits, or (`x = []`, `rest` = the last capital and a lower-case letter …) the look-ahead has
    made the `+` give back its last capital — OR the next character is a lower-case letter, the `+` has nothing
    to give back, and WORD_UPPER fails. -/
theorem up_sim : ∀ (t pre : Str) (l : Char),
    (∃ x rest, t = x ++ rest ∧ go (.up pre l) t = (pre ++ l :: x) :: go .sym rest ∧
      ∀ (k : Nat → Str → Option Match) (pos : Nat) (r : Match), k (pos + x.length) rest = some r →
        starSet setUp (ahead k) pos t = some r) ∨
    (∃ c2 t2, t = c2 :: t2 ∧ cls c2 = .lo ∧ ∀ (k : Nat → Str → Option Match) (pos : Nat), starSet setUp (ahead k) pos t = none) := by
  intro t
  induction t with
  | nil =>
    intro pre l
    exact .inl ⟨[], [], rfl, by simp [go], fun k pos r h => h⟩
  | cons c t ih =>
    intro pre l
    cases h : cls c with
    | up =>
      rcases ih (pre ++ [l]) c with ⟨x, rest, ht, hgo, hm⟩ | ⟨c2, t2, ht, hc2, hnone⟩
      · refine .inl ⟨c :: x, rest, by rw [ht]; rfl, by simp [go, h, hgo], fun k pos r hk => ?_⟩
        rw [star_in (up_mem h), hm k (pos + 1) r (by rw [len_cons]; exact hk)]
        rfl
      · subst ht
        refine .inl ⟨[], c :: c2 :: t2, rfl, ?_, fun k pos r hk => ?_⟩
        · simp only [go, h, hc2, emit_snoc, emit_nil]
        · have hlo : cls c ≠ .lo := by rw [h]; decide
          have hdg : cls c ≠ .dg := by rw [h]; decide
          rw [star_in (up_mem h), hnone k (pos + 1), orElse_none, ahead_other hlo, star_out (dg_not hdg)]
          exact hk
    | lo =>
      refine .inr ⟨c, t, rfl, h, fun k pos => ?_⟩
      have hup : cls c ≠ .up := by rw [h]; decide
      rw [star_out (up_not hup), ahead_lo h]
    | dg =>
      obtain ⟨x, rest, hs, hgo, hm⟩ := dg_sim t (pre ++ [l, c])
      refine .inl ⟨c :: x, rest, by rw [hs]; rfl, by simp [go, h, hgo], fun k pos r hk => ?_⟩
      have hup : cls c ≠ .up := by rw [h]; decide
      have hlo : cls c ≠ .lo := by rw [h]; decide
      rw [star_out (up_not hup), ahead_other hlo, star_in (dg_mem h), hm k (pos + 1) r (by rw [len_cons]; exact hk)]
      rfl
    | sym =>
      refine .inl ⟨[], c :: t, rfl, by simp [go, h], fun k pos r hk => ?_⟩
      have hup : cls c ≠ .up := by rw [h]; decide
      have hlo : cls c ≠ .lo := by rw [h]; decide
      have hdg : cls c ≠ .dg := by rw [h]; decide
      rw [star_out (up_not hup), ahead_other hlo, star_out (dg_not hdg)]
      exact hk

/-! ### one match of `([^a-zA-Z0-9]*)(WORD_UPPER|WORD)` -/

/-- `[A-Z]+(?![a-z])[0-9]*` -/
def wordUpper : Re := .seq (.plus setUp) (.seq (.notAhead (.set setLo)) (.star setDg))
/-- `[A-Z]*[a-z]*[0-9]*` -/
def word : Re := .seq (.star setUp) (.seq (.star setLo) (.star setDg))
/-- `([^a-zA-Z0-9]*)(WORD_UPPER|WORD)` with group numbers i, j -/
def body (i j : Nat) : Re := .seq (.group i (.star setSym)) (.group j (.alt wordUpper word))

theorem m_seq (a b : Re) (pos : Nat) (s : Str) (caps : Caps) (K : K) :
    m (.seq a b) pos s caps K = m a pos s caps fun p s' c => m b p s' c K := by simp only [m]
theorem m_alt (a b : Re) (pos : Nat) (s : Str) (caps : Caps) (K : K) :
    m (.alt a b) pos s caps K = (m a pos s caps K).orElse fun _ => m b pos s caps K := by simp only [m]
theorem m_star (cs : CSet) (pos : Nat) (s : Str) (caps : Caps) (K : K) :
    m (.star cs) pos s caps K = starSet cs (fun p s' => K p s' caps) pos s := by simp only [m]
theorem m_group (i : Nat) (a : Re) (pos : Nat) (s : Str) (caps : Caps) (K : K) :
    m (.group i a) pos s caps K = m a pos s caps fun p s' c => K p s' ((i, s.take (p - pos)) :: c) := by simp only [m]
theorem m_set_nil (cs : CSet) (pos : Nat) (caps : Caps) (K : K) : m (.set cs) pos [] caps K = none := by simp only [m]
theorem m_set_cons (cs : CSet) (pos : Nat) (c : Char) (t : Str) (caps : Caps) (K : K) :
    m (.set cs) pos (c :: t) caps K = if cs.mem c then K (pos + 1) t caps else none := by simp only [m]
theorem m_ahead (pos : Nat) (s : Str) (caps : Caps) (K : K) :
    m (.seq (.notAhead (.set setLo)) (.star setDg)) pos s caps K = ahead (fun p s' => K p s' caps) pos s := by
  cases s with
  | nil => simp only [m, ahead]
  | cons c t =>
    by_cases h : setLo.mem c = true
    · simp only [m, ahead, h, if_true]
    · simp [m, ahead, h]

theorem m_wordUpper_nil (pos : Nat) (caps : Caps) (K : K) : m wordUpper pos [] caps K = none := by
  rw [wordUpper, Re.plus, m_seq, m_seq, m_set_nil]

theorem m_wordUpper_out {c : Char} (h : cls c ≠ .up) (pos : Nat) (t : Str) (caps : Caps) (K : K) :
    m wordUpper pos (c :: t) caps K = none := by
  rw [wordUpper, Re.plus, m_seq, m_seq, m_set_cons, up_not h]; rfl

theorem m_wordUpper_in {c : Char} (h : cls c = .up) (pos : Nat) (t : Str) (caps : Caps) (K : K) :
    m wordUpper pos (c :: t) caps K = starSet setUp (ahead fun p s' => K p s' caps) (pos + 1) t := by
  have e : (fun pos' s' => m (.seq (.notAhead (.set setLo)) (.star setDg)) pos' s' caps K)
      = ahead (fun p s' => K p s' caps) := by
    funext p s'; exact m_ahead p s' caps K
  rw [wordUpper, Re.plus, m_seq, m_seq, m_set_cons, up_mem h, if_pos rfl, m_star, e]

theorem m_word (pos : Nat) (s : Str) (caps : Caps) (K : K) :
    m word pos s caps K
      = starSet setUp (fun p1 s1 => starSet setLo (fun p2 s2 => starSet setDg (fun p3 s3 => K p3 s3 caps) p2 s2) p1 s1) pos s := by
  simp only [word, m_seq, m_star]

/-- the word group on an input that does not begin with a symbol: it consumes `w`, which is the first word of
    the tokenizer (empty only at the end of the input) -/
theorem word_sim : ∀ s1 : Str, NotHead .sym s1 → ∃ w rest, s1 = w ++ rest ∧ go .sym s1 = emit w (go .sym rest) ∧
    (w = [] → s1 = []) ∧
    ∀ (K : K) (pos : Nat) (caps : Caps) (r : Match), K (pos + w.length) rest caps = some r →
      m (.alt wordUpper word) pos s1 caps K = some r := by
  intro s1 hs
  cases s1 with
  | nil =>
    refine ⟨[], [], rfl, rfl, fun _ => rfl, fun K pos caps r hk => ?_⟩
    rw [m_alt, m_wordUpper_nil, orElse_none, m_word, star_nil, star_nil, star_nil]
    exact hk
  | cons c t =>
    cases h : cls c with
    | sym => exact absurd h hs
    | lo =>
      obtain ⟨x, rest, ht, hgo, hm⟩ := lo_sim t [c]
      have hup : cls c ≠ .up := by rw [h]; decide
      refine ⟨c :: x, rest, by rw [ht]; rfl, by simp [go, h, hgo, emit], fun e => by simp at e, fun K pos caps r hk => ?_⟩
      rw [m_alt, m_wordUpper_out hup, orElse_none, m_word, star_out (up_not hup), star_in (lo_mem h),
        hm _ (pos + 1) r (by rw [len_cons]; exact hk)]
      rfl
    | dg =>
      obtain ⟨x, rest, ht, hgo, hm⟩ := dg_sim t [c]
      have hup : cls c ≠ .up := by rw [h]; decide
      have hlo : cls c ≠ .lo := by rw [h]; decide
      refine ⟨c :: x, rest, by rw [ht]; rfl, by simp [go, h, hgo, emit], fun e => by simp at e, fun K pos caps r hk => ?_⟩
      rw [m_alt, m_wordUpper_out hup, orElse_none, m_word, star_out (up_not hup), star_out (lo_not hlo),
        star_in (dg_mem h), hm _ (pos + 1) r (by rw [len_cons]; exact hk)]
      rfl
    | up =>
      rcases up_sim t [] c with ⟨x, rest, ht, hgo, hm⟩ | ⟨c2, t2, ht, hc2, hnone⟩
      · refine ⟨c :: x, rest, by rw [ht]; rfl, by simp [go, h, hgo, emit], fun e => by simp at e, fun K pos caps r hk => ?_⟩
        rw [m_alt, m_wordUpper_in h, hm _ (pos + 1) r (by rw [len_cons]; exact hk)]
        rfl
      · subst ht
        obtain ⟨x, rest, ht, hgo, hm⟩ := lo_sim t2 [c, c2]
        have hup2 : cls c2 ≠ .up := by rw [hc2]; decide
        refine ⟨c :: c2 :: x, rest, by rw [ht]; rfl, by simp [go, h, hc2, hgo, emit], fun e => by simp at e,
          fun K pos caps r hk => ?_⟩
        rw [m_alt, m_wordUpper_in h, hnone, orElse_none, m_word, star_in (up_mem h), star_out (up_not hup2),
          star_in (lo_mem hc2), hm _ (pos + 1 + 1) r (by rw [len_cons, len_cons]; exact hk)]
        rfl

/-- the symbols group: it consumes the leading symbols, which the tokenizer skips -/
theorem sym_sim : ∀ s : Str, ∃ sy s1, s = sy ++ s1 ∧ NotHead .sym s1 ∧ go .sym s = go .sym s1 ∧
    ∀ (k : Nat → Str → Option Match) (pos : Nat) (r : Match), k (pos + sy.length) s1 = some r →
      starSet setSym k pos s = some r := by
  intro s
  induction s with
  | nil => exact ⟨[], [], rfl, trivial, rfl, fun k pos r h => h⟩
  | cons c s ih =>
    by_cases h : cls c = .sym
    · obtain ⟨sy, s1, hs, hn, hgo, hm⟩ := ih
      refine ⟨c :: sy, s1, by rw [hs]; rfl, hn, by simp [go, h, hgo], fun k pos r hk => ?_⟩
      rw [star_in (sym_mem h), hm k (pos + 1) r (by rw [len_cons]; exact hk)]
      rfl
    · exact ⟨[], c :: s, rfl, h, rfl, fun k pos r hk => by rw [star_out (sym_not h)]; exact hk⟩

/-- **one match and one tokenizer step.**  On every input `s` the pattern `([^a-zA-Z0-9]*)(WORD_UPPER|WORD)`
    consumes `sy ++ w` (symbols, word), reports them as its two groups, and `w` is the tokenizer's first word:
    `tokens s = emit w (tokens rest)`.  The match is non-empty unless `s` is empty, and the word is empty only
    when the symbols reach the end of the input. -/
theorem body_sim (s : Str) : ∃ sy w rest, s = sy ++ (w ++ rest) ∧ tokens s = emit w (tokens rest) ∧
    (w = [] → rest = []) ∧ (s ≠ [] → sy.length + w.length ≠ 0) ∧
    ∀ (i j : Nat) (K : K) (pos : Nat) (caps : Caps) (r : Match),
      K (pos + (sy.length + w.length)) rest ((j, w) :: (i, sy) :: caps) = some r →
        m (body i j) pos s caps K = some r := by
  obtain ⟨sy, s1, hs, hn, hgo, hm⟩ := sym_sim s
  obtain ⟨w, rest, hs1, hgo1, hw, hm1⟩ := word_sim s1 hn
  refine ⟨sy, w, rest, by rw [hs, hs1], by rw [tokens, tokens, hgo, hgo1], ?_, ?_, ?_⟩
  · intro e
    have := hw e
    rw [this, e] at hs1
    simpa using hs1.symm
  · intro hne h0
    have h1 : sy = [] := List.length_eq_zero_iff.1 (by omega)
    have h2 : w = [] := List.length_eq_zero_iff.1 (by omega)
    rw [h1, hw h2] at hs
    exact hne hs
  · intro i j K pos caps r hk
    simp only [body, m_seq, m_group, m_star]
    apply hm _ pos r
    apply hm1 _ (pos + sy.length) _ r
    have e1 : List.take (pos + sy.length - pos) s = sy := by
      rw [Nat.add_sub_cancel_left, hs, List.take_left']; rfl
    have e2 : List.take (pos + sy.length + w.length - (pos + sy.length)) s1 = w := by
      rw [Nat.add_sub_cancel_left, hs1, List.take_left']; rfl
    rw [e1, e2, Nat.add_assoc]
    exact hk

theorem body_nil (i j : Nat) (pos : Nat) (caps : Caps) (K : K) :
    m (body i j) pos [] caps K = K pos [] ((j, []) :: (i, []) :: caps) := by
  simp only [body, m_seq, m_group, m_star, star_nil, m_alt, m_wordUpper_nil, orElse_none, m_word, List.take_nil]

/-! ### `re.sub` with the two patterns -/

/-- the pattern of `pascal_case`, as parsed from the source, is `(SYMBOLS)(WORD_UPPER|WORD)` -/
theorem pascal_pattern_eq : Src.pascal_case.pattern = body 1 2 := rfl
/-- the pattern of `snake_case`, as parsed from the source, is `(^)?(SYMBOLS)(WORD_UPPER|WORD)` -/
theorem snake_pattern_eq : Src.snake_case.pattern = .seq (.opt (.group 1 .bol)) (body 2 3) := rfl

theorem ne_self_add {pos n : Nat} (h : n ≠ 0) : (pos + n == pos) = false := by
  simp only [beq_eq_false_iff_ne, ne_eq]; omega

theorem matchAt_pascal_nil (adv : Bool) (pos : Nat) :
    matchAt (body 1 2) adv pos [] = if adv then none else some ⟨pos, [], [(2, []), (1, [])]⟩ := by
  rw [matchAt, body_nil]
  cases adv <;> simp

theorem matchAt_snake_nil (adv : Bool) (pos : Nat) :
    matchAt (.seq (.opt (.group 1 .bol)) (body 2 3)) adv pos []
      = if adv then none else some ⟨pos, [], (3, []) :: (2, []) :: (if pos = 0 then [(1, [])] else [])⟩ := by
  simp only [matchAt, m, body_nil]
  by_cases h : pos = 0 <;> cases adv <;> simp [h]

/-- one match of the `snake_case` pattern on a non-empty input -/
theorem matchAt_snake {s sy w rest : Str} (hne : sy.length + w.length ≠ 0)
    (hm : ∀ (i j : Nat) (K : K) (pos : Nat) (caps : Caps) (r : Match),
      K (pos + (sy.length + w.length)) rest ((j, w) :: (i, sy) :: caps) = some r → m (body i j) pos s caps K = some r)
    (adv : Bool) (pos : Nat) :
    matchAt (.seq (.opt (.group 1 .bol)) (body 2 3)) adv pos s
      = some ⟨pos + (sy.length + w.length), rest, (3, w) :: (2, sy) :: (if pos = 0 then [(1, [])] else [])⟩ := by
  simp only [matchAt, m]
  by_cases h : pos = 0
  · rw [if_pos h, hm 2 3 _ pos _ _ (by rw [ne_self_add hne, Bool.and_false]; rfl), orElse_some]
    simp [h]
  · rw [if_neg h, orElse_none, hm 2 3 _ pos _ _ (by rw [ne_self_add hne, Bool.and_false]; rfl)]
    simp [h]

theorem matchAt_pascal {s sy w rest : Str} (hne : sy.length + w.length ≠ 0)
    (hm : ∀ (i j : Nat) (K : K) (pos : Nat) (caps : Caps) (r : Match),
      K (pos + (sy.length + w.length)) rest ((j, w) :: (i, sy) :: caps) = some r → m (body i j) pos s caps K = some r)
    (adv : Bool) (pos : Nat) :
    matchAt (body 1 2) adv pos s = some ⟨pos + (sy.length + w.length), rest, [(2, w), (1, sy)]⟩ := by
  rw [matchAt, hm 1 2 _ pos _ _ (by rw [ne_self_add hne, Bool.and_false]; rfl)]

theorem search_some {r : Re} {adv : Bool} {pos : Nat} {s : Str} {mt : Match} (h : matchAt r adv pos s = some mt) :
    search r adv pos s = some ([], mt) := by
  cases s <;> simp only [search, h]

theorem search_nil_none {r : Re} {adv : Bool} {pos : Nat} (h : matchAt r adv pos [] = none) :
    search r adv pos [] = none := by
  simp only [search, h]

theorem subLoop_some {r : Re} {repl : Match → Str} {adv : Bool} {pos : Nat} {s sk : Str} {mt : Match} (fuel : Nat)
    (h : search r adv pos s = some (sk, mt)) :
    subLoop r repl (fuel + 1) adv pos s
      = sk ++ repl mt ++ subLoop r repl fuel (mt.stop == pos + sk.length) mt.stop mt.rest := by
  simp only [subLoop, h]

theorem subLoop_none {r : Re} {repl : Match → Str} {adv : Bool} {pos : Nat} {s : Str} (fuel : Nat)
    (h : search r adv pos s = none) : subLoop r repl (fuel + 1) adv pos s = s := by
  simp only [subLoop, h]

theorem flatten_emit (f : Str → Str) (hf : f [] = []) (w : Str) (ws : List Str) :
    ((emit w ws).map f).flatten = f w ++ (ws.map f).flatten := by
  cases w with
  | nil => simp [emit, hf]
  | cons c t => simp [emit]

/-- `re.sub` with the `pascal_case` pattern and replacement: the capitalised words of the tokenizer -/
theorem pascal_loop : ∀ (n : Nat) (s : Str), s.length ≤ n → ∀ (fuel pos : Nat), s.length + 2 ≤ fuel →
    subLoop (body 1 2) (fun groups => Src.pascal_case.substitute_word (groups.str 1) (groups.str 2)) fuel false pos s
      = ((tokens s).map capitalize).flatten := by
  intro n
  induction n with
  | zero =>
    intro s hs fuel pos hf
    have : s = [] := List.length_eq_zero_iff.1 (by omega)
    subst this
    obtain ⟨f, rfl⟩ : ∃ f, fuel = f + 1 + 1 := ⟨fuel - 2, by simp at hf; omega⟩
    rw [subLoop_some _ (search_some (by rw [matchAt_pascal_nil]; rfl)),
      subLoop_none _ (search_nil_none (by rw [matchAt_pascal_nil]; simp))]
    simp [Src.pascal_case.substitute_word, Match.str, Match.group, Py.capitalize, capitalize, tokens, go]
  | succ n ih =>
    intro s hs fuel pos hf
    by_cases hnil : s = []
    · exact ih s (by subst hnil; simp) fuel pos hf
    · obtain ⟨sy, w, rest, hsplit, htok, _, hne, hm⟩ := body_sim s
      have hlen : s.length = sy.length + (w.length + rest.length) := by rw [hsplit]; simp
      have hne' := hne hnil
      obtain ⟨f, rfl⟩ : ∃ f, fuel = f + 1 := ⟨fuel - 1, by omega⟩
      rw [subLoop_some _ (search_some (matchAt_pascal hne' hm false pos))]
      have hb : (pos + (sy.length + w.length) == pos + ([] : Str).length) = false := by
        simp only [List.length_nil, Nat.add_zero]; exact ne_self_add hne'
      simp only [hb]
      rw [ih rest (by omega) f _ (by omega), htok, flatten_emit capitalize rfl]
      simp [Src.pascal_case.substitute_word, Match.str, Match.group, Py.capitalize, List.lookup]

theorem pascal_case_eq (s : Str) : Src.pascal_case s = pascal s := by
  rw [Src.pascal_case, pascal_pattern_eq, sub, pascal_loop s.length s (Nat.le_refl _) _ 0 (by omega)]
  rfl

/-- `"_".join(ws)` = the first word, then every other word with its `_` -/
theorem joinU_cons : ∀ (ws : List Str) (w : Str), joinU (w :: ws) = w ++ (ws.map fun x => '_' :: x).flatten := by
  intro ws
  induction ws with
  | nil => intro w; simp [joinU]
  | cons v ws ih =>
    intro w
    have e : joinU (w :: v :: ws) = w ++ '_' :: joinU (v :: ws) := rfl
    rw [e, ih v]; simp

/-- the replacement of `snake_case` for the word `w` of a match that starts at `pos` -/
theorem snake_repl (mt : Match) (w sy : Str) (pos : Nat)
    (h : mt.caps = (3, w) :: (2, sy) :: (if pos = 0 then [(1, [])] else [])) :
    Src.snake_case.substitute_word (mt.str 2) (mt.str 3) (mt.group 1).isSome
      = if w = [] then [] else if pos = 0 then lowerW w else '_' :: lowerW w := by
  by_cases hw : w = []
  · subst hw; simp [Src.snake_case.substitute_word, Match.str, Match.group, h]
  · by_cases hp : pos = 0
    · simp [Src.snake_case.substitute_word, Match.str, Match.group, List.lookup, h, hw, hp, Py.strMul, Py.lower]
    · simp [Src.snake_case.substitute_word, Match.str, Match.group, List.lookup, h, hw, hp, Py.strMul, Py.lower]

/-- `re.sub` with the `snake_case` pattern and replacement: the lower-cased words of the tokenizer, every word but
    the one of the match at position 0 preceded by `_` -/
theorem snake_loop : ∀ (n : Nat) (s : Str), s.length ≤ n → ∀ (fuel pos : Nat), s.length + 2 ≤ fuel →
    subLoop (.seq (.opt (.group 1 .bol)) (body 2 3))
        (fun groups => Src.snake_case.substitute_word (groups.str 2) (groups.str 3) (groups.group 1).isSome) fuel false pos s
      = if pos = 0 then joinU ((tokens s).map lowerW) else ((tokens s).map fun w => '_' :: lowerW w).flatten := by
  intro n
  induction n with
  | zero =>
    intro s hs fuel pos hf
    have : s = [] := List.length_eq_zero_iff.1 (by omega)
    subst this
    obtain ⟨f, rfl⟩ : ∃ f, fuel = f + 1 + 1 := ⟨fuel - 2, by simp at hf; omega⟩
    rw [subLoop_some _ (search_some (by rw [matchAt_snake_nil]; rfl)),
      subLoop_none _ (search_nil_none (by rw [matchAt_snake_nil]; simp))]
    simp [snake_repl ⟨pos, [], _⟩ [] [] pos rfl, tokens, go, joinU]
  | succ n ih =>
    intro s hs fuel pos hf
    by_cases hnil : s = []
    · exact ih s (by subst hnil; simp) fuel pos hf
    · obtain ⟨sy, w, rest, hsplit, htok, hw, hne, hm⟩ := body_sim s
      have hlen : s.length = sy.length + (w.length + rest.length) := by rw [hsplit]; simp
      have hne' := hne hnil
      obtain ⟨f, rfl⟩ : ∃ f, fuel = f + 1 := ⟨fuel - 1, by omega⟩
      rw [subLoop_some _ (search_some (matchAt_snake hne' hm false pos))]
      have hb : (pos + (sy.length + w.length) == pos + ([] : Str).length) = false := by
        simp only [List.length_nil, Nat.add_zero]; exact ne_self_add hne'
      have hpos : pos + (sy.length + w.length) ≠ 0 := by omega
      simp only [hb, snake_repl ⟨pos + (sy.length + w.length), rest, _⟩ w sy pos rfl]
      rw [ih rest (by omega) f _ (by omega), if_neg hpos, htok]
      by_cases hw0 : w = []
      · have hrest := hw hw0
        subst hw0; subst hrest
        simp [emit, tokens, go, joinU]
      · obtain ⟨c, t, rfl⟩ := List.exists_cons_of_ne_nil hw0
        simp only [emit, List.map_cons, joinU_cons, List.map_map, List.flatten_cons, List.nil_append]
        by_cases h : pos = 0
        · simp [h]; rfl
        · simp [h]

theorem snake_case_eq (s : Str) : Src.snake_case s = snake s := by
  rw [Src.snake_case, snake_pattern_eq, sub, snake_loop s.length s (Nat.le_refl _) _ 0 (by omega)]
  rfl

theorem lowercase_first_eq (v : Str) : Src.lowercase_first v = lowerFirst v := by
  cases v with
  | nil => rfl
  | cons c t =>
    simp [Src.lowercase_first, Py.slice, Py.sliceFrom, Py.clamp, Py.lower, lowerW, lowerFirst]

theorem camel_case_eq (s : Str) : Src.camel_case s = camel s := by
  rw [Src.camel_case, pascal_case_eq, lowercase_first_eq]; rfl

theorem sanitize_name_eq (v : Str) : Src.sanitize_name v = sanitize v := by
  simp only [Src.sanitize_name, sanitize, Py.iskeyword, Py.isidentifier, kw, decide_eq_true_eq]
  by_cases h1 : v ∈ Bp.Gen.keywords.map String.toList
  · simp [h1]
  · by_cases h2 : pyIdent v = true
    · simp [h1, h2]
    · simp [h1, h2]

theorem safe_snake_case_eq (s : Str) : Src.safe_snake_case s = safeSnake s := by
  rw [Src.safe_snake_case, snake_case_eq, sanitize_name_eq]; rfl

end Bp.SrcTieCasing
