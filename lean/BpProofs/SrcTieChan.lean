import BpProofs.Gen.SrcChan
import BpProofs.ChanTerm
/-
  The SOURCE TIE of C12: the methods of `AsyncChannel` as translated from the working tree
  (BpProofs/Gen/SrcChan.lean, resumption programs `Co`), run over the model's `asyncio.Queue`
  (BpProofs/PyPreludeChan.lean: `runSync`, `tryGet`, `tryPut`, `cancelWaiter`), ARE what `Chan.micro` does.

  * `frame fl t x` — the simulation relation: the coroutine state of task `t` when its model record is `x`
    (program counter `x.code`, suspension state `x.wait`): the start of the method the task's program is about to call
    (`receive` / `__anext__` — `fl t` says which —, `send`, `send_from`, `close`, `_flush_queue`), or the `await` node
    inside that method at which it is suspended / the loop head of `send_from` / `_flush_queue` it has reached.
  * `exec1` / `throwIn` — ONE SEGMENT STEP of the coroutine: synchronous commands; if an `await` is reached it is
    attempted; if it completes, the synchronous commands that follow — up to the next loop head (`Co.iter`), `await`, or
    the end of the method; resp. CancelledError thrown in at the await.  `exec2` = two such steps: a task that ENTERS
    `send_from` checks `_closed` and puts its first item in one atomic action of the model — the only place where the
    model's steps and the source's segments do not line up one to one (see `srcExec`).
  * `commit` — what the task's PROGRAM (the loops of harness/chanloop.py: `_sender`, `_receiver`, `_closer`) does with
    the method's result, and the new model record.
  * `micro_eq_srcMicro` (A): for every state and every task whose record is coherent (`Coh`: only a receiver is inside
    `get()`, only a sender / flusher with something left to put is inside `put()` — invariants of the reachable
    states), `micro s t = srcMicro fl s t`, for EVERY assignment `fl` of `receive` / `__anext__` to the receivers.
  * `stop_ok` / `stop_frame` (B): the `Co` at which that run stopped is the `frame` of the record `commit` wrote.
  A and B together are the step of a simulation (stuttering only at the entry of `send_from`: `exec2`);
  `run_eq`: hence `run = srcRun` from every state that satisfies the invariant, in particular `init`.
-/
set_option linter.unusedSimpArgs false
namespace Bp.SrcTieChan
open Bp.Chan Bp.PyChan

/-- which method a receiver program calls: `receive()` or `__anext__()` (`async for`) -/
inductive Flavour where
  | receive | anext
deriving DecidableEq, Repr

/-- the items a sender task `t` still has to send: `(t, nx)`, `(t, nx + 1)`, … (`r` of them) -/
def items (t : Nat) : Nat → Nat → List Item
  | _, 0 => []
  | nx, r + 1 => .data t nx :: items t (nx + 1) r

def recvCo : Flavour → Co
  | .receive => SrcChan.receive
  | .anext => SrcChan.anext

/-- the `finally:` block of `receive` / `__anext__`, then `k` -/
def recvFin (k : Co) : Co := .getWaiting fun w => .setWaiting (w - (1 : Int)) k

/-- `receive` / `__anext__` after `await self._queue.get()` returned `result` -/
def getK : Flavour → Item → Co
  | .receive => fun result => .taskDone
      (if isFlush result then recvFin (.ret .none) else recvFin (.ret (.item result)))
      (fun e => recvFin (.raise e))
  | .anext => fun result => .taskDone
      (if isFlush result then recvFin (.raise .stopAsyncIteration) else recvFin (.ret (.item result)))
      (fun e => recvFin (.raise e))

/-- `receive` / `__anext__` when `await self._queue.get()` raises `e` -/
def getH (e : Exc) : Co := recvFin (.raise e)

/-- `receive` / `__anext__` at `await self._queue.get()` -/
def atGet (f : Flavour) : Co := .awaitGet (getK f) getH

/-- what follows the loop of `send_from` -/
def sendFromTail (cl : Bool) : Co := if cl then SrcChan.close (fun _ => .ret .self) else .ret .self

/-- the coroutine state of a task that is NOT suspended on a waiter future: the start of the method its program is
    about to call, or the loop head of `send_from` / `_flush_queue` it has reached -/
def frameReady (fl : Nat → Flavour) (t : Nat) : Code → Co
  | .receiver _ => recvCo (fl t)
  | .sender .each nx (_ + 1) _ => SrcChan.send (.data t nx)
  | .sender .each _ 0 cl => if cl then SrcChan.close (fun _ => .ret .none) else .ret .none
  | .sender .fromStart nx r cl => SrcChan.send_from (items t nx r) cl
  | .sender .fromRunning nx r cl => SrcChan.send_from_for1 (sendFromTail cl) (items t nx r)
  | .closer => SrcChan.close (fun _ => .ret .none)
  | .flusher none => SrcChan._flush_queue
  | .flusher (some r) => SrcChan._flush_queue_for1 (.ret .none) r
  | .canceller _ => .ret .none

/-- the `await` node a task is suspended at -/
def frameBlocked (fl : Nat → Flavour) (t : Nat) : Code → Co
  | .receiver _ => atGet (fl t)
  | .sender .each nx (_ + 1) _ => .awaitPut (.data t nx) (.ret .self) Co.raise
  | .sender _ nx (r + 1) cl => .awaitPut (.data t nx) (SrcChan.send_from_for1 (sendFromTail cl) (items t (nx + 1) r)) Co.raise
  | .flusher (some (r + 1)) => .awaitPut flush (SrcChan._flush_queue_for1 (.ret .none) r) Co.raise
  | _ => .ret .none

/-- the coroutine state of task `t` whose model record is `x` -/
def frame (fl : Nat → Flavour) (t : Nat) (x : Task) : Co :=
  match x.wait with
  | .blocked _ _ => frameBlocked fl t x.code
  | _ => frameReady fl t x.code

/-- where a run of a coroutine stopped -/
inductive Stop where
  | suspended (g : Bool) (c : Co)
  | atHead (c : Co)
  | returned (v : Val)
  | raised (e : Exc)

/-- where `runSync` stopped: the method returned / raised, or it is at a loop head (or at a further `await`) -/
def stopOf : Sys × Co → Sys × Stop
  | (s1, .ret v) => (s1, .returned v)
  | (s1, .raise e) => (s1, .raised e)
  | (s1, c1) => (s1, .atHead c1)

/-- ONE SEGMENT STEP of a coroutine that is at the start of a method, at a loop head or at an `await` (woken): run the
    synchronous commands; if an `await` is reached, attempt it (`none`: suspend); if it completes, run the synchronous
    commands that follow.  The step ends at the next loop head / await, or with the method. -/
def exec1 (t : Nat) (s : Sys) (c : Co) : Sys × Stop :=
  match runSync s (unIter c) with
  | (s1, .awaitGet k h) =>
    (match tryGet s1 with
     | none => (suspendOn s1 t true, .suspended true (.awaitGet k h))
     | some (it, s2) => stopOf (runSync s2 (k it)))
  | (s1, .awaitPut x k h) =>
    (match tryPut s1 x with
     | none => (suspendOn s1 t false, .suspended false (.awaitPut x k h))
     | some s2 => stopOf (runSync s2 k))
  | r => stopOf r

/-- TWO segment steps: the one that reaches the first loop head, and the next (`send_from` entered: the model checks
    `_closed` and puts the first item in one atomic action) -/
def exec2 (t : Nat) (s : Sys) (c : Co) : Sys × Stop :=
  match exec1 t s c with
  | (s1, .atHead c1) => exec1 t s1 c1
  | r => r

/-- CancelledError is thrown into the coroutine suspended at the `await` node `c` (its waiter future was in state `f`) -/
def throwIn (t : Nat) (s : Sys) (g : Bool) (f : Fut) (c : Co) : Sys × Stop :=
  match c with
  | .awaitGet _ h => stopOf (runSync (cancelWaiter s t g f) (h .cancelledError))
  | .awaitPut _ _ h => stopOf (runSync (cancelWaiter s t g f) (h .cancelledError))
  | _ => (s, .raised .cancelledError)

/-- how an exception that leaves the method ends the task's program: `_receiver` catches ChannelDone /
    the `async for` ends on StopAsyncIteration; `wait_for` turns a CancelledError into TimeoutError (`cancelOutcome`) -/
def outcomeOf (x : Task) : Exc → Outcome
  | .channelClosed => .chanClosed
  | .channelDone => .ok
  | .stopAsyncIteration => .ok
  | .cancelledError => cancelOutcome x
  | .valueError => .valueError

/-- the program counter of a task that suspends inside `put()` -/
def inPut : Code → Code
  | .sender m nx r cl => .sender m.running nx r cl
  | c => c

/-- the program counter after the step that stopped at a loop head (state `s0` before the step) -/
def nextCode (s0 : Sys) : Code → Code
  | .flusher none => .flusher (some (s0.waiting - s0.queue.length))
  | .sender m nx (r + 1) cl => .sender m.running (nx + 1) r cl
  | .flusher (some (r + 1)) => .flusher (some r)
  | c => c

/-- the task's program gets `v` back from the method it called -/
def driverRet (s : Sys) (t : Nat) (x : Task) (v : Val) : Sys :=
  match x.code, v with
  | .receiver _, .item it => { s.setTask t { x with wait := .ready } with recvLog := s.recvLog ++ [(t, it)] }
  | .sender .each nx (r + 1) cl, _ => s.setTask t { x with wait := .ready, code := .sender .each (nx + 1) r cl }
  | _, _ => finish s t x .ok

/-- the new record of the task (`s0`: the state before the step, `s`: after the run of the coroutine) -/
def commit (s0 s : Sys) (t : Nat) (x : Task) : Stop → Sys
  | .suspended g _ => s.setTask t { x with wait := .blocked g .pending, code := inPut x.code }
  | .atHead _ => s.setTask t { x with wait := .ready, code := nextCode s0 x.code }
  | .returned v => driverRet s t x v
  | .raised e => finish s t x (outcomeOf x e)

/-- the run of the coroutine of task `t` in one step (`none`: the step runs no channel code) -/
def srcExec (fl : Nat → Flavour) (s : Sys) (t : Nat) (x : Task) : Option (Sys × Stop) :=
  match x.wait with
  | .done => none
  | .blocked _ .pending => none
  | .blocked g .cancelled => some (throwIn t s g .cancelled (frame fl t x))
  | .blocked g .woken =>
    if x.mustCancel then some (throwIn t s g .woken (frame fl t x)) else some (exec1 t s (frame fl t x))
  | .ready =>
    if x.mustCancel then none else
    match x.code with
    | .canceller _ => none
    | .sender .fromStart _ _ _ => some (exec2 t s (frame fl t x))
    | _ => some (exec1 t s (frame fl t x))

/-- the steps that are asyncio's alone: a task that is not runnable; CancelledError thrown into a coroutine that has
    not started; a canceller -/
def asyncioOnly (s : Sys) (t : Nat) (x : Task) : Sys :=
  match x.wait with
  | .ready =>
    if x.mustCancel then finish s t x (cancelOutcome x) else
    (match x.code with
     | .canceller tg => cancelTask (finish s t x .ok) tg false
     | _ => s)
  | _ => s

/-- one atomic action of task `t`, by the translated source -/
def srcMicro (fl : Nat → Flavour) (s : Sys) (t : Nat) : Sys :=
  match s.tasks[t]? with
  | none => s
  | some x =>
    match srcExec fl s t x with
    | some r => commit s r.1 t x r.2
    | none => asyncioOnly s t x

/-- coherence of a task record: only a receiver is inside `Queue.get()`, only a sender / flusher with something left
    to put is inside `Queue.put()` (`SInv.getRecv`, `PutOk`: invariants of the reachable states) -/
def Coh (x : Task) : Prop :=
  (x.wait.inGet = true → x.code.isReceiver = true) ∧ (x.wait.inPut = true → canPut x.code = true)

/-! ### `_wakeup_next` does not look at a task that is not a pending waiter -/

theorem wakeNext_set (g : Bool) (d : List Nat) (ts : List Task) (t : Nat) (x y : Task)
    (hx : ts[t]? = some x) (h1 : x.wait ≠ .blocked g .pending) (h2 : y.wait ≠ .blocked g .pending) :
    wakeNext g d (ts.set t y) = ((wakeNext g d ts).1, (wakeNext g d ts).2.set t y) := by
  have hl := getElem?_lt hx
  induction d with
  | nil => rfl
  | cons u rest ih =>
    by_cases hut : u = t
    · subst hut
      simp only [wakeNext, List.getElem?_set_self hl, hx, if_neg h1, if_neg h2]
      exact ih
    · have hu : (ts.set t y)[u]? = ts[u]? := List.getElem?_set_ne (fun e => hut e.symm)
      simp only [wakeNext, hu]
      cases hz : ts[u]? with
      | none => exact ih
      | some z =>
        simp only []
        split
        · simp only []
          rw [List.set_comm _ _ (fun e => hut e.symm)]
        · exact ih

theorem wake_setTask {g : Bool} {s : Sys} {t : Nat} {x y : Task} (hx : s.tasks[t]? = some x)
    (h1 : x.wait ≠ .blocked g .pending) (h2 : y.wait ≠ .blocked g .pending) :
    wake g (s.setTask t y) = (wake g s).setTask t y := by
  unfold wake Sys.setTask Sys.setDq Sys.dq
  cases g <;> simp [wakeNext_set _ _ _ _ _ _ hx h1 h2]

theorem Sys.ext' {a b : Sys} (h1 : a.maxsize = b.maxsize) (h2 : a.queue = b.queue) (h3 : a.getters = b.getters)
    (h4 : a.putters = b.putters) (h5 : a.unfinished = b.unfinished) (h6 : a.closed = b.closed)
    (h7 : a.flushed = b.flushed) (h8 : a.waiting = b.waiting) (h9 : a.tasks = b.tasks) (h10 : a.putLog = b.putLog)
    (h11 : a.recvLog = b.recvLog) (h12 : a.preClose = b.preClose) (h13 : a.cancels = b.cancels) : a = b := by
  cases a; cases b; simp_all

section proj
variable (g : Bool) (s : Sys)
theorem wake_maxsize : (wake g s).maxsize = s.maxsize := by unfold wake Sys.setDq; cases g <;> rfl
theorem wake_queue : (wake g s).queue = s.queue := by unfold wake Sys.setDq; cases g <;> rfl
theorem wake_unfinished : (wake g s).unfinished = s.unfinished := by unfold wake Sys.setDq; cases g <;> rfl
theorem wake_closed : (wake g s).closed = s.closed := by unfold wake Sys.setDq; cases g <;> rfl
theorem wake_flushed : (wake g s).flushed = s.flushed := by unfold wake Sys.setDq; cases g <;> rfl
theorem wake_waiting : (wake g s).waiting = s.waiting := by unfold wake Sys.setDq; cases g <;> rfl
theorem wake_putLog : (wake g s).putLog = s.putLog := by unfold wake Sys.setDq; cases g <;> rfl
theorem wake_recvLog : (wake g s).recvLog = s.recvLog := by unfold wake Sys.setDq; cases g <;> rfl
theorem wake_preClose : (wake g s).preClose = s.preClose := by unfold wake Sys.setDq; cases g <;> rfl
theorem wake_cancels : (wake g s).cancels = s.cancels := by unfold wake Sys.setDq; cases g <;> rfl
theorem wake_getters_t : (wake true s).getters = (wakeNext true s.getters s.tasks).1 := rfl
theorem wake_getters_f : (wake false s).getters = s.getters := rfl
theorem wake_putters_f : (wake false s).putters = (wakeNext false s.putters s.tasks).1 := rfl
theorem wake_putters_t : (wake true s).putters = s.putters := rfl
theorem wake_tasks_t : (wake true s).tasks = (wakeNext true s.getters s.tasks).2 := rfl
theorem wake_tasks_f : (wake false s).tasks = (wakeNext false s.putters s.tasks).2 := rfl
end proj

/-- equality of two states, field by field -/
macro "sys_ext" "[" ts:Lean.Parser.Tactic.simpLemma,* "]" : tactic =>
  `(tactic| (apply Sys.ext' <;>
      simp [wake_maxsize, wake_queue, wake_unfinished, wake_closed, wake_flushed, wake_waiting, wake_putLog, wake_recvLog,
        wake_preClose, wake_cancels, wake_getters_t, wake_getters_f, wake_putters_f, wake_putters_t, wake_tasks_t,
        wake_tasks_f, popQ, putNowait, finish, Sys.setTask, Sys.setDq, Sys.dq, $ts,*]))

theorem toNat_pred (w : Nat) : ((w : Int) - 1).toNat = w - 1 := by omega
theorem toNat_succ_pred (w : Nat) : ((((w : Int) + 1).toNat : Int) - 1).toNat = w := by omega

/-- the receiver takes an item: `get_nowait`, `task_done()`, the sentinel test, `finally`, and the program's reaction -/
theorem take_eq (f : Flavour) (s : Sys) (t : Nat) (x : Task) (it : Item) (rest : List Item) (tm : Bool)
    (hx : s.tasks[t]? = some x) (hc : x.code = .receiver tm) (hw : x.wait ≠ .blocked false .pending) :
    takeItem s t x it rest true =
      commit s (stopOf (runSync (popQ s rest) (getK f it))).1 t x (stopOf (runSync (popQ s rest) (getK f it))).2 := by
  have hpu : (popQ s rest).unfinished = s.unfinished := rfl
  have W := fun (y : Task) (h2 : y.wait ≠ .blocked false .pending) =>
    wakeNext_set false s.putters s.tasks t x y hx hw h2
  unfold takeItem
  cases f <;> cases it <;> by_cases hu : s.unfinished = 0 <;>
    simp only [getK, stopOf, runSync, commit, recvFin, isFlush, hpu, hu, driverRet, hc, outcomeOf, if_true, if_false,
      beq_self_eq_true, reduceCtorEq, beq_iff_eq]
  all_goals sys_ext [W, toNat_pred, hu]

/-! ### the synchronous methods and the synchronous prefixes of the coroutine methods -/

/-- the exception of a receive on a channel that is done -/
def doneExc : Flavour → Exc
  | .receive => .channelDone
  | .anext => .stopAsyncIteration

theorem run_closed (s : Sys) (k : Val → Co) : runSync s (SrcChan.closed k) = runSync s (k (.bool s.closed)) := by
  simp [SrcChan.closed, runSync]

theorem run_done (s : Sys) (k : Val → Co) :
    runSync s (SrcChan.done k) = runSync s (k (.bool (s.closed && decide (s.queue.length ≤ s.waiting)))) := by
  cases hc : s.closed <;> simp [SrcChan.done, runSync, hc]

theorem run_close (s : Sys) (k : Val → Co) : runSync s (SrcChan.close k) = runSync (doClose s) (k .none) := by
  cases hp : s.preClose <;> simp only [SrcChan.close, runSync, storeClosed, doClose, if_true, hp]

theorem run_aiter (s : Sys) (k : Val → Co) : runSync s (SrcChan.aiter k) = runSync s (k .self) := rfl

theorem run_recv (f : Flavour) (s : Sys) :
    runSync s (recvCo f) =
      if (s.closed && decide (s.queue.length ≤ s.waiting)) = true then (s, .raise (doneExc f))
      else ({ s with waiting := s.waiting + 1 }, atGet f) := by
  cases f <;> cases hd : (s.closed && decide (s.queue.length ≤ s.waiting)) <;>
    simp [recvCo, SrcChan.receive, SrcChan.anext, run_done, hd, truthy, runSync, doneExc, atGet, getK, recvFin]
  all_goals (funext e; rfl)

theorem run_send (s : Sys) (it : Item) :
    runSync s (SrcChan.send it) =
      if s.closed = true then (s, .raise .channelClosed) else (s, .awaitPut it (.ret .self) Co.raise) := by
  cases hc : s.closed <;> simp [SrcChan.send, runSync, hc]

theorem run_for1 (s : Sys) (k : Co) (xs : List Item) :
    runSync s (SrcChan.send_from_for1 k xs) = (s, SrcChan.send_from_for1 k xs) := by
  cases xs <;> simp [SrcChan.send_from_for1, runSync]

theorem run_flush_for1 (s : Sys) (k : Co) (n : Nat) :
    runSync s (SrcChan._flush_queue_for1 k n) = (s, SrcChan._flush_queue_for1 k n) := by
  cases n <;> simp [SrcChan._flush_queue_for1, runSync]

theorem run_send_from (s : Sys) (xs : List Item) (cl : Bool) :
    runSync s (SrcChan.send_from xs cl) =
      if s.closed = true then (s, .raise .channelClosed) else (s, SrcChan.send_from_for1 (sendFromTail cl) xs) := by
  cases hc : s.closed <;> simp [SrcChan.send_from, runSync, hc, run_for1, sendFromTail]

theorem run_flush (s : Sys) :
    runSync s SrcChan._flush_queue =
      if s.flushed = true then (s, .ret .none)
      else ({ s with flushed := true }, SrcChan._flush_queue_for1 (.ret .none) (s.waiting - s.queue.length)) := by
  cases hf : s.flushed <;> simp [SrcChan._flush_queue, runSync, hf, run_flush_for1, rangeCount, PyChan.max]
  all_goals (congr 1; first | omega | (split <;> omega))

/-! ### the pieces of `micro`, by the translated source -/

/-- the new state after the run `r` of the coroutine of `t` -/
abbrev Cm (s : Sys) (t : Nat) (x : Task) (r : Sys × Stop) : Sys := commit s r.1 t x r.2

theorem stop_for1 (s : Sys) (k : Co) (xs : List Item) :
    stopOf (s, SrcChan.send_from_for1 k xs) = (s, .atHead (SrcChan.send_from_for1 k xs)) := by
  cases xs <;> rfl

theorem stop_flush_for1 (s : Sys) (k : Co) (n : Nat) :
    stopOf (s, SrcChan._flush_queue_for1 k n) = (s, .atHead (SrcChan._flush_queue_for1 k n)) := by
  cases n <;> rfl

/-- `send`: the `put` of a sender that sends item by item -/
theorem put_each_eq (s : Sys) (t : Nat) (x : Task) (nx r : Nat) (cl : Bool)
    (hx : s.tasks[t]? = some x) (hc : x.code = .sender .each nx (r + 1) cl) (hw : x.wait ≠ .blocked true .pending) :
    putStep s t x = Cm s t x (exec1 t s (.awaitPut (.data t nx) (.ret .self) Co.raise)) := by
  have W := fun (y : Task) (h2 : y.wait ≠ .blocked true .pending) =>
    wakeNext_set true s.getters s.tasks t x y hx hw h2
  simp only [putStep, hc, putOrBlock, Cm, exec1, unIter, runSync, tryPut, SMode.running]
  by_cases hf : s.full = true
  · simp only [hf, if_true, commit, suspendOn, inPut, hc, SMode.running]
    sys_ext []
  · simp only [hf, if_false, stopOf, runSync, commit, driverRet, hc, Bool.false_eq_true]
    sys_ext [W]

/-- `send_from`: the `put` of one iteration of its loop -/
theorem put_from_eq (s : Sys) (t : Nat) (x : Task) (m : SMode) (nx r : Nat) (cl : Bool)
    (hx : s.tasks[t]? = some x) (hc : x.code = .sender m nx (r + 1) cl) (hm : m ≠ .each)
    (hw : x.wait ≠ .blocked true .pending) :
    putStep s t x = Cm s t x (exec1 t s (.awaitPut (.data t nx)
      (SrcChan.send_from_for1 (sendFromTail cl) (items t (nx + 1) r)) Co.raise)) := by
  have W := fun (y : Task) (h2 : y.wait ≠ .blocked true .pending) =>
    wakeNext_set true s.getters s.tasks t x y hx hw h2
  have hrun : m.running = .fromRunning := by cases m <;> simp_all [SMode.running]
  simp only [putStep, hc, putOrBlock, Cm, exec1, unIter, runSync, tryPut, hrun]
  by_cases hf : s.full = true
  · simp only [hf, if_true, commit, suspendOn, inPut, hc, hrun]
    sys_ext []
  · simp only [hf, if_false, run_for1, stop_for1, commit, nextCode, hc, hrun, Bool.false_eq_true]
    sys_ext [W]

/-- `_flush_queue`: the `put` of one iteration of its loop -/
theorem put_flush_eq (s : Sys) (t : Nat) (x : Task) (r : Nat)
    (hx : s.tasks[t]? = some x) (hc : x.code = .flusher (some (r + 1))) (hw : x.wait ≠ .blocked true .pending) :
    putStep s t x = Cm s t x (exec1 t s (.awaitPut flush (SrcChan._flush_queue_for1 (.ret .none) r) Co.raise)) := by
  have W := fun (y : Task) (h2 : y.wait ≠ .blocked true .pending) =>
    wakeNext_set true s.getters s.tasks t x y hx hw h2
  simp only [putStep, hc, putOrBlock, Cm, exec1, unIter, runSync, tryPut, flush]
  by_cases hf : s.full = true
  · simp only [hf, if_true, commit, suspendOn, inPut, hc]
    sys_ext []
  · simp only [hf, if_false, run_flush_for1, stop_flush_for1, commit, nextCode, hc, Bool.false_eq_true]
    sys_ext [W]

/-- a woken receiver finds the queue empty again -/
theorem reblock_eq (f : Flavour) (s : Sys) (t : Nat) (x : Task) (tm : Bool) (hc : x.code = .receiver tm)
    (hq : s.queue = []) :
    { s.setTask t { x with wait := .blocked true .pending } with getters := s.getters ++ [t] } =
      Cm s t x (exec1 t s (atGet f)) := by
  simp only [Cm, exec1, atGet, unIter, runSync, tryGet, hq, commit, suspendOn, inPut, hc]
  sys_ext []

/-- a receiver program calls `receive()` / `__anext__()` -/
theorem recv_ready_eq (f : Flavour) (s : Sys) (t : Nat) (x : Task) (tm : Bool)
    (hx : s.tasks[t]? = some x) (hc : x.code = .receiver tm) (hw : x.wait = .ready) :
    (if (s.closed && decide (s.queue.length ≤ s.waiting)) = true then finish s t x .ok
     else match s.queue with
       | [] => { s.setTask t { x with wait := .blocked true .pending } with
                 getters := s.getters ++ [t], waiting := s.waiting + 1 }
       | it :: rest => takeItem s t x it rest false) = Cm s t x (exec1 t s (recvCo f)) := by
  have hw' : x.wait ≠ .blocked false .pending := by rw [hw]; simp
  have W := fun (y : Task) (h2 : y.wait ≠ .blocked false .pending) =>
    wakeNext_set false s.putters s.tasks t x y hx hw' h2
  have hun : unIter (recvCo f) = recvCo f := by cases f <;> rfl
  simp only [Cm, exec1, hun, run_recv]
  by_cases hd : (s.closed && decide (s.queue.length ≤ s.waiting)) = true
  · simp only [hd, if_true, stopOf, commit, outcomeOf]
    cases f <;> rfl
  · simp only [hd, if_false, atGet, tryGet]
    cases hq : s.queue with
    | nil =>
      simp only [commit, suspendOn, inPut, hc]
      sys_ext [hq]
    | cons it rest =>
      have hpu : ∀ S : Sys, (popQ S rest).unfinished = S.unfinished := fun _ => rfl
      simp only [takeItem]
      cases f <;> cases it <;> by_cases hu : s.unfinished = 0 <;>
        simp only [getK, stopOf, runSync, commit, recvFin, isFlush, hpu, hu, driverRet, hc, outcomeOf, if_true, if_false,
          beq_self_eq_true, reduceCtorEq, beq_iff_eq, Bool.false_eq_true]
      all_goals sys_ext [W, toNat_succ_pred, hu]

theorem finish_doClose (s : Sys) (t : Nat) (x : Task) (o : Outcome) (hx : s.tasks[t]? = some x) :
    finish (doClose s) t x o = doClose (finish s t x o) := by
  have hl := getElem?_lt hx
  simp only [finish, doClose, Sys.setTask]
  sys_ext [List.set_append_left, hl]

/-- CancelledError thrown into a receiver suspended in `get()` -/
theorem cancel_get_eq (f : Flavour) (s : Sys) (t : Nat) (x : Task) (f' : Fut)
    (hx : s.tasks[t]? = some x) (hw : x.wait ≠ .blocked true .pending) :
    cancelBranch s t x true f' = Cm s t x (throwIn t s true f' (atGet f)) := by
  have W := fun (d : List Nat) (y : Task) (h2 : y.wait ≠ .blocked true .pending) =>
    wakeNext_set true d s.tasks t x y hx hw h2
  cases f' <;> cases hq : s.queue.isEmpty <;>
    simp [cancelBranch, Cm, throwIn, atGet, getH, recvFin, runSync, stopOf, commit, outcomeOf, cancelWaiter, hq] <;>
    sys_ext [W, toNat_pred]

/-- CancelledError thrown into a sender / flusher suspended in `put()` -/
theorem cancel_put_eq (s : Sys) (t : Nat) (x : Task) (f' : Fut) (it : Item) (k : Co)
    (hx : s.tasks[t]? = some x) (hw : x.wait ≠ .blocked false .pending) :
    cancelBranch s t x false f' = Cm s t x (throwIn t s false f' (.awaitPut it k Co.raise)) := by
  have W := fun (d : List Nat) (y : Task) (h2 : y.wait ≠ .blocked false .pending) =>
    wakeNext_set false d s.tasks t x y hx hw h2
  cases f' <;> cases hq : s.full <;>
    simp [cancelBranch, Cm, throwIn, runSync, stopOf, commit, outcomeOf, cancelWaiter, hq] <;>
    sys_ext [W]

/-- the end of a sender's program / of `send_from`: `if close: self.close()`, then the task is finished -/
theorem tail_eq (s : Sys) (t : Nat) (x : Task) (cl : Bool) (v : Val) (hx : s.tasks[t]? = some x)
    (hd : ∀ S : Sys, driverRet S t x v = finish S t x .ok) :
    (if cl = true then doClose (finish s t x .ok) else finish s t x .ok) =
      Cm s t x (stopOf (runSync s (if cl = true then SrcChan.close (fun _ => .ret v) else .ret v))) := by
  cases cl
  · simp only [Bool.false_eq_true, if_false, runSync, stopOf, Cm, commit, hd]
  · simp only [if_true, run_close, runSync, stopOf, Cm, commit, hd, finish_doClose _ _ _ _ hx]

theorem exec1_sync (t : Nat) (s : Sys) (c : Co) (s1 : Sys) (v : Val) (h : runSync s (unIter c) = (s1, .ret v)) :
    exec1 t s c = (s1, .returned v) := by
  simp only [exec1, h, stopOf]

theorem exec1_raise (t : Nat) (s : Sys) (c : Co) (s1 : Sys) (e : Exc) (h : runSync s (unIter c) = (s1, .raise e)) :
    exec1 t s c = (s1, .raised e) := by
  simp only [exec1, h, stopOf]

theorem receiver_of {x : Task} (h : x.code.isReceiver = true) : ∃ tm, x.code = .receiver tm := by
  cases hc : x.code <;> simp_all [Code.isReceiver]

theorem frameBlocked_put (fl : Nat → Flavour) (t : Nat) {c : Code} (h : canPut c = true) :
    ∃ it k, frameBlocked fl t c = .awaitPut it k Co.raise := by
  cases c with
  | sender m nx r cl =>
    cases r with
    | zero => simp [canPut] at h
    | succ r => cases m <;> exact ⟨_, _, rfl⟩
  | flusher o =>
    cases o with
    | none => simp [canPut] at h
    | some r =>
      cases r with
      | zero => simp [canPut] at h
      | succ r => exact ⟨_, _, rfl⟩
  | _ => simp [canPut] at h

/-- a task resumed inside `put()` (or at the loop head before it) makes its `put` -/
theorem put_eq (fl : Nat → Flavour) (s : Sys) (t : Nat) (x : Task) (hx : s.tasks[t]? = some x)
    (hp : canPut x.code = true) (hw : x.wait ≠ .blocked true .pending) :
    putStep s t x = Cm s t x (exec1 t s (frameBlocked fl t x.code)) := by
  cases hc : x.code with
  | sender m nx r cl =>
    cases r with
    | zero => simp [canPut, hc] at hp
    | succ r =>
      cases m with
      | each => exact put_each_eq s t x nx r cl hx hc hw
      | fromStart => exact put_from_eq s t x _ nx r cl hx hc (by simp) hw
      | fromRunning => exact put_from_eq s t x _ nx r cl hx hc (by simp) hw
  | flusher o =>
    cases o with
    | none => simp [canPut, hc] at hp
    | some r =>
      cases r with
      | zero => simp [canPut, hc] at hp
      | succ r => exact put_flush_eq s t x r hx hc hw
  | _ => simp [canPut, hc] at hp

/-- the step of a task whose waiter future is done with an exception to deliver -/
theorem cancel_eq (fl : Nat → Flavour) (s : Sys) (t : Nat) (x : Task) (g : Bool) (f f' : Fut)
    (hx : s.tasks[t]? = some x) (hC : Coh x) (hw : x.wait = .blocked g f) (hf : f ≠ .pending) :
    cancelBranch s t x g f' = Cm s t x (throwIn t s g f' (frame fl t x)) := by
  have hne : x.wait ≠ .blocked g .pending := by rw [hw]; intro h; cases h; exact hf rfl
  simp only [frame, hw]
  cases g with
  | true =>
    obtain ⟨tm, hc⟩ := receiver_of (hC.1 (by simp [hw, Wait.inGet]))
    rw [hc]
    exact cancel_get_eq (fl t) s t x f' hx hne
  | false =>
    obtain ⟨it, k, hk⟩ := frameBlocked_put fl t (hC.2 (by simp [hw, Wait.inPut]))
    rw [hk]
    exact cancel_put_eq s t x f' it k hx hne

theorem exec1_put (t : Nat) (s s1 : Sys) (c : Co) (it : Item) (k : Co) (h : Exc → Co)
    (hr : runSync s (unIter c) = (s1, .awaitPut it k h)) : exec1 t s c = exec1 t s1 (.awaitPut it k h) := by
  rw [exec1, hr]
  simp only [exec1, unIter, runSync]

theorem exec1_head (t : Nat) (s s1 : Sys) (c c1 : Co) (hr : runSync s (unIter c) = (s1, .iter c1)) :
    exec1 t s c = (s1, .atHead (.iter c1)) := by
  simp only [exec1, hr, stopOf]

theorem exec1_flush_head (t : Nat) (s s1 : Sys) (c k : Co) (n : Nat)
    (hr : runSync s (unIter c) = (s1, SrcChan._flush_queue_for1 k n)) :
    exec1 t s c = (s1, .atHead (SrcChan._flush_queue_for1 k n)) := by
  cases n <;> simp only [SrcChan._flush_queue_for1] at hr ⊢ <;> exact exec1_head t s s1 c _ hr

theorem exec1_from_head (t : Nat) (s s1 : Sys) (c k : Co) (xs : List Item)
    (hr : runSync s (unIter c) = (s1, SrcChan.send_from_for1 k xs)) :
    exec1 t s c = (s1, .atHead (SrcChan.send_from_for1 k xs)) := by
  cases xs <;> simp only [SrcChan.send_from_for1] at hr ⊢ <;> exact exec1_head t s s1 c _ hr

theorem exec1_iter_put (t : Nat) (s : Sys) (it : Item) (k : Co) (h : Exc → Co) :
    exec1 t s (.iter (.awaitPut it k h)) = exec1 t s (.awaitPut it k h) := rfl

theorem exec1_iter_tail (t : Nat) (s : Sys) (cl : Bool) :
    exec1 t s (.iter (sendFromTail cl)) =
      exec1 t s (if cl = true then SrcChan.close (fun _ => .ret .self) else .ret .self) := by
  cases cl <;> rfl

/-- a sender's program / `send_from` after its last item -/
theorem tail_exec_eq (s : Sys) (t : Nat) (x : Task) (cl : Bool) (v : Val) (hx : s.tasks[t]? = some x)
    (hd : ∀ S : Sys, driverRet S t x v = finish S t x .ok) :
    (if cl = true then doClose (finish s t x .ok) else finish s t x .ok) =
      Cm s t x (exec1 t s (if cl = true then SrcChan.close (fun _ => .ret v) else .ret v)) := by
  rw [tail_eq s t x cl v hx hd]
  cases cl
  · rfl
  · have hu : unIter (SrcChan.close fun _ => Co.ret v) = SrcChan.close fun _ => Co.ret v := rfl
    simp only [if_true]
    rw [exec1_sync t s _ (doClose s) v (by rw [hu, run_close]; rfl)]
    simp only [run_close, runSync, stopOf]

/-- the step of a task that is blocked (its waiter future is done or not) -/
theorem blocked_eq (fl : Nat → Flavour) (s : Sys) (t : Nat) (x : Task) (g : Bool) (f : Fut)
    (hx : s.tasks[t]? = some x) (hC : Coh x) (hw : x.wait = .blocked g f) : micro s t = srcMicro fl s t := by
  obtain ⟨hG, hP⟩ := hC
  unfold micro srcMicro
  simp only [hx, hw]
  cases f with
  | pending => simp [srcExec, asyncioOnly, hw]
  | cancelled =>
    have hsrc : srcExec fl s t x = some (throwIn t s g .cancelled (frame fl t x)) := by simp only [srcExec, hw]
    rw [hsrc]
    exact cancel_eq fl s t x g .cancelled .cancelled hx ⟨hG, hP⟩ hw (by simp)
  | woken =>
    dsimp only
    by_cases hm : x.mustCancel = true
    · have hsrc : srcExec fl s t x = some (throwIn t s g .woken (frame fl t x)) := by
        simp only [srcExec, hw, hm, if_true]
      rw [hsrc, if_pos hm]
      exact cancel_eq fl s t x g .woken .woken hx ⟨hG, hP⟩ hw (by simp)
    · have hsrc : srcExec fl s t x = some (exec1 t s (frame fl t x)) := by
        simp only [srcExec, hw, hm, if_false, Bool.false_eq_true]
      rw [hsrc, if_neg hm]
      cases g with
      | true =>
        obtain ⟨tm, hc⟩ := receiver_of (hG (by simp [hw, Wait.inGet]))
        have hfr : frame fl t x = atGet (fl t) := by simp only [frame, hw, hc, frameBlocked]
        rw [hfr, if_pos rfl]
        cases hq : s.queue with
        | nil => exact reblock_eq (fl t) s t x tm hc hq
        | cons it rest =>
          have he : exec1 t s (atGet (fl t)) = stopOf (runSync (popQ s rest) (getK (fl t) it)) := by
            simp only [exec1, atGet, unIter, runSync, tryGet, hq]
          rw [he]
          exact take_eq (fl t) s t x it rest tm hx hc (by rw [hw]; simp)
      | false =>
        have hfr : frame fl t x = frameBlocked fl t x.code := by simp only [frame, hw]
        rw [hfr, if_neg (by simp)]
        exact put_eq fl s t x hx (hP (by simp [hw, Wait.inPut])) (by rw [hw]; simp)

/-- the step of a task that is ready: its program makes its next call, or goes on from the loop head it is at -/
theorem ready_eq (fl : Nat → Flavour) (s : Sys) (t : Nat) (x : Task)
    (hx : s.tasks[t]? = some x) (hw : x.wait = .ready) : micro s t = srcMicro fl s t := by
  obtain ⟨code, wait, mc, cr, tout, out⟩ := x
  simp only at hw
  subst hw
  unfold micro srcMicro
  simp only [hx]
  cases mc with
  | true => simp [srcExec, asyncioOnly]
  | false =>
    simp only [Bool.false_eq_true, if_false]
    have hne : ∀ g, (Task.mk code .ready false cr tout out).wait ≠ .blocked g .pending := by intro g; simp
    cases code with
    | canceller tg => simp [srcExec, asyncioOnly]
    | closer =>
      simp only [srcExec, frame, frameReady, Bool.false_eq_true, if_false]
      have := tail_eq s t ⟨.closer, .ready, false, cr, tout, out⟩ true .none hx (fun _ => rfl)
      simp only [if_true] at this
      have hu : unIter (SrcChan.close fun _ => Co.ret Val.none) = SrcChan.close fun _ => Co.ret Val.none := rfl
      rw [this, exec1_sync t s _ (doClose s) .none (by rw [hu, run_close]; rfl)]
      simp only [Cm, run_close, runSync, stopOf]
    | receiver tm =>
      simp only [srcExec, frame, frameReady, Bool.false_eq_true, if_false]
      exact recv_ready_eq (fl t) s t _ tm hx rfl rfl
    | flusher o =>
      cases o with
      | none =>
        simp only [srcExec, frame, frameReady, Bool.false_eq_true, if_false]
        have hu : unIter SrcChan._flush_queue = SrcChan._flush_queue := rfl
        by_cases hf : s.flushed = true
        · rw [if_pos hf, exec1_sync t s _ s .none (by rw [hu, run_flush, if_pos hf])]
          rfl
        · rw [if_neg hf, exec1_flush_head t s _ _ _ _ (by rw [hu, run_flush, if_neg hf])]
          simp only [commit, nextCode]
          sys_ext []
      | some r =>
        cases r with
        | zero =>
          simp only [srcExec, frame, frameReady, Bool.false_eq_true, if_false]
          rw [exec1_sync t s _ s .none (by simp only [SrcChan._flush_queue_for1, unIter, runSync])]
          rfl
        | succ r =>
          simp only [srcExec, frame, frameReady, Bool.false_eq_true, if_false, SrcChan._flush_queue_for1]
          rw [exec1_iter_put]
          exact put_flush_eq s t _ r hx rfl (hne true)
    | sender m nx r cl =>
      cases m with
      | each =>
        cases r with
        | zero =>
          simp only [srcExec, frame, frameReady, Bool.false_eq_true, if_false, Nat.lt_irrefl, decide_false,
            Bool.false_and, if_true]
          exact tail_exec_eq s t _ cl .none hx (fun _ => rfl)
        | succ r =>
          simp only [srcExec, frame, frameReady, Bool.false_eq_true, if_false, Nat.zero_lt_succ, decide_true,
            Bool.true_and, Nat.succ_ne_zero]
          have hu : unIter (SrcChan.send (.data t nx)) = SrcChan.send (.data t nx) := rfl
          by_cases hcl : s.closed = true
          · rw [if_pos hcl, exec1_raise t s _ s .channelClosed (by rw [hu, run_send, if_pos hcl])]
            rfl
          · rw [if_neg hcl, exec1_put t s s _ _ _ _ (by rw [hu, run_send, if_neg hcl])]
            exact put_each_eq s t _ nx r cl hx rfl (hne true)
      | fromStart =>
        simp only [srcExec, frame, frameReady, Bool.false_eq_true, if_false, Bool.true_and]
        have hu : unIter (SrcChan.send_from (items t nx r) cl) = SrcChan.send_from (items t nx r) cl := rfl
        by_cases hcl : s.closed = true
        · rw [if_pos hcl]
          simp only [exec2, exec1_raise t s _ s .channelClosed (by rw [hu, run_send_from, if_pos hcl])]
          rfl
        · rw [if_neg hcl]
          simp only [exec2, exec1_from_head t s s _ _ _ (by rw [hu, run_send_from, if_neg hcl])]
          cases r with
          | zero =>
            simp only [if_true, items, SrcChan.send_from_for1]
            rw [exec1_iter_tail]
            exact tail_exec_eq s t _ cl .self hx (fun _ => rfl)
          | succ r =>
            simp only [Nat.succ_ne_zero, if_false, items, SrcChan.send_from_for1]
            rw [exec1_iter_put]
            exact put_from_eq s t _ .fromStart nx r cl hx rfl (by simp) (hne true)
      | fromRunning =>
        simp only [srcExec, frame, frameReady, Bool.false_eq_true, if_false, Bool.false_and]
        cases r with
        | zero =>
          simp only [if_true, items, SrcChan.send_from_for1]
          rw [exec1_iter_tail]
          exact tail_exec_eq s t _ cl .self hx (fun _ => rfl)
        | succ r =>
          simp only [Nat.succ_ne_zero, if_false, items, SrcChan.send_from_for1]
          rw [exec1_iter_put]
          exact put_from_eq s t _ .fromRunning nx r cl hx rfl (by simp) (hne true)

/-- **A**: one atomic action of the model is one segment step of the translated source (two for a task that enters
    `send_from`), for every state, every task with a coherent record and every assignment of `receive` / `__anext__`
    to the receivers -/
theorem micro_eq_srcMicro (fl : Nat → Flavour) (s : Sys) (t : Nat)
    (hcoh : ∀ x, s.tasks[t]? = some x → Coh x) : micro s t = srcMicro fl s t := by
  cases hx : s.tasks[t]? with
  | none => simp only [micro, srcMicro, hx]
  | some x =>
    cases hw : x.wait with
    | done => simp [micro, srcMicro, hx, hw, srcExec, asyncioOnly]
    | blocked g f => exact blocked_eq fl s t x g f hx (hcoh x hx) hw
    | ready => exact ready_eq fl s t x hx hw

/-! ### B: where the run stopped is the frame of the new record -/

/-- the `Co` at which the run `r` of the coroutine of `t` (record `x`, state `s` before) stopped is the `frame` of
    the record `commit` writes: `frameBlocked` of the new program counter when it suspended, `frameReady` when it
    stopped at a loop head -/
def StopOk (fl : Nat → Flavour) (s : Sys) (t : Nat) (x : Task) (r : Sys × Stop) : Prop :=
  match r.2 with
  | .suspended _ c => c = frameBlocked fl t (inPut x.code)
  | .atHead c => c = frameReady fl t (nextCode s x.code)
  | _ => True

theorem exec1_put_stop (t : Nat) (s : Sys) (it : Item) (k : Co) (h : Exc → Co) :
    (exec1 t s (.awaitPut it k h)).2 =
      if s.full = true then .suspended false (.awaitPut it k h) else (stopOf (runSync (putNowait s it) k)).2 := by
  simp only [exec1, unIter, runSync, tryPut]
  by_cases hf : s.full = true
  · simp only [hf, if_true]
  · simp only [hf, if_false, Bool.false_eq_true]

theorem stopOk_put (fl : Nat → Flavour) (s : Sys) (t : Nat) (x : Task) (hp : canPut x.code = true) :
    StopOk fl s t x (exec1 t s (frameBlocked fl t x.code)) := by
  unfold StopOk
  cases hc : x.code with
  | sender m nx r cl =>
    cases r with
    | zero => simp [canPut, hc] at hp
    | succ r =>
      cases m <;> simp only [frameBlocked, exec1_put_stop] <;> by_cases hf : s.full = true <;>
        simp only [hf, if_true, if_false, Bool.false_eq_true, inPut, SMode.running, frameBlocked,
          run_for1, stop_for1, nextCode, frameReady]
      simp only [runSync, stopOf]
  | flusher o =>
    cases o with
    | none => simp [canPut, hc] at hp
    | some r =>
      cases r with
      | zero => simp [canPut, hc] at hp
      | succ r =>
        simp only [frameBlocked, exec1_put_stop]
        by_cases hf : s.full = true <;>
          simp only [hf, if_true, if_false, Bool.false_eq_true, inPut, frameBlocked, run_flush_for1, stop_flush_for1,
            nextCode, frameReady]
  | _ => simp [canPut, hc] at hp

theorem getK_stop (f : Flavour) (S : Sys) (it : Item) :
    (∃ v, (stopOf (runSync S (getK f it))).2 = .returned v) ∨ (∃ e, (stopOf (runSync S (getK f it))).2 = .raised e) := by
  cases f <;> cases it <;> by_cases hu : S.unfinished = 0 <;>
    simp [getK, runSync, stopOf, recvFin, isFlush, hu]

theorem stopOk_get (fl : Nat → Flavour) (s s' : Sys) (t : Nat) (x : Task) (tm : Bool) (hc : x.code = .receiver tm) :
    StopOk fl s t x (exec1 t s' (atGet (fl t))) := by
  unfold StopOk
  simp only [exec1, atGet, unIter, runSync, tryGet]
  cases hq : s'.queue with
  | nil => simp only [hc, inPut, frameBlocked, atGet]
  | cons it rest =>
    simp only []
    rcases getK_stop (fl t) (popQ s' rest) it with ⟨v, h⟩ | ⟨e, h⟩ <;> rw [h] <;> trivial

theorem stopOk_throw (fl : Nat → Flavour) (s : Sys) (t : Nat) (x : Task) (g : Bool) (f' : Fut) (hC : Coh x)
    (hw : x.wait.inGet = true ∨ x.wait.inPut = true) :
    StopOk fl s t x (throwIn t s g f' (frameBlocked fl t x.code)) := by
  unfold StopOk
  rcases hw with hw | hw
  · obtain ⟨tm, hc⟩ := receiver_of (hC.1 hw)
    simp only [hc, frameBlocked, atGet, throwIn, getH, recvFin, runSync, stopOf]
  · obtain ⟨it, k, hk⟩ := frameBlocked_put fl t (hC.2 hw)
    simp only [hk, throwIn, runSync, stopOf]

theorem exec1_recv (f : Flavour) (t : Nat) (s : Sys) :
    exec1 t s (recvCo f) =
      if (s.closed && decide (s.queue.length ≤ s.waiting)) = true then (s, .raised (doneExc f))
      else exec1 t { s with waiting := s.waiting + 1 } (atGet f) := by
  have hun : unIter (recvCo f) = recvCo f := by cases f <;> rfl
  by_cases hd : (s.closed && decide (s.queue.length ≤ s.waiting)) = true
  · rw [if_pos hd, exec1_raise t s _ s (doneExc f) (by rw [hun, run_recv, if_pos hd])]
  · rw [if_neg hd, exec1, hun, run_recv, if_neg hd]
    simp only [exec1, atGet, unIter, runSync]

theorem stopOk_tail (fl : Nat → Flavour) (s : Sys) (t : Nat) (x : Task) (cl : Bool) (v : Val) :
    StopOk fl s t x (exec1 t s (if cl = true then SrcChan.close (fun _ => .ret v) else .ret v)) := by
  unfold StopOk
  cases cl
  · simp only [Bool.false_eq_true, if_false, exec1, unIter, runSync, stopOf]
  · have hu : unIter (SrcChan.close fun _ => Co.ret v) = SrcChan.close fun _ => Co.ret v := rfl
    simp only [if_true]
    rw [exec1_sync t s _ (doClose s) v (by rw [hu, run_close]; rfl)]
    trivial

/-- **B**: the `Co` at which the run of the step stopped is the frame of the task's new record -/
theorem stop_ok (fl : Nat → Flavour) (s : Sys) (t : Nat) (x : Task) (r : Sys × Stop) (hC : Coh x)
    (h : srcExec fl s t x = some r) : StopOk fl s t x r := by
  cases hw : x.wait with
  | done => simp [srcExec, hw] at h
  | blocked g f =>
    have hfr : frame fl t x = frameBlocked fl t x.code := by simp only [frame, hw]
    have hin : x.wait.inGet = true ∨ x.wait.inPut = true := by rw [hw]; cases g <;> simp [Wait.inGet, Wait.inPut]
    cases f with
    | pending => simp [srcExec, hw] at h
    | cancelled =>
      simp only [srcExec, hw, Option.some.injEq] at h
      subst h; rw [hfr]; exact stopOk_throw fl s t x g _ hC hin
    | woken =>
      by_cases hm : x.mustCancel = true
      · simp only [srcExec, hw, hm, if_true, Option.some.injEq] at h
        subst h; rw [hfr]; exact stopOk_throw fl s t x g _ hC hin
      · simp only [srcExec, hw, hm, if_false, Bool.false_eq_true, Option.some.injEq] at h
        subst h; rw [hfr]
        cases g with
        | true =>
          obtain ⟨tm, hc⟩ := receiver_of (hC.1 (by simp [hw, Wait.inGet]))
          have : frameBlocked fl t x.code = atGet (fl t) := by simp only [hc, frameBlocked]
          rw [this]; exact stopOk_get fl s s t x tm hc
        | false => exact stopOk_put fl s t x (hC.2 (by simp [hw, Wait.inPut]))
  | ready =>
    obtain ⟨code, wait, mc, cr, tout, out⟩ := x
    simp only at hw
    subst hw
    cases mc with
    | true => simp [srcExec] at h
    | false =>
      cases code with
      | canceller tg => simp [srcExec] at h
      | closer =>
        simp only [srcExec, frame, frameReady, Bool.false_eq_true, if_false, Option.some.injEq] at h
        subst h
        exact stopOk_tail fl s t _ true .none
      | receiver tm =>
        simp only [srcExec, frame, frameReady, Bool.false_eq_true, if_false, Option.some.injEq] at h
        subst h
        rw [exec1_recv]
        split
        · trivial
        · exact stopOk_get fl s _ t _ tm rfl
      | flusher o =>
        cases o with
        | none =>
          simp only [srcExec, frame, frameReady, Bool.false_eq_true, if_false, Option.some.injEq] at h
          subst h
          have hu : unIter SrcChan._flush_queue = SrcChan._flush_queue := rfl
          by_cases hf : s.flushed = true
          · rw [exec1_sync t s _ s .none (by rw [hu, run_flush, if_pos hf])]
            trivial
          · rw [exec1_flush_head t s _ _ _ _ (by rw [hu, run_flush, if_neg hf])]
            rfl
        | some r =>
          cases r with
          | zero =>
            simp only [srcExec, frame, frameReady, Bool.false_eq_true, if_false, Option.some.injEq] at h
            subst h
            rw [exec1_sync t s _ s .none (by simp only [SrcChan._flush_queue_for1, unIter, runSync])]
            trivial
          | succ r =>
            simp only [srcExec, frame, frameReady, Bool.false_eq_true, if_false, Option.some.injEq,
              SrcChan._flush_queue_for1] at h
            subst h
            rw [exec1_iter_put]
            exact stopOk_put fl s t ⟨.flusher (some (r + 1)), .ready, false, cr, tout, out⟩ rfl
      | sender m nx r cl =>
        cases m with
        | each =>
          cases r with
          | zero =>
            simp only [srcExec, frame, frameReady, Bool.false_eq_true, if_false, Option.some.injEq] at h
            subst h
            exact stopOk_tail fl s t _ cl .none
          | succ r =>
            simp only [srcExec, frame, frameReady, Bool.false_eq_true, if_false, Option.some.injEq] at h
            subst h
            have hu : unIter (SrcChan.send (.data t nx)) = SrcChan.send (.data t nx) := rfl
            by_cases hcl : s.closed = true
            · rw [exec1_raise t s _ s .channelClosed (by rw [hu, run_send, if_pos hcl])]
              trivial
            · rw [exec1_put t s s _ _ _ _ (by rw [hu, run_send, if_neg hcl])]
              exact stopOk_put fl s t ⟨.sender .each nx (r + 1) cl, .ready, false, cr, tout, out⟩ rfl
        | fromStart =>
          simp only [srcExec, frame, frameReady, Bool.false_eq_true, if_false, Option.some.injEq] at h
          subst h
          have hu : unIter (SrcChan.send_from (items t nx r) cl) = SrcChan.send_from (items t nx r) cl := rfl
          by_cases hcl : s.closed = true
          · simp only [exec2, exec1_raise t s _ s .channelClosed (by rw [hu, run_send_from, if_pos hcl])]
            trivial
          · simp only [exec2, exec1_from_head t s s _ _ _ (by rw [hu, run_send_from, if_neg hcl])]
            cases r with
            | zero =>
              simp only [items, SrcChan.send_from_for1]
              rw [exec1_iter_tail]
              exact stopOk_tail fl s t _ cl .self
            | succ r =>
              simp only [items, SrcChan.send_from_for1]
              rw [exec1_iter_put]
              exact stopOk_put fl s t ⟨.sender .fromStart nx (r + 1) cl, .ready, false, cr, tout, out⟩ rfl
        | fromRunning =>
          simp only [srcExec, frame, frameReady, Bool.false_eq_true, if_false, Option.some.injEq] at h
          subst h
          cases r with
          | zero =>
            simp only [items, SrcChan.send_from_for1]
            rw [exec1_iter_tail]
            exact stopOk_tail fl s t _ cl .self
          | succ r =>
            simp only [items, SrcChan.send_from_for1]
            rw [exec1_iter_put]
            exact stopOk_put fl s t ⟨.sender .fromRunning nx (r + 1) cl, .ready, false, cr, tout, out⟩ rfl

/-- **B**, in terms of `frame`: the records are the ones `commit` writes -/
theorem stop_frame (fl : Nat → Flavour) (s : Sys) (t : Nat) (x : Task) (r : Sys × Stop) (hC : Coh x)
    (h : srcExec fl s t x = some r) :
    match r.2 with
    | .suspended g c => c = frame fl t { x with wait := .blocked g .pending, code := inPut x.code }
    | .atHead c => c = frame fl t { x with wait := .ready, code := nextCode s x.code }
    | _ => True := by
  have := stop_ok fl s t x r hC h
  unfold StopOk at this
  cases hr : r.2 <;> simp only [hr] at this <;> simp only [frame] <;> exact this

/-! ### whole scheduler steps and runs -/

/-- `runTask` with the translated source -/
def srcRunTask (fl : Nat → Flavour) : Nat → Sys → Nat → Sys
  | 0, s, _ => s
  | fuel + 1, s, t =>
    let s' := srcMicro fl s t
    if waitOf s' t = some .ready then srcRunTask fl fuel s' t else s'

/-- `step` with the translated source: the chosen handle runs the coroutine until it is suspended or finished -/
def srcStep (fl : Nat → Flavour) (s : Sys) (c : Choice) : Sys :=
  if enabled s c then
    match c with
    | .run t => srcRunTask fl (fuelFor s t) s t
    | .fire t => cancelTask s t true
  else s

def srcRun (fl : Nat → Flavour) (s : Sys) (cs : List Choice) : Sys := cs.foldl (srcStep fl) s

theorem coh_of_tinv {s : Sys} (h : TInv s) {t : Nat} {x : Task} (hx : s.tasks[t]? = some x) : Coh x :=
  ⟨h.inv.st.getRecv t x hx, h.put t x hx⟩

theorem micro_eq_of_tinv (fl : Nat → Flavour) {s : Sys} (h : TInv s) (t : Nat) : micro s t = srcMicro fl s t :=
  micro_eq_srcMicro fl s t (fun _ hx => coh_of_tinv h hx)

theorem runTask_eq (fl : Nat → Flavour) (fuel : Nat) {s : Sys} (h : TInv s) (t : Nat) :
    runTask fuel s t = srcRunTask fl fuel s t := by
  induction fuel generalizing s with
  | zero => rfl
  | succ n ih =>
    simp only [runTask, srcRunTask, ← micro_eq_of_tinv fl h t]
    split
    · exact ih (micro_tinv h t)
    · rfl

theorem step_eq (fl : Nat → Flavour) {s : Sys} (h : TInv s) (c : Choice) : step s c = srcStep fl s c := by
  unfold step srcStep
  split
  · cases c with
    | run t => exact runTask_eq fl _ h t
    | fire t => rfl
  · rfl

theorem run_eq (fl : Nat → Flavour) {s : Sys} (h : TInv s) (cs : List Choice) : run s cs = srcRun fl s cs := by
  induction cs generalizing s with
  | nil => rfl
  | cons c cs ih =>
    show run (step s c) cs = srcRun fl (srcStep fl s c) cs
    rw [← step_eq fl h c]
    exact ih (step_tinv h c)

end Bp.SrcTieChan
