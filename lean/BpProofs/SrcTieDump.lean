import BpProofs.Gen.SrcDump
import BpProofs.Presence
import BpProofs.Len
import BpProofs.Typed
/-
  THE TIE BETWEEN THE TRANSLATED FIELD LOOP BODIES AND THE HAND-WRITTEN MODEL.

  `Bp.Src.dump_field` / `Bp.Src.len_field` (BpProofs/Gen/SrcDump.lean) are regenerated from
  the Python AST of the body of the field loop of `Message.dump` / `Message.__len__` on
  every run.  The theorems below say that, with `enc := dumpVal S` (the recursive encoder
  of the model standing for `bytes(<Message>)`), one iteration as written

    * appends to the stream exactly the bytes of the model's `dumpSlot S f hid sel v`
    * adds to `size` exactly the model's `lenSlot S f hid sel v`

  and raises exactly when the model raises — for every field descriptor `f`, every raw
  slot value `v`, both flags (`hid`: getattr raises AttributeError, `sel`:
  `_include_default_value_for_oneof`), under two explicit guards:

    * `dynOk f v` (decidable): a Message instance sits only where the descriptor says
      "message without wrapper" (singular value, list item, map value), and a non-empty
      dict sits in a map field whose key type is not `message`.  Every typed slot of a
      well-formed schema satisfies it (`dynOk_of_typed`).  Outside the guard the model and
      the source are both in their error paths but name different exceptions / stop at
      different points (see the notes at `dynOk`).
    * `WfSchemaOpt S` (BpProofs/Presence.lean; only used for a PLACEHOLDER slot of a
      message-typed field): optional fields are singular non-map fields, which makes a fresh
      instance compare equal to itself in the model's `eqDefault`.
-/
set_option linter.unusedSimpArgs false
set_option linter.unusedVariables false
namespace Bp.SrcTieDump
open Bp Bp.Py Gen

/-- the stream after appending what the model produces -/
def appR (s : Bytes) (r : R Bytes) : Res Bytes := ofR (r.map fun b => s ++ b)
/-- the size after adding what the model produces -/
def addR (n : Int) (r : R Nat) : Res Int := ofR (r.map fun (k : Nat) => n + (k : Int))

@[simp] theorem appR_ok (s b : Bytes) : appR s (.ok b) = .ok (s ++ b) := rfl
@[simp] theorem appR_error (s : Bytes) (e : PyErr) : appR s (.error e) = .raise e := rfl
@[simp] theorem addR_ok (n : Int) (k : Nat) : addR n (.ok k) = .ok (n + (k : Int)) := rfl
@[simp] theorem addR_error (n : Int) (e : PyErr) : addR n (.error e) = .raise e := rfl
@[simp] theorem ofR_ok {α} (a : α) : ofR (Except.ok a : R α) = .ok a := rfl
@[simp] theorem ofR_error {α} (e : PyErr) : ofR (Except.error e : R α) = .raise e := rfl
@[simp] theorem res_bind_ok {α β} (a : α) (f : α → Res β) : (Res.ok a).bind f = f a := rfl
@[simp] theorem res_bind_raise {α β} (e : PyErr) (f : α → Res β) : (Res.raise e : Res α).bind f = .raise e := rfl

/-! ### the guard -/

/-- `f.ty == message` without wrapper: where a Message instance is a legal value -/
def msgPlace (f : FieldD) : Bool := f.ty == .message && f.wraps.isNone

/-- The guard of the tie.  Outside it both sides are error paths that differ in detail:
    * a Message instance in a field that is not a plain message field: the model encodes the
      instance first and then raises TypeError, `_preprocess_single` raises at once (TypeError /
      AttributeError / struct.error depending on the proto type);
    * a dict in a field that is not a map field: `assert meta.map_types` fails in the source,
      the model frames the entries under the field's own proto type;
    * a Message instance as a map KEY under key type `message` (protoc rejects such a map):
      the source encodes it with `bytes(key)`, the model raises TypeError. -/
def dynOk (f : FieldD) : Val → Bool
  | .msg _ _ _ _ _ => msgPlace f
  | .list xs => xs.all fun x => !isMsgVal x || msgPlace f
  | .dict ks vs => (ks.zip vs).all fun kv =>
      f.ty == .map && (!isMsgVal kv.1 || f.mapK != .message) && (!isMsgVal kv.2 || f.mapV == .message)
  | _ => true

/-! ### the intrinsics on the two kinds of value -/

theorem serializeSingleR_nonmsg (S : Schema) (enc : Val → R Bytes) (num : Nat) (t : PType) (v : Val) (se : Bool)
    (w : Option PType) (h : isMsgVal v = false) :
    serializeSingleR S enc num t v se w = serializeScalar S num t v se w := by
  simp [serializeSingleR, preprocessSingleR, serializeScalar, h]

theorem serializeSingleR_keyty (S : Schema) (enc : Val → R Bytes) (num : Nat) (t : PType) (v : Val) (se : Bool)
    (h : (!isMsgVal v || t != .message) = true) :
    serializeSingleR S enc num t v se Option.none = serializeScalar S num t v se Option.none := by
  cases hv : isMsgVal v with
  | false => exact serializeSingleR_nonmsg _ _ _ _ _ _ _ hv
  | true =>
    rw [hv] at h
    have ht : (t == PType.message) = false := by simpa using h
    simp [serializeSingleR, preprocessSingleR, serializeScalar, ht]

theorem serializeSingleR_msg (S : Schema) (num : Nat) (t : PType) (c : Nat) (sl : List Val) (ow : Bool) (unk : Bytes)
    (cur : List (Option Nat)) (se : Bool) (w : Option PType) (h : (t == .message && w.isNone) = true) :
    serializeSingleR S (dumpVal S) num t (.msg c sl ow unk cur) se w =
      (dumpSlots S (fieldsOf S c) cur 0 sl).bind fun body => frame num t (body ++ unk) se false := by
  have hw : w.isSome = false := by cases w <;> simp_all
  simp only [serializeSingleR, preprocessSingleR, isMsgVal, Bool.true_and, h, if_true, dumpVal_msg, hw]
  cases dumpSlots S (fieldsOf S c) cur 0 sl <;> rfl

theorem lenSingleR_eq (S : Schema) (enc : Val → R Bytes) (num : Nat) (t : PType) (v : Val) (se : Bool) (w : Option PType) :
    lenSingleR S enc num t v se w = Except.map List.length (serializeSingleR S enc num t v se w) := by
  unfold lenSingleR serializeSingleR lenPreprocessedSingleR preprocessSingleR
  split
  · cases enc v <;> simp [lenFrame_eq]
  · rw [sizeScalar_eq]
    cases prepScalar S t w v <;> simp [lenFrame_eq]

theorem wrapsOr_noWraps (w : Option PType) : wrapsOr w noWraps = w := by cases w <;> rfl

theorem packed_ne_message (t : PType) (h : packedTypes.contains t = true) : (t == PType.message) = false := by
  revert h; cases t <;> decide

/-! ### unfolding of the model's item / entry recursions -/

theorem dumpItems_nil (S : Schema) (f : FieldD) : dumpItems S f [] = .ok [] := by rw [dumpItems]

theorem dumpItems_cons (S : Schema) (f : FieldD) (x : Val) (xs : List Val) (h : (!isMsgVal x || msgPlace f) = true) :
    dumpItems S f (x :: xs) =
      (serializeSingleR S (dumpVal S) f.num f.ty x true f.wraps).bind fun a =>
        (dumpItems S f xs).bind fun b => .ok ((if a.isEmpty then [10, 0] else a) ++ b) := by
  cases x with
  | msg c sl ow unk cur =>
    have hp : (f.ty == PType.message && f.wraps.isNone) = true := by simpa [isMsgVal, msgPlace] using h
    rw [dumpItems, serializeSingleR_msg S _ _ c sl ow unk cur true f.wraps hp, hp]
    cases dumpSlots S (fieldsOf S c) cur 0 sl <;> rfl
  | _ =>
    rw [serializeSingleR_nonmsg _ _ _ _ _ _ _ rfl, dumpItems]
    all_goals (intros; contradiction)

theorem dumpEntries_nil_left (S : Schema) (f : FieldD) (vs : List Val) : dumpEntries S f [] vs = .ok [] := by
  rw [dumpEntries]; all_goals (intros; contradiction)

theorem dumpEntries_nil_right (S : Schema) (f : FieldD) (ks : List Val) : dumpEntries S f ks [] = .ok [] := by
  rw [dumpEntries]; all_goals (intros; contradiction)

theorem dumpEntries_cons (S : Schema) (f : FieldD) (k v : Val) (ks vs : List Val)
    (hk : (!isMsgVal k || f.mapK != .message) = true) (hv : (!isMsgVal v || f.mapV == .message) = true) :
    dumpEntries S f (k :: ks) (v :: vs) =
      (serializeSingleR S (dumpVal S) 1 f.mapK k false Option.none).bind fun sk =>
      (serializeSingleR S (dumpVal S) 2 f.mapV v false Option.none).bind fun sv =>
      (frame f.num f.ty (sk ++ sv) true false).bind fun e =>
      (dumpEntries S f ks vs).bind fun rest => .ok (e ++ rest) := by
  rw [serializeSingleR_keyty _ _ _ _ _ _ hk]
  cases v with
  | msg c sl ow unk cur =>
    have hp : (f.mapV == PType.message) = true := by simpa [isMsgVal] using hv
    have hp' : (f.mapV == PType.message && (Option.none : Option PType).isNone) = true := by simp [hp]
    rw [dumpEntries, serializeSingleR_msg S _ _ c sl ow unk cur false Option.none hp', hp]
    · cases serializeScalar S 1 f.mapK k false Option.none with
      | error e => rfl
      | ok sk => cases dumpSlots S (fieldsOf S c) cur 0 sl <;> rfl
  | _ =>
    rw [serializeSingleR_nonmsg _ _ _ _ _ _ _ rfl, dumpEntries]
    all_goals (intros; contradiction)

/-- `_serialize_single(number, proto_type, <bytes>, serialize_empty=True)` for the entry of a map field -/
theorem serializeSingleR_entry (S : Schema) (enc : Val → R Bytes) (num : Nat) (b : Bytes) :
    serializeSingleR S enc num PType.map (bytesVal b) true noWraps = frame num PType.map b true false := by
  have h : PType.map ∉ fixedTypes := by decide
  simp [serializeSingleR, preprocessSingleR, bytesVal, isMsgVal, prepScalar, prepPlain, noWraps, isFixed, h]

/-- `_serialize_single(number, TYPE_BYTES, buf)` for a packed list -/
theorem serializeSingleR_packed (S : Schema) (enc : Val → R Bytes) (num : Nat) (b : Bytes) :
    serializeSingleR S enc num PType.bytes (bytesVal b) false noWraps = frame num PType.bytes b false false := by
  have h : PType.bytes ∉ fixedTypes := by decide
  simp [serializeSingleR, preprocessSingleR, bytesVal, isMsgVal, prepScalar, prepPlain, noWraps, isFixed, h]

/-! ### the three inner loops of `Message.dump` -/

theorem preprocess_packed (S : Schema) (enc : Val → R Bytes) (f : FieldD) (hp : isPacked f.ty = true) (x : Val) :
    preprocessSingle S enc (metaProtoType f) noWraps x = ofR (prepScalar S f.ty Option.none x) := by
  simp [preprocessSingle, preprocessSingleR, metaProtoType, noWraps, packed_ne_message _ hp]

/-- `for item in value: buf += _preprocess_single(meta.proto_type, "", item)` is `prepPacked` -/
theorem dump_loop1 (S : Schema) (enc : Val → R Bytes) (f : FieldD) (hp : isPacked f.ty = true) :
    ∀ (xs : List Val) (buf : Bytes), Src.dump_field.loop1 S enc f xs buf = appR buf (prepPacked S f.ty xs)
  | [], buf => by rw [Src.dump_field.loop1, prepPacked]; simp
  | x :: xs, buf => by
    rw [Src.dump_field.loop1, prepPacked, preprocess_packed S enc f hp]
    cases prepScalar S f.ty Option.none x with
    | error e => rfl
    | ok a =>
      simp only [ofR_ok, res_bind_ok, bind_ok]
      rw [dump_loop1 S enc f hp xs (buf ++ a)]
      cases prepPacked S f.ty xs <;> simp

/-- the non-packed item loop is `dumpItems` -/
theorem dump_loop2 (S : Schema) (f : FieldD) :
    ∀ (xs : List Val) (stream : Bytes), (xs.all fun x => !isMsgVal x || msgPlace f) = true →
      Src.dump_field.loop2 S (dumpVal S) f xs stream = appR stream (dumpItems S f xs)
  | [], stream, _ => by rw [Src.dump_field.loop2, dumpItems_nil]; simp
  | x :: xs, stream, h => by
    simp only [List.all_cons, Bool.and_eq_true] at h
    rw [Src.dump_field.loop2, dumpItems_cons S f x xs h.1]
    simp only [wrapsOr_noWraps, serializeSingle, metaNumber, metaProtoType, metaWraps, bytesOr]
    cases serializeSingleR S (dumpVal S) f.num f.ty x true f.wraps with
    | error e => rfl
    | ok a =>
      simp only [ofR_ok, res_bind_ok, bind_ok]
      rw [dump_loop2 S f xs _ h.2]
      cases dumpItems S f xs <;> simp

/-- the entry loop of a map field is `dumpEntries` -/
theorem dump_loop3 (S : Schema) (f : FieldD) :
    ∀ (ks vs : List Val) (stream : Bytes), dynOk f (.dict ks vs) = true →
      Src.dump_field.loop3 S (dumpVal S) f (ks.zip vs) stream = appR stream (dumpEntries S f ks vs)
  | [], vs, stream, _ => by rw [List.zip_nil_left, Src.dump_field.loop3, dumpEntries_nil_left]; simp
  | k :: ks, [], stream, _ => by rw [List.zip_nil_right, Src.dump_field.loop3, dumpEntries_nil_right]; simp
  | k :: ks, v :: vs, stream, h => by
    simp only [dynOk, List.zip_cons_cons, List.all_cons, Bool.and_eq_true] at h
    obtain ⟨⟨⟨hm, hk⟩, hv⟩, hrest⟩ := h
    have hm' : f.ty = PType.map := by simpa using hm
    rw [List.zip_cons_cons, Src.dump_field.loop3, dumpEntries_cons S f k v ks vs hk hv]
    simp only [mapTypesSet, hm, if_true, serializeSingle, metaMapKey, metaMapValue, metaNumber, metaProtoType, noWraps]
    cases serializeSingleR S (dumpVal S) 1 f.mapK k false Option.none with
    | error e => rfl
    | ok sk =>
      simp only [ofR_ok, res_bind_ok, bind_ok]
      cases serializeSingleR S (dumpVal S) 2 f.mapV v false Option.none with
      | error e => rfl
      | ok sv =>
        simp only [ofR_ok, res_bind_ok, bind_ok]
        rw [hm']
        have he := serializeSingleR_entry S (dumpVal S) f.num (sk ++ sv)
        simp only [noWraps] at he
        rw [he]
        cases frame f.num PType.map (sk ++ sv) true false with
        | error e => rfl
        | ok e =>
          simp only [ofR_ok, res_bind_ok, bind_ok]
          have hd : dynOk f (.dict ks vs) = true := by simpa [dynOk] using hrest
          have ih := dump_loop3 S f ks vs (stream ++ e) hd
          rw [ih]
          cases dumpEntries S f ks vs <;> simp

/-! ### one iteration of the field loop of `Message.dump` -/

theorem dumpSlot_hid (S : Schema) (f : FieldD) (sel : Bool) (v : Val) : dumpSlot S f true sel v = .ok [] := by
  cases v with
  | str s => cases s <;> (rw [dumpSlot]; all_goals (intros; first | rfl | contradiction | (rename_i h; injection h with h; cases h)))
  | _ => rw [dumpSlot]; all_goals (intros; first | rfl | contradiction)

theorem dump_field_list (S : Schema) (f : FieldD) (sel : Bool) (xs : List Val) (stream : Bytes)
    (hok : dynOk f (.list xs) = true) :
    Src.dump_field S (dumpVal S) f (.value (.list xs)) sel stream = appR stream (dumpSlot S f false sel (.list xs)) := by
  rw [dumpSlot]
  simp only [Src.dump_field, isNone, isMessage, isMsgVal, eqFieldDefault, isList, listItems, truthyGroup, metaGroup,
    metaOptional, metaProtoType, metaNumber, Bool.false_eq_true, if_false, res_bind_ok, Bool.or_false, if_true]
  by_cases hskip : (eqDefault S f.defKind (Val.list xs) && !(f.group.isSome || f.optional || sel)) = true
  · rw [if_pos hskip, if_pos hskip]; simp
  · rw [if_neg hskip, if_neg hskip]
    by_cases hp : isPacked f.ty = true
    · have hp' : packedTypes.contains f.ty = true := hp
      rw [if_pos hp, if_pos hp', dump_loop1 S _ f hp]
      cases prepPacked S f.ty xs with
      | error e => rfl
      | ok buf =>
        simp only [appR_ok, res_bind_ok, bind_ok, List.nil_append, serializeSingle, serializeSingleR_packed]
        cases frame f.num PType.bytes buf false false <;> rfl
    · have hp' : ¬ packedTypes.contains f.ty = true := hp
      rw [if_neg hp, if_neg hp', dump_loop2 S f xs stream hok]
      cases dumpItems S f xs <;> rfl

theorem dump_field_dict (S : Schema) (f : FieldD) (sel : Bool) (ks vs : List Val) (stream : Bytes)
    (hok : dynOk f (.dict ks vs) = true) :
    Src.dump_field S (dumpVal S) f (.value (.dict ks vs)) sel stream
      = appR stream (dumpSlot S f false sel (.dict ks vs)) := by
  rw [dumpSlot]
  simp only [Src.dump_field, isNone, isMessage, isMsgVal, eqFieldDefault, isList, isDict, dictItems, truthyGroup,
    metaGroup, metaOptional, Bool.false_eq_true, if_false, res_bind_ok, Bool.or_false, if_true]
  by_cases hskip : (eqDefault S f.defKind (Val.dict ks vs) && !(f.group.isSome || f.optional || sel)) = true
  · rw [if_pos hskip, if_pos hskip]; simp
  · rw [if_neg hskip, if_neg hskip, dump_loop3 S f ks vs stream hok]
    cases dumpEntries S f ks vs <;> rfl

theorem dump_field_msg (S : Schema) (f : FieldD) (sel : Bool) (c : Nat) (sl : List Val) (ow : Bool) (unk : Bytes)
    (cur : List (Option Nat)) (stream : Bytes) (hok : dynOk f (.msg c sl ow unk cur) = true) :
    Src.dump_field S (dumpVal S) f (.value (.msg c sl ow unk cur)) sel stream
      = appR stream (dumpSlot S f false sel (.msg c sl ow unk cur)) := by
  rw [dumpSlot]
  have hp : (f.ty == PType.message && f.wraps.isNone) = true := hok
  simp only [Src.dump_field, isNone, isMessage, isMsgVal, serializedOnWire, eqFieldDefault, isList, isDict, isStr,
    truthyGroup, metaGroup, metaOptional, metaNumber, metaProtoType, metaWraps, wrapsOr_noWraps, Bool.false_eq_true,
    if_false, res_bind_ok, if_true, Bool.false_and, serializeSingle,
    serializeSingleR_msg S f.num f.ty c sl ow unk cur _ f.wraps hp, hp]
  by_cases hskip : (eqDefault S f.defKind (Val.msg c sl ow unk cur) && !(f.group.isSome || f.optional || ow || sel)) = true
  · rw [if_pos hskip, if_pos hskip]; simp
  · rw [if_neg hskip, if_neg hskip]
    cases dumpSlots S (fieldsOf S c) cur 0 sl with
    | error e => rfl
    | ok body =>
      simp only [bind_ok]
      cases frame f.num f.ty (body ++ unk) (ow || (f.group.isSome || f.optional)) false <;> rfl

theorem ite_bool (b : Bool) : (if b = true then true else false) = b := by cases b <;> rfl

/-- `stream.write(<intrinsic>)` as the last statement -/
theorem write_tail (stream : Bytes) (r : R Bytes) :
    ((ofR r).bind fun t => Res.ok (stream ++ t)) = appR stream r := by cases r <;> rfl

theorem plain_facts (v : Val) (hp : isPlainVal v = true) :
    isNone v = false ∧ isMsgVal v = false ∧ isList v = false ∧ isDict v = false := by
  cases v <;> simp_all [isPlainVal, isNone, isMsgVal, isList, isDict]

theorem emptyStr_eq (v : Val) (sel : Bool) :
    (isStr v && eqEmptyStr v && sel) = (match v with | .str [] => sel | _ => false) := by
  cases v with
  | str s => cases s <;> simp [isStr, eqEmptyStr]
  | _ => simp [isStr]

/-- the common part of the scalar cases: after unfolding both sides on a scalar constructor -/
theorem plain_tail (S : Schema) (f : FieldD) (v : Val) (stream : Bytes) (se : Bool) (skip : Bool) :
    (if skip = true then Res.ok stream
      else (ofR (serializeScalar S f.num f.ty v se f.wraps)).bind fun t => Res.ok (stream ++ t))
    = appR stream (if skip = true then Except.ok [] else serializeScalar S f.num f.ty v se f.wraps) := by
  cases skip
  · simp only [Bool.false_eq_true, if_false]; exact write_tail _ _
  · simp

macro "plain_case" : tactic => `(tactic| (
  simp only [Src.dump_field, isNone, isMessage, isMsgVal, isList, isDict, isStr, eqEmptyStr, eqFieldDefault, truthyGroup,
    metaGroup, metaOptional, metaNumber, metaProtoType, metaWraps, wrapsOr_noWraps, Bool.false_eq_true, if_false,
    res_bind_ok, Bool.or_false, Bool.false_and, Bool.true_and, Bool.false_or, List.isEmpty_nil, List.isEmpty_cons,
    ite_bool, serializeSingle, serializeSingleR_nonmsg]
  exact plain_tail _ _ _ _ _ _))

theorem dump_field_plain (S : Schema) (f : FieldD) (sel : Bool) (v : Val) (stream : Bytes) (hp : isPlainVal v = true) :
    Src.dump_field S (dumpVal S) f (.value v) sel stream = appR stream (dumpSlot S f false sel v) := by
  cases v with
  | ph => simp [isPlainVal] at hp
  | none => simp [isPlainVal] at hp
  | list xs => simp [isPlainVal] at hp
  | dict ks vs => simp [isPlainVal] at hp
  | msg c sl ow unk cur => simp [isPlainVal] at hp
  | str s =>
    cases s with
    | nil =>
      rw [dumpSlot]
      plain_case
    | cons a as =>
      rw [dumpSlot]
      · plain_case
      all_goals (intros; first | contradiction | (rename_i h; injection h with h; cases h))
  | _ =>
    rw [dumpSlot]
    · plain_case
    all_goals (intros; contradiction)

/-- one iteration on an attribute VALUE (anything `getattr` can return: never PLACEHOLDER) -/
theorem dump_field_value (S : Schema) (f : FieldD) (sel : Bool) (v : Val) (stream : Bytes)
    (hph : v ≠ .ph) (hok : dynOk f v = true) :
    Src.dump_field S (dumpVal S) f (.value v) sel stream = appR stream (dumpSlot S f false sel v) := by
  cases v with
  | ph => exact absurd rfl hph
  | none => rw [dumpSlot]; simp [Src.dump_field, isNone]
  | list xs => exact dump_field_list S f sel xs stream hok
  | dict ks vs => exact dump_field_dict S f sel ks vs stream hok
  | msg c sl ow unk cur => exact dump_field_msg S f sel c sl ow unk cur stream hok
  | _ => exact dump_field_plain S f sel _ stream rfl

/-- the lazily materialised default of a field always satisfies the guard -/
theorem dynOk_default (S : Schema) (f : FieldD) : dynOk f (defaultOf S f) = true := by
  unfold defaultOf
  cases hk : f.defKind with
  | msg c =>
    simp only [defaultOfKind, fresh, dynOk, msgPlace]
    unfold FieldD.defKind at hk
    split at hk
    · cases hk
    · split at hk
      · cases hk
      · split at hk
        · cases hk
        · rename_i h3
          split at hk
          · rename_i h4
            have : f.wraps.isSome = false := by
              cases hw : f.wraps.isSome <;> simp_all
            cases hw : f.wraps <;> simp_all
          · cases ht : f.ty <;> simp_all [scalarDef]
  | _ => simp [defaultOfKind, dynOk]

theorem default_ne_ph (S : Schema) (f : FieldD) : defaultOf S f ≠ .ph := by
  unfold defaultOf
  cases f.defKind <;> simp [defaultOfKind, fresh]

/-- **`Src.dump_field` is `dumpSlot`**: one iteration of the field loop of `Message.dump` as
    written, run on the outcome of `getattr` for the raw slot `v`, appends to the stream exactly
    the bytes of the model's `dumpSlot S f hid sel v` and raises exactly when it raises -/
theorem dump_field_eq (S : Schema) (hS : WfSchemaOpt S) (f : FieldD) (hid sel : Bool) (v : Val) (stream : Bytes)
    (hok : dynOk f v = true) :
    Src.dump_field S (dumpVal S) f (getattrField S f hid v) sel stream = appR stream (dumpSlot S f hid sel v) := by
  cases hid with
  | true => rw [dumpSlot_hid]; simp [getattrField, Src.dump_field]
  | false =>
    by_cases hph : v = .ph
    · subst hph
      have hg : getattrField S f false .ph = .value (defaultOf S f) := rfl
      rw [hg, dump_field_value S f sel _ stream (default_ne_ph S f) (dynOk_default S f), dumpSlot_default S hS f sel]
      rw [dumpSlot]; simp
    · have hg : getattrField S f false v = .value v := by cases v <;> first | rfl | exact absurd rfl hph
      rw [hg]
      exact dump_field_value S f sel v stream hph hok

/-! ### the three inner loops of `Message.__len__` -/

/-- the length of what the model produces -/
def lenOf (r : R Bytes) : R Nat := Except.map List.length r
@[simp] theorem lenOf_ok (b : Bytes) : lenOf (.ok b) = .ok b.length := rfl
@[simp] theorem lenOf_error (e : PyErr) : lenOf (.error e) = .error e := rfl

theorem len_loop1 (S : Schema) (enc : Val → R Bytes) (f : FieldD) (hp : isPacked f.ty = true) :
    ∀ (xs : List Val) (buf : Bytes), Src.len_field.loop1 S enc f xs buf = appR buf (prepPacked S f.ty xs)
  | [], buf => by rw [Src.len_field.loop1, prepPacked]; simp
  | x :: xs, buf => by
    rw [Src.len_field.loop1, prepPacked, preprocess_packed S enc f hp]
    cases prepScalar S f.ty Option.none x with
    | error e => rfl
    | ok a =>
      simp only [ofR_ok, res_bind_ok, bind_ok]
      rw [len_loop1 S enc f hp xs (buf ++ a)]
      cases prepPacked S f.ty xs <;> simp

theorem len_loop2 (S : Schema) (f : FieldD) :
    ∀ (xs : List Val) (size : Int), (xs.all fun x => !isMsgVal x || msgPlace f) = true →
      Src.len_field.loop2 S (dumpVal S) f xs size = addR size (lenOf (dumpItems S f xs))
  | [], size, _ => by rw [Src.len_field.loop2, dumpItems_nil]; simp
  | x :: xs, size, h => by
    simp only [List.all_cons, Bool.and_eq_true] at h
    rw [Src.len_field.loop2, dumpItems_cons S f x xs h.1]
    simp only [wrapsOr_noWraps, lenSingle, metaNumber, metaProtoType, metaWraps, intOr, lenSingleR_eq]
    cases serializeSingleR S (dumpVal S) f.num f.ty x true f.wraps with
    | error e => rfl
    | ok a =>
      simp only [map_ok, ofR_ok, res_bind_ok, bind_ok]
      rw [len_loop2 S f xs _ h.2]
      cases dumpItems S f xs with
      | error e => rfl
      | ok b =>
        simp only [lenOf_ok, addR_ok, bind_ok, List.length_append]
        cases a with
        | nil => simp; omega
        | cons a0 as =>
          have : ((((a0 :: as).length : Nat) : Int) = 0) = False := by simp; omega
          simp only [this, if_false, List.isEmpty_cons, Bool.false_eq_true]
          congr 1; push_cast; omega

theorem len_loop3 (S : Schema) (f : FieldD) :
    ∀ (ks vs : List Val) (size : Int), dynOk f (.dict ks vs) = true →
      Src.len_field.loop3 S (dumpVal S) f (ks.zip vs) size = addR size (lenOf (dumpEntries S f ks vs))
  | [], vs, size, _ => by rw [List.zip_nil_left, Src.len_field.loop3, dumpEntries_nil_left]; simp
  | k :: ks, [], size, _ => by rw [List.zip_nil_right, Src.len_field.loop3, dumpEntries_nil_right]; simp
  | k :: ks, v :: vs, size, h => by
    simp only [dynOk, List.zip_cons_cons, List.all_cons, Bool.and_eq_true] at h
    obtain ⟨⟨⟨hm, hk⟩, hv⟩, hrest⟩ := h
    have hm' : f.ty = PType.map := by simpa using hm
    rw [List.zip_cons_cons, Src.len_field.loop3, dumpEntries_cons S f k v ks vs hk hv]
    simp only [mapTypesSet, hm, if_true, serializeSingle, lenSingle, metaMapKey, metaMapValue, metaNumber, metaProtoType,
      lenSingleR_eq]
    cases serializeSingleR S (dumpVal S) 1 f.mapK k false Option.none with
    | error e => rfl
    | ok sk =>
      simp only [ofR_ok, res_bind_ok, bind_ok]
      cases serializeSingleR S (dumpVal S) 2 f.mapV v false Option.none with
      | error e => rfl
      | ok sv =>
        simp only [ofR_ok, res_bind_ok, bind_ok]
        rw [hm']
        have he := serializeSingleR_entry S (dumpVal S) f.num (sk ++ sv)
        rw [he]
        cases frame f.num PType.map (sk ++ sv) true false with
        | error e => rfl
        | ok e =>
          simp only [map_ok, ofR_ok, res_bind_ok, bind_ok]
          have hd : dynOk f (.dict ks vs) = true := by simpa [dynOk] using hrest
          rw [len_loop3 S f ks vs _ hd]
          cases dumpEntries S f ks vs with
          | error e => rfl
          | ok r => simp only [lenOf_ok, addR_ok, bind_ok, List.length_append]; congr 1; push_cast; omega

/-! ### one iteration of the field loop of `Message.__len__` -/

/-- `size += <intrinsic>` as the last statement -/
theorem add_tail (size : Int) (r : R Bytes) :
    ((ofR (Except.map (fun (n : Nat) => (n : Int)) (Except.map List.length r))).bind fun t => Res.ok (size + t))
      = addR size (lenOf r) := by cases r <;> rfl

theorem len_field_list (S : Schema) (f : FieldD) (sel : Bool) (xs : List Val) (size : Int)
    (hok : dynOk f (.list xs) = true) :
    Src.len_field S (dumpVal S) f (.value (.list xs)) sel size = addR size (lenOf (dumpSlot S f false sel (.list xs))) := by
  rw [dumpSlot]
  simp only [Src.len_field, isNone, isMessage, isMsgVal, eqFieldDefault, isList, listItems, truthyGroup, metaGroup,
    metaOptional, metaProtoType, metaNumber, Bool.false_eq_true, if_false, res_bind_ok, Bool.or_false, if_true]
  by_cases hskip : (eqDefault S f.defKind (Val.list xs) && !(f.group.isSome || f.optional || sel)) = true
  · rw [if_pos hskip, if_pos hskip]; simp
  · rw [if_neg hskip, if_neg hskip]
    by_cases hp : isPacked f.ty = true
    · have hp' : packedTypes.contains f.ty = true := hp
      rw [if_pos hp, if_pos hp', len_loop1 S _ f hp]
      cases prepPacked S f.ty xs with
      | error e => rfl
      | ok buf =>
        simp only [appR_ok, res_bind_ok, bind_ok, List.nil_append, lenSingle, lenSingleR_eq, serializeSingleR_packed]
        exact add_tail _ _
    · have hp' : ¬ packedTypes.contains f.ty = true := hp
      rw [if_neg hp, if_neg hp', len_loop2 S f xs size hok]
      cases dumpItems S f xs <;> rfl

theorem len_field_dict (S : Schema) (f : FieldD) (sel : Bool) (ks vs : List Val) (size : Int)
    (hok : dynOk f (.dict ks vs) = true) :
    Src.len_field S (dumpVal S) f (.value (.dict ks vs)) sel size
      = addR size (lenOf (dumpSlot S f false sel (.dict ks vs))) := by
  rw [dumpSlot]
  simp only [Src.len_field, isNone, isMessage, isMsgVal, eqFieldDefault, isList, isDict, dictItems, truthyGroup,
    metaGroup, metaOptional, Bool.false_eq_true, if_false, res_bind_ok, Bool.or_false, if_true]
  by_cases hskip : (eqDefault S f.defKind (Val.dict ks vs) && !(f.group.isSome || f.optional || sel)) = true
  · rw [if_pos hskip, if_pos hskip]; simp
  · rw [if_neg hskip, if_neg hskip, len_loop3 S f ks vs size hok]
    cases dumpEntries S f ks vs <;> rfl

theorem len_field_msg (S : Schema) (f : FieldD) (sel : Bool) (c : Nat) (sl : List Val) (ow : Bool) (unk : Bytes)
    (cur : List (Option Nat)) (size : Int) (hok : dynOk f (.msg c sl ow unk cur) = true) :
    Src.len_field S (dumpVal S) f (.value (.msg c sl ow unk cur)) sel size
      = addR size (lenOf (dumpSlot S f false sel (.msg c sl ow unk cur))) := by
  rw [dumpSlot]
  have hp : (f.ty == PType.message && f.wraps.isNone) = true := hok
  simp only [Src.len_field, isNone, isMessage, isMsgVal, serializedOnWire, eqFieldDefault, isList, isDict, isStr,
    truthyGroup, metaGroup, metaOptional, metaNumber, metaProtoType, metaWraps, wrapsOr_noWraps, Bool.false_eq_true,
    if_false, res_bind_ok, if_true, Bool.false_and, lenSingle, lenSingleR_eq,
    serializeSingleR_msg S f.num f.ty c sl ow unk cur _ f.wraps hp, hp]
  by_cases hskip : (eqDefault S f.defKind (Val.msg c sl ow unk cur) && !(f.group.isSome || f.optional || ow || sel)) = true
  · rw [if_pos hskip, if_pos hskip]; simp
  · rw [if_neg hskip, if_neg hskip]
    exact add_tail _ _

theorem len_plain_tail (S : Schema) (f : FieldD) (v : Val) (size : Int) (se : Bool) (skip : Bool) :
    (if skip = true then Res.ok size
      else (ofR (Except.map (fun (n : Nat) => (n : Int)) (Except.map List.length (serializeScalar S f.num f.ty v se f.wraps)))).bind
        fun t => Res.ok (size + t))
    = addR size (lenOf (if skip = true then Except.ok [] else serializeScalar S f.num f.ty v se f.wraps)) := by
  cases skip
  · simp only [Bool.false_eq_true, if_false]; exact add_tail _ _
  · simp

macro "len_plain_case" : tactic => `(tactic| (
  simp only [Src.len_field, isNone, isMessage, isMsgVal, isList, isDict, isStr, eqEmptyStr, eqFieldDefault, truthyGroup,
    metaGroup, metaOptional, metaNumber, metaProtoType, metaWraps, wrapsOr_noWraps, Bool.false_eq_true, if_false,
    res_bind_ok, Bool.or_false, Bool.false_and, Bool.true_and, Bool.false_or, List.isEmpty_nil, List.isEmpty_cons,
    ite_bool, lenSingle, lenSingleR_eq, serializeSingleR_nonmsg]
  exact len_plain_tail _ _ _ _ _ _))

theorem len_field_plain (S : Schema) (f : FieldD) (sel : Bool) (v : Val) (size : Int) (hp : isPlainVal v = true) :
    Src.len_field S (dumpVal S) f (.value v) sel size = addR size (lenOf (dumpSlot S f false sel v)) := by
  cases v with
  | ph => simp [isPlainVal] at hp
  | none => simp [isPlainVal] at hp
  | list xs => simp [isPlainVal] at hp
  | dict ks vs => simp [isPlainVal] at hp
  | msg c sl ow unk cur => simp [isPlainVal] at hp
  | str s =>
    cases s with
    | nil =>
      rw [dumpSlot]
      len_plain_case
    | cons a as =>
      rw [dumpSlot]
      · len_plain_case
      all_goals (intros; first | contradiction | (rename_i h; injection h with h; cases h))
  | _ =>
    rw [dumpSlot]
    · len_plain_case
    all_goals (intros; contradiction)

theorem len_field_value (S : Schema) (f : FieldD) (sel : Bool) (v : Val) (size : Int)
    (hph : v ≠ .ph) (hok : dynOk f v = true) :
    Src.len_field S (dumpVal S) f (.value v) sel size = addR size (lenOf (dumpSlot S f false sel v)) := by
  cases v with
  | ph => exact absurd rfl hph
  | none => rw [dumpSlot]; simp [Src.len_field, isNone]
  | list xs => exact len_field_list S f sel xs size hok
  | dict ks vs => exact len_field_dict S f sel ks vs size hok
  | msg c sl ow unk cur => exact len_field_msg S f sel c sl ow unk cur size hok
  | _ => exact len_field_plain S f sel _ size rfl

/-- one iteration of `__len__` as written adds the length of what the model's `dumpSlot` writes … -/
theorem len_field_dump (S : Schema) (hS : WfSchemaOpt S) (f : FieldD) (hid sel : Bool) (v : Val) (size : Int)
    (hok : dynOk f v = true) :
    Src.len_field S (dumpVal S) f (getattrField S f hid v) sel size = addR size (lenOf (dumpSlot S f hid sel v)) := by
  cases hid with
  | true => rw [dumpSlot_hid]; simp [getattrField, Src.len_field]
  | false =>
    by_cases hph : v = .ph
    · subst hph
      have hg : getattrField S f false .ph = .value (defaultOf S f) := rfl
      rw [hg, len_field_value S f sel _ size (default_ne_ph S f) (dynOk_default S f), dumpSlot_default S hS f sel]
      rw [dumpSlot]; simp
    · have hg : getattrField S f false v = .value v := by cases v <;> first | rfl | exact absurd rfl hph
      rw [hg]
      exact len_field_value S f sel v size hph hok

/-- **`Src.len_field` is `lenSlot`**: … which is the model's `lenSlot S f hid sel v` -/
theorem len_field_eq (S : Schema) (hS : WfSchemaOpt S) (f : FieldD) (hid sel : Bool) (v : Val) (size : Int)
    (hok : dynOk f v = true) :
    Src.len_field S (dumpVal S) f (getattrField S f hid v) sel size = addR size (lenSlot S f hid sel v) := by
  rw [len_field_dump S hS f hid sel v size hok, lenSlot_eq]; rfl

/-- **the two copies agree, stated of the two translated functions**: whenever the iteration of
    `Message.dump` as written succeeds, the iteration of `Message.__len__` as written adds exactly
    the number of bytes it appended; when it raises, `__len__` raises the same exception -/
theorem len_field_agrees (S : Schema) (hS : WfSchemaOpt S) (f : FieldD) (hid sel : Bool) (v : Val)
    (stream : Bytes) (size : Int) (hok : dynOk f v = true) :
    Src.len_field S (dumpVal S) f (getattrField S f hid v) sel size =
      (Src.dump_field S (dumpVal S) f (getattrField S f hid v) sel stream).bind fun out =>
        .ok (size + ((out.length - stream.length : Nat) : Int)) := by
  rw [len_field_dump S hS f hid sel v size hok, dump_field_eq S hS f hid sel v stream hok]
  cases dumpSlot S f hid sel v with
  | error e => rfl
  | ok b =>
    simp only [lenOf_ok, addR_ok, appR_ok, res_bind_ok, List.length_append]
    congr 2; omega

/-! ### the guard holds of every typed slot of a well-formed schema -/

theorem items_guard (s : Bool) (S : Schema) (f : FieldD) (p : Bool) (hp : ∀ c, msgFieldB f c = true → p = true) :
    ∀ xs : List Val, itemsTypedB s S f xs = true → (xs.all fun x => !isMsgVal x || p) = true
  | [], _ => rfl
  | x :: xs, h => by
    rw [items_cons] at h
    simp only [Bool.and_eq_true] at h
    simp only [List.all_cons, Bool.and_eq_true]
    refine ⟨?_, items_guard s S f p hp xs h.2⟩
    cases x with
    | msg c sl ow unk cur =>
      have h1 := h.1
      simp only [itemsTypedB, Bool.and_eq_true] at h1
      simp [isMsgVal, hp c h1.1.1]
    | _ => simp [isMsgVal]

/-- `slotTypedB` (the typing judgement of C17, either strictness) and `wfFieldB` (the schema
    well-formedness of C17) imply the guard of the tie -/
theorem dynOk_of_typed (s : Bool) (S : Schema) (n : Nat) (f : FieldD) (v : Val)
    (hw : wfFieldB n f = true) (ht : slotTypedB s S f v = true) : dynOk f v = true := by
  cases v with
  | msg c sl ow unk cur =>
    rw [slotTypedB] at ht
    simp only [Bool.and_eq_true, msgFieldB] at ht
    simp only [dynOk, msgPlace, Bool.and_eq_true]
    exact ⟨ht.1.2.1.1, ht.1.2.2⟩
  | list xs =>
    rw [slotTypedB] at ht
    simp only [Bool.and_eq_true] at ht
    simp only [dynOk]
    refine items_guard s S f _ ?_ xs ht.2
    intro c hc
    simp only [msgFieldB, Bool.and_eq_true] at hc
    simp [msgPlace, hc.1.1, hc.2]
  | dict ks vs =>
    rw [slotTypedB] at ht
    simp only [Bool.and_eq_true] at ht
    obtain ⟨⟨⟨⟨hm, _⟩, _⟩, _⟩, hvs⟩ := ht
    have hm' : f.ty = PType.map := by simpa using hm
    have hk : (f.mapK != PType.message) = true := by
      have := wfField_map hw hm'
      revert this; cases f.mapK <;> simp [isScalarTy]
    have hv := items_guard s S (valFieldOf f) (f.mapV == PType.message) (by
      intro c hc
      simp only [msgFieldB, valFieldOf, Bool.and_eq_true] at hc
      exact hc.1.1) vs hvs
    simp only [dynOk, List.all_eq_true]
    intro kv hkv
    have hmem : kv.2 ∈ vs := (List.of_mem_zip hkv).2
    have := List.all_eq_true.mp hv kv.2 hmem
    simp [hm, hk, this]
  | _ => rfl

/-! ### variants without the schema guard, for a slot that is set -/

theorem getattr_set (S : Schema) (f : FieldD) (v : Val) (hph : v ≠ .ph) : getattrField S f false v = .value v := by
  cases v <;> first | rfl | exact absurd rfl hph

theorem dump_field_eq_set (S : Schema) (f : FieldD) (sel : Bool) (v : Val) (stream : Bytes)
    (hph : v ≠ .ph) (hok : dynOk f v = true) :
    Src.dump_field S (dumpVal S) f (getattrField S f false v) sel stream = appR stream (dumpSlot S f false sel v) := by
  rw [getattr_set S f v hph]; exact dump_field_value S f sel v stream hph hok

theorem plain_ne_ph (v : Val) (hp : isPlainVal v = true) : v ≠ .ph := by
  intro h; subst h; simp [isPlainVal] at hp

theorem dynOk_plain (f : FieldD) (v : Val) (hp : isPlainVal v = true) : dynOk f v = true := by
  cases v <;> first | rfl | simp [isPlainVal] at hp

/-! ### the guard is not vacuous: outside it the model and the source as written part ways
    (the REAL code does what the translated source says: AssertionError) -/

def fInt : FieldD := { name := "a", num := 1, ty := .int32 }
example : dynOk fInt (.dict [.int 1] [.int 2]) = false := by decide
example : Src.dump_field [] (dumpVal []) fInt (.value (.dict [.int 1] [.int 2])) false [] = .raise .assertion := by
  decide
example : dumpSlot [] fInt false false (.dict [.int 1] [.int 2]) = .ok [8, 8, 1, 16, 2] := by decide

end Bp.SrcTieDump
