import BpProofs.Gen.SrcEnum
import BpProofs.EnumM
/-
  THE TIE BETWEEN THE TRANSLATED SOURCE OF enum.py AND THE HAND-WRITTEN MODEL (C20).

  `Bp.Src.EnumType.*` / `Bp.Src.Enum.*` (BpProofs/Gen/SrcEnum.lean) are regenerated from the Python AST
  of src/betterproto/enum.py on every run.  The theorems below say that each of them computes exactly
  what the model function of BpModel/EnumM.lean computes — `declare` for one turn of the member loop,
  `build` / `mk` for the loop / `EnumType.__new__`, `call`, `getitem`, `fromString`, `tryValue`, `iter`,
  `reversed`, `len`, `contains`, and the result of `step` for every operation of a lock-step run — for
  ALL declaration lists, class states and arguments.  What is trusted is the meaning of the Python
  operations fixed in BpProofs/PyPreludeEnum.lean.
-/
set_option linter.unusedSimpArgs false
set_option linter.unusedSectionVars false
namespace Bp.SrcTieEnum
open Bp Bp.Py Bp.EnumM Bp.PyEnum

variable {ν : Type} [DecidableEq ν]

/-! ### dict stores: what replace does, and when a store is an append -/

/-- the dict law: after `d[k] = b`, `k` maps to `b` and every other key to what it mapped to -/
theorem assoc_dictSet {κ β : Type} [DecidableEq κ] (l : List (κ × β)) (k k' : κ) (b : β) :
    assoc k' (dictSet l k b) = if k' = k then some b else assoc k' l := by
  induction l with
  | nil => simp [dictSet, assoc]
  | cons hd tl ih =>
    obtain ⟨k1, b1⟩ := hd
    by_cases hk : k = k1
    · subst hk
      by_cases h2 : k' = k <;> simp [dictSet, assoc, h2]
    · by_cases h2 : k' = k1
      · subst h2
        have : ¬ k' = k := fun e => hk e.symm
        simp [dictSet, assoc, hk, this]
      · simp [dictSet, assoc, hk, h2, ih]

/-- a store never changes the keys that were there, nor their order (a replace changes a value only) -/
theorem dictSet_keys_present {κ β : Type} [DecidableEq κ] (l : List (κ × β)) (k : κ) (b b0 : β)
    (h : assoc k l = some b0) : (dictSet l k b).map (·.1) = l.map (·.1) := by
  induction l with
  | nil => simp [assoc] at h
  | cons hd tl ih =>
    obtain ⟨k1, b1⟩ := hd
    by_cases hk : k = k1
    · simp [dictSet, hk]
    · simp only [assoc, hk, if_false] at h
      simp [dictSet, hk, ih h]

/-- a store under an absent key appends -/
theorem dictSet_absent {κ β : Type} [DecidableEq κ] (l : List (κ × β)) (k : κ) (b : β)
    (h : assoc k l = none) : dictSet l k b = l ++ [(k, b)] := by
  induction l with
  | nil => rfl
  | cons hd tl ih =>
    obtain ⟨k1, b1⟩ := hd
    by_cases hk : k = k1
    · simp [assoc, hk] at h
    · simp only [assoc, hk, if_false] at h
      simp [dictSet, hk, ih h]

/-! ### the member loop of `EnumType.__new__` -/

/-- the class object of a model state in which the member attributes are bound as the loop binds them -/
def obj (c : Cls ν) : ClsObj ν := { st := c, vars := c.memberMap }

theorem newClass_eq : (PyEnum.newClass : ClsObj ν) = obj {} := rfl

/-- one turn of the loop, for EVERY class state (replace included): `_value_map_`, the allocation
    count and the member `m` that is bound are the model's; the store into `_value_map_` is never a
    replace; `member_map[name] = m` and the attribute binding are the dict store `dictSet` where the
    model appends -/
theorem new_step_general (cls : ClsObj ν) (n : ν) (v : Int) :
    ∃ cls' m, Src.EnumType.new_step cls n v = .ok cls'
      ∧ cls'.st.valueMap = (declare cls.st n v).valueMap ∧ cls'.st.next = (declare cls.st n v).next
      ∧ assoc v cls'.st.valueMap = some m
      ∧ (declare cls.st n v).memberMap = cls.st.memberMap ++ [(n, m)]
      ∧ cls'.st.memberMap = dictSet cls.st.memberMap n m ∧ cls'.vars = dictSet cls.vars n m := by
  unfold Src.EnumType.new_step
  simp only [dictGet, valueMap]
  cases hv : assoc v cls.st.valueMap with
  | some m =>
    refine ⟨_, m, rfl, ?_, ?_, ?_, ?_, rfl, rfl⟩ <;>
      simp [declare, hv, setMemberMap, setClassVar, memberMap]
  | none =>
    refine ⟨_, { name := some n, number := v, oid := cls.st.next }, rfl, ?_, ?_, ?_, ?_, rfl, rfl⟩ <;>
      simp [declare, hv, setMemberMap, setClassVar, setValueMap, memberMap, valueMap, newMember,
        dictSet_absent _ _ _ hv, assoc_append_single_none _ _ _ _ hv]

/-- **one turn of the loop as written is `declare`**, whenever the name is not yet a key of
    `_member_map_` (always the case in the loop: `members` is a dict) -/
theorem new_step_eq (c : Cls ν) (n : ν) (v : Int) (h : assoc n c.memberMap = none) :
    Src.EnumType.new_step (obj c) n v = .ok (obj (declare c n v)) := by
  unfold Src.EnumType.new_step
  simp only [dictGet, valueMap, obj]
  cases hv : assoc v c.valueMap with
  | some m =>
    simp [declare, hv, setMemberMap, setClassVar, memberMap, dictSet_absent _ _ _ h]
  | none =>
    simp [declare, hv, setMemberMap, setClassVar, setValueMap, memberMap, valueMap, newMember,
      dictSet_absent _ _ _ hv, dictSet_absent _ _ _ h]

theorem ne_of_assoc_none {β : Type} (n : ν) (l : List (ν × β)) (h : assoc n l = none) :
    ∀ p ∈ l, p.1 ≠ n := by
  intro p hp e
  have := assoc_isSome_of_mem p.1 p.2 l hp
  rw [e, h] at this
  simp at this

/-- **the loop as written is `build`**: for every declaration list with distinct names none of which
    is a key of `_member_map_` yet -/
theorem new_loop_eq (d : Decl ν) (c : Cls ν) (hnd : NamesNodup d = true)
    (hfresh : ∀ p ∈ d, assoc p.1 c.memberMap = none) :
    Src.EnumType.new_loop (obj c) d = .ok (obj (build c d)) := by
  induction d generalizing c with
  | nil => rfl
  | cons hd tl ih =>
    obtain ⟨n, v⟩ := hd
    simp only [NamesNodup, Bool.and_eq_true, Option.isNone_iff_eq_none] at hnd
    simp only [Src.EnumType.new_loop, build]
    rw [new_step_eq c n v (hfresh (n, v) (by simp))]
    simp only [Res.bind]
    apply ih _ hnd.2
    intro p hp
    obtain ⟨m, _, hm⟩ := declare_memberMap c n v
    rw [hm, assoc_append_single_none _ _ _ _ (hfresh p (by simp [hp]))]
    simp [ne_of_assoc_none n tl hnd.1 p hp]

/-- **`EnumType.__new__` as written is `mk`** -/
theorem new_eq (d : Decl ν) (hnd : NamesNodup d = true) : Src.EnumType.new d = .ok (obj (mk d)) := by
  unfold Src.EnumType.new
  simp only [newClass_eq]
  rw [new_loop_eq d {} hnd (fun _ _ => rfl)]
  rfl

/-! ### lookups -/

theorem call_eq (cls : ClsObj ν) (v : Int) : Src.EnumType.call cls v = ofR (call cls.st v) := by
  unfold Src.EnumType.call call
  simp only [dictItem, valueMap]
  cases assoc v cls.st.valueMap <;> simp [Res.bind, catches, ofR]

theorem getitem_eq (cls : ClsObj ν) (n : ν) : Src.EnumType.getitem cls n = ofR (getitem cls.st n) := by
  unfold Src.EnumType.getitem getitem
  simp only [dictItem, memberMap]
  cases assoc n cls.st.memberMap <;> simp [Res.bind, ofR]

theorem from_string_eq (cls : ClsObj ν) (n : ν) : Src.Enum.from_string cls n = ofR (fromString cls.st n) := by
  unfold Src.Enum.from_string fromString
  simp only [dictItem, memberMap]
  cases assoc n cls.st.memberMap <;> simp [Res.bind, catches, ofR]

theorem try_value_eq (cls : ClsObj ν) (v : Int) :
    Src.Enum.try_value cls v = .ok ((tryValue cls.st v).2, { cls with st := (tryValue cls.st v).1 }) := by
  unfold Src.Enum.try_value tryValue
  simp only [dictItem, valueMap]
  cases assoc v cls.st.valueMap <;> simp [Res.bind, catches, newMember]

/-- attribute access for a name the loop bound: the model's `getattr` -/
theorem classVar_eq (c : Cls ν) (n : ν) : classVar (obj c) n = ofR (getattr c n) := by
  unfold classVar getattr obj
  cases assoc n c.memberMap <;> simp [ofR]

theorem iter_eq (cls : ClsObj ν) : Src.EnumType.iter cls = .ok (iter cls.st) := rfl
theorem reversed_eq (cls : ClsObj ν) : Src.EnumType.reversed cls = .ok (reversed cls.st) := rfl
theorem len_eq (cls : ClsObj ν) : Src.EnumType.len cls = .ok ((len cls.st : Nat) : Int) := rfl

theorem contains_member_eq (cls : ClsObj ν) (m : Member ν) :
    Src.EnumType.contains cls (.member m) = .ok (contains cls.st m) := by
  unfold Src.EnumType.contains contains
  simp only [isInstance, objName, nameIn, memberMap, Res.bind, if_true]
  cases m.name <;> rfl

theorem contains_int_eq (cls : ClsObj ν) (i : Int) :
    Src.EnumType.contains cls (.int i) = .ok (containsInt cls.st i) := by
  simp [Src.EnumType.contains, containsInt, isInstance, Res.bind]

/-! ### a lock-step run carried out with the translated methods -/

/-- what the caller of a lookup sees: the member, or the exception class -/
def outRes (r : Res (Member ν)) : Res (Out ν) :=
  match r with
  | .ok m => .ok (.member m)
  | .raise e => .ok (.err e)
  | .diverge => .diverge

/-- what the caller of a method that cannot return sees -/
def outNever (r : Res Empty) : Res (Out ν) :=
  match r with
  | .ok e => nomatch e
  | .raise e => .ok (.err e)
  | .diverge => .diverge

/-- one operation of a lock-step run (the model's `Op`), carried out by calling the translated methods
    the way Python dispatches it: `cls(v)` → `EnumType.__call__`, `setattr(cls.try_value(v), a, x)` →
    `Enum.try_value` then `Enum.__setattr__`, `pickle` → `try_value`, `__getnewargs_ex__`,
    `cls.__new__(cls, **kwargs)` …  `attr` gives the attribute name of a member that `Attr` stands for.
    `none`: the operation is not carried out by code of enum.py (`cls.__members__[n] = v` is refused by
    `MappingProxyType`). -/
def srcStep (attr : Attr → ν) (cls : ClsObj ν) : Op ν → Option (Res (ClsObj ν × Out ν))
  | .call v => some ((outRes (Src.EnumType.call cls v)).bind fun o => .ok (cls, o))
  | .getitem n => some ((outRes (Src.EnumType.getitem cls n)).bind fun o => .ok (cls, o))
  | .getattr n => some ((outRes (classVar cls n)).bind fun o => .ok (cls, o))
  | .tryValue v => some ((Src.Enum.try_value cls v).bind fun (m, cls) => .ok (cls, .member m))
  | .fromString n => some ((outRes (Src.Enum.from_string cls n)).bind fun o => .ok (cls, o))
  | .iter => some ((Src.EnumType.iter cls).bind fun ms => .ok (cls, .members ms))
  | .reversed => some ((Src.EnumType.reversed cls).bind fun ms => .ok (cls, .members ms))
  | .len => some ((Src.EnumType.len cls).bind fun k => .ok (cls, .nat k.toNat))
  | .contains v => some ((Src.Enum.try_value cls v).bind fun (m, cls) =>
      (Src.EnumType.contains cls (.member m)).bind fun b => .ok (cls, .bool b))
  | .containsInt v => some ((Src.EnumType.contains cls (.int v)).bind fun b => .ok (cls, .bool b))
  | .setattrCls n _ => some ((outNever (Src.EnumType.setattr cls n .opaque)).bind fun o => .ok (cls, o))
  | .delattrCls n => some ((outNever (Src.EnumType.delattr cls n)).bind fun o => .ok (cls, o))
  | .membersSet _ _ => none
  | .setattrMem v a _ => some ((Src.Enum.try_value cls v).bind fun (m, cls) =>
      (outNever (Src.Enum.setattr m (attr a) .opaque)).bind fun o => .ok (cls, o))
  | .delattrMem v _ => some ((Src.Enum.try_value cls v).bind fun (m, cls) =>
      (outNever (Src.Enum.delattr m .opaque)).bind fun o => .ok (cls, o))
  | .copy v => some ((Src.Enum.try_value cls v).bind fun (m, cls) =>
      (Src.Enum.copy m).bind fun m' => .ok (cls, .copied m' m))
  | .deepcopy v => some ((Src.Enum.try_value cls v).bind fun (m, cls) =>
      (Src.Enum.deepcopy m .opaque).bind fun m' => .ok (cls, .copied m' m))
  | .pickle v => some ((Src.Enum.try_value cls v).bind fun (m, cls) =>
      (Src.Enum.getnewargs_ex m).bind fun a =>
      let (m', cls) := unpickle cls a
      .ok (cls, .copied m' m))

theorem outRes_ofR (r : R (Member ν)) : outRes (ofR r) = .ok (outR r) := by
  cases r <;> rfl

/-- **every operation carried out with the source as written gives the class state and the result of
    the model's `step`** -/
theorem srcStep_eq (attr : Attr → ν) (cls : ClsObj ν) (op : Op ν) (hv : cls.vars = cls.st.memberMap)
    (r : Res (ClsObj ν × Out ν)) (h : srcStep attr cls op = some r) :
    r = .ok ({ cls with st := (step cls.st op).1 }, (step cls.st op).2) := by
  have hobj : cls = obj cls.st := by cases cls; simp only [obj] at *; simp_all
  cases op <;> simp only [srcStep, Option.some.injEq, reduceCtorEq] at h <;> subst h
  case getattr n =>
    rw [hobj, classVar_eq, outRes_ofR]; rfl
  all_goals
    simp [call_eq, getitem_eq, from_string_eq, try_value_eq, iter_eq, reversed_eq, len_eq,
      contains_member_eq, contains_int_eq, outRes_ofR, Res.bind, step, outNever,
      Src.EnumType.setattr, Src.EnumType.delattr, Src.Enum.setattr, Src.Enum.delattr,
      Src.Enum.copy, Src.Enum.deepcopy, Src.Enum.getnewargs_ex, unpickle, newMember]

end Bp.SrcTieEnum
