import BpProofs.Gen.SrcFromDict
/-
  THE TIE BETWEEN THE TRANSLATED KEY LOOP BODY OF `Message._from_dict_init` (AND THE TWO
  FORMS OF `Message.from_dict`) AND THE HAND-WRITTEN MODEL (BpModel/Json.lean).

  `Bp.Src.from_dict_key` (BpProofs/Gen/SrcFromDict.lean) is regenerated from the Python AST of
  the body of `for key, value in mapping.items():` on every run.  The model's loop is
  `fromDictKV`, a right-nested recursion over the items; its PER-PAIR ACTION is `kvStep`
  below (`fromDictKV_eq_fold`: `fromDictKV` is the left-to-right fold of `kvStep` from `[]`).

  Two things differ between the model's step and the source as written, and both are made
  explicit here instead of being hidden in the prelude:

    * `init_kwargs[field_name] = value` REPLACES the value of a field that an earlier key
      already filled (`kvStepSet`), the model APPENDS a second entry (`kvStep`).  They
      coincide when the field of the key is not yet in `init_kwargs` (`kvStepSet_eq_kvStep`);
      for a whole mapping: when no two keys denote the same field (`keysDistinct`,
      decidable).  Outside that guard the MODEL is wrong, see `dup_key_model_witness`.
    * which exception is raised: for a DICT found where a Timestamp / Duration / bytes / enum leaf is expected
      the model's `decodeField` names TypeError, while the leaf codecs the source calls (and the model itself calls
      for list items) name ValueError / "not modelled" for the same dict (the real code: ValueError from `isoparse`,
      KeyError from `delta_from_json`, TypeError from `b64decode` / `_parse_enum`).  `forget` forgets WHICH exception
      was raised; the tie is exact about the value on success and about raising or not (`from_dict_key_eq`).  In
      every other case both sides name the same exception (the proof closes those leaves before `forget` is used).

  Guard of the step: `objWf value` (decidable) — a dict value has as many keys as values
  (representation invariant of `JVal.obj`, two parallel lists; every dict the harness or
  `to_dict` builds satisfies it).
-/
set_option linter.unusedSimpArgs false
set_option linter.unusedVariables false
namespace Bp.SrcTieFromDict
open Bp Bp.Py

/-! ### outcomes -/

/-- forget WHICH exception was raised -/
def forget {α : Type} : Res α → Res α
  | .raise _ => .raise .value
  | r => r

@[simp] theorem forget_ok {α} (a : α) : forget (Res.ok a) = .ok a := rfl
@[simp] theorem forget_raise {α} (e : PyErr) : forget (Res.raise e : Res α) = .raise .value := rfl
@[simp] theorem ofR_ok {α} (a : α) : ofR (Except.ok a : R α) = .ok a := rfl
@[simp] theorem ofR_error {α} (e : PyErr) : ofR (Except.error e : R α) = .raise e := rfl
@[simp] theorem res_bind_ok {α β} (a : α) (f : α → Res β) : (Res.ok a).bind f = f a := rfl
@[simp] theorem res_bind_raise {α β} (e : PyErr) (f : α → Res β) : (Res.raise e : Res α).bind f = .raise e := rfl
@[simp] theorem res_bind_eta {α} (r : Res α) : (r.bind fun a => .ok a) = r := by cases r <;> rfl

theorem ofR_bind {α β} (r : R α) (g : α → R β) : ofR (r.bind g) = (ofR r).bind fun a => ofR (g a) := by
  cases r <;> rfl

/-! ### the model's per-pair action -/

/-- insert-or-replace in the keyword list by field INDEX (what `dictSet` does by name) -/
def kwSet : List (Nat × Val) → Nat → Val → List (Nat × Val)
  | [], i, v => [(i, v)]
  | (j, w) :: rest, i, v => if j = i then (j, v) :: rest else (j, w) :: kwSet rest i v

/-- THE MODEL'S PER-PAIR ACTION: what `fromDictKV` does with one `key, value` of the mapping,
    given the keyword list `kw` of the pairs before it -/
def kvStep (S : Schema) (E : Enums) (c : Nat) (k : JKey) (j : JVal) (kw : List (Nat × Val)) : R (List (Nat × Val)) :=
  match fieldOfJKey (fieldsOf S c) k with
  | .error e => .error e
  | .ok Option.none => .ok kw
  | .ok (some (i, f)) =>
    match j with
    | .null => .ok kw
    | j => (decodeField S E f j).bind fun v => .ok (kw ++ [(i, v)])

/-- the same with Python's dict store: the entry of a field that is already there is replaced -/
def kvStepSet (S : Schema) (E : Enums) (c : Nat) (k : JKey) (j : JVal) (kw : List (Nat × Val)) : R (List (Nat × Val)) :=
  match fieldOfJKey (fieldsOf S c) k with
  | .error e => .error e
  | .ok Option.none => .ok kw
  | .ok (some (i, f)) =>
    match j with
    | .null => .ok kw
    | j => (decodeField S E f j).bind fun v => .ok (kwSet kw i v)

/-- left-to-right fold of a step over the items of a dict -/
def foldKV (step : JKey → JVal → List (Nat × Val) → R (List (Nat × Val))) :
    List JKey → List JVal → List (Nat × Val) → R (List (Nat × Val))
  | k :: ks, j :: js, kw => (step k j kw).bind fun kw' => foldKV step ks js kw'
  | _, _, kw => .ok kw

theorem foldKV_kvStep (S : Schema) (E : Enums) (c : Nat) (ks : List JKey) (js : List JVal) (kw : List (Nat × Val)) :
    foldKV (kvStep S E c) ks js kw = (fromDictKV S E c ks js).bind fun r => .ok (kw ++ r) := by
  induction ks generalizing js kw with
  | nil => cases js <;> simp [foldKV, fromDictKV, Except.bind]
  | cons k ks ih =>
    cases js with
    | nil => simp [foldKV, fromDictKV, Except.bind]
    | cons j js =>
      rw [foldKV, fromDictKV, kvStep]
      cases hk : fieldOfJKey (fieldsOf S c) k with
      | error e => simp [Except.bind]
      | ok o =>
        cases o with
        | none => simp [Except.bind, ih]
        | some p =>
          obtain ⟨i, f⟩ := p
          have key : ∀ (j' : JVal), ((decodeField S E f j').bind fun v => Except.ok (kw ++ [(i, v)])).bind
                (fun kw' => foldKV (kvStep S E c) ks js kw') =
              ((decodeField S E f j').bind fun v => (fromDictKV S E c ks js).bind fun kw' => Except.ok ((i, v) :: kw')).bind
                fun r => Except.ok (kw ++ r) := by
            intro j'
            cases decodeField S E f j' with
            | error e => rfl
            | ok v =>
              simp only [Except.bind, ih]
              cases fromDictKV S E c ks js <;> simp
          cases j <;> first | exact key _ | simp [Except.bind, ih]

/-- **`fromDictKV` is the left-to-right fold of its per-pair action `kvStep` from `{}`** -/
theorem fromDictKV_eq_fold (S : Schema) (E : Enums) (c : Nat) (ks : List JKey) (js : List JVal) :
    fromDictKV S E c ks js = foldKV (kvStep S E c) ks js [] := by
  rw [foldKV_kvStep]
  cases fromDictKV S E c ks js <;> simp [Except.bind]

/-! ### field names and field indexes -/

theorem findName_spec (fs : List FieldD) (n : List Char) (k i : Nat) (f : FieldD)
    (h : findName fs n k = some (i, f)) : k ≤ i ∧ fs[i - k]? = some f ∧ f.name.toList = n := by
  induction fs generalizing k with
  | nil => simp [findName] at h
  | cons g gs ih =>
    rw [findName] at h
    split at h
    · rename_i hn
      simp only [Option.some.injEq, Prod.mk.injEq] at h
      obtain ⟨rfl, rfl⟩ := h
      simp [hn]
    · obtain ⟨h1, h2, h3⟩ := ih (k + 1) h
      refine ⟨by omega, ?_, h3⟩
      have : i - k = (i - (k + 1)) + 1 := by omega
      rw [this]
      simpa using h2

/-- two names found at the same index are the same name -/
theorem findName_inj (fs : List FieldD) (n m : List Char) (i : Nat) (f g : FieldD)
    (h1 : findName fs n 0 = some (i, f)) (h2 : findName fs m 0 = some (i, g)) : n = m := by
  obtain ⟨_, a1, a2⟩ := findName_spec fs n 0 i f h1
  obtain ⟨_, b1, b2⟩ := findName_spec fs m 0 i g h2
  rw [a1] at b1
  cases b1
  rw [← a2, ← b2]

/-- the dict store by name is the store by index -/
theorem resolveKw_dictSet (fs : List FieldD) (kw : Kwargs) (n : List Char) (i : Nat) (f : FieldD) (v : Val)
    (h : findName fs n 0 = some (i, f)) :
    resolveKw fs (dictSet kw n v) = kwSet (resolveKw fs kw) i v := by
  induction kw with
  | nil => simp [dictSet, resolveKw, kwSet, h]
  | cons p rest ih =>
    obtain ⟨m, w⟩ := p
    rw [dictSet]
    split
    · rename_i hm
      subst hm
      simp [resolveKw, h, kwSet]
    · rename_i hm
      simp only [resolveKw]
      cases hf : findName fs m 0 with
      | none => simpa using ih
      | some q =>
        obtain ⟨i', f'⟩ := q
        have hne : i' ≠ i := by
          intro he
          subst he
          exact hm (findName_inj fs m n i' f' f hf h)
        simp [kwSet, hne, ih]

theorem kwSet_fresh (kw : List (Nat × Val)) (i : Nat) (v : Val) (h : ∀ p ∈ kw, p.1 ≠ i) :
    kwSet kw i v = kw ++ [(i, v)] := by
  induction kw with
  | nil => rfl
  | cons p rest ih =>
    obtain ⟨j, w⟩ := p
    have hj : j ≠ i := h (j, w) (by simp)
    simp only [kwSet, hj, if_false, List.cons_append]
    rw [ih (fun p hp => h p (by simp [hp]))]

/-! ### comprehensions and the recursive readers -/

theorem mapMRes_ofR {α β} (g : α → R β) (xs : List α) : mapMRes (fun x => ofR (g x)) xs = ofR (mapMR g xs) := by
  induction xs with
  | nil => rfl
  | cons x xs ih =>
    simp only [mapMRes, mapMR, ih]
    cases g x with
    | error e => rfl
    | ok y => cases mapMR g xs <;> rfl

theorem listComp_arr (g : JVal → R Val) (xs : List JVal) :
    listComp (fun item => ofR (g item)) (.arr xs) = ofR ((mapMR g xs).bind fun vs => .ok (.list vs)) := by
  simp only [listComp, mapMRes_ofR]
  cases mapMR g xs <;> rfl

theorem dictComp_obj (g : JVal → R Val) (ks : List JKey) (vs : List JVal) :
    dictCompValues (fun v => ofR (g v)) (.obj ks vs) = ofR ((mapMR g vs).bind fun vals => .ok (.dict (ks.map keyV) vals)) := by
  simp only [dictCompValues, mapMRes_ofR]
  cases mapMR g vs <;> rfl

theorem fromDictC_obj (S : Schema) (E : Enums) (c : Nat) (ks : List JKey) (vs : List JVal) :
    fromDictC S E c (.obj ks vs) = (fromDictKV S E c ks vs).bind fun kw => .ok (fromDictCls S c kw) := rfl

theorem fromDictItems_eq (S : Schema) (E : Enums) (c : Nat) (xs : List JVal) :
    fromDictItems S E c xs = mapMR (fromDictC S E c) xs := by
  induction xs with
  | nil => simp [fromDictItems, mapMR]
  | cons x xs ih => cases x <;> simp [fromDictItems, mapMR, ih, fromDictC, fromDictInit, Except.bind]

theorem fromDictMapVals_eq (S : Schema) (E : Enums) (c : Nat) (xs : List JVal) :
    fromDictMapVals S E c xs = mapMR (fromDictC S E c) xs := by
  induction xs with
  | nil => simp [fromDictMapVals, mapMR]
  | cons x xs ih => cases x <;> simp [fromDictMapVals, mapMR, ih, fromDictC, fromDictInit, Except.bind]

/-- index-keyed view of the outcome of the translated step -/
def finish (fs : List FieldD) (r : Res Kwargs) : Res (List (Nat × Val)) := r.bind fun kw => .ok (resolveKw fs kw)

/-- closing a leaf: the source binds a conversion that is a model function and stores by name,
    the model binds the same function and stores by index -/
theorem close_leaf (fs : List FieldD) (init : Kwargs) (n : List Char) (i : Nat) (f : FieldD)
    (h : findName fs n 0 = some (i, f)) (r : R Val) :
    finish fs ((ofR r).bind fun t => .ok (dictSet init n t)) = ofR (r.bind fun v => .ok (kwSet (resolveKw fs init) i v)) := by
  cases r with
  | error e => rfl
  | ok v => simp [finish, resolveKw_dictSet fs init n i f v h, Except.bind]

theorem decScalarItem_int64 (E : Enums) (f : FieldD) (h : Gen.int64Types.contains f.ty = true) :
    decScalarItem E f = Bp.intOf := by
  funext j; simp only [decScalarItem, isInt64, h, if_true]

theorem decScalarItem_bytes (E : Enums) (f : FieldD) (h : Gen.int64Types.contains f.ty = false)
    (hb : (f.ty == PType.bytes) = true) : decScalarItem E f = Bp.b64dec := by
  funext j; simp only [decScalarItem, isInt64, h, hb, if_true, if_false, Bool.false_eq_true]

theorem decScalarItem_enum (E : Enums) (f : FieldD) (h : Gen.int64Types.contains f.ty = false)
    (hb : (f.ty == PType.bytes) = false) (he : (f.ty == PType.enum) = true) :
    decScalarItem E f = Bp.parseEnum (enumOf E f) := by
  funext j; simp only [decScalarItem, isInt64, h, hb, he, if_true, if_false, Bool.false_eq_true]

theorem decScalarItem_float (E : Enums) (f : FieldD) (h : Gen.int64Types.contains f.ty = false)
    (hb : (f.ty == PType.bytes) = false) (he : (f.ty == PType.enum) = false)
    (hf : (f.ty == PType.float || f.ty == PType.double) = true) :
    decScalarItem E f = Bp.parseFloat f.ty := by
  funext j; simp only [decScalarItem, isInt64, h, hb, he, hf, if_true, if_false, Bool.false_eq_true]

theorem decScalarItem_other (E : Enums) (f : FieldD) (h : Gen.int64Types.contains f.ty = false)
    (hb : (f.ty == PType.bytes) = false) (he : (f.ty == PType.enum) = false)
    (hf : (f.ty == PType.float || f.ty == PType.double) = false) :
    decScalarItem E f = unRaw := by
  funext j; simp only [decScalarItem, isInt64, h, hb, he, hf, if_true, if_false, Bool.false_eq_true]

/-- a dict value has as many keys as values -/
def objWf : JVal → Bool
  | .obj ks vs => ks.length == vs.length
  | _ => true

/-- phase 1 of a leaf: decide the shape tests, turn every conversion into a model function, store by index;
    phase 2: what is left are two raising sides / the `None` skip -/
syntax "fd_leaf" "[" Lean.Parser.Tactic.simpLemma,* "]" : tactic
macro_rules
  | `(tactic| fd_leaf [$ls,*]) => `(tactic|
      (simp only [jIsNone, jIsList, if_true, if_false, Bool.false_eq_true, Py.isoparse, Py.deltaFromJson, Py.intOf,
         Py.b64decode, Py.parseEnum, Py.parseFloat, Py.asFieldValue, Py.clsFromDict, res_bind_eta, listComp_arr,
         dictComp_obj, decodeField, beq_self_eq_true, Option.isSome_none, Option.isSome_some, res_bind_ok,
         Bool.true_or, Bool.or_true, Bool.or_false, Bool.false_or, Bool.and_true, Bool.true_and, Bool.and_false,
         Bool.false_and, Bool.not_true, Bool.not_false,
         fromDictItems_eq, fromDictMapVals_eq, ofR_ok, forget_ok, $ls,*]
       try simp only [finish, dictCompValues, Bp.isoparse, Bp.durParse, Bp.intOf, Bp.b64dec, Bp.parseEnum, Bp.parseFloat,
         fromDictC, fromDictInit, Except.bind, ofR_ok, ofR_error, res_bind_ok, res_bind_raise, forget_ok, forget_raise]))

/-- a dict in a map field whose values are Timestamps / Durations: `datetime.from_dict` raises AttributeError on the
    first item; an empty dict is stored -/
theorem wkt_map_obj (fs : List FieldD) (init : Kwargs) (n : List Char) (i : Nat) (f : FieldD)
    (hfn : findName fs n 0 = some (i, f)) (ks : List JKey) (vs : List JVal) (hwf : objWf (.obj ks vs) = true) :
    forget ((((mapMRes (fun v => (Res.raise PyErr.attr : Res Val)) vs).bind fun vals =>
        Res.ok (Val.dict (List.map keyV ks) vals)).bind fun t4 => Res.ok (dictSet init n t4)).bind
          fun kw => Res.ok (resolveKw fs kw)) =
    forget (ofR (Except.bind (if vs.isEmpty = true then Except.ok (Val.dict [] []) else Except.error PyErr.attr)
      fun v => Except.ok (kwSet (resolveKw fs init) i v))) := by
  cases vs with
  | nil =>
    cases ks with
    | nil => simp [mapMRes, resolveKw_dictSet _ _ _ _ _ _ hfn, Except.bind]
    | cons k ks => simp [objWf] at hwf
  | cons v vs => simp [mapMRes, Except.bind]

/-- the step on a key that names the field `f` (index `i`) -/
theorem key_found (S : Schema) (E : Enums) (c : Nat) (bs : Bytes) (i : Nat) (f : FieldD) (value : JVal) (init : Kwargs)
    (hfn : findName (fieldsOf S c) (Casing.safeSnake (bs.map Char.ofNat)) 0 = some (i, f))
    (hwf : objWf value = true) :
    forget (finish (fieldsOf S c) (Src.from_dict_key S E c (fromDictC S E) (.str bs) value init))
      = forget (ofR (kvStepSet S E c (.str bs) value (resolveKw (fieldsOf S c) init))) := by
  unfold Src.from_dict_key
  simp only [safeSnakeCase, res_bind_ok, metaByFieldName, hfn, Option.map_some, fdClsByField, clsByFieldMapValue, clsOfField,
    kvStepSet, fieldOfJKey, Casing.fieldOfKey, metaProtoType, metaWraps, mapTypesSet, metaMapValue]
  cases hm : (f.ty == PType.message) with
  | true =>
    simp only [if_true, if_false, Bool.false_eq_true, res_bind_ok]
    cases hw : f.wraps with
    | some w =>
      simp only [Option.isSome_some, if_true, fdClsIsDatetime, fdClsIsTimedelta, Bool.not_true, Bool.false_eq_true, if_false]
      cases value <;> fd_leaf [hm, hw, close_leaf _ _ _ _ _ hfn]
    | none =>
      simp only [Option.isSome_none, Bool.false_eq_true, if_false]
      cases hk : f.kind with
      | timestamp =>
        simp only [fdClsIsDatetime, if_true]
        cases value <;> fd_leaf [hm, hw, hk, close_leaf _ _ _ _ _ hfn]
      | duration =>
        simp only [fdClsIsDatetime, fdClsIsTimedelta, if_true, if_false, Bool.false_eq_true]
        cases value <;> fd_leaf [hm, hw, hk, close_leaf _ _ _ _ _ hfn]
      | user c' =>
        simp only [fdClsIsDatetime, fdClsIsTimedelta, if_true, if_false, Bool.false_eq_true, Bool.not_false]
        cases value <;> fd_leaf [hm, hw, hk, close_leaf _ _ _ _ _ hfn]
  | false =>
    simp only [if_false, Bool.false_eq_true]
    cases hmap : (f.ty == PType.map && f.mapV == PType.message) with
    | true =>
      have hmap' := hmap
      simp only [Bool.and_eq_true] at hmap'
      simp only [if_true, hmap'.1, hmap'.2, res_bind_ok]
      cases hmk : f.mapVKind with
      | user c' =>
        simp only []
        cases value <;> fd_leaf [hm, hmap, hmk, close_leaf _ _ _ _ _ hfn]
      | timestamp =>
        simp only []
        cases value <;> fd_leaf [hm, hmap, hmk, close_leaf _ _ _ _ _ hfn]
        exact wkt_map_obj _ _ _ _ _ hfn _ _ hwf
      | duration =>
        simp only []
        cases value <;> fd_leaf [hm, hmap, hmk, close_leaf _ _ _ _ _ hfn]
        exact wkt_map_obj _ _ _ _ _ hfn _ _ hwf
    | false =>
      simp only [if_false, Bool.false_eq_true]
      cases h64 : Gen.int64Types.contains f.ty with
      | true =>
        simp only [if_true]
        cases value <;> fd_leaf [hm, hmap, isInt64, h64, decScalarItem_int64 E f h64, close_leaf _ _ _ _ _ hfn]
      | false =>
        simp only [if_false, Bool.false_eq_true]
        cases hb : (f.ty == PType.bytes) with
        | true =>
          simp only [if_true]
          cases value <;> fd_leaf [hm, hmap, isInt64, h64, hb, decScalarItem_bytes E f h64 hb, close_leaf _ _ _ _ _ hfn]
        | false =>
          simp only [if_false, Bool.false_eq_true]
          cases he : (f.ty == PType.enum) with
          | true =>
            simp only [if_true, res_bind_ok]
            cases value <;> fd_leaf [hm, hmap, isInt64, h64, hb, he, decScalarItem_enum E f h64 hb he, close_leaf _ _ _ _ _ hfn]
          | false =>
            simp only [if_false, Bool.false_eq_true]
            cases hf : (f.ty == PType.float || f.ty == PType.double) with
            | true =>
              simp only [if_true]
              have hf' : (false || false || false || f.ty == PType.float || f.ty == PType.double) = true := by
                simpa [Bool.or_assoc] using hf
              cases value <;> fd_leaf [hm, hmap, isInt64, h64, hb, he, hf, hf', decScalarItem_float E f h64 hb he hf, close_leaf _ _ _ _ _ hfn]
            | false =>
              simp only [if_false, Bool.false_eq_true]
              have hf' : (false || false || false || f.ty == PType.float || f.ty == PType.double) = false := by
                simpa [Bool.or_assoc] using hf
              cases value <;> fd_leaf [hm, hmap, isInt64, h64, hb, he, hf, hf', decScalarItem_other E f h64 hb he hf, close_leaf _ _ _ _ _ hfn]


/-! ### the tie of the step -/

/-- **the per-key step of `_from_dict_init` as written is the model's per-pair action with Python's dict store**:
    for every schema, class, key, JSON value and `init_kwargs` so far, one iteration of the key loop as written
    leaves (seen by field index) exactly the keyword list `kvStepSet` gives — an unknown key and a `None` value change
    nothing, every other value goes through the model's `decodeField` of the field `safe_snake_case(key)` names and is
    stored under that field — and raises exactly when the model raises.  `dec` is instantiated with the model's
    class-form reader `fromDictC`. -/
theorem from_dict_key_eq (S : Schema) (E : Enums) (c : Nat) (key : JKey) (value : JVal) (init : Kwargs)
    (hwf : objWf value = true) :
    forget (finish (fieldsOf S c) (Src.from_dict_key S E c (fromDictC S E) key value init))
      = forget (ofR (kvStepSet S E c key value (resolveKw (fieldsOf S c) init))) := by
  cases key with
  | str bs =>
    cases hfn : findName (fieldsOf S c) (Casing.safeSnake (bs.map Char.ofNat)) 0 with
    | some p => obtain ⟨i, f⟩ := p; exact key_found S E c bs i f value init hfn hwf
    | none =>
      simp [Src.from_dict_key, safeSnakeCase, metaByFieldName, hfn, kvStepSet, fieldOfJKey, Casing.fieldOfKey, finish]
  | int v => simp [Src.from_dict_key, safeSnakeCase, kvStepSet, fieldOfJKey, finish]
  | bool b => simp [Src.from_dict_key, safeSnakeCase, kvStepSet, fieldOfJKey, finish]

theorem forget_eq_ok {α} (r : Res α) (a : α) (h : forget r = .ok a) : r = .ok a := by
  cases r <;> simp_all [forget]

theorem forget_ofR_ok {α} (r : R α) (a : α) (h : forget (ofR r) = .ok a) : r = .ok a := by
  cases r <;> simp_all [forget, ofR]

/-- an unknown key (no field is called `safe_snake_case(key)`) leaves `init_kwargs` as it is -/
theorem from_dict_key_unknown (S : Schema) (E : Enums) (c : Nat) (dec : Nat → JVal → R Val) (bs : Bytes) (value : JVal)
    (init : Kwargs) (h : findName (fieldsOf S c) (Casing.safeSnake (bs.map Char.ofNat)) 0 = Option.none) :
    Src.from_dict_key S E c dec (.str bs) value init = .ok init := by
  simp [Src.from_dict_key, safeSnakeCase, metaByFieldName, h]

/-- a `None` value leaves `init_kwargs` as it is (whatever the key, as long as it is a str) -/
theorem from_dict_key_none (S : Schema) (E : Enums) (c : Nat) (dec : Nat → JVal → R Val) (bs : Bytes) (init : Kwargs) :
    Src.from_dict_key S E c dec (.str bs) .null init = .ok init := by
  simp only [Src.from_dict_key, safeSnakeCase, res_bind_ok, jIsNone, if_true]
  cases metaByFieldName S c (Casing.safeSnake (bs.map Char.ofNat)) <;> rfl

/-- the field index a pair of the mapping stores into (`none`: unknown key, `None` value, key that is not a str) -/
def hitOf (fs : List FieldD) (k : JKey) (j : JVal) : Option Nat :=
  match j with
  | .null => Option.none
  | _ => match fieldOfJKey fs k with
    | .ok (some (i, _)) => some i
    | _ => Option.none

/-- when the field of the key is not yet in the keyword list, Python's dict store is the model's append -/
theorem kvStepSet_eq_kvStep (S : Schema) (E : Enums) (c : Nat) (k : JKey) (j : JVal) (kw : List (Nat × Val))
    (h : ∀ i, hitOf (fieldsOf S c) k j = some i → ∀ p ∈ kw, p.1 ≠ i) :
    kvStepSet S E c k j kw = kvStep S E c k j kw := by
  unfold kvStepSet kvStep
  cases hk : fieldOfJKey (fieldsOf S c) k with
  | error e => rfl
  | ok o =>
    cases o with
    | none => rfl
    | some p =>
      obtain ⟨i, f⟩ := p
      cases j <;> first
        | rfl
        | (have hfr := h i (by simp [hitOf, hk])
           simp only []
           congr 1; funext v; rw [kwSet_fresh _ _ _ hfr])

/-- what a successful model step leaves: the list as it was, or one more entry for the field the pair stores into -/
theorem kvStep_ok (S : Schema) (E : Enums) (c : Nat) (k : JKey) (j : JVal) (kw kw' : List (Nat × Val))
    (h : kvStep S E c k j kw = .ok kw') :
    kw' = kw ∨ ∃ i v, hitOf (fieldsOf S c) k j = some i ∧ kw' = kw ++ [(i, v)] := by
  unfold kvStep at h
  cases hk : fieldOfJKey (fieldsOf S c) k with
  | error e => rw [hk] at h; simp at h
  | ok o =>
    rw [hk] at h
    cases o with
    | none => simp at h; exact Or.inl h.symm
    | some p =>
      obtain ⟨i, f⟩ := p
      cases j <;> first
        | (simp at h; exact Or.inl h.symm)
        | (simp only [] at h
           cases hd : decodeField S E f _ with
           | error e => rw [hd] at h; simp [Except.bind] at h
           | ok v =>
             rw [hd] at h
             simp only [Except.bind, Except.ok.injEq] at h
             exact Or.inr ⟨i, v, by simp [hitOf, hk], h.symm⟩)

/-! ### the whole loop -/

/-- the key loop of `_from_dict_init` around the translated body: one step per item of the mapping, in order
    (hand-written: `for key, value in mapping.items():` over the two parallel lists of a `JVal.obj`) -/
def srcInitLoop (S : Schema) (E : Enums) (c : Nat) : List JKey → List JVal → Kwargs → Res Kwargs
  | k :: ks, j :: js, kw => (Src.from_dict_key S E c (fromDictC S E) k j kw).bind fun kw' => srcInitLoop S E c ks js kw'
  | _, _, kw => .ok kw

/-- `cls._from_dict_init(mapping)` as written: `init_kwargs = {}`, the loop, `return init_kwargs`
    (`mapping.items()` on something that is not a dict: AttributeError) -/
def srcFromDictInit (S : Schema) (E : Enums) (c : Nat) : JVal → Res Kwargs
  | .obj ks vs => srcInitLoop S E c ks vs []
  | _ => .raise .attr

/-- the field indexes the pairs of a mapping store into, in order -/
def hits (fs : List FieldD) : List JKey → List JVal → List Nat
  | k :: ks, j :: js => (match hitOf fs k j with | some i => [i] | Option.none => []) ++ hits fs ks js
  | _, _ => []

/-- GUARD of the whole-loop tie (decidable): no two keys of the mapping (with a value that is not None) denote the
    same field.  Two keys that do — `{"fooBar": 1, "foo_bar": 2}` — are where Python's dict store and the model's
    keyword list differ (`dup_key_model_witness`). -/
def keysDistinct (fs : List FieldD) (ks : List JKey) (js : List JVal) : Bool := decide (hits fs ks js).Nodup

theorem loop_eq (S : Schema) (E : Enums) (c : Nat) (ks : List JKey) (js : List JVal) (kw : Kwargs)
    (hwf : js.all objWf = true) (hd : (hits (fieldsOf S c) ks js).Nodup)
    (hfresh : ∀ p ∈ resolveKw (fieldsOf S c) kw, p.1 ∉ hits (fieldsOf S c) ks js) :
    forget (finish (fieldsOf S c) (srcInitLoop S E c ks js kw))
      = forget (ofR (foldKV (kvStep S E c) ks js (resolveKw (fieldsOf S c) kw))) := by
  induction ks generalizing js kw with
  | nil => cases js <;> simp [srcInitLoop, foldKV, finish]
  | cons k ks ih =>
    cases js with
    | nil => simp [srcInitLoop, foldKV, finish]
    | cons j js =>
      simp only [List.all_cons, Bool.and_eq_true] at hwf
      have hstep := from_dict_key_eq S E c k j kw hwf.1
      have hfr : ∀ i, hitOf (fieldsOf S c) k j = some i → ∀ p ∈ resolveKw (fieldsOf S c) kw, p.1 ≠ i := by
        intro i hi p hp he
        apply hfresh p hp
        simp [hits, hi, he]
      rw [kvStepSet_eq_kvStep S E c k j _ hfr] at hstep
      rw [srcInitLoop, foldKV]
      cases hrs : Src.from_dict_key S E c (fromDictC S E) k j kw with
      | ok kw' =>
        rw [hrs] at hstep
        have hm := forget_ofR_ok _ _ hstep.symm
        rw [hm]
        simp only [res_bind_ok, Except.bind]
        have hd' : (hits (fieldsOf S c) ks js).Nodup := by
          simp only [hits] at hd
          exact (List.nodup_append.mp hd).2.1
        apply ih js kw' hwf.2 hd'
        intro p hp
        rcases kvStep_ok S E c k j _ _ hm with h0 | ⟨i, v, hi, h1⟩
        · rw [h0] at hp
          intro hin
          exact hfresh p hp (by simp [hits, hin])
        · rw [h1] at hp
          rcases List.mem_append.mp hp with hp | hp
          · intro hin
            exact hfresh p hp (by simp [hits, hin])
          · simp only [List.mem_singleton] at hp
            subst hp
            simp only [hits, hi] at hd
            intro hin
            exact (List.nodup_append.mp hd).2.2 i (by simp) i hin rfl
      | raise e =>
        rw [hrs] at hstep
        cases hm : kvStep S E c k j (resolveKw (fieldsOf S c) kw) with
        | ok x => rw [hm] at hstep; simp [finish] at hstep
        | error e' => simp [finish, Except.bind]
      | diverge =>
        rw [hrs] at hstep
        cases hm : kvStep S E c k j (resolveKw (fieldsOf S c) kw) <;>
          (rw [hm] at hstep; simp [finish, Res.bind, forget, ofR] at hstep)

/-- GUARD of the whole-mapping ties, on a mapping read by a class with fields `fs` (decidable): every dict value has
    as many keys as values (`objWf`) and no two keys denote the same field (`keysDistinct`) -/
def dictOk (fs : List FieldD) : JVal → Bool
  | .obj ks vs => vs.all objWf && keysDistinct fs ks vs
  | _ => true

/-- **`cls._from_dict_init(mapping)` as written is the model's `fromDictInit`** (seen by field index; raising exactly
    when it raises) for every mapping whose dict values are well-formed and in which no two keys denote the same field -/
theorem from_dict_init_eq (S : Schema) (E : Enums) (c : Nat) (j : JVal) (h : dictOk (fieldsOf S c) j = true) :
    forget (finish (fieldsOf S c) (srcFromDictInit S E c j)) = forget (ofR (fromDictInit S E c j)) := by
  cases j <;> try (simp [srcFromDictInit, fromDictInit, finish])
  rename_i ks vs
  simp only [srcFromDictInit, fromDictInit, fromDictKV_eq_fold]
  simp only [dictOk, Bool.and_eq_true, keysDistinct, decide_eq_true_eq] at h
  exact loop_eq S E c ks vs [] h.1 h.2 (by simp [resolveKw])

/-! ### the two forms of `from_dict` -/

theorem setOnWire_construct (S : Schema) (c : Nat) (kw : Kwargs) :
    setSerializedOnWire (Py.construct S c kw) = fromDictCls S c (resolveKw (fieldsOf S c) kw) := by
  unfold Py.construct fromDictCls
  cases Bp.construct S c (resolveKw (fieldsOf S c) kw) <;> rfl

/-- **the class form `Cls.from_dict(value)` as written**: whenever the source's `_from_dict_init` agrees with a
    model keyword list `r` (seen by field index), the body of the class form — `cls(**init)`, then
    `_serialized_on_wire = True` — returns the model's `fromDictCls` of it -/
theorem from_dict_cls_eq (S : Schema) (c : Nat) (rs : Res Kwargs) (r : R (List (Nat × Val)))
    (h : forget (finish (fieldsOf S c) rs) = forget (ofR r)) :
    forget (Src.from_dict_cls S c rs) = forget (ofR (r.bind fun kw => .ok (fromDictCls S c kw))) := by
  unfold Src.from_dict_cls
  cases rs with
  | ok kw =>
    have := forget_ofR_ok r _ h.symm
    subst this
    simp [setOnWire_construct, Except.bind]
  | raise e =>
    cases r with
    | ok kw => simp [finish] at h
    | error e' => simp [Except.bind]
  | diverge =>
    cases r <;> simp [finish, Res.bind, forget, ofR] at h

theorem stateOf_toVal (c : Nat) (st : MState) : stateOf (st.toVal c) = some (c, st) := rfl

theorem foldl_setattr (S : Schema) (c : Nat) (kw : Kwargs) (st : MState) :
    kw.foldl (fun self (item : List Char × Val) => setattrField S self item.1 item.2) (st.toVal c)
      = (applyKw S (fieldsOf S c) st (resolveKw (fieldsOf S c) kw)).toVal c := by
  induction kw generalizing st with
  | nil => rfl
  | cons p rest ih =>
    obtain ⟨n, v⟩ := p
    simp only [List.foldl_cons, setattrField, stateOf_toVal, resolveKw]
    cases findName (fieldsOf S c) n 0 with
    | none => exact ih st
    | some q => obtain ⟨i, f⟩ := q; simp only [applyKw]; exact ih _

/-- **the instance form `m.from_dict(value)` as written** on a message instance of class `c`:
    `_serialized_on_wire = True`, then one `setattr` per item of the source's `_from_dict_init`, is the model's
    `applyKw` on the state marked on-wire (what `fromDictI` does with the model's keyword list) -/
theorem from_dict_inst_eq (S : Schema) (c : Nat) (sl : List Val) (ow : Bool) (unk : Bytes) (cur : List (Option Nat))
    (rs : Res Kwargs) (r : R (List (Nat × Val)))
    (h : forget (finish (fieldsOf S c) rs) = forget (ofR r)) :
    forget (Src.from_dict_inst S rs (.msg c sl ow unk cur))
      = forget (ofR (r.bind fun kw =>
          .ok ((applyKw S (fieldsOf S c) { slots := sl, onWire := true, unknown := unk, cur := cur } kw).toVal c))) := by
  unfold Src.from_dict_inst
  cases rs with
  | ok kw =>
    have := forget_ofR_ok r _ h.symm
    subst this
    have := foldl_setattr S c kw { slots := sl, onWire := true, unknown := unk, cur := cur }
    simp only [MState.toVal] at this
    simp [setSerializedOnWire, this, Except.bind, MState.toVal]
  | raise e =>
    cases r with
    | ok kw => simp [finish] at h
    | error e' => simp [Except.bind]
  | diverge =>
    cases r <;> simp [finish, Res.bind, forget, ofR] at h

/-! ### consequences used by the property files -/

theorem map_ofNat_toNat (k : List Char) : (k.map Char.toNat).map Char.ofNat = k := by
  induction k with
  | nil => rfl
  | cons ch rest ih => simp only [List.map_cons, ih, Char.ofNat_toNat]

/-- a str key that `safe_snake_case` maps to the name of field `i`, with a value the model's `decodeField` of that
    field accepts: the step as written stores the decoded value under field `i` -/
theorem key_to_field (S : Schema) (E : Enums) (c : Nat) (k n : List Char) (i : Nat) (fd : FieldD)
    (hk : Casing.fieldOfKey k = n) (hfn : findName (fieldsOf S c) n 0 = some (i, fd))
    (j : JVal) (v : Val) (init : Kwargs) (hnn : j ≠ .null) (hdec : decodeField S E fd j = .ok v)
    (hwf : objWf j = true) :
    finish (fieldsOf S c) (Src.from_dict_key S E c (fromDictC S E) (.str (k.map Char.toNat)) j init)
      = .ok (kwSet (resolveKw (fieldsOf S c) init) i v) := by
  apply forget_eq_ok
  rw [from_dict_key_eq S E c _ j init hwf]
  simp only [kvStepSet, fieldOfJKey, map_ofNat_toNat, hk, hfn]
  cases j <;> first
    | exact absurd rfl hnn
    | simp [hdec, Except.bind]

/-- the same for a key given as the `JKey` the model's lookup resolves -/
theorem jkey_to_field (S : Schema) (E : Enums) (c : Nat) (key : JKey) (i : Nat) (fd : FieldD)
    (hk : fieldOfJKey (fieldsOf S c) key = .ok (some (i, fd)))
    (j : JVal) (v : Val) (init : Kwargs) (hnn : j ≠ .null) (hdec : decodeField S E fd j = .ok v)
    (hwf : objWf j = true) :
    finish (fieldsOf S c) (Src.from_dict_key S E c (fromDictC S E) key j init)
      = .ok (kwSet (resolveKw (fieldsOf S c) init) i v) := by
  apply forget_eq_ok
  rw [from_dict_key_eq S E c _ j init hwf]
  simp only [kvStepSet, hk]
  cases j <;> first
    | exact absurd rfl hnn
    | simp [hdec, Except.bind]

/-! ### where the model and the source as written DISAGREE (outside `keysDistinct`)

  `M.from_dict({"fooBar": 1, "foo_bar": 2})` for `message M { int32 foo_bar = 1; }`: both keys denote `foo_bar`.
  The source as written (and the real code: `M.from_dict({"fooBar": 1, "foo_bar": 2}).foo_bar == 2`) keeps ONE
  entry with the LAST value; the model's `fromDictKV` keeps both entries and its constructor (`lookupKw`) takes the
  FIRST.  The real code is right by definition; the model is wrong on such mappings (which `to_dict` never emits and
  the correspondence run does not generate). -/

def Sdup : Schema := [{ fields := [{ name := "foo_bar", num := 1, ty := .int32 }] }]
def jdup : JVal := .obj [.str ("fooBar".toList.map Char.toNat), .str ("foo_bar".toList.map Char.toNat)] [.num 1, .num 2]

theorem dup_key_model_witness :
    dictOk (fieldsOf Sdup 0) jdup = false ∧
    Src.from_dict_cls Sdup 0 (srcFromDictInit Sdup [] 0 jdup) = .ok (.msg 0 [.int 2] true [] []) ∧
    fromDictC Sdup [] 0 jdup = .ok (.msg 0 [.int 1] true [] []) :=
  ⟨by decide, by rfl, by rfl⟩

end Bp.SrcTieFromDict
