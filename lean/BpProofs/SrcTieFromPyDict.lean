import BpProofs.Gen.SrcPyDict
import BpProofs.SrcTiePyDict
import BpProofs.SrcTieFromDict
/-
  THE TIE BETWEEN THE TRANSLATED KEY-LOOP BODY OF `Message.from_pydict` AND THE MODEL.

  `Bp.Src.from_pydict_key` (BpProofs/Gen/SrcPyDict.lean) is regenerated from the Python AST of the body
  of `for key in value:` of `Message.from_pydict` on every run.  With `dec := decP S` (the model's
  `v.from_pydict(d)`), one iteration as written is the model's per-key step `keyStepP` — the
  `meta_by_field_name` lookup through `safe_snake_case`, the skip of `None`, and `fromPyField`
  (BpModel/PyDict.lean): the same state, or the same exception.
  Guards (decidable): the object under the key, if it is a dict, has as many keys as values (what a
  Python dict is); for a `map<K, Message>` field the attribute value is a dict.
-/
set_option linter.unusedSimpArgs false
set_option linter.unusedVariables false
namespace Bp.SrcTieFromPyDict
open Bp Bp.Py Gen Bp.SrcTieJson Bp.SrcTiePyDict

/-- the model's `v.from_pydict(d)` as the parameter `dec` of the translated step -/
def decP (S : Schema) : Nat → Val → PVal → R Val := fun _ v d => fromPyDictI S v d

/-- the model's per-key step of the loop of `from_pydict` (what `fromPyKeys` does with one pair) -/
def keyStepP (S : Schema) (c : Nat) (st : MState) (k : JKey) (p : PVal) : R MState :=
  match fieldOfJKey (fieldsOf S c) k with
  | .error e => .error e
  | .ok Option.none => .ok st
  | .ok (some (i, f)) => fromPyField S (fieldsOf S c) st i f p

theorem fromPyKeys_cons (S : Schema) (c : Nat) (st : MState) (k : JKey) (ks : List JKey) (p : PVal) (ps : List PVal) :
    fromPyKeys S c st (k :: ks) (p :: ps) = (keyStepP S c st k p).bind fun st' => fromPyKeys S c st' ks ps := by
  rw [fromPyKeys, keyStepP]
  cases fieldOfJKey (fieldsOf S c) k with
  | error e => rfl
  | ok o => cases o with
    | none => rfl
    | some q => rfl

/-- `cls().from_pydict(x)` for a message class -/
def itemP (S : Schema) (c : Nat) (x : PVal) : R Val := fromPyDictI S (fresh S c) x

theorem fromPyItems_cons (S : Schema) (c : Nat) (x : PVal) (xs : List PVal) :
    fromPyItems S c (x :: xs) = (itemP S c x).bind fun v => (fromPyItems S c xs).bind fun vs => .ok (v :: vs) := by
  cases x <;> rw [fromPyItems] <;> first | rfl | (intros; contradiction)

theorem appendLoop_eq (S : Schema) (c' : Nat) : ∀ (items : List PVal) (xs0 : List Val),
    appendLoop S (decP S) (.message c') items (.list xs0)
      = (ofR (fromPyItems S c' items)).bind fun ys => .ok (.list (xs0 ++ ys))
  | [], xs0 => by rw [fromPyItems]; simp [appendLoop]
  | x :: items, xs0 => by
    rw [appendLoop, fromPyItems_cons]
    simp only [newInstance, res_bind_ok, decP]
    show (ofR (itemP S c' x)).bind _ = _
    cases itemP S c' x with
    | error e => rfl
    | ok m =>
      simp only [ofR_ok, res_bind_ok, listAppend, appendLoop_eq S c' items (xs0 ++ [m])]
      cases fromPyItems S c' items with
      | error e => rfl
      | ok ys => simp [Except.bind, bind]

theorem appendLoop_nonmsg (S : Schema) (cls : Cls) (h : ∀ c', cls ≠ .message c') (v : Val) :
    ∀ items : List PVal, appendLoop S (decP S) cls items v = if items.isEmpty then .ok v else .raise .type
  | [] => by simp [appendLoop]
  | x :: items => by
    rw [appendLoop]
    cases cls with
    | message c' => exact absurd rfl (h c')
    | _ => rfl

theorem setLoop_eq (S : Schema) (c' : Nat) : ∀ (ks : List JKey) (ps : List PVal) (ks0 vs0 : List Val), ks.length = ps.length →
    setLoop S (decP S) (.message c') ks ps (.dict ks0 vs0)
      = (ofR (fromPyItems S c' ps)).bind fun ys =>
          .ok (.dict (dictInsertAll ks0 vs0 (ks.map keyV) ys).1 (dictInsertAll ks0 vs0 (ks.map keyV) ys).2)
  | [], [], ks0, vs0, _ => by rw [fromPyItems]; simp [setLoop, dictInsertAll]
  | [], _ :: _, _, _, h => by simp at h
  | _ :: _, [], _, _, h => by simp at h
  | k :: ks, x :: ps, ks0, vs0, h => by
    have h' : ks.length = ps.length := by simpa using h
    rw [setLoop, fromPyItems_cons]
    simp only [newInstance, res_bind_ok, decP]
    show (ofR (itemP S c' x)).bind _ = _
    cases itemP S c' x with
    | error e => rfl
    | ok m =>
      simp only [ofR_ok, res_bind_ok, dictSetItem, setLoop_eq S c' ks ps _ _ h']
      cases fromPyItems S c' ps with
      | error e => rfl
      | ok ys => simp [Except.bind, bind, dictInsertAll]

theorem setLoop_nonmsg (S : Schema) (cls : Cls) (h : ∀ c', cls ≠ .message c') (v : Val) :
    ∀ (ks : List JKey) (ps : List PVal), ks.length = ps.length →
      setLoop S (decP S) cls ks ps v = if ps.isEmpty then .ok v else .raise .type
  | [], [], _ => by simp [setLoop]
  | [], _ :: _, h => by simp at h
  | _ :: _, [], h => by simp at h
  | k :: ks, x :: ps, _ => by
    rw [setLoop]
    cases cls with
    | message c' => exact absurd rfl (h c')
    | _ => rfl

/-! ### the state: `getattr` leaves its result in the slot; `setattr` overwrites the slot -/

theorem getAttr_slot (S : Schema) (fs : List FieldD) (st st1 : MState) (i : Nat) (v : Val)
    (h : getAttr S fs st i = .ok (v, st1)) : { st1 with slots := setAt st1.slots i v } = st1 := by
  unfold getAttr at h
  cases hf : fs[i]? with
  | none => simp [hf] at h
  | some f =>
    simp only [hf] at h
    split at h
    · cases h
    · injection h with h
      injection h with h1 h2
      subst h2
      subst h1
      simp [setAt]

theorem resetGroup_set (g idx : Nat) (a v : Val) : ∀ (fs' : List FieldD) (ss : List Val) (j k : Nat), j + k = idx →
    (resetGroup g idx fs' (ss.set k a) j).set k v = (resetGroup g idx fs' ss j).set k v
  | [], ss, j, k, _ => by simp [resetGroup]
  | fj :: fs'', [], j, k, _ => by simp [resetGroup]
  | fj :: fs'', s :: ss', j, 0, h => by
    have hj : j = idx := by omega
    subst hj
    simp [resetGroup]
  | fj :: fs'', s :: ss', j, k' + 1, h => by
    simp only [List.set_cons_succ, resetGroup, List.cons.injEq, true_and]
    exact resetGroup_set g idx a v fs'' ss' (j + 1) k' (by omega)

/-- `setattr(self, name, v)` overwrites the slot: what the slot held before does not matter -/
theorem setAttr_slots_irrel (S : Schema) (fs : List FieldD) (st : MState) (i : Nat) (f : FieldD) (hf : fs[i]? = some f)
    (a v : Val) : setAttr S fs { st with slots := setAt st.slots i a } i v = setAttr S fs st i v := by
  unfold setAttr
  simp only [hf]
  cases hg : f.group with
  | none => simp [setAt]
  | some g =>
    simp only [setAt]
    rw [resetGroup_set g i a (markEmpty S v) fs st.slots 0 i (by omega)]

theorem setAttrNN_slots_irrel (S : Schema) (fs : List FieldD) (st : MState) (i : Nat) (f : FieldD) (hf : fs[i]? = some f)
    (a v : Val) (hv : v ≠ .none) : setAttrNN S fs { st with slots := setAt st.slots i a } i v = setAttr S fs st i v := by
  cases v <;> first | exact absurd rfl hv | exact setAttr_slots_irrel S fs st i f hf a _

/-! ### one iteration for a key that names a field -/

theorem unRaw_ne (p : PVal) (w : Val) (h : unRaw p = .ok w) (hp : p ≠ .null) (hr : p ≠ .raw .none) : w ≠ .none := by
  intro e; subst e
  cases p <;> simp [unRaw] at h hp hr
  all_goals first
    | (rename_i xs; cases hx : unRawList xs <;> simp [hx, Except.bind, bind] at h)
    | (rename_i ks xs; cases hx : unRawList xs <;> simp [hx, Except.bind, bind] at h)
    | (subst h; exact hr rfl)

/-- the store of a dict-side object as it is: `v = value[key]; if v is not None: setattr(self, name, v)` -/
theorem store_raw (S : Schema) (c : Nat) (st : MState) (name : List Char) (i : Nat) (f : FieldD)
    (hfn : findName (fieldsOf S c) name 0 = some (i, f)) (p : PVal) :
    ((asFieldValue p).bind fun v =>
      if (!(isNone v)) = true then Res.ok (pySetattr S c st name v) else Res.ok st)
      = ofR ((unRaw p).bind fun w => .ok (setAttrNN S (fieldsOf S c) st i w)) := by
  unfold asFieldValue
  cases unRaw p with
  | error e => rfl
  | ok w =>
    simp only [ofR_ok, res_bind_ok, pySetattr, hfn, Except.bind, bind]
    cases w <;> rfl

/-- after an in-place mutation of the object in the slot, `setattr(self, name, v)` of that object -/
theorem store_mutated (S : Schema) (c : Nat) (st1 : MState) (name : List Char) (i : Nat) (f : FieldD)
    (hfn : findName (fieldsOf S c) name 0 = some (i, f)) (hfi : (fieldsOf S c)[i]? = some f) (v : Val) (hv : isNone v = false) :
    (if (!(isNone v)) = true then Res.ok (pySetattr S c (slotStore S c st1 name v) name v)
      else Res.ok (slotStore S c st1 name v))
      = Res.ok (setAttr S (fieldsOf S c) st1 i v) := by
  simp only [hv, Bool.not_false, if_true, pySetattr, slotStore, hfn]
  rw [setAttr_slots_irrel S (fieldsOf S c) st1 i f hfi]

/-- the repeated-message branch: `cls = cls_by_field[name]; for item in value[key]: v.append(cls().from_pydict(item))` -/
theorem list_case (S : Schema) (c : Nat) (st1 : MState) (name : List Char) (i : Nat) (f : FieldD)
    (hfn : findName (fieldsOf S c) name 0 = some (i, f)) (hfi : (fieldsOf S c)[i]? = some f)
    (hm : (f.ty == PType.message) = true) (xs : List Val) (p : PVal) :
    ((pyClsByField S c name).bind fun cls =>
      (appendEach S (decP S) cls (.list xs) p).bind fun v =>
        if (!(isNone v)) = true then Res.ok (pySetattr S c (slotStore S c st1 name v) name v)
        else Res.ok (slotStore S c st1 name v))
    = ofR (match (generalizing := false) p with
        | .arr items =>
          if f.wraps.isSome then (if items.isEmpty then .ok (setAttr S (fieldsOf S c) st1 i (.list xs)) else .error .type)
          else (match f.kind with
            | .user c' => (fromPyItems S c' items).bind fun ys => .ok (setAttr S (fieldsOf S c) st1 i (.list (xs ++ ys)))
            | _ => if items.isEmpty then .ok (setAttr S (fieldsOf S c) st1 i (.list xs)) else .error .type)
        | .obj _ _ => .error .notImpl
        | p => .error (iterErr p)) := by
  simp only [pyClsByField, fdClsByField, hfn, res_bind_ok, clsOfField, hm, if_true]
  cases p with
  | arr items =>
    simp only [appendEach]
    by_cases hw : f.wraps.isSome = true
    · simp only [hw, if_true]
      rw [appendLoop_nonmsg S .other (by intro c' h; cases h)]
      cases items with
      | nil => simp only [List.isEmpty_nil, if_true, res_bind_ok]; rw [store_mutated S c st1 name i f hfn hfi _ rfl]; rfl
      | cons x items => rfl
    · simp only [hw, Bool.false_eq_true, if_false]
      cases hk : f.kind with
      | user c' =>
        simp only [appendLoop_eq]
        cases fromPyItems S c' items with
        | error e => rfl
        | ok ys =>
          simp only [ofR_ok, res_bind_ok, Except.bind, bind]
          rw [store_mutated S c st1 name i f hfn hfi _ rfl]
      | timestamp =>
        simp only []
        rw [appendLoop_nonmsg S .datetime (by intro c' h; cases h)]
        cases items with
        | nil => simp only [List.isEmpty_nil, if_true, res_bind_ok]; rw [store_mutated S c st1 name i f hfn hfi _ rfl]; rfl
        | cons x items => rfl
      | duration =>
        simp only []
        rw [appendLoop_nonmsg S .timedelta (by intro c' h; cases h)]
        cases items with
        | nil => simp only [List.isEmpty_nil, if_true, res_bind_ok]; rw [store_mutated S c st1 name i f hfn hfi _ rfl]; rfl
        | cons x items => rfl
  | obj ks ps => rfl
  | _ => rfl

/-- the sub-message branch: `v.from_pydict(value[key])` on what `getattr` returned -/
theorem call_case (S : Schema) (c : Nat) (st1 : MState) (name : List Char) (i : Nat) (f : FieldD)
    (hfn : findName (fieldsOf S c) name 0 = some (i, f)) (hfi : (fieldsOf S c)[i]? = some f) (v : Val) (p : PVal) :
    ((callFromPyDict (decP S) v p).bind fun v =>
        if (!(isNone v)) = true then Res.ok (pySetattr S c (slotStore S c st1 name v) name v)
        else Res.ok (slotStore S c st1 name v))
    = ofR (match (generalizing := false) v, p with
        | .msg c' sl _ unk cur, .obj ks ps =>
          (fromPyKeys S c' { slots := sl, onWire := true, unknown := unk, cur := cur } ks ps).bind fun st' =>
            .ok (setAttr S (fieldsOf S c) st1 i (st'.toVal c'))
        | v, _ => .error (notMsgErr v)) := by
  cases v with
  | msg c' sl ow unk cur =>
    cases p with
    | obj ks ps =>
      simp only [callFromPyDict, decP, fromPyDictI]
      cases fromPyKeys S c' { slots := sl, onWire := true, unknown := unk, cur := cur } ks ps with
      | error e => rfl
      | ok st' =>
        simp only [Except.bind, bind, ofR_ok, res_bind_ok]
        rw [store_mutated S c st1 name i f hfn hfi _ rfl]
    | _ => rfl
  | _ => rfl

/-- the `map<K, Message>` branch: `cls = cls_by_field[f"{name}.value"]; for k in value[key]: v[k] = cls().from_pydict(value[key][k])` -/
theorem map_case (S : Schema) (c : Nat) (st1 : MState) (name : List Char) (i : Nat) (f : FieldD)
    (hfn : findName (fieldsOf S c) name 0 = some (i, f)) (hfi : (fieldsOf S c)[i]? = some f)
    (hmap : (f.ty == PType.map) = true) (hmv : (f.mapV == PType.message) = true) (v : Val) (p : PVal)
    (hslot : { st1 with slots := setAt st1.slots i v } = st1) (hnull : p ≠ .null)
    (hlen : ∀ ks ps, p = .obj ks ps → ks.length = ps.length) (hdict : isDict v = true) :
    ((pyClsByFieldMapValue S c name).bind fun cls =>
      (setEach S (decP S) cls v p).bind fun v =>
        if (!(isNone v)) = true then Res.ok (pySetattr S c (slotStore S c st1 name v) name v)
        else Res.ok (slotStore S c st1 name v))
    = ofR (match (generalizing := false) p with
        | .arr items => if items.isEmpty then .ok (setAttrNN S (fieldsOf S c) st1 i v) else .error .type
        | .obj ks ps =>
          (match (generalizing := false) v with
           | .dict ks0 vs0 =>
             (match f.mapVKind with
              | .user c' =>
                (fromPyItems S c' ps).bind fun ys =>
                  .ok (setAttr S (fieldsOf S c) st1 i (.dict (dictInsertAll ks0 vs0 (ks.map keyV) ys).1 (dictInsertAll ks0 vs0 (ks.map keyV) ys).2))
              | _ => if ps.isEmpty then .ok (setAttr S (fieldsOf S c) st1 i (.dict ks0 vs0)) else .error .type)
           | _ => .error .type)
        | p => .error (iterErr p)) := by
  cases v with
  | dict ks0 vs0 =>
    simp only [pyClsByFieldMapValue, clsByFieldMapValue, hfn, hmap, hmv, if_true, res_bind_ok]
    cases p with
    | null => exact absurd rfl hnull
    | arr items =>
      cases items with
      | nil =>
        simp only [setEach, res_bind_ok, List.isEmpty_nil, if_true]
        rw [store_mutated S c st1 name i f hfn hfi _ rfl]; rfl
      | cons x items => rfl
    | obj ks ps =>
      have hl := hlen ks ps rfl
      simp only [setEach]
      cases hk : f.mapVKind with
      | user c' =>
        simp only [setLoop_eq S c' ks ps ks0 vs0 hl]
        cases fromPyItems S c' ps with
        | error e => rfl
        | ok ys =>
          simp only [ofR_ok, res_bind_ok, Except.bind, bind]
          rw [store_mutated S c st1 name i f hfn hfi _ rfl]
      | timestamp =>
        simp only []
        rw [setLoop_nonmsg S .datetime (by intro c' h; cases h) _ ks ps hl]
        cases ps with
        | nil => simp only [List.isEmpty_nil, if_true, res_bind_ok]; rw [store_mutated S c st1 name i f hfn hfi _ rfl]; rfl
        | cons x ps => rfl
      | duration =>
        simp only []
        rw [setLoop_nonmsg S .timedelta (by intro c' h; cases h) _ ks ps hl]
        cases ps with
        | nil => simp only [List.isEmpty_nil, if_true, res_bind_ok]; rw [store_mutated S c st1 name i f hfn hfi _ rfl]; rfl
        | cons x ps => rfl
    | _ => rfl
  | _ => simp [isDict] at hdict

set_option maxHeartbeats 1000000 in
theorem key_foundP (S : Schema) (c : Nat) (st : MState) (bs : Bytes) (i : Nat) (f : FieldD) (p : PVal)
    (hfn : findName (fieldsOf S c) (Casing.safeSnake (bs.map Char.ofNat)) 0 = some (i, f))
    (hlen : ∀ ks ps, p = .obj ks ps → ks.length = ps.length)
    (hdict : (f.ty == .map && f.mapV == .message) = true →
      ∀ v st1, getAttr S (fieldsOf S c) st i = .ok (v, st1) → isDict v = true) :
    Src.from_pydict_key S c (decP S) st (.str bs) p = ofR (fromPyField S (fieldsOf S c) st i f p) := by
  have hspec := findName_spec (fieldsOf S c) _ 0 i f hfn
  have hfi' : (fieldsOf S c)[i]? = some f := by simpa using hspec.2
  simp only [Src.from_pydict_key, safeSnakeCase, res_bind_ok, metaByFieldName, hfn, Option.map_some,
    metaProtoType, metaWraps, mapTypesSet, metaMapValue]
  by_cases hnull : p = .null
  · subst hnull; simp [jIsNone, fromPyField]
  have hjn : jIsNone p = false := by cases p <;> first | rfl | exact absurd rfl hnull
  simp only [hjn, Bool.not_false, if_true]
  by_cases hm : (f.ty == PType.message) = true
  · -- a message-typed field: the attribute is read first
    simp only [hm, if_true, pyGetattr, hfn]
    have hmodel : fromPyField S (fieldsOf S c) st i f p =
        (getAttr S (fieldsOf S c) st i).bind fun (v, st1) =>
          (match v with
           | .list xs =>
             (match (generalizing := false) p with
              | .arr items =>
                if f.wraps.isSome then (if items.isEmpty then .ok (setAttr S (fieldsOf S c) st1 i (.list xs)) else .error .type)
                else (match f.kind with
                  | .user c' => (fromPyItems S c' items).bind fun ys => .ok (setAttr S (fieldsOf S c) st1 i (.list (xs ++ ys)))
                  | _ => if items.isEmpty then .ok (setAttr S (fieldsOf S c) st1 i (.list xs)) else .error .type)
              | .obj _ _ => .error .notImpl
              | p => .error (iterErr p))
           | .ts _ => (unRaw p).bind fun w => .ok (setAttrNN S (fieldsOf S c) st1 i w)
           | .dur _ => (unRaw p).bind fun w => .ok (setAttrNN S (fieldsOf S c) st1 i w)
           | v =>
             if f.wraps.isSome then (unRaw p).bind fun w => .ok (setAttrNN S (fieldsOf S c) st1 i w)
             else (match (generalizing := false) v, p with
               | .msg c' sl _ unk cur, .obj ks ps =>
                 (fromPyKeys S c' { slots := sl, onWire := true, unknown := unk, cur := cur } ks ps).bind fun st' =>
                   .ok (setAttr S (fieldsOf S c) st1 i (st'.toVal c'))
               | v, _ => .error (notMsgErr v))) := by
      cases p <;> first
        | exact absurd rfl hnull
        | (rw [fromPyField]
           · simp only [hm, if_true]
             congr 1
             all_goals (
               funext q; obtain ⟨v, st1⟩ := q
               cases v <;> simp [notMsgErr, iterErr] <;> (try split) <;> (try simp_all [notMsgErr]) <;> (try (cases f.kind <;> rfl)))
           all_goals (intros; contradiction))
    rw [hmodel]
    cases hga : getAttr S (fieldsOf S c) st i with
    | error e => rfl
    | ok q =>
      obtain ⟨v, st1⟩ := q
      have hslot := getAttr_slot S (fieldsOf S c) st st1 i v hga
      simp only [ofR_ok, res_bind_ok, Except.bind, bind]
      cases v with
      | list xs =>
        simp only [isList, if_true]
        exact list_case S c st1 _ i f hfn hfi' hm xs p
      | ts us => simp only [isList, isDatetime, if_true, if_false, Bool.false_eq_true]; exact store_raw S c st1 _ i f hfn p
      | dur us =>
        simp only [isList, isDatetime, isTimedelta, if_true, if_false, Bool.false_eq_true]; exact store_raw S c st1 _ i f hfn p
      | _ =>
        simp only [isList, isDatetime, isTimedelta, if_false, Bool.false_eq_true]
        by_cases hw : f.wraps.isSome = true
        · simp only [hw, if_true]; exact store_raw S c st1 _ i f hfn p
        · simp only [hw, if_false, Bool.false_eq_true]; exact call_case S c st1 _ i f hfn hfi' _ p
  · have hm' : (f.ty == PType.message) = false := by simpa using hm
    simp only [hm', Bool.false_eq_true, if_false]
    by_cases hmm : (f.ty == PType.map && f.mapV == PType.message) = true
    · -- a map with message values: the attribute is read first
      have hmap : (f.ty == PType.map) = true := by simp only [Bool.and_eq_true] at hmm; exact hmm.1
      have hmv : (f.mapV == PType.message) = true := by simp only [Bool.and_eq_true] at hmm; exact hmm.2
      simp only [hmm, if_true, pyGetattr, hfn]
      have hmodel : fromPyField S (fieldsOf S c) st i f p =
          (getAttr S (fieldsOf S c) st i).bind fun (v, st1) =>
            (match (generalizing := false) p with
             | .arr items => if items.isEmpty then .ok (setAttrNN S (fieldsOf S c) st1 i v) else .error .type
             | .obj ks ps =>
               (match (generalizing := false) v with
                | .dict ks0 vs0 =>
                  (match f.mapVKind with
                   | .user c' =>
                     (fromPyItems S c' ps).bind fun ys =>
                       .ok (setAttr S (fieldsOf S c) st1 i (.dict (dictInsertAll ks0 vs0 (ks.map keyV) ys).1 (dictInsertAll ks0 vs0 (ks.map keyV) ys).2))
                   | _ => if ps.isEmpty then .ok (setAttr S (fieldsOf S c) st1 i (.dict ks0 vs0)) else .error .type)
                | _ => .error .type)
             | p => .error (iterErr p)) := by
        cases p <;> first
          | exact absurd rfl hnull
          | (rw [fromPyField]
             · simp only [hm', hmm, if_true, if_false, Bool.false_eq_true]
               all_goals (first | rfl | (congr 1; all_goals (funext q; obtain ⟨v, st1⟩ := q; first | rfl | (cases v <;> rfl))))
             all_goals (intros; contradiction))
      rw [hmodel]
      cases hga : getAttr S (fieldsOf S c) st i with
      | error e => rfl
      | ok q =>
        obtain ⟨v, st1⟩ := q
        have hslot := getAttr_slot S (fieldsOf S c) st st1 i v hga
        simp only [ofR_ok, res_bind_ok, Except.bind, bind]
        exact map_case S c st1 _ i f hfn hfi' hmap hmv v p hslot hnull hlen (hdict hmm v st1 hga)
    · have hmm' : (f.ty == PType.map && f.mapV == PType.message) = false := by simpa using hmm
      simp only [hmm', Bool.false_eq_true, if_false]
      have hmodel : fromPyField S (fieldsOf S c) st i f p =
          (unRaw p).bind fun w => .ok (setAttrNN S (fieldsOf S c) st i w) := by
        cases p <;> first
          | exact absurd rfl hnull
          | (rw [fromPyField]
             · simp only [hm', hmm', if_false, Bool.false_eq_true]
             all_goals (intros; contradiction))
      rw [hmodel]
      exact store_raw S c st _ i f hfn p

/-! ### one iteration, any key -/

/-- the guards of one iteration: a dict under the key has as many keys as values; the attribute of a
    `map<K, Message>` field is a dict -/
def StepOk (S : Schema) (c : Nat) (st : MState) (k : JKey) (p : PVal) : Prop :=
  (∀ ks ps, p = .obj ks ps → ks.length = ps.length) ∧
  ∀ i f, fieldOfJKey (fieldsOf S c) k = .ok (some (i, f)) → (f.ty == .map && f.mapV == .message) = true →
    ∀ v st1, getAttr S (fieldsOf S c) st i = .ok (v, st1) → isDict v = true

/-- **`Src.from_pydict_key` is the model's per-key step**: the `safe_snake_case` lookup (TypeError for a
    key that is not a str, `continue` for a key that names no field), the skip of None, and `fromPyField` -/
theorem from_pydict_key_eq (S : Schema) (c : Nat) (st : MState) (key : JKey) (p : PVal) (hok : StepOk S c st key p) :
    Src.from_pydict_key S c (decP S) st key p = ofR (keyStepP S c st key p) := by
  cases key with
  | str bs =>
    cases hfn : findName (fieldsOf S c) (Casing.safeSnake (bs.map Char.ofNat)) 0 with
    | none => simp [Src.from_pydict_key, safeSnakeCase, metaByFieldName, hfn, keyStepP, fieldOfJKey, Casing.fieldOfKey]
    | some q =>
      obtain ⟨i, f⟩ := q
      have hk : fieldOfJKey (fieldsOf S c) (.str bs) = .ok (some (i, f)) := by simp [fieldOfJKey, Casing.fieldOfKey, hfn]
      rw [key_foundP S c st bs i f p hfn hok.1 (hok.2 i f hk)]
      simp [keyStepP, hk]
  | int v => simp [Src.from_pydict_key, safeSnakeCase, keyStepP, fieldOfJKey]
  | bool b => simp [Src.from_pydict_key, safeSnakeCase, keyStepP, fieldOfJKey]

/-! ### the whole method: `self._serialized_on_wire = True`, the key loop, `return self` -/

/-- `for key in value: <translated body>` (hand-written fold; the body is the translated `Src.from_pydict_key`) -/
def srcKeysLoop (S : Schema) (c : Nat) : MState → List JKey → List PVal → Res MState
  | st, k :: ks, p :: ps => (Src.from_pydict_key S c (decP S) st k p).bind fun st' => srcKeysLoop S c st' ks ps
  | st, _, _ => .ok st

/-- the guards along the run of the loop -/
def KeysTieOk (S : Schema) (c : Nat) : MState → List JKey → List PVal → Prop
  | st, k :: ks, p :: ps => StepOk S c st k p ∧ ∀ st', keyStepP S c st k p = .ok st' → KeysTieOk S c st' ks ps
  | _, _, _ => True

theorem srcKeysLoop_eq (S : Schema) (c : Nat) : ∀ (ks : List JKey) (ps : List PVal) (st : MState),
    KeysTieOk S c st ks ps → srcKeysLoop S c st ks ps = ofR (fromPyKeys S c st ks ps)
  | [], ps, st, _ => by rw [srcKeysLoop, fromPyKeys]; rfl; all_goals (intros; contradiction)
  | k :: ks, [], st, _ => by rw [srcKeysLoop, fromPyKeys]; rfl; all_goals (intros; contradiction)
  | k :: ks, p :: ps, st, h => by
    obtain ⟨h1, h2⟩ := h
    rw [srcKeysLoop, fromPyKeys_cons, from_pydict_key_eq S c st k p h1]
    cases hs : keyStepP S c st k p with
    | error e => rfl
    | ok st' =>
      simp only [ofR_ok, res_bind_ok, Except.bind, bind]
      exact srcKeysLoop_eq S c ks ps st' (h2 st' hs)

/-- **`m.from_pydict(d)` with the loop body as written is the model's `fromPyDictI`** -/
theorem src_from_pydict_eq (S : Schema) (c : Nat) (sl : List Val) (ow : Bool) (unk : Bytes) (cur : List (Option Nat))
    (ks : List JKey) (ps : List PVal)
    (hok : KeysTieOk S c { slots := sl, onWire := true, unknown := unk, cur := cur } ks ps) :
    (srcKeysLoop S c { slots := sl, onWire := true, unknown := unk, cur := cur } ks ps).bind (fun st => .ok (st.toVal c))
      = ofR (fromPyDictI S (.msg c sl ow unk cur) (.obj ks ps)) := by
  rw [srcKeysLoop_eq S c ks ps _ hok]
  show _ = ofR ((fromPyKeys S c { slots := sl, onWire := true, unknown := unk, cur := cur } ks ps).bind
    fun st => .ok (st.toVal c))
  cases fromPyKeys S c { slots := sl, onWire := true, unknown := unk, cur := cur } ks ps <;> rfl

end Bp.SrcTieFromPyDict
