import BpProofs.Gen.SrcGrpc
import BpProofs.GrpcCall
/-
  C11 source tie: the definitions regenerated from grpclib_client.py / grpclib_server.py / the rendered template
  (BpProofs/Gen/SrcGrpc.lean) ARE the model's definitions of BpModel/GrpcCall.lean and BpModel/Grpc.lean.
-/
set_option linter.unusedSimpArgs false
namespace Bp.SrcTieGrpc
open Bp Bp.Grpc Bp.GrpcCall Bp.SrcGrpc

variable {Req Resp α : Type}

theorem resolve_request_kwargs_eq (self : Kw α) (t d m : Option α) :
    resolve_request_kwargs self t d m = resolveKw self ⟨t, d, m⟩ := by
  cases t <;> cases d <;> cases m <;>
    simp [resolve_request_kwargs, PyG.kwDict, PyG.isNone, resolveKw, resolve, List.lookup]

theorem send_messages_eq (src : PyG.Source Req) : send_messages src = sendMessages src.items := by
  obtain ⟨b, ms⟩ := src
  have h : List.flatMap (fun message => [SOp.message message false]) ms = List.map (fun m => SOp.message m false) ms := by
    induction ms with
    | nil => rfl
    | cons x xs ih => simp [List.flatMap_cons, ih]
  cases b <;> simp [send_messages, PyG.isAsyncIterable, PyG.forEach, sendMessages, h]

theorem unary_unary_eq (self : Kw α) (route : Str) (req : Req) (rt : PyG.Ty) (t d m : Option α) :
    (unary_unary self route req rt t d m).prog = unaryUnary route (resolveKw self ⟨t, d, m⟩) req
    ∧ (unary_unary self route req rt t d m).opened.reqTy = .req
    ∧ (unary_unary self route req rt t d m).opened.respTy = rt := by
  simp [unary_unary, PyG.asyncWith, PyG.Helper.prog, PyG.channelRequest, PyG.Cardinality.UNARY_UNARY, PyG.typeOf,
    unaryUnary, resolve_request_kwargs_eq]

theorem unary_stream_eq (self : Kw α) (route : Str) (req : Req) (rt : PyG.Ty) (t d m : Option α) :
    (unary_stream self route req rt t d m).prog = unaryStream route (resolveKw self ⟨t, d, m⟩) req
    ∧ (unary_stream self route req rt t d m).opened.reqTy = .req
    ∧ (unary_stream self route req rt t d m).opened.respTy = rt := by
  simp [unary_stream, PyG.asyncWith, PyG.Helper.prog, PyG.channelRequest, PyG.Cardinality.UNARY_STREAM, PyG.typeOf,
    unaryStream, resolve_request_kwargs_eq]

theorem stream_unary_eq (self : Kw α) (route : Str) (src : PyG.Source Req) (qt rt : PyG.Ty) (t d m : Option α) :
    (stream_unary self route src qt rt t d m).prog = streamUnary route (resolveKw self ⟨t, d, m⟩) src.items
    ∧ (stream_unary self route src qt rt t d m).opened.reqTy = qt
    ∧ (stream_unary self route src qt rt t d m).opened.respTy = rt := by
  simp [stream_unary, PyG.asyncWith, PyG.Helper.prog, PyG.channelRequest, PyG.Cardinality.STREAM_UNARY,
    PyG.awaitInline, streamUnary, resolve_request_kwargs_eq, send_messages_eq]

theorem stream_stream_eq (self : Kw α) (route : Str) (src : PyG.Source Req) (qt rt : PyG.Ty) (t d m : Option α) :
    (stream_stream self route src qt rt t d m).prog = streamStream route (resolveKw self ⟨t, d, m⟩) src.items
    ∧ (stream_stream self route src qt rt t d m).opened.reqTy = qt
    ∧ (stream_stream self route src qt rt t d m).opened.respTy = rt := by
  simp [stream_stream, PyG.asyncWith, PyG.Helper.prog, PyG.channelRequest, PyG.Cardinality.STREAM_STREAM,
    PyG.tryCancel, streamStream, resolve_request_kwargs_eq, send_messages_eq]

/-! ### server side -/

theorem genLoop_send (iter : Bool) (p : HProg Req Resp) :
    PyG.genLoop iter (fun r k' => PyG.serverSend r k') (.fin none) p = genProg iter p := by
  induction p with
  | recv k ih => cases iter <;> simp [PyG.genLoop, genProg, ih]
  | yield r k ih => simp only [PyG.genLoop, genProg, ih]; rfl
  | ret r => simp [PyG.genLoop, genProg]
  | raise e => simp [PyG.genLoop, genProg]

theorem coroLoop_send (iter : Bool) (p : HProg Req Resp) :
    PyG.coroLoop iter (fun r => PyG.serverSend r PyG.adapterReturn) p = coroProg iter p := by
  induction p with
  | recv k ih => cases iter <;> simp [PyG.coroLoop, coroProg, ih]
  | yield r k ih => simp [PyG.coroLoop, coroProg, ih]
  | ret r => cases r <;> simp [PyG.coroLoop, coroProg, PyG.serverSend, PyG.adapterReturn]
  | raise e => simp [PyG.coroLoop, coroProg]

theorem call_rpc_handler_server_stream_eq (h : Handler Req Resp) (a : PyG.ReqArg Req) :
    call_rpc_handler_server_stream h a PyG.adapterReturn = callServerStream h a.isIter a.val := by
  simp [call_rpc_handler_server_stream, PyG.callHandler, PyG.isAsyncIterableObj, PyG.asyncFor, PyG.close,
    PyG.adapterReturn, callServerStream, genLoop_send]

theorem awaitHandler_eq (h : Handler Req Resp) (a : PyG.ReqArg Req) :
    PyG.awaitHandler h a (fun r => PyG.serverSend r PyG.adapterReturn) = callUnaryResp h a.isIter a.val := by
  simp [PyG.awaitHandler, callUnaryResp, coroLoop_send]

theorem rpc_uu_eq (h : Handler Req Resp) : rpc_uu h = serverProg (rpcShape .unaryUnary) h := by
  simp only [rpc_uu, PyG.recvMessage, awaitHandler_eq, serverProg, rpcShape, csOf, ssOf, PyG.ReqArg.isIter,
    PyG.ReqArg.val]
  congr 1

theorem rpc_us_eq (h : Handler Req Resp) : rpc_us h = serverProg (rpcShape .unaryStream) h := by
  simp only [rpc_us, PyG.recvMessage, call_rpc_handler_server_stream_eq, serverProg, rpcShape, csOf, ssOf,
    PyG.ReqArg.isIter, PyG.ReqArg.val]
  congr 1

theorem rpc_su_eq (h : Handler Req Resp) : rpc_su h = serverProg (rpcShape .streamUnary) h := by
  simp [rpc_su, PyG.aiter, awaitHandler_eq, serverProg, rpcShape, csOf, ssOf, afterRecv, PyG.ReqArg.isIter,
    PyG.ReqArg.val]

theorem rpc_ss_eq (h : Handler Req Resp) : rpc_ss h = serverProg (rpcShape .streamStream) h := by
  simp [rpc_ss, PyG.aiter, call_rpc_handler_server_stream_eq, serverProg, rpcShape, csOf, ssOf, afterRecv,
    PyG.ReqArg.isIter, PyG.ReqArg.val]

theorem base_eq :
    (base_uu : Handler Req Resp) = unimplementedHandler .unaryUnary
    ∧ (base_us : Handler Req Resp) = unimplementedHandler .unaryStream
    ∧ (base_su : Handler Req Resp) = unimplementedHandler .streamUnary
    ∧ (base_ss : Handler Req Resp) = unimplementedHandler .streamStream := by
  simp [base_uu, base_us, base_su, base_ss, unimplementedHandler, ssOf, PyG.grpcError, PyG.Status.UNIMPLEMENTED,
    unimplementedErr]

end Bp.SrcTieGrpc
