import BpProofs.Gen.SrcImporting
import BpProofs.Importing
/-
  THE TIE BETWEEN THE TRANSLATED SOURCE OF importing.py AND THE HAND-WRITTEN MODEL (C13).

  `Bp.Src.reference_*` and `Bp.Src.get_type_reference_dispatch` (BpProofs/Gen/SrcImporting.lean) are
  regenerated from the Python AST of src/betterproto/compile/importing.py on every run.  The theorems
  below say that each of them returns exactly the text `Ref.render` / adds exactly the text
  `Import.render` of the model function of BpModel/Importing.lean, for ALL package paths, type names and
  prior contents of the imports set, under exactly the hypotheses Python needs not to raise (and that it
  raises otherwise).  What is trusted is the meaning of the Python primitives fixed in
  BpProofs/PyPrelude.lean and BpProofs/PyPreludeStr.lean.
-/
set_option linter.unusedSimpArgs false
namespace Bp.SrcTieImp
open Bp Bp.Py Bp.Importing Bp.Casing Bp.Naming

/-- what `imports.add` is called with: nothing for a sibling, otherwise the one import line -/
def added : Import → List Str
  | .none => []
  | i => [i.render]

/-! ### the Python primitives on the operands that occur -/

theorem commonprefix2_eq : ∀ a b : Pkg, Py.commonprefix2 a b = commonPrefix a b
  | [], _ => by simp [Py.commonprefix2, commonPrefix]
  | _ :: _, [] => by simp [Py.commonprefix2, commonPrefix]
  | a :: as, b :: bs => by
    simp only [Py.commonprefix2, commonPrefix, commonprefix2_eq as bs]

theorem strMul_char (c : Char) (n : Int) : Py.strMul [c] n = rep c n.toNat := by
  unfold Py.strMul rep
  induction n.toNat with
  | zero => rfl
  | succ k ih => simp [List.replicate_succ, ih]

theorem llen_sub_toNat {α β : Type} (a : List α) (b : List β) : (Py.llen a - Py.llen b).toNat = a.length - b.length := by
  unfold Py.llen; omega

theorem clamp_nat (len m : Nat) : Py.clamp len (m : Int) = min m len := by
  unfold Py.clamp
  have : ¬ ((m : Int) < 0) := by omega
  simp [this]

theorem clamp_neg_one (len : Nat) : Py.clamp len (-1) = len - 1 := by
  unfold Py.clamp
  simp only [show ((-1 : Int) < 0) from by decide, if_true]
  omega

theorem drop_min {α : Type} (xs : List α) (m : Nat) : xs.drop (min m xs.length) = xs.drop m := by
  by_cases h : m ≤ xs.length
  · rw [Nat.min_eq_left h]
  · rw [Nat.min_eq_right (by omega), List.drop_length, List.drop_eq_nil_of_le (by omega)]

theorem take_min {α : Type} (xs : List α) (m : Nat) : xs.take (min m xs.length) = xs.take m := by
  by_cases h : m ≤ xs.length
  · rw [Nat.min_eq_left h]
  · rw [Nat.min_eq_right (by omega), List.take_length, List.take_of_length_le (by omega)]

theorem sliceFrom_llen {α β : Type} (xs : List α) (ys : List β) : Py.sliceFrom xs (Py.llen ys) = xs.drop ys.length := by
  unfold Py.sliceFrom Py.llen
  rw [clamp_nat, drop_min]

theorem sliceTo_llen {α β : Type} (xs : List α) (ys : List β) : Py.sliceTo xs (Py.llen ys) = xs.take ys.length := by
  unfold Py.sliceTo Py.llen
  rw [clamp_nat, take_min]

theorem sliceTo_one {α : Type} (xs : List α) : Py.sliceTo xs 1 = xs.take 1 := by
  unfold Py.sliceTo
  rw [show (1 : Int) = ((1 : Nat) : Int) from rfl, clamp_nat, take_min]

theorem sliceTo_neg_one {α : Type} (xs : List α) : Py.sliceTo xs (-1) = xs.dropLast := by
  unfold Py.sliceTo
  rw [clamp_neg_one, List.dropLast_eq_take]

theorem slice_llen_neg_one {α β : Type} (xs : List α) (ys : List β) :
    Py.slice xs (Py.llen ys) (-1) = (xs.drop ys.length).dropLast := by
  unfold Py.slice Py.llen
  rw [clamp_neg_one, clamp_nat, List.dropLast_eq_take, List.length_drop]
  by_cases h : ys.length ≤ xs.length
  · rw [Nat.min_eq_left h, List.drop_take]
    congr 1; omega
  · have e : xs.drop ys.length = [] := List.drop_eq_nil_of_le (by omega)
    rw [Nat.min_eq_right (by omega), e, List.take_nil]
    apply List.drop_eq_nil_of_le
    rw [List.length_take]; omega

theorem index_neg_one_nil {α : Type} : Py.index ([] : List α) (-1) = .raise .key := by
  simp [Py.index]

theorem index_neg_one (xs : Pkg) (h : xs ≠ []) : Py.index xs (-1) = .ok (lastD xs) := by
  unfold Py.index lastD
  have hl : 0 < xs.length := List.length_pos_iff.mpr h
  simp only [show ((-1 : Int) < 0) from by decide, if_true]
  have h1 : ¬ ((-1 : Int) + ((xs.length : Nat) : Int) < 0) := by omega
  have h2 : ((-1 : Int) + ((xs.length : Nat) : Int)).toNat = xs.length - 1 := by omega
  rw [if_neg h1, h2, List.getLast?_eq_getElem?]
  have : xs.length - 1 < xs.length := by omega
  rw [List.getElem?_eq_getElem this]
  rfl

/-! ### the five reference functions -/

theorem rep_succ (c : Char) (n : Nat) : rep c (n + 1) = c :: rep c n := rfl
theorem rep_zero (c : Char) : rep c 0 = [] := rfl
theorem rep_comm (c : Char) (n : Nat) (rest : Str) : rep c n ++ c :: rest = c :: (rep c n ++ rest) := by
  induction n with
  | zero => rfl
  | succ k ih => rw [rep_succ, List.cons_append, ih, List.cons_append]

/- `Import.render` clause by clause (`simp only [Import.render]` is slow: its equation lemmas are generated
   through the string constants) -/
theorem render_none : Import.none.render = [] := rfl
theorem render_absolute (path : Pkg) (a : Str) :
    (Import.absolute path a).render = "import ".toList ++ dotted path ++ " as ".toList ++ a := rfl
theorem render_from_as (d : Nat) (path : Pkg) (n a : Str) :
    (Import.from_ d path n (some a)).render
      = "from ".toList ++ rep '.' d ++ dotted path ++ " import ".toList ++ n ++ (" as ".toList ++ a) := rfl
theorem render_from (d : Nat) (path : Pkg) (n : Str) :
    (Import.from_ d path n none).render = "from ".toList ++ rep '.' d ++ dotted path ++ " import ".toList ++ n := by
  show _ ++ [] = _
  rw [List.append_nil]
theorem render_bare (n : Str) : (Ref.bare n).render = '"' :: n ++ ['"'] := rfl
theorem render_qualified (a n : Str) : (Ref.qualified a n).render = '"' :: a ++ '.' :: n ++ ['"'] := rfl

/-- normal form of the texts: string constants become character lists, appends are re-associated to the
    right, the model's `render` functions are unfolded -/
macro "norm_text" : tactic => `(tactic| simp only [String.reduceToList, render_none, render_absolute, render_from_as, render_from, render_bare,
  render_qualified, dotted, rep_succ,
  rep_zero, List.cons_append, List.nil_append, List.append_nil, List.append_assoc, List.isEmpty_cons,
  List.isEmpty_nil, Bool.not_true, Bool.not_false, if_true, if_false, Bool.false_eq_true, reduceCtorEq, Res.bind])

/-- `reference_absolute` as written is `referenceAbsolute` -/
theorem reference_absolute_eq (fuel : Nat) (imports py : List Str) (ty : Str) :
    Src.reference_absolute fuel imports py ty
      = .ok ((referenceAbsolute py ty).ref.render, imports ++ [(referenceAbsolute py ty).imp.render]) := by
  unfold Src.reference_absolute referenceAbsolute
  norm_text

/-- `reference_sibling` as written is `referenceSibling` (and adds nothing) -/
theorem reference_sibling_eq (fuel : Nat) (ty : Str) :
    Src.reference_sibling fuel ty = .ok (referenceSibling ty).ref.render := by
  unfold Src.reference_sibling referenceSibling
  norm_text

/-- `reference_descendent` as written is `referenceDescendent` whenever `py_package` is longer than
    `current_package` (Python: `importing_descendent[-1]` exists) -/
theorem reference_descendent_eq (fuel : Nat) (cur imports py : List Str) (ty : Str) (h : py.drop cur.length ≠ []) :
    Src.reference_descendent fuel cur imports py ty
      = .ok ((referenceDescendent cur py ty).ref.render, imports ++ [(referenceDescendent cur py ty).imp.render]) := by
  unfold Src.reference_descendent referenceDescendent
  simp only [sliceFrom_llen, sliceTo_neg_one]
  rw [index_neg_one _ h]
  simp only [Res.bind, dotted]
  by_cases he : joinWith '.' (py.drop cur.length).dropLast = []
  · simp only [he]
    norm_text
    simp only [he, List.nil_append]
  · have hb : (joinWith '.' (py.drop cur.length).dropLast).isEmpty = false := by
      rw [List.isEmpty_eq_false_iff]; exact he
    simp only [hb]
    norm_text

/-- … and raises (IndexError) otherwise -/
theorem reference_descendent_raises (fuel : Nat) (cur imports py : List Str) (ty : Str) (h : py.drop cur.length = []) :
    Src.reference_descendent fuel cur imports py ty = .raise .key := by
  unfold Src.reference_descendent
  simp only [sliceFrom_llen, h, index_neg_one_nil, Res.bind]

/-- `reference_ancestor` as written is `referenceAncestor`, for all arguments -/
theorem reference_ancestor_eq (fuel : Nat) (cur imports py : List Str) (ty : Str) :
    Src.reference_ancestor fuel cur imports py ty
      = .ok ((referenceAncestor cur py ty).ref.render, imports ++ [(referenceAncestor cur py ty).imp.render]) := by
  unfold Src.reference_ancestor referenceAncestor
  have e1 : ("_".toList : Str) = ['_'] := rfl
  have e2 : (".".toList : Str) = ['.'] := rfl
  simp only [e1, e2, strMul_char, llen_sub_toNat]
  by_cases he : py = []
  · subst he
    simp only [List.isEmpty_nil]
    norm_text
    simp only [joinWith, List.nil_append]
  · have hb : py.isEmpty = false := by rw [List.isEmpty_eq_false_iff]; exact he
    simp only [hb, index_neg_one _ he]
    norm_text
    simp only [joinWith, List.nil_append]

/-- `reference_cousin` as written is `referenceCousin` whenever `py_package` is not empty
    (Python: `py_package[-1]` exists) -/
theorem reference_cousin_eq (fuel : Nat) (cur imports py : List Str) (ty : Str) (h : py ≠ []) :
    Src.reference_cousin fuel cur imports py ty
      = .ok ((referenceCousin cur py ty).ref.render, imports ++ [(referenceCousin cur py ty).imp.render]) := by
  unfold Src.reference_cousin referenceCousin
  have e1 : ("_".toList : Str) = ['_'] := rfl
  have e2 : (".".toList : Str) = ['.'] := rfl
  simp only [e1, e2, strMul_char, commonprefix2_eq, llen_sub_toNat, slice_llen_neg_one, sliceFrom_llen,
    index_neg_one _ h]
  norm_text

/-- … and raises (IndexError) on the empty package -/
theorem reference_cousin_raises (fuel : Nat) (cur imports : List Str) (ty : Str) :
    Src.reference_cousin fuel cur imports [] ty = .raise .key := by
  unfold Src.reference_cousin
  simp only [index_neg_one_nil, Res.bind]

/-! ### the dispatch of `get_type_reference` -/

theorem splitPkg_eq (s : Str) : (if (!s.isEmpty) = true then splitOn '.' s else ([] : List Str)) = splitPkg s := by
  unfold splitPkg
  cases s <;> rfl

theorem gp_def : googleProtobuf = ["google".toList, "protobuf".toList] := rfl
theorem redirect_def (cur py : Pkg) (pydantic : Bool) : redirect cur py pydantic =
    if py = googleProtobuf ∧ cur ≠ googleProtobuf then
      ["betterproto".toList, "lib".toList] ++ (if pydantic then ["pydantic".toList] else []) ++ py
    else py := rfl

theorem redirect_eq (cur py : Pkg) (pydantic : Bool) :
    (if (decide (py = ["google".toList, "protobuf".toList]) && !decide (cur = ["google".toList, "protobuf".toList])) = true then
        (["betterproto".toList, "lib".toList] ++ (if pydantic = true then ["pydantic".toList] else ([] : List Str))) ++ py
      else py) = redirect cur py pydantic := by
  rw [redirect_def, gp_def]
  generalize ["google".toList, "protobuf".toList] = G
  generalize ["betterproto".toList, "lib".toList] = B
  by_cases h1 : py = G <;> by_cases h2 : cur = G <;>
    simp only [h1, h2, decide_true, decide_false, Bool.not_true, Bool.not_false, Bool.and_true, Bool.and_false,
      Bool.true_and, Bool.false_and, if_true, if_false, ne_eq, not_true_eq_false, not_false_eq_true, and_true,
      and_false, true_and, false_and, Bool.false_eq_true]

/-- the dispatch on already-split packages: `refCore` -/
theorem dispatch_core (fuel : Nat) (cur py imports : List Str) (ty : Str) :
    (if decide (Py.sliceTo py 1 = ["betterproto".toList]) = true then
        (Src.reference_absolute fuel imports py ty).bind fun (t, imports) => Res.ok (t, imports)
      else if decide (py = cur) = true then
        (Src.reference_sibling fuel ty).bind fun t => Res.ok (t, imports)
      else if decide (Py.sliceTo py (Py.llen cur) = cur) = true then
        (Src.reference_descendent fuel cur imports py ty).bind fun (t, imports) => Res.ok (t, imports)
      else if decide (Py.sliceTo cur (Py.llen py) = py) = true then
        (Src.reference_ancestor fuel cur imports py ty).bind fun (t, imports) => Res.ok (t, imports)
      else
        (Src.reference_cousin fuel cur imports py ty).bind fun (t, imports) => Res.ok (t, imports))
      = .ok ((refCore cur py ty).ref.render, imports ++ added (refCore cur py ty).imp) := by
  unfold refCore
  simp only [sliceTo_one, sliceTo_llen, decide_eq_true_eq]
  by_cases c1 : py.take 1 = ["betterproto".toList]
  · rw [if_pos c1, if_pos c1, reference_absolute_eq]; rfl
  · rw [if_neg c1, if_neg c1]
    by_cases c2 : py = cur
    · rw [if_pos c2, if_pos c2, reference_sibling_eq]
      simp [Res.bind, referenceSibling, added]
    · rw [if_neg c2, if_neg c2]
      by_cases c3 : py.take cur.length = cur
      · rw [if_pos c3, if_pos c3]
        have hd : py.drop cur.length ≠ [] := by
          intro h
          have := List.take_append_drop cur.length py
          rw [c3, h, List.append_nil] at this
          exact c2 this.symm
        rw [reference_descendent_eq _ _ _ _ _ hd]
        unfold referenceDescendent
        by_cases he : (dotted (py.drop cur.length).dropLast).isEmpty = true <;> simp [he, Res.bind, added]
      · rw [if_neg c3, if_neg c3]
        by_cases c4 : cur.take py.length = py
        · rw [if_pos c4, if_pos c4, reference_ancestor_eq]
          unfold referenceAncestor
          by_cases he : py.isEmpty = true <;> simp [he, Res.bind, added]
        · rw [if_neg c4, if_neg c4]
          have hp : py ≠ [] := by
            intro h; subst h; exact c4 (by simp)
          rw [reference_cousin_eq _ _ _ _ _ hp]
          simp [Res.bind, referenceCousin, added]

/-- **the dispatch of `get_type_reference` as written** (everything after the call of
    `parse_source_type_name`) is `refCore` on the `redirect`ed, split packages — the way the model's
    `getTypeReference` is assembled; it never raises -/
theorem dispatch_eq (fuel : Nat) (package : Str) (imports : List Str) (srcPkg srcName : Str) (pydantic : Bool) :
    Src.get_type_reference_dispatch fuel package imports srcPkg srcName pydantic
      = (let cur := splitPkg package
         let r := refCore cur (redirect cur (splitPkg srcPkg) pydantic) (pythonizeClassName srcName)
         .ok (r.ref.render, imports ++ added r.imp)) := by
  unfold Src.get_type_reference_dispatch
  simp only [splitPkg_eq, redirect_eq]
  exact dispatch_core fuel _ _ imports _

end Bp.SrcTieImp
