import BpProofs.Gen.SrcImportingRe
import BpProofs.SrcTieCasing
import BpModel.Importing
/-
  The translated source of `parse_source_type_name` (BpProofs/Gen/SrcImportingRe.lean: the regular expression
  `^\.?([^A-Z]+)\.(.+)` parsed from the source, `re.match`, the two branches) EQUALS the model's
  `parseSourceTypeName` (BpModel/Importing.lean) on every string that contains no newline.

  Under the semantics of BpProofs/PyRegex.lean the greedy `[^A-Z]+` first takes the whole leading run of
  non-capitals and then gives characters back one by one until what follows is a dot and at least one more
  character: the LAST such dot of the run — which is what the model's forward scan `parseAux` keeps in `best`
  (`scan`).  `(.+)` then takes everything up to the first newline; the model takes everything (so the two differ on
  a name with a newline in it: `newline_witness`).  The optional leading dot is tried consumed first, then
  unconsumed — the model's `first` / second attempt.
-/
namespace Bp.SrcTieImpRe
open Bp Bp.Casing Bp.PyRe Bp.Importing Bp.SrcTieCasing

def setNotUp : CSet := ⟨true, [('A', 'Z')]⟩
def setDot : CSet := ⟨false, [('.', '.')]⟩
def setAny : CSet := ⟨true, [('\n', '\n')]⟩

theorem mem_notUp (c : Char) : setNotUp.mem c = decide (cls c ≠ .up) := by
  have h := mem_up c
  simp only [CSet.mem, setUp, setNotUp, List.any_cons, List.any_nil, Bool.or_false] at h ⊢
  cases hx : (decide ('A' ≤ c) && decide (c ≤ 'Z')) <;> rw [hx] at h <;> simp_all

theorem mem_dot (c : Char) : setDot.mem c = decide (c = '.') := by
  simp only [CSet.mem, setDot, List.any_cons, List.any_nil, Bool.or_false]
  by_cases h : c = '.'
  · subst h; decide
  · have : ¬ ('.' ≤ c ∧ c ≤ '.') := by
      intro ⟨h1, h2⟩
      rw [char_le_iff] at h1 h2
      exact h (Char.toNat_inj.mp (Nat.le_antisymm h2 h1))
    have hb : (decide ('.' ≤ c) && decide (c ≤ '.')) = false := by
      apply Bool.eq_false_iff.mpr
      intro hh
      rw [Bool.and_eq_true, decide_eq_true_eq, decide_eq_true_eq] at hh
      exact this hh
    rw [hb]; simp [h]

theorem mem_any (c : Char) : setAny.mem c = decide (c ≠ '\n') := by
  simp only [CSet.mem, setAny, List.any_cons, List.any_nil, Bool.or_false]
  by_cases h : c = '\n'
  · subst h; decide
  · have : ¬ ('\n' ≤ c ∧ c ≤ '\n') := by
      intro ⟨h1, h2⟩
      rw [char_le_iff] at h1 h2
      exact h (Char.toNat_inj.mp (Nat.le_antisymm h2 h1))
    have hb : (decide ('\n' ≤ c) && decide (c ≤ '\n')) = false := by
      apply Bool.eq_false_iff.mpr
      intro hh
      rw [Bool.and_eq_true, decide_eq_true_eq, decide_eq_true_eq] at hh
      exact this hh
    rw [hb]; simp [h]

/-- no newline in the string -/
def NoNl (s : Str) : Prop := ∀ c ∈ s, c ≠ '\n'

instance (s : Str) : Decidable (NoNl s) := by unfold NoNl; infer_instance

/-- a greedy `[..]*` whose continuation accepts the end of a string made of members takes all of it -/
theorem star_all (cs : CSet) (k : Nat → Str → Option Match) :
    ∀ (t : Str) (pos : Nat), (∀ c ∈ t, cs.mem c = true) → (k (pos + t.length) []).isSome →
      starSet cs k pos t = k (pos + t.length) []
  | [], pos, _, _ => by simp [starSet]
  | c :: t, pos, hm, hk => by
    have hc : cs.mem c = true := hm c (by simp)
    have ht : ∀ c ∈ t, cs.mem c = true := fun d hd => hm d (by simp [hd])
    have e : pos + (c :: t).length = pos + 1 + t.length := by simp; omega
    rw [e] at hk ⊢
    rw [star_in hc, star_all cs k t (pos + 1) ht hk]
    cases h : k (pos + 1 + t.length) [] with
    | none => rw [h] at hk; cases hk
    | some x => rfl

/-- the final continuation of `re.match` -/
def k0 : K := fun stop rest caps => some ⟨stop, rest, caps⟩

/-- `\.(.+)` and the end of the pattern -/
def tailRe : Re := .seq (.set setDot) (.group 2 (.plus setAny))

/-- the outcome of `\.(.+)` at a split point -/
def tailOut (p : Nat) (caps : Caps) : Str → Option Match
  | '.' :: c :: r => some ⟨p + 1 + 1 + r.length, [], (2, c :: r) :: caps⟩
  | _ => none

theorem tailOut_not_dot (p : Nat) (caps : Caps) (d : Char) (t : Str) (hd : d ≠ '.') :
    tailOut p caps (d :: t) = none := by
  unfold tailOut
  split
  · rename_i heq; injection heq with h1 _; exact absurd h1 hd
  · rfl

/-- what `\.(.+)` does at a split point: a dot and at least one more character (none of them a newline) -/
theorem tail_eval (p : Nat) (t : Str) (caps : Caps) (hn : NoNl t) :
    m tailRe p t caps k0 = tailOut p caps t := by
  unfold tailRe
  rw [m_seq]
  cases t with
  | nil => rw [m_set_nil]; rfl
  | cons d t1 =>
    rw [m_set_cons, mem_dot]
    by_cases hd : d = '.'
    · subst hd
      simp only [decide_true, if_true]
      rw [m_group, Re.plus, m_seq]
      cases t1 with
      | nil => rw [m_set_nil]; rfl
      | cons c r =>
        have hc : c ≠ '\n' := hn c (by simp)
        have hr : ∀ x ∈ r, setAny.mem x = true := fun x hx => by
          rw [mem_any]; exact decide_eq_true (hn x (by simp [hx]))
        rw [m_set_cons, mem_any, decide_eq_true hc, if_pos rfl, m_star]
        rw [star_all setAny _ r (p + 1 + 1) hr (by simp [k0])]
        simp only [k0]
        have : (c :: r).take (p + 1 + 1 + r.length - (p + 1)) = c :: r := by
          apply List.take_of_length_le; simp; omega
        rw [this]; rfl
    · simp only [hd, decide_false, Bool.false_eq_true, if_false]
      rw [tailOut_not_dot _ _ _ _ hd]

/-- the two groups of a match -/
def proj (mt : Match) : Str × Str := (mt.str 1, mt.str 2)

/-- continuation of the `[^A-Z]*` inside group 1, whose text started at `s0` / `pos0` -/
def kG (pos0 : Nat) (s0 : Str) : Nat → Str → Option Match :=
  fun p s' => m tailRe p s' ((1, s0.take (p - pos0)) :: []) k0

theorem dot_not_up : cls '.' ≠ .up := by decide

/-- the candidate split the model records at a dot -/
def splitOut (pre : Str) : Str → Option (Str × Str)
  | '.' :: c :: r => some (pre, c :: r)
  | _ => none

theorem splitOut_not_dot (pre : Str) (d : Char) (t : Str) (hd : d ≠ '.') : splitOut pre (d :: t) = none := by
  unfold splitOut
  split
  · rename_i heq; injection heq with h1 _; exact absurd h1 hd
  · rfl

theorem kG_eval (pos0 : Nat) (pre t : Str) (hn : NoNl t) :
    (kG pos0 (pre ++ t) (pos0 + pre.length) t).map proj = splitOut pre t := by
  unfold kG
  rw [tail_eval _ _ _ hn]
  have ht : (pre ++ t).take (pos0 + pre.length - pos0) = pre := by
    rw [Nat.add_sub_cancel_left]; simp
  rw [ht]
  unfold tailOut splitOut
  split
  · simp [proj, Match.str, Match.group, List.lookup]
  · simp

/-- the greedy run with backtracking = the model's forward scan keeping the last candidate -/
theorem scan (pos0 : Nat) (s0 : Str) :
    ∀ (t pre : Str) (best : Option (Str × Str)), s0 = pre ++ t → pre ≠ [] → NoNl t →
      ((starSet setNotUp (kG pos0 s0) (pos0 + pre.length) t).map proj).or best = parseAux pre t best
  | [], pre, best, hs, _, hn => by
    have h := kG_eval pos0 pre [] hn
    rw [← hs] at h
    rw [star_nil, h]; simp [parseAux, splitOut]
  | c :: r, pre, best, hs, hp, hn => by
    have hnr : NoNl r := fun x hx => hn x (by simp [hx])
    have hk := kG_eval pos0 pre (c :: r) hn
    rw [← hs] at hk
    by_cases hu : cls c = .up
    · have hm : setNotUp.mem c = false := by rw [mem_notUp]; simp [hu]
      have hc : c ≠ '.' := fun h => dot_not_up (h ▸ hu)
      rw [star_out hm, hk, splitOut_not_dot _ _ _ hc]
      simp [parseAux, hu]
    · have hm : setNotUp.mem c = true := by rw [mem_notUp]; simp [hu]
      have hs' : s0 = (pre ++ [c]) ++ r := by rw [hs]; simp
      have ih := scan pos0 s0 r (pre ++ [c])
        (if c = '.' ∧ pre ≠ [] ∧ r ≠ [] then some (pre, r) else best) hs' (by simp) hnr
      have e : pos0 + (pre ++ [c]).length = pos0 + pre.length + 1 := by simp; omega
      rw [e] at ih
      rw [star_in hm]
      simp only [parseAux, hu, if_false]
      rw [← ih]
      cases hx : starSet setNotUp (kG pos0 s0) (pos0 + pre.length + 1) r with
      | some x => simp [Option.orElse]
      | none =>
        simp only [Option.orElse, Option.map_none, Option.none_or]
        rw [hk]
        by_cases hc : c = '.'
        · subst hc
          cases r with
          | nil => simp [splitOut]
          | cons c2 r2 => simp [splitOut, hp]
        · rw [splitOut_not_dot _ _ _ hc]
          simp [hc]

/-- group 1 and everything after it, attempted at `pos0` on `s0` -/
def attempt (pos0 : Nat) (s0 : Str) : Option Match :=
  m (.seq (.group 1 (.plus setNotUp)) tailRe) pos0 s0 [] k0

theorem attempt_eq (pos0 : Nat) (s0 : Str) (hn : NoNl s0) :
    (attempt pos0 s0).map proj = parseAux [] s0 none := by
  unfold attempt
  rw [m_seq, m_group, Re.plus, m_seq]
  cases s0 with
  | nil => rw [m_set_nil]; simp [parseAux]
  | cons c t =>
    rw [m_set_cons]
    by_cases hu : cls c = .up
    · have hm : setNotUp.mem c = false := by rw [mem_notUp]; simp [hu]
      simp [hm, parseAux, hu]
    · have hm : setNotUp.mem c = true := by rw [mem_notUp]; simp [hu]
      have hnt : NoNl t := fun x hx => hn x (by simp [hx])
      rw [if_pos hm, m_star]
      have h := scan pos0 (c :: t) t [c] none (by simp) (by simp) hnt
      simp only [List.length_singleton, Option.or_none] at h
      simp only [parseAux, hu, if_false, List.nil_append]
      have e : (if c = '.' ∧ ([] : Str) ≠ [] ∧ t ≠ [] then some (([] : Str), t) else none) = none := by simp
      rw [e, ← h]
      rfl

theorem pattern_eq : Src.parse_source_type_name.pattern =
    .seq .bol (.seq (.opt (.set setDot)) (.seq (.group 1 (.plus setNotUp)) tailRe)) := rfl

theorem m_bol (pos : Nat) (s : Str) (caps : Caps) (K : K) :
    m .bol pos s caps K = if pos = 0 then K pos s caps else none := by simp only [m]
theorem m_opt (a : Re) (pos : Nat) (s : Str) (caps : Caps) (K : K) :
    m (.opt a) pos s caps K = (m a pos s caps K).orElse fun _ => K pos s caps := by simp only [m]

/-- the attempt with the leading dot consumed -/
def firstTry {α : Type} (f : Str → Option α) : Str → Option α
  | '.' :: r => f r
  | _ => none

theorem firstTry_not_dot {α : Type} (f : Str → Option α) (c : Char) (t : Str) (hc : c ≠ '.') :
    firstTry f (c :: t) = none := by
  unfold firstTry
  split
  · rename_i r heq; injection heq with h1 _; exact absurd h1 hc
  · rfl

/-- `re.match` of the parsed pattern: the optional dot consumed first, then not -/
theorem reMatch_eq (s : Str) :
    reMatch Src.parse_source_type_name.pattern s =
      ((firstTry (attempt 1) s).orElse fun _ => attempt 0 s) := by
  have hk : (fun (stop : Nat) (rest : Str) (caps : Caps) =>
      if (false && stop == 0) = true then none else some (⟨stop, rest, caps⟩ : Match)) = k0 := by
    funext stop rest caps; simp [k0]
  unfold reMatch matchAt
  rw [hk, pattern_eq, m_seq, m_bol, if_pos rfl, m_seq, m_opt]
  cases s with
  | nil => rw [m_set_nil]; rfl
  | cons c t =>
    rw [m_set_cons, mem_dot]
    by_cases hc : c = '.'
    · subst hc; simp only [decide_true, if_true]; rfl
    · simp only [hc, decide_false, Bool.false_eq_true, if_false]
      rw [firstTry_not_dot _ _ _ hc]; rfl

/-- the model, in the shape of `reMatch_eq` -/
theorem model_eq (s : Str) :
    parseSourceTypeName s =
      match (firstTry (fun r => parseAux [] r none) s).orElse fun _ => parseAux [] s none with
      | some x => x
      | none => ([], lstripDots s) := by
  cases s with
  | nil => rfl
  | cons c t =>
    by_cases hc : c = '.'
    · subst hc
      show (match parseAux [] t none with
            | some x => x
            | none => match parseAux [] ('.' :: t) none with
              | some x => x
              | none => ([], lstripDots ('.' :: t))) = _
      simp only [firstTry]
      cases parseAux [] t none <;> rfl
    · rw [firstTry_not_dot _ _ _ hc]
      unfold parseSourceTypeName
      split
      · rename_i x heq
        injection heq with h1 _; exact absurd h1 hc
      · rfl

/-- `parse_source_type_name` as written is the model's `parseSourceTypeName`, on every name without a newline -/
theorem parse_source_type_name_eq (s : Str) (hn : NoNl s) :
    Src.parse_source_type_name s = parseSourceTypeName s := by
  rw [model_eq]
  unfold Src.parse_source_type_name
  rw [reMatch_eq, ← attempt_eq 0 s hn]
  have h1 : firstTry (fun r => parseAux [] r none) s = (firstTry (attempt 1) s).map proj := by
    cases s with
    | nil => rfl
    | cons c t =>
      by_cases hc : c = '.'
      · subst hc
        have hnt : NoNl t := fun x hx => hn x (by simp [hx])
        show parseAux [] t none = (attempt 1 t).map proj
        rw [attempt_eq 1 t hnt]
      · rw [firstTry_not_dot _ _ _ hc, firstTry_not_dot _ _ _ hc]; rfl
  rw [h1]
  cases firstTry (attempt 1) s with
  | some x => simp [Option.orElse, proj]
  | none =>
    cases attempt 0 s <;> simp [Option.orElse, proj, Py.lstripChar, lstripDots]

/-- with a newline in the name the source and the model differ: `(.+)` stops at the newline, the model does not.
    (Outside every domain C13 quantifies over: proto identifiers contain no newline.) -/
theorem newline_witness :
    Src.parse_source_type_name "a.b\nc".toList = ("a".toList, "b".toList) ∧
    parseSourceTypeName "a.b\nc".toList = ("a".toList, "b\nc".toList) := by
  constructor <;> decide

/-! ### the `unwrap` block of the model's `getTypeReference`, case by case -/

theorem gtr_wrapper (p s : Str) (pyd : Bool) (ty : Str) (hl : wrapperTable.lookup s = some ty) :
    getTypeReference p s true pyd = { ref := .builtin (optionalText ty), imp := .none } := by
  unfold getTypeReference
  rw [if_pos rfl, hl]

theorem gtr_duration (p : Str) (pyd : Bool) :
    getTypeReference p ".google.protobuf.Duration".toList true pyd
      = { ref := .builtin "timedelta".toList, imp := .none } := by
  have hl : wrapperTable.lookup ".google.protobuf.Duration".toList = none := by decide
  unfold getTypeReference
  rw [if_pos rfl, hl]
  simp

theorem gtr_timestamp (p : Str) (pyd : Bool) :
    getTypeReference p ".google.protobuf.Timestamp".toList true pyd
      = { ref := .builtin "datetime".toList, imp := .none } := by
  have hl : wrapperTable.lookup ".google.protobuf.Timestamp".toList = none := by decide
  have hne : ".google.protobuf.Timestamp".toList ≠ ".google.protobuf.Duration".toList := by decide
  unfold getTypeReference
  rw [if_pos rfl, hl]
  simp only [true_and, if_neg hne, if_true]

theorem gtr_other (p s : Str) (pyd : Bool) (hl : wrapperTable.lookup s = none)
    (h1 : s ≠ ".google.protobuf.Duration".toList) (h2 : s ≠ ".google.protobuf.Timestamp".toList) :
    getTypeReference p s true pyd = getTypeReference p s false pyd := by
  unfold getTypeReference
  simp only [↓reduceIte, hl, true_and, false_and, Bool.false_eq_true, if_neg h1, if_neg h2]

end Bp.SrcTieImpRe
