import BpProofs.Gen.SrcJson
import BpProofs.Presence
import BpProofs.Json
import BpProofs.JsonOneof
import BpProofs.JsonGuard
/-
  THE TIE BETWEEN THE TRANSLATED LOOP BODY OF `Message.to_dict` AND THE HAND-WRITTEN MODEL.

  `Bp.Src.to_dict_field` / `Bp.Src.dump_float` (BpProofs/Gen/SrcJson.lean) are regenerated from
  the Python AST of the body of the field loop of `Message.to_dict` / of `_dump_float` on every
  run.  The theorems below say that `_dump_float` as written is the model's `dumpFloat` (every
  value), and that, with `enc := toDict S E cs incl` (the recursive `to_dict` of the model), one
  iteration as written leaves the output dict as it is when the model's
  `toDictSlot S E cs incl f hid sel v` is `none`, and stores exactly the model's object under the
  model's key `jsonKey cs f.name` when it is `some j` — for every field descriptor, both
  casings, every flag combination (`incl`: include_default_values, `hid`: getattr raises
  AttributeError, `sel`: `_include_default_value_for_oneof`) and every raw slot value `v` inside
  the decidable guard `dynOkJ f v` (the value has the Python type the descriptor allows) — and,
  for a slot that reads as the field's default, the guard `DefaultOkJ` (see there).
-/
set_option linter.unusedSimpArgs false
set_option linter.unusedVariables false
namespace Bp.SrcTieJson
open Bp Bp.Py Gen

@[simp] theorem res_bind_ok {α β} (a : α) (f : α → Res β) : (Res.ok a).bind f = f a := rfl
@[simp] theorem res_bind_raise {α β} (e : PyErr) (f : α → Res β) : (Res.raise e : Res α).bind f = .raise e := rfl

/-- what one iteration does to the output dict with the model's answer for the field -/
def putJ (output : JDict) (k : JKey) : Option JVal → JDict
  | Option.none => output
  | some j => setItem output k j

@[simp] theorem putJ_none (o : JDict) (k : JKey) : putJ o k Option.none = o := rfl
@[simp] theorem putJ_some (o : JDict) (k : JKey) (j : JVal) : putJ o k (some j) = setItem o k j := rfl

/-- a key that is not in the dict yet is appended -/
theorem setItem_fresh (d : JDict) (k : JKey) (x : JVal) (h : k ∉ d.map (·.1)) : setItem d k x = d ++ [(k, x)] := by
  have : d.any (fun kv => kv.1 == k) = false := by
    rw [List.any_eq_false]
    intro kv hkv hc
    exact h (List.mem_map.mpr ⟨kv, hkv, by simpa using hc⟩)
  simp [setItem, this]

/-! ### `_dump_float` -/

/-- **`_dump_float` as written is the model's `dumpFloat`**, on every value -/
theorem dump_float_eq (v : Val) : Src.dump_float v = .ok (dumpFloat v) := by
  cases v <;> simp [Src.dump_float, eqInf, isFloat, isNan, dumpFloat, asIs, rawJ] <;>
    (rename_i b; repeat' split) <;> simp_all

theorem mapM_ok {α β : Type} (g : α → Res β) (h : α → β) (hg : ∀ x, g x = .ok (h x)) :
    ∀ xs : List α, Py.mapM g xs = .ok (xs.map h)
  | [] => rfl
  | x :: xs => by simp [Py.mapM, hg x, mapM_ok g h hg xs]

/-! ### the model's list / map-value recursions as maps -/

theorem toDict_msg (S : Schema) (E : Enums) (cs : KeyCase) (incl : Bool) (c : Nat) (sl : List Val) (ow : Bool)
    (unk : Bytes) (cur : List (Option Nat)) :
    toDict S E cs incl (.msg c sl ow unk cur) = mkObj (toDictKVs S E cs incl (fieldsOf S c) cur 0 sl) := by
  rw [toDict]

theorem toDict_nonmsg (S : Schema) (E : Enums) (cs : KeyCase) (incl : Bool) (v : Val) (h : isMsgVal v = false) :
    toDict S E cs incl v = .raw v := by
  cases v <;> first | (simp [isMsgVal] at h; done) | (rw [toDict]; intros; contradiction)

theorem toDictList_eq (S : Schema) (E : Enums) (cs : KeyCase) (incl : Bool) :
    ∀ xs : List Val, toDictList S E cs incl xs = xs.map (toDict S E cs incl)
  | [] => by rw [toDictList]; rfl
  | x :: xs => by
    rw [List.map_cons, ← toDictList_eq S E cs incl xs]
    cases x <;> first
      | (rw [toDictList, toDict_msg])
      | (rw [toDictList, toDict_nonmsg _ _ _ _ _ rfl]; all_goals (intros; contradiction))

/-- what `to_dict` does to one map value -/
def mapValJ (S : Schema) (E : Enums) (cs : KeyCase) (incl : Bool) (x : Val) : JVal :=
  if isMsgVal x then toDict S E cs incl x else rawJ x

theorem toDictMapVals_eq (S : Schema) (E : Enums) (cs : KeyCase) (incl : Bool) :
    ∀ vs : List Val, toDictMapVals S E cs incl vs = vs.map (mapValJ S E cs incl)
  | [] => by rw [toDictMapVals]; rfl
  | x :: xs => by
    rw [List.map_cons, ← toDictMapVals_eq S E cs incl xs]
    cases x <;> first
      | (rw [toDictMapVals]; simp [mapValJ, isMsgVal, toDict_msg]; done)
      | (rw [toDictMapVals]; · simp [mapValJ, isMsgVal]
         all_goals (intros; contradiction))

/-! ### the loop of the map branch: `for k in value: if hasattr(value[k], "to_dict"): output_map[k] = …` -/

theorem lookupKey_zip (k : JKey) : ∀ (ks vs : List Val),
    lookupKey k ks vs = ((ks.zip vs).find? (fun kv => keyJ kv.1 == k)).map (·.2)
  | [], vs => by simp [lookupKey]
  | _ :: _, [] => by simp [lookupKey]
  | k' :: ks, v :: vs => by
    simp only [lookupKey, List.zip_cons_cons, List.find?_cons]
    cases h : keyJ k' == k <;> simp [lookupKey_zip k ks vs]

theorem find_mid (k : JKey) (pre suf : List (Val × Val)) (kv : Val × Val) (hk : keyJ kv.1 = k)
    (hpre : k ∉ pre.map (fun p => keyJ p.1)) :
    (pre ++ kv :: suf).find? (fun p => keyJ p.1 == k) = some kv := by
  induction pre with
  | nil => simp [hk]
  | cons p pre ih =>
    simp only [List.map_cons, List.mem_cons, not_or] at hpre
    have : (keyJ p.1 == k) = false := by simpa using fun h => hpre.1 h.symm
    simp [List.find?_cons, this, ih hpre.2]

theorem map_id_of_notin (k : JKey) (x : JVal) (A : JDict) (h : k ∉ A.map (·.1)) :
    A.map (fun kv => if kv.1 == k then (kv.1, x) else kv) = A := by
  induction A with
  | nil => rfl
  | cons a A ih =>
    simp only [List.map_cons, List.mem_cons, not_or] at h
    have : (a.1 == k) = false := by simpa using fun e => h.1 e.symm
    rw [List.map_cons, ih h.2, this]; rfl

theorem setItem_mid (A B : JDict) (k : JKey) (x y : JVal) (hA : k ∉ A.map (·.1)) (hB : k ∉ B.map (·.1)) :
    setItem (A ++ (k, x) :: B) k y = A ++ (k, y) :: B := by
  have hany : (A ++ (k, x) :: B).any (fun kv => kv.1 == k) = true := by simp
  unfold setItem
  rw [if_pos hany, List.map_append, List.map_cons, map_id_of_notin k y A hA, map_id_of_notin k y B hB]
  simp

/-- the item `to_dict` stores for one entry of a map field, before / after the conversion loop -/
def rawItem (kv : Val × Val) : JKey × JVal := (keyJ kv.1, rawJ kv.2)
def convItem (S : Schema) (E : Enums) (cs : KeyCase) (incl : Bool) (kv : Val × Val) : JKey × JVal :=
  (keyJ kv.1, mapValJ S E cs incl kv.2)

theorem map_loop (S : Schema) (E : Enums) (cs : KeyCase) (incl : Bool) (ks vs : List Val)
    (hn : ((ks.zip vs).map fun p => keyJ p.1).Nodup) :
    ∀ (suf pre : List (Val × Val)), ks.zip vs = pre ++ suf →
      Src.to_dict_field.loop1 S E (toDict S E cs incl) cs incl (.dict ks vs) (suf.map (·.1))
        (pre.map (convItem S E cs incl) ++ suf.map rawItem)
      = .ok ((ks.zip vs).map (convItem S E cs incl))
  | [], pre, h => by simp [Src.to_dict_field.loop1, h]
  | kv :: suf, pre, h => by
    obtain ⟨k, v⟩ := kv
    rw [h, List.map_append, List.nodup_append] at hn
    obtain ⟨hnp, hns, hdis⟩ := hn
    have hkpre : keyJ k ∉ pre.map (fun p => keyJ p.1) := fun hm => hdis _ hm _ (by simp) rfl
    have hksuf : keyJ k ∉ suf.map (fun p => keyJ p.1) := by
      simp only [List.map_cons, List.nodup_cons] at hns; exact hns.1
    have hget : getItem (.dict ks vs) k = .ok v := by
      simp only [getItem, lookupKey_zip, h, find_mid (keyJ k) pre suf (k, v) rfl hkpre, Option.map_some]
    have hA : keyJ k ∉ (pre.map (convItem S E cs incl)).map (·.1) := by
      simpa [convItem, Function.comp_def] using hkpre
    have hB : keyJ k ∉ (suf.map rawItem).map (·.1) := by
      simpa [rawItem, Function.comp_def] using hksuf
    have ih := map_loop S E cs incl ks vs (by rw [h, List.map_append, List.nodup_append]; exact ⟨hnp, hns, hdis⟩)
      suf (pre ++ [(k, v)]) (by rw [h]; simp)
    simp only [List.map_cons, Src.to_dict_field.loop1, hget, res_bind_ok, hasToDict, callToDict, setItemV]
    by_cases hm : isMsgVal v = true
    · rw [if_pos hm]
      have : (rawItem (k, v)) = (keyJ k, rawJ v) := rfl
      rw [this, setItem_mid _ _ _ _ _ hA hB]
      simpa [convItem, mapValJ, hm] using ih
    · rw [if_neg hm]
      simpa [convItem, mapValJ, hm, rawItem] using ih

/-! ### the guard -/

/-- a leaf value in a REPEATED scalar field of type `t`: fine where `to_dict` does not iterate over the
    value — the types written as they are, and enum ("transparently upgrade single value to repeated";
    a bytes object is iterable, so it is iterated) -/
def repLeafOk (t : PType) (isByt : Bool) : Bool :=
  if isInt64 t then false else if t == .bytes then false else if t == .enum then !isByt
  else if t == .float || t == .double then false else true

/-- a leaf value (None, number, bool, str, bytes, datetime, timedelta) where the descriptor allows it:
    `msgOk` says whether it may sit in a message-typed field; in a repeated scalar field only where
    the source does not iterate (plain types; enum: "transparently upgrade single value") -/
def leafOkJ (f : FieldD) (msgOk isByt : Bool) : Bool :=
  if f.ty == .message then msgOk
  else f.ty != .map && (!f.repeated || repLeafOk f.ty isByt)

/-- The guard of the tie: the value has a Python type the descriptor allows.
    * a list only in a repeated (non-map) field, a dict only in a map field (keys and values in
      parallel, keys pairwise distinct — what a Python dict is), a Message instance only in a singular
      message field without wrapper;
    * a leaf: in a message-typed field a datetime / timedelta, a wrapped value (wrapper field), or
      None (singular); never in a map field; in a repeated scalar field only where `to_dict` does not
      iterate over it.
    Outside the guard the model answers with its "not modelled" leaf `raw v` where the source as
    written raises (AttributeError from `value._serialized_on_wire`, TypeError from iterating a
    number or from `{**value}`), or iterates over something that is not a list. -/
def dynOkJ (f : FieldD) : Val → Bool
  | .ph => true
  | .list _ => f.repeated && f.ty != .map
  | .dict ks vs => f.ty == .map && ks.length == vs.length && decide (((ks.zip vs).map fun p => keyJ p.1).Nodup)
  | .msg _ _ _ _ _ => f.ty == .message && f.wraps.isNone && !f.repeated
  | .ts _ => leafOkJ f true false
  | .dur _ => leafOkJ f true false
  | .none => leafOkJ f (f.wraps.isSome || !f.repeated) false
  | .byt _ => leafOkJ f f.wraps.isSome true
  | _ => leafOkJ f f.wraps.isSome false

/-! ### one iteration on an attribute value -/

theorem hint_rep (E : Enums) (f : FieldD) (h : f.repeated = true) : hintArg0 (fieldType E f) = .ok (enumOf E f) := by
  simp [fieldType, h, hintArg0]
theorem hint_opt (E : Enums) (f : FieldD) (h : f.optional = true) : hintArg0 (fieldType E f) = .ok (enumOf E f) := by
  simp [fieldType, h, hintArg0]
theorem hint_cls (E : Enums) (f : FieldD) (hr : f.repeated = false) (ho : f.optional = false) :
    hintClass (fieldType E f) = .ok (enumOf E f) := by
  simp [fieldType, hr, ho, hintClass]

macro "src_unfold" : tactic => `(tactic| simp only [Src.to_dict_field, defaultIsList, casedName, metaProtoType,
    metaOptional, metaWraps, clsByField, isDatetime, isTimedelta, isNone, neDatetimeZero, neTimedeltaZero,
    timestampToJson, deltaToJson, asIs, arrJ, objJ, callToDict, strOf, b64Of, dumpEnumOf, serializedOnWire,
    eqFieldDefault, iterItems, dictUnpack, isIterable, isStr, res_bind_ok, res_bind_raise, toDictPlain,
    Bool.false_eq_true, if_false, if_true, dump_float_eq])

/- closes a branch: everything known is used, a remaining `if` on a flag is split -/
macro "fin" : tactic => `(tactic| (
  simp_all [repLeafOk, isInt64, hint_rep, hint_opt, hint_cls]
  all_goals (split <;> simp [rawJ, b64J, tsJ, durJ])))

/- the scalar branch on a leaf value, after both sides are unfolded (`f`, `hok` from the context) -/
set_option hygiene false in
macro "leaf_scalar" : tactic => `(tactic| (
  unfold encScalar isInt64
  by_cases h64 : int64Types.contains f.ty = true
  · by_cases hr : f.repeated = true <;> fin
  · by_cases hb : (f.ty == PType.bytes) = true
    · by_cases hr : f.repeated = true <;> fin
    · by_cases he : (f.ty == PType.enum) = true
      · by_cases hr : f.repeated = true
        · fin
        · by_cases ho : f.optional = true <;> fin
      · by_cases hf : (f.ty == PType.float || f.ty == PType.double) = true
        · by_cases hr : f.repeated = true <;> fin
        · fin))

/- a leaf value: both sides unfolded, then the three branches (`f`, `hok` from the context) -/
set_option hygiene false in
macro "leaf_case" : tactic => `(tactic| (
  rw [toDictSlot_leaf _ _ _ _ _ _ _ _ rfl]
  simp only [dynOkJ, leafOkJ] at hok
  src_unfold
  by_cases hm : (f.ty == PType.message) = true
  · by_cases hw : f.wraps.isSome = true <;> by_cases hr : f.repeated = true <;> fin
  · by_cases hmap : (f.ty == PType.map) = true
    · fin
    · simp only [hm, hmap, if_false, Bool.false_eq_true] at hok ⊢
      split
      · leaf_scalar
      · rfl
))

theorem field_leaf (S : Schema) (E : Enums) (cs : KeyCase) (incl : Bool) (f : FieldD) (sel : Bool) (v : Val) (out : JDict)
    (hl : isLeafVal v = true) (hok : dynOkJ f v = true) :
    Src.to_dict_field S E (toDict S E cs incl) cs incl f (.value v) sel out
      = .ok (putJ out (jsonKey cs f.name) (toDictSlot S E cs incl f false sel v)) := by
  cases v with
  | ph => simp [isLeafVal] at hl
  | list xs => simp [isLeafVal] at hl
  | dict ks vs => simp [isLeafVal] at hl
  | msg c sl ow unk cur => simp [isLeafVal] at hl
  | int i => leaf_case
  | none => leaf_case
  | bool b => leaf_case
  | f32 b => leaf_case
  | f64 b => leaf_case
  | str s => leaf_case
  | byt b => leaf_case
  | ts us => leaf_case
  | dur us => leaf_case

theorem mapM_pure {α β : Type} (h : α → β) (xs : List α) : Py.mapM (fun x => Res.ok (h x)) xs = .ok (xs.map h) :=
  mapM_ok _ h (fun _ => rfl) xs

theorem ite_put (c : Bool) (o : JDict) (k : JKey) (j : JVal) :
    (if c = true then Res.ok (setItem o k j) else Res.ok o) = Res.ok (putJ o k (if c = true then some j else Option.none)) := by
  cases c <;> rfl

/-- the three item conversions of a repeated message-typed field -/
theorem rep_items (enc : Val → JVal) (k : MsgKind) (xs : List Val) (incl : Bool) (o : JDict) (key : JKey) :
    (if clsIsDatetime k = true then
        if (!(List.map (fun i => tsJ i) xs).isEmpty || incl) = true then
          Res.ok (setItem o key (JVal.arr (List.map (fun i => tsJ i) xs)))
        else Res.ok o
      else
        if clsIsTimedelta k = true then
          if (!(List.map (fun i => durJ i) xs).isEmpty || incl) = true then
            Res.ok (setItem o key (JVal.arr (List.map (fun i => durJ i) xs)))
          else Res.ok o
        else
          if (!(List.map (fun i => enc i) xs).isEmpty || incl) = true then
            Res.ok (setItem o key (JVal.arr (List.map (fun i => enc i) xs)))
          else Res.ok o) =
      Res.ok
        (putJ o key
          (if (!(match k with
                      | MsgKind.timestamp => List.map tsJ xs
                      | MsgKind.duration => List.map durJ xs
                      | MsgKind.user _ => List.map enc xs).isEmpty || incl) = true then
            some (JVal.arr (match k with
                | MsgKind.timestamp => List.map tsJ xs
                | MsgKind.duration => List.map durJ xs
                | MsgKind.user _ => List.map enc xs))
          else Option.none)) := by
  cases k <;> simp only [clsIsDatetime, clsIsTimedelta, if_true, if_false, Bool.false_eq_true] <;> exact ite_put _ _ _ _

theorem field_list (S : Schema) (E : Enums) (cs : KeyCase) (incl : Bool) (f : FieldD) (sel : Bool) (xs : List Val)
    (out : JDict) (hok : dynOkJ f (.list xs) = true) :
    Src.to_dict_field S E (toDict S E cs incl) cs incl f (.value (.list xs)) sel out
      = .ok (putJ out (jsonKey cs f.name) (toDictSlot S E cs incl f false sel (.list xs))) := by
  rw [toDictSlot]
  simp only [dynOkJ, Bool.and_eq_true, bne_iff_ne, ne_eq, beq_iff_eq] at hok
  obtain ⟨hr, hmap⟩ := hok
  have hmap' : (f.ty == PType.map) = false := by simpa using hmap
  src_unfold
  simp only [hr, hmap', if_true, if_false, Bool.false_eq_true, mapM_pure, res_bind_ok, Bool.not_true, Bool.and_true,
    Bool.true_and, Bool.not_false, toDictList_eq]
  by_cases hm : (f.ty == PType.message) = true
  · by_cases hw : f.wraps.isSome = true
    · fin
    · simp only [hm, hw, if_true, if_false, Bool.false_eq_true]
      exact rep_items (toDict S E cs incl) f.kind xs incl out _
  · simp only [hm, if_false, Bool.false_eq_true]
    split
    · unfold isInt64
      by_cases h64 : int64Types.contains f.ty = true
      · fin
      · by_cases hb : (f.ty == PType.bytes) = true
        · fin
        · by_cases he : (f.ty == PType.enum) = true
          · fin
          · by_cases hf : (f.ty == PType.float || f.ty == PType.double) = true <;> fin
    · rfl

theorem field_msg (S : Schema) (E : Enums) (cs : KeyCase) (incl : Bool) (f : FieldD) (sel : Bool) (c : Nat)
    (sl : List Val) (ow : Bool) (unk : Bytes) (cur : List (Option Nat)) (out : JDict)
    (hok : dynOkJ f (.msg c sl ow unk cur) = true) :
    Src.to_dict_field S E (toDict S E cs incl) cs incl f (.value (.msg c sl ow unk cur)) sel out
      = .ok (putJ out (jsonKey cs f.name) (toDictSlot S E cs incl f false sel (.msg c sl ow unk cur))) := by
  rw [toDictSlot]
  have hok' : (f.ty == PType.message && f.wraps.isNone && !f.repeated) = true := hok
  simp only [dynOkJ, Bool.and_eq_true, Bool.not_eq_true', beq_iff_eq] at hok
  obtain ⟨⟨hm, hw⟩, hr⟩ := hok
  have hw' : f.wraps.isSome = false := by cases h : f.wraps <;> simp_all
  src_unfold
  simp only [hok', hm, hw', hr, beq_self_eq_true, if_true, if_false, Bool.false_eq_true, toDict_msg]
  cases ow <;> cases incl <;> cases ho : f.optional <;> cases sel <;>
    simp [ite_put] <;> split <;> simp_all

theorem zip_fst (ks vs : List Val) (h : ks.length = vs.length) : (ks.zip vs).map (·.1) = ks :=
  List.map_fst_zip (by omega)

theorem zip_conv (S : Schema) (E : Enums) (cs : KeyCase) (incl : Bool) (ks vs : List Val) (h : ks.length = vs.length) :
    mkObj ((ks.zip vs).map (convItem S E cs incl)) = .obj (ks.map keyJ) (toDictMapVals S E cs incl vs) := by
  have h1 : ((ks.zip vs).map (convItem S E cs incl)).map (·.1) = ks.map keyJ := by
    rw [List.map_map, ← zip_fst ks vs h, List.map_map]; simp [convItem, Function.comp_def, zip_fst ks vs h]
  have h2 : ((ks.zip vs).map (convItem S E cs incl)).map (·.2) = vs.map (mapValJ S E cs incl) := by
    have : (ks.zip vs).map (·.2) = vs := List.map_snd_zip (by omega)
    rw [List.map_map]; conv => rhs; rw [← this, List.map_map]
    rfl
  rw [mkObj, h1, h2, toDictMapVals_eq]

theorem field_dict (S : Schema) (E : Enums) (cs : KeyCase) (incl : Bool) (f : FieldD) (sel : Bool) (ks vs : List Val)
    (out : JDict) (hok : dynOkJ f (.dict ks vs) = true) :
    Src.to_dict_field S E (toDict S E cs incl) cs incl f (.value (.dict ks vs)) sel out
      = .ok (putJ out (jsonKey cs f.name) (toDictSlot S E cs incl f false sel (.dict ks vs))) := by
  rw [toDictSlot]
  simp only [dynOkJ, Bool.and_eq_true, beq_iff_eq, decide_eq_true_eq] at hok
  obtain ⟨⟨hmap, hlen⟩, hn⟩ := hok
  have hlen' : ks.length = vs.length := by simpa using hlen
  have hm : (f.ty == PType.message) = false := by rw [hmap]; rfl
  have hmap' : (f.ty == PType.map) = true := by rw [hmap]; rfl
  have hl := map_loop S E cs incl ks vs hn (ks.zip vs) [] rfl
  simp only [List.map_nil, List.nil_append, zip_fst ks vs hlen'] at hl
  have hraw : (ks.zip vs).map (fun kv => (keyJ kv.1, rawJ kv.2)) = (ks.zip vs).map rawItem := rfl
  src_unfold
  simp only [hm, hmap', if_true, if_false, Bool.false_eq_true, hraw, hl, res_bind_ok, truthyVal,
    zip_conv S E cs incl ks vs hlen']
  exact ite_put _ _ _ _

/-- **one iteration on an attribute VALUE** (anything `getattr` can return: never PLACEHOLDER) -/
theorem field_value (S : Schema) (E : Enums) (cs : KeyCase) (incl : Bool) (f : FieldD) (sel : Bool) (v : Val) (out : JDict)
    (hph : v ≠ .ph) (hok : dynOkJ f v = true) :
    Src.to_dict_field S E (toDict S E cs incl) cs incl f (.value v) sel out
      = .ok (putJ out (jsonKey cs f.name) (toDictSlot S E cs incl f false sel v)) := by
  cases v with
  | ph => exact absurd rfl hph
  | list xs => exact field_list S E cs incl f sel xs out hok
  | dict ks vs => exact field_dict S E cs incl f sel ks vs out hok
  | msg c sl ow unk cur => exact field_msg S E cs incl f sel c sl ow unk cur out hok
  | _ => exact field_leaf S E cs incl f sel _ out rfl hok

theorem default_ne_ph (S : Schema) (f : FieldD) : defaultOf S f ≠ .ph := by
  unfold defaultOf
  cases f.defKind <;> simp [defaultOfKind, fresh]

/-! ### a slot that reads as the field's default (AttributeError of an unselected oneof member, PLACEHOLDER) -/

/-- The guard for a slot that reads as the default.  The source goes on with
    `self._get_field_default(field_name)` exactly as with any other value; the model has a separate
    function `toDictDefault`, which differs from that in two places, both excluded here:
    * `repeated` on a map field (no such descriptor exists): `{**[]}` is a TypeError, the model says `raw`;
    * the default of a plain singular sub-message field is a fresh instance: with
      `include_default_values=True` the source expands ITS defaults recursively, the model does not
      ("not modelled", `raw ph`) — so `incl = false` is required there, and that the fresh instance
      compares equal to the default and has an empty dict (both follow from the schema guards:
      `defaultOkJ_of_schema`). -/
def DefaultOkJ (S : Schema) (E : Enums) (cs : KeyCase) (incl : Bool) (f : FieldD) : Prop :=
  (f.repeated && f.ty == .map) = false ∧
  ∀ c, f.defKind = .msg c →
    incl = false ∧ eqDefault S (.msg c) (fresh S c) = true ∧ toDict S E cs false (fresh S c) = .obj [] []

theorem defKind_cases (f : FieldD) :
    (f.repeated = true ∧ f.defKind = .list) ∨
    (f.repeated = false ∧ f.ty = .map ∧ f.defKind = .dict) ∨
    (f.repeated = false ∧ f.ty ≠ .map ∧ (f.optional || f.wraps.isSome) = true ∧ f.defKind = .none) ∨
    (f.repeated = false ∧ f.ty = .message ∧ f.optional = false ∧ f.wraps = Option.none ∧ f.defKind = msgKindDef f.kind) ∨
    (f.repeated = false ∧ f.ty ≠ .map ∧ f.ty ≠ .message ∧ f.optional = false ∧ f.wraps = Option.none
      ∧ f.defKind = scalarDef f.ty) := by
  unfold FieldD.defKind
  by_cases hr : f.repeated = true
  · left; simp [hr]
  · right
    have hr' : f.repeated = false := by simpa using hr
    by_cases hm : (f.ty == PType.map) = true
    · left; simp_all
    · right
      have hm' : f.ty ≠ .map := by simpa using hm
      by_cases ho : (f.optional || f.wraps.isSome) = true
      · left; simp_all
      · right
        have ho1 : f.optional = false := by cases h : f.optional <;> simp_all
        have hw1 : f.wraps = Option.none := by cases h : f.wraps <;> simp_all
        by_cases hmsg : (f.ty == PType.message) = true
        · left; simp_all
        · right; simp_all

theorem dynOkJ_default (S : Schema) (f : FieldD) (h : (f.repeated && f.ty == .map) = false) :
    dynOkJ f (defaultOf S f) = true := by
  unfold defaultOf
  rcases defKind_cases f with ⟨hr, hk⟩ | ⟨hr, ht, hk⟩ | ⟨hr, ht, ho, hk⟩ | ⟨hr, ht, ho, hw, hk⟩ | ⟨hr, ht, htm, ho, hw, hk⟩
  · rw [hk]; simp_all [defaultOfKind, dynOkJ]
  · rw [hk]; simp_all [defaultOfKind, dynOkJ]
  · rw [hk]; simp_all [defaultOfKind, dynOkJ, leafOkJ]
  · rw [hk]; cases hkind : f.kind <;> simp_all [msgKindDef, defaultOfKind, dynOkJ, leafOkJ, fresh]
  · rw [hk]; cases hty : f.ty <;> simp_all [scalarDef, defaultOfKind, dynOkJ, leafOkJ]

theorem rawJ_nil : rawJ (.list []) = .arr [] := by rw [rawJ, rawJList]

/-- inside `DefaultOkJ`, the model's separate default function is its general one on the default value -/
theorem toDictSlot_default (S : Schema) (E : Enums) (cs : KeyCase) (incl : Bool) (f : FieldD) (sel : Bool)
    (hd : DefaultOkJ S E cs incl f) :
    toDictSlot S E cs incl f false sel (defaultOf S f) = toDictDefault S E f sel incl := by
  obtain ⟨hrm, hmsg⟩ := hd
  unfold defaultOf toDictDefault
  rcases defKind_cases f with ⟨hr, hk⟩ | ⟨hr, ht, hk⟩ | ⟨hr, ht, ho, hk⟩ | ⟨hr, ht, ho, hw, hk⟩ | ⟨hr, ht, htm, ho, hw, hk⟩
  · rw [hk]
    simp only [defaultOfKind]
    rw [toDictSlot]
    have hmap : (f.ty == PType.map) = false := by simpa [hr] using hrm
    simp only [hr, hmap, hk, Bool.false_eq_true, if_false, if_true, rawJ_nil, eqDefault, List.isEmpty_nil, Bool.not_true,
      Bool.false_or, Bool.and_true, beq_self_eq_true, Bool.not_false, Bool.true_and, List.map_nil]
    by_cases hm : (f.ty == PType.message) = true
    · simp only [hm, if_true]
      by_cases hw : f.wraps.isSome = true
      · simp [hw]
      · have : toDictList S E cs incl [] = [] := by rw [toDictList]
        cases hkind : f.kind <;> simp [hw, this]
    · simp only [hm, if_false, Bool.false_eq_true]
      split <;> simp
  · rw [hk]
    simp only [defaultOfKind]
    rw [toDictSlot]
    have : toDictMapVals S E cs incl [] = [] := by rw [toDictMapVals]
    simp [ht, this]
  · rw [hk]
    simp only [defaultOfKind]
    rw [toDictSlot_leaf _ _ _ _ _ _ _ _ rfl]; rfl
  · rw [hk]
    cases hkind : f.kind with
    | timestamp => simp only [msgKindDef, defaultOfKind]; rw [toDictSlot_leaf _ _ _ _ _ _ _ _ rfl]; rfl
    | duration => simp only [msgKindDef, defaultOfKind]; rw [toDictSlot_leaf _ _ _ _ _ _ _ _ rfl]; rfl
    | user c =>
      obtain ⟨hi, he, hf⟩ := hmsg c (by rw [hk, hkind]; rfl)
      subst hi
      simp only [msgKindDef, defaultOfKind]
      have hfr : fresh S c = .msg c ((fieldsOf S c).map fun f => if f.optional then Val.none else Val.ph)
          false [] (List.replicate (groupsOf S c) Option.none) := rfl
      have he' := he
      rw [hfr] at he' hf ⊢
      rw [toDictSlot]
      rw [toDict_msg] at hf
      simp only [ht, hw, hr, ho, hk, hkind, msgKindDef, he', hf, beq_self_eq_true, Option.isNone_none, Bool.not_false,
        Bool.and_self, if_true, Bool.false_eq_true, if_false, Bool.false_or, Bool.not_true, Bool.or_false]
  · rw [hk]
    cases hty : f.ty <;> simp only [scalarDef, defaultOfKind] <;>
      first
      | exact absurd hty ht
      | exact absurd hty htm
      | (rw [toDictSlot_leaf _ _ _ _ _ _ _ _ rfl]; rfl)

theorem toDictSlot_hid (S : Schema) (E : Enums) (cs : KeyCase) (incl : Bool) (f : FieldD) (sel : Bool) (v : Val) :
    toDictSlot S E cs incl f true sel v = toDictDefault S E f sel incl := by
  cases v <;> first
    | (rw [toDictSlot_leaf _ _ _ _ _ _ _ _ rfl]; rfl)
    | (rw [toDictSlot]; try rfl)

/-- `hid` or PLACEHOLDER: the slot reads as the field's default -/
def readsDefault (hid : Bool) : Val → Bool
  | .ph => true
  | _ => hid

theorem getattr_default (S : Schema) (f : FieldD) (hid : Bool) (v : Val) (h : readsDefault hid v = true) :
    (match getattrField S f hid v with
      | Got.attrError => getFieldDefault S f
      | Got.value v => v) = defaultOf S f := by
  cases hid with
  | true => rfl
  | false => cases v <;> first | rfl | simp [readsDefault] at h

/-- the translated body only looks at `got` through the value it binds -/
theorem field_got (S : Schema) (E : Enums) (enc : Val → JVal) (cs : KeyCase) (incl : Bool) (f : FieldD) (g : Got)
    (sel : Bool) (out : JDict) :
    Src.to_dict_field S E enc cs incl f g sel out
      = Src.to_dict_field S E enc cs incl f
          (.value (match g with | Got.attrError => getFieldDefault S f | Got.value v => v)) sel out := by
  cases g <;> rfl

/-- **`Src.to_dict_field` is `toDictSlot`**: one iteration of the field loop of `Message.to_dict` as
    written, run on the outcome of `getattr` for the raw slot `v`, leaves the output dict as it is when
    the model's `toDictSlot S E cs incl f hid sel v` is `none` and stores the model's object under the
    model's key when it is `some j`; it never raises inside the guards -/
theorem to_dict_field_eq (S : Schema) (E : Enums) (cs : KeyCase) (incl : Bool) (f : FieldD) (hid sel : Bool) (v : Val)
    (out : JDict) (hok : readsDefault hid v = false → dynOkJ f v = true)
    (hd : readsDefault hid v = true → DefaultOkJ S E cs incl f) :
    Src.to_dict_field S E (toDict S E cs incl) cs incl f (getattrField S f hid v) sel out
      = .ok (putJ out (jsonKey cs f.name) (toDictSlot S E cs incl f hid sel v)) := by
  by_cases h : readsDefault hid v = true
  · have hD := hd h
    rw [field_got, getattr_default S f hid v h,
      field_value S E cs incl f sel _ out (Bp.SrcTieJson.default_ne_ph S f) (dynOkJ_default S f hD.1),
      toDictSlot_default S E cs incl f sel hD]
    congr 2
    cases hid with
    | true => exact (toDictSlot_hid S E cs incl f sel v).symm
    | false =>
      cases v <;> first | (simp [readsDefault] at h; done) | (rw [toDictSlot_ph])
  · have hh : hid = false := by cases hid <;> first | rfl | (cases v <;> simp [readsDefault] at h)
    have hph : v ≠ .ph := by intro e; subst e; simp [readsDefault] at h
    subst hh
    have hg : getattrField S f false v = .value v := by cases v <;> first | rfl | exact absurd rfl hph
    rw [hg]
    exact field_value S E cs incl f sel v out hph (hok (by simpa using h))

/-- the same with the entry appended at the end, for a key that is not in the dict yet -/
theorem to_dict_field_appends (S : Schema) (E : Enums) (cs : KeyCase) (incl : Bool) (f : FieldD) (hid sel : Bool) (v : Val)
    (out : JDict) (hok : readsDefault hid v = false → dynOkJ f v = true)
    (hd : readsDefault hid v = true → DefaultOkJ S E cs incl f) (hkey : jsonKey cs f.name ∉ out.map (·.1)) :
    Src.to_dict_field S E (toDict S E cs incl) cs incl f (getattrField S f hid v) sel out
      = .ok (out ++ (toDictSlot S E cs incl f hid sel v).toList.map fun j => (jsonKey cs f.name, j)) := by
  rw [to_dict_field_eq S E cs incl f hid sel v out hok hd]
  cases toDictSlot S E cs incl f hid sel v with
  | none => simp
  | some j => simp [setItem_fresh out _ j hkey]

/-! ### the default guard follows from the schema guards of C04 -/

theorem selected_none (f : FieldD) (idx n : Nat) : selectedInGroup f idx (List.replicate n Option.none) = false := by
  unfold selectedInGroup
  cases f.group with
  | none => rfl
  | some g =>
    simp only [List.getD_eq_getElem?_getD]
    by_cases h : g < n
    · simp [List.getElem?_replicate, h]
    · simp [List.getElem?_replicate, h]

/-- an unset slot of a fresh instance writes nothing (`fieldJsonOk`: no repeated wrapper, no
    repeated / optional map, no repeated optional) -/
theorem fresh_slot_none (S : Schema) (E : Enums) (cs : KeyCase) (f : FieldD) (hj : fieldJsonOk f = true) (hid : Bool) :
    toDictSlot S E cs false f hid false (if f.optional then Val.none else Val.ph) = Option.none := by
  have hdef : toDictDefault S E f false false = Option.none := by
    by_cases hr : f.repeated = false
    · exact toDictDefault_unselected S E f hr
    · have hr' : f.repeated = true := by simpa using hr
      have hk : f.defKind = .list := by simp [FieldD.defKind, hr']
      unfold toDictDefault
      rw [hk]
      unfold fieldJsonOk at hj
      by_cases hm : (f.ty == PType.message) = true
      · cases hw : f.wraps <;> simp_all
      · by_cases hmap : (f.ty == PType.map) = true <;> simp_all
  by_cases ho : f.optional = true
  · rw [if_pos ho, toDictSlot_leaf _ _ _ _ _ _ _ _ rfl]
    cases hid with
    | true => simpa using hdef
    | false =>
      simp only [Bool.false_eq_true, if_false]
      unfold fieldJsonOk at hj
      have hr : f.repeated = false := by cases h : f.repeated <;> simp_all
      have hk : f.defKind = .none := by
        unfold FieldD.defKind
        by_cases hmap : (f.ty == PType.map) = true <;> simp_all
      unfold toDictPlain
      rw [hk]
      by_cases hm : (f.ty == PType.message) = true
      · cases hw : f.wraps <;> simp_all
      · by_cases hmap : (f.ty == PType.map) = true <;> simp_all [eqDefault]
  · rw [if_neg ho, toDictSlot_ph]; exact hdef

theorem fresh_kvs (S : Schema) (E : Enums) (cs : KeyCase) (n : Nat) (fs : List FieldD)
    (hj : ∀ f ∈ fs, fieldJsonOk f = true) :
    ∀ (suf pre : List FieldD), fs = pre ++ suf →
      toDictKVs S E cs false fs (List.replicate n Option.none) pre.length
        (suf.map fun f => if f.optional then Val.none else Val.ph) = []
  | [], pre, _ => by rw [List.map_nil, toDictKVs]
  | f :: suf, pre, h => by
    have hf : fs[pre.length]? = some f := by rw [h]; simp
    rw [List.map_cons, toDictKVs, hf]
    simp only [selected_none, fresh_slot_none S E cs f (hj f (by rw [h]; simp))]
    have := fresh_kvs S E cs n fs hj suf (pre ++ [f]) (by rw [h]; simp)
    simpa using this

/-- **a fresh instance has the empty dict** (without `include_default_values`) -/
theorem toDict_fresh (S : Schema) (E : Enums) (cs : KeyCase) (c : Nat)
    (hj : ∀ f ∈ fieldsOf S c, fieldJsonOk f = true) : toDict S E cs false (fresh S c) = .obj [] [] := by
  unfold fresh
  rw [toDict_msg]
  have := fresh_kvs S E cs (groupsOf S c) (fieldsOf S c) hj (fieldsOf S c) [] rfl
  simp only [List.length_nil] at this
  rw [this]; rfl

/-- the per-class part of `jsonOk` -/
def SchemaJsonOk (S : Schema) : Prop := ∀ c, ∀ f ∈ fieldsOf S c, fieldJsonOk f = true

theorem schemaJsonOk_of_jsonOk (S : Schema) (E : Enums) (cs : KeyCase) (h : jsonOk S E cs = true) : SchemaJsonOk S := by
  intro c f hf
  unfold jsonOk at h
  simp only [Bool.and_eq_true, List.all_eq_true] at h
  unfold fieldsOf at hf
  cases hc : S[c]? with
  | none => simp [hc] at hf
  | some d =>
    simp only [hc] at hf
    exact (h.1 d (List.mem_of_getElem? hc)).1 f hf

theorem wfSchemaOpt_of (S : Schema) (h : SchemaJsonOk S) : WfSchemaOpt S := by
  intro c f hf ho
  have hj := h c f hf
  unfold fieldJsonOk at hj
  constructor
  · cases hr : f.repeated <;> simp_all
  · intro hm; simp_all

/-- `DefaultOkJ` holds for every field that passes `fieldJsonOk`, in a schema that passes it, when
    default values are not asked for -/
theorem defaultOkJ_of_schema (S : Schema) (E : Enums) (cs : KeyCase) (f : FieldD) (hS : SchemaJsonOk S)
    (hf : fieldJsonOk f = true) : DefaultOkJ S E cs false f := by
  refine ⟨?_, fun c _ => ⟨rfl, eqDefault_fresh S c (wfSchemaOpt_of S hS), toDict_fresh S E cs c (hS c)⟩⟩
  unfold fieldJsonOk at hf
  by_cases hm : (f.ty == PType.map) = true
  · cases hr : f.repeated <;> simp_all
  · simp_all

/-! ### the value guard follows from the typing judgement of C04 / C05 -/

/-- the keys of a dict value are pairwise distinct (what a Python dict is; the typing judgement of
    the model does not say it) -/
def keysDistinct : Val → Bool
  | .dict ks vs => decide (((ks.zip vs).map fun p => keyJ p.1).Nodup)
  | _ => true

/-- a leaf that is neither None nor a datetime / timedelta is typed in a message field only through a wrapper -/
def plainLeaf : Val → Bool
  | .int _ | .bool _ | .f32 _ | .f64 _ | .str _ | .byt _ => true
  | _ => false

theorem leafOk_wraps (f : FieldD) (v : Val) (h : leafOk f v = true ∧ (f.ty == PType.message) = true)
    (hp : plainLeaf v = true) : f.wraps.isSome = true := by
  obtain ⟨h, hm⟩ := h
  unfold leafOk at h
  rw [if_pos hm] at h
  cases hw : f.wraps with
  | some w => rfl
  | none =>
    rw [hw] at h
    cases hk : f.kind <;> cases v <;> simp_all [plainLeaf]

theorem leaf_guard (S : Schema) (f : FieldD) (hid sel : Bool) (v : Val) (hl : isLeafVal v = true) (hn : v ≠ .none)
    (ht : slotOk' S f hid sel v = true)
    (msgOk : Bool) (isByt : Bool) (hmsg : (leafOk f v = true ∧ (f.ty == PType.message) = true) → msgOk = true)
    : leafOkJ f msgOk isByt = true := by
  have h2 : (!hid && !f.repeated && leafOk f v) = true := by
    cases v <;> first
      | (simp [isLeafVal] at hl; done)
      | (exact absurd rfl hn)
      | (rw [slotOk'] at ht; · exact ht
         all_goals (intros; contradiction))
  simp only [Bool.and_eq_true, Bool.not_eq_true'] at h2
  obtain ⟨⟨_, hr⟩, hlf⟩ := h2
  unfold leafOkJ
  by_cases hm : (f.ty == PType.message) = true
  · rw [if_pos hm]; exact hmsg ⟨hlf, hm⟩
  · rw [if_neg hm]
    unfold leafOk at hlf
    rw [if_neg hm] at hlf
    simp only [Bool.and_eq_true] at hlf
    simp [hlf.1, hr]

/-- `slotOk'` (the slot typing of C04's `wellTyped'`) implies the guard of the tie -/
theorem dynOkJ_of_slotOk' (S : Schema) (f : FieldD) (hid sel : Bool) (v : Val)
    (ht : slotOk' S f hid sel v = true) (hk : keysDistinct v = true) : dynOkJ f v = true := by
  cases v with
  | ph => rfl
  | list xs =>
    rw [slotOk'] at ht
    simp only [Bool.and_eq_true] at ht
    simp only [dynOkJ, Bool.and_eq_true]
    exact ⟨ht.1.1.2, ht.1.2⟩
  | dict ks vs =>
    rw [slotOk'] at ht
    simp only [Bool.and_eq_true] at ht
    simp only [dynOkJ, Bool.and_eq_true]
    exact ⟨⟨ht.1.1.1.2, ht.1.1.2⟩, hk⟩
  | msg c sl ow unk cur =>
    rw [slotOk'] at ht
    simp only [Bool.and_eq_true] at ht
    simp only [dynOkJ, Bool.and_eq_true]
    obtain ⟨⟨⟨⟨⟨⟨⟨⟨_, h1⟩, h2⟩, h3⟩, _⟩, _⟩, _⟩, _⟩, _⟩ := ht
    exact ⟨⟨h1, h2⟩, h3⟩
  | none =>
    rw [slotOk'] at ht
    simp only [Bool.and_eq_true] at ht
    simp only [dynOkJ, leafOkJ]
    by_cases hm : (f.ty == PType.message) = true <;> simp_all
  | ts us => exact leaf_guard S f hid sel _ rfl (by simp) ht _ _ (fun _ => rfl)
  | dur us => exact leaf_guard S f hid sel _ rfl (by simp) ht _ _ (fun _ => rfl)
  | int i => exact leaf_guard S f hid sel _ rfl (by simp) ht _ _ (fun h => leafOk_wraps f _ h rfl)
  | bool b => exact leaf_guard S f hid sel _ rfl (by simp) ht _ _ (fun h => leafOk_wraps f _ h rfl)
  | f32 b => exact leaf_guard S f hid sel _ rfl (by simp) ht _ _ (fun h => leafOk_wraps f _ h rfl)
  | f64 b => exact leaf_guard S f hid sel _ rfl (by simp) ht _ _ (fun h => leafOk_wraps f _ h rfl)
  | str b => exact leaf_guard S f hid sel _ rfl (by simp) ht _ _ (fun h => leafOk_wraps f _ h rfl)
  | byt b => exact leaf_guard S f hid sel _ rfl (by simp) ht _ _ (fun h => leafOk_wraps f _ h rfl)

/-! ### the whole field loop: the translated body once per field, in `meta_by_field_name` order -/

/-- `for field_name, meta in self._betterproto.meta_by_field_name.items(): <translated body>`
    (hand-written fold; the body is the translated `Src.to_dict_field`) -/
def srcLoop (S : Schema) (E : Enums) (cs : KeyCase) (incl : Bool) (fs : List FieldD) (cur : List (Option Nat)) :
    Nat → List Val → JDict → Res JDict
  | _, [], out => .ok out
  | idx, v :: vs, out =>
    match fs[idx]? with
    | Option.none => .ok out
    | some f =>
      (Src.to_dict_field S E (toDict S E cs incl) cs incl f (getattrField S f (hidden f idx cur) v)
        (selectedInGroup f idx cur) out).bind fun out' => srcLoop S E cs incl fs cur (idx + 1) vs out'

/-- the guards of the tie, slot by slot -/
def SlotsTieOk (S : Schema) (E : Enums) (cs : KeyCase) (incl : Bool) (fs : List FieldD) (cur : List (Option Nat)) :
    Nat → List Val → Prop
  | _, [] => True
  | idx, v :: vs =>
    (∀ f, fs[idx]? = some f →
      (readsDefault (hidden f idx cur) v = false → dynOkJ f v = true) ∧
      (readsDefault (hidden f idx cur) v = true → DefaultOkJ S E cs incl f)) ∧
    SlotsTieOk S E cs incl fs cur (idx + 1) vs

/-- distinct fields have distinct keys (C04's `namesOk` implies it) -/
def KeysInj (cs : KeyCase) (fs : List FieldD) : Prop :=
  ∀ (i j : Nat) (fi fj : FieldD), fs[i]? = some fi → fs[j]? = some fj → jsonKey cs fi.name = jsonKey cs fj.name → i = j

/-- **the field loop of `to_dict`, run with the body as written, builds the model's `toDictKVs`** -/
theorem srcLoop_eq (S : Schema) (E : Enums) (cs : KeyCase) (incl : Bool) (fs : List FieldD) (cur : List (Option Nat))
    (hinj : KeysInj cs fs) :
    ∀ (vs : List Val) (idx : Nat) (out : JDict), SlotsTieOk S E cs incl fs cur idx vs →
      (∀ j fj, idx ≤ j → fs[j]? = some fj → jsonKey cs fj.name ∉ out.map (·.1)) →
      srcLoop S E cs incl fs cur idx vs out = .ok (out ++ toDictKVs S E cs incl fs cur idx vs)
  | [], idx, out, _, _ => by rw [srcLoop, toDictKVs]; simp
  | v :: vs, idx, out, hok, hout => by
    rw [srcLoop, toDictKVs]
    cases hf : fs[idx]? with
    | none => simp
    | some f =>
      obtain ⟨h1, h2⟩ := hok
      obtain ⟨hv, hd⟩ := h1 f hf
      simp only
      rw [to_dict_field_appends S E cs incl f _ _ v out hv hd (hout idx f (Nat.le_refl _) hf), res_bind_ok]
      have hout' : ∀ j fj, idx + 1 ≤ j → fs[j]? = some fj →
          jsonKey cs fj.name ∉ (out ++ (toDictSlot S E cs incl f (hidden f idx cur) (selectedInGroup f idx cur) v).toList.map
            fun j => (jsonKey cs f.name, j)).map (·.1) := by
        intro j fj hj hfj hmem
        rw [List.map_append, List.mem_append] at hmem
        rcases hmem with hmem | hmem
        · exact hout j fj (by omega) hfj hmem
        · have : jsonKey cs fj.name = jsonKey cs f.name := by
            simp at hmem; exact hmem.2
          have := hinj j idx fj f hfj hf this
          omega
      rw [srcLoop_eq S E cs incl fs cur hinj vs (idx + 1) _ h2 hout']
      cases toDictSlot S E cs incl f (hidden f idx cur) (selectedInGroup f idx cur) v <;> simp

/-- **`to_dict` of a message, with the loop body as written, is the model's `toDict`** -/
theorem srcLoop_toDict (S : Schema) (E : Enums) (cs : KeyCase) (incl : Bool) (c : Nat) (sl : List Val) (ow : Bool)
    (unk : Bytes) (cur : List (Option Nat)) (hinj : KeysInj cs (fieldsOf S c))
    (hok : SlotsTieOk S E cs incl (fieldsOf S c) cur 0 sl) :
    (srcLoop S E cs incl (fieldsOf S c) cur 0 sl []).bind (fun kvs => .ok (mkObj kvs))
      = .ok (toDict S E cs incl (.msg c sl ow unk cur)) := by
  rw [srcLoop_eq S E cs incl _ cur hinj sl 0 [] hok (by simp), toDict_msg]; rfl

end Bp.SrcTieJson
