import BpProofs.Gen.SrcJsonMsg
import BpProofs.SrcTieJson
/-
  THE TIE BETWEEN THE TRANSLATED WHOLE METHOD `Message.to_dict` AND THE MODEL, nested to any depth.

  `Bp.Src.json_to_dict` (BpProofs/Gen/SrcJsonMsg.lean) is regenerated from the Python AST of
  `Message.to_dict` on every run; its loop calls the translated loop body `Src.to_dict_field`
  (Gen/SrcJson.lean).  `Src.value_to_dict S E depth cs incl m` ties the recursive knot:
  `x.to_dict(casing, include_default_values)` inside the loop body is the translated `to_dict` itself,
  one nesting level down.  The theorem `value_to_dict_eq` says, for every schema and value inside the
  guard,

      Src.value_to_dict S E (k + 1) cs incl m = .ok (toDict S E cs incl m)     whenever  vOkAt S k m

  Guards:
    * `vOkAt S k m` (decidable; `k` bounds the nesting depth of Message instances in `m`): at every
      nesting level one raw slot per field and `dynOkJ f v` (the guard of `SrcTieJson.to_dict_field_eq`)
      for every slot.
    * `hD`: `DefaultOkJ S E cs incl f` for every field of every class (the guard of `to_dict_field_eq` for a
      slot that reads as the default; implied by `jsonOk` for `incl = false`).
    * `hK`: distinct fields of a class have distinct keys (`KeysInj`; implied by `jsonOk`).

  How the knot is tied: (1) with `enc := toDict S E cs incl` the translated method equals the model
  (`srcLoop_eq` of SrcTieJson, after the generated loop is shown to be `srcLoop`); (2) the translated
  loop body depends on `enc` only through its values on what the body hands to it: the value, the
  items of a list, the values of a dict — and not at all on a Message instance that the presence test
  skips (`to_dict_field_congr`, proved on the generated code); (3) by induction on the budget,
  `value_to_dict (k + 1)` agrees with `toDict` on every value inside `vOkAt S k`, on every value that is
  not a Message instance, and on a fresh default instance at every budget ≥ 1 (`value_to_dict_fresh`).
-/
set_option linter.unusedSimpArgs false
set_option linter.unusedVariables false
namespace Bp.SrcTieJsonMsg
open Bp Bp.Py Gen Bp.SrcTieJson

/-! ### `_include_default_value_for_oneof` -/

theorem include_default_eq (st : MState) (idx : Nat) (f : FieldD) :
    Src.json_include_default st idx f = selectedInGroup f idx st.cur := by
  unfold Src.json_include_default selectedInGroup
  simp only [metaGroup, JsonMsg.groupCurrentGet]
  cases f.group <;> simp

/-! ### dependence of the translated loop body on `enc` -/

section congr
variable (S : Schema) (E : Enums) (enc enc' : Val → JVal) (cs : KeyCase) (incl : Bool)

theorem loop1_congr (value : Val) (h : ∀ k x, getItem value k = .ok x → enc x = enc' x) :
    ∀ (items : List Val) (out : JDict),
      Src.to_dict_field.loop1 S E enc cs incl value items out = Src.to_dict_field.loop1 S E enc' cs incl value items out
  | [], out => by simp only [Src.to_dict_field.loop1]
  | k :: items, out => by
    cases hg : getItem value k with
    | ok x =>
      simp only [Src.to_dict_field.loop1, hg, res_bind_ok, callToDict, h k x hg, loop1_congr value h items]
    | raise e => simp only [Src.to_dict_field.loop1, hg, res_bind_raise]
    | diverge => simp only [Src.to_dict_field.loop1, hg]; rfl

/-- `enc` and `enc'` agree on what the loop body may hand to them for the attribute value `v`: the
    value itself, what iterating it yields, what subscripting it yields -/
def AgreeOn (v : Val) : Prop :=
  enc v = enc' v ∧ (∀ xs, iterItems v = .ok xs → ∀ x ∈ xs, enc x = enc' x) ∧ (∀ k x, getItem v k = .ok x → enc x = enc' x)

/-- the loop body gets past the presence test for a Message instance (`value._serialized_on_wire or
    include_default_values or meta.optional or <selected in its group> or value != default`); any other
    value is covered by `AgreeOn` anyway -/
def needed (f : FieldD) (sel : Bool) (v : Val) : Bool :=
  !(isMsgVal v && eqDefault S f.defKind v && !(onWireOf v || incl || f.optional || sel))

theorem to_dict_field_congr (f : FieldD) (v : Val) (sel : Bool) (out : JDict)
    (h : needed S incl f sel v = true → AgreeOn enc enc' v) :
    Src.to_dict_field S E enc cs incl f (.value v) sel out = Src.to_dict_field S E enc' cs incl f (.value v) sel out := by
  by_cases hn : needed S incl f sel v = true
  · obtain ⟨h0, h1, h2⟩ := h hn
    have hl := loop1_congr S E enc enc' cs incl v h2
    cases hi : iterItems v with
    | ok xs =>
      have hmap : List.map enc xs = List.map enc' xs := List.map_congr_left (h1 xs hi)
      have hmap' : List.map (fun i => enc i) xs = List.map (fun i => enc' i) xs := hmap
      simp only [Src.to_dict_field, hi, res_bind_ok, callToDict, hmap, hmap', h0, hl]
    | raise e => simp only [Src.to_dict_field, hi, res_bind_raise, callToDict, h0, hl]
    | diverge =>
      have hd : ∀ {β : Type} (g : List Val → Res β), (Res.diverge : Res (List Val)).bind g = .diverge := fun _ => rfl
      simp only [Src.to_dict_field, hi, hd, callToDict, h0, hl]
  · cases v with
    | msg c sl ow unk cur =>
      have hs : (eqDefault S f.defKind (Val.msg c sl ow unk cur) && !(ow || incl || f.optional || sel)) = true := by
        simpa [needed, isMsgVal, onWireOf] using hn
      simp only [Bool.and_eq_true, Bool.not_eq_true', Bool.or_eq_false_iff] at hs
      obtain ⟨heq, ⟨⟨how, hin⟩, hop⟩, hsel⟩ := hs
      subst how hin hsel
      simp only [Src.to_dict_field, iterItems, dictUnpack, res_bind_raise, res_bind_ok, isDatetime, isTimedelta, isNone,
        serializedOnWire, eqFieldDefault, metaOptional, hop, heq, Bool.false_eq_true, if_false, Bool.not_true, callToDict]
    | _ => simp [needed, isMsgVal] at hn

theorem to_dict_field_congr_got (f : FieldD) (got : Got) (sel : Bool) (out : JDict)
    (h : ∀ v, (match got with | Got.attrError => getFieldDefault S f | Got.value v => v) = v →
      needed S incl f sel v = true → AgreeOn enc enc' v) :
    Src.to_dict_field S E enc cs incl f got sel out = Src.to_dict_field S E enc' cs incl f got sel out := by
  rw [field_got S E enc, field_got S E enc']
  exact to_dict_field_congr S E enc enc' cs incl f _ sel out (h _ rfl)

/-- `enc` and `enc'` agree wherever the loop body of the fields `items` of `st` may call them -/
def FieldsAgree (st : MState) (items : List (Nat × FieldD)) : Prop :=
  ∀ p ∈ items, ∀ v,
    (match JsonMsg.getattrOf S st p.1 p.2 with | Got.attrError => getFieldDefault S p.2 | Got.value v => v) = v →
    needed S incl p.2 (Src.json_include_default st p.1 p.2) v = true → AgreeOn enc enc' v

theorem loop_congr (st : MState) : ∀ (items : List (Nat × FieldD)), FieldsAgree S enc enc' incl st items → ∀ out,
    Src.json_to_dict.loop1 S E enc cs incl st items out = Src.json_to_dict.loop1 S E enc' cs incl st items out
  | [], _, out => by simp only [Src.json_to_dict.loop1]
  | (i, f) :: items, h, out => by
    have ih := loop_congr st items (fun p hp => h p (List.mem_cons_of_mem _ hp))
    simp only [Src.json_to_dict.loop1,
      to_dict_field_congr_got S E enc enc' cs incl f _ _ _ (h (i, f) (List.mem_cons_self ..)), ih]

end congr

/-! ### the generated field loop with `enc := toDict` is `srcLoop`, hence the model's `toDictKVs` -/

theorem drop_cons {α : Type} : ∀ (l : List α) (i : Nat) (a : α) (t : List α), l.drop i = a :: t →
    l[i]? = some a ∧ l.drop (i + 1) = t
  | [], i, a, t, h => by simp at h
  | b :: l, 0, a, t, h => by simp only [List.drop_zero, List.cons.injEq] at h; simp [h.1, h.2]
  | b :: l, i + 1, a, t, h => by
    simp only [List.drop_succ_cons] at h
    have := drop_cons l i a t h
    simpa using this

theorem getD_of_getElem? (sl : List Val) (i : Nat) (v : Val) (h : sl[i]? = some v) : sl.getD i .ph = v := by
  simp [List.getD, h]

theorem loop_srcLoop (S : Schema) (E : Enums) (cs : KeyCase) (incl : Bool) (fs : List FieldD) (st : MState) :
    ∀ (rfs : List FieldD) (rsl : List Val) (i : Nat) (out : JDict),
      fs.drop i = rfs → st.slots.drop i = rsl → rfs.length = rsl.length →
      Src.json_to_dict.loop1 S E (toDict S E cs incl) cs incl st (JsonMsg.itemsFrom i rfs) out
        = srcLoop S E cs incl fs st.cur i rsl out
  | [], [], i, out, _, _, _ => by rw [JsonMsg.itemsFrom, Src.json_to_dict.loop1, srcLoop]
  | [], v :: rsl, i, out, _, _, hl => by simp at hl
  | f :: rfs, [], i, out, _, _, hl => by simp at hl
  | f :: rfs, v :: rsl, i, out, h1, h2, hl => by
    obtain ⟨hf, hfs⟩ := drop_cons fs i f rfs h1
    obtain ⟨hv, hvs⟩ := drop_cons st.slots i v rsl h2
    rw [JsonMsg.itemsFrom, Src.json_to_dict.loop1, srcLoop]
    simp only [hf, JsonMsg.getattrOf, getD_of_getElem? _ _ _ hv, include_default_eq]
    congr 1
    funext out'
    exact loop_srcLoop S E cs incl fs st rfs rsl (i + 1) out' hfs hvs (by simpa using hl)

/-- the whole method with `enc := toDict`, for an instance whose slots are inside the guards of the tie -/
theorem json_to_dict_model (S : Schema) (E : Enums) (cs : KeyCase) (incl : Bool) (c : Nat) (sl : List Val) (ow : Bool)
    (unk : Bytes) (cur : List (Option Nat)) (hlen : (fieldsOf S c).length = sl.length)
    (hinj : KeysInj cs (fieldsOf S c)) (hok : SlotsTieOk S E cs incl (fieldsOf S c) cur 0 sl) :
    Src.json_to_dict S E (fun c i x => toDict S E c i x) (fieldsOf S c)
        { slots := sl, onWire := ow, unknown := unk, cur := cur } cs incl
      = .ok (toDict S E cs incl (.msg c sl ow unk cur)) := by
  unfold Src.json_to_dict
  simp only [JsonMsg.metaItems]
  rw [show (fun x => toDict S E cs incl x) = toDict S E cs incl from rfl,
    loop_srcLoop S E cs incl (fieldsOf S c) { slots := sl, onWire := ow, unknown := unk, cur := cur } (fieldsOf S c) sl 0 []
      rfl rfl hlen]
  exact srcLoop_toDict S E cs incl c sl ow unk cur hinj hok

/-! ### the guard -/

/-- the values the loop body may hand to `enc` for the attribute value `v` (besides values that are
    not Message instances) -/
def subs (v : Val) : List Val :=
  match v with
  | .list xs => xs
  | .dict ks vs => ks ++ vs
  | .msg c sl ow unk cur => [.msg c sl ow unk cur]
  | _ => []

/-- the guard of `to_dict_field_eq` at every nesting level, one raw slot per field, and at most `k`
    nested levels of Message instances (decidable; recursion on the budget) -/
def vOkAt (S : Schema) : Nat → Val → Bool
  | 0, _ => false
  | k + 1, .msg c sl _ _ _ =>
    (fieldsOf S c).length == sl.length &&
      ((fieldsOf S c).zip sl).all fun p => dynOkJ p.1 p.2 && (subs p.2).all fun x => !isMsgVal x || vOkAt S k x
  | _ + 1, _ => false

theorem lookupKey_mem (k : JKey) : ∀ (ks vs : List Val) (x : Val), lookupKey k ks vs = some x → x ∈ vs
  | [], _, x, h => by simp [lookupKey] at h
  | _ :: _, [], x, h => by simp [lookupKey] at h
  | k' :: ks, v :: vs, x, h => by
    rw [lookupKey] at h
    split at h
    · injection h with h; subst h; exact List.mem_cons_self ..
    · exact List.mem_cons_of_mem _ (lookupKey_mem k ks vs x h)

theorem iter_subs (v : Val) (xs : List Val) (h : iterItems v = .ok xs) (x : Val) (hx : x ∈ xs) (hm : isMsgVal x = true) :
    x ∈ subs v := by
  cases v with
  | list ys => simp only [iterItems, Res.ok.injEq] at h; subst h; exact hx
  | dict ks vs => simp only [iterItems, Res.ok.injEq] at h; subst h; exact List.mem_append_left _ hx
  | byt b =>
    simp only [iterItems, Res.ok.injEq] at h; subst h
    obtain ⟨n, _, rfl⟩ := List.mem_map.mp hx
    simp [isMsgVal] at hm
  | _ => simp [iterItems] at h

theorem getItem_subs (v k x : Val) (h : getItem v k = .ok x) : x ∈ subs v := by
  cases v with
  | dict ks vs =>
    simp only [getItem] at h
    cases hl : lookupKey (keyJ k) ks vs with
    | none => simp [hl] at h
    | some y =>
      simp only [hl, Res.ok.injEq] at h; subst h
      exact List.mem_append_right _ (lookupKey_mem _ ks vs y hl)
  | _ => simp [getItem] at h

theorem agreeOn_of (enc enc' : Val → JVal) (v : Val) (hnon : ∀ x, isMsgVal x = false → enc x = enc' x)
    (hsub : ∀ x ∈ subs v, isMsgVal x = true → enc x = enc' x) : AgreeOn enc enc' v := by
  have all : ∀ x, (isMsgVal x = true → x ∈ subs v) → enc x = enc' x := by
    intro x hx
    cases hm : isMsgVal x with
    | false => exact hnon x hm
    | true => exact hsub x (hx hm) hm
  refine ⟨all v ?_, fun xs hi x hx => all x (iter_subs v xs hi x hx), fun k x hg => all x (fun _ => getItem_subs v k x hg)⟩
  intro hm
  cases v <;> first | (simp [isMsgVal] at hm; done) | simp [subs]

/-! ### the knot -/

/-- `x.to_dict(c, i)` as the loop body sees it with `k` nesting levels left -/
def encAt (S : Schema) (E : Enums) (k : Nat) : KeyCase → Bool → Val → JVal :=
  fun c i x => JsonMsg.toJ x (Src.value_to_dict S E k c i x)

theorem value_to_dict_msg (S : Schema) (E : Enums) (k : Nat) (cs : KeyCase) (incl : Bool) (c : Nat) (sl : List Val) (ow : Bool)
    (unk : Bytes) (cur : List (Option Nat)) :
    Src.value_to_dict S E (k + 1) cs incl (.msg c sl ow unk cur)
      = Src.json_to_dict S E (encAt S E k) (fieldsOf S c) { slots := sl, onWire := ow, unknown := unk, cur := cur } cs incl := by
  rw [Src.value_to_dict]; rfl

/-- on a value that is not a Message instance the nested call stands as the model's `raw` leaf, which is
    what the model's `toDict` says there -/
theorem encAt_nonmsg (S : Schema) (E : Enums) (k : Nat) (cs : KeyCase) (incl : Bool) (x : Val) (h : isMsgVal x = false) :
    encAt S E k cs incl x = toDict S E cs incl x := by
  rw [toDict_nonmsg S E cs incl x h]
  cases k with
  | zero => simp only [encAt, Src.value_to_dict, JsonMsg.toJ]
  | succ k => cases x <;> first | (simp [isMsgVal] at h; done) | simp only [encAt, Src.value_to_dict, JsonMsg.onMessage, JsonMsg.toJ]

theorem json_to_dict_congr (S : Schema) (E : Enums) (r r' : KeyCase → Bool → Val → JVal) (fs : List FieldD) (st : MState)
    (cs : KeyCase) (incl : Bool) (h : FieldsAgree S (r cs incl) (r' cs incl) incl st (JsonMsg.metaItems fs)) :
    Src.json_to_dict S E r fs st cs incl = Src.json_to_dict S E r' fs st cs incl := by
  simp only [Src.json_to_dict, loop_congr S E (r cs incl) (r' cs incl) cs incl st _ h]

theorem itemsFrom_mem : ∀ (fs : List FieldD) (j : Nat) (p : Nat × FieldD), p ∈ JsonMsg.itemsFrom j fs →
    j ≤ p.1 ∧ fs[p.1 - j]? = some p.2
  | [], j, p, h => by simp [JsonMsg.itemsFrom] at h
  | f :: fs, j, p, h => by
    rw [JsonMsg.itemsFrom] at h
    rcases List.mem_cons.mp h with h | h
    · subst h; simp
    · obtain ⟨h1, h2⟩ := itemsFrom_mem fs (j + 1) p h
      refine ⟨by omega, ?_⟩
      have : p.1 - j = (p.1 - (j + 1)) + 1 := by omega
      rw [this]; simpa using h2

theorem metaItems_mem (fs : List FieldD) (p : Nat × FieldD) (h : p ∈ JsonMsg.metaItems fs) : fs[p.1]? = some p.2 := by
  have := (itemsFrom_mem fs 0 p h).2
  simpa using this

theorem slotsTieOk_of (S : Schema) (E : Enums) (cs : KeyCase) (incl : Bool) (fs : List FieldD) (cur : List (Option Nat))
    (hd : ∀ f ∈ fs, DefaultOkJ S E cs incl f) :
    ∀ (vs : List Val) (idx : Nat), (∀ j f v, fs[idx + j]? = some f → vs[j]? = some v → dynOkJ f v = true) →
      SlotsTieOk S E cs incl fs cur idx vs
  | [], _, _ => trivial
  | v :: vs, idx, h =>
    ⟨fun f hf => ⟨fun _ => h 0 f v (by simpa using hf) rfl, fun _ => hd f (List.mem_of_getElem? hf)⟩,
      slotsTieOk_of S E cs incl fs cur hd vs (idx + 1) (fun j f w hf hv =>
        h (j + 1) f w (by rw [show idx + (j + 1) = idx + 1 + j by omega]; exact hf) (by simpa using hv))⟩

theorem defaultOk_false (S : Schema) (E : Enums) (cs : KeyCase) (incl : Bool) (f : FieldD) (h : DefaultOkJ S E cs incl f) :
    DefaultOkJ S E cs false f :=
  ⟨h.1, fun c hc => ⟨rfl, (h.2 c hc).2⟩⟩

theorem hidden_replicate (f : FieldD) (i n : Nat) : hidden f i (List.replicate n Option.none) = f.group.isSome := by
  unfold hidden
  cases f.group with
  | none => rfl
  | some g =>
    have : (List.replicate n (Option.none : Option Nat)).getD g Option.none = Option.none := by
      simp only [List.getD, List.getElem?_replicate]; split <;> rfl
    simp [this]

/-- a Message instance among what the loop body sees of a default value is the fresh instance of the
    class of a plain singular message-typed field -/
theorem subs_default (S : Schema) (f : FieldD) (x : Val) (h : x ∈ subs (defaultOf S f)) (hm : isMsgVal x = true) :
    ∃ c, f.defKind = .msg c ∧ f.optional = false ∧ defaultOf S f = fresh S c ∧ x = fresh S c := by
  unfold defaultOf at h ⊢
  cases hk : f.defKind with
  | msg c =>
    rw [hk] at h
    simp only [defaultOfKind, fresh, subs, List.mem_singleton] at h
    have ho : f.optional = false := by
      rcases defKind_cases f with ⟨_, h'⟩ | ⟨_, _, h'⟩ | ⟨_, _, _, h'⟩ | ⟨_, _, ho, _, _⟩ | ⟨_, _, _, ho, _, _⟩
      · rw [hk] at h'; cases h'
      · rw [hk] at h'; cases h'
      · rw [hk] at h'; cases h'
      · exact ho
      · exact ho
    exact ⟨c, rfl, ho, rfl, by rw [h]; rfl⟩
  | _ =>
    rw [hk] at h
    simp [defaultOfKind, subs] at h

/-- what `getattr` (or the AttributeError fallback) hands to the loop body for the raw slot `w` -/
theorem got_value (S : Schema) (f : FieldD) (hid : Bool) (w : Val) :
    (match getattrField S f hid w with | Got.attrError => getFieldDefault S f | Got.value v => v)
      = if readsDefault hid w then defaultOf S f else w := by
  by_cases h : readsDefault hid w = true
  · rw [if_pos h]; exact getattr_default S f hid w h
  · rw [if_neg h]
    have hh : hid = false := by cases hid <;> first | rfl | (cases w <;> simp [readsDefault] at h)
    subst hh
    cases w <;> first | rfl | (simp [readsDefault] at h)

section knot
variable (S : Schema) (E : Enums) (cs : KeyCase)

/-- **`<fresh instance>.to_dict(casing)` as written is the model's** at every nesting budget ≥ 1, whatever
    the nested calls would return: every slot is None, hidden, or a default that the presence test skips -/
theorem value_to_dict_fresh (hW : WfSchemaOpt S) (hD : ∀ c, ∀ f ∈ fieldsOf S c, DefaultOkJ S E cs false f)
    (hK : ∀ c, KeysInj cs (fieldsOf S c)) (k c : Nat) :
    Src.value_to_dict S E (k + 1) cs false (fresh S c) = .ok (toDict S E cs false (fresh S c)) := by
  unfold fresh
  rw [value_to_dict_msg]
  have hslot : ∀ (j : Nat) (f : FieldD) (v : Val), (fieldsOf S c)[j]? = some f →
      ((fieldsOf S c).map fun (f : FieldD) => if f.optional then Val.none else Val.ph)[j]? = some v →
      v = if f.optional then Val.none else Val.ph := by
    intro j f v hf hv
    simp only [List.getElem?_map, hf, Option.map_some, Option.some.injEq] at hv
    exact hv.symm
  have hag : FieldsAgree S (encAt S E k cs false) (fun x => toDict S E cs false x) false
      { slots := (fieldsOf S c).map fun f => if f.optional then Val.none else Val.ph, onWire := false, unknown := [],
        cur := List.replicate (groupsOf S c) Option.none } (JsonMsg.metaItems (fieldsOf S c)) := by
    intro p hp v hgot hneed
    have hf := metaItems_mem _ p hp
    have hsl : ((fieldsOf S c).map fun f => if f.optional then Val.none else Val.ph).getD p.1 .ph
        = if p.2.optional then Val.none else Val.ph := by
      simp [List.getD, List.getElem?_map, hf]
    simp only [JsonMsg.getattrOf, hsl, got_value] at hgot
    rw [include_default_eq, selected_none] at hneed
    apply agreeOn_of _ _ v (fun x hx => encAt_nonmsg S E k cs false x hx)
    intro x hx hm
    by_cases hrd : readsDefault (hidden p.2 p.1 (List.replicate (groupsOf S c) Option.none))
        (if p.2.optional then Val.none else Val.ph) = true
    · rw [if_pos hrd] at hgot
      subst hgot
      obtain ⟨c', hk, ho, hdef, hx'⟩ := subs_default S p.2 x hx hm
      have he := ((hD c p.2 (List.mem_of_getElem? hf)).2 c' hk).2.1
      have h1 : isMsgVal (fresh S c') = true := rfl
      have h2 : onWireOf (fresh S c') = false := rfl
      rw [hdef] at hneed
      simp [needed, hk, he, ho, h1, h2] at hneed
    · rw [if_neg hrd] at hgot
      subst hgot
      cases ho : p.2.optional with
      | true => simp [ho, subs] at hx
      | false => simp [ho, readsDefault] at hrd
  rw [json_to_dict_congr S E _ (fun c i x => toDict S E c i x) _ _ cs false hag,
    json_to_dict_model S E cs false c _ false [] _ (by simp) (hK c)
      (slotsTieOk_of S E cs false _ _ (hD c) _ 0 (fun j f v hf hv => by
        have hv' := hslot j f v (by simpa using hf) hv
        subst hv'
        cases ho : f.optional with
        | false => simp [dynOkJ]
        | true =>
          obtain ⟨hr, hm⟩ := hW c f (List.mem_of_getElem? (by simpa using hf)) ho
          have : dynOkJ f Val.none = true := by
            simp only [dynOkJ, leafOkJ, hr]
            by_cases hmsg : (f.ty == PType.message) = true
            · simp [hmsg]
            · have : (f.ty != PType.map) = true := by simpa using hm
              simp [hmsg, this]
          simpa using this))]

/-- **`m.to_dict(casing, include_default_values)` as written is the model's `toDict`**, nested to any
    depth: for every value inside `vOkAt S k`, with one more nesting level of budget -/
theorem value_to_dict_eq (incl : Bool) (hW : WfSchemaOpt S) (hD : ∀ c, ∀ f ∈ fieldsOf S c, DefaultOkJ S E cs incl f)
    (hK : ∀ c, KeysInj cs (fieldsOf S c)) : ∀ (k : Nat) (m : Val), vOkAt S k m = true →
      Src.value_to_dict S E (k + 1) cs incl m = .ok (toDict S E cs incl m)
  | 0, m, h => by simp [vOkAt] at h
  | k + 1, m, h => by
    cases m with
    | msg c sl ow unk cur =>
      simp only [vOkAt, Bool.and_eq_true, beq_iff_eq, List.all_eq_true] at h
      obtain ⟨hlen, hall⟩ := h
      have hpair : ∀ (j : Nat) (f : FieldD) (v : Val), (fieldsOf S c)[j]? = some f → sl[j]? = some v →
          (f, v) ∈ (fieldsOf S c).zip sl := by
        intro j f v hf hv
        exact List.mem_of_getElem? (List.getElem?_zip_eq_some.mpr ⟨hf, hv⟩)
      have hag : FieldsAgree S (encAt S E (k + 1) cs incl) (fun x => toDict S E cs incl x) incl
          { slots := sl, onWire := ow, unknown := unk, cur := cur } (JsonMsg.metaItems (fieldsOf S c)) := by
        intro p hp v hgot hneed
        have hf := metaItems_mem _ p hp
        have hlt : p.1 < sl.length := by rw [← hlen]; exact (List.getElem?_eq_some_iff.mp hf).1
        obtain ⟨w, hw⟩ : ∃ w, sl[p.1]? = some w := ⟨sl[p.1], List.getElem?_eq_getElem hlt⟩
        simp only [JsonMsg.getattrOf, getD_of_getElem? _ _ _ hw, got_value] at hgot
        apply agreeOn_of _ _ v (fun x hx => encAt_nonmsg S E (k + 1) cs incl x hx)
        intro x hx hm
        by_cases hrd : readsDefault (hidden p.2 p.1 cur) w = true
        · rw [if_pos hrd] at hgot
          subst hgot
          obtain ⟨c', hk, _, _, hx'⟩ := subs_default S p.2 x hx hm
          obtain ⟨hi, _⟩ := (hD c p.2 (List.mem_of_getElem? hf)).2 c' hk
          subst hi hx'
          simp only [encAt, value_to_dict_fresh S E cs hW hD hK k c', JsonMsg.toJ]
        · rw [if_neg hrd] at hgot
          subst hgot
          have hv := (hall (p.2, w) (hpair p.1 p.2 w hf hw)).2 x hx
          simp only [hm, Bool.not_true, Bool.false_or] at hv
          simp only [encAt, value_to_dict_eq incl hW hD hK k x hv, JsonMsg.toJ]
      rw [value_to_dict_msg, json_to_dict_congr S E _ (fun c i x => toDict S E c i x) _ _ cs incl hag,
        json_to_dict_model S E cs incl c sl ow unk cur hlen (hK c)
          (slotsTieOk_of S E cs incl _ cur (hD c) sl 0 (fun j f v hf hv =>
            (hall (f, v) (hpair j f v (by simpa using hf) hv)).1))]
    | _ => simp [vOkAt] at h

end knot

/-! ### the schema guards of C04 imply the guards of the tie -/

theorem keysInj_of_namesOk (cs : KeyCase) (fs : List FieldD) (h : namesOk cs fs = true) : KeysInj cs fs := by
  intro i j fi fj hi hj hk
  have a := namesOk_lookup cs fs h i fi hi
  have b := namesOk_lookup cs fs h j fj hj
  rw [hk, b] at a
  injection a with a
  injection a with a
  exact (Prod.mk.inj a).1.symm

theorem namesOk_of_jsonOk (S : Schema) (E : Enums) (cs : KeyCase) (h : jsonOk S E cs = true) (c : Nat) :
    namesOk cs (fieldsOf S c) = true := by
  unfold jsonOk at h
  simp only [Bool.and_eq_true, List.all_eq_true] at h
  unfold fieldsOf
  cases hc : S[c]? with
  | none => simp [namesOk]
  | some d => exact (h.1 d (List.mem_of_getElem? hc)).2

/-- inside C04's schema guard `jsonOk`, and without `include_default_values`, the three schema-level
    hypotheses of `value_to_dict_eq` hold -/
theorem guards_of_jsonOk (S : Schema) (E : Enums) (cs : KeyCase) (h : jsonOk S E cs = true) :
    WfSchemaOpt S ∧ (∀ c, ∀ f ∈ fieldsOf S c, DefaultOkJ S E cs false f) ∧ (∀ c, KeysInj cs (fieldsOf S c)) := by
  have hS := schemaJsonOk_of_jsonOk S E cs h
  exact ⟨wfSchemaOpt_of S hS, fun c f hf => defaultOkJ_of_schema S E cs f hS (hS c f hf),
    fun c => keysInj_of_namesOk cs _ (namesOk_of_jsonOk S E cs h c)⟩

/-! ### `to_json` -/

/-- **`m.to_json(indent, include_default_values, casing)` as written is `json.dumps` of the model's `toDict`** -/
theorem value_to_json_eq (S : Schema) (E : Enums) (cs : KeyCase) (incl : Bool) (hW : WfSchemaOpt S)
    (hD : ∀ c, ∀ f ∈ fieldsOf S c, DefaultOkJ S E cs incl f) (hK : ∀ c, KeysInj cs (fieldsOf S c))
    (k : Nat) (m : Val) (indent : JsonMsg.Indent) (h : vOkAt S k m = true) :
    Src.value_to_json S E k m indent incl cs = JsonMsg.jsonDumps (toDict S E cs incl m) indent := by
  have hv := value_to_dict_eq S E cs incl hW hD hK k m h
  cases m with
  | msg c sl ow unk cur =>
    rw [value_to_dict_msg] at hv
    unfold Src.value_to_json Src.json_to_json
    simp only [JsonMsg.onMessage]
    rw [show (fun c i x => JsonMsg.toJ x (Src.value_to_dict S E k c i x)) = encAt S E k from rfl, hv]
    simp only [res_bind_ok]
    cases JsonMsg.jsonDumps (toDict S E cs incl (Val.msg c sl ow unk cur)) indent <;> rfl
  | _ => cases k <;> simp [vOkAt] at h

end Bp.SrcTieJsonMsg
