import BpProofs.Gen.SrcJsonMsg
import BpProofs.SrcTieFromDict
/-
  THE TIE BETWEEN THE TRANSLATED WHOLE METHODS `Message._from_dict_init` / `Message.from_dict` (both forms)
  AND THE MODEL, nested to any depth.

  `Bp.Src.json_from_dict_init`, `json_from_dict_cls`, `json_from_dict_inst` (BpProofs/Gen/SrcJsonMsg.lean) are
  regenerated from the Python AST on every run; the key loop calls the translated loop body
  `Src.from_dict_key` (Gen/SrcFromDict.lean).  `Src.class_from_dict S E depth c j` ties the recursive knot:
  `sub_cls.from_dict(item)` inside the loop body is the translated class form itself, one nesting level down.
  The theorems below say, for every schema, class and JSON-side value inside the guard,

      forget (Src.class_from_dict S E k c j)            = forget (ofR (fromDictC S E c j))
      forget (Src.value_from_dict S E k m j)            = forget (ofR (fromDictI S E m j))       (m a Message instance)

  (`forget`: WHICH exception is raised is not compared, as in SrcTieFromDict.)

  Guard `jOkAt S k j` (decidable; `k` bounds the nesting of `j`): at every nesting level `dictOk` — every dict
  value has as many keys as values, no two keys with a value other than None denote the same field — for
  EVERY class of the schema (an over-approximation that saves following which class reads which sub-dict).

  How the knot is tied: (1) with `dec := fromDictC S E` the translated `_from_dict_init` is the hand-written
  `srcFromDictInit` of SrcTieFromDict, whose tie to the model is reused; (2) the translated loop body depends
  on `dec` only through `Py.clsFromDict dec cls x` for `x` the value, an item of a list value, a value of a
  dict value, and — up to which exception — only through their outcomes up to which exception
  (`from_dict_key_sim`, proved on the generated code by pushing `forget` to the leaves); (3) induction on the
  budget.
-/
set_option linter.unusedSimpArgs false
set_option linter.unusedVariables false
namespace Bp.SrcTieJsonMsgLoad
open Bp Bp.Py Bp.SrcTieFromDict

/-! ### `forget` is a homomorphism of the control structure -/

theorem forget_bind {α β} (r : Res α) (k : α → Res β) : forget (r.bind k) = (forget r).bind fun a => forget (k a) := by
  cases r <;> rfl

theorem forget_ite {α} (c : Prop) [Decidable c] (a b : Res α) :
    forget (if c then a else b) = if c then forget a else forget b := by
  split <;> rfl

theorem forget_idem {α} (r : Res α) : forget (forget r) = forget r := by cases r <;> rfl

theorem sim_bind {α β} (r r' : Res α) (k : α → Res β) (h : forget r = forget r') : forget (r.bind k) = forget (r'.bind k) := by
  rw [forget_bind, forget_bind, h]

theorem mapMRes_sim {α β} (g g' : α → Res β) : ∀ (xs : List α), (∀ x ∈ xs, forget (g x) = forget (g' x)) →
    forget (mapMRes g xs) = forget (mapMRes g' xs)
  | [], _ => rfl
  | x :: xs, h => by
    have ih := mapMRes_sim g g' xs (fun y hy => h y (List.mem_cons_of_mem _ hy))
    simp only [mapMRes, forget_bind, h x (List.mem_cons_self ..), ih]

/-- the JSON-side values the loop body may hand to `dec` for the value `j` of one key -/
def jsubs : JVal → List JVal
  | .arr xs => .arr xs :: xs
  | .obj ks vs => .obj ks vs :: vs
  | j => [j]

theorem jsubs_self (j : JVal) : j ∈ jsubs j := by cases j <;> simp [jsubs]

section sim
variable (S : Schema) (E : Enums) (c : Nat) (dec dec' : Nat → JVal → R Val)

theorem listComp_sim (g g' : JVal → Res Val) (value : JVal) (h : ∀ x ∈ jsubs value, forget (g x) = forget (g' x)) :
    forget (listComp g value) = forget (listComp g' value) := by
  cases value with
  | arr xs =>
    simp only [listComp]
    exact sim_bind _ _ _ (mapMRes_sim g g' xs (fun x hx => h x (by simp [jsubs, hx])))
  | _ => rfl

theorem dictComp_sim (g g' : JVal → Res Val) (value : JVal) (h : ∀ x ∈ jsubs value, forget (g x) = forget (g' x)) :
    forget (dictCompValues g value) = forget (dictCompValues g' value) := by
  cases value with
  | obj ks vs =>
    simp only [dictCompValues]
    exact sim_bind _ _ _ (mapMRes_sim g g' vs (fun x hx => h x (by simp [jsubs, hx])))
  | _ => rfl

/-- **the translated loop body depends on `dec` only through the outcomes, up to which exception, of
    `cls.from_dict(x)` for `x` the value / its items / its dict values** (on the generated code) -/
theorem from_dict_key_sim (key : JKey) (value : JVal) (init : Kwargs)
    (h : ∀ cls, ∀ x ∈ jsubs value, forget (clsFromDict dec cls x) = forget (clsFromDict dec' cls x)) :
    forget (Src.from_dict_key S E c dec key value init) = forget (Src.from_dict_key S E c dec' key value init) := by
  have h0 : ∀ cls, forget (clsFromDict dec cls value) = forget (clsFromDict dec' cls value) :=
    fun cls => h cls value (jsubs_self value)
  have hl : ∀ cls, forget (listComp (clsFromDict dec cls) value) = forget (listComp (clsFromDict dec' cls) value) :=
    fun cls => listComp_sim _ _ value (h cls)
  have hl' : ∀ cls, forget (listComp (fun item => clsFromDict dec cls item) value)
      = forget (listComp (fun item => clsFromDict dec' cls item) value) := hl
  have hd : ∀ cls, forget (dictCompValues (clsFromDict dec cls) value) = forget (dictCompValues (clsFromDict dec' cls) value) :=
    fun cls => dictComp_sim _ _ value (h cls)
  have hd' : ∀ cls, forget (dictCompValues (fun v => clsFromDict dec cls v) value)
      = forget (dictCompValues (fun v => clsFromDict dec' cls v) value) := hd
  unfold Src.from_dict_key
  cases hk : safeSnakeCase key with
  | ok name =>
    simp only [res_bind_ok]
    cases hmeta : metaByFieldName S c name with
    | none => rfl
    | some f => simp only [forget_bind, forget_ite, res_bind_eta, h0, hl, hl', hd, hd']
  | raise e => rfl
  | diverge => rfl

theorem loop_sim : ∀ (items : List (JKey × JVal)) (init : Kwargs),
    (∀ p ∈ items, ∀ cls, ∀ x ∈ jsubs p.2, forget (clsFromDict dec cls x) = forget (clsFromDict dec' cls x)) →
    forget (Src.json_from_dict_init.loop1 S E dec c items init) = forget (Src.json_from_dict_init.loop1 S E dec' c items init)
  | [], init, _ => rfl
  | (k, v) :: items, init, h => by
    simp only [Src.json_from_dict_init.loop1]
    rw [forget_bind, forget_bind, from_dict_key_sim S E c dec dec' k v init (h (k, v) (List.mem_cons_self ..))]
    congr 1
    funext kw
    exact loop_sim items kw (fun p hp => h p (List.mem_cons_of_mem _ hp))

/-- the values of the mapping `j` -/
def jvals : JVal → List JVal
  | .obj _ vs => vs
  | _ => []

theorem zip_snd_mem {α β} : ∀ (ks : List α) (vs : List β) (p : α × β), p ∈ ks.zip vs → p.2 ∈ vs :=
  fun ks vs p hp => (List.of_mem_zip hp).2

theorem init_sim (j : JVal)
    (h : ∀ v ∈ jvals j, ∀ cls, ∀ x ∈ jsubs v, forget (clsFromDict dec cls x) = forget (clsFromDict dec' cls x)) :
    forget (Src.json_from_dict_init S E dec c j) = forget (Src.json_from_dict_init S E dec' c j) := by
  unfold Src.json_from_dict_init
  cases j with
  | obj ks vs =>
    simp only [JsonMsg.mappingItems, res_bind_ok, res_bind_eta]
    exact loop_sim S E c dec dec' _ _ (fun p hp => h p.2 (zip_snd_mem ks vs p hp))
  | _ => rfl

end sim

/-! ### with `dec := fromDictC` the generated `_from_dict_init` is `srcFromDictInit` -/

theorem loop_srcInitLoop (S : Schema) (E : Enums) (c : Nat) : ∀ (ks : List JKey) (vs : List JVal) (init : Kwargs),
    Src.json_from_dict_init.loop1 S E (fromDictC S E) c (ks.zip vs) init = srcInitLoop S E c ks vs init
  | [], _, init => by simp [Src.json_from_dict_init.loop1, srcInitLoop]
  | _ :: _, [], init => by simp [Src.json_from_dict_init.loop1, srcInitLoop]
  | k :: ks, v :: vs, init => by
    simp only [List.zip_cons_cons, Src.json_from_dict_init.loop1, srcInitLoop]
    congr 1
    funext kw
    exact loop_srcInitLoop S E c ks vs kw

theorem init_model (S : Schema) (E : Enums) (c : Nat) (j : JVal) :
    Src.json_from_dict_init S E (fromDictC S E) c j = srcFromDictInit S E c j := by
  unfold Src.json_from_dict_init
  cases j with
  | obj ks vs => simp only [JsonMsg.mappingItems, res_bind_ok, res_bind_eta, loop_srcInitLoop, srcFromDictInit]
  | _ => rfl

/-! ### the guard -/

/-- `dictOk` for every class at every nesting level, at most `k` levels (decidable; recursion on the budget) -/
def jOkAt (S : Schema) : Nat → JVal → Bool
  | 0, _ => false
  | k + 1, j => (List.range (S.length + 1)).all (fun c => dictOk (fieldsOf S c) j) &&
      (jvals j).all fun v => (jsubs v).all fun x => jOkAt S k x

theorem fieldsOf_big (S : Schema) (c : Nat) (h : S.length ≤ c) : fieldsOf S c = [] := by
  unfold fieldsOf
  rw [List.getElem?_eq_none h]

theorem dictOk_all (S : Schema) (j : JVal) (h : (List.range (S.length + 1)).all (fun c => dictOk (fieldsOf S c) j) = true)
    (c : Nat) : dictOk (fieldsOf S c) j = true := by
  rw [List.all_eq_true] at h
  by_cases hc : c < S.length + 1
  · exact h c (List.mem_range.mpr hc)
  · rw [fieldsOf_big S c (by omega), ← fieldsOf_big S S.length (Nat.le_refl _)]
    exact h S.length (List.mem_range.mpr (by omega))

/-! ### the knot -/

/-- `<Cls c'>.from_dict(j)` as the loop body sees it with `k` nesting levels left -/
def decAt (S : Schema) (E : Enums) (k : Nat) : Nat → JVal → R Val :=
  fun c' j => JsonMsg.toR (Src.class_from_dict S E k c' j)

theorem forget_ofR_toR {α} (r : Res α) (m : R α) (h : forget r = forget (ofR m)) :
    forget (ofR (JsonMsg.toR r)) = forget (ofR m) := by
  cases r with
  | ok a => exact h
  | raise e => exact h
  | diverge => cases m <;> simp [forget, ofR] at h

theorem clsFromDict_sim (S : Schema) (E : Enums) (k : Nat) (x : JVal)
    (ih : ∀ c', forget (Src.class_from_dict S E k c' x) = forget (ofR (fromDictC S E c' x))) (cls : Cls) :
    forget (clsFromDict (decAt S E k) cls x) = forget (clsFromDict (fromDictC S E) cls x) := by
  cases cls with
  | message c' => exact forget_ofR_toR _ _ (ih c')
  | _ => rfl

/-- `_from_dict_init` with the nested readers as written, against the hand-written loop of SrcTieFromDict -/
theorem init_eq (S : Schema) (E : Enums) (k : Nat) (c : Nat) (j : JVal)
    (ih : ∀ v ∈ jvals j, ∀ x ∈ jsubs v, ∀ c', forget (Src.class_from_dict S E k c' x) = forget (ofR (fromDictC S E c' x))) :
    forget (Src.json_from_dict_init S E (decAt S E k) c j) = forget (srcFromDictInit S E c j) := by
  rw [← init_model]
  exact init_sim S E c _ _ j (fun v hv cls x hx => clsFromDict_sim S E k x (ih v hv x hx) cls)

theorem finish_sim (fs : List FieldD) (r r' : Res Kwargs) (h : forget r = forget r') :
    forget (finish fs r) = forget (finish fs r') := sim_bind _ _ _ h

/-- **the class form `Cls.from_dict(j)` as written is the model's `fromDictC`**, nested to any depth -/
theorem class_from_dict_eq (S : Schema) (E : Enums) : ∀ (k : Nat) (c : Nat) (j : JVal), jOkAt S k j = true →
    forget (Src.class_from_dict S E k c j) = forget (ofR (fromDictC S E c j))
  | 0, _, _, h => by simp [jOkAt] at h
  | k + 1, c, j, h => by
    simp only [jOkAt, Bool.and_eq_true, List.all_eq_true] at h
    obtain ⟨hd, hsub⟩ := h
    have hinit := init_eq S E k c j (fun v hv x hx c' => class_from_dict_eq S E k c' x (hsub v hv x hx))
    have hfin := (finish_sim (fieldsOf S c) _ _ hinit).trans
      (from_dict_init_eq S E c j (dictOk_all S j (List.all_eq_true.mpr hd) c))
    rw [Src.class_from_dict]
    exact from_dict_cls_eq S c _ _ hfin

/-- **the instance form `m.from_dict(j)` as written is the model's `fromDictI`**, nested to any depth
    (the nested readers get the budget `k`) -/
theorem value_from_dict_eq (S : Schema) (E : Enums) (k : Nat) (c : Nat) (sl : List Val) (ow : Bool) (unk : Bytes)
    (cur : List (Option Nat)) (j : JVal) (h : jOkAt S (k + 1) j = true) :
    forget (Src.value_from_dict S E k (.msg c sl ow unk cur) j) = forget (ofR (fromDictI S E (.msg c sl ow unk cur) j)) := by
  simp only [jOkAt, Bool.and_eq_true, List.all_eq_true] at h
  obtain ⟨hd, hsub⟩ := h
  have hinit := init_eq S E k c j (fun v hv x hx c' => class_from_dict_eq S E k c' x (hsub v hv x hx))
  have hfin := (finish_sim (fieldsOf S c) _ _ hinit).trans
    (from_dict_init_eq S E c j (dictOk_all S j (List.all_eq_true.mpr hd) c))
  unfold Src.value_from_dict Src.json_from_dict_inst
  simp only [JsonMsg.onInstance]
  exact from_dict_inst_eq S c sl ow unk cur _ _ hfin

/-! ### `from_json` -/

/-- **`m.from_json(text)` as written is the model's `fromDictI` of `json.loads(text)`** -/
theorem value_from_json_eq (S : Schema) (E : Enums) (k : Nat) (c : Nat) (sl : List Val) (ow : Bool) (unk : Bytes)
    (cur : List (Option Nat)) (text : JsonMsg.JText) (h : ∀ j, JsonMsg.jsonLoads text = .ok j → jOkAt S (k + 1) j = true) :
    forget (Src.value_from_json S E k (.msg c sl ow unk cur) text)
      = forget ((JsonMsg.jsonLoads text).bind fun j => ofR (fromDictI S E (.msg c sl ow unk cur) j)) := by
  unfold Src.value_from_json Src.json_from_json
  simp only [JsonMsg.onInstance]
  cases hl : JsonMsg.jsonLoads text with
  | ok j =>
    have := value_from_dict_eq S E k c sl ow unk cur j (h j hl)
    unfold Src.value_from_dict at this
    simp only [JsonMsg.onInstance] at this
    simp only [res_bind_ok, res_bind_eta]
    exact this
  | raise e => rfl
  | diverge => rfl

end Bp.SrcTieJsonMsgLoad
