import BpProofs.SrcTieJsonMsg
/-
  The value guard `vOkAt` of the whole-method writer tie follows from the typing judgement of C04 / C05
  (`wellTyped'`) and `kOkAt k m`: every dict at every nesting level has pairwise distinct keys (what a Python
  dict is; the typing judgement does not say it) and the Message instances nest at most `k` levels deep.
-/
set_option linter.unusedSimpArgs false
set_option linter.unusedVariables false
namespace Bp.SrcTieJsonMsg
open Bp Bp.Py Gen Bp.SrcTieJson

/-- pairwise distinct dict keys at every nesting level, at most `k` nested levels of Message instances
    (decidable; recursion on the budget) -/
def kOkAt : Nat → Val → Bool
  | 0, _ => false
  | k + 1, .msg _ sl _ _ _ => sl.all fun v => keysDistinct v && (subs v).all fun x => !isMsgVal x || kOkAt k x
  | _ + 1, _ => false

/-- a larger budget is fine -/
theorem vOkAt_mono (S : Schema) : ∀ (k : Nat) (m : Val), vOkAt S k m = true → vOkAt S (k + 1) m = true
  | 0, m, h => by simp [vOkAt] at h
  | k + 1, m, h => by
    cases m with
    | msg c sl ow unk cur =>
      simp only [vOkAt, Bool.and_eq_true, beq_iff_eq, List.all_eq_true, Bool.or_eq_true, Bool.not_eq_true'] at h ⊢
      exact ⟨h.1, fun p hp => ⟨(h.2 p hp).1, fun x hx => ((h.2 p hp).2 x hx).imp id (vOkAt_mono S k x)⟩⟩
    | _ => simp [vOkAt] at h

theorem slotsOk'_get (S : Schema) (fs : List FieldD) (cur : List (Option Nat)) :
    ∀ (vs : List Val) (i : Nat), slotsOk' S fs cur i vs = true → ∀ (j : Nat) (f : FieldD) (v : Val),
      fs[i + j]? = some f → vs[j]? = some v →
      slotOk' S f (hidden f (i + j) cur) (selectedInGroup f (i + j) cur) v = true
  | [], _, _, j, f, v, _, hv => by simp at hv
  | w :: vs, i, h, j, f, v, hf, hv => by
    rw [slotsOk', Bool.and_eq_true] at h
    cases j with
    | zero =>
      simp only [List.getElem?_cons_zero, Option.some.injEq] at hv
      subst hv
      simp only [Nat.add_zero] at hf ⊢
      rw [hf] at h
      exact h.1
    | succ j =>
      have := slotsOk'_get S fs cur vs (i + 1) h.2 j f v (by rw [show i + 1 + j = i + (j + 1) by omega]; exact hf)
        (by simpa using hv)
      rw [show i + 1 + j = i + (j + 1) by omega] at this
      exact this

theorem items_typed (S : Schema) (f : FieldD) : ∀ (xs : List Val), itemsOk' S f xs = true → ∀ x ∈ xs,
    isMsgVal x = true → wellTyped' S x = true
  | [], _, x, hx, _ => by simp at hx
  | y :: ys, h, x, hx, hm => by
    rcases List.mem_cons.mp hx with hx | hx
    · subst hx
      cases x with
      | msg c sl ow unk cur =>
        simp only [itemsOk', Bool.and_eq_true] at h
        have h1 := h.1
        rw [wellTyped']
        simp only [Bool.and_eq_true]
        exact ⟨⟨⟨h1.1.1.1.2, h1.1.1.2⟩, h1.1.2⟩, h1.2⟩
      | _ => simp [isMsgVal] at hm
    · have h2 : itemsOk' S f ys = true := by
        cases y <;> simp only [itemsOk', Bool.and_eq_true] at h <;> exact h.2
      exact items_typed S f ys h2 x hx hm

theorem mapVals_typed (S : Schema) (f : FieldD) : ∀ (xs : List Val), mapValsOk' S f xs = true → ∀ x ∈ xs,
    isMsgVal x = true → wellTyped' S x = true
  | [], _, x, hx, _ => by simp at hx
  | y :: ys, h, x, hx, hm => by
    rcases List.mem_cons.mp hx with hx | hx
    · subst hx
      cases x with
      | msg c sl ow unk cur =>
        simp only [mapValsOk', Bool.and_eq_true] at h
        have h1 := h.1
        rw [wellTyped']
        simp only [Bool.and_eq_true]
        exact ⟨⟨⟨h1.1.1.1.2, h1.1.1.2⟩, h1.1.2⟩, h1.2⟩
      | _ => simp [isMsgVal] at hm
    · have h2 : mapValsOk' S f ys = true := by
        cases y <;> simp only [mapValsOk', Bool.and_eq_true] at h <;> exact h.2
      exact mapVals_typed S f ys h2 x hx hm

theorem valOfType_not_msg (t : PType) (x : Val) (h : valOfType t x = true) : isMsgVal x = false := by
  cases x <;> first | rfl | (cases t <;> simp [valOfType] at h)

/-- the Message instances a typed slot hands to the nested `to_dict` are typed messages -/
theorem subs_typed (S : Schema) (f : FieldD) (hid sel : Bool) (v : Val) (ht : slotOk' S f hid sel v = true)
    (x : Val) (hx : x ∈ subs v) (hm : isMsgVal x = true) : wellTyped' S x = true := by
  cases v with
  | list xs =>
    rw [slotOk'] at ht
    simp only [Bool.and_eq_true] at ht
    exact items_typed S f xs ht.2 x hx hm
  | dict ks vs =>
    rw [slotOk'] at ht
    simp only [Bool.and_eq_true, List.all_eq_true] at ht
    rcases List.mem_append.mp hx with hx | hx
    · have := valOfType_not_msg _ _ (ht.1.2 x hx)
      rw [this] at hm; cases hm
    · exact mapVals_typed S f vs ht.2 x hx hm
  | msg c sl ow unk cur =>
    simp only [subs, List.mem_singleton] at hx
    subst hx
    rw [slotOk'] at ht
    simp only [Bool.and_eq_true] at ht
    rw [wellTyped']
    simp only [Bool.and_eq_true]
    exact ⟨⟨⟨ht.1.1.1.2, ht.1.1.2⟩, ht.1.2⟩, ht.2⟩
  | _ => simp [subs] at hx

/-- **the value guard of the whole-method tie holds of every well-typed message** whose dicts have pairwise
    distinct keys and whose Message instances nest at most `k` levels deep -/
theorem vOkAt_of_typed (S : Schema) : ∀ (k : Nat) (m : Val), wellTyped' S m = true → kOkAt k m = true → vOkAt S k m = true
  | 0, m, _, h => by simp [kOkAt] at h
  | k + 1, m, ht, hk => by
    cases m with
    | msg c sl ow unk cur =>
      rw [wellTyped'] at ht
      simp only [Bool.and_eq_true, beq_iff_eq] at ht
      obtain ⟨⟨⟨_, hlen⟩, _⟩, hsl⟩ := ht
      simp only [kOkAt, List.all_eq_true, Bool.and_eq_true, Bool.or_eq_true, Bool.not_eq_true'] at hk
      simp only [vOkAt, Bool.and_eq_true, beq_iff_eq, List.all_eq_true, Bool.or_eq_true, Bool.not_eq_true']
      refine ⟨hlen.symm, fun p hp => ?_⟩
      obtain ⟨j, hj⟩ := List.mem_iff_getElem?.mp hp
      obtain ⟨hf, hv⟩ := List.getElem?_zip_eq_some.mp (show ((fieldsOf S c).zip sl)[j]? = some (p.1, p.2) from hj)
      have hslot := slotsOk'_get S _ cur sl 0 hsl j p.1 p.2 (by simpa using hf) hv
      simp only [Nat.zero_add] at hslot
      obtain ⟨hkd, hsub⟩ := hk p.2 (List.mem_of_getElem? hv)
      refine ⟨dynOkJ_of_slotOk' S p.1 _ _ p.2 hslot hkd, fun x hx => ?_⟩
      cases hm : isMsgVal x with
      | false => exact Or.inl rfl
      | true =>
        refine Or.inr (vOkAt_of_typed S k x (subs_typed S p.1 _ _ p.2 hslot x hx hm) ?_)
        rcases hsub x hx with h | h
        · rw [hm] at h; cases h
        · exact h
    | _ => simp [kOkAt] at hk

end Bp.SrcTieJsonMsg
