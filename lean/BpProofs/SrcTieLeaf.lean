import BpProofs.Gen.SrcLeaf
import BpProofs.SrcTieTime
import BpProofs.SrcTieJson
import BpProofs.SrcTieEnum
/-
  THE TIE BETWEEN THE TRANSLATED JSON LEAF CODECS AND THE MODEL.

  `Bp.Src.parse_float`, `dump_enum`, `parse_enum`, `duration_delta_from_json`,
  `timestamp_to_json` (BpProofs/Gen/SrcLeaf.lean) are regenerated from the Python AST of
  src/betterproto/__init__.py on every run.  The theorems below say that each computes what
  the model function computes (BpModel/Json.lean `parseFloat`, BpModel/EnumM.lean `dumpEnum` /
  `parseEnum`, BpModel/Time.lean `durFromJson` / `tsFrac`), up to the semantics of the Python
  primitives fixed in BpProofs/PyPreludeLeaf.lean (+ PyPreludeTime.lean).
-/
namespace Bp.SrcTieLeaf
open Bp Bp.Py Bp.EnumM Bp.PyEnum Bp.PyLeaf

theorem bind_ok_id {α : Type} (r : Res α) : (r.bind fun a => .ok a) = r := by
  cases r <;> rfl

/-! ### `_parse_float` -/

/-- the JSON leaf value is not a general `str` spelling one of the three spec strings (those
    texts are represented by `.fstr k`) -/
def canonFloatJ : JVal → Bool
  | .str u => !(u == "Infinity".toList.map Char.toNat || u == "-Infinity".toList.map Char.toNat
                || u == "NaN".toList.map Char.toNat)
  | _ => true

/-- `_parse_float` as written handles the three spec strings ITSELF, whatever the builtin `float`
    would do with them -/
theorem parse_float_specials (fl : JVal → Res Val) (t : PType) :
    Src.parse_float fl t (.fstr 0) = .ok (floatLit t "inf")
    ∧ Src.parse_float fl t (.fstr 1) = .ok (floatNeg (floatLit t "inf"))
    ∧ Src.parse_float fl t (.fstr 2) = .ok (floatLit t "nan") := by
  refine ⟨?_, ?_, ?_⟩ <;> simp [Src.parse_float, eqStrConst]

/-- … and is `float(value)` on every other value -/
theorem parse_float_other (fl : JVal → Res Val) (t : PType) (j : JVal) (hc : canonFloatJ j = true)
    (hk : ∀ k, k < 3 → j ≠ .fstr k) : Src.parse_float fl t j = fl j := by
  unfold Src.parse_float
  cases j with
  | fstr k =>
    match k, hk with
    | 0, hk => exact absurd rfl (hk 0 (by omega))
    | 1, hk => exact absurd rfl (hk 1 (by omega))
    | 2, hk => exact absurd rfl (hk 2 (by omega))
    | n + 3, _ => simp [eqStrConst, bind_ok_id]
  | str u =>
    simp [canonFloatJ] at hc
    simp [eqStrConst, hc, bind_ok_id]
  | _ => simp [eqStrConst, bind_ok_id]

theorem floatOf_eq (t : PType) (j : JVal) : floatOf t j = ofR (parseFloat t j) := by
  cases j <;> try rfl
  case fstr k =>
    unfold floatOf parseFloat floatLit floatNeg
    by_cases ht : t = .float
    · subst ht
      by_cases h0 : k = 0
      · subst h0; rfl
      · by_cases h1 : k = 1
        · subst h1; rfl
        · simp [h0, h1, ofR]
    · have : (t == PType.float) = false := by simpa using ht
      by_cases h0 : k = 0
      · subst h0; simp [this, ofR]
      · by_cases h1 : k = 1
        · subst h1; simp [this, ofR]
        · simp [h0, h1, this, ofR]

/-- `_parse_float` as written, with the builtin `float` of the prelude, is the model's `parseFloat` -/
theorem parse_float_eq (t : PType) (j : JVal) (hc : canonFloatJ j = true) :
    Src.parse_float (floatOf t) t j = ofR (parseFloat t j) := by
  by_cases hk : ∀ k, k < 3 → j ≠ .fstr k
  · rw [parse_float_other _ t j hc hk, floatOf_eq]
  · have : ∃ k, k < 3 ∧ j = .fstr k := by
      by_contra hn
      exact hk fun k hk3 he => hn ⟨k, hk3, he⟩
    obtain ⟨k, hk3, rfl⟩ := this
    have hs := parse_float_specials (floatOf t) t
    rw [← floatOf_eq]
    match k, hk3 with
    | 0, _ => rw [hs.1]; rfl
    | 1, _ => rw [hs.2.1]; rfl
    | 2, _ => rw [hs.2.2]; rfl

/-- `_parse_float(_dump_float(x))` as written, 32-bit patterns: every non-NaN float — ±∞ and ±0
    included — comes back as the same bit pattern; every NaN as the canonical quiet NaN -/
theorem parse_dump_float32 (b : Nat) :
    (Src.dump_float (.f32 b)).bind (Src.parse_float (floatOf .float) .float)
      = .ok (.f32 (if isNaN32 b then 0x7fc00000 else b)) := by
  rw [SrcTieJson.dump_float_eq]
  show Src.parse_float (floatOf .float) .float (dumpFloat (.f32 b)) = _
  unfold dumpFloat
  by_cases h0 : b = 0x7f800000
  · subst h0; exact (parse_float_specials _ _).1
  · by_cases h1 : b = 0xff800000
    · subst h1; exact (parse_float_specials _ _).2.1
    · by_cases h2 : isNaN32 b = true
      · simp only [beq_iff_eq, h0, h1, h2, if_false, if_true]
        exact (parse_float_specials _ _).2.2
      · simp only [beq_iff_eq, h0, h1, h2, if_false]
        rw [parse_float_other _ _ _ rfl (by intro k _ h; cases h)]
        simp [floatOf]

/-- … and 64-bit patterns -/
theorem parse_dump_float64 (b : Nat) :
    (Src.dump_float (.f64 b)).bind (Src.parse_float (floatOf .double) .double)
      = .ok (.f64 (if isNaN64 b then 0x7ff8000000000000 else b)) := by
  rw [SrcTieJson.dump_float_eq]
  show Src.parse_float (floatOf .double) .double (dumpFloat (.f64 b)) = _
  unfold dumpFloat
  by_cases h0 : b = 0x7ff0000000000000
  · subst h0; exact (parse_float_specials _ _).1
  · by_cases h1 : b = 0xfff0000000000000
    · subst h1; exact (parse_float_specials _ _).2.1
    · by_cases h2 : isNaN64 b = true
      · simp only [beq_iff_eq, h0, h1, h2, if_false, if_true]
        exact (parse_float_specials _ _).2.2
      · simp only [beq_iff_eq, h0, h1, h2, if_false]
        rw [parse_float_other _ _ _ rfl (by intro k _ h; cases h)]
        simp [floatOf]

/-! ### `_dump_enum` / `_parse_enum` -/

variable {ν : Type} [DecidableEq ν]

/-- `_dump_enum` as written (around `EnumType.__call__` as written) is the model's `dumpEnum` -/
theorem dump_enum_eq (cls : ClsObj ν) (v : Int) : Src.dump_enum cls v = .ok (EnumM.dumpEnum cls.st v) := by
  unfold Src.dump_enum EnumM.dumpEnum
  rw [SrcTieEnum.call_eq]
  unfold call
  cases assoc v cls.st.valueMap with
  | some m => rfl
  | none => rfl

/-- `_parse_enum` as written (around `from_string` / `try_value` as written) is the model's
    `parseEnum`: result and class afterwards -/
theorem parse_enum_eq (cls : ClsObj ν) (j : JEnum ν) :
    Src.parse_enum cls j
      = (ofR (EnumM.parseEnum cls.st j).2).bind fun m => .ok (m, { cls with st := (EnumM.parseEnum cls.st j).1 }) := by
  cases j with
  | name n =>
    unfold Src.parse_enum
    simp only [EnumM.parseEnum]
    rw [SrcTieEnum.from_string_eq]
  | num v =>
    unfold Src.parse_enum
    simp only [EnumM.parseEnum]
    rw [SrcTieEnum.try_value_eq]
    rfl

end Bp.SrcTieLeaf
