import BpProofs.Gen.SrcLeaf
import BpProofs.SrcTieTime
import BpProofs.SrcTieJson
import BpProofs.SrcTieEnum
/-
  THE TIE BETWEEN THE TRANSLATED JSON LEAF CODECS AND THE MODEL.

  `Bp.Src.parse_float`, `dump_enum`, `parse_enum`, `duration_delta_from_json`,
  `timestamp_to_json` (BpProofs/Gen/SrcLeaf.lean) are regenerated from the Python AST of
  src/betterproto/__init__.py on every run.  The theorems below say that each computes what
  the model function computes (BpModel/Json.lean `parseFloat`, BpModel/EnumM.lean `dumpEnum` /
  `parseEnum`, BpModel/Time.lean `durFromJson` / `tsFrac`), up to the semantics of the Python
  primitives fixed in BpProofs/PyPreludeLeaf.lean (+ PyPreludeTime.lean).
-/
namespace Bp.SrcTieLeaf
open Bp Bp.Py Bp.EnumM Bp.PyEnum Bp.PyLeaf

theorem bind_ok_id {α : Type} (r : Res α) : (r.bind fun a => .ok a) = r := by
  cases r <;> rfl

/-! ### `_parse_float` -/

/-- the JSON leaf value is not a general `str` spelling one of the three spec strings (those
    texts are represented by `.fstr k`) -/
def canonFloatJ : JVal → Bool
  | .str u => !(u == "Infinity".toList.map Char.toNat || u == "-Infinity".toList.map Char.toNat
                || u == "NaN".toList.map Char.toNat)
  | _ => true

/-- `_parse_float` as written handles the three spec strings ITSELF, whatever the builtin `float`
    would do with them -/
theorem parse_float_specials (fl : JVal → Res Val) (t : PType) :
    Src.parse_float fl t (.fstr 0) = .ok (floatLit t "inf")
    ∧ Src.parse_float fl t (.fstr 1) = .ok (floatNeg (floatLit t "inf"))
    ∧ Src.parse_float fl t (.fstr 2) = .ok (floatLit t "nan") := by
  refine ⟨?_, ?_, ?_⟩ <;> simp [Src.parse_float, eqStrConst]

/-- … and is `float(value)` on every other value -/
theorem parse_float_other (fl : JVal → Res Val) (t : PType) (j : JVal) (hc : canonFloatJ j = true)
    (hk : ∀ k, k < 3 → j ≠ .fstr k) : Src.parse_float fl t j = fl j := by
  unfold Src.parse_float
  cases j with
  | fstr k =>
    match k, hk with
    | 0, hk => exact absurd rfl (hk 0 (by omega))
    | 1, hk => exact absurd rfl (hk 1 (by omega))
    | 2, hk => exact absurd rfl (hk 2 (by omega))
    | n + 3, _ => simp [eqStrConst, bind_ok_id]
  | str u =>
    simp [canonFloatJ] at hc
    simp [eqStrConst, hc, bind_ok_id]
  | _ => simp [eqStrConst, bind_ok_id]

theorem floatOf_eq (t : PType) (j : JVal) : floatOf t j = ofR (parseFloat t j) := by
  cases j <;> try rfl
  case fstr k =>
    unfold floatOf parseFloat floatLit floatNeg
    by_cases ht : t = .float
    · subst ht
      by_cases h0 : k = 0
      · subst h0; rfl
      · by_cases h1 : k = 1
        · subst h1; rfl
        · simp [h0, h1, ofR]
    · have : (t == PType.float) = false := by simpa using ht
      by_cases h0 : k = 0
      · subst h0; simp [this, ofR]
      · by_cases h1 : k = 1
        · subst h1; simp [this, ofR]
        · simp [h0, h1, this, ofR]

/-- `_parse_float` as written, with the builtin `float` of the prelude, is the model's `parseFloat` -/
theorem parse_float_eq (t : PType) (j : JVal) (hc : canonFloatJ j = true) :
    Src.parse_float (floatOf t) t j = ofR (parseFloat t j) := by
  by_cases hk : ∀ k, k < 3 → j ≠ .fstr k
  · rw [parse_float_other _ t j hc hk, floatOf_eq]
  · have : ∃ k, k < 3 ∧ j = .fstr k := by
      by_contra hn
      exact hk fun k hk3 he => hn ⟨k, hk3, he⟩
    obtain ⟨k, hk3, rfl⟩ := this
    have hs := parse_float_specials (floatOf t) t
    rw [← floatOf_eq]
    match k, hk3 with
    | 0, _ => rw [hs.1]; rfl
    | 1, _ => rw [hs.2.1]; rfl
    | 2, _ => rw [hs.2.2]; rfl

/-- `_parse_float(_dump_float(x))` as written, 32-bit patterns: every non-NaN float — ±∞ and ±0
    included — comes back as the same bit pattern; every NaN as the canonical quiet NaN -/
theorem parse_dump_float32 (b : Nat) :
    (Src.dump_float (.f32 b)).bind (Src.parse_float (floatOf .float) .float)
      = .ok (.f32 (if isNaN32 b then 0x7fc00000 else b)) := by
  rw [SrcTieJson.dump_float_eq]
  show Src.parse_float (floatOf .float) .float (dumpFloat (.f32 b)) = _
  unfold dumpFloat
  by_cases h0 : b = 0x7f800000
  · subst h0; exact (parse_float_specials _ _).1
  · by_cases h1 : b = 0xff800000
    · subst h1; exact (parse_float_specials _ _).2.1
    · by_cases h2 : isNaN32 b = true
      · simp only [beq_iff_eq, h0, h1, h2, if_false, if_true]
        exact (parse_float_specials _ _).2.2
      · simp only [beq_iff_eq, h0, h1, h2, if_false]
        rw [parse_float_other _ _ _ rfl (by intro k _ h; cases h)]
        simp [floatOf]

/-- … and 64-bit patterns -/
theorem parse_dump_float64 (b : Nat) :
    (Src.dump_float (.f64 b)).bind (Src.parse_float (floatOf .double) .double)
      = .ok (.f64 (if isNaN64 b then 0x7ff8000000000000 else b)) := by
  rw [SrcTieJson.dump_float_eq]
  show Src.parse_float (floatOf .double) .double (dumpFloat (.f64 b)) = _
  unfold dumpFloat
  by_cases h0 : b = 0x7ff0000000000000
  · subst h0; exact (parse_float_specials _ _).1
  · by_cases h1 : b = 0xfff0000000000000
    · subst h1; exact (parse_float_specials _ _).2.1
    · by_cases h2 : isNaN64 b = true
      · simp only [beq_iff_eq, h0, h1, h2, if_false, if_true]
        exact (parse_float_specials _ _).2.2
      · simp only [beq_iff_eq, h0, h1, h2, if_false]
        rw [parse_float_other _ _ _ rfl (by intro k _ h; cases h)]
        simp [floatOf]

/-! ### `_dump_enum` / `_parse_enum` -/

variable {ν : Type} [DecidableEq ν]

/-- `_dump_enum` as written (around `EnumType.__call__` as written) is the model's `dumpEnum` -/
theorem dump_enum_eq (cls : ClsObj ν) (v : Int) : Src.dump_enum cls v = .ok (EnumM.dumpEnum cls.st v) := by
  unfold Src.dump_enum EnumM.dumpEnum
  rw [SrcTieEnum.call_eq]
  unfold call
  cases assoc v cls.st.valueMap with
  | some m => rfl
  | none => rfl

/-- `_parse_enum` as written (around `from_string` / `try_value` as written) is the model's
    `parseEnum`: result and class afterwards -/
theorem parse_enum_eq (cls : ClsObj ν) (j : JEnum ν) :
    Src.parse_enum cls j
      = (ofR (EnumM.parseEnum cls.st j).2).bind fun m => .ok (m, { cls with st := (EnumM.parseEnum cls.st j).1 }) := by
  cases j with
  | name n =>
    unfold Src.parse_enum
    simp only [EnumM.parseEnum]
    rw [SrcTieEnum.from_string_eq]
  | num v =>
    unfold Src.parse_enum
    simp only [EnumM.parseEnum]
    rw [SrcTieEnum.try_value_eq]
    rfl

/-! ### `_Timestamp.timestamp_to_json`, whole -/

/-- the fraction of the model (`tsFrac`, BpModel/Time.lean) as the f-string parameters -/
def fracJ (u : Nat) : Option (Int × Int) := (tsFrac u).map fun p => ((p.1 : Int), (p.2 : Int))

/-- what `timestamp_to_json` as written returns, for EVERY datetime: the calendar text of the
    whole second of the UTC-normalised reading (`instant / 10^6`) and the fraction `tsFrac` of THAT reading
    (since the repair D52 `dt.microsecond` is read after `astimezone`; before it, the fraction was the one of
    the original wall clock, which differs for a utcoffset that is not a whole number of seconds) -/
def tsJsonOf (d : DT) : TsText := ⟨⟨d.instant / 1000000⟩, fracJ (d.instant % 1000000).toNat⟩

/-- the model text of an instant (microseconds since the epoch): RFC 3339 in UTC with 0 / 3 / 6
    fractional digits and the suffix "Z" — what `JVal.tsStr us` stands for -/
def tsJsonText (us : Int) : TsText := ⟨⟨us / 1000000⟩, fracJ (us % 1000000).toNat⟩

/-- the fraction of a second the f-string parameters spell, in microseconds: `digits / 10^W` s -/
def fracUsOf : Option (Int × Int) → Int
  | none => 0
  | some (w, dg) => dg * 10 ^ (6 - w).toNat

/-- the instant a `TsText` spells, in microseconds -/
def tsTextUs (t : TsText) : Int := t.iso.secs * 1000000 + fracUsOf t.frac

theorem frac_chain (u : Nat) (hlt : u < 1000000) (r : IsoText) :
    ((Py.fmod ((u : Int) * 1000) 1000000000).bind fun t4 =>
      if (decide (t4 = (0 : Int))) then .ok (PyLeaf.tsText r Py.fmtFrac0)
      else (Py.fmod ((u : Int) * 1000) 1000000).bind fun t5 =>
        if (decide (t5 = (0 : Int))) then
          (Py.ffloordiv ((u : Int) * 1000) 1000000).bind fun t6 => .ok (PyLeaf.tsText r (Py.fmtFrac 3 t6))
        else (Py.fmod ((u : Int) * 1000) 1000).bind fun t7 =>
          if (decide (t7 = (0 : Int))) then
            (Py.ffloordiv ((u : Int) * 1000) 1000).bind fun t8 => .ok (PyLeaf.tsText r (Py.fmtFrac 6 t8))
          else (.raise .value : Res TsText))
      = .ok ⟨r, fracJ u⟩ := by
  rw [SrcTie.fmod_e9 u hlt, SrcTie.ok_bind, SrcTie.fmod_e6 u hlt, SrcTie.ok_bind, SrcTie.fdiv_e6 u hlt, SrcTie.ok_bind,
    SrcTie.fmod_e3 u, SrcTie.ok_bind, SrcTie.fdiv_e3 u hlt, SrcTie.ok_bind]
  simp only [decide_eq_true_eq, Py.fmtFrac0, Py.fmtFrac, if_true, PyLeaf.tsText, fracJ, tsFrac]
  by_cases h0 : u = 0
  · have h0' : (u : Int) * 1000 = 0 := by omega
    rw [if_pos h0', if_pos h0]; rfl
  · have h0' : ¬ ((u : Int) * 1000 = 0) := by omega
    rw [if_neg h0', if_neg h0]
    by_cases h1 : u % 1000 = 0
    · have h1' : ((u % 1000 : Nat) : Int) * 1000 = 0 := by omega
      rw [if_pos h1', if_pos h1]; rfl
    · have h1' : ¬ (((u % 1000 : Nat) : Int) * 1000 = 0) := by omega
      rw [if_neg h1', if_neg h1]; rfl



theorem isoformat_replace (d : DT) : PyLeaf.isoformat (PyLeaf.replaceMicro0Naive d) = .ok ⟨d.wall / 1000000⟩ := by
  unfold PyLeaf.isoformat PyLeaf.replaceMicro0Naive
  have hz : (d.wall - d.wall % 1000000) % 1000000 = 0 := by omega
  have hq : (d.wall - d.wall % 1000000) / 1000000 = d.wall / 1000000 := by omega
  rw [if_pos ⟨rfl, hz⟩, hq]

/-- `_Timestamp.timestamp_to_json` as written, WHOLE, on every datetime (aware with any offset, or naive):
    the float arithmetic stays exact, the last branch is not reached, the result is `tsJsonOf` -/
theorem dtMicro (w : Int) (o : Option Int) : PyLeaf.dtMicrosecond ⟨w, o⟩ = (((w % 1000000).toNat : Nat) : Int) := by
  unfold PyLeaf.dtMicrosecond; simp only; omega

theorem timestamp_to_json_eq (d : DT) : Src.timestamp_to_json d = .ok (tsJsonOf d) := by
  obtain ⟨wall, off⟩ := d
  unfold Src.timestamp_to_json
  cases off with
  | none =>
    have hlt : (wall % 1000000).toNat < 1000000 := by omega
    rw [if_neg (by simp [PyLeaf.tzinfoIsNotNone])]
    rw [dtMicro, SrcTie.fmul_us _ hlt, SrcTie.ok_bind]
    simp only []
    rw [isoformat_replace, SrcTie.ok_bind, frac_chain _ hlt]
    simp only [tsJsonOf, DT.instant, Option.getD_none, Int.sub_zero]
  | some o =>
    have hlt : ((wall - o) % 1000000).toNat < 1000000 := by omega
    rw [if_pos (by simp [PyLeaf.tzinfoIsNotNone])]
    simp only [PyLeaf.astimezoneUtc, SrcTie.ok_bind]
    rw [dtMicro, SrcTie.fmul_us _ hlt, SrcTie.ok_bind]
    rw [isoformat_replace, SrcTie.ok_bind, frac_chain _ hlt]
    simp only [tsJsonOf, DT.instant, Option.getD_some]


/-- UTC normalisation preserves the microsecond when the offset is a whole number of seconds
    (every IANA zone, every `timezone(timedelta(hours=…, minutes=…, seconds=…))`) -/
theorem tsJsonOf_whole_offset (d : DT) (_h : d.off.getD 0 % 1000000 = 0) : tsJsonOf d = tsJsonText d.instant := rfl

/-- … and, since the repair D52, for EVERY offset -/
theorem tsJsonOf_eq (d : DT) : tsJsonOf d = tsJsonText d.instant := rfl

theorem fracUs (u : Nat) (_hlt : u < 1000000) :
    fracUsOf (fracJ u) = (u : Int) := by
  unfold fracJ tsFrac
  by_cases h0 : u = 0
  · rw [if_pos h0]; simp only [Option.map_none, fracUsOf]; omega
  · rw [if_neg h0]
    by_cases h1 : u % 1000 = 0
    · rw [if_pos h1]; simp only [Option.map_some, fracUsOf]
      have : ((6 : Int) - ((3 : Nat) : Int)).toNat = 3 := by decide
      rw [this]; simp only [show (10 : Int) ^ 3 = 1000 from rfl]; push_cast; omega
    · rw [if_neg h1]; simp only [Option.map_some, fracUsOf]
      have : ((6 : Int) - ((6 : Nat) : Int)).toNat = 0 := by decide
      rw [this, Int.pow_zero, Int.mul_one]

/-- the model text spells the instant exactly -/
theorem tsTextUs_tsJsonText (us : Int) : tsTextUs (tsJsonText us) = us := by
  have hlt : (us % 1000000).toNat < 1000000 := by omega
  unfold tsTextUs tsJsonText
  simp only
  rw [fracUs _ hlt]
  omega

/-! ### `_Duration.delta_from_json` -/

theorem digit_ne_point (c : Char) (h : c.isDigit = true) : (c != '.') = true := by
  simp only [bne_iff_ne, ne_eq]
  intro he; subst he; exact absurd h (by decide)

theorem takeWhile_digits (ip rest : Text) (hi : allDigits ip = true) :
    (ip ++ '.' :: rest).takeWhile (· != '.') = ip ∧ (ip ++ '.' :: rest).dropWhile (· != '.') = '.' :: rest := by
  induction ip with
  | nil => simp
  | cons c cs ih =>
    simp only [allDigits, List.all_cons, Bool.and_eq_true] at hi
    have hc := digit_ne_point c hi.1
    have := ih (by simpa [allDigits] using hi.2)
    simp only [List.cons_append, List.takeWhile, List.dropWhile, hc, this.1, this.2, and_self]

/-- `Decimal` of the unsigned literal `ip.fp` (either part may be empty, not both) -/
theorem decimalBody_point (neg : Bool) (ip fp : Text) (hi : allDigits ip = true) (hf : allDigits fp = true)
    (hne : ¬ (ip = [] ∧ fp = [])) :
    decimalBody neg (ip ++ '.' :: fp) = .ok ⟨neg, Nat.ofDigitChars 10 (ip ++ fp) 0, fp.length⟩ := by
  unfold decimalBody
  obtain ⟨h1, h2⟩ := takeWhile_digits ip fp hi
  simp only [h1, h2, List.drop_one, List.tail_cons, hi, hf, Bool.true_and]
  have : (ip.isEmpty && fp.isEmpty) = false := by
    cases ip <;> cases fp <;> simp_all
  simp [this]

/-- a literal that starts with a digit or the point has no sign -/
theorem splitSign_unsigned (ip rest : Text) (hi : allDigits ip = true) :
    splitSign (ip ++ '.' :: rest) = (false, ip ++ '.' :: rest) := by
  cases ip with
  | nil => simp [splitSign]
  | cons c cs =>
    simp only [allDigits, List.all_cons, Bool.and_eq_true] at hi
    have h1 : c ≠ '-' := by intro he; subst he; exact absurd hi.1 (by decide)
    have h2 : c ≠ '+' := by intro he; subst he; exact absurd hi.1 (by decide)
    simp [splitSign, h1, h2]

/-- `Decimal(sign ++ ip ++ "." ++ fp)` for the signs "", "-", "+" -/
theorem decimalOf_point (neg : Bool) (ip fp : Text) (hi : allDigits ip = true) (hf : allDigits fp = true)
    (hne : ¬ (ip = [] ∧ fp = [])) :
    decimalOf ((if neg then ['-'] else []) ++ (ip ++ '.' :: fp))
      = .ok ⟨neg, Nat.ofDigitChars 10 (ip ++ fp) 0, fp.length⟩ := by
  unfold decimalOf
  cases neg with
  | false =>
    simp only [Bool.false_eq_true, if_false, List.nil_append]
    rw [splitSign_unsigned ip fp hi]
    exact decimalBody_point false ip fp hi hf hne
  | true =>
    simp only [if_true, List.cons_append, List.nil_append, splitSign]
    exact decimalBody_point true ip fp hi hf hne

theorem decimalOf_plus (ip fp : Text) (hi : allDigits ip = true) (hf : allDigits fp = true)
    (hne : ¬ (ip = [] ∧ fp = [])) :
    decimalOf ('+' :: (ip ++ '.' :: fp)) = .ok ⟨false, Nat.ofDigitChars 10 (ip ++ fp) 0, fp.length⟩ := by
  unfold decimalOf
  simp only [splitSign, show ('+' : Char) ≠ '-' by decide, if_false, if_true]
  exact decimalBody_point false ip fp hi hf hne

/-- **`delta_from_json` as written on a decimal literal followed by ONE character** (the "s";
    `value[:-1]` drops whatever stands there): the exact value times 10^6, truncated toward zero -/
theorem delta_from_json_literal (neg : Bool) (ip fp : Text) (c : Char) (hi : allDigits ip = true)
    (hf : allDigits fp = true) (hne : ¬ (ip = [] ∧ fp = []))
    (hb : Nat.ofDigitChars 10 (ip ++ fp) 0 * 1000000 < 10 ^ 28) :
    Src.duration_delta_from_json ((if neg then ['-'] else []) ++ (ip ++ '.' :: fp) ++ [c])
      = .ok (let q : Int := ((Nat.ofDigitChars 10 (ip ++ fp) 0 * 1000000 / 10 ^ fp.length : Nat) : Int)
             if neg then -q else q) := by
  unfold Src.duration_delta_from_json
  rw [show dropLast1 ((if neg then ['-'] else []) ++ (ip ++ '.' :: fp) ++ [c])
        = (if neg then ['-'] else []) ++ (ip ++ '.' :: fp) from List.dropLast_concat]
  rw [decimalOf_point neg ip fp hi hf hne, SrcTie.ok_bind]
  unfold decMulInt
  simp only [show (1000000 : Int).toNat = 1000000 from rfl]
  rw [if_pos ⟨by decide, hb⟩, SrcTie.ok_bind]
  simp only [intOfDec, Py.timedelta, Res.ok.injEq]
  omega

theorem allDigits_toDigits (n : Nat) : allDigits (Nat.toDigits 10 n) = true := by
  unfold allDigits
  rw [List.all_eq_true]
  intro c hc
  exact Nat.isDigit_of_mem_toDigits (by decide) (by decide) hc

theorem allDigits_pad (k n : Nat) : allDigits (List.replicate k '0' ++ Nat.toDigits 10 n) = true := by
  unfold allDigits
  rw [List.all_append, Bool.and_eq_true]
  refine ⟨?_, allDigits_toDigits n⟩
  rw [List.all_eq_true]
  intro c hc
  rw [List.eq_of_mem_replicate hc]; decide

/-- the characters of `f"{sign}{s}.{d:0Wd}s"` for natural `s`, `d`, `W` -/
theorem renderSecs_nat (neg : Bool) (s nd d : Nat) :
    renderSecs (neg, (s : Int), (nd : Int), (d : Int))
      = (if neg then ['-'] else []) ++ (Nat.toDigits 10 s ++ '.' ::
          (List.replicate (nd - (Nat.toDigits 10 d).length) '0' ++ Nat.toDigits 10 d)) ++ ['s'] := by
  unfold renderSecs strInt zeroPad
  have h1 : ¬ ((s : Int) < 0) := by omega
  have h2 : ¬ ((d : Int) < 0) := by omega
  simp only [h1, h2, if_false, Int.natAbs_natCast, Int.toNat_natCast, List.append_assoc, List.cons_append,
    List.nil_append]

theorem padded_value (s nd d : Nat) (h0 : 0 < nd) (hd : d < 10 ^ nd) :
    Nat.ofDigitChars 10 (Nat.toDigits 10 s ++ (List.replicate (nd - (Nat.toDigits 10 d).length) '0' ++ Nat.toDigits 10 d)) 0
        = 10 ^ nd * s + d
    ∧ (List.replicate (nd - (Nat.toDigits 10 d).length) '0' ++ Nat.toDigits 10 d).length = nd := by
  have hl : (Nat.toDigits 10 d).length ≤ nd := (Nat.length_toDigits_le_iff (by decide) h0).2 hd
  constructor
  · rw [Nat.ofDigitChars_append, Nat.ofDigitChars_ten_toDigits, Nat.ofDigitChars_append,
      Nat.ofDigitChars_replicate_zero, Nat.ofDigitChars_eq_ofDigitChars_zero, Nat.ofDigitChars_ten_toDigits,
      ← Nat.mul_assoc, ← Nat.pow_add]
    rw [show (Nat.toDigits 10 d).length + (nd - (Nat.toDigits 10 d).length) = nd by omega]
  · rw [List.length_append, List.length_replicate]; omega

/-- **`delta_from_json` as written on the text `sign s . d(W digits) "s"` is the model's `durFromJson`**,
    for every number of fractional digits W ≥ 1, as long as the coefficient times 10^6 fits the 28
    digits of the decimal context -/
theorem delta_from_json_eq (neg : Bool) (s nd d : Nat) (h0 : 0 < nd) (hd : d < 10 ^ nd)
    (hb : (10 ^ nd * s + d) * 1000000 < 10 ^ 28) :
    Src.duration_delta_from_json (renderSecs (neg, (s : Int), (nd : Int), (d : Int))) = .ok (durFromJson neg s nd d) := by
  obtain ⟨hv, hl⟩ := padded_value s nd d h0 hd
  rw [renderSecs_nat, delta_from_json_literal neg _ _ 's' (allDigits_toDigits s) (allDigits_pad _ d)
    (by intro h; exact Nat.toDigits_ne_nil h.1) (by rw [hv]; exact hb)]
  rw [hv, hl]
  unfold durFromJson
  have : (10 ^ nd * s + d) * 1000000 / 10 ^ nd = s * 1000000 + d * 1000000 / 10 ^ nd := by
    rw [Nat.add_mul, Nat.mul_assoc, Nat.mul_add_div (Nat.pow_pos (by decide))]
  simp only [this]

end Bp.SrcTieLeaf
