import BpProofs.SrcTieLeaf
import BpProofs.EnumM
/- bridge between the enum classes of the JSON model (`EnumDef`, BpModel/Json.lean) and the classes
   `EnumType.__new__` builds (BpModel/EnumM.lean): the intrinsics `Py.dumpEnumOf` / `Py.parseEnum` of the
   to_dict / from_dict preludes ARE `_dump_enum` / `_parse_enum` as written (Gen/SrcLeaf.lean). -/
namespace Bp.SrcTieLeaf
open Bp Bp.Py Bp.EnumM Bp.PyEnum Bp.PyLeaf Bp.SrcTieEnum

/-! ### bridge: the enum classes of BpModel/Json.lean (`EnumDef`) are classes built by `EnumType.__new__` -/

/-- the `members` dict of the class statement an `EnumDef` stands for: Python member name ↦ number -/
def declOf (e : EnumDef) : Decl Bytes := e.map fun m => (m.py, m.num)

/-- the class object `EnumType.__new__` builds for it (Props/C20Src.lean `src_new`) -/
def clsOf (e : EnumDef) : ClsObj Bytes := obj (mk (declOf e))

/-- a JSON enum value as a `JVal` -/
def jOfEnum : JEnum Bytes → JVal
  | .name n => .str n
  | .num v => .num v

theorem enumByNum_first (e : EnumDef) (v : Int) :
    (∀ m, enumByNum e v = some m → FirstName (declOf e) v m.py)
    ∧ (enumByNum e v = none → ¬ Defined (declOf e) v) := by
  induction e with
  | nil =>
    refine ⟨fun m h => by simp [enumByNum] at h, fun _ h => ?_⟩
    obtain ⟨n, hn⟩ := h
    simp [declOf] at hn
  | cons a rest ih =>
    by_cases hv : a.num = v
    · refine ⟨fun m h => ?_, fun h => ?_⟩
      · simp only [enumByNum, beq_iff_eq, hv, if_true, Option.some.injEq] at h
        subst h
        rw [← hv]
        exact firstName_head _ _ _
      · simp [enumByNum, hv] at h
    · refine ⟨fun m h => ?_, fun h hd => ?_⟩
      · simp only [enumByNum, beq_iff_eq, hv, if_false] at h
        exact firstName_tail _ _ _ _ _ hv (ih.1 m h)
      · simp only [enumByNum, beq_iff_eq, hv, if_false] at h
        obtain ⟨n, hn⟩ := hd
        simp only [declOf, List.map_cons, List.mem_cons, Prod.mk.injEq] at hn
        rcases hn with ⟨_, h2⟩ | hn
        · exact hv h2.symm
        · exact ih.2 h ⟨n, hn⟩

/-- **`Bp.dumpEnum e` (the intrinsic `Py.dumpEnumOf` of BpProofs/PyPreludeJson.lean) is `_dump_enum`
    as written** applied to the class `EnumType.__new__` builds for `e` -/
theorem dump_enum_bridge (e : EnumDef) (v : Int) :
    ∃ j, Src.dump_enum (clsOf e) v = .ok (some j) ∧ jOfEnum j = Bp.dumpEnum e (.int v) := by
  rw [dump_enum_eq]
  unfold EnumM.dumpEnum call clsOf
  simp only [obj]
  cases h : enumByNum e v with
  | some m =>
    obtain ⟨oid, ho⟩ := mk_valueMap_first (declOf e) v m.py ((enumByNum_first e v).1 m h)
    rw [ho]
    exact ⟨.name m.py, rfl, by simp [jOfEnum, Bp.dumpEnum, h]⟩
  | none =>
    rw [mk_valueMap_none (declOf e) v ((enumByNum_first e v).2 h)]
    exact ⟨.num v, rfl, by simp [jOfEnum, Bp.dumpEnum, h]⟩


theorem enumByPy_spec (e : EnumDef) (n : Bytes) :
    (∀ m, enumByPy e n = some m → (n, m.num) ∈ declOf e)
    ∧ (enumByPy e n = none → ∀ p ∈ declOf e, p.1 ≠ n) := by
  induction e with
  | nil => exact ⟨fun m h => by simp [enumByPy] at h, fun _ p hp => by simp [declOf] at hp⟩
  | cons a rest ih =>
    by_cases hv : a.py = n
    · refine ⟨fun m h => ?_, fun h => ?_⟩
      · simp only [enumByPy, beq_iff_eq, hv, if_true, Option.some.injEq] at h
        subst h
        simp [declOf, hv]
      · simp [enumByPy, hv] at h
    · refine ⟨fun m h => ?_, fun h p hp => ?_⟩
      · simp only [enumByPy, beq_iff_eq, hv, if_false] at h
        have := ih.1 m h
        simp only [declOf, List.map_cons, List.mem_cons] at this ⊢
        exact Or.inr this
      · simp only [enumByPy, beq_iff_eq, hv, if_false] at h
        simp only [declOf, List.map_cons, List.mem_cons] at hp
        rcases hp with hp | hp
        · subst hp; exact hv
        · exact ih.2 h p hp

/-- **`Bp.parseEnum e` (the intrinsic `Py.parseEnum` of BpProofs/PyPreludeFromDict.lean) is the number of
    what `_parse_enum` as written returns** on the class `EnumType.__new__` builds for `e` (member
    names pairwise distinct: the class body is a dict) -/
theorem parse_enum_bridge (e : EnumDef) (hnd : NamesNodup (declOf e) = true) (j : JEnum Bytes) :
    (Src.parse_enum (clsOf e) j).bind (fun p => .ok (Val.int p.1.number)) = ofR (Bp.parseEnum e (jOfEnum j)) := by
  rw [parse_enum_eq]
  cases j with
  | name n =>
    simp only [EnumM.parseEnum, jOfEnum, Bp.parseEnum, clsOf, obj, fromString]
    cases h : enumByPy e n with
    | some m =>
      obtain ⟨m', h1, h2⟩ := mk_memberMap_decl (declOf e) n m.num hnd ((enumByPy_spec e n).1 m h)
      rw [h1]
      have := (mk_inv (declOf e)).num m.num m' h2
      simp [ofR, Res.bind, this]
    | none =>
      rw [mk_memberMap_none (declOf e) n ((enumByPy_spec e n).2 h)]
      rfl
  | num v =>
    simp only [EnumM.parseEnum, jOfEnum, Bp.parseEnum, clsOf, obj]
    have := tryValue_number (mk (declOf e)) v (mk_inv _)
    simp [ofR, Res.bind, this]

end Bp.SrcTieLeaf
